import Proofs.SortExt
import Proofs.SortCode
import Proofs.SortCanon
import Proofs.SortArity
import Proofs.SortFile
import Proofs.SortPassBytes
import Generated.C16
/-!
# C16 — External sort returns the sorted (and combined) multiset of its input

Statements over the model `Model/Sort.lean` of `util/stream/sort.hh`; helper lemmas are in
`Proofs/Sort*.lean`.  Everything is for an arbitrary record type `α`, an arbitrary `Bool`
comparison with the strict-weak-order laws as hypotheses, arbitrary chain blocks, an arbitrary
finite merge plan (any number of passes, each any partition of the run list into consecutive
groups — which includes the plan the code computes from `buffer_size`, `total_memory`,
`lazy_memory`), and an arbitrary tie-break policy `pick : Pick α` for the priority queue (a function
of the queue as initially filled, the step number and the current queue — every deterministic
heap, in particular `std::priority_queue`, is of this form).
`extSort … = some out` : `none` would mean the Offsets log could not be read back;
`extSort_isSome` shows that this never happens.
-/
namespace KV.C16
open KV.Sort List

variable {α : Type}

/-! ## The comparison functors of lm/common/compare.hh are strict weak orders -/

theorem prefixOrder_lawful : StrictWeak prefixLt := lexLt_strictWeak.comap _
theorem suffixOrder_lawful : StrictWeak suffixLt := lexLt_strictWeak.comap _
theorem contextOrder_lawful : StrictWeak contextLt := lexLt_strictWeak.comap _
theorem intOrder_lawful : StrictWeak intLt := lexLt_strictWeak.comap _
/-- on the one-word keys the integer orders use, `intLt` is the unsigned integer comparison -/
theorem intLt_singleton (a b p q : Nat) : intLt ⟨[a], p⟩ ⟨[b], q⟩ = decide (a < b) := by
  simp only [intLt, lexLt]
  by_cases h : a = b
  · subst h; simp
  · simp [h]
theorem fullOrder_lawful : StrictWeak fullLt := lexLt_strictWeak.comap _

/-- `fullLt` is a total order on whole records -/
theorem fullOrder_total (a b : Rec) (h1 : fullLt a b = false) (h2 : fullLt b a = false) : a = b := by
  have := lexLt_tri _ _ h1 h2
  have h := List.append_inj' this rfl
  cases a; cases b; simp_all

/-! ## Offsets -/

/-- **offsets_roundtrip**: after any sequence of `Append`s and `FinishedAppending`,
`RemainingBlocks()` is the number of non-zero lengths appended and that many `NextSize()`
calls return them in order (zero lengths are never logged; equal consecutive lengths share
one run-length entry). -/
theorem offsets_roundtrip (lengths : List Nat) :
    ∃ r, offsetsEncode lengths = some r ∧ r.blockCount = (lengths.filter (· ≠ 0)).length ∧
      offsetsDecode r = some (lengths.filter (· ≠ 0)) :=
  offsets_roundtrip_aux lengths

example : (offsetsEncode [5, 5, 0, 3, 3, 3, 7, 5, 5]).bind offsetsDecode = some [5, 5, 3, 3, 3, 7, 5, 5] := by decide
example : (offsetsEncode [5, 5, 0, 3, 3, 3, 7, 5, 5]).map (·.rest) = some [(3, 3), (7, 1), (5, 2)] := by decide

/-- the runs written to the data file are read back unchanged, minus the empty ones -/
theorem storeRuns_roundtrip {β : Type} (runs : List (List β)) :
    storeRuns runs = some (runs.filter (fun r => !r.isEmpty)) := storeRuns_eq runs

/-- the sort never fails on the Offsets log -/
theorem extSort_isSome (lt : α → α → Bool) (comb) (pick) (blocks : List (List α)) (plan) :
    ∃ out, extSort lt comb pick blocks plan = some out := by
  obtain ⟨runs', _, h⟩ := extSort_unfold lt comb pick blocks plan
  exact ⟨_, h⟩

/-! ## Merge of sorted runs -/

/-- **merge of sorted lists is sorted and a permutation** of their concatenation, whichever of
several equal minimal heads the priority queue returns -/
theorem merge_sorted_perm {lt : α → α → Bool} (h : StrictWeak lt) (pick) (runs : List (List α))
    (hr : ∀ r ∈ runs, r.Pairwise (fun a b => lt b a = false)) :
    (kmerge lt pick (toQueue runs)).Pairwise (fun a b => lt b a = false) ∧
      kmerge lt pick (toQueue runs) ~ runs.flatten :=
  ⟨kmerge_sorted h pick runs hr, kmerge_perm h pick runs⟩

example : kmerge (fun a b : Nat => decide (a < b)) (fun _ _ _ => 1) (toQueue [[1, 4, 4], [], [2, 4], [0]]) = [0, 1, 2, 4, 4, 4] := by
  decide

/-- **bufferedEntry_refines**: the per-run file buffers of `MergeQueue::Entry` (refilled by
`Read` with `per_buffer` bytes when `current_` reaches `buffer_end_`) deliver the run record by
record: a fresh entry views the whole run, each `Increment` drops exactly the current record and
reports exhaustion exactly at the end of the run — for every buffer capacity ≥ 1 record. -/
theorem bufferedEntry_refines {cap : Nat} (hcap : 0 < cap) :
    (∀ run : List α, match BufEntry.read cap run with
      | none => run = []
      | some e => e.buf ≠ [] ∧ e.view = run) ∧
    (∀ (e : BufEntry α) (x : α) (rest : List α), e.buf ≠ [] → e.view = x :: rest →
      match e.increment cap with
      | none => rest = []
      | some e' => e'.buf ≠ [] ∧ e'.view = rest) :=
  ⟨bufEntry_read hcap, bufEntry_step hcap⟩

/-- **fileEntry_refines**: at file level an entry is `(buffer, offset_, remaining_)` into the shared
data file; `Read` loads `min(per_buffer, remaining_)` records at `offset_` and advances both.
Under the abstraction "what is still on disk is `data[offset_, offset_ + remaining_)`" this is
exactly the buffered entry above (so, with `bufferedEntry_refines`, each queue entry delivers
precisely the slice of the file that `Push(base, offset, size)` assigned to it, in order, once). -/
theorem fileEntry_refines (data : List α) (cap : Nat) :
    (∀ o r, o + r ≤ data.length →
      (FileEntry.read data cap o r).map (FileEntry.abs data) = BufEntry.read cap (readAt data (o, r))) ∧
    (∀ e : FileEntry α, e.offset + e.remaining ≤ data.length →
      (e.increment data cap).map (FileEntry.abs data) = (FileEntry.abs data e).increment cap ∧
      ∀ e', e.increment data cap = some e' → e'.offset + e'.remaining = e.offset + e.remaining) :=
  ⟨fun o r h => fileEntry_read data cap o r h, fun e h => fileEntry_increment data cap e h⟩

/-! ## The external sort -/

/-! The block sort of the code is `std::sort`, whose order among equal records is unspecified; the
model fixes one sorted permutation per block (`blockSort`).  The next theorem states the merge
phase for *arbitrary* sorted initial runs, so the results below hold for every block sorter that
returns a sorted permutation of its block. -/

/-- **mergePhase**: from any sorted runs, any sequence of passes followed by the final merge
yields a sorted list; without a combiner it is a permutation of the runs' records; any quantity
the combiner adds up is preserved. -/
theorem mergePhase {lt : α → α → Bool} (h : StrictWeak lt) {comb} (hc : CombKeeps lt comb) (pick)
    (runs : List (List α)) (hr : ∀ r ∈ runs, r.Pairwise (fun a b => lt b a = false)) (plan) :
    ∃ runs', passes lt comb pick plan runs = some runs' ∧
      (finalMerge lt comb pick runs').Pairwise (fun a b => lt b a = false) ∧
      (comb = neverCombine → finalMerge lt comb pick runs' ~ runs.flatten) ∧
      (∀ w : α → Nat, (∀ a b c, comb a b = some c → w c = w a + w b) →
        ((finalMerge lt comb pick runs').map w).sum = (runs.flatten.map w).sum) := by
  obtain ⟨runs', hp⟩ := passes_isSome lt comb pick plan runs
  refine ⟨runs', hp, ?_, ?_, ?_⟩
  · apply finalMerge_sorted h hc pick
    exact passes_induct (AllSorted lt) (fun sizes r r' hP hp => pass_sorted h hc pick sizes hP hp) plan _ _ hr hp
  · intro hn
    subst hn
    refine (finalMerge_perm h pick runs').trans ?_
    exact passes_induct (fun r => r.flatten ~ runs.flatten)
      (fun sizes r r' hP hp => (pass_perm h pick sizes hp).trans hP) plan _ _ (Perm.refl _) hp
  · intro w hw
    rw [finalMerge_sum h pick w hw]
    exact passes_induct (fun r => (r.flatten.map w).sum = (runs.flatten.map w).sum)
      (fun sizes r r' hP hp => (pass_sum h pick w hw sizes hp).trans hP) plan _ _ rfl hp

/-- **extSort_sorted**: the output is in non-decreasing order, for every combiner that keeps a
record equivalent to the one it combines into (`CombineCounts`, `NeverCombine`). -/
theorem extSort_sorted {lt : α → α → Bool} (h : StrictWeak lt) {comb} (hc : CombKeeps lt comb) (pick)
    (blocks : List (List α)) (plan) {out} (ho : extSort lt comb pick blocks plan = some out) :
    out.Pairwise (fun a b => lt b a = false) := by
  obtain ⟨runs', hp, he⟩ := extSort_unfold lt comb pick blocks plan
  rw [he] at ho; cases ho
  apply finalMerge_sorted h hc pick
  exact passes_induct (AllSorted lt) (fun sizes r r' hP hp => pass_sorted h hc pick sizes hP hp)
    plan _ _ (initial_sorted h blocks) hp

/-- **extSort_perm**: without a combiner the output is a permutation of the input records. -/
theorem extSort_perm {lt : α → α → Bool} (h : StrictWeak lt) (pick) (blocks : List (List α)) (plan) {out}
    (ho : extSort lt neverCombine pick blocks plan = some out) : out ~ blocks.flatten := by
  obtain ⟨runs', hp, he⟩ := extSort_unfold lt neverCombine pick blocks plan
  rw [he] at ho; cases ho
  refine (finalMerge_perm h pick runs').trans ?_
  have h0 : (nonempties (blocks.map (blockSort lt))).flatten ~ blocks.flatten := by
    rw [flatten_nonempties]; exact flatten_map_blockSort_perm lt blocks
  exact passes_induct (fun r => r.flatten ~ blocks.flatten)
    (fun sizes r r' hP hp => (pass_perm h pick sizes hp).trans hP) plan _ _ h0 hp

theorem neverCombine_keeps (lt : α → α → Bool) : CombKeeps lt neverCombine := by
  intro a b c h; simp [neverCombine] at h

/-- **extSort_sum**: any quantity `w` that the combiner adds up (`w c = w a + w b` whenever
`a` and `b` are combined into `c`) has the same total over the output as over the input. -/
theorem extSort_sum {lt : α → α → Bool} (h : StrictWeak lt) {comb : α → α → Option α} (pick) (w : α → Nat)
    (hw : ∀ a b c, comb a b = some c → w c = w a + w b)
    (blocks : List (List α)) (plan) {out} (ho : extSort lt comb pick blocks plan = some out) :
    (out.map w).sum = (blocks.flatten.map w).sum := by
  obtain ⟨runs', hp, he⟩ := extSort_unfold lt comb pick blocks plan
  rw [he] at ho; cases ho
  rw [finalMerge_sum h pick w hw]
  have h0 : ((nonempties (blocks.map (blockSort lt))).flatten.map w).sum = (blocks.flatten.map w).sum := by
    rw [flatten_nonempties]; exact ((flatten_map_blockSort_perm lt blocks).map w).sum_nat
  exact passes_induct (fun r => (r.flatten.map w).sum = (blocks.flatten.map w).sum)
    (fun sizes r r' hP hp => (pass_sum h pick w hw sizes hp).trans hP) plan _ _ h0 hp

/-- total count of key `k` in a list of records -/
def total (k : List Nat) (l : List Rec) : Nat := (l.map (fun r => if r.key = k then r.payload else 0)).sum

/-- **extSort_combine (totals)**: with the counting combiner, the total count of every key is
preserved (for every strict weak order, every block structure, every plan). -/
theorem extSort_combine_totals {lt : Rec → Rec → Bool} (h : StrictWeak lt) (pick) (blocks : List (List Rec)) (plan)
    {out} (ho : extSort lt combineCounts pick blocks plan = some out) (k : List Nat) :
    total k out = total k blocks.flatten := by
  apply extSort_sum h pick _ _ blocks plan ho
  intro a b c hc
  unfold combineCounts at hc
  by_cases hab : a.key = b.key
  · simp only [hab, ↓reduceIte, Option.some.injEq] at hc
    subst hc
    by_cases hk : b.key = k <;> simp [hab, hk]
  · simp [hab] at hc

/-- **extSort_combine (duplicate-free)**: if the comparison tells records apart exactly by a key,
the combiner merges every two records with the same key and keeps the key, and every input
block is duplicate-free, then the output is duplicate-free.  (The hypothesis on the blocks is
needed: a single block is only sorted and copied — `ReadSingle` — never combined.) -/
theorem extSort_nodup {κ : Type} (key : α → κ) {lt : α → α → Bool} (h : StrictWeak lt)
    (hkey : ∀ a b, (lt a b = false ∧ lt b a = false) ↔ key a = key b)
    {comb} (hc : CombKeeps lt comb) (hk : CombComplete lt comb) (pick)
    (blocks : List (List α)) (hb : ∀ b ∈ blocks, (b.map key).Nodup) (plan) {out}
    (ho : extSort lt comb pick blocks plan = some out) : (out.map key).Nodup := by
  obtain ⟨runs', hp, he⟩ := extSort_unfold lt comb pick blocks plan
  rw [he] at ho; cases ho
  have h0 : AllStrict lt (nonempties (blocks.map (blockSort lt))) := by
    intro r hr
    obtain ⟨b, hbm, rfl⟩ := mem_map.mp (mem_nonempties.mp hr).1
    have hs := blockSort_sorted h b
    have hn : ((blockSort lt b).map key).Nodup := ((blockSort_perm lt b).map key).nodup_iff.mpr (hb b hbm)
    rw [Nodup, pairwise_map] at hn
    refine hs.imp₂ (fun x y hle hne => ?_) hn
    cases hxy : lt x y with
    | true => rfl
    | false => exact absurd ((hkey x y).mp ⟨hxy, hle⟩) hne
  have hstrict := finalMerge_strict h hc hk pick
    (passes_induct (AllStrict lt) (fun sizes r r' hP hp => pass_strict h hc hk pick sizes hP hp) plan _ _ h0 hp)
  rw [Nodup, pairwise_map]
  refine hstrict.imp (fun {x y} hxy hkk => ?_)
  have := ((hkey x y).mpr hkk).1
  rw [hxy] at this; cases this

/-- **extSort_unique**: if the comparison is a total order on the whole records that occur
(no two different records compare equal) then, without a combiner, the result does not depend
on how the input was cut into blocks, on the merge plan, or on the queue's tie-breaking:
inputs that are permutations of each other give the same output. -/
theorem extSort_unique {lt : α → α → Bool} (h : StrictWeak lt) (blocks₁ blocks₂ : List (List α))
    (htot : ∀ a b, a ∈ blocks₁.flatten → b ∈ blocks₁.flatten → lt a b = false → lt b a = false → a = b)
    (hperm : blocks₁.flatten ~ blocks₂.flatten) (pick₁ pick₂) (plan₁ plan₂) :
    extSort lt neverCombine pick₁ blocks₁ plan₁ = extSort lt neverCombine pick₂ blocks₂ plan₂ := by
  obtain ⟨o1, h1⟩ := extSort_isSome lt neverCombine pick₁ blocks₁ plan₁
  obtain ⟨o2, h2⟩ := extSort_isSome lt neverCombine pick₂ blocks₂ plan₂
  rw [h1, h2]
  congr 1
  have p1 := extSort_perm h pick₁ blocks₁ plan₁ h1
  have p2 := extSort_perm h pick₂ blocks₂ plan₂ h2
  have s1 := extSort_sorted h (neverCombine_keeps lt) pick₁ blocks₁ plan₁ h1
  have s2 := extSort_sorted h (neverCombine_keeps lt) pick₂ blocks₂ plan₂ h2
  refine Perm.eq_of_pairwise (le := fun a b => lt b a = false) ?_ s1 s2 (p1.trans (hperm.trans p2.symm))
  intro a b ha hb hab hba
  exact htot a b (p1.subset ha) (hperm.symm.subset (p2.subset hb)) hba hab

/-- … and that output is the specification value printed by the driver: the sorted input. -/
theorem extSort_eq_spec {lt : α → α → Bool} (h : StrictWeak lt) (blocks : List (List α))
    (htot : ∀ a b, a ∈ blocks.flatten → b ∈ blocks.flatten → lt a b = false → lt b a = false → a = b)
    (pick) (plan) :
    extSort lt neverCombine pick blocks plan = some (sortSpec lt neverCombine blocks) := by
  obtain ⟨o1, h1⟩ := extSort_isSome lt neverCombine pick blocks plan
  rw [h1]
  congr 1
  have hspec : sortSpec lt neverCombine blocks = blocks.flatten.mergeSort (le lt) := by
    unfold sortSpec; simp only [combineAdj_never]; split <;> rfl
  rw [hspec]
  have p1 := extSort_perm h pick blocks plan h1
  have s1 := extSort_sorted h (neverCombine_keeps lt) pick blocks plan h1
  have s2 : (blocks.flatten.mergeSort (le lt)).Pairwise (fun a b => lt b a = false) := blockSort_sorted h _
  refine Perm.eq_of_pairwise (le := fun a b => lt b a = false) ?_ s1 s2 (p1.trans (mergeSort_perm _ _).symm)
  intro a b ha hb hab hba
  exact htot a b (p1.subset ha) ((mergeSort_perm _ _).subset hb) hba hab

/-! ## With the counting combiner the result is canonical

`Counting lt key val comb`: the order tells records apart exactly by their key, a record is
determined by key and value, the combiner merges exactly records with equal keys and adds the
values (`CombineCounts` under Suffix/Prefix/ContextOrder).  Then the output is *the* list with
one record per key of the input, in increasing order, carrying the key's total — whatever the
blocks, the plan and the tie-breaks, provided something is merged at all (at least two
non-empty blocks) or the blocks were duplicate-free. -/

theorem blockSort_nonempties_length (lt : α → α → Bool) : ∀ (blocks : List (List α)),
    (nonempties (blocks.map (blockSort lt))).length = (nonempties blocks).length
  | [] => rfl
  | b :: bs => by
    have ih := blockSort_nonempties_length lt bs
    have hl := (blockSort_perm lt b).length_eq
    cases b with
    | nil =>
      have : blockSort lt ([] : List α) = [] := List.eq_nil_of_length_eq_zero (by simpa using hl)
      simpa [nonempties, this] using ih
    | cons x xs =>
      cases hbs : blockSort lt (x :: xs) with
      | nil => rw [hbs] at hl; simp at hl
      | cons y ys => simpa [nonempties, hbs] using ih

/-- **extSort_combine (canonical form)** -/
theorem extSort_canon {κ : Type} [DecidableEq κ] {lt : α → α → Bool} {key : α → κ} {val : α → Nat} {comb}
    (C : Counting lt key val comb) (pick) (blocks : List (List α))
    (hb : (∀ b ∈ blocks, (b.map key).Nodup) ∨ 2 ≤ (blocks.filter (fun b => !b.isEmpty)).length) (plan) {out}
    (ho : extSort lt comb pick blocks plan = some out) : Canon lt key val blocks.flatten out := by
  obtain ⟨runs', hp, he⟩ := extSort_unfold lt comb pick blocks plan
  have ho' := ho
  rw [he] at ho; cases ho
  have h0 : StrictOrMany lt (nonempties (blocks.map (blockSort lt))) := by
    refine ⟨initial_sorted C.sw blocks, ?_⟩
    rcases hb with hb | hb
    · right
      intro r hr
      obtain ⟨b, hbm, rfl⟩ := mem_map.mp (mem_nonempties.mp hr).1
      have hs := blockSort_sorted C.sw b
      have hn : ((blockSort lt b).map key).Nodup := ((blockSort_perm lt b).map key).nodup_iff.mpr (hb b hbm)
      rw [Nodup, pairwise_map] at hn
      refine hs.imp₂ (fun x y hle hne => ?_) hn
      cases hxy : lt x y with
      | true => rfl
      | false => exact absurd ((C.keyEq x y).mp ⟨hxy, hle⟩) hne
    · left
      rw [blockSort_nonempties_length]; exact hb
  have hinv := passes_induct (StrictOrMany lt) (fun sizes r r' hP hp => pass_strictOrMany C pick sizes hP hp)
    plan _ _ h0 hp
  have hk0 : SameKeys key blocks.flatten (nonempties (blocks.map (blockSort lt))).flatten := by
    rw [flatten_nonempties]; exact SameKeys.of_perm (flatten_map_blockSort_perm lt blocks).symm
  have hkeys := passes_induct (fun r => SameKeys key blocks.flatten r.flatten)
    (fun sizes r r' hP hp => hP.trans (pass_sameKeys C pick sizes hp)) plan _ _ hk0 hp
  refine ⟨finalMerge_strict' C pick hinv, hkeys.trans (finalMerge_sameKeys C pick runs'), fun k => ?_⟩
  exact extSort_sum C.sw pick _ (C.additive k) blocks plan ho'

/-- **extSort_combine_unique**: with the counting combiner the result is independent of blocks,
plan and tie-breaks (inputs that are permutations of each other, each cut into at least two
non-empty blocks or into duplicate-free blocks). -/
theorem extSort_combine_unique {κ : Type} [DecidableEq κ] {lt : α → α → Bool} {key : α → κ} {val : α → Nat} {comb}
    (C : Counting lt key val comb) (blocks₁ blocks₂ : List (List α))
    (hb₁ : (∀ b ∈ blocks₁, (b.map key).Nodup) ∨ 2 ≤ (blocks₁.filter (fun b => !b.isEmpty)).length)
    (hb₂ : (∀ b ∈ blocks₂, (b.map key).Nodup) ∨ 2 ≤ (blocks₂.filter (fun b => !b.isEmpty)).length)
    (hperm : blocks₁.flatten ~ blocks₂.flatten) (pick₁ pick₂) (plan₁ plan₂) :
    extSort lt comb pick₁ blocks₁ plan₁ = extSort lt comb pick₂ blocks₂ plan₂ := by
  obtain ⟨o1, h1⟩ := extSort_isSome lt comb pick₁ blocks₁ plan₁
  obtain ⟨o2, h2⟩ := extSort_isSome lt comb pick₂ blocks₂ plan₂
  rw [h1, h2]
  congr 1
  exact Canon.unique C (extSort_canon C pick₁ blocks₁ hb₁ plan₁ h1) (extSort_canon C pick₂ blocks₂ hb₂ plan₂ h2) hperm

/-- … and it is the value the driver prints (`sortSpec`): sort everything, fold equal neighbours. -/
theorem extSort_combine_eq_spec {κ : Type} [DecidableEq κ] {lt : α → α → Bool} {key : α → κ} {val : α → Nat} {comb}
    (C : Counting lt key val comb) (blocks : List (List α))
    (hb : 2 ≤ (blocks.filter (fun b => !b.isEmpty)).length) (pick) (plan) :
    extSort lt comb pick blocks plan = some (sortSpec lt comb blocks) := by
  obtain ⟨o1, h1⟩ := extSort_isSome lt comb pick blocks plan
  rw [h1]
  congr 1
  have hspec : sortSpec lt comb blocks = combineAdj comb (blocks.flatten.mergeSort (le lt)) := by
    unfold sortSpec
    simp only
    rw [if_neg (by omega)]
  rw [hspec]
  have hp : blocks.flatten.mergeSort (le lt) ~ blocks.flatten := mergeSort_perm _ _
  have hcanon : Canon lt key val blocks.flatten (combineAdj comb (blocks.flatten.mergeSort (le lt))) := by
    refine ⟨combineAdj_strict C.sw C.keeps C.combComplete _ (blockSort_sorted C.sw _),
      (SameKeys.of_perm hp.symm).trans (combineAdj_sameKeys C _), fun k => ?_⟩
    unfold tot
    rw [combineAdj_sum _ (C.additive k)]
    exact (hp.map _).sum_nat
  exact Canon.unique C (extSort_canon C pick blocks (Or.inr hb) plan h1) hcanon (Perm.refl _)

/-- the counting combiner satisfies `Counting` under every order that tells records apart exactly
by their key words -/
theorem counting_of_keyTotal {lt : Rec → Rec → Bool} (sw : StrictWeak lt)
    (hk : ∀ a b : Rec, (lt a b = false ∧ lt b a = false) ↔ a.key = b.key) :
    Counting lt Rec.key Rec.payload combineCounts where
  sw := sw
  keyEq := hk
  inj := fun a b h1 h2 => by cases a; cases b; simp_all
  add := fun a b c h => by
    unfold combineCounts at h
    by_cases hab : a.key = b.key
    · simp only [hab, ↓reduceIte, Option.some.injEq] at h; subst h; simp [hab]
    · simp [hab] at h
  complete := fun a b h => by simp [combineCounts, h]

/-- the counting combiner under the integer orders (one-word keys) -/
theorem counting_int : Counting intLt Rec.key Rec.payload combineCounts :=
  counting_of_keyTotal (lexLt_strictWeak.comap _) (fun a b => by
    constructor
    · intro ⟨h1, h2⟩; exact lexLt_tri _ _ h1 h2
    · intro hk; simp [intLt, hk, lexLt_irrefl])

/-- `CombineCounts` under `SuffixOrder` (the production pairing) satisfies `Counting` -/
theorem counting_suffix : Counting suffixLt Rec.key Rec.payload combineCounts where
  sw := lexLt_strictWeak.comap _
  keyEq := fun a b => by
    constructor
    · intro ⟨h1, h2⟩; exact List.reverse_inj.mp (lexLt_tri _ _ h1 h2)
    · intro hk; simp [suffixLt, hk, lexLt_irrefl]
  inj := fun a b h1 h2 => by cases a; cases b; simp_all
  add := fun a b c h => by
    unfold combineCounts at h
    by_cases hab : a.key = b.key
    · simp only [hab, ↓reduceIte, Option.some.injEq] at h; subst h; simp [hab]
    · simp [hab] at h
  complete := fun a b h => by simp [combineCounts, h]

/-- `CombineCounts`-style combiner under `PrefixOrder` -/
theorem counting_prefix : Counting prefixLt Rec.key Rec.payload combineCounts where
  sw := lexLt_strictWeak.comap _
  keyEq := fun a b => by
    constructor
    · intro ⟨h1, h2⟩; exact lexLt_tri _ _ h1 h2
    · intro hk; simp [prefixLt, hk, lexLt_irrefl]
  inj := fun a b h1 h2 => by cases a; cases b; simp_all
  add := fun a b c h => by
    unfold combineCounts at h
    by_cases hab : a.key = b.key
    · simp only [hab, ↓reduceIte, Option.some.injEq] at h; subst h; simp [hab]
    · simp [hab] at h
  complete := fun a b h => by simp [combineCounts, h]

theorem contextKey_injective (a b : List Nat) (h : contextKey a = contextKey b) : a = b := by
  unfold contextKey at h
  apply List.reverse_inj.mp
  cases ha : a.reverse with
  | nil =>
    cases hb : b.reverse with
    | nil => rfl
    | cons y ys => rw [ha, hb] at h; simp at h
  | cons x xs =>
    cases hb : b.reverse with
    | nil => rw [ha, hb] at h; simp at h
    | cons y ys =>
      rw [ha, hb] at h
      simp only at h
      have := List.append_inj' h rfl
      simp only [List.cons.injEq, and_true] at this
      rw [this.1, this.2]

/-- the counting combiner under `ContextOrder` -/
theorem counting_context : Counting contextLt Rec.key Rec.payload combineCounts where
  sw := lexLt_strictWeak.comap _
  keyEq := fun a b => by
    constructor
    · intro ⟨h1, h2⟩; exact contextKey_injective _ _ (lexLt_tri _ _ h1 h2)
    · intro hk; simp [contextLt, hk, lexLt_irrefl]
  inj := fun a b h1 h2 => by cases a; cases b; simp_all
  add := fun a b c h => by
    unfold combineCounts at h
    by_cases hab : a.key = b.key
    · simp only [hab, ↓reduceIte, Option.some.injEq] at h; subst h; simp [hab]
    · simp [hab] at h
  complete := fun a b h => by simp [combineCounts, h]

/-! ## The plan the code computes

`codeSort` mirrors the arity logic of `Sort::Merge`, `MergingReader::Run` and
`OwningMergingReader` (per-buffer size, how many runs fit into the reading memory, when to stop
for the lazy merge).  The check compares its number of passes and `Merge`'s return value with
the real code on every generated configuration.  It is an instance of `extSort`, so every
theorem above applies to it. -/

/-- **codeSort_refines**: whatever `codeSort` outputs is `extSort blocks plan` for a plan with
exactly as many passes as the code made. -/
theorem codeSort_refines (lt : α → α → Bool) (comb) (pick) (cfg : Cfg) (lazyMem : Nat) (blocks : List (List α))
    (out : List α) (p ret : Nat) (h : codeSort lt comb pick cfg lazyMem blocks = .ok (out, p, ret)) :
    ∃ plan : List (List Nat), plan.length = p ∧ extSort lt comb pick blocks plan = some out :=
  codeSort_refines_aux lt comb pick cfg lazyMem blocks out p ret h

/-- hence: sorted, and a permutation of the input without a combiner, for every configuration
`(buffer_size, total_memory, lazy_memory)` and every block structure -/
theorem codeSort_sorted_perm {lt : α → α → Bool} (h : StrictWeak lt) (pick) (cfg : Cfg) (lazyMem : Nat)
    (blocks : List (List α)) (out : List α) (p ret : Nat)
    (ho : codeSort lt neverCombine pick cfg lazyMem blocks = .ok (out, p, ret)) :
    out.Pairwise (fun a b => lt b a = false) ∧ out ~ blocks.flatten := by
  obtain ⟨plan, _, hp⟩ := codeSort_refines lt neverCombine pick cfg lazyMem blocks out p ret ho
  exact ⟨extSort_sorted h (neverCombine_keeps lt) pick blocks plan hp, extSort_perm h pick blocks plan hp⟩

/-- what the check compares byte for byte: for a total order on the occurring records, the output
of the code's plan is the specification value `sortSpec` (sorted input) -/
theorem codeSort_eq_spec {lt : α → α → Bool} (h : StrictWeak lt) (pick) (cfg : Cfg) (lazyMem : Nat)
    (blocks : List (List α))
    (htot : ∀ a b, a ∈ blocks.flatten → b ∈ blocks.flatten → lt a b = false → lt b a = false → a = b)
    (out : List α) (p ret : Nat)
    (ho : codeSort lt neverCombine pick cfg lazyMem blocks = .ok (out, p, ret)) :
    out = sortSpec lt neverCombine blocks := by
  obtain ⟨plan, _, hp⟩ := codeSort_refines lt neverCombine pick cfg lazyMem blocks out p ret ho
  rw [extSort_eq_spec h blocks htot pick plan] at hp
  exact (Option.some.inj hp).symm

/-- … and with the counting combiner and at least two non-empty blocks -/
theorem codeSort_combine_eq_spec {κ : Type} [DecidableEq κ] {lt : α → α → Bool} {key : α → κ} {val : α → Nat} {comb}
    (C : Counting lt key val comb) (pick) (cfg : Cfg) (lazyMem : Nat) (blocks : List (List α))
    (hb : 2 ≤ (blocks.filter (fun b => !b.isEmpty)).length) (out : List α) (p ret : Nat)
    (ho : codeSort lt comb pick cfg lazyMem blocks = .ok (out, p, ret)) :
    out = sortSpec lt comb blocks := by
  obtain ⟨plan, _, hp⟩ := codeSort_refines lt comb pick cfg lazyMem blocks out p ret ho
  rw [extSort_combine_eq_spec C blocks hb pick plan] at hp
  exact (Option.some.inj hp).symm

/-- **codeSort_ok — no abort, no stall**: for every configuration the `Sort` constructor accepts
(`entry_size > 0`, `buffer_size` a positive multiple of it after rounding, `total_memory ≥ 4·buffer_size`),
every `lazy_memory`, every input and block structure, the arity logic completes: neither
"not merging at least two stripes" nor "should only be one merge group for lazy sort" nor an
empty queue is reachable, and the pass loop ends within `#runs` passes (the model's fuel). -/
theorem codeSort_ok {entrySize bufferSize totalMemory : Nat} {cfg : Cfg}
    (hcfg : mkCfg entrySize bufferSize totalMemory = .ok cfg)
    (lt : α → α → Bool) (comb) (pick) (lazyMem : Nat) (blocks : List (List α)) :
    ∃ out p ret, codeSort lt comb pick cfg lazyMem blocks = .ok (out, p, ret) :=
  codeSort_ok_aux (mkCfg_legal hcfg) lt comb pick lazyMem blocks

example : mkCfg 8 800 3300 = .ok ⟨8, 800, 3300⟩ := rfl   -- the configuration of sort_test.cc
example : mkCfg 12 100 384 = .ok ⟨12, 96, 384⟩ := rfl     -- buffer rounded down, exactly four buffers
example : mkCfg 12 100 383 = .error .badConfig := rfl

/-- so the real plan satisfies the property: for every accepted configuration the output of the
code's own plan exists, is sorted and (without combiner) a permutation of the input -/
theorem codeSort_correct {entrySize bufferSize totalMemory : Nat} {cfg : Cfg}
    (hcfg : mkCfg entrySize bufferSize totalMemory = .ok cfg)
    {lt : α → α → Bool} (h : StrictWeak lt) (pick) (lazyMem : Nat) (blocks : List (List α)) :
    ∃ out p ret, codeSort lt neverCombine pick cfg lazyMem blocks = .ok (out, p, ret) ∧
      out.Pairwise (fun a b => lt b a = false) ∧ out ~ blocks.flatten := by
  obtain ⟨out, p, ret, ho⟩ := codeSort_ok hcfg lt neverCombine pick lazyMem blocks
  exact ⟨out, p, ret, ho, codeSort_sorted_perm h pick cfg lazyMem blocks out p ret ho⟩

/-- **merge_ret_sufficient** — the contract `lmplz` relies on (lm/builder/pipeline.cc:69-73 and
107-123: `merge_using = sort.Merge(lazy); …; sort.Output(chain, merge_using)` and
`assert(for_merge >= laziness.back())`): the value returned by `Sort::Merge(lazy_memory)` is at
most `lazy_memory`; calling `Merge` again with it (as `Output` does) makes no further pass and
returns the same value; and the lazy merge given exactly that much memory does not abort and
yields the final merge of the remaining runs. -/
theorem merge_ret_sufficient {entrySize bufferSize totalMemory : Nat} {cfg : Cfg}
    (hcfg : mkCfg entrySize bufferSize totalMemory = .ok cfg)
    (lt : α → α → Bool) (comb) (pick) (lazyMem : Nat) (runs : List (List α)) (m : MergeResult α)
    (h : codeMerge lt comb pick cfg lazyMem runs = .ok m) :
    m.ret ≤ lazyMem ∧
    codeMerge lt comb pick cfg m.ret m.runs = .ok ⟨m.runs, 0, m.ret⟩ ∧
    codeFinal lt comb pick cfg m.ret m.runs = .ok (finalMerge lt comb pick m.runs) := by
  have L := mkCfg_legal hcfg
  obtain ⟨hret, hcond⟩ := codeMerge_shape lt comb pick cfg lazyMem runs m h
  refine ⟨by rw [hret]; exact mergeRet_le L lazyMem m.runs hcond, ?_, ?_⟩
  · rw [hret]; exact codeMerge_idem L lt comb pick m.runs
  · obtain ⟨out, ho⟩ := codeFinal_ok L lt comb pick m.ret m.runs (by rw [hret]; exact mergeRet_cond L m.runs)
    rw [ho, codeFinal_refines lt comb pick cfg m.ret m.runs out ho]

/-- the fixed-size-record sort used per block (`SizedSort`, modelled by a stable merge sort) -/
theorem sizedSort_perm_sorted {lt : α → α → Bool} (h : StrictWeak lt) (b : List α) :
    (blockSort lt b).Pairwise (fun a b => lt b a = false) ∧ blockSort lt b ~ b :=
  ⟨blockSort_sorted h b, blockSort_perm lt b⟩

/-! ## Byte level: records in a flat buffer (util/sized_iterator.hh, util/proxy_iterator.hh) -/

/-- **sized_swap_exchanges**: `swap(SizedProxy_i, SizedProxy_j)` on a block of `n` records of *any*
size `s` keeps the length, and byte `p` of the result is byte `p - i·s + j·s` of the old buffer if
`p` lies in record `i`, byte `p - j·s + i·s` if it lies in record `j`, and the old byte `p`
otherwise: exactly the two byte ranges are exchanged, every other byte is untouched. -/
theorem sized_swap_exchanges {s n : Nat} {buf : Buf} (hl : buf.length = n * s) {i j : Nat}
    (hi : i < n) (hj : j < n) (hij : i ≠ j) :
    (sizedSwap s buf i j).length = buf.length ∧
    ∀ p, (sizedSwap s buf i j)[p]? =
      if i * s ≤ p ∧ p < i * s + s then buf[p - i * s + j * s]?
      else if j * s ≤ p ∧ p < j * s + s then buf[p - j * s + i * s]? else buf[p]? :=
  ⟨sizedSwap_length s buf i j, sizedSwap_get hl hi hj hij⟩

/-- the same at record level (also for `i = j`, which `std::sort` may do) -/
theorem sized_swap_records {s n : Nat} {buf : Buf} (hl : buf.length = n * s) {i j : Nat}
    (hi : i < n) (hj : j < n) (k : Nat) (hk : k < n) :
    recAt s (sizedSwap s buf i j) k =
      if k = i then recAt s buf j else if k = j then recAt s buf i else recAt s buf k :=
  recAt_sizedSwap hl hi hj k hk

/-- `ProxyIterator`/`SizedInnerIterator` arithmetic (proxy_iterator.hh, sized_iterator.hh:27-33):
`it += k` moves the pointer by `k·size` bytes and `it₂ - it₁` divides the byte distance by `size`,
so iterator positions are record indices: record `i + k` starts at byte `(i + k)·s`, and the
distance between records `i ≤ j` is `j - i`. -/
theorem proxy_iterator_arith (s i j k : Nat) (hs : 0 < s) (hij : i ≤ j) :
    i * s + k * s = (i + k) * s ∧ (j * s - i * s) / s = j - i := by
  refine ⟨(Nat.add_mul i k s).symm, ?_⟩
  rw [← Nat.sub_mul, Nat.mul_div_cancel _ hs]

/-- the model's swap is the code's swap: the table regenerated on every run by tools/probe_C16.cc
(the real `util::swap(SizedProxy, SizedProxy)` on `[0 … 2s-1]` for 27 record sizes in 1…64) is
reproduced by `sizedSwap`.  A swap that is not byte-wise (seeded/C16-3) changes the table and this
obligation no longer checks. -/
theorem swap_matches_code :
    KV.Gen.C16.swapCases.all (fun c => sizedSwap c.1 (List.range (2 * c.1)) 0 1 == c.2) = true := by
  decide +kernel

/-- the word-wise swap of seeded/C16-3 is *not* an exchange: for 5-byte records the fifth byte of
each record stays behind -/
theorem wordSwap_not_exchange :
    recAt 5 (wordSwap 5 [0, 1, 2, 3, 4, 5, 6, 7, 8, 9] 0 1) 0 ≠ recAt 5 [0, 1, 2, 3, 4, 5, 6, 7, 8, 9] 1 ∧
    wordSwap 5 [0, 1, 2, 3, 4, 5, 6, 7, 8, 9] 0 1 = [5, 6, 7, 8, 4, 0, 1, 2, 3, 9] ∧
    sizedSwap 5 [0, 1, 2, 3, 4, 5, 6, 7, 8, 9] 0 1 = [5, 6, 7, 8, 9, 0, 1, 2, 3, 4] := by
  decide

/-- **sizedSort_bytes**: `SizedSort` is `std::sort` over proxies, i.e. some sequence `ops` of
byte-wise record swaps, record copies and `ValueBlock` temporaries with all indices inside the
block (`opsValid`).  If that sequence, run on an abstract array of records, yields a sorted
permutation (what libstdc++ guarantees), then the flat byte buffer after running it byte-wise has
the same length and its records are that sorted permutation of the original records, as byte
strings — for every record size. -/
theorem sizedSort_bytes {s n : Nat} (lt : List Nat → List Nat → Bool) (ops : List SortOp) (buf : Buf)
    (hl : buf.length = n * s) (hv : opsValid n 0 ops = true)
    (hsorted : ((List.range n).map (execRecs ops (recAt s buf)).1).Pairwise (fun a b => lt b a = false))
    (hperm : (List.range n).map (execRecs ops (recAt s buf)).1 ~ (List.range n).map (recAt s buf)) :
    (execBytes s ops buf).1.length = buf.length ∧
    (recsOf s n (execBytes s ops buf).1).Pairwise (fun a b => lt b a = false) ∧
    recsOf s n (execBytes s ops buf).1 ~ recsOf s n buf := by
  obtain ⟨h1, h2⟩ := execBytes_sim ops buf hl hv
  rw [recsOf_congr h2]
  exact ⟨by rw [h1, hl], hsorted, hperm⟩

/-- a concrete run: three 3-byte records, selection of the minimum by swaps, and a rotation through
a temporary -/
example : (execBytes 3 [.swap 0 2, .save 1, .assign 1 2, .restore 2 0] [7, 7, 7, 5, 5, 5, 1, 1, 1]).1
    = [1, 1, 1, 7, 7, 7, 5, 5, 5] := by decide
example : opsValid 3 0 [.swap 0 2, .save 1, .assign 1 2, .restore 2 0] = true := by decide

/-! ## Byte level: the temp file (util/stream/io.cc, sort.hh) -/

/-- **spill_roundtrip**: for any chain blocks — full, partial, empty — with `ValidSize ≤ block_size`:
the file written by `WriteAndRecycle` (appending `ValidSize()` bytes per block), the `Offsets` log
of the block sizes in bytes, and the reads at `(TotalOffset() before, NextSize())` give back, run
by run, exactly the valid bytes of the non-empty blocks. -/
theorem spill_roundtrip (blocks : List Block) (hv : ∀ b ∈ blocks, b.valid ≤ b.mem.length) :
    readRunsBytes (writeAndRecycle [] blocks) (blockSorterLog blocks) =
      some ((blocks.filter (fun b => decide (b.valid ≠ 0))).map (fun b => b.mem.take b.valid)) :=
  spill_roundtrip_aux blocks hv

/-- writing `block_size` bytes instead of `ValidSize()` (seeded mutant m8) breaks the round trip
as soon as a partial block is followed by another block -/
theorem spill_m8_breaks :
    readRunsBytes (writeAndRecycleM8 [] [⟨[1, 2, 3, 4], 2⟩, ⟨[5, 6, 7, 8], 4⟩]) (blockSorterLog [⟨[1, 2, 3, 4], 2⟩, ⟨[5, 6, 7, 8], 4⟩])
      = some [[1, 2], [3, 4, 5, 6]] ∧
    readRunsBytes (writeAndRecycle [] [⟨[1, 2, 3, 4], 2⟩, ⟨[5, 6, 7, 8], 4⟩]) (blockSorterLog [⟨[1, 2, 3, 4], 2⟩, ⟨[5, 6, 7, 8], 4⟩])
      = some [[1, 2], [5, 6, 7, 8]] := by
  decide

/-- **stream_write_roundtrip**: the output side of a merge pass — a `Stream` filling chain blocks of
any size `cap`, passing full blocks on, `Poison` passing the last block with its valid size, and
`WriteAndRecycle` appending the valid bytes — leaves exactly the bytes written in the file. -/
theorem stream_write_roundtrip (cap : Nat) (pad : Buf) (fuel : Nat) (bytes : Buf) :
    writeAndRecycle [] (streamToBlocks cap pad fuel bytes) = bytes := by
  simpa using stream_write_aux cap pad fuel bytes []

example : streamToBlocks 4 [9, 9, 9, 9] 5 [1, 2, 3, 4, 5, 6] = [⟨[1, 2, 3, 4], 4⟩, ⟨[5, 6, 9, 9, 9, 9], 2⟩] := by decide
example : streamToBlocks 2 [9, 9] 5 [1, 2, 3, 4] = [⟨[1, 2], 2⟩, ⟨[3, 4], 2⟩, ⟨[9, 9], 0⟩] := by decide

/-- **pwrite_roundtrip**: `PWrite` (positional writes at the running offset, then truncation)
leaves exactly the valid bytes of the blocks in the file, whatever the file held before — the same
content `WriteAndRecycle` produces on an empty file. -/
theorem pwrite_roundtrip (file : Buf) (blocks : List Block) :
    pwriteRun file blocks = (blocks.map (fun b => b.mem.take b.valid)).flatten ∧
    pwriteRun file blocks = writeAndRecycle [] blocks := by
  have h := pwrite_fold blocks file 0 [] (by simp) rfl
  simp only [List.nil_append] at h
  exact ⟨h, by rw [writeAndRecycle_eq, List.nil_append]; exact h⟩

/-- **spill_records_roundtrip** (connection to `storeRuns_roundtrip`): runs of `s`-byte records
written as bytes, logged in bytes, read back at the logged offsets and cut into records are the
runs the record-level model delivers — the non-empty runs, unchanged. -/
theorem spill_records_roundtrip {s : Nat} (hs : 0 < s) (runs : List (List (List Nat)))
    (hu : ∀ r ∈ runs, ∀ x ∈ r, x.length = s) :
    (readRunsBytes (runs.map bytesOf).flatten (runs.map (fun r => r.length * s))).map (·.map (recordsOf s)) =
      some (runs.filter (fun r => !r.isEmpty)) := by
  rw [spill_records_aux hs runs hu]
  exact storeRuns_eq runs

/-- **pass_spill_bytes**: the same for the output file of a merge pass.  The merged groups are
written as bytes, each logged with `written · entry_size`, read back at the logged byte offsets and
cut into records: that is exactly what the record-level `pass` stores (`storeRunsLogged` with the
`written` counters), whenever the merged records all have the record size (always without a
combiner: `mergeGroup_uniform`). -/
theorem pass_spill_bytes {s : Nat} (hs : 0 < s) (lt : List Nat → List Nat → Bool) (comb) (pick)
    (gs : List (List (List (List Nat))))
    (hu : ∀ g ∈ gs, ∀ x ∈ mergeGroup lt comb pick g, x.length = s) :
    (readRunsBytes ((gs.map (mergeGroup lt comb pick)).map bytesOf).flatten
        ((gs.map (mergeWritten lt comb pick)).map (· * s))).map (·.map (recordsOf s)) =
      storeRunsLogged (gs.map (mergeWritten lt comb pick)) (gs.map (mergeGroup lt comb pick)) := by
  have hw : gs.map (mergeWritten lt comb pick) = (gs.map (mergeGroup lt comb pick)).map List.length := by
    rw [List.map_map]
    exact List.map_congr_left (fun g _ => mergeWritten_eq lt comb pick g)
  rw [hw]
  have hl : ((gs.map (mergeGroup lt comb pick)).map List.length).map (· * s) =
      (gs.map (mergeGroup lt comb pick)).map (fun r => r.length * s) := by
    rw [List.map_map]; rfl
  rw [hl]
  exact spill_records_aux hs _ (by
    intro r hr
    obtain ⟨g, hg, rfl⟩ := List.mem_map.mp hr
    exact hu g hg)

/-- without a combiner the merged records are the input records, so they keep the record size -/
theorem mergeGroup_uniform {s : Nat} {lt : List Nat → List Nat → Bool} (h : StrictWeak lt) (pick)
    (g : List (List (List Nat))) (hg : ∀ r ∈ g, ∀ x ∈ r, x.length = s) :
    ∀ x ∈ mergeGroup lt neverCombine pick g, x.length = s := by
  intro x hx
  have := (mergeGroup_perm h pick g).subset hx
  obtain ⟨r, hr, hxr⟩ := List.mem_flatten.mp this
  exact hg r hr x hxr

/-- the byte-level block sorter + spill is the record-level block sorter on the blocks' records -/
theorem afterBlockSorterBytes_refines {s : Nat} (hs : 0 < s) (lt : List Nat → List Nat → Bool)
    (blocks : List Block) (hw : ∀ b ∈ blocks, b.wf s) :
    afterBlockSorterBytes s lt blocks = afterBlockSorter lt (blocks.map (Block.records s)) :=
  afterBlockSorterBytes_eq hs lt blocks hw

/-- **codeSortBytes_eq_spec**: `codeSort_eq_spec` over the byte-level model.  Chain blocks are flat
byte buffers with a valid size (a multiple of the record size), sorted in place, spilled to a
byte-level temp file and read back at the logged byte offsets; then the code's own merge plan runs.
For a comparison that is a total order on the occurring records, the output bytes are the bytes of
the sorted records. -/
theorem codeSortBytes_eq_spec {s : Nat} (hs : 0 < s) {lt : List Nat → List Nat → Bool} (h : StrictWeak lt)
    (pick) (cfg : Cfg) (lazyMem : Nat) (blocks : List Block) (hw : ∀ b ∈ blocks, b.wf s)
    (htot : ∀ a b, a ∈ (blocks.map (Block.records s)).flatten → b ∈ (blocks.map (Block.records s)).flatten →
      lt a b = false → lt b a = false → a = b)
    (out : Buf) (p ret : Nat)
    (ho : codeSortBytes s lt neverCombine pick cfg lazyMem blocks = .ok (out, p, ret)) :
    out = bytesOf (sortSpec lt neverCombine (blocks.map (Block.records s))) := by
  unfold codeSortBytes at ho
  rw [afterBlockSorterBytes_eq hs lt blocks hw] at ho
  have key : ∀ out', codeSort lt neverCombine pick cfg lazyMem (blocks.map (Block.records s)) = .ok (out', p, ret) →
      out' = sortSpec lt neverCombine (blocks.map (Block.records s)) :=
    fun out' ho' => codeSort_eq_spec h pick cfg lazyMem _ htot out' p ret ho'
  unfold codeSort at key
  cases hab : afterBlockSorter lt (blocks.map (Block.records s)) with
  | none => rw [hab] at ho; cases ho
  | some runs =>
    rw [hab] at ho key
    simp only at ho key
    cases hm : codeMerge lt neverCombine pick cfg lazyMem runs with
    | error e => rw [hm] at ho; cases ho
    | ok m =>
      rw [hm] at ho key
      simp only at ho key
      cases hf : codeFinal lt neverCombine pick cfg lazyMem m.runs with
      | error e => rw [hf] at ho; cases ho
      | ok o =>
        rw [hf] at ho key
        simp only [Except.ok.injEq, Prod.mk.injEq] at ho key
        obtain ⟨rfl, rfl, rfl⟩ := ho
        rw [key o ⟨rfl, rfl, rfl⟩]

/-- … and it always produces an output (no abort) for every accepted configuration -/
theorem codeSortBytes_ok {s : Nat} (hs : 0 < s) {entrySize bufferSize totalMemory : Nat} {cfg : Cfg}
    (hcfg : mkCfg entrySize bufferSize totalMemory = .ok cfg)
    (lt : List Nat → List Nat → Bool) (comb) (pick) (lazyMem : Nat) (blocks : List Block)
    (hw : ∀ b ∈ blocks, b.wf s) :
    ∃ out p ret, codeSortBytes s lt comb pick cfg lazyMem blocks = .ok (out, p, ret) := by
  obtain ⟨out, p, ret, ho⟩ := codeSort_ok hcfg lt comb pick lazyMem (blocks.map (Block.records s))
  unfold codeSort at ho
  unfold codeSortBytes
  rw [afterBlockSorterBytes_eq hs lt blocks hw]
  cases hab : afterBlockSorter lt (blocks.map (Block.records s)) with
  | none => rw [hab] at ho; cases ho
  | some runs =>
    rw [hab] at ho
    simp only at ho ⊢
    cases hm : codeMerge lt comb pick cfg lazyMem runs with
    | error e => rw [hm] at ho; cases ho
    | ok m =>
      rw [hm] at ho
      simp only at ho ⊢
      cases hf : codeFinal lt comb pick cfg lazyMem m.runs with
      | error e => rw [hf] at ho; cases ho
      | ok o => exact ⟨_, _, _, rfl⟩

/-- **byteEntry_refines**: a queue entry at byte level (`Read` loads `per_buffer` bytes,
`Increment` advances `current_` by `entry_size` and refills when `current_ == buffer_end_`) refines
the record-level buffered entry (`bufferedEntry_refines`) whenever `per_buffer` is a positive
multiple of the entry size — which `per_buffer -= per_buffer % entry_size; assert(per_buffer)`
(sort.hh:269-270) ensures: `Increment` never steps over `buffer_end_`, the records delivered are
the records of the run, and the entry stays well-formed. -/
theorem byteEntry_refines {E cap : Nat} (hE : 0 < E) (hc : 0 < cap) (hcap : E ∣ cap) :
    (∀ file : Buf, E ∣ file.length →
      (ByteEntry.read cap file).map (ByteEntry.abs E) = BufEntry.read (cap / E) (recordsOf E file) ∧
      ∀ e, ByteEntry.read cap file = some e → e.wf E) ∧
    (∀ e : ByteEntry, e.wf E →
      ∃ r, e.increment E cap = .ok r ∧ r.map (ByteEntry.abs E) = (ByteEntry.abs E e).increment (cap / E) ∧
        ∀ e', r = some e' → e'.wf E) :=
  ⟨fun file hf => byteEntry_read hE hc hcap file hf, fun e hw => byteEntry_increment hE hc hcap e hw⟩

/-- without the rounding the equality test `current_ != buffer_end_` is stepped over: entry size 2,
a 3-byte buffer — after one record one byte is left and the next `Increment` leaves the buffer -/
theorem byteEntry_unrounded_breaks :
    ByteEntry.read 3 [1, 2, 3, 4, 5, 6] = some ⟨[1, 2, 3], [4, 5, 6]⟩ ∧
    (⟨[1, 2, 3], [4, 5, 6]⟩ : ByteEntry).increment 2 3 = .ok (some ⟨[3], [4, 5, 6]⟩) ∧
    (⟨[3], [4, 5, 6]⟩ : ByteEntry).increment 2 3 = .error () :=
  ⟨rfl, rfl, rfl⟩

/-! ## The byte level in every merge pass -/

/-- **decodeRun_records**: a `MergeQueue::Entry` whose buffer (`per_buffer`) is any positive
multiple of the entry size, reading the byte slice of a run chunk by chunk, delivers exactly the
records of that slice (no step over `buffer_end_`, nothing lost at buffer boundaries). -/
theorem decodeRun_records {E cap : Nat} (hE : 0 < E) (hc : 0 < cap) (hcap : E ∣ cap) (bytes : Buf)
    (hb : E ∣ bytes.length) : decodeRun E cap bytes = some (recordsOf E bytes) :=
  decodeRun_eq hE hc hcap bytes hb

/-- every `per_buffer` the code computes qualifies -/
theorem perBuffer_multiple {cfg : Cfg} {e b t : Nat} (hcfg : mkCfg e b t = .ok cfg) (M R : Nat) :
    0 < perBuffer cfg.entrySize cfg.bufferSize M R ∧ cfg.entrySize ∣ perBuffer cfg.entrySize cfg.bufferSize M R :=
  let L := mkCfg_legal hcfg
  perBuffer_valid L.entryPos L.bufPos L.bufMult M R

/-- **storeRunsBytes_refines**: one pass's output at byte level — merged records written through
the pass chain's `Stream` blocks and `WriteAndRecycle`, logged in bytes, read back at
`(TotalOffset(), NextSize())` and decoded through queue entries — is what the record-level model
stores. -/
theorem storeRunsBytes_refines {E cap B : Nat} (hE : 0 < E) (hc : 0 < cap) (hcap : E ∣ cap) (pad : Buf)
    (runs : List (List (List Nat))) (hu : ∀ r ∈ runs, ∀ x ∈ r, x.length = E) :
    storeRunsBytes E cap B pad (runs.map List.length) runs = some (runs.filter (fun r => !r.isEmpty)) := by
  rw [storeRunsBytes_eq hE hc hcap pad runs hu]
  exact storeRuns_eq runs

example : storeRunsBytes 2 2 4 [9, 9, 9, 9] [2, 0, 1] [[[1, 2], [3, 4]], [], [[5, 6]]] =
    some [[[1, 2], [3, 4]], [[5, 6]]] := by decide
example : decodeRun 2 4 [1, 2, 3, 4, 5, 6] = some [[1, 2], [3, 4], [5, 6]] ∧ decodeRun 2 3 [1, 2, 3, 4, 5, 6] = none := by
  decide

/-- **codeMergeBytes_refines**: `Sort::Merge` with the byte-level file in *every* pass equals
`Sort::Merge` of the record-level model, for runs of `entry_size`-byte records. -/
theorem codeMergeBytes_refines {lt : List Nat → List Nat → Bool} (h : StrictWeak lt) (pick) {cfg : Cfg}
    {e b t : Nat} (hcfg : mkCfg e b t = .ok cfg) (pad : Buf) (lazyMem : Nat) (runs : List (List (List Nat)))
    (hu : ∀ r ∈ runs, ∀ x ∈ r, x.length = cfg.entrySize) :
    codeMergeBytes lt neverCombine pick cfg pad lazyMem runs = codeMerge lt neverCombine pick cfg lazyMem runs :=
  codeMergeBytes_eq h pick (mkCfg_legal hcfg) pad lazyMem runs hu

/-- **codeSortBytes_passes_eq_spec** — the main theorem over the byte-level temp file for every
pass.  Chain blocks are flat byte buffers (valid size a multiple of the entry size), sorted in place
by `SizedSort`, spilled by `WriteAndRecycle` and logged in bytes; every merge pass reads its runs
as byte slices at the logged offsets through queue entries, merges the decoded records, writes the
merged runs through stream blocks into the next byte file and logs `written · entry_size`; the
final lazy merge emits the output.  For every accepted configuration, every lazy memory, every
tie-break policy and every stale block content `pad`, if the comparison is a total order on the
occurring records, the output bytes are the bytes of the sorted records. -/
theorem codeSortBytes_passes_eq_spec {lt : List Nat → List Nat → Bool} (h : StrictWeak lt) (pick) {cfg : Cfg}
    {e b t : Nat} (hcfg : mkCfg e b t = .ok cfg) (pad : Buf) (lazyMem : Nat) (blocks : List Block)
    (hw : ∀ blk ∈ blocks, blk.wf cfg.entrySize)
    (htot : ∀ x y, x ∈ (blocks.map (Block.records cfg.entrySize)).flatten →
      y ∈ (blocks.map (Block.records cfg.entrySize)).flatten → lt x y = false → lt y x = false → x = y)
    (out : Buf) (p ret : Nat)
    (ho : codeSortBytesPasses lt neverCombine pick cfg pad lazyMem blocks = .ok (out, p, ret)) :
    out = bytesOf (sortSpec lt neverCombine (blocks.map (Block.records cfg.entrySize))) := by
  have L := mkCfg_legal hcfg
  rw [codeSortBytesPasses_eq h pick L pad lazyMem blocks hw] at ho
  exact codeSortBytes_eq_spec L.entryPos h pick cfg lazyMem blocks hw htot out p ret ho

/-- … and the byte-level pipeline always completes (no abort, no stall, no read past a buffer) -/
theorem codeSortBytes_passes_ok {lt : List Nat → List Nat → Bool} (h : StrictWeak lt) (pick) {cfg : Cfg}
    {e b t : Nat} (hcfg : mkCfg e b t = .ok cfg) (pad : Buf) (lazyMem : Nat) (blocks : List Block)
    (hw : ∀ blk ∈ blocks, blk.wf cfg.entrySize) :
    ∃ out p ret, codeSortBytesPasses lt neverCombine pick cfg pad lazyMem blocks = .ok (out, p, ret) := by
  have L := mkCfg_legal hcfg
  rw [codeSortBytesPasses_eq h pick L pad lazyMem blocks hw]
  exact codeSortBytes_ok L.entryPos hcfg lt neverCombine pick lazyMem blocks hw

/-! ## HolePunch -/

/-- **holePunch_frame**: `HolePunch(fd, offset_, amount)` right after reading `amount` bytes at
`offset_` keeps the file length and changes no byte outside the slice just read — in particular
nothing another queue entry still has to read. -/
theorem holePunch_frame (file : Buf) (off len : Nat) :
    (holePunch file off len).length = file.length ∧
    ∀ p, p < off ∨ off + len ≤ p → (holePunch file off len)[p]? = file[p]? :=
  ⟨holePunch_length file off len, fun p hp => holePunch_outside file off len p hp⟩

/-- seeded/C16-8 (punch from the page boundary below `offset_`) zeroes the unread tail of the
preceding run.  Page size 4: run A = bytes `[0,6)`, run B = `[6,10)`; A has read its first 4 bytes,
then B reads 4 bytes at offset 6 and punches from offset 4 — A's remaining bytes `[4,6)` now read
as zeros; with the real code they are intact. -/
theorem holePunch_c16_8_breaks :
    readAt (readPunch (some 4) (readPunch (some 4) [1, 2, 3, 4, 5, 6, 7, 8, 9, 10] 0 4).2 6 4).2 (4, 2) = [0, 0] ∧
    readAt (readPunch none (readPunch none [1, 2, 3, 4, 5, 6, 7, 8, 9, 10] 0 4).2 6 4).2 (4, 2) = [5, 6] := by
  decide

/-! ## The chain blocks of the output -/

/-- **output_blocks_invariant**: the blocks the consumer of `Sort::Output` receives (poison only /
`ReadSingle` / merging `Stream`) carry all `nout` records, none exceeds the block capacity, and
every block except the last is full. -/
theorem output_blocks_invariant {cap : Nat} (hc : 0 < cap) (nruns nout : Nat) (h0 : nruns = 0 → nout = 0) :
    (outputBlocks cap nruns nout).sum = nout ∧ (∀ b ∈ outputBlocks cap nruns nout, b ≤ cap) ∧
      (∀ b ∈ (outputBlocks cap nruns nout).dropLast, b = cap) :=
  outputBlocks_ok hc nruns nout h0

/-- the same for `PRead` of the file handed over by `StealCompleted` (as lmplz reads it) -/
theorem pread_blocks_invariant {cap : Nat} (hc : 0 < cap) (n : Nat) :
    (preadBlocks cap n).sum = n ∧ (∀ b ∈ preadBlocks cap n, b ≤ cap) ∧ (∀ b ∈ (preadBlocks cap n).dropLast, b = cap) :=
  preadBlocks_ok hc n

example : outputBlocks 4 1 8 = [4, 4] ∧ outputBlocks 4 3 8 = [4, 4, 0] ∧ outputBlocks 4 3 9 = [4, 4, 1] ∧
    outputBlocks 4 0 0 = [] := by decide

/-! ## Non-vacuity: the hypotheses are satisfiable by the orders and the combiner of the code -/

theorem combineCounts_keeps_prefix : CombKeeps prefixLt combineCounts := by
  intro a b c hc
  unfold combineCounts at hc
  by_cases hab : a.key = b.key
  · simp only [hab, ↓reduceIte, Option.some.injEq] at hc
    subst hc
    simp [prefixLt, hab, lexLt_irrefl]
  · simp [hab] at hc

theorem combineCounts_keeps_suffix : CombKeeps suffixLt combineCounts := by
  intro a b c hc
  unfold combineCounts at hc
  by_cases hab : a.key = b.key
  · simp only [hab, ↓reduceIte, Option.some.injEq] at hc
    subst hc
    simp [suffixLt, hab, lexLt_irrefl]
  · simp [hab] at hc

theorem suffix_key_total (a b : Rec) : (suffixLt a b = false ∧ suffixLt b a = false) ↔ a.key = b.key := by
  constructor
  · intro ⟨h1, h2⟩
    have := lexLt_tri _ _ h1 h2
    exact List.reverse_inj.mp this
  · intro hk
    simp [suffixLt, hk, lexLt_irrefl]

theorem combineCounts_complete_suffix : CombComplete suffixLt combineCounts := by
  intro a b h1 h2
  have := (suffix_key_total a b).mp ⟨h1, h2⟩
  simp [combineCounts, this]

/-! Concrete runs of the merge machinery (block sorting itself is `List.mergeSort`, which `decide`
cannot unfold, so the examples start from sorted runs). -/

example : (passes (fun a b : Nat => decide (a < b)) neverCombine (fun _ _ _ => 0) [[2], [5]] [[1, 3], [2, 2], [0]]).map
    (finalMerge (fun a b : Nat => decide (a < b)) neverCombine (fun _ _ _ => 0)) = some [0, 1, 2, 2, 3] := by decide

example : (passes suffixLt combineCounts (fun _ _ _ => 0) [[2]]
      [[⟨[0, 1], 1⟩, ⟨[1, 2], 5⟩], [⟨[1, 2], 7⟩], [⟨[3, 0], 2⟩, ⟨[1, 2], 1⟩]]).map
    (finalMerge suffixLt combineCounts (fun _ _ _ => 0))
    = some [⟨[3, 0], 2⟩, ⟨[0, 1], 1⟩, ⟨[1, 2], 13⟩] := by decide

/-- a single run is only copied, not combined (`ReadSingle`): this is why the duplicate-free
clause needs duplicate-free blocks -/
example : finalMerge suffixLt combineCounts (fun _ _ _ => 0) [[⟨[1], 5⟩, ⟨[1], 7⟩]] = [⟨[1], 5⟩, ⟨[1], 7⟩] := by decide

end KV.C16
