import Proofs.Sort
/-!
# C16 — External sort returns the sorted (and combined) multiset of its input
(statements; helper lemmas are in `Proofs/Sort*.lean`, the model in `Model/Sort.lean`)
-/
namespace KV.C16
open KV.Sort

/-! ## The comparison functors of lm/common/compare.hh are strict weak orders -/

theorem prefixOrder_lawful : StrictWeak prefixLt := lexLt_strictWeak.comap _
theorem suffixOrder_lawful : StrictWeak suffixLt := lexLt_strictWeak.comap _
theorem contextOrder_lawful : StrictWeak contextLt := lexLt_strictWeak.comap _
theorem intOrder_lawful : StrictWeak intLt :=
  StrictWeak.comap (lt := fun (a b : Nat) => decide (a < b))
    ⟨by simp, by intro a b c; simp; omega, by intro a b c; simp; omega⟩ _

end KV.C16
