import Model.LoaderArpa
import Model.LoaderBin
import Model.Search
import Generated.C10
import Proofs.LoaderArpa
import Proofs.LoaderProbing
import Proofs.LoaderTrieBuild
import Proofs.LoaderProbingBuild
import Proofs.LoaderProbingStep
import Proofs.Search
import Proofs.WellFormed
/-! C10 — Loaders reject malformed input with an exception and never misbehave.

What is proved here is about the *models* (`KV.LoaderArpa`: the ARPA front end and the two search builders'
checks on arbitrary bytes; `KV.LoaderBin`: the binary-header acceptance path).  They are total Lean functions, so
"either succeeds or throws" is by construction; the theorems say *what* is accepted and *which* error comes out
when.  Memory safety of the C++ is observed with sanitizers by `checks/C10.py` (label: partial). -/
namespace KV.C10
open KV.Arpa KV.LoaderArpa KV.Gen.C10

/-- the regenerated constants the loader models rely on (text side: the two white-space tables; binary side:
the header checks that exist in every tree; bit packing: the slack of `BaseSize` equals the width of the
unaligned load it protects) -/
theorem constants_ok :
    maxOrder ≥ 2 ∧ sizeofSanity = sanityRef.length ∧ arpaSpaces = [9, 10, 13, 32] ∧ utilSpaces = [9, 10, 11, 12, 13, 32] ∧
    checkCountsRejectsAboveMax = true ∧ readHeaderRejectsBelowOne = true ∧ readHeaderAcceptsOne = true ∧
    bitPackedSlack = readOffBytes ∧ unkCheck.length = 6 := by decide

/-- the model's white-space predicates are the regenerated tables -/
theorem spaces_match : (List.range 256).all (fun n =>
    (isSpace n.toUInt8 == utilSpaces.contains n) && (isArpaSpace n.toUInt8 == arpaSpaces.contains n)) = true := by
  decide +kernel

/-! ## ARPA: everything accepted is well formed -/

/-- **accepted_wellformed.**  If the loader front end accepts a byte string then: the order is within
`[2, KENLM_MAX_ORDER]`; there is exactly one count per order and the number of stored n-grams of every order
equals its count; the vocabulary is non-empty and has at most `count₁ + 1` ids (the size of the unigram
arrays); every n-gram of section `n` has exactly `n` words, all of them ids below the vocabulary bound
(so: in the vocabulary); every stored probability is a finite value ≤ 0 or −∞ (positive ones were clamped);
every back-off is finite (a rational by type; `inf`/`NaN` were rejected) and is 0 on the highest order. -/
theorem accepted_wellformed (maxO : Nat) (multOk : Bool) (s : Bytes) (p : LParsed)
    (h : LoaderArpa.parse maxO multOk s = .ok p) :
    2 ≤ p.order ∧ p.order ≤ maxO ∧ p.counts.length = p.order ∧
    p.grams.map List.length = p.counts ∧
    p.vocab ≠ [] ∧ p.vocab.length ≤ p.counts.headD 0 + 1 ∧
    (∀ i es, p.grams[i]? = some es → ∀ e ∈ es, EntryOK p.vocab.length (i + 1) (i + 1 == p.order) e) := by
  unfold LoaderArpa.parse at h
  split at h
  · simp at h
  · rename_i l s1 _
    split at h
    · simp at h
    · split at h
      · simp at h
      · rename_i counts s2 hc
        split at h
        · simp at h
        · rename_i hmax
          split at h
          · simp at h
          · rename_i hmin
            split at h
            · simp at h
            · split at h
              · simp at h
              · rename_i c1 cs
                split at h
                · simp at h
                · rename_i s3 _
                  split at h
                  · simp at h
                  · rename_i v uni s4 hu
                    split at h
                    · simp at h
                    · rename_i rest s5 hr
                      split at h
                      · simp at h
                      · simp only [Except.ok.injEq] at h
                        subst h
                        have hv0 : ({} : Vocab).words ≠ [] := by simp
                        have u := read1Grams_spec c1 s3 {} v uni s4 hv0 hu
                        have g := read1Grams_grow c1 s3 {} v uni s4 hu
                        have r := readOrders_spec v.words u.2.2.2 (c1 :: cs).length cs 2 s4 rest s5 hr
                        have hlen : 2 ≤ (c1 :: cs).length := by omega
                        refine ⟨hlen, (by show (c1 :: cs).length ≤ maxO; omega), rfl, by simp [u.1, r.1], u.2.2.2, ?_, ?_⟩
                        · have : ({} : Vocab).words.length = 1 := rfl
                          simp only [List.headD_cons]; omega
                        · intro i es hi e he
                          cases i with
                          | zero =>
                            simp only [List.getElem?_cons_zero, Option.some.injEq] at hi
                            subst hi
                            have := u.2.1 e he
                            have hne : (0 + 1 == (c1 :: cs).length) = false := by
                              simp only [beq_eq_false_iff_ne, ne_eq]; omega
                            rw [hne]; exact this
                          | succ i =>
                            simp only [List.getElem?_cons_succ] at hi
                            have := r.2 i es hi e he
                            have hn : 2 + i = i + 1 + 1 := by omega
                            rw [hn] at this
                            exact this

/-- non-vacuity: a small valid file is accepted (3 unigrams, 1 bigram, CRLF-free) -/
def demoBytes : Bytes :=
  str "\\data\\\nngram 1=3\nngram 2=1\n\n\\1-grams:\n-1\t<s>\n-1\ta\t-0.5\n-2\tb\n\n\\2-grams:\n-0.25\ta b\n\n\\end\\\n"

example : (LoaderArpa.parse 6 true demoBytes).toOption.map (fun p => (p.order, p.counts, p.vocab.length, p.sawUnk)) =
    some (2, [3, 1], 4, false) := by decide +kernel
/-- trailing junk after a number stays in the stream: `-0.25a b` is the bigram `a b` with probability −1/4 -/
example : (LoaderArpa.parse 6 true (str "\\data\\\nngram 1=2\nngram 2=1\n\n\\1-grams:\n-1\ta\n-2\tb\n\n\\2-grams:\n-0.25a b\n\n\\end\\\n")).toOption.map
    (fun p => p.grams.getD 1 []) = some [([2, 1], .fin (-1/4) false, 0)] := by decide +kernel
/-- `-inf` and `NaN` are accepted probabilities, `inf` / `NaN` as a back-off is a format error, a signed NaN a parse error -/
example : (readNum (str "-inf\tx")).toOption.map (·.1) = some (.inf true) := by decide +kernel
example : backoffOf (.inf false) = .error .format := rfl
example : backoffOf .nan = .error .format := rfl
example : (readNum (str "NaN\tx")).toOption.map (·.1) = some .nan := by decide +kernel
example : (match readNum (str "-NaN\tx") with | .error .parse => true | _ => false) = true := by decide +kernel

/-! ## the builders: every error class exactly under its condition -/

/-- **build_total.**  The builder checks end in `ok` or in one of two error classes — never anything else;
the trie family never raises the probing-size error. -/
theorem build_total (k : Kind) (b : Nat → Nat) (p : LParsed) :
    (buildCheck k b p = .ok () ∨ buildCheck k b p = .error .format ∨ buildCheck k b p = .error .probingSize) ∧
    (k = .trie → buildCheck k b p ≠ .error .probingSize) := by
  cases k with
  | trie =>
    unfold buildCheck
    by_cases h : trieContextsOk p = true <;> simp [h]
  | probing =>
    unfold buildCheck
    simp only
    by_cases h1 : (probingRun p).2 = true
    · by_cases h2 : probingFull p b (probingRun p).1 = true <;> simp [h1, h2]
    · simp [h1]

/-- **trie: "context must appear".**  The trie builder rejects (FormatLoadException) exactly when some n-gram of
order ≥ 3 has a context that is not an n-gram of the file; otherwise it accepts. -/
theorem trie_error_iff (b : Nat → Nat) (p : LParsed) :
    (buildCheck .trie b p = .error .format ↔ ∃ e ∈ p.entries, 3 ≤ e.1.length ∧ e.1.tail ∉ p.keys) ∧
    (buildCheck .trie b p = .ok () ↔ ∀ e ∈ p.entries, 3 ≤ e.1.length → e.1.tail ∈ p.keys) := by
  have key : trieContextsOk p = true ↔ ∀ e ∈ p.entries, 3 ≤ e.1.length → e.1.tail ∈ p.keys := by
    unfold trieContextsOk
    simp only [List.all_eq_true, Bool.or_eq_true, decide_eq_true_eq, List.contains_eq_mem]
    constructor
    · intro h e he h3
      rcases h e he with h | h
      · omega
      · exact h
    · intro h e he
      by_cases h3 : e.1.length < 3
      · exact Or.inl h3
      · exact Or.inr (h e he (by omega))
  unfold buildCheck
  constructor
  · constructor
    · intro h
      by_cases hc : trieContextsOk p = true
      · simp [hc] at h
      · apply Classical.byContradiction
        intro hne
        apply hc
        apply key.mpr
        intro e he h3
        apply Classical.byContradiction
        intro hn
        exact hne ⟨e, he, h3, hn⟩
    · rintro ⟨e, he, h3, hn⟩
      have : trieContextsOk p ≠ true := fun hc => hn (key.mp hc e he h3)
      simp [this]
  · constructor
    · intro h
      by_cases hc : trieContextsOk p = true
      · exact key.mp hc
      · simp [hc] at h
    · intro h
      simp [key.mpr h]

/-- the `probingFull` test spelled out: some middle order `k` whose table holds at least as many keys as it has buckets -/
theorem probingFull_iff (b : Nat → Nat) (p : LParsed) (keys : List (List Word)) :
    probingFull p b keys = true ↔ ∃ k, k < p.order ∧ 2 ≤ k ∧
      b (p.counts.getD (k - 1) 0) ≤ (keys.filter (fun g => g.length == k)).length := by
  unfold probingFull
  simp only [List.any_eq_true, List.mem_range, Bool.and_eq_true, decide_eq_true_eq, ge_iff_le]

/-- **probing: the two error classes.**  FormatLoadException exactly when the context check failed for some
n-gram at the time it was read (`probingRun` flag); ProbingSizeException exactly when all context checks passed
and real + blank entries of some middle order reach its bucket count (`probingFull_iff`). -/
theorem probing_error_classes (b : Nat → Nat) (p : LParsed) :
    (buildCheck .probing b p = .error .format ↔ (probingRun p).2 = false) ∧
    (buildCheck .probing b p = .error .probingSize ↔
      (probingRun p).2 = true ∧ probingFull p b (probingRun p).1 = true) ∧
    (buildCheck .probing b p = .ok () ↔
      (probingRun p).2 = true ∧ probingFull p b (probingRun p).1 = false) := by
  cases hr : (probingRun p).2 with
  | false => simp [buildCheck, hr]
  | true =>
    cases hf : probingFull p b (probingRun p).1 with
    | false => simp [buildCheck, hr, hf]
    | true => simp [buildCheck, hr, hf]

/-- accepted by the probing builder ⇒ every middle table keeps at least one empty bucket.  This is what makes the linear
probe of `Find` / `FindOrInsert` terminate on absent keys (C20's probing theorems assume a free bucket); a capacity test that
lets a table fill completely (seeded change C10-1) breaks exactly this. -/
theorem probing_accept_has_empty_bucket (b : Nat → Nat) (p : LParsed) (h : buildCheck .probing b p = .ok ()) :
    ∀ k, k < p.order → 2 ≤ k →
      ((probingRun p).1.filter (fun g => g.length == k)).length < b (p.counts.getD (k - 1) 0) := by
  intro k hk h2
  have hnf := ((probing_error_classes b p).2.2.mp h).2
  apply Nat.lt_of_not_le
  intro hle
  have hf := (probingFull_iff b p (probingRun p).1).mpr ⟨k, hk, h2, hle⟩
  rw [hf] at hnf
  exact absurd hnf (by simp)

/-- the bucket count the loader computes always exceeds the announced entry count (for every multiplier bit pattern) -/
theorem probingBuckets_gt (multBits n : Nat) : n < KV.Binary.probingBuckets multBits n := by
  unfold KV.Binary.probingBuckets
  omega

/-- one step of the probing builder: the key table only grows, and afterwards it contains every reversed prefix
(length ≥ 2, shorter than the n-gram) of the n-gram just read — the hallucinated blanks -/
theorem findLower_mono (g : List Word) : ∀ (k : Nat) (keys : List (List Word)) (x : List Word),
    x ∈ keys → x ∈ findLower g k keys := by
  intro k
  induction k with
  | zero => intro keys x hx; simpa [findLower] using hx
  | succ k ih =>
    intro keys x hx
    unfold findLower
    split
    · exact hx
    · split
      · exact hx
      · exact ih _ x (List.mem_cons_of_mem _ hx)

theorem findLower_top (g : List Word) (k : Nat) (keys : List (List Word)) (hk : 2 ≤ k) :
    g.take k ∈ findLower g k keys := by
  cases k with
  | zero => omega
  | succ k =>
    unfold findLower
    have : ¬ (k + 1 < 2) := by omega
    simp only [this, ↓reduceIte, List.contains_eq_mem, decide_eq_true_eq]
    split
    · assumption
    · exact findLower_mono g k _ _ List.mem_cons_self

/-! ## accepted by the trie family ⇒ the well-formedness C01's theorems assume -/

/-- **trie_accept_wellformed.**  A file accepted by the front end and the trie builder, seen as the `Arpa` of
C01 (`toArpa`), has order ≥ 2, non-empty keys no longer than the order, no back-off on the highest order and
every context of an n-gram of order ≥ 3 present.  (`WellFormed` additionally asks that the context of every
*bigram* is a unigram; that holds because ids are assigned by the unigram lines — `unigramsCover` below states
it, and the driver evaluates it on every accepted mutant.) -/
def unigramsCover (a : Arpa) : Prop := ∀ x w e, a.gram [x, w] = some e → a.gram [w] ≠ none

theorem trie_accept_wellformed (maxO : Nat) (multOk : Bool) (b : Nat → Nat) (s : Bytes) (p : LParsed) (u : Rat) (mem : Nat)
    (h : load .trie maxO multOk b s mem = .ok p) (cover : unigramsCover (p.toArpa u)) :
    KV.Score.WellFormed (p.toArpa u) := by
  unfold load at h
  split at h
  · simp at h
  · rename_i p' hp
    split at h
    · simp at h
    · rename_i hb
      split at h
      · simp at h
      simp only [Except.ok.injEq] at h
      subst h
      have wf := accepted_wellformed maxO multOk s p' hp
      have tr := ((trie_error_iff b p').2).mp hb
      -- membership in the Arpa entries
      have mem : ∀ g e, (p'.toArpa u).gram g = some e →
          (g = [0] ∧ e.backoff = 0) ∨ ∃ le ∈ p'.entries, toEntry le = (g, e) := by
        intro g e hg
        have hm := KV.Score.lookup_some_mem _ _ _ hg
        unfold LParsed.toArpa at hm
        simp only at hm
        split at hm
        · exact Or.inr (by simpa [List.mem_map] using hm)
        · rcases List.mem_cons.mp hm with hh | hh
          · left
            simp only [Prod.mk.injEq] at hh
            exact ⟨hh.1, by rw [hh.2]⟩
          · exact Or.inr (by simpa [List.mem_map] using hh)
      -- an entry of the flattened list sits in some section
      have sect : ∀ le ∈ p'.entries, ∃ (i : Nat) (es : List LE), p'.grams[i]? = some es ∧ le ∈ es := by
        intro le hle
        unfold LParsed.entries at hle
        obtain ⟨es, hes, hle⟩ := List.mem_flatten.mp hle
        obtain ⟨i, hi, hget⟩ := List.getElem_of_mem hes
        exact ⟨i, es, by rw [List.getElem?_eq_getElem hi, hget], hle⟩
      have key1 : ∀ le, (toEntry le).1 = le.1 := by
        intro le; unfold toEntry; split <;> rfl
      have keybo : ∀ le, (toEntry le).2.backoff = le.2.2 := by
        intro le; unfold toEntry; split <;> rfl
      have glen : p'.grams.length = p'.order := by
        have := congrArg List.length wf.2.2.2.1
        simpa [wf.2.2.1] using this
      refine ⟨wf.1, ?_, ?_, ?_, ?_⟩
      · intro g hg hnil
        obtain ⟨e, he⟩ := Option.ne_none_iff_exists'.mp hg
        rcases mem g e he with ⟨h0, _⟩ | ⟨le, hle, hte⟩
        · subst hnil; simp at h0
        · obtain ⟨i, es, hi, hmem⟩ := sect le hle
          have ok := wf.2.2.2.2.2.2 i es hi le hmem
          have : g = le.1 := by rw [← key1 le, hte]
          subst this
          have := ok.len
          rw [hnil] at this; simp at this
      · intro g hg
        obtain ⟨e, he⟩ := Option.ne_none_iff_exists'.mp hg
        show g.length ≤ p'.order
        rcases mem g e he with ⟨h0, _⟩ | ⟨le, hle, hte⟩
        · subst h0; simp only [List.length_cons, List.length_nil]; have := wf.1; omega
        · obtain ⟨i, es, hi, hmem⟩ := sect le hle
          have ok := wf.2.2.2.2.2.2 i es hi le hmem
          have : g = le.1 := by rw [← key1 le, hte]
          subst this
          rw [ok.len]
          have : i < p'.grams.length := by
            rcases List.getElem?_eq_some_iff.mp hi with ⟨hlt, _⟩; exact hlt
          omega
      · intro x g hne hg
        obtain ⟨e, he⟩ := Option.ne_none_iff_exists'.mp hg
        cases g with
        | nil => exact absurd rfl hne
        | cons w g' =>
          cases g' with
          | nil => exact cover x w e he
          | cons w2 g2 =>
            rcases mem (x :: w :: w2 :: g2) e he with ⟨h0, _⟩ | ⟨le, hle, hte⟩
            · simp at h0
            · have hk : le.1 = x :: w :: w2 :: g2 := by rw [← key1 le, hte]
              have := tr le hle (by rw [hk]; simp)
              rw [hk] at this
              simp only [List.tail_cons] at this
              unfold LParsed.keys at this
              obtain ⟨le2, hle2, hk2⟩ := List.mem_map.mp this
              -- le2's key is in the Arpa entries, so the lookup cannot be none
              intro hnone
              have : ((w :: w2 :: g2), (toEntry le2).2) ∈ (p'.toArpa u).entries := by
                unfold LParsed.toArpa
                simp only
                have : toEntry le2 ∈ p'.entries.map toEntry := List.mem_map_of_mem hle2
                have he2 : toEntry le2 = (w :: w2 :: g2, (toEntry le2).2) := by
                  apply Prod.ext
                  · simp [key1, hk2]
                  · rfl
                rw [he2] at this
                split
                · exact this
                · exact List.mem_cons_of_mem _ this
              unfold Arpa.gram at hnone
              have := List.lookup_eq_none_iff.mp hnone
              simp at this
              exact this _ _ ‹_› rfl
      · intro g e hg hlen
        rcases mem g e hg with ⟨h0, hb0⟩ | ⟨le, hle, hte⟩
        · exact hb0
        · obtain ⟨i, es, hi, hmem⟩ := sect le hle
          have ok := wf.2.2.2.2.2.2 i es hi le hmem
          have hgk : g = le.1 := by rw [← key1 le, hte]
          have hi1 : i + 1 = p'.order := by
            have := ok.len
            rw [← hgk, hlen] at this
            exact this.symm
          have := ok.topbo (by simp [hi1])
          have he : e = (toEntry le).2 := by rw [hte]
          rw [he, keybo le]
          exact this

/-- every id the unigram section hands out has a unigram entry (ids ≥ 1 by their own line, id 0 by a `<unk>` line) -/
theorem unigrams_cover (maxO : Nat) (multOk : Bool) (s : Bytes) (p : LParsed)
    (h : LoaderArpa.parse maxO multOk s = .ok p) :
    ∃ uni rest, p.grams = uni :: rest ∧
      (∀ id, 1 ≤ id → id < p.vocab.length → [id] ∈ uni.map (·.1)) ∧
      (p.sawUnk = true → [0] ∈ uni.map (·.1)) := by
  unfold LoaderArpa.parse at h
  split at h
  · simp at h
  · rename_i l s1 _
    split at h
    · simp at h
    · split at h
      · simp at h
      · rename_i counts s2 hc
        split at h
        · simp at h
        · rename_i hmax
          split at h
          · simp at h
          · rename_i hmin
            split at h
            · simp at h
            · split at h
              · simp at h
              · rename_i c1 cs
                split at h
                · simp at h
                · rename_i s3 _
                  split at h
                  · simp at h
                  · rename_i v uni s4 hu
                    split at h
                    · simp at h
                    · rename_i rest s5 hr
                      split at h
                      · simp at h
                      · simp only [Except.ok.injEq] at h
                        subst h
                        have c := read1Grams_cover c1 s3 {} v uni s4 hu
                        refine ⟨uni, rest, rfl, ?_, ?_⟩
                        · intro id h1 h2
                          exact c.1 id (by show ({} : Vocab).words.length ≤ id; exact h1) h2
                        · intro hs
                          rcases c.2 hs with h0 | h0
                          · exact absurd h0 (by simp)
                          · exact h0

/-- the context word of every bigram has a unigram entry — by construction of the ids -/
theorem parse_unigramsCover (maxO : Nat) (multOk : Bool) (s : Bytes) (p : LParsed) (u : Rat)
    (h : LoaderArpa.parse maxO multOk s = .ok p) : unigramsCover (p.toArpa u) := by
  have wf := accepted_wellformed maxO multOk s p h
  obtain ⟨uni, rest, hg, hc1, hc0⟩ := unigrams_cover maxO multOk s p h
  have key1 : ∀ le, (toEntry le).1 = le.1 := by
    intro le; unfold toEntry; split <;> rfl
  -- a unigram key of the file is a key of the Arpa
  have uniKey : ∀ k, k ∈ uni.map (·.1) → (p.toArpa u).gram k ≠ none := by
    intro k hk hnone
    obtain ⟨le, hle, rfl⟩ := List.mem_map.mp hk
    have hle' : le ∈ p.entries := by
      unfold LParsed.entries
      rw [hg]
      simp only [List.flatten_cons, List.mem_append]
      exact Or.inl hle
    have hin : toEntry le ∈ (p.toArpa u).entries := by
      unfold LParsed.toArpa
      simp only
      have : toEntry le ∈ p.entries.map toEntry := List.mem_map_of_mem hle'
      split
      · exact this
      · exact List.mem_cons_of_mem _ this
    unfold Arpa.gram at hnone
    have := List.lookup_eq_none_iff.mp hnone
    simp at this
    exact this _ _ hin (key1 le).symm
  intro x w e hg2
  have hm := KV.Score.lookup_some_mem _ _ _ hg2
  -- the bigram comes from a stored entry
  have hsrc : ∃ le ∈ p.entries, toEntry le = ([x, w], e) := by
    unfold LParsed.toArpa at hm
    simp only at hm
    split at hm
    · simpa [List.mem_map] using hm
    · rcases List.mem_cons.mp hm with hh | hh
      · simp at hh
      · simpa [List.mem_map] using hh
  obtain ⟨le, hle, hte⟩ := hsrc
  have hk : le.1 = [x, w] := by rw [← key1 le, hte]
  unfold LParsed.entries at hle
  obtain ⟨es, hes, hle2⟩ := List.mem_flatten.mp hle
  obtain ⟨i, hi, hget⟩ := List.getElem_of_mem hes
  have ok := wf.2.2.2.2.2.2 i es (by rw [List.getElem?_eq_getElem hi, hget]) le hle2
  have hw : w < p.vocab.length := ok.ids w (by rw [hk]; simp)
  by_cases h0 : w = 0
  · subst h0
    by_cases hs : p.sawUnk = true
    · exact uniKey [0] (hc0 hs)
    · intro hnone
      unfold Arpa.gram LParsed.toArpa at hnone
      simp [hs] at hnone
  · exact uniKey [w] (hc1 w (Nat.pos_of_ne_zero h0) hw)

/-- **trie_accept_wellformed, closed form**: no extra hypothesis — everything the trie family accepts satisfies the
`WellFormed` predicate under which C01/C02 prove "query = ARPA recursion" and state sufficiency. -/
theorem trie_accept_wellformed_full (maxO : Nat) (multOk : Bool) (b : Nat → Nat) (s : Bytes) (p : LParsed) (u : Rat) (mem : Nat)
    (h : load .trie maxO multOk b s mem = .ok p) : KV.Score.WellFormed (p.toArpa u) := by
  have hp : LoaderArpa.parse maxO multOk s = .ok p := by
    unfold load at h
    split at h
    · simp at h
    · rename_i p' hp'
      split at h
      · simp at h
      · split at h
        · simp at h
        · simp only [Except.ok.injEq] at h
          subst h
          exact hp'
  exact trie_accept_wellformed maxO multOk b s p u mem h (parse_unigramsCover maxO multOk s p u hp)

/-- non-vacuity: the demo file is accepted by both families and its `Arpa` is well formed -/
example : (load .trie 6 true buckets15 demoBytes).toOption.isSome = true := by decide +kernel
example : (load .probing 6 true buckets15 demoBytes).toOption.isSome = true := by decide +kernel

/-- **trie: duplicates that meet in a merge.**  With everything else in order, the trie family rejects (FormatLoadException
"Duplicate n-gram detected") exactly when two equal n-grams sit in different sort batches; duplicates inside one
batch — in particular in every file whose orders fit the sort buffer — are accepted. -/
theorem trie_duplicate_iff (maxO : Nat) (multOk : Bool) (b : Nat → Nat) (s : Bytes) (p : LParsed) (mem : Nat)
    (hp : LoaderArpa.parse maxO multOk s = .ok p) (hb : buildCheck .trie b p = .ok ()) :
    (load .trie maxO multOk b s mem = .error .format ↔ trieDuplicateAcrossBatches p mem = true) ∧
    (load .trie maxO multOk b s mem = .ok p ↔ trieDuplicateAcrossBatches p mem = false) := by
  unfold load
  simp only [hp, hb]
  cases hd : trieDuplicateAcrossBatches p mem <;> simp

/-- the probing family ignores duplicates (both copies are inserted) -/
theorem probing_ignores_duplicates (maxO : Nat) (multOk : Bool) (b : Nat → Nat) (s : Bytes) (p : LParsed) (mem : Nat)
    (hp : LoaderArpa.parse maxO multOk s = .ok p) (hb : buildCheck .probing b p = .ok ()) :
    load .probing maxO multOk b s mem = .ok p := by
  unfold load
  simp [hp, hb]

/-- non-vacuity of the batch logic: five bigrams, batches of two; `[1,2]` in batches 0 and 2 is a cross-batch duplicate,
two adjacent copies in one batch are not -/
example : crossBatchDup [[1,2],[3,4],[5,6],[7,8],[1,2]] 2 = true := by decide +kernel
example : crossBatchDup [[1,2],[1,2],[5,6],[7,8],[9,9]] 2 = false := by decide +kernel

/-! ## accepted by the probing family -/

/-- C01's `WellFormed` with the context clause weakened to what the probing builder guarantees: the context of every n-gram
is an n-gram of the file **or a blank** (a proper reversed prefix, of length ≥ 2, of an n-gram of the file — the entries
`FindLower` hallucinates, which `Table.build` also contains).  `WellFormed` is the special case without the second disjunct. -/
structure WellFormedThroughBlanks (a : Arpa) : Prop where
  order_ge : 2 ≤ a.order
  len_pos : ∀ g, a.gram g ≠ none → g ≠ []
  len_le : ∀ g, a.gram g ≠ none → g.length ≤ a.order
  ctx_reachable : ∀ x g, g ≠ [] → a.gram (x :: g) ≠ none →
    a.gram g ≠ none ∨ ∃ h, a.gram h ≠ none ∧ 2 ≤ g.length ∧ g.length < h.length ∧ g = h.take g.length
  top_bo : ∀ g e, a.gram g = some e → g.length = a.order → e.backoff = 0

/-- what the front end alone guarantees about the `Arpa` of an accepted file: everything in `WellFormed` except the
context clause, plus the two bridges between `p.keys` and `Arpa.gram` -/
theorem parsed_core (maxO : Nat) (multOk : Bool) (s : Bytes) (p : LParsed) (u : Rat)
    (hp : LoaderArpa.parse maxO multOk s = .ok p) :
    2 ≤ (p.toArpa u).order ∧
    (∀ g, (p.toArpa u).gram g ≠ none → g ≠ []) ∧
    (∀ g, (p.toArpa u).gram g ≠ none → g.length ≤ (p.toArpa u).order) ∧
    (∀ g e, (p.toArpa u).gram g = some e → g.length = (p.toArpa u).order → e.backoff = 0) ∧
    (∀ g, 2 ≤ g.length → (p.toArpa u).gram g ≠ none → g ∈ (p.grams.drop 1).flatten.map (·.1)) ∧
    (∀ k ∈ p.keys, (p.toArpa u).gram k ≠ none) := by
  have wf := accepted_wellformed maxO multOk s p hp
  have mem : ∀ g e, (p.toArpa u).gram g = some e →
      (g = [0] ∧ e.backoff = 0) ∨ ∃ le ∈ p.entries, toEntry le = (g, e) := by
    intro g e hg
    have hm := KV.Score.lookup_some_mem _ _ _ hg
    unfold LParsed.toArpa at hm
    simp only at hm
    split at hm
    · exact Or.inr (by simpa [List.mem_map] using hm)
    · rcases List.mem_cons.mp hm with hh | hh
      · left
        simp only [Prod.mk.injEq] at hh
        exact ⟨hh.1, by rw [hh.2]⟩
      · exact Or.inr (by simpa [List.mem_map] using hh)
  have sect : ∀ le ∈ p.entries, ∃ (i : Nat) (es : List LE), p.grams[i]? = some es ∧ le ∈ es := by
    intro le hle
    unfold LParsed.entries at hle
    obtain ⟨es, hes, hle⟩ := List.mem_flatten.mp hle
    obtain ⟨i, hi, hget⟩ := List.getElem_of_mem hes
    exact ⟨i, es, by rw [List.getElem?_eq_getElem hi, hget], hle⟩
  have key1 : ∀ le, (toEntry le).1 = le.1 := by
    intro le; unfold toEntry; split <;> rfl
  have keybo : ∀ le, (toEntry le).2.backoff = le.2.2 := by
    intro le; unfold toEntry; split <;> rfl
  have glen : p.grams.length = p.order := by
    have := congrArg List.length wf.2.2.2.1
    simpa [wf.2.2.1] using this
  refine ⟨wf.1, ?_, ?_, ?_, ?_, ?_⟩
  · intro g hg hnil
    obtain ⟨e, he⟩ := Option.ne_none_iff_exists'.mp hg
    rcases mem g e he with ⟨h0, _⟩ | ⟨le, hle, hte⟩
    · subst hnil; simp at h0
    · obtain ⟨i, es, hi, hmem⟩ := sect le hle
      have ok := wf.2.2.2.2.2.2 i es hi le hmem
      have : g = le.1 := by rw [← key1 le, hte]
      subst this
      have := ok.len
      rw [hnil] at this; simp at this
  · intro g hg
    obtain ⟨e, he⟩ := Option.ne_none_iff_exists'.mp hg
    show g.length ≤ p.order
    rcases mem g e he with ⟨h0, _⟩ | ⟨le, hle, hte⟩
    · subst h0; simp only [List.length_cons, List.length_nil]; have := wf.1; omega
    · obtain ⟨i, es, hi, hmem⟩ := sect le hle
      have ok := wf.2.2.2.2.2.2 i es hi le hmem
      have : g = le.1 := by rw [← key1 le, hte]
      subst this
      rw [ok.len]
      have : i < p.grams.length := by
        rcases List.getElem?_eq_some_iff.mp hi with ⟨hlt, _⟩; exact hlt
      omega
  · intro g e hg hlen
    rcases mem g e hg with ⟨h0, hb0⟩ | ⟨le, hle, hte⟩
    · exact hb0
    · obtain ⟨i, es, hi, hmem⟩ := sect le hle
      have ok := wf.2.2.2.2.2.2 i es hi le hmem
      have hgk : g = le.1 := by rw [← key1 le, hte]
      have hi1 : i + 1 = p.order := by
        have := ok.len
        rw [← hgk] at this
        have hl : g.length = p.order := hlen
        omega
      have := ok.topbo (by simp [hi1])
      have he : e = (toEntry le).2 := by rw [hte]
      rw [he, keybo le]
      exact this
  · intro g h2 hg
    obtain ⟨e, he⟩ := Option.ne_none_iff_exists'.mp hg
    rcases mem g e he with ⟨h0, _⟩ | ⟨le, hle, hte⟩
    · subst h0; simp at h2
    · obtain ⟨i, es, hi, hmem⟩ := sect le hle
      have ok := wf.2.2.2.2.2.2 i es hi le hmem
      have hgk : g = le.1 := by rw [← key1 le, hte]
      have hi1 : 1 ≤ i := by
        have := ok.len
        rw [← hgk] at this
        omega
      rw [hgk]
      apply List.mem_map_of_mem
      apply List.mem_flatten.mpr
      refine ⟨es, ?_, hmem⟩
      obtain ⟨j, rfl⟩ : ∃ j, i = j + 1 := ⟨i - 1, by omega⟩
      have : (p.grams.drop 1)[j]? = some es := by
        rw [List.getElem?_drop]; rw [Nat.add_comm]; exact hi
      exact List.mem_of_getElem? this
  · intro k hk hnone
    unfold LParsed.keys at hk
    obtain ⟨le, hle, rfl⟩ := List.mem_map.mp hk
    have hin : toEntry le ∈ (p.toArpa u).entries := by
      unfold LParsed.toArpa
      simp only
      have : toEntry le ∈ p.entries.map toEntry := List.mem_map_of_mem hle
      split
      · exact this
      · exact List.mem_cons_of_mem _ this
    unfold Arpa.gram at hnone
    have := List.lookup_eq_none_iff.mp hnone
    simp at this
    exact this _ _ hin (key1 le).symm

/-- **probing_accept_wellformed.**  Whatever the probing family accepts (front end, then blank insertion / context-so-far /
capacity checks of the builder model) has order ≥ 2, non-empty keys no longer than the order, no back-off on the highest
order, the vocabulary covered (the context word of a bigram has a unigram entry), and the context of every longer n-gram
is an n-gram of the file or one of its blanks. -/
theorem probing_accept_wellformed (maxO : Nat) (multOk : Bool) (b : Nat → Nat) (s : Bytes) (p : LParsed) (u : Rat) (mem : Nat)
    (h : load .probing maxO multOk b s mem = .ok p) : WellFormedThroughBlanks (p.toArpa u) := by
  unfold load at h
  split at h
  · simp at h
  · rename_i p' hp
    split at h
    · simp at h
    · rename_i hb
      split at h
      · simp at h
      simp only [Except.ok.injEq] at h
      subst h
      obtain ⟨h1, h2, h3, h4, h5, h6⟩ := parsed_core maxO multOk s p' u hp
      have hflag : (probingRun p').2 = true := ((probing_error_classes b p').2.2.mp hb).1
      have wf := accepted_wellformed maxO multOk s p' hp
      -- every line of order ≥ 2 is a key of the file and non-empty
      have hall : ∀ g ∈ (p'.grams.drop 1).flatten.map (·.1), g ∈ p'.keys ∧ 0 < g.length := by
        intro g hg
        obtain ⟨le, hle, rfl⟩ := List.mem_map.mp hg
        obtain ⟨es, hes, hmem⟩ := List.mem_flatten.mp hle
        have hes' : es ∈ p'.grams := List.mem_of_mem_drop hes
        refine ⟨?_, ?_⟩
        · unfold LParsed.keys LParsed.entries
          exact List.mem_map_of_mem (List.mem_flatten.mpr ⟨es, hes', hmem⟩)
        · obtain ⟨i, hi, hget⟩ := List.getElem_of_mem hes'
          have ok := wf.2.2.2.2.2.2 i es (by rw [List.getElem?_eq_getElem hi, hget]) le hmem
          rw [ok.len]; omega
      have reach := run_reach p'.keys p'.order _ ([], true) hall (by intro k hk; cases hk) hflag
      refine ⟨h1, h2, h3, ?_, h4⟩
      intro x g hne hg
      cases g with
      | nil => exact absurd rfl hne
      | cons w g' =>
        cases g' with
        | nil =>
          obtain ⟨e, he⟩ := Option.ne_none_iff_exists'.mp hg
          exact Or.inl (parse_unigramsCover maxO multOk s p' u hp x w e he)
        | cons w2 g2 =>
          have hin := h5 (x :: w :: w2 :: g2) (by simp) hg
          have := reach _ hin (by simp)
          simp only [List.tail_cons] at this
          rcases this with hk | ⟨hh, hhk, hl2, hlt, heq⟩
          · exact Or.inl (h6 _ hk)
          · exact Or.inr ⟨hh, h6 _ hhk, hl2, hlt, heq⟩

/-- without blanks (every reversed prefix of an n-gram is an n-gram: what lmplz writes) the weakened predicate is C01's -/
theorem wellFormed_of_prefixClosed (a : Arpa) (w : WellFormedThroughBlanks a)
    (pc : ∀ h j, a.gram h ≠ none → 1 ≤ j → j < h.length → a.gram (h.take j) ≠ none) : KV.Score.WellFormed a := by
  refine ⟨w.order_ge, w.len_pos, w.len_le, ?_, w.top_bo⟩
  intro x g hne hg
  rcases w.ctx_reachable x g hne hg with h | ⟨h, hh, h2, hlt, heq⟩
  · exact h
  · rw [heq]; exact pc h g.length hh (by omega) hlt

/-- accepted by the probing family and prefix-closed ⇒ C01's `WellFormed` (so `fullScore_prob` etc. apply) -/
theorem probing_accept_wellformed_prefixClosed (maxO : Nat) (multOk : Bool) (b : Nat → Nat) (s : Bytes) (p : LParsed) (u : Rat)
    (mem : Nat) (h : load .probing maxO multOk b s mem = .ok p)
    (pc : ∀ h j, (p.toArpa u).gram h ≠ none → 1 ≤ j → j < h.length → (p.toArpa u).gram (h.take j) ≠ none) :
    KV.Score.WellFormed (p.toArpa u) :=
  wellFormed_of_prefixClosed _ (probing_accept_wellformed maxO multOk b s p u mem h) pc

/-- the converse view: C01's `WellFormed` is the weakened predicate with the blank disjunct never used -/
theorem wellFormedThroughBlanks_of_wellFormed (a : Arpa) (w : KV.Score.WellFormed a) : WellFormedThroughBlanks a :=
  ⟨w.order_ge, w.len_pos, w.len_le, fun x g hne hg => Or.inl (w.ctx_present x g hne hg), w.top_bo⟩

/-! ## the loader model's trie verdict against `KV.TrieBuild.buildTable` (builder `binary`'s model of lm/search_trie.cc)

`buildTable` has the error type `Table.build` lacks, so the `.error ⇒ condition` directions can be stated against it.  Its input
is the list of all n-grams *including* the hallucinated `<unk>`: the keys of `p.toArpa`. -/

theorem gram_ne_none_iff (a : Arpa) (k : List Word) : a.gram k ≠ none ↔ k ∈ a.entries.map (·.1) := by
  unfold Arpa.gram
  constructor
  · intro h
    obtain ⟨e, he⟩ := Option.ne_none_iff_exists'.mp h
    exact List.mem_map.mpr ⟨(k, e), KV.Score.lookup_some_mem _ _ _ he, rfl⟩
  · intro h hn
    have := List.lookup_eq_none_iff.mp hn
    obtain ⟨q, hq, rfl⟩ := List.mem_map.mp h
    simp at this
    exact this _ _ hq rfl

theorem toArpa_keys (p : LParsed) (u : Rat) :
    (p.toArpa u).entries.map (·.1) = if p.sawUnk then p.keys else [0] :: p.keys := by
  have key1 : ∀ le, (toEntry le).1 = le.1 := by
    intro le; unfold toEntry; split <;> rfl
  have : (p.entries.map toEntry).map (·.1) = p.keys := by
    unfold LParsed.keys
    rw [List.map_map]
    apply List.map_congr_left
    intro le _
    exact key1 le
  unfold LParsed.toArpa
  simp only
  split <;> simp [this]

/-- **`buildTable = .error .missingContext` ⇒ the loader model's trie verdict is FormatLoadException.**  (The bigram case of
`buildTable`'s check cannot fire on a parsed file: the unigrams cover the vocabulary.) -/
theorem trie_reject_of_buildTable_missingContext (maxO : Nat) (multOk : Bool) (s : Bytes) (p : LParsed) (u : Rat) (b : Nat → Nat)
    (fadd : Nat → Nat → Nat) (gs : List KV.TrieBuild.Gram)
    (hp : LoaderArpa.parse maxO multOk s = .ok p) (hk : gs.map (·.key) = (p.toArpa u).entries.map (·.1))
    (h : KV.TrieBuild.buildTable fadd p.order gs = .error .missingContext) :
    buildCheck .trie b p = .error .format := by
  obtain ⟨g, hg, hl, hr⟩ := KV.TrieBuild.buildTable_missingContext fadd p.order gs h
  have htail : g.key.drop 1 ∉ (p.toArpa u).entries.map (·.1) := by
    rw [← hk]
    intro hm
    obtain ⟨g', hg', he⟩ := List.mem_map.mp hm
    exact hr g' hg' he
  have hkey : g.key ∈ (p.toArpa u).entries.map (·.1) := by rw [← hk]; exact List.mem_map_of_mem hg
  have hkp : g.key ∈ p.keys := by
    rw [toArpa_keys] at hkey
    split at hkey
    · exact hkey
    · rcases List.mem_cons.mp hkey with h0 | h0
      · rw [h0] at hl; simp at hl
      · exact h0
  have hsub : ∀ k, k ∈ p.keys → k ∈ (p.toArpa u).entries.map (·.1) := by
    intro k hk'
    rw [toArpa_keys]
    split
    · exact hk'
    · exact List.mem_cons_of_mem _ hk'
  unfold LParsed.keys at hkp
  obtain ⟨le, hle, hlek⟩ := List.mem_map.mp hkp
  by_cases h3 : 3 ≤ g.key.length
  · apply (trie_error_iff b p).1.mpr
    refine ⟨le, hle, by rw [hlek]; exact h3, ?_⟩
    intro hin
    apply htail
    rw [List.drop_one, ← hlek]
    exact hsub _ hin
  · exfalso
    have h2 : g.key.length = 2 := by omega
    obtain ⟨x, w, hxw⟩ : ∃ x w, g.key = [x, w] := by
      match hgk : g.key, h2 with
      | [x, w], _ => exact ⟨x, w, rfl⟩
    have hg2 : (p.toArpa u).gram [x, w] ≠ none := (gram_ne_none_iff _ _).mpr (by rw [← hxw]; exact hkey)
    obtain ⟨e, he⟩ := Option.ne_none_iff_exists'.mp hg2
    have := parse_unigramsCover maxO multOk s p u hp x w e he
    apply htail
    rw [hxw]
    exact (gram_ne_none_iff _ _).mp this

/-- **the loader model's trie verdict FormatLoadException ⇒ `buildTable` does not succeed** (it reports `missingContext`,
unless it reports a duplicate or a missing unigram first) -/
theorem buildTable_not_ok_of_trie_reject (p : LParsed) (u : Rat) (b : Nat → Nat) (fadd : Nat → Nat → Nat)
    (gs : List KV.TrieBuild.Gram) (hk : gs.map (·.key) = (p.toArpa u).entries.map (·.1))
    (h : buildCheck .trie b p = .error .format) (built : KV.TrieBuild.Built) :
    KV.TrieBuild.buildTable fadd p.order gs ≠ .ok built := by
  obtain ⟨le, hle, h3, hn⟩ := (trie_error_iff b p).1.mp h
  have hkin : le.1 ∈ gs.map (·.key) := by
    rw [hk, toArpa_keys]
    have : le.1 ∈ p.keys := List.mem_map_of_mem hle
    split
    · exact this
    · exact List.mem_cons_of_mem _ this
  obtain ⟨g, hg, hgk⟩ := List.mem_map.mp hkin
  apply KV.TrieBuild.buildTable_not_ok_of_missing fadd p.order gs ⟨g, hg, by rw [hgk]; omega, ?_⟩
  intro g' hg' he
  have : g'.key ∈ (p.toArpa u).entries.map (·.1) := by rw [← hk]; exact List.mem_map_of_mem hg'
  rw [he, hgk, List.drop_one, toArpa_keys] at this
  split at this
  · exact hn this
  · rcases List.mem_cons.mp this with h0 | h0
    · have : le.1.tail.length = 1 := by rw [h0]; rfl
      simp at this; omega
    · exact hn h0

/-- **`buildTable = .error .duplicate` ⇒ some n-gram occurs twice in the file.**  (The converse is deliberately not a theorem of
the loader model: the real sort only notices duplicates that meet in a merge — `trie_duplicate_iff` — whereas `buildTable`
models the sorted result set-wise.) -/
theorem duplicate_keys_of_buildTable_duplicate (p : LParsed) (u : Rat) (fadd : Nat → Nat → Nat) (gs : List KV.TrieBuild.Gram)
    (hk : gs.map (·.key) = (p.toArpa u).entries.map (·.1))
    (h : KV.TrieBuild.buildTable fadd p.order gs = .error .duplicate) : ¬ ((p.toArpa u).entries.map (·.1)).Nodup := by
  rw [← hk]
  exact KV.TrieBuild.buildTable_duplicate fadd p.order gs h

/-! ## the loader model's probing verdict against `KV.ProbingBuild.build` (builder `lm`'s fold-level model of lm/search_hashed.cc)

Two models of the same code: `ProbingBuild` runs real probing tables (hashes, payloads, marks), the loader model a list of keys.
The target statement of round 4 (kept for reference; proved below as `loader_probing_verdict_eq_build`): -/

/-- **loader_probing_verdict_eq_build** (target statement).  For every parsed, finite file without repeated n-grams, an injective
word-hash combiner and bucket counts `caps m = b(count_m)` (the highest order's table larger than its count): `ProbingBuild.build`
never diverges, and it succeeds exactly when the loader model's probing verdict is `ok` (both raise otherwise; the *class* can
differ only in files that have both a capacity overflow and a missing context, because the loader model tests capacity at the end
of the run whereas the code stops at the first failure). -/
def LoaderProbingVerdictEqBuild : Prop :=
  ∀ (combine : Nat → Word → Nat), (∀ k1 k2 : List Word, KV.ProbingLM.hashOf combine k1 = KV.ProbingLM.hashOf combine k2 → k1 = k2) →
  ∀ (maxO : Nat) (multOk : Bool) (s : Bytes) (p : LParsed) (u : Rat) (b : Nat → Nat),
    LoaderArpa.parse maxO multOk s = .ok p → p.finite = true → ((p.toArpa u).entries.map (·.1)).Nodup →
    p.counts.getD (p.order - 1) 0 < b (p.counts.getD (p.order - 1) 0) → (∀ c, 0 < b c) →
    let buckets := (List.range (p.order - 1)).map fun i => b (p.counts.getD (i + 1) 0)
    KV.ProbingBuild.build combine false (p.toArpa u) p.vocab.length buckets u ≠ .error .diverge ∧
    ((∃ st, KV.ProbingBuild.build combine false (p.toArpa u) p.vocab.length buckets u = .ok st) ↔ buildCheck .probing b p = .ok ())

/-- **loader_probing_verdict_eq_build, partial**: the three places where `ProbingBuild.addLine` can raise are tied to the loader
model operation by operation, under the representation invariant `KV.LoaderPB.TabInv` (the tables of the `ProbingBuild` state hold
exactly the loader model's keys, with its counters and capacities):
* `store.Insert` of a fresh line raises `probingSize` ⇔ the loader model's key count of that order, with the line, reaches the
  capacity; otherwise the invariant holds for the extended key list (`KV.LoaderPB.insert_sim`);
* `FindLower` — blank chains of any length — either inserts exactly the blanks the loader model's `findLower` inserts (invariant
  preserved) or raises `probingSize` at an order whose key count in the loader model reaches the capacity (`findLower_sim`);
* `ActivateLowerMiddle` raises `format` ⇔ the context is not among the loader model's keys at that moment (`activate_sim`).
**Missing for the whole-fold statement `LoaderProbingVerdictEqBuild`**: the frame lemma for `AdjustLower` / `fillBlanks` / `markChain`
(they only update payloads through `St.modify` and every `find` succeeds under `OrdInv`, so no table and no verdict changes), and
the assembly over the lines (freshness from distinct keys and the by-order line sequence; monotone key counts,
`KV.LoaderPB.fold_suffix`, to pass from "capacity reached at some line" to the loader model's end-of-run test). -/
theorem loader_probing_verdict_eq_build_partial (combine : Nat → Word → Nat)
    (inj : ∀ k1 k2 : List Word, KV.ProbingLM.hashOf combine k1 = KV.ProbingLM.hashOf combine k2 → k1 = k2)
    (N : Nat) (caps : Nat → Nat) (keys tops : List (List Word)) (s : KV.ProbingBuild.St) (g : List Word)
    (inv : KV.LoaderPB.TabInv combine N caps keys tops s) :
    -- Insert
    (∀ e : Entry, 2 ≤ g.length → g.length ≤ N → g ∉ KV.LoaderPB.keysAt N keys tops g.length →
      (KV.ProbingBuild.insPhase combine N s g e = .error .probingSize ↔
        caps g.length ≤ KV.LoaderPB.cnt (KV.LoaderPB.keysAt N keys tops g.length) g.length + 1)) ∧
    -- FindLower
    (∀ (f : Nat) (between : List KV.ProbingBuild.Ref), f + 1 < N → f + 1 < g.length →
      (∃ s' b', KV.ProbingBuild.findLower combine g f s between = .ok (s', b') ∧
          KV.LoaderPB.TabInv combine N caps (LoaderArpa.findLower g (f + 1) keys) tops s' ∧ s'.uni = s.uni) ∨
      (KV.ProbingBuild.findLower combine g f s between = .error .probingSize ∧
          ∃ m, 2 ≤ m ∧ m < N ∧ caps m ≤ KV.LoaderPB.cnt (LoaderArpa.findLower g (f + 1) keys) m)) ∧
    -- Activate
    (3 ≤ g.length → g.length ≤ N →
      (KV.ProbingBuild.activate combine g g.length s = .error .format ↔ g.tail ∉ keys)) :=
  ⟨fun e h2 hN fresh => (KV.LoaderPB.insert_sim combine inj N caps keys tops s g e inv h2 hN fresh).1,
   fun f between hf hg => KV.LoaderPB.findLower_sim combine inj N caps tops g f s between keys hf hg inv,
   fun h3 hN => (KV.LoaderPB.activate_sim combine N caps keys tops s g inv h3 hN).1⟩

/-- the invariant is inhabited: the empty tables `ProbingBuild.build` starts from represent the empty key lists -/
theorem tabInv_initial (combine : Nat → Word → Nat) (N : Nat) (caps : Nat → Nat) (hN : 2 ≤ N) (hc : ∀ m, 0 < caps m)
    (uni : List KV.ProbingBuild.W) :
    KV.LoaderPB.TabInv combine N caps [] []
      { uni := uni, mid := (List.range (N - 2)).map fun i => KV.ProbingBuild.emptyOrd (caps (i + 2)),
        longest := KV.ProbingBuild.emptyOrd (caps N) } := by
  have htbl : ∀ m, 2 ≤ m → m ≤ N →
      KV.ProbingBuild.tbl N (KV.ProbingBuild.St.mk uni ((List.range (N - 2)).map (fun i => KV.ProbingBuild.emptyOrd (caps (i + 2)))) (KV.ProbingBuild.emptyOrd (caps N))) m = KV.ProbingBuild.emptyOrd (caps m) := by
    intro m h2 hmN
    by_cases hm : m = N
    · subst hm; simp [KV.ProbingBuild.tbl]
    · have hlt : m - 2 < N - 2 := by omega
      simp only [KV.ProbingBuild.tbl, hm, ↓reduceIte]
      rw [List.getD_eq_getElem?_getD, List.getElem?_map, List.getElem?_range hlt]
      simp only [Option.map_some, Option.getD_some]
      congr 2; omega
  refine ⟨by simp, ?_, ?_⟩
  · intro m h2 hmN
    rw [htbl m h2 hmN]
    refine ⟨fun _ => none, KV.ProbingBuild.emptyOrd_inv (caps m) (hc m), ?_, ?_, ?_⟩
    · intro k _; unfold KV.LoaderPB.keysAt; split <;> simp
    · unfold KV.LoaderPB.keysAt; split <;> simp [KV.LoaderPB.cnt, KV.ProbingBuild.emptyOrd, KV.Probing.emptyTable]
    · simp [KV.ProbingBuild.emptyOrd, KV.Probing.emptyTable]
  · intro m h2 hmN
    rw [htbl m h2 hmN]
    simpa [KV.ProbingBuild.emptyOrd, KV.Probing.emptyTable] using hc m

/-- the lines `ProbingBuild.build` folds over are the lines the loader model's run folds over -/
theorem parsed_ngramLines_keys (maxO : Nat) (multOk : Bool) (s : Bytes) (p : LParsed) (u : Rat)
    (hp : LoaderArpa.parse maxO multOk s = .ok p) :
    (KV.ProbingBuild.ngramLines (p.toArpa u)).map (·.1) = (p.grams.drop 1).flatten.map (·.1) := by
  have wf := accepted_wellformed maxO multOk s p hp
  obtain ⟨uni, rest, hg, _, _⟩ := unigrams_cover maxO multOk s p hp
  have key1 : ∀ le, (toEntry le).1 = le.1 := by
    intro le; unfold toEntry; split <;> rfl
  have huni : ∀ le ∈ uni, le.1.length = 1 := by
    intro le hle
    have := wf.2.2.2.2.2.2 0 uni (by rw [hg]; rfl) le hle
    exact this.len
  have hrest : ∀ le ∈ rest.flatten, 2 ≤ le.1.length := by
    intro le hle
    obtain ⟨es, hes, hmem⟩ := List.mem_flatten.mp hle
    obtain ⟨j, hj, hget⟩ := List.getElem_of_mem hes
    have := wf.2.2.2.2.2.2 (j + 1) es (by rw [hg]; simp [List.getElem?_eq_getElem hj, hget]) le hmem
    rw [this.len]; omega
  have hent : p.entries = uni ++ rest.flatten := by unfold LParsed.entries; rw [hg]; simp
  have hfilt : (p.entries.map toEntry).filter (fun q => decide (q.1.length ≥ 2)) = (rest.flatten).map toEntry := by
    rw [hent, List.map_append, List.filter_append]
    have h1 : (uni.map toEntry).filter (fun q => decide (q.1.length ≥ 2)) = [] := by
      rw [List.filter_eq_nil_iff]
      intro q hq
      obtain ⟨le, hle, rfl⟩ := List.mem_map.mp hq
      simp [key1, huni le hle]
    have h2 : ((rest.flatten).map toEntry).filter (fun q => decide (q.1.length ≥ 2)) = (rest.flatten).map toEntry := by
      rw [List.filter_eq_self]
      intro q hq
      obtain ⟨le, hle, rfl⟩ := List.mem_map.mp hq
      simpa [key1] using hrest le hle
    rw [h1, h2]; rfl
  have hdrop : (p.grams.drop 1) = rest := by rw [hg]; rfl
  unfold KV.ProbingBuild.ngramLines LParsed.toArpa
  simp only
  rw [hdrop]
  split
  · rw [hfilt, List.map_map]
    apply List.map_congr_left
    intro le _; exact key1 le
  · rw [List.filter_cons]
    simp only [List.length_cons, List.length_nil, ge_iff_le, Nat.reduceLeDiff, decide_false, Bool.false_eq_true, ↓reduceIte]
    rw [hfilt, List.map_map]
    apply List.map_congr_left
    intro le _; exact key1 le

/-- **loader_probing_verdict_eq_build.**  Two models of lm/search_hashed.cc tied by a theorem: for every parsed file whose
n-grams are distinct, an injective word-hash combiner, bucket counts that the two models share (`hb`), a highest-order table larger
than its line count and lines in section order, `ProbingBuild.build` (real probing tables, `NoRestBuild`)
* never diverges,
* succeeds exactly when the loader model's probing verdict is `ok`,
* raises `FormatLoadException` only if the loader model's verdict is `format`, and `ProbingSizeException` only if the loader
  model's capacity test fails (so its verdict is an error),
* and raises the *same* class whenever the file has a single kind of fault: loader verdict `probing-size` ⇒ `probingSize`; loader
  verdict `format` with every table within capacity ⇒ `format`.  (With both faults the code stops at the first one, the loader model
  reports `format`.) -/
theorem loader_probing_verdict_eq_build (combine : Nat → Word → Nat)
    (inj : ∀ k1 k2 : List Word, KV.ProbingLM.hashOf combine k1 = KV.ProbingLM.hashOf combine k2 → k1 = k2)
    (maxO : Nat) (multOk : Bool) (s : Bytes) (p : LParsed) (u : Rat) (b : Nat → Nat) (buckets : List Nat)
    (hp : LoaderArpa.parse maxO multOk s = .ok p)
    (hnd : ((p.toArpa u).entries.map (·.1)).Nodup)
    (hsorted : (KV.ProbingBuild.ngramLines (p.toArpa u)).Pairwise (fun x y => x.1.length ≤ y.1.length))
    (hpos : ∀ i, 0 < buckets.getD i 1)
    (hb : ∀ k, 2 ≤ k → k < p.order → buckets.getD (k - 2) 1 = b (p.counts.getD (k - 1) 0))
    (htop : ((KV.ProbingBuild.ngramLines (p.toArpa u)).filter (fun q => q.1.length == p.order)).length < buckets.getD (p.order - 2) 1) :
    let r := KV.ProbingBuild.build combine false (p.toArpa u) p.vocab.length buckets u
    r ≠ .error .diverge ∧
    ((∃ st, r = .ok st) ↔ buildCheck .probing b p = .ok ()) ∧
    (r = .error .format → buildCheck .probing b p = .error .format) ∧
    (r = .error .probingSize → probingFull p b (probingRun p).1 = true) ∧
    (buildCheck .probing b p = .error .probingSize → r = .error .probingSize) ∧
    (buildCheck .probing b p = .error .format → probingFull p b (probingRun p).1 = false → r = .error .format) := by
  intro r
  obtain ⟨h1, h2, h3, h4, h5, h6⟩ := parsed_core maxO multOk s p u hp
  have hord : (p.toArpa u).order = p.order := rfl
  -- the fold of `build`
  let caps : Nat → Nat := fun m => buckets.getD (m - 2) 1
  let lines := KV.ProbingBuild.ngramLines (p.toArpa u)
  let s0 : KV.ProbingBuild.St := KV.ProbingBuild.St.mk (KV.ProbingBuild.initUni (p.toArpa u) p.vocab.length)
    ((List.range (p.order - 2)).map (fun i => KV.ProbingBuild.emptyOrd (caps (i + 2)))) (KV.ProbingBuild.emptyOrd (caps p.order))
  have hr : r = (lines.foldlM (fun st q => KV.ProbingBuild.addLine combine false p.order st q.1 q.2) s0).map
      (KV.ProbingBuild.fixUnk (p.toArpa u) u) := by
    show KV.ProbingBuild.build combine false (p.toArpa u) p.vocab.length buckets u = _
    unfold KV.ProbingBuild.build
    simp only [hord, bind, Except.bind, Except.map]
    have hs0 : KV.ProbingBuild.St.mk (KV.ProbingBuild.initUni (p.toArpa u) p.vocab.length)
          ((List.range (p.order - 2)).map (fun i => KV.ProbingBuild.emptyOrd (buckets.getD i 1)))
          (KV.ProbingBuild.emptyOrd (buckets.getD (p.order - 2) 1)) = s0 := by
      show _ = KV.ProbingBuild.St.mk _ _ _
      congr 2
    rw [hs0]
    rfl
  have inv0 := tabInv_initial combine p.order caps (by omega) (fun m => hpos (m - 2))
    (KV.ProbingBuild.initUni (p.toArpa u) p.vocab.length)
  have hlen : ∀ q ∈ lines, 2 ≤ q.1.length ∧ q.1.length ≤ p.order := by
    intro q hq
    have hq' := List.mem_filter.mp hq
    refine ⟨by simpa using hq'.2, ?_⟩
    exact h3 q.1 ((gram_ne_none_iff _ _).mpr (List.mem_map_of_mem hq'.1))
  have hnd' : (lines.map (·.1)).Nodup :=
    hnd.sublist ((List.filter_sublist (l := (p.toArpa u).entries)).map _)
  have sim := KV.LoaderPB.fold_sim combine inj p.order caps lines [] [] s0 inv0 hlen hsorted hnd'
    (fun _ _ => ⟨by simp, by simp⟩) (fun _ ht => by cases ht)
    (by simp only [List.length_nil, Nat.zero_add]; exact htop)
  -- the loader model's run is the same fold
  have hrun : (lines.map (·.1)).foldl (probingStep p.order) ([], true) = probingRun p := by
    unfold probingRun
    rw [show lines.map (·.1) = (p.grams.drop 1).flatten.map (·.1) from parsed_ngramLines_keys maxO multOk s p u hp]
  rw [hrun] at sim
  -- the capacity test in both vocabularies
  have hfull : probingFull p b (probingRun p).1 = true ↔ ∃ m, 2 ≤ m ∧ m < p.order ∧ caps m ≤ KV.LoaderPB.cnt (probingRun p).1 m := by
    rw [probingFull_iff]
    constructor
    · rintro ⟨k, hk, h2k, hle⟩
      exact ⟨k, h2k, hk, by show buckets.getD (k - 2) 1 ≤ _; rw [hb k h2k hk]; exact hle⟩
    · rintro ⟨k, h2k, hk, hle⟩
      refine ⟨k, hk, h2k, ?_⟩
      have : caps k = b (p.counts.getD (k - 1) 0) := hb k h2k hk
      rw [← this]; exact hle
  have cls := probing_error_classes b p
  rcases sim with ⟨s', hok, hflag, hbelow⟩ | ⟨herr, hflag⟩ | ⟨herr, m, hm2, hmN, hcap⟩
  · -- both succeed
    have hnf : probingFull p b (probingRun p).1 = false := by
      cases hf : probingFull p b (probingRun p).1 with
      | false => rfl
      | true =>
        obtain ⟨m, hm2, hmN, hle⟩ := hfull.mp hf
        have := hbelow m hm2 hmN
        omega
    have hmine : buildCheck .probing b p = .ok () := cls.2.2.mpr ⟨hflag, hnf⟩
    have hrr : r = .ok (KV.ProbingBuild.fixUnk (p.toArpa u) u s') := by rw [hr, hok]; rfl
    refine ⟨by rw [hrr]; simp, ⟨fun _ => hmine, fun _ => ⟨_, hrr⟩⟩, by rw [hrr]; simp, by rw [hrr]; simp, ?_, ?_⟩
    · intro h; rw [hmine] at h; simp at h
    · intro h; rw [hmine] at h; simp at h
  · -- missing context
    have hmine : buildCheck .probing b p = .error .format := cls.1.mpr hflag
    have hrr : r = .error .format := by rw [hr, herr]; rfl
    refine ⟨by rw [hrr]; simp, ⟨fun ⟨st, h⟩ => by rw [hrr] at h; simp at h, fun h => by rw [hmine] at h; simp at h⟩,
      fun _ => hmine, by rw [hrr]; simp, ?_, fun _ _ => hrr⟩
    intro h; rw [hmine] at h; simp at h
  · -- capacity
    have hf : probingFull p b (probingRun p).1 = true := hfull.mpr ⟨m, hm2, hmN, hcap⟩
    have hrr : r = .error .probingSize := by rw [hr, herr]; rfl
    have hne : buildCheck .probing b p ≠ .ok () := by
      intro h; have := (cls.2.2.mp h).2; rw [hf] at this; simp at this
    refine ⟨by rw [hrr]; simp, ⟨fun ⟨st, h⟩ => by rw [hrr] at h; simp at h, fun h => absurd h hne⟩,
      by rw [hrr]; simp, fun _ => hf, fun _ => hrr, ?_⟩
    intro _ hnf; rw [hf] at hnf; simp at hnf

/-- the lines of a parsed file come in section order (the `hsorted` hypothesis of `loader_probing_verdict_eq_build` holds) -/
theorem parsed_lines_sorted (maxO : Nat) (multOk : Bool) (s : Bytes) (p : LParsed) (u : Rat)
    (hp : LoaderArpa.parse maxO multOk s = .ok p) :
    (KV.ProbingBuild.ngramLines (p.toArpa u)).Pairwise (fun x y => x.1.length ≤ y.1.length) := by
  have wf := accepted_wellformed maxO multOk s p hp
  obtain ⟨uni, rest, hg, _, _⟩ := unigrams_cover maxO multOk s p hp
  have hsec : ∀ (j : Nat) (hj : j < rest.length), ∀ le ∈ rest[j], le.1.length = j + 2 := by
    intro j hj le hle
    have := wf.2.2.2.2.2.2 (j + 1) rest[j] (by rw [hg]; simp [List.getElem?_eq_getElem hj]) le hle
    exact this.len
  have hkeys := parsed_ngramLines_keys maxO multOk s p u hp
  have hdrop : (p.grams.drop 1) = rest := by rw [hg]; rfl
  rw [hdrop] at hkeys
  have : ((KV.ProbingBuild.ngramLines (p.toArpa u)).map (·.1)).Pairwise (fun a b => a.length ≤ b.length) := by
    rw [hkeys, List.map_flatten, List.pairwise_flatten]
    constructor
    · intro l hl
      obtain ⟨es, hes, rfl⟩ := List.mem_map.mp hl
      obtain ⟨j, hj, hget⟩ := List.getElem_of_mem hes
      rw [List.pairwise_map, List.pairwise_iff_forall_sublist]
      intro x y hxy
      have hx : x ∈ es := hxy.subset (by simp)
      have hy : y ∈ es := hxy.subset (by simp)
      rw [← hget] at hx hy
      rw [hsec j hj x hx, hsec j hj y hy]
      exact Nat.le_refl _
    · rw [List.pairwise_map, List.pairwise_iff_getElem]
      intro i j hi hj hij x hx y hy
      obtain ⟨lx, hlx, rfl⟩ := List.mem_map.mp hx
      obtain ⟨ly, hly, rfl⟩ := List.mem_map.mp hy
      rw [hsec i hi lx hlx, hsec j hj ly hly]
      omega
  rwa [List.pairwise_map] at this

/-- `loader_probing_verdict_eq_build` with the section-order hypothesis discharged (`parsed_lines_sorted`): ok ⇔ ok and never
diverges, for every parsed file with distinct n-grams -/
theorem loader_probing_ok_iff_build_ok (combine : Nat → Word → Nat)
    (inj : ∀ k1 k2 : List Word, KV.ProbingLM.hashOf combine k1 = KV.ProbingLM.hashOf combine k2 → k1 = k2)
    (maxO : Nat) (multOk : Bool) (s : Bytes) (p : LParsed) (u : Rat) (b : Nat → Nat) (buckets : List Nat)
    (hp : LoaderArpa.parse maxO multOk s = .ok p)
    (hnd : ((p.toArpa u).entries.map (·.1)).Nodup)
    (hpos : ∀ i, 0 < buckets.getD i 1)
    (hb : ∀ k, 2 ≤ k → k < p.order → buckets.getD (k - 2) 1 = b (p.counts.getD (k - 1) 0))
    (htop : ((KV.ProbingBuild.ngramLines (p.toArpa u)).filter (fun q => q.1.length == p.order)).length < buckets.getD (p.order - 2) 1) :
    KV.ProbingBuild.build combine false (p.toArpa u) p.vocab.length buckets u ≠ .error .diverge ∧
    ((∃ st, KV.ProbingBuild.build combine false (p.toArpa u) p.vocab.length buckets u = .ok st) ↔
      buildCheck .probing b p = .ok ()) := by
  have h := loader_probing_verdict_eq_build combine inj maxO multOk s p u b buckets hp hnd
    (parsed_lines_sorted maxO multOk s p u hp) hpos hb htop
  exact ⟨h.1, h.2.1⟩

/-! ## no index leaves its region -/

/-- `BitPacked::BaseSize(entries, max_vocab, remaining_bits)` with `total_bits = RequiredBits(max_vocab) + remaining_bits` -/
def baseSize (entries totalBits : Nat) : Nat := ((1 + entries) * totalBits + 7) / 8 + bitPackedSlack

/-- **lookups_in_range.**
(a) trie records: every `ReadOff` (an unaligned `readOffBytes`-byte load at byte `bit_off >> 3`) of a field at
bit offset `off ≤ total_bits` inside record `idx ≤ entries` — the extra record `entries` holds the end pointer —
stays inside `BaseSize`, for every `entries` and `total_bits` (no bound): this is what the
`+ sizeof(uint64_t)` slack is for;
(b) the interpolation search over a record range only reads positions strictly inside its bounds
(C20 `bounded_find_probes_in_range`), hence records below `entries` when the range ends at or below `entries`;
(c) probing tables: the ideal bucket `hash % buckets` and every step of the wrap-around probe address an entry
inside the `buckets * entry_size` bytes of the table, and `buckets ≥ 1` for the bucket count the loader computes;
(d) unigram arrays: every word id the loader hands out is below `count₁ + 1` entries (from `accepted_wellformed`). -/
theorem lookups_in_range :
    (∀ entries totalBits idx off : Nat, idx ≤ entries → off ≤ totalBits →
        (idx * totalBits + off) / 8 + readOffBytes ≤ baseSize entries totalBits) ∧
    (∀ (a : Nat → Nat) (pivot : Nat → Nat → Nat → Nat), KV.Search.PivotOK pivot →
        ∀ (key fuel lo loV hi hiV entries totalBits : Nat), loV ≤ key → key ≤ hiV → hi ≤ entries + 1 →
        ∀ pos ∈ KV.Search.probes a pivot key fuel lo loV hi hiV,
          lo < pos ∧ pos < hi ∧ ((pos - 1) * totalBits) / 8 + readOffBytes ≤ baseSize entries totalBits) ∧
    (∀ hash buckets entrySize : Nat, 0 < buckets →
        (hash % buckets) * entrySize + entrySize ≤ buckets * entrySize ∧
        ∀ i, i < buckets → (if i + 1 = buckets then 0 else i + 1) < buckets) ∧
    (∀ n, 1 ≤ buckets15 n ∧ n < buckets15 n) := by
  have ha : ∀ entries totalBits idx off : Nat, idx ≤ entries → off ≤ totalBits →
      (idx * totalBits + off) / 8 + readOffBytes ≤ baseSize entries totalBits := by
    intro entries tb idx off hi ho
    unfold baseSize
    have hs : bitPackedSlack = readOffBytes := by decide
    rw [hs]
    have h1 : idx * tb ≤ entries * tb := Nat.mul_le_mul_right tb hi
    have h2 : (1 + entries) * tb = tb + entries * tb := by rw [Nat.add_mul, Nat.one_mul]
    have h3 : idx * tb + off ≤ (1 + entries) * tb + 7 := by omega
    have := Nat.div_le_div_right (c := 8) h3
    omega
  refine ⟨ha, ?_, ?_, ?_⟩
  · intro a pivot hp key fuel lo loV hi hiV entries tb hl hh hhi pos hpos
    have := KV.Search.probes_in_range a pivot key hp fuel lo loV hi hiV hl hh pos hpos
    refine ⟨this.1, this.2, ?_⟩
    have := ha entries tb (pos - 1) 0 (by omega) (Nat.zero_le _)
    simpa using this
  · intro hash buckets es hb
    refine ⟨?_, ?_⟩
    · have hlt : hash % buckets < buckets := Nat.mod_lt _ hb
      have : (hash % buckets + 1) * es ≤ buckets * es := Nat.mul_le_mul_right es hlt
      rw [Nat.add_mul, Nat.one_mul] at this
      exact this
    · intro i hi
      split
      · exact hb
      · omega
  · intro n
    unfold buckets15
    omega

/-! ## binary header: every mismatch is an exception -/

open KV.LoaderBin

/-- the last stage accepts only a file that is long enough and whose vocabulary strings check out -/
theorem mapAndVocab_ok (req : Request) (bound : Params → Nat) (file : File) (p : Params) (sz : Nat) (p' : Params)
    (h : mapAndVocab req bound file p sz = .ok p') :
    p = p' ∧ headerSize p.fixed.order + sz ≤ file.length ∧
    (p.fixed.hasVocab = true → readWords file (headerSize p.fixed.order + sz) req.enumerate (bound p) = none) := by
  unfold mapAndVocab at h
  simp only at h
  split at h
  · simp at h
  · rename_i hc
    have hlen : ¬ file.length < headerSize p.fixed.order + sz := by
      intro hlt
      apply hc
      simp [hlt]
    split at h
    · rename_i hv
      split at h
      · simp at h
      · rename_i hrw
        simp only [Verdict.ok.injEq] at h
        exact ⟨h, by omega, fun _ => hrw⟩
    · rename_i hv
      simp only [Verdict.ok.injEq] at h
      exact ⟨h, by omega, fun hv' => absurd hv' hv⟩

theorem mapAndVocab_ne_ub (req : Request) (bound : Params → Nat) (file : File) (p : Params) (sz : Nat) :
    mapAndVocab req bound file p sz ≠ .ub := by
  unfold mapAndVocab
  simp only
  split
  · simp
  · split
    · split <;> simp
    · simp

/-- **header acceptance is sound**: if the binary branch accepts a file then the stored type and search version
are the requested ones, the order is what `CheckCounts` lets through and at most `KENLM_MAX_ORDER`, exactly
`order` counts were read, the multiplier is not below 1, a requested vocabulary is present, the file is at least as
long as header + `Size`, and the vocabulary strings (if any) start with `<unk>\0` at that offset — with the word
count matching when the caller enumerates. -/
theorem header_accept_sound (req : Request) (size : Params → SizeR) (bound : Params → Nat) (file : File) (p : Params)
    (h : loadBinary req size bound file = .ok p) :
    recognize file = .header p.fixed ∧
    p.fixed.modelType = req.modelType ∧ p.fixed.searchVersion = req.searchVersion ∧
    checkCountsMinOrder ≤ p.fixed.order ∧ 1 ≤ p.fixed.order ∧ p.fixed.order ≤ maxOrder ∧
    readCounts p.fixed.order (file.drop (sizeofSanity + sizeofFixed)) = some p.counts ∧
    floatNotGeOne p.fixed.multBits = false ∧
    (req.enumerate = true → p.fixed.hasVocab = true) ∧
    ∃ sz, size p = .known sz ∧ headerSize p.fixed.order + sz ≤ file.length ∧
      (p.fixed.hasVocab = true → readWords file (headerSize p.fixed.order + sz) req.enumerate (bound p) = none) := by
  unfold loadBinary at h
  split at h
  · simp at h
  · simp at h
  · rename_i f hrec
    split at h
    · simp at h
    · rename_i hmult
      split at h
      · simp at h
      · split at h
        · simp at h
        · rename_i cs hcs
          simp only at h
          split at h
          · simp at h
          · rename_i hty
            split at h
            · simp at h
            · rename_i hsv
              split at h
              · simp at h
              · rename_i hmax
                split at h
                · simp at h
                · rename_i hmin
                  split at h
                  · simp at h
                  · rename_i h0
                    split at h
                    · simp at h
                    · rename_i hen
                      split at h
                      · simp at h
                      · split at h
                        · simp at h
                        · simp at h
                        · rename_i sz hsz
                          have hty' : f.modelType = req.modelType := by simpa using hty
                          have hsv' : f.searchVersion = req.searchVersion := by simpa using hsv
                          have h0' : f.order ≠ 0 := by simpa using h0
                          have hen' : req.enumerate = true → f.hasVocab = true := by
                            intro he
                            simp only [he, Bool.true_and, Bool.not_eq_true', Bool.not_eq_false] at hen
                            exact hen
                          have hm' : floatNotGeOne f.multBits = false := by simpa using hmult
                          obtain ⟨hp, hle, hw⟩ := mapAndVocab_ok req bound file _ sz p h
                          subst hp
                          dsimp only at hsz hle hw ⊢
                          exact ⟨hrec, hty', hsv', by omega, by omega, by omega, hcs, hm', hen', sz, hsz, hle, hw⟩

/-- **header_mismatch.**  For a file whose Sanity block matches: another model type, another search version, an
order above `KENLM_MAX_ORDER` or below what `CheckCounts` accepts, a multiplier below 1, or a missing vocabulary
the caller asked for — each makes the constructor throw: the verdict is an error (FormatLoadException, or
end-of-file when the file stops inside the counts), never `ok`, never undefined behaviour. -/
theorem header_mismatch (req : Request) (size : Params → SizeR) (bound : Params → Nat) (file : File) (f : Fixed)
    (hrec : recognize file = .header f)
    (hm : f.modelType ≠ req.modelType ∨ f.searchVersion ≠ req.searchVersion ∨ maxOrder < f.order ∨
          f.order < checkCountsMinOrder ∨ floatNotGeOne f.multBits = true ∨
          (req.enumerate = true ∧ f.hasVocab = false ∧ f.order ≠ 0 ∧ isNaN f.multBits = false)) :
    loadBinary req size bound file = .error .format ∨
    (readCounts f.order (file.drop (sizeofSanity + sizeofFixed)) = none ∧ loadBinary req size bound file = .error .eof) := by
  unfold loadBinary
  simp only [hrec]
  by_cases h1 : floatNotGeOne f.multBits = true
  · simp [h1]
  · simp only [h1, Bool.false_eq_true, ↓reduceIte]
    by_cases h2 : (isNaN f.multBits && readHeaderRejectsNaN) = true
    · simp [h2]
    · simp only [h2, Bool.false_eq_true, ↓reduceIte]
      cases hc : readCounts f.order (List.drop (sizeofSanity + sizeofFixed) file) with
      | none => simp
      | some cs =>
        simp only
        by_cases h3 : f.modelType = req.modelType
        · by_cases h4 : f.searchVersion = req.searchVersion
          · by_cases h5 : f.order > maxOrder
            · simp [h3, h4, h5]
            · by_cases h6 : f.order < checkCountsMinOrder
              · simp [h3, h4, h5, h6]
              · rcases hm with hm | hm | hm | hm | hm | ⟨he, hv, h0, hn⟩
                · exact absurd h3 hm
                · exact absurd h4 hm
                · exact absurd hm h5
                · exact absurd hm h6
                · exact absurd hm h1
                · simp [h3, h4, h5, h6, h0, he, hv]
          · simp [h3, h4]
        · simp [h3]

/-- other magic / version / incomplete files of sufficient length are rejected before anything is read -/
theorem header_version_mismatch (req : Request) (size : Params → SizeR) (bound : Params → Nat) (file : File)
    (hlen : sizeofSanity < file.length) (hne : (file.take sizeofSanity == sanityRef) = false)
    (hmagic : magicIncomplete.isPrefixOf file = true ∨ magicBeforeVersion.isPrefixOf file = true) :
    loadBinary req size bound file = .error .format := by
  unfold loadBinary recognize
  have : ¬ file.length ≤ sizeofSanity := by omega
  simp only [this, ↓reduceIte, hne, Bool.false_eq_true]
  rcases hmagic with h | h
  · simp [h]
  · by_cases h' : magicIncomplete.isPrefixOf file = true <;> simp [h, h']

/-- a file shorter than header + `Size` is never accepted (truncation anywhere before the vocabulary strings) -/
theorem header_truncated_rejected (req : Request) (size : Params → SizeR) (bound : Params → Nat) (file : File) (p : Params)
    (sz : Nat) (hsz : size p = .known sz) (hshort : file.length < headerSize p.fixed.order + sz) :
    loadBinary req size bound file ≠ .ok p := by
  intro h
  obtain ⟨_, _, _, _, _, _, _, _, _, sz', hsz', hle, _⟩ := header_accept_sound req size bound file p h
  rw [hsz] at hsz'
  simp only [SizeR.known.injEq] at hsz'
  subst hsz'
  omega

/-- **header_no_ub.**  Once `CheckCounts` has a lower bound (≥ 1 suffices for the model; the repaired tree has 2)
and `ReadHeader` rejects NaN, no header sends the constructor into undefined behaviour. -/
theorem header_no_ub (req : Request) (size : Params → SizeR) (bound : Params → Nat) (file : File)
    (h1 : 1 ≤ checkCountsMinOrder) (h2 : readHeaderRejectsNaN = true) :
    loadBinary req size bound file ≠ .ub := by
  unfold loadBinary
  split
  · simp
  · simp
  · rename_i f _
    split
    · simp
    · split
      · simp
      · rename_i hnan
        have hn : isNaN f.multBits = false := by
          simpa [h2] using hnan
        split
        · simp
        · simp only
          split
          · simp
          · split
            · simp
            · split
              · simp
              · split
                · simp
                · rename_i hmin
                  have : f.order ≠ 0 := by omega
                  split
                  · rename_i h0; simp at h0; exact absurd h0 this
                  · split
                    · simp
                    · simp only [hn, Bool.false_and, Bool.false_eq_true, ↓reduceIte]
                      split
                      · simp
                      · simp
                      · exact mapAndVocab_ne_ub _ _ _ _ _

/-- on the tree as regenerated *now*: the witness headers the model sends into undefined behaviour, if any.
(`checks/C10.py` replays exactly these on the real loader when the constants are unsafe.) -/
theorem ub_witnesses_only_when_unguarded (req : Request) (size : Params → SizeR) (bound : Params → Nat) (file : File)
    (h : loadBinary req size bound file = .ub) : checkCountsMinOrder = 0 ∨ readHeaderRejectsNaN = false := by
  by_cases h1 : 1 ≤ checkCountsMinOrder
  · by_cases h2 : readHeaderRejectsNaN = true
    · exact absurd h (header_no_ub req size bound file h1 h2)
    · right; simpa using h2
  · left; omega

end KV.C10
