import Model.FilePiece
import Model.Tokenize
import Generated.C18
namespace KV.C18
open KV.FilePiece

theorem kSpaces_table : (List.range 256).filter isSpace = KV.Gen.C18.kSpaces := by decide

end KV.C18
