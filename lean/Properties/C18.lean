import Proofs.FilePieceMain
import Proofs.FilePieceRC
import Proofs.FilePieceRC2
import Proofs.FilePieceTokenize
import Proofs.FilePieceNum
import Proofs.FilePieceLineInput
import Generated.C18
/-!
# C18 — Text input is transparent to buffering, mapping, compression and read sizes

Model: `lean/Model/FilePiece.lean` (the window state of `util::FilePiece`, `Shift` / `MMapShift` /
`ReadShift`, every reading operation, `util::ReadCompressed` member chaining) and
`lean/Model/Tokenize.lean` (`TokenIter`).  Spec: `specOp` — the same operation on the *whole*
remaining byte string.  The theorems quantify over every input, every chunk oracle (how the OS /
decompressor splits the data into reads), every `min_buffer`, every page size > 0, both modes,
every operation sequence; nothing is bounded.

The repaired code is `cfg.fixH = true ∧ cfg.fixI = true`; section `Old` proves that today's code
(`false`) violates the central theorem, with witnesses that the check replays on the real code.
-/
namespace KV.C18
open KV.FilePiece

/-! ## tie to the regenerated constants -/

/-- the model's `isSpace` is `util::kSpaces` as compiled from the current tree -/
theorem kSpaces_table : (List.range 256).filter isSpace = KV.Gen.C18.kSpaces := by decide

/-- the smallest and the default window (`InitializeNoRead`) computed by the model's formula equal the values
observed on real `FilePiece` objects built with `min_buffer = 0` and with the default argument -/
theorem initMapSize_observed :
    initMapSize KV.Gen.C18.pageSize 0 = KV.Gen.C18.minMapSize ∧
    initMapSize KV.Gen.C18.pageSize 1048576 = KV.Gen.C18.defaultMapSize := by decide

theorem pageSize_pos : 0 < KV.Gen.C18.pageSize := by decide

/-- the header `ReadFactory` reads ahead (modelled by `St.hdrLeft`) is `ReadCompressed::kMagicSize` -/
theorem kMagicSize_eq : kMagicSize = KV.Gen.C18.kMagicSize := by decide

/-! ## window invariant -/

/-- **window_inv**: after construction (any backend, any `min_buffer`) the window is the slice
`bytes[mappedOffset, mappedOffset + len)` of the input, `position_` lies inside it, `at_end_` implies the
window reaches EOF (all packed in `Inv`), `Offset()` is 0; and every operation preserves this. -/
theorem window_inv (env : Env) (hp : 0 < env.cfg.page) (hH : env.cfg.fixH = true) (hI : env.cfg.fixI = true)
    (hF : env.cfg.fixF = true) (G : NumKind → Grammar) (hG : ∀ k, GrammarOK (G k)) :
    (∀ mb b, Inv env (init env mb b) ∧ (init env mb b).offset = 0) ∧
    (∀ op st, Inv env st → Inv env (runOp env G op st).2) :=
  ⟨fun mb b => init_spec env mb b hp ⟨hH, hF⟩, fun op st h => (op_transparent_aux env G (fun _ _ => True) hG ⟨hH, hF⟩ hI op st h (fun _ _ _ => trivial)).2.2⟩

/-- what `Inv` says, spelled out -/
theorem window_inv_meaning (env : Env) (st : St) (h : Inv env st) :
    st.win = (env.bytes.drop st.mappedOffset).take st.win.length ∧ st.pos ≤ st.win.length ∧
    st.mappedOffset + st.win.length ≤ env.bytes.length ∧
    (st.atEnd = true → st.mappedOffset + st.win.length = env.bytes.length) ∧
    st.visible = (env.bytes.drop st.offset).take (st.win.length - st.pos) :=
  ⟨h.win_eq, h.pos_le, h.in_range, h.atEnd_end, h.visible_eq⟩

/-! ## transparency -/

/-- **op_transparent**: for every operation, chunk oracle, `min_buffer`, page size and mode, from every
reachable state: the result is the spec's result on the remaining bytes, `Offset()` advances by exactly the
bytes the spec consumes, and the invariant is kept.  (`canon` only identifies the two outcomes the property
leaves open at the end of the input, see `Model/FilePiece.lean`.) -/
theorem op_transparent (env : Env) (G : NumKind → Grammar) (hG : ∀ k, GrammarOK (G k))
    (hH : env.cfg.fixH = true) (hI : env.cfg.fixI = true) (hF : env.cfg.fixF = true) (op : Op) (st : St) (h : Inv env st) :
    canon op (runOp env G op st).1 = (specOp G op (env.bytes.drop st.offset)).1 ∧
    (runOp env G op st).2.offset = st.offset + (specOp G op (env.bytes.drop st.offset)).2 ∧
    Inv env (runOp env G op st).2 :=
  op_transparent_aux env G (fun _ _ => True) hG ⟨hH, hF⟩ hI op st h (fun _ _ _ => trivial)

/-- **transcript_fn**: the transcript (results and offsets) of any operation sequence is the spec transcript
of the bytes — hence identical for any two executions over the same bytes, whatever their chunk oracles,
buffer sizes, page sizes and backends. -/
theorem transcript_fn (env₁ env₂ : Env) (hb : env₁.bytes = env₂.bytes)
    (hp₁ : 0 < env₁.cfg.page) (hH₁ : env₁.cfg.fixH = true) (hI₁ : env₁.cfg.fixI = true) (hF₁ : env₁.cfg.fixF = true)
    (hp₂ : 0 < env₂.cfg.page) (hH₂ : env₂.cfg.fixH = true) (hI₂ : env₂.cfg.fixI = true) (hF₂ : env₂.cfg.fixF = true)
    (G : NumKind → Grammar) (hG : ∀ k, GrammarOK (G k)) (mb₁ mb₂ : Nat) (b₁ b₂ : Backend) (ops : List Op) :
    transcript env₁ G ops (init env₁ mb₁ b₁) = specTranscript G env₁.bytes ops 0 ∧
    transcript env₁ G ops (init env₁ mb₁ b₁) = transcript env₂ G ops (init env₂ mb₂ b₂) := by
  obtain ⟨i1, o1⟩ := init_spec env₁ mb₁ b₁ hp₁ ⟨hH₁, hF₁⟩
  obtain ⟨i2, o2⟩ := init_spec env₂ mb₂ b₂ hp₂ ⟨hH₂, hF₂⟩
  have t1 := transcript_spec env₁ G (fun _ _ => True) hG ⟨hH₁, hF₁⟩ hI₁ ops _ i1 (goodScript_of_all G _ ops _)
  have t2 := transcript_spec env₂ G (fun _ _ => True) hG ⟨hH₂, hF₂⟩ hI₂ ops _ i2 (goodScript_of_all G _ ops _)
  rw [o1] at t1; rw [o2] at t2
  exact ⟨t1, by rw [t1, t2, hb]⟩

/-- **op_transparent / transcript_fn relative to a set of good tokens**: the same two theorems when the grammar
is only known to be a function of the token on tokens satisfying `Good` (for kenlm's floating-point parser:
every token but `NaN` / `nan`, theorem `concrete_grammar_ok`): they hold for every operation that is not a number
read at a bad token, resp. for every script all of whose number reads meet good tokens (`GoodScript`, decided
along the spec transcript, i.e. a property of the bytes and the script only). -/
theorem op_transparent_on (env : Env) (G : NumKind → Grammar) (Good : NumKind → List Byte → Prop)
    (hG : ∀ k, GrammarOKOn (Good k) (G k))
    (hH : env.cfg.fixH = true) (hI : env.cfg.fixI = true) (hF : env.cfg.fixF = true) (op : Op) (st : St) (h : Inv env st)
    (hgood : OpGood Good op (env.bytes.drop st.offset)) :
    canon op (runOp env G op st).1 = (specOp G op (env.bytes.drop st.offset)).1 ∧
    (runOp env G op st).2.offset = st.offset + (specOp G op (env.bytes.drop st.offset)).2 ∧
    Inv env (runOp env G op st).2 :=
  op_transparent_aux env G Good hG ⟨hH, hF⟩ hI op st h hgood

theorem transcript_fn_on (env₁ env₂ : Env) (hb : env₁.bytes = env₂.bytes)
    (hp₁ : 0 < env₁.cfg.page) (hH₁ : env₁.cfg.fixH = true) (hI₁ : env₁.cfg.fixI = true) (hF₁ : env₁.cfg.fixF = true)
    (hp₂ : 0 < env₂.cfg.page) (hH₂ : env₂.cfg.fixH = true) (hI₂ : env₂.cfg.fixI = true) (hF₂ : env₂.cfg.fixF = true)
    (G : NumKind → Grammar) (Good : NumKind → List Byte → Prop) (hG : ∀ k, GrammarOKOn (Good k) (G k))
    (mb₁ mb₂ : Nat) (b₁ b₂ : Backend) (ops : List Op) (hgs : GoodScript Good G env₁.bytes ops 0) :
    transcript env₁ G ops (init env₁ mb₁ b₁) = specTranscript G env₁.bytes ops 0 ∧
    transcript env₁ G ops (init env₁ mb₁ b₁) = transcript env₂ G ops (init env₂ mb₂ b₂) := by
  obtain ⟨i1, o1⟩ := init_spec env₁ mb₁ b₁ hp₁ ⟨hH₁, hF₁⟩
  obtain ⟨i2, o2⟩ := init_spec env₂ mb₂ b₂ hp₂ ⟨hH₂, hF₂⟩
  have t1 := transcript_spec env₁ G Good hG ⟨hH₁, hF₁⟩ hI₁ ops _ i1 (by rw [o1]; exact hgs)
  have t2 := transcript_spec env₂ G Good hG ⟨hH₂, hF₂⟩ hI₂ ops _ i2 (by rw [o2, ← hb]; exact hgs)
  rw [o1] at t1; rw [o2] at t2
  exact ⟨t1, by rw [t1, t2, hb]⟩

theorem specOp_nil (G : NumKind → Grammar) (op : Op) :
    ((specOp G op []).1 = Res.eof ∨ (specOp G op []).1 = Res.noWord ∨ (specOp G op []).1 = Res.skipped) ∧
    (specOp G op []).2 = 0 := by
  cases op <;> simp [specOp]

/-- **after_eof**: once the input is exhausted every further operation reports end of input (or "no word" /
"nothing skipped"), never data, and stays at the end. -/
theorem after_eof (env : Env) (G : NumKind → Grammar) (hG : ∀ k, GrammarOK (G k))
    (hH : env.cfg.fixH = true) (hI : env.cfg.fixI = true) (hF : env.cfg.fixF = true) (op : Op) (st : St) (h : Inv env st)
    (hend : env.bytes.drop st.offset = []) :
    (canon op (runOp env G op st).1 = Res.eof ∨ canon op (runOp env G op st).1 = Res.noWord ∨
      canon op (runOp env G op st).1 = Res.skipped) ∧
    (runOp env G op st).2.offset = st.offset ∧ env.bytes.drop (runOp env G op st).2.offset = [] := by
  obtain ⟨a, b, _⟩ := op_transparent env G hG hH hI hF op st h
  rw [hend] at a b
  obtain ⟨s1, s2⟩ := specOp_nil G op
  rw [s2] at b
  rw [a, b]
  exact ⟨s1, rfl, hend⟩

/-! ## the spec itself loses nothing -/

/-- a line returned by the spec (without CR stripping) is exactly the consumed bytes minus the delimiter: either
`consumed = line ++ [delim]` with no delimiter inside the line, or the unterminated last line -/
theorem spec_line_exact (G : NumKind → Grammar) (d : Byte) (rest b : List Byte) (n : Nat)
    (h : specOp G (.readLine d false) rest = (.bytes b, n)) :
    (rest.take n = b ++ [d] ∧ idxOf (· == d) b = none) ∨ (b = rest ∧ n = rest.length ∧ idxOf (· == d) rest = none) := by
  rw [specOp_readLine] at h
  split at h
  · simp at h
  · cases hi : idxOf (· == d) rest with
    | none =>
      rw [hi] at h
      simp only [Prod.mk.injEq, Res.bytes.injEq] at h
      right; exact ⟨h.1.symm, h.2.symm, rfl⟩
    | some i =>
      rw [hi] at h
      simp only [Bool.false_and, Bool.false_eq_true, ↓reduceIte, Nat.sub_zero, Prod.mk.injEq, Res.bytes.injEq] at h
      obtain ⟨h1, h2⟩ := h
      subst h1 h2
      left
      obtain ⟨s1, s2⟩ := idxOf_some_spec hi
      have hlt := idxOf_some_lt hi
      refine ⟨?_, s1⟩
      have hx : rest.getD i 0 = d := by simpa using s2
      rw [List.take_add_one]
      have : rest[i]? = some d := by
        rw [List.getD_eq_getElem?_getD, List.getElem?_eq_getElem hlt] at hx
        rw [List.getElem?_eq_getElem hlt]; simpa using hx
      rw [this]; rfl

theorem mem_takeWhile_pred {p : Byte → Bool} {l : List Byte} {b : Byte} (h : b ∈ l.takeWhile p) : p b = true := by
  induction l with
  | nil => simp at h
  | cons a l ih =>
    by_cases ha : p a
    · simp [List.takeWhile, ha] at h
      rcases h with rfl | h
      · exact ha
      · exact ih h
    · simp [List.takeWhile, ha] at h

/-- a word returned by the spec is exactly the consumed bytes minus the leading delimiters, and is followed by a
delimiter or the end of the input -/
theorem spec_word_exact (G : NumKind → Grammar) (d : Byte → Bool) (rest w : List Byte) (n : Nat)
    (h : specOp G (.readDelimited d) rest = (.bytes w, n)) :
    rest.take n = rest.takeWhile d ++ w ∧ (∀ b ∈ w, d b = false) ∧ w ≠ [] ∧
    (rest.drop n = [] ∨ ∃ c t, rest.drop n = c :: t ∧ d c = true) := by
  rw [specOp_readDelimited] at h
  split at h
  · simp at h
  · rename_i hne
    simp only [Prod.mk.injEq, Res.bytes.injEq] at h
    obtain ⟨h1, h2⟩ := h
    have hsplit : rest = rest.takeWhile d ++ rest.dropWhile d := (List.takeWhile_append_dropWhile).symm
    have hsplit2 : rest.dropWhile d = w ++ (rest.dropWhile d).dropWhile (fun b => !d b) := by
      rw [← h1]; exact (List.takeWhile_append_dropWhile).symm
    have hall : rest = rest.takeWhile d ++ (w ++ (rest.dropWhile d).dropWhile (fun b => !d b)) := by
      rw [← hsplit2]; exact hsplit
    have hn : n = (rest.takeWhile d ++ w).length := by rw [List.length_append, ← h2, h1]
    refine ⟨?_, ?_, ?_, ?_⟩
    · conv => lhs; rw [hall, ← List.append_assoc, hn, List.take_left]
    · intro b hb
      rw [← h1] at hb
      have := mem_takeWhile_pred hb
      simpa using this
    · intro hw
      rw [← h1] at hw
      cases hd : rest.dropWhile d with
      | nil => exact hne hd
      | cons c t =>
        have hc := dropWhile_head hd
        rw [hd] at hw
        simp [List.takeWhile, hc] at hw
    · have hdrop : rest.drop n = (rest.dropWhile d).dropWhile (fun b => !d b) := by
        conv => lhs; rw [hall, ← List.append_assoc, hn, List.drop_left]
      rw [hdrop]
      cases hd : (rest.dropWhile d).dropWhile (fun b => !d b) with
      | nil => left; rfl
      | cons c t =>
        right
        refine ⟨c, t, rfl, ?_⟩
        have := dropWhile_head hd
        simpa using this

/-! ## termination -/

/-- **shift_progress**: a `Shift` on a window that has not seen the end succeeds, keeps `Offset()`, shows the same
bytes at the same offsets as before as far as both windows reach, and strictly decreases `mu` = (bytes of the
input beyond the window) + (1 unless `at_end_`) + (length + 2 while in mmap mode — the fall back to read() after
a failed mmap happens at most once and restarts with an empty buffer); on a window that has seen the end it
throws.  So every loop around `Shift` runs at most `mu + 1 ≤ 2·length + 4` times. -/
theorem shift_progress (env : Env) (hH : env.cfg.fixH = true) (hF : env.cfg.fixF = true) (st : St) (h : Inv env st) :
    (st.atEnd = false → ∃ st', shift env st = .ok st' ∧ Inv env st' ∧ st'.offset = st.offset ∧
        mu env st' < mu env st ∧ st'.visible.take st.visible.length = st.visible.take st'.visible.length ∧
        (st'.visible ≠ [] ∨ st'.atEnd = true)) ∧
    (st.atEnd = true → shift env st = .error .eof) ∧ mu env st ≤ 2 * env.bytes.length + 3 := by
  refine ⟨fun he => ?_, fun he => shift_atEnd he, mu_le env st⟩
  obtain ⟨st', hs, hp⟩ := shift_post ⟨hH, hF⟩ h he
  exact ⟨st', hs, hp.inv, hp.offset_eq, hp.mu_lt, visible_common h hp.inv hp.offset_eq, hp.nonempty_or_end⟩

theorem canon_fuel (op : Op) : canon op Res.fuel = Res.fuel := by cases op <;> rfl

theorem specOp_ne_fuel (G : NumKind → Grammar) (op : Op) (rest : List Byte) : (specOp G op rest).1 ≠ Res.fuel := by
  cases op with
  | peek => cases rest <;> simp [specOp]
  | get => cases rest <;> simp [specOp]
  | skipSpaces d => simp [specOp]
  | readLine d s =>
    rw [specOp_readLine]; split
    · simp
    · split <;> simp
  | readLineOrEOF d s =>
    show (specOp G (.readLine d s) rest).1 ≠ _
    rw [specOp_readLine]; split
    · simp
    · split <;> simp
  | readDelimited d => rw [specOp_readDelimited]; split <;> simp
  | readWordSameLine d =>
    rw [specOp_readWordSameLine]; split
    · simp
    · split <;> simp
  | readNumber k =>
    rw [specOp_readNumber]; split
    · simp
    · split <;> simp

/-- **every operation terminates**: the fuel `2·length + 4` handed to the loops is never exhausted. -/
theorem ops_terminate (env : Env) (G : NumKind → Grammar) (hG : ∀ k, GrammarOK (G k))
    (hH : env.cfg.fixH = true) (hI : env.cfg.fixI = true) (hF : env.cfg.fixF = true) (op : Op) (st : St) (h : Inv env st) :
    (runOp env G op st).1 ≠ Res.fuel := by
  intro hc
  obtain ⟨a, _, _⟩ := op_transparent env G hG hH hI hF op st h
  rw [hc, canon_fuel] at a
  exact specOp_ne_fuel G op _ a.symm

/-- the chunk oracle loses no generality: every legal return value of a read (0 exactly when nothing is left or
nothing was asked, otherwise anything from 1 to min(request, available)) is produced by some oracle -/
theorem chunk_complete (i req avail n : Nat) (h0 : n = 0 ↔ (avail = 0 ∨ req = 0)) (hle : n ≤ min req avail) :
    chunk (fun _ => n) i req avail = n := by
  unfold chunk
  split
  · rename_i h; exact (h0.mpr h).symm
  · rename_i h
    have : n ≠ 0 := fun hn => h (h0.mp hn)
    show max 1 (min n (min req avail)) = n
    omega

/-! ## compressed input -/

/-- **compressed_concat**: reading through the member chain with any request sizes and any decoder output
granularity yields `decode(m₁) ++ decode(m₂) ++ …`; each `Read` returns at most what was asked, and 0 only
when nothing was asked or nothing is left; after the end every `Read` returns 0.  In particular
`ReadCompressed::Read` is an instance of the chunk oracle of the FilePiece model over the concatenated
plain bytes. -/
theorem compressed_concat (orc amt : Nat → Nat) (hamt : ∀ i, 0 < amt i) (ch : Chain) :
    (∀ f i, ch.flatten.length < f → rcReadAll orc amt f ch i = ch.flatten) ∧
    (∀ i a, ∃ n, (rcRead orc ch i a).1 = ch.flatten.take n ∧ (rcRead orc ch i a).2.flatten = ch.flatten.drop n ∧
        n ≤ min a ch.flatten.length ∧ (n = 0 ↔ (a = 0 ∨ ch.flatten = []))) ∧
    (ch.flatten = [] → ∀ i a, (rcRead orc ch i a).1 = [] ∧ (rcRead orc ch i a).2.flatten = []) :=
  ⟨fun f i hf => rcReadAll_eq orc amt hamt f ch i hf, fun i a => rcRead_is_chunk orc ch i a,
   fun h i a => rcRead_at_end orc ch i a h⟩

/-- the chain of a raw file is built member by member by the (trusted, abstract) decoder -/
theorem compressed_members (dec : List Byte → Option (List Byte × List Byte)) (f : Nat) (raw : List Byte) (ch : Chain)
    (h : decodeChain dec f raw = some ch) :
    (raw = [] ∧ ch = []) ∨ (∃ plain rest ch', dec raw = some (plain, rest) ∧ ch = plain :: ch' ∧
        decodeChain dec (f - 1) rest = some ch') :=
  decodeChain_flatten dec f raw ch h

/-- **compressed_concat, concretely**: the readers of read_compressed.cc — `ReadFactory` with its `kMagicSize`
read-ahead and magic detection, `Complete`, `Uncompressed`, `UncompressedWithHeader`, `StreamCompressed` with its
16 KiB input buffer, the hand-over of left-over input to the reader of the next member and the forwarding of a
`Read` that produced nothing — meet the same contract as the abstract `rcRead`, for every OS read-size pattern and
every (progress-making) behaviour of the decoders: from a state that owes the chain `ch`, `Read(amount > 0)`
succeeds, returns a prefix of `ch.flatten` of at most `amount` bytes, empty only if nothing is owed, and leaves a
state owing the rest; opening a well-formed input (a chain of members, or plain bytes without a magic) gives a
state owing exactly its decoded bytes.  The fuel `raw bytes + 1` is never exhausted, and neither error arises. -/
theorem compressed_concat_concrete (C : Codecs) (hC : CodecsOK C) (os : Nat → Nat) (dorc : Nat → Nat → Nat → Nat → Nat × Nat) :
    (∀ f s amount ch, Abs C s ch → 0 < amount → rcMeasure s ≤ f →
      ∃ out s' ch', rcRead2 C os dorc f s amount = .ok (out, s') ∧ Abs C s' ch' ∧
        out ++ ch'.flatten = ch.flatten ∧ out.length ≤ amount ∧ (out = [] ↔ ch.flatten = [])) ∧
    (∀ raw ch, Members C raw ch → ∃ s, rcOpen C raw = .ok s ∧ Abs C s ch) ∧
    (∀ raw, raw ≠ [] → C.magic (raw.take kMagicSize) = false → ∃ s, rcOpen C raw = .ok s ∧ Abs C s [raw]) :=
  ⟨rcRead2_contract C hC os dorc, fun raw ch h => (rcOpen_abs C hC raw).1 ch h, fun raw h1 h2 => (rcOpen_abs C hC raw).2 h1 h2⟩

/-- a toy codec for non-vacuity: a member is six bytes 200, a length byte n, and n payload bytes -/
def toyCodecs : Codecs where
  member := fun raw => match raw with
    | 200 :: 200 :: 200 :: 200 :: 200 :: 200 :: n :: rest => if n ≤ rest.length then some (7 + n, rest.take n) else none
    | _ => none
  magic := fun h => h.head? == some 200

theorem toyCodecs_ok : CodecsOK toyCodecs where
  member_len := by
    intro raw len plain h
    simp only [toyCodecs] at h
    split at h
    · rename_i n rest
      by_cases hle : n ≤ rest.length
      · rw [if_pos hle] at h
        simp only [Option.some.injEq, Prod.mk.injEq] at h
        obtain ⟨h1, _⟩ := h
        subst h1
        have hle' : @LE.le Nat _ n rest.length := hle
        simp only [kMagicSize, List.length_cons]; omega
      · rw [if_neg hle] at h; cases h
    · cases h
  member_magic := by
    intro raw len plain k h hk
    simp only [toyCodecs] at h ⊢
    split at h
    · cases k with
      | zero => simp [kMagicSize] at hk
      | succ k => simp
    · cases h

/-- `k` calls of `Read(5)` -/
def toyReadN (os : Nat → Nat) (dorc : Nat → Nat → Nat → Nat → Nat × Nat) : Nat → RcSt → List Byte
  | 0, _ => []
  | k + 1, s =>
    match rcRead2 toyCodecs os dorc 40 s 5 with
    | .ok (out, s') => out ++ toyReadN os dorc k s'
    | .error _ => [0]

/-- three toy members ("ab", "", "c") read through the concrete readers, once with 1-byte decoder steps and once
with greedy ones: the member boundaries, the empty member and the left-over hand-over are exercised -/
example :
    (match rcOpen toyCodecs [200, 200, 200, 200, 200, 200, 2, 97, 98, 200, 200, 200, 200, 200, 200, 0,
                             200, 200, 200, 200, 200, 200, 1, 99] with
     | .ok s => (toyReadN (fun _ => 3) (fun _ _ _ _ => (1, 1)) 6 s, toyReadN (fun _ => 3) (fun _ _ _ _ => (100, 100)) 6 s)
     | .error _ => ([0], [0])) = ([97, 98, 99], [97, 98, 99]) := by decide

/-! ## tokenizers -/

theorem lineIter_eq (env : Env) (G : NumKind → Grammar) (hG : ∀ k, GrammarOK (G k))
    (hH : env.cfg.fixH = true) (hI : env.cfg.fixI = true) (hF : env.cfg.fixF = true) (d : Byte) (s : Bool) :
    ∀ (f : Nat) (st : St), Inv env st →
      lineIter env G d s f st = specLines G d s f (env.bytes.drop st.offset) := by
  intro f
  induction f with
  | zero => intro st _; rfl
  | succ f ih =>
    intro st h
    obtain ⟨a, b, c⟩ := op_transparent env G hG hH hI hF (.readLineOrEOF d s) st h
    rw [canon_readLineOrEOF] at a
    simp only [lineIter, specLines]
    generalize runOp env G (.readLineOrEOF d s) st = out at a b c
    generalize specOp G (.readLineOrEOF d s) (env.bytes.drop st.offset) = sp at a b
    obtain ⟨r, st'⟩ := out
    obtain ⟨sr, n⟩ := sp
    simp only at a b c
    subst a
    cases r with
    | bytes bs =>
      dsimp only
      rw [ih st' c, b, List.drop_drop]
    | _ => rfl

/-- **tokenizer_total**: `TokenIter<BoolCharacter, SkipEmpty>` hands out exactly the maximal delimiter-free
pieces of its input (all of them, or the non-empty ones), in order, nothing split, merged or lost; and
`LineIterator` over a FilePiece enumerates exactly the spec's lines of the input. -/
theorem tokenizer_total (d : KV.Tokenize.Byte → Bool) (skip : Bool) (s : List KV.Tokenize.Byte) :
    KV.Tokenize.tokens d skip s = KV.Tokenize.splitSpec d skip s :=
  KV.Tokenize.tokens_eq_splitSpec d skip s

theorem lineIterator_total (env : Env) (hp : 0 < env.cfg.page) (G : NumKind → Grammar) (hG : ∀ k, GrammarOK (G k))
    (hH : env.cfg.fixH = true) (hI : env.cfg.fixI = true) (hF : env.cfg.fixF = true) (d : Byte) (s : Bool) (mb : Nat)
    (b : Backend) (f : Nat) :
    lineIter env G d s f (init env mb b) = specLines G d s f env.bytes := by
  obtain ⟨i, o⟩ := init_spec env mb b hp ⟨hH, hF⟩
  rw [lineIter_eq env G hG hH hI hF d s f _ i, o]; rfl

/-- **LineInput** (util/stream/line_input.cc): for every block size, chunk oracle and member chain, the blocks handed
down the chain concatenate to the input, every block but the last ends with a newline and none exceeds the block
size; the only failure is a stretch of `B` consecutive input bytes without a newline ("Is this a text file?"); the
fuel `length + 1` is never exhausted.  (No correspondence run: the class has no constructor definition in the tree.) -/
theorem lineInput_blocks (orc : Nat → Nat) (B : Nat) (ch : Chain) (hB : 0 < B) :
    match liRun orc B (ch.flatten.length + 1) ch 0 [] with
    | .ok blocks => blocks.flatten = ch.flatten ∧ LiGood B blocks
    | .error .noNewline => ∃ buf, buf.length = B ∧ (∀ x ∈ buf, (x == 10) = false) ∧ buf <:+: ch.flatten
    | .error .fuel => False := by
  have := liRun_spec orc B (ch.flatten.length + 1) ch 0 [] (by simpa using hB) (by omega)
  cases h : liRun orc B (ch.flatten.length + 1) ch 0 [] with
  | ok bl => rw [h] at this; simpa using this
  | error e =>
    rw [h] at this
    cases e with
    | noNewline => simpa using this
    | fuel => exact this

/-! ## non-vacuity -/

/-- a grammar satisfying the hypotheses: "a leading '0' is the number 0" -/
def toyGrammar : Grammar := fun s => if s.head? = some 48 then some (0, 1) else none

theorem toyGrammar_ok : GrammarOK toyGrammar where
  count_le := by
    intro s v c h
    cases s with
    | nil => simp [toyGrammar] at h
    | cons a t =>
      simp only [toyGrammar] at h
      split at h
      · simp at h; simp; omega
      · simp at h
  prefix_det := by
    intro tok sp junk hne _ _
    cases tok with
    | nil => exact absurd rfl hne
    | cons a t => simp [toyGrammar]
  empty := rfl

/-- the grammars behind `ReadLong` / `ReadULong` (strtol / strtoul + kenlm's error test, as modelled in
`Model/FilePiece.lean` and compared with the real parsers on every generated number) meet the hypotheses -/
theorem integer_grammars_ok : GrammarOK gLong ∧ GrammarOK gULong := ⟨gLong_ok, gULong_ok⟩

/-- **the model's concrete grammars meet the grammar hypotheses on every token**: strtol / strtoul, and kenlm's
floating-point `ParseNumber` with the NaN test on the characters the converter consumed (the repaired code; for
today's test see `Old.nan_not_prefix_determined`). -/
theorem concrete_grammar_ok : ∀ k, GrammarOK (grammar k) := grammar_ok

/-- **C18 for the concrete grammars, without any assumption on the grammar or the script**: over the same bytes,
any two executions (any chunk oracles, buffer sizes, page sizes, backends, mmap failures) of any script produce
the spec transcript, hence the same transcript. -/
theorem transcript_fn_concrete (env₁ env₂ : Env) (hb : env₁.bytes = env₂.bytes)
    (hp₁ : 0 < env₁.cfg.page) (hH₁ : env₁.cfg.fixH = true) (hI₁ : env₁.cfg.fixI = true) (hF₁ : env₁.cfg.fixF = true)
    (hp₂ : 0 < env₂.cfg.page) (hH₂ : env₂.cfg.fixH = true) (hI₂ : env₂.cfg.fixI = true) (hF₂ : env₂.cfg.fixF = true)
    (mb₁ mb₂ : Nat) (b₁ b₂ : Backend) (ops : List Op) :
    transcript env₁ grammar ops (init env₁ mb₁ b₁) = specTranscript grammar env₁.bytes ops 0 ∧
    transcript env₁ grammar ops (init env₁ mb₁ b₁) = transcript env₂ grammar ops (init env₂ mb₂ b₂) :=
  transcript_fn env₁ env₂ hb hp₁ hH₁ hI₁ hF₁ hp₂ hH₂ hI₂ hF₂ grammar grammar_ok mb₁ mb₂ b₁ b₂ ops

def env0 : Env := { cfg := { page := 4, fixH := true, fixI := true }, bytes := [97, 98, 32, 99, 100, 101, 102, 103, 104, 105, 106, 107, 108, 10],
                    orc := fun _ => 3 }

/-- the hypotheses of the theorems are met by a concrete non-trivial state: a window of 8 bytes over a
14-byte input delivered in 3-byte reads (after the 6-byte header `ReadFactory` read ahead), not at the end, with
unread data both inside and beyond the window -/
example : Inv env0 (init env0 1 .pipe) ∧ (init env0 1 .pipe).atEnd = false ∧
    (init env0 1 .pipe).visible = [97, 98, 32, 99, 100, 101] ∧ env0.bytes.drop 6 ≠ [] :=
  ⟨(init_spec env0 1 .pipe (by decide) ⟨rfl, rfl⟩).1, by decide, by decide, by decide⟩

example : transcript env0 (fun _ => toyGrammar) [.readDelimited isSpace, .readDelimited isSpace, .get, .peek]
    (init env0 1 .pipe) =
    [(.bytes [97, 98], 2), (.bytes [99, 100, 101, 102, 103, 104, 105, 106, 107, 108], 13), (.char 10, 14), (.eof, 14)] := by
  decide

/-- a chain of three members (one empty) read in 2-byte pieces with requests of 3 bytes; blocks of 5 bytes
(the second block is the last one: it is handed out as it is) -/
example : rcReadAll (fun _ => 2) (fun _ => 3) 20 [[97, 98, 10, 99], [], [100, 10, 101]] 0 = [97, 98, 10, 99, 100, 10, 101] ∧
    (match liRun (fun _ => 2) 5 8 [[97, 98, 10, 99], [], [100, 10, 101]] 0 [] with | .ok b => b | .error _ => []) =
      [[97, 98, 10], [99, 100, 10, 101]] := by
  decide

example : KV.Tokenize.tokens isSpace true [32, 97, 98, 32, 32, 99, 10] = [[97, 98], [99]] ∧
    KV.Tokenize.tokens isSpace false [32, 97, 32] = [[], [97], []] := by decide

/-- `ReadWordSameLine` at a window boundary (page 4, windows of 8 bytes, file of 13 bytes): the delimiter is the last
byte of the first mmap window, the line goes on in the second — which is the FINAL window, so `at_end_` is set by
the very Shift that the space-skipping loop issues.  The words of the line are all returned, then the newline
stops the loop; file, pipe and istream agree (instances of `op_transparent`, here by evaluation). -/
example :
    let bytes := [97, 98, 32, 99, 100, 101, 102, 32, 103, 104, 32, 105, 10]
    let ops := [Op.readWordSameLine isSpace, .readWordSameLine isSpace, .readWordSameLine isSpace,
                .readWordSameLine isSpace, .readWordSameLine isSpace, .get, .readWordSameLine isSpace]
    let env : Env := { cfg := { page := 4 }, bytes := bytes, orc := fun _ => 1000 }
    transcript env grammar ops (init env 1 .file) =
      [(.bytes [97, 98], 2), (.bytes [99, 100, 101, 102], 7), (.bytes [103, 104], 10), (.bytes [105], 12),
       (.noWord, 12), (.char 10, 13), (.noWord, 13)] ∧
    transcript env grammar ops (init env 1 .file) = transcript env grammar ops (init env 1 .pipe) ∧
    transcript env grammar ops (init env 1 .file) = transcript env grammar ops (init env 1 .lazy) ∧
    (init env 1 .file).win.length = 8 ∧ (init env 1 .file).atEnd = false := by
  decide

/-! ## Old: today's code violates the property (the witnesses are replayed on the real code by the check) -/
section Old

def noGrammar : NumKind → Grammar := fun _ _ => none

/-- today's tree: neither repair -/
def oldCfg (page : Nat) : Cfg := { page := page, fixH := false, fixI := false, fixF := false }

/-- H: read mode, window of 8 bytes (page 4): `ReadDelimited` twice over "ab cdefghijkl\n".  The second word
makes `ReadShift` compact the buffer; `mapped_offset_` is not advanced, so `Offset()` reports 10 instead of 13. -/
def envH : Env := { cfg := oldCfg 4, bytes := [97, 98, 32, 99, 100, 101, 102, 103, 104, 105, 106, 107, 108, 10], orc := fun _ => 1000 }

theorem Old.offset_after_compaction :
    transcript envH noGrammar [.readDelimited isSpace, .readDelimited isSpace] (init envH 1 .pipe) =
      [(.bytes [97, 98], 2), (.bytes [99, 100, 101, 102, 103, 104, 105, 106, 107, 108], 10)] ∧
    specTranscript noGrammar envH.bytes [.readDelimited isSpace, .readDelimited isSpace] 0 =
      [(.bytes [97, 98], 2), (.bytes [99, 100, 101, 102, 103, 104, 105, 106, 107, 108], 13)] := by
  decide

/-- I: mmap mode, window of 8 bytes (page 4) over "aaaaaaa\nbbbb": `ReadLine` consumes the first window exactly;
the `Shift` inside `get` maps the final window and sets `at_end_`, and `get` throws although 4 bytes remain;
the next `get` returns 'b'. -/
def envI : Env := { cfg := oldCfg 4, bytes := [97, 97, 97, 97, 97, 97, 97, 10, 98, 98, 98, 98], orc := fun _ => 1000 }

theorem Old.spurious_eof :
    transcript envI noGrammar [.readLine 10 true, .get, .get] (init envI 1 .file) =
      [(.bytes [97, 97, 97, 97, 97, 97, 97], 8), (.eof, 8), (.char 98, 9)] ∧
    specTranscript noGrammar envI.bytes [.readLine 10 true, .get, .get] 0 =
      [(.bytes [97, 97, 97, 97, 97, 97, 97], 8), (.char 98, 9), (.char 98, 10)] := by
  decide

/-- F: mmap mode, window of 8 bytes (page 4) over "ab cd efghijklmnopq\n"; the second `mmap` (file offset 4) fails, so
`MMapShift` falls back to read() at `desired_begin = 6` but leaves `mapped_offset_ = 0`: the word is right, `Offset()`
reports 13 instead of 19. -/
def envF : Env := { cfg := oldCfg 4, bytes := [97, 98, 32, 99, 100, 32, 101, 102, 103, 104, 105, 106, 107, 108, 109, 110, 111, 112, 113, 10],
                    orc := fun _ => 1000, mmapFail := fun mo => decide (4 ≤ mo) }

theorem Old.offset_after_mmap_fallback :
    transcript envF noGrammar [.readDelimited isSpace, .readDelimited isSpace, .readDelimited isSpace] (init envF 1 .file) =
      [(.bytes [97, 98], 2), (.bytes [99, 100], 5), (.bytes [101, 102, 103, 104, 105, 106, 107, 108, 109, 110, 111, 112, 113], 13)] ∧
    specTranscript noGrammar envF.bytes [.readDelimited isSpace, .readDelimited isSpace, .readDelimited isSpace] 0 =
      [(.bytes [97, 98], 2), (.bytes [99, 100], 5), (.bytes [101, 102, 103, 104, 105, 106, 107, 108, 109, 110, 111, 112, 113], 19)] := by
  decide

/-- N: today's floating-point `ParseNumber` compares the *whole string handed to it* (everything up to the last
space of the window) with "NaN": "NaN" alone parses, "NaN 1" (the same token with more of the window behind it)
throws — the verdict depends on where the window ends.  So `GrammarOK.prefix_det` fails for it. -/
theorem Old.nan_not_prefix_determined :
    gFloatOld false [78, 97, 78] = some (nanCode, 3) ∧ gFloatOld false ([78, 97, 78] ++ 32 :: [49]) = none ∧
    ¬ GrammarOK (gFloatOld false) := by
  have h1 : gFloatOld false [78, 97, 78] = some (nanCode, 3) := by decide
  have h2 : gFloatOld false ([78, 97, 78] ++ 32 :: [49]) = none := by decide
  refine ⟨h1, h2, fun h => ?_⟩
  have := h.prefix_det [78, 97, 78] 32 [49] (by decide) (by decide) (by decide) trivial
  rw [h1, h2] at this
  exact absurd this (by decide)

/-- the same input "xxxxx NaN 1\n" through a pipe (window 8 bytes, page 4), `ReadDelimited` then `ReadFloat`: with
1-byte reads the window ends right after "NaN " and today's code returns NaN; with full reads it throws.  Same
bytes, two window positions, two verdicts — with all three window repairs in.  The repaired test gives NaN both times. -/
def envN (orc : Nat → Nat) : Env :=
  { cfg := { page := 4 }, bytes := [120, 120, 120, 120, 120, 32, 78, 97, 78, 32, 49, 10], orc := orc }

theorem Old.nan_depends_on_window :
    transcript (envN fun _ => 1) grammarOld [.readDelimited isSpace, .readNumber .float] (init (envN fun _ => 1) 1 .pipe) =
      [(.bytes [120, 120, 120, 120, 120], 5), (.num nanCode, 9)] ∧
    transcript (envN fun _ => 1000) grammarOld [.readDelimited isSpace, .readNumber .float] (init (envN fun _ => 1000) 1 .pipe) =
      [(.bytes [120, 120, 120, 120, 120], 5), (.parseErr [78, 97, 78], 6)] ∧
    transcript (envN fun _ => 1) grammar [.readDelimited isSpace, .readNumber .float] (init (envN fun _ => 1) 1 .pipe) =
      transcript (envN fun _ => 1000) grammar [.readDelimited isSpace, .readNumber .float] (init (envN fun _ => 1000) 1 .pipe) := by
  decide

/-- **negation of `op_transparent` / `transcript_fn` for today's code**: with any one repair missing there are
an input, a backend, a buffer size and an operation sequence whose transcript is not the spec's. -/
theorem Old.not_transparent :
    (∃ env mb b ops, 0 < env.cfg.page ∧ env.cfg.fixH = false ∧
        transcript env noGrammar ops (init env mb b) ≠ specTranscript noGrammar env.bytes ops 0) ∧
    (∃ env mb b ops, 0 < env.cfg.page ∧ env.cfg.fixH = true ∧ env.cfg.fixF = true ∧ env.cfg.fixI = false ∧
        transcript env noGrammar ops (init env mb b) ≠ specTranscript noGrammar env.bytes ops 0) ∧
    (∃ env mb b ops, 0 < env.cfg.page ∧ env.cfg.fixH = true ∧ env.cfg.fixI = true ∧ env.cfg.fixF = false ∧
        transcript env noGrammar ops (init env mb b) ≠ specTranscript noGrammar env.bytes ops 0) := by
  refine ⟨⟨envH, 1, .pipe, [.readDelimited isSpace, .readDelimited isSpace], by decide, rfl, by decide⟩,
          ⟨{ envI with cfg := { page := 4, fixH := true, fixI := false, fixF := true } }, 1, .file, [.readLine 10 true, .get, .get],
           by decide, rfl, rfl, rfl, by decide⟩,
          ⟨{ envF with cfg := { page := 4, fixH := true, fixI := true, fixF := false } }, 1, .file,
           [.readDelimited isSpace, .readDelimited isSpace, .readDelimited isSpace], by decide, rfl, rfl, rfl, by decide⟩⟩

/-- the same two witnesses are handled correctly by the repaired code (so the repairs are what matters) -/
theorem Old.repaired_witnesses :
    transcript { envH with cfg := { page := 4 } } noGrammar [.readDelimited isSpace, .readDelimited isSpace]
        (init { envH with cfg := { page := 4 } } 1 .pipe) =
      specTranscript noGrammar envH.bytes [.readDelimited isSpace, .readDelimited isSpace] 0 ∧
    transcript { envI with cfg := { page := 4 } } noGrammar [.readLine 10 true, .get, .get]
        (init { envI with cfg := { page := 4 } } 1 .file) =
      specTranscript noGrammar envI.bytes [.readLine 10 true, .get, .get] 0 ∧
    transcript { envF with cfg := { page := 4 } } noGrammar [.readDelimited isSpace, .readDelimited isSpace, .readDelimited isSpace]
        (init { envF with cfg := { page := 4 } } 1 .file) =
      specTranscript noGrammar envF.bytes [.readDelimited isSpace, .readDelimited isSpace, .readDelimited isSpace] 0 := by
  decide

end Old

end KV.C18
