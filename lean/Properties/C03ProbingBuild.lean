import Model.ProbingBuild
import Proofs.ProbingBuildOps
import Proofs.ProbingBuildBigram
import Proofs.ProbingBuildRep
import Proofs.ProbingBuildBlank
import Proofs.ProbingBuildRepG
import Proofs.ProbingBuildBlank2
import Proofs.ProbingBuildChainStep
import Proofs.ProbingBuildChainSem
import Proofs.ArpaOKCheck
import Proofs.ProbingRestFold
import Proofs.ProbingRestScore
import Proofs.ProbingRestChain
import Proofs.ProbingRestChainSem
import Properties.C03
/-! C03/C01 — the probing *builder* inside the model (`Model/ProbingBuild.lean` = lm/search_hashed.cc ReadNGrams,
FindLower, AdjustLower, MarkLower, activate, unigram sign fix, missing-`<unk>` fix-up).

Status: the executable model is tied entry by entry to the real `ProbingModel`/`RestProbingModel` structure (stream
`probing-structure`, every n-gram and every blank of every generated ARPA) and its result is checked at run time
against `Table.build a` (`prep` flag of the driver) — on every generated model, blanks included.  Proved here: the
table-operation layer with its error classes (general), and **`probing_build_represents` / `probing_end_to_end`
for every proper loadable ARPA**: blank chains of any length over a basis of any order (hypotheses: `ArpaOK'` incl.
`unkBasis`, section order, distinct n-grams, hash injectivity per order, capacity).  `demoPruned_represents` /
`demoPruned_end_to_end` instantiate them on a model with a two-level chain.  Excluded (known finding
`blank-based-on-hallucinated-unk`): blanks based on a hallucinated `<unk>`.
`MaxRestBuild` (`rest = true`, REST_MAX), models without blanks: `probing_rest_build_represents_closed` (`RepresentsR` with
`R := restOf a Sf` = C08's `maxRest`, `probing_rest_is_maxRest`), `probing_rest_refines` (the built structure answers like
`KV.Left.restSearch T R`, the search C08's theorems are stated for) and `probing_rest_end_to_end_closed` (`FullScore.prob` =
ARPA recursion, `FullScore.rest` = `restOf` of the longest match).  Blank chains under `MaxRestBuild`: the complete
operational statement of a line incl. the `MarkLower` tail (`probing_rest_chain_line_partial`) and the key-level equality of
all fields except `rest` (`probing_rest_chain_nonrest_partial`) are proved; OPEN: the `rest` field on chains
(`w5T.rest = restOf` of the enlarged key set), hence `stepAllT` / `probing_rest_build_represents` without `ClsC`
(differential check only for `RestProbingModel` on pruned models).
Superseded, kept for the audit lists: `ProbingBuildRepresents` (def), `probing_end_to_end_partial`, `_closed`, `_blank1`,
`_single`, `probing_chain_line_partial`. -/
namespace KV.C03ProbingBuild
open KV.Arpa KV.Table KV.Score KV.State KV.ProbingLM KV.ProbingBuild

/-- **capacity ⇒ `probingSize`** (`Insert`): when an order's real + blank entries reach its bucket count the builder
raises `ProbingSizeException`, it never loops (general: any table satisfying the C20 invariant) -/
theorem insert_capacity_probingSize {o : Ord} {M : Nat → Option Nat} (h : OrdInv o M) (k : Nat) (w : W)
    (hc : o.t.entries + 1 ≥ o.t.N) : o.insert k w = .error .probingSize := ord_insert_full h k w hc

/-- the same for the blank insertion of `FindLower` (`FindOrInsert` of an absent key) -/
theorem findOrInsert_capacity_probingSize {o : Ord} {M : Nat → Option Nat} (h : OrdInv o M) (k : Nat) (w : W)
    (hM : M k = none) (hc : o.t.entries + 1 ≥ o.t.N) : o.findOrInsert k w = .error .probingSize :=
  ord_findOrInsert_full h k w hM hc

/-- below capacity a fresh key is inserted, the table keeps the C20 invariant and represents the extended map -/
theorem insert_below_capacity {o : Ord} {M : Nat → Option Nat} (h : OrdInv o M) (k : Nat) (w : W) (hM : M k = none)
    (hc : o.t.entries + 1 < o.t.N) :
    ∃ o', o.insert k w = .ok o' ∧ OrdInv o' (KV.Probing.upd M k o.pay.length) ∧ o'.pay = o.pay ++ [w] ∧
      o'.t.N = o.t.N ∧ o'.t.entries = o.t.entries + 1 := ord_insert h k w hM hc

/-- **missing context ⇔ `format`**: `ActivateLowerMiddle` raises `FormatLoadException` exactly when the context of the
n-gram is not in the table of the next lower order (n ≥ 3) -/
theorem missing_context_format (combine : Nat → Word → Nat) (g : List Word) (n : Nat) (hn : n ≠ 2) (s : St)
    (M : Nat → Option Nat) (h : OrdInv (s.mid.getD (n - 3) default) M) :
    activate combine g n s = .error .format ↔ M (hashOf combine (g.drop 1)) = none :=
  activate_format_iff combine g n hn s M h

/-- **bigram models, complete fold**: the builder returns `.ok` and the result is characterised (longest table =
exactly the bigrams with their probabilities under the C20 invariant; unigram sign / extension bits = exactly the
words that end / are the context of a bigram).  Hypotheses: distinct chained hashes of the bigram lines (injectivity),
word ids below the vocabulary size, bigram count below the bucket count. -/
theorem build_bigram (combine : Nat → Word → Nat) (a : Arpa) (nWords : Nat) (buckets : List Nat) (unkMissing : Rat)
    (horder : a.order = 2)
    (hlines : ∀ p ∈ a.entries.filter (fun p => p.1.length ≥ 2), ∃ x y, p.1 = [x, y] ∧ x < nWords ∧ y < nWords)
    (hnd : ((a.entries.filter (fun p => p.1.length ≥ 2)).map (fun p => hashOf combine p.1)).Nodup)
    (hcap : (a.entries.filter (fun p => p.1.length ≥ 2)).length < buckets.getD 0 1)
    (hu : UniOK (initUni a nWords)) :
    ∃ s, build combine false a nWords buckets unkMissing = .ok (fixUnk a unkMissing s) ∧
      Inv2 combine (initUni a nWords) (buckets.getD 0 1) (a.entries.filter (fun p => p.1.length ≥ 2)) s :=
  build_bigram_ok combine a nWords buckets unkMissing horder hlines hnd hcap hu

/-- … and the bigram line that reaches the bucket count raises `probingSize` -/
theorem build_bigram_capacity (combine : Nat → Word → Nat) (u0 : List W) (N : Nat) (proc : List (List Word × Entry)) (s : St)
    (inv : Inv2 combine u0 N proc s) (x y : Word) (e : Entry) (hcap : proc.length + 1 ≥ N) :
    addLine combine false 2 s [x, y] e = .error .probingSize := bigram_line_full combine u0 N proc s inv x y e hcap

/-- **`probing_build_represents_closed`** — every order.  For a loaded ARPA without blanks (`ArpaOK`: well-formed,
suffix-closed — every lmplz output —, probabilities ≤ 0, vocabulary = unigrams, hallucinated `<unk>` consistent), whose
lines are in order of n-gram length (as the file format demands), with pairwise distinct chained hashes and each order's
count below its bucket count: the builder returns `.ok` and the built structure `Represents` `Table.build a` — entries,
probabilities, back-offs, extends-left sign bits and extends-right bits, under the C20 invariant of every table. -/
theorem probing_build_represents_closed (combine : Nat → Word → Nat) (a : Arpa) (nWords : Nat) (buckets : List Nat) (um : Rat)
    (ok : ArpaOK a nWords um)
    (hsorted : (ngramLines a).Pairwise (fun p q => p.1.length ≤ q.1.length))
    (hnd : ((ngramLines a).map (fun p => hashOf combine p.1)).Nodup)
    (hcaps : ∀ m, (linesOf (ngramLines a) m).length < capOf buckets m) :
    ∃ s Mmid Mlong, build combine false a nWords buckets um = .ok s ∧
      Represents combine (toPLM false a.order s) (Table.build a) Mmid Mlong :=
  build_represents_closed combine a nWords buckets um ok hsorted hnd hcaps

/-- **`probing_end_to_end_closed`** — ARPA → built probing structure → every query = ARPA recursion, with no
`Represents` hypothesis: for models without blanks, `FullScore` over the structure the builder produces returns
`score a h w` for every state reached by left-to-right scoring and every vocabulary word. -/
theorem probing_end_to_end_closed (combine : Nat → Word → Nat) (a : Arpa) (nWords : Nat) (buckets : List Nat) (um : Rat)
    (ok : ArpaOK a nWords um)
    (hsorted : (ngramLines a).Pairwise (fun p q => p.1.length ≤ q.1.length))
    (hnd : ((ngramLines a).map (fun p => hashOf combine p.1)).Nodup)
    (hcaps : ∀ m, (linesOf (ngramLines a) m).length < capOf buckets m)
    (inj : HashInjective combine (Table.build a))
    (h : List Word) (st : State) (sf : StateFor a h st) (w : Word) (hw : a.gram [w] ≠ none) :
    ∃ s, build combine false a nWords buckets um = .ok s ∧
      (fullScore (KV.ProbingLM.search combine (toPLM false a.order s)) st w).1.prob = score a h w := by
  obtain ⟨s, Mmid, Mlong, hb, rep⟩ := build_represents_closed combine a nWords buckets um ok hsorted hnd hcaps
  exact ⟨s, hb, KV.C03.probing_prob a ok.wf (fun _ => false) combine _ Mmid Mlong rep inj h st sf w hw⟩

/-! ### blanks — the general invariant and the single-blank step (partial)

`InvG combine a u0 N caps S s`: every order's table holds the stored keys `S` of that order — real lines *and*
hallucinated blanks, in insertion order, under the C20 invariant — with payload `wantW a S k`: a real line's weights or
a blank carrying `|score|` of its reversed suffix and back-off `-0.0`, sign bit cleared iff a stored key of the next
order ends in it, extension bit set iff its back-off is non-zero or a stored key of the next order has it as context. -/

/-- a line whose immediate suffix is stored preserves the general invariant (with blanks possibly present) -/
theorem blank_invariant_closed_line (combine : Nat → Word → Nat) (a : Arpa) (u0 : List W) (hu : UniOK u0) (N : Nat) (caps : Nat → Nat)
    (S : List Key) (s : St) (inv : InvG combine a u0 N caps S s) (g : Key) (e : Entry)
    (hn2 : 2 ≤ g.length) (hnN : g.length ≤ N) (hreal : a.gram g = some e)
    (hasc : ∀ k ∈ S, k.length ≤ g.length)
    (hfresh : ∀ k ∈ keysOf S g.length, hashOf combine k ≠ hashOf combine g)
    (hcap : (keysOf S g.length).length + 1 < caps g.length)
    (hbi : g.length = 2 → ∃ x y, g = [x, y] ∧ x < u0.length ∧ y < u0.length)
    (hsuf : 3 ≤ g.length → g.take (g.length - 1) ∈ S) (hctx : 3 ≤ g.length → g.drop 1 ∈ S) :
    ∃ s', addLine combine false N s g e = .ok s' ∧ InvG combine a u0 N caps (S ++ [g]) s' :=
  invG_step_closed combine a u0 hu N caps S s inv g e hn2 hnN hreal hasc hfresh hcap hbi hsuf hctx

/-- **`probing_blank1_step_partial`** — a trigram line whose bigram suffix is neither an n-gram of the model nor stored
(the common SRI case): `FindLower` inserts the blank (not-found branch of `FindOrInsert`, counted against the bucket
limit), `AdjustLower` gives it `|prob| = |bo(context) + p(unigram)| = |score|`, back-off `-0.0`, clears the sign bits of
the blank and of the unigram basis, sets the extension bits of the two contexts — and the general invariant holds
afterwards for `S ++ [blank, line]`.  Gap to `probing_build_represents_blank1`: the fold over a file mixing both kinds
of lines, `S` at the end = the keys of `Table.build a`, `Represents` from `InvG`; and chains longer than one blank or
based on an entry of order ≥ 2. -/
theorem probing_blank1_step_partial (combine : Nat → Word → Nat) (a : Arpa) (u0 : List W) (hu : UniOK u0) (N : Nat) (caps : Nat → Nat)
    (S : List Key) (s : St) (inv : InvG combine a u0 N caps S s) (x y z : Word) (e : Entry)
    (hN : 3 ≤ N) (hreal : a.gram [x, y, z] = some e) (hblank : a.gram [x, y] = none)
    (hasc : ∀ k ∈ S, k.length ≤ 3)
    (hfresh3 : ∀ k ∈ keysOf S 3, hashOf combine k ≠ hashOf combine [x, y, z])
    (hfresh2 : ∀ k ∈ keysOf S 2, hashOf combine k ≠ hashOf combine [x, y])
    (hcap3 : (keysOf S 3).length + 1 < caps 3) (hcap2 : (keysOf S 2).length + 1 < caps 2)
    (hE : endsInK S [x, y] = false) (hSW : startsWithK S [x, y] = false)
    (hctx : [y, z] ∈ S) (hx : x < u0.length) (hy : y < u0.length)
    (hval : (-(u0.getD x default).mag + (u0.getD y default).backoff).abs = (score a [y] x).abs) :
    ∃ s', addLine combine false N s [x, y, z] e = .ok s' ∧ InvG combine a u0 N caps (S ++ [[x, y]] ++ [[x, y, z]]) s' :=
  invG_step_blank3 combine a u0 hu N caps S s inv x y z e hN hreal hblank hasc hfresh3 hfresh2 hcap3 hcap2 hE hSW hctx hx hy hval

/-- **`probing_build_represents_blank1`** — SRI-pruned models whose blanks are single-level.  For every loaded proper
ARPA (`ArpaOK'`: well-formed, probabilities and backed-off blank products ≤ 0, vocabulary = unigrams, no blank based on a
hallucinated `<unk>`; **no suffix-closure**) in which every n-gram of order ≥ 4 has its immediate suffix (trigrams are
arbitrary: *every model of order ≤ 3*, pruned or not), with lines in order of length, distinct keys, the chained hash
injective on the keys of `Table.build a` and every table (blanks included) below its bucket count: the builder returns
`.ok` and the built structure `Represents` `Table.build a` — real entries and hallucinated blanks with
`prob = score`, back-off `-0.0`, and both marks. -/
theorem probing_build_represents_blank1 (combine : Nat → Word → Nat) (a : Arpa) (nWords : Nat) (buckets : List Nat) (um : Rat)
    (ok : ArpaOK' a nWords um)
    (hcls : ∀ q ∈ ngramLines a, Cls1 a q.1)
    (hsorted : (ngramLines a).Pairwise (fun p q => p.1.length ≤ q.1.length))
    (hdist : (a.entries.map (·.1)).Nodup)
    (hinj : ∀ k k', IsKey a k → IsKey a k' → k.length = k'.length → hashOf combine k = hashOf combine k' → k = k')
    (hcaps : ∀ m, (keysOf (foldKeys [] (ngramLines a)) m).length < capOf buckets m) :
    ∃ s Mmid Mlong, build combine false a nWords buckets um = .ok s ∧
      Represents combine (toPLM false a.order s) (Table.build a) Mmid Mlong :=
  build_represents_of_step combine a nWords buckets um ok (Cls1 a)
    (fun S s p e inv si lc cls => step1 combine a nWords um ok a.order (capOf buckets) S s p e inv si lc cls)
    hcls hsorted hdist hinj hcaps

/-- **`probing_end_to_end_blank1`**: ARPA → built probing structure → every query = ARPA recursion, pruned models with
single-level blanks included, no `Represents` hypothesis. -/
theorem probing_end_to_end_blank1 (combine : Nat → Word → Nat) (a : Arpa) (nWords : Nat) (buckets : List Nat) (um : Rat)
    (ok : ArpaOK' a nWords um)
    (hcls : ∀ q ∈ ngramLines a, Cls1 a q.1)
    (hsorted : (ngramLines a).Pairwise (fun p q => p.1.length ≤ q.1.length))
    (hdist : (a.entries.map (·.1)).Nodup)
    (hinj : ∀ k k', IsKey a k → IsKey a k' → k.length = k'.length → hashOf combine k = hashOf combine k' → k = k')
    (hcaps : ∀ m, (keysOf (foldKeys [] (ngramLines a)) m).length < capOf buckets m)
    (inj : HashInjective combine (Table.build a))
    (h : List Word) (st : State) (sf : StateFor a h st) (w : Word) (hw : a.gram [w] ≠ none) :
    ∃ s, build combine false a nWords buckets um = .ok s ∧
      (fullScore (KV.ProbingLM.search combine (toPLM false a.order s)) st w).1.prob = score a h w := by
  obtain ⟨s, Mmid, Mlong, hb, rep⟩ := probing_build_represents_blank1 combine a nWords buckets um ok hcls hsorted hdist hinj hcaps
  exact ⟨s, hb, KV.C03.probing_prob a ok.wf (fun _ => false) combine _ Mmid Mlong rep inj h st sf w hw⟩

/-- **`probing_build_represents_single`** — all files whose blanks are single-level, at any order: every n-gram of order
≥ 4 has its immediate suffix *or the next shorter suffix* in the model (`Cls2`; trigrams arbitrary).  Same hypotheses
and conclusion as `probing_build_represents_blank1`; the blank may now be based on an entry of any order
(`invG_step_blank4`). -/
theorem probing_build_represents_single (combine : Nat → Word → Nat) (a : Arpa) (nWords : Nat) (buckets : List Nat) (um : Rat)
    (ok : ArpaOK' a nWords um)
    (hcls : ∀ q ∈ ngramLines a, Cls2 a q.1)
    (hsorted : (ngramLines a).Pairwise (fun p q => p.1.length ≤ q.1.length))
    (hdist : (a.entries.map (·.1)).Nodup)
    (hinj : ∀ k k', IsKey a k → IsKey a k' → k.length = k'.length → hashOf combine k = hashOf combine k' → k = k')
    (hcaps : ∀ m, (keysOf (foldKeys [] (ngramLines a)) m).length < capOf buckets m) :
    ∃ s Mmid Mlong, build combine false a nWords buckets um = .ok s ∧
      Represents combine (toPLM false a.order s) (Table.build a) Mmid Mlong :=
  build_represents_of_step combine a nWords buckets um ok (Cls2 a)
    (fun S s p e inv si lc cls => step2 combine a nWords um ok (capOf buckets) S s p e inv si lc cls)
    hcls hsorted hdist hinj hcaps

/-- **`probing_end_to_end_single`** -/
theorem probing_end_to_end_single (combine : Nat → Word → Nat) (a : Arpa) (nWords : Nat) (buckets : List Nat) (um : Rat)
    (ok : ArpaOK' a nWords um)
    (hcls : ∀ q ∈ ngramLines a, Cls2 a q.1)
    (hsorted : (ngramLines a).Pairwise (fun p q => p.1.length ≤ q.1.length))
    (hdist : (a.entries.map (·.1)).Nodup)
    (hinj : ∀ k k', IsKey a k → IsKey a k' → k.length = k'.length → hashOf combine k = hashOf combine k' → k = k')
    (hcaps : ∀ m, (keysOf (foldKeys [] (ngramLines a)) m).length < capOf buckets m)
    (inj : HashInjective combine (Table.build a))
    (h : List Word) (st : State) (sf : StateFor a h st) (w : Word) (hw : a.gram [w] ≠ none) :
    ∃ s, build combine false a nWords buckets um = .ok s ∧
      (fullScore (KV.ProbingLM.search combine (toPLM false a.order s)) st w).1.prob = score a h w := by
  obtain ⟨s, Mmid, Mlong, hb, rep⟩ := probing_build_represents_single combine a nWords buckets um ok hcls hsorted hdist hinj hcaps
  exact ⟨s, hb, KV.C03.probing_prob a ok.wf (fun _ => false) combine _ Mmid Mlong rep inj h st sf w hw⟩

/-- **`probing_build_represents`** — every loadable proper ARPA, blank chains of any length and any basis.  Hypotheses:
`ArpaOK'` (well-formed; probabilities ≤ 0 including the backed-off products, `proper`; vocabulary = unigram lines; words
of n-grams are unigrams; the `<unk>` fix-up convention; `unkBasis`: no blank is based on a hallucinated `<unk>`, the
class of the known finding `blank-based-on-hallucinated-unk`), the file's order of n-gram sections, distinct n-grams,
injectivity of the 64-bit hash on the keys of one order, and bucket counts above the final entry counts (real + blanks)
— the conditions under which the real loader returns without an exception.  Conclusion: `build` returns `.ok s` and
`s` **represents** `Table.build a`: every key (real n-gram or hallucinated blank) is found with the probability,
back-off, sign bit (`independent_left`) and extension bit `Table.build a` prescribes, and nothing else is found.
The per-line step is `stepAll`: closed lines by `invG_step_closed`, lines with `L ≥ 1` missing suffixes by `step_chain`
(loop lemmas `findLower_chain`, `fillBlanks_chain`, `markChain_chain`, `adjustLower_chain`; key-level `CH.chain_sem`). -/
theorem probing_build_represents (combine : Nat → Word → Nat) (a : Arpa) (nWords : Nat) (buckets : List Nat) (um : Rat)
    (ok : ArpaOK' a nWords um)
    (hsorted : (ngramLines a).Pairwise (fun p q => p.1.length ≤ q.1.length))
    (hdist : (a.entries.map (·.1)).Nodup)
    (hinj : ∀ k k', IsKey a k → IsKey a k' → k.length = k'.length → hashOf combine k = hashOf combine k' → k = k')
    (hcaps : ∀ m, (keysOf (foldKeys [] (ngramLines a)) m).length < capOf buckets m) :
    ∃ s Mmid Mlong, build combine false a nWords buckets um = .ok s ∧
      Represents combine (toPLM false a.order s) (Table.build a) Mmid Mlong :=
  build_represents_of_step combine a nWords buckets um ok (fun _ => True)
    (stepAll combine a nWords um ok (capOf buckets)) (fun _ _ => trivial) hsorted hdist hinj hcaps

/-- **`probing_end_to_end`** — unconditional beyond `ArpaOK'`, section order, distinct n-grams, hash injectivity and
capacity: the structure the builder produces answers every `FullScore` with the ARPA recursion `score a h w`
(composition of `probing_build_represents`, `probing_refines` and `fullScore_prob`). -/
theorem probing_end_to_end (combine : Nat → Word → Nat) (a : Arpa) (nWords : Nat) (buckets : List Nat) (um : Rat)
    (ok : ArpaOK' a nWords um)
    (hsorted : (ngramLines a).Pairwise (fun p q => p.1.length ≤ q.1.length))
    (hdist : (a.entries.map (·.1)).Nodup)
    (hinj : ∀ k k', IsKey a k → IsKey a k' → k.length = k'.length → hashOf combine k = hashOf combine k' → k = k')
    (hcaps : ∀ m, (keysOf (foldKeys [] (ngramLines a)) m).length < capOf buckets m)
    (inj : HashInjective combine (Table.build a))
    (h : List Word) (st : State) (sf : StateFor a h st) (w : Word) (hw : a.gram [w] ≠ none) :
    ∃ s, build combine false a nWords buckets um = .ok s ∧
      (fullScore (KV.ProbingLM.search combine (toPLM false a.order s)) st w).1.prob = score a h w := by
  obtain ⟨s, Mmid, Mlong, hb, rep⟩ := probing_build_represents combine a nWords buckets um ok hsorted hdist hinj hcaps
  exact ⟨s, hb, KV.C03.probing_prob a ok.wf (fun _ => false) combine _ Mmid Mlong rep inj h st sf w hw⟩

/-- the conclusion of `probing_build_represents` with the default `unknown_missing_logprob = -100` (kept as the
hypothesis of the older `probing_end_to_end_partial`) -/
def ProbingBuildRepresents (combine : Nat → Word → Nat) (a : Arpa) (nWords : Nat) (buckets : List Nat) : Prop :=
  ∃ s Mmid Mlong, build combine false a nWords buckets = .ok s ∧
    Represents combine (toPLM false a.order s) (Table.build a) Mmid Mlong

/-- `ProbingBuildRepresents` is a theorem now -/
theorem probingBuildRepresents_holds (combine : Nat → Word → Nat) (a : Arpa) (nWords : Nat) (buckets : List Nat)
    (ok : ArpaOK' a nWords (-100))
    (hsorted : (ngramLines a).Pairwise (fun p q => p.1.length ≤ q.1.length))
    (hdist : (a.entries.map (·.1)).Nodup)
    (hinj : ∀ k k', IsKey a k → IsKey a k' → k.length = k'.length → hashOf combine k = hashOf combine k' → k = k')
    (hcaps : ∀ m, (keysOf (foldKeys [] (ngramLines a)) m).length < capOf buckets m) :
    ProbingBuildRepresents combine a nWords buckets :=
  probing_build_represents combine a nWords buckets (-100) ok hsorted hdist hinj hcaps

/-- `probing_end_to_end`, older conditional form (superseded by `probing_end_to_end`): *given*
`ProbingBuildRepresents` for the model at hand, every `FullScore` over the structure the builder produced equals the ARPA recursion — no hypothesis
about the structure other than that one is left (composition of `probing_refines` and `fullScore_prob`). -/
theorem probing_end_to_end_partial (combine : Nat → Word → Nat) (a : Arpa) (wf : WellFormed a) (nWords : Nat) (buckets : List Nat)
    (hrep : ProbingBuildRepresents combine a nWords buckets) (inj : HashInjective combine (Table.build a))
    (h : List Word) (st : State) (sf : StateFor a h st) (w : Word) (hw : a.gram [w] ≠ none) :
    ∃ s, build combine false a nWords buckets = .ok s ∧
      (fullScore (KV.ProbingLM.search combine (toPLM false a.order s)) st w).1.prob = score a h w := by
  obtain ⟨s, Mmid, Mlong, hb, rep⟩ := hrep
  exact ⟨s, hb, KV.C03.probing_prob a wf (fun _ => false) combine _ Mmid Mlong rep inj h st sf w hw⟩

/-! ### non-vacuity -/

/-- a concrete (injective on the examples) word-hash combiner -/
def cmb (c : Nat) (w : Word) : Nat := c * 16 + w + 1

/-- a concrete `ArpaOK` instance: the hypotheses of `probing_build_represents_closed` are satisfiable -/
theorem demoClosed_ok : ArpaOK KV.C01.demoClosed 4 (-100) := by
  refine ⟨KV.C01.demoClosed_wf, KV.C01.demoClosed_closed, ?_, ?_, ?_, by decide +kernel⟩
  · intro g e h
    have hm := lookup_some_mem _ _ _ h
    simp [KV.C01.demoClosed] at hm
    rcases hm with h | h | h | h | h | h | h <;> (obtain ⟨_, rfl⟩ := h) <;> decide +kernel
  · intro w
    constructor
    · intro h
      match w, h with
      | 0, _ => decide +kernel
      | 1, _ => decide +kernel
      | 2, _ => decide +kernel
      | 3, _ => decide +kernel
    · intro h
      obtain ⟨e, he⟩ := Option.ne_none_iff_exists'.mp h
      have hm := lookup_some_mem _ _ _ he
      simp [KV.C01.demoClosed] at hm
      rcases hm with h | h | h | h <;> (obtain ⟨rfl, _⟩ := h) <;> decide
  · intro h; exact absurd h (by decide)

example : ∃ s Mmid Mlong, build cmb false KV.C01.demoClosed 4 [4, 4] (-100) = .ok s ∧
    Represents cmb (toPLM false KV.C01.demoClosed.order s) (KV.Table.build KV.C01.demoClosed) Mmid Mlong :=
  KV.C03ProbingBuild.probing_build_represents_closed cmb KV.C01.demoClosed 4 [4, 4] (-100) demoClosed_ok
    (by decide +kernel) (by decide +kernel) (by intro m; match m with
      | 0 => decide +kernel | 1 => decide +kernel | 2 => decide +kernel | 3 => decide +kernel
      | m+4 => simp [linesOf, ngramLines, KV.C01.demoClosed, capOf])

/-- "a b c d" (1 2 3 4) present with contexts "a b c", "a b"; its suffixes "b c d" and "c d" are pruned:
two-level blank chain [4,3,2] → [4,3] based on the unigram 4 -/
def demoPruned : Arpa :=
  { order := 4,
    entries := [([0], ⟨-5, 0, false⟩), ([1], ⟨-1, -1/2, false⟩), ([2], ⟨-1, -1/4, false⟩), ([3], ⟨-2, -1/8, false⟩), ([4], ⟨-3, 0, false⟩),
                ([2,1], ⟨-1/2, -1/16, false⟩), ([3,2], ⟨-3/4, -1/32, false⟩), ([3,2,1], ⟨-1/3, -1/64, false⟩), ([4,3,2,1], ⟨-1/5, 0, false⟩)] }

/-- the built structure holds every key of `Table.build a` with the payload it prescribes -/
def repCheck (combine : Nat → Word → Nat) (a : Arpa) (st : St) : Bool :=
  (keys a).all fun g =>
    match (KV.Table.build a).lookup g with
    | none => true
    | some t =>
      match g with
      | [] => true
      | [w] => wFound false (st.uni.getD w default) == toFound t
      | _ =>
        if g.length == a.order then
          match KV.Probing.find id st.longest.t (hashOf combine g) with
          | some (some i) => -(st.longest.pay.getD i default).mag == t.prob
          | _ => false
        else
          match KV.Probing.find id (st.mid.getD (g.length - 2) default).t (hashOf combine g) with
          | some (some i) => wFound false ((st.mid.getD (g.length - 2) default).pay.getD i default) == toFound t
          | _ => false

example : (KV.Table.build demoPruned).lookup [4,3,2] = some ⟨-1/32 + (-1/8 + -3), 0, true, false, true⟩ := by decide +kernel
example : (KV.Table.build demoPruned).lookup [4,3] = some ⟨-1/8 + -3, 0, true, false, true⟩ := by decide +kernel
example : (match build cmb false demoPruned 5 [4, 4, 4] (-100) with
    | .ok st => repCheck cmb demoPruned st
    | .error _ => false) = true := by decide +kernel

/-- **Blank chains of any length, operational half (partial).**  A line `p` of order `b+L+1` whose reversed prefixes of
orders `b+1 .. b+L` are not stored (`L ≥ 1` blanks to hallucinate) and whose prefix of order `b` is (or `b = 1`, the
unigram): from any state satisfying the blank-aware invariant `InvG`, `addLine` succeeds, appends exactly the `L` blanks
and the line to their tables, and leaves in every table and in the unigram array the payloads `chainWant`: the blank
probabilities filled bottom-up from the basis (`fillUs`: `prob += backoff(context)` per level, with `SetExtension` on the
context), the sign bit cleared along the chain (`chainKeys`), and the extension mark on the line's context.  Proved by
induction over the loops of `FindLower`, `AdjustLower` (both the unigram-basis and the middle-basis branch) and
`MarkExtends`.  Partial by itself (it says nothing about the meaning of `chainWant`); completed in round 9 by
`CH.chain_sem` (`chainWant` = the payloads prescribed for the enlarged key set) into `step_chain` / `stepAll`, hence
`probing_build_represents`. -/
theorem probing_chain_line_partial (combine : Nat → Word → Nat) (a : Arpa) (u0 : List W) (N : Nat) (caps : Nat → Nat)
    (S : List Key) (s : St) (inv : InvG combine a u0 N caps S s) (si : SInv a S) (p : Key) (e : Entry)
    (lc : LC combine a u0 N caps S p e) (b L : Nat) (hb : 1 ≤ b) (hL : 1 ≤ L) (hpl : p.length = b + L + 1)
    (hbasis : b = 1 ∨ p.take b ∈ S) (hmiss : ∀ j, b < j → j ≤ b + L → p.take j ∉ S)
    (hcapn : (keysOf S (b + L + 1)).length + 1 < caps (b + L + 1))
    (hcapj : ∀ j, b < j → j ≤ b + L → (keysOf S j).length + 1 < caps j) :
    ∃ s' Ks' want1, addLine combine false N s p e = .ok s' ∧
      (∀ m, Ks' m = if b < m ∧ m ≤ b + L then keysOf (S ++ [p]) m ++ [p.take m] else keysOf (S ++ [p]) m) ∧
      (∀ k, want1 k = if b < k.length ∧ k.length ≤ b + L ∧ k = p.take k.length then blankW
        else updW (wantAll a u0 S) p (lineW e) k) ∧
      StP combine N caps u0.length s' Ks' (chainWant want1 p b L) :=
  addLine_chain combine a u0 N caps S s inv si p e lc b L hb hL hpl hbasis hmiss hcapn hcapj

/-- the final payload at a key is the composition, in order, of the updates addressed to it (used to evaluate `chainWant`) -/
theorem chain_updates_eval (us : List (Key × (W → W))) (want : Key → W) (k : Key) :
    applyUpd want us k = (us.filter (fun u => u.1 == k)).foldl (fun w u => u.2 w) (want k) :=
  applyUpd_eval us want k

/-! ### `demoPruned` (two-level blank chain) as an instance of the general theorems -/

/-- the hypotheses of `probing_build_represents` are satisfiable by a model with a two-level blank chain -/
theorem demoPruned_ok : ArpaOK' demoPruned 5 (-100) := arpaOK'_of_check _ _ _ (by decide +kernel)

theorem demoPruned_caps : ∀ m, (keysOf (foldKeys [] (ngramLines demoPruned)) m).length < capOf [4, 4, 4] m := by
  intro m
  match m with
  | 0 => decide +kernel
  | 1 => decide +kernel
  | 2 => decide +kernel
  | 3 => decide +kernel
  | 4 => decide +kernel
  | m+5 =>
    have : keysOf (foldKeys [] (ngramLines demoPruned)) (m + 5) = [] := by
      have hk : foldKeys [] (ngramLines demoPruned) = [[2,1], [3,2], [3,2,1], [4,3], [4,3,2], [4,3,2,1]] := by decide +kernel
      rw [hk]; simp [keysOf]
    rw [this]; simp [capOf]

/-- **instance**: the builder on `demoPruned` (blanks `[4,3,2]` → `[4,3]` → unigram 4) represents `Table.build demoPruned`;
`sqc` is an injective combiner (`hashOf_sqc_inj`), standing for the 64-bit hash on collision-free inputs -/
theorem demoPruned_represents : ∃ s Mmid Mlong, build sqc false demoPruned 5 [4, 4, 4] (-100) = .ok s ∧
    Represents sqc (toPLM false demoPruned.order s) (Table.build demoPruned) Mmid Mlong :=
  probing_build_represents sqc demoPruned 5 [4, 4, 4] (-100) demoPruned_ok (by decide +kernel) (by decide +kernel)
    (fun k k' _ _ hl h => hashOf_sqc_inj k k' hl h) demoPruned_caps

/-- **instance** of `probing_end_to_end`: every `FullScore` from any state valid for its history, on the structure built
from `demoPruned`, equals the ARPA recursion — including the queries answered through the two hallucinated blanks -/
theorem demoPruned_end_to_end (h : List Word) (st : State) (sf : StateFor demoPruned h st) (w : Word)
    (hw : demoPruned.gram [w] ≠ none) :
    ∃ s, build sqc false demoPruned 5 [4, 4, 4] (-100) = .ok s ∧
      (fullScore (KV.ProbingLM.search sqc (toPLM false demoPruned.order s)) st w).1.prob = score demoPruned h w :=
  probing_end_to_end sqc demoPruned 5 [4, 4, 4] (-100) demoPruned_ok (by decide +kernel) (by decide +kernel)
    (fun k k' _ _ hl h => hashOf_sqc_inj k k' hl h) demoPruned_caps
    (fun g g' hl _ h => hashOf_sqc_inj g g' hl h) h st sf w hw

/-! ### `MaxRestBuild` (`RestProbingModel`, REST_MAX): models without blanks -/

/-- **`probing_rest_build_closed_partial`** — `build … (rest := true)` (lm/value_build.hh `MaxRestBuild`: `SetRest`,
`MarkExtends` raising `rest`, `kMarkEvenLower`/`MarkLower`) on every proper loadable ARPA **in which no blank is
hallucinated** (`ClsC`: every n-gram of order ≥ 3 has its immediate suffix, i.e. suffix-closed models) and whose
`<unk>` unigram is in the file (`unkHallucinated = false`; `hcount`: the vocabulary is the set of unigram lines).
The builder returns `.ok s`, and `InvT`: every table and the unigram array of `s` hold for each stored key `k` the
payload of the `NoRestBuild` run (`wantAll`: probability, back-off, sign bit, extension bit — the content of
`probing_build_represents`) **with `rest = restOf a Sf k`**, the maximum of `val a k` (the key's own probability) and
`val a k'` over all stored n-grams `k'` having `k` as reversed prefix, i.e. the n-grams that extend `k` to the left,
transitively = `max(prob, max over left extensions' rest)`.  Proved through the real loops: `markLower_chain` (early
exit justified by `restOf_mono`), `step_closedT`, the generic fold `inv_fold_gen`.
Partial: (1) blank chains under `MaxRestBuild` (the `fillBlanks`/`markChain` loops with `rest = true`) are not covered;
(2) the statement is at the payload level (`InvT` + `Final`), not yet repackaged as `Represents` with a rest function,
so the corollary "`FullScore.rest` = `restOf`" is not stated; see design_notes/C03.md, round 10. -/
theorem probing_rest_build_closed_partial (combine : Nat → Word → Nat) (a : Arpa) (nWords : Nat) (buckets : List Nat) (um : Rat)
    (ok : ArpaOK' a nWords um) (hu : a.unkHallucinated = false)
    (hcount : nWords ≤ (a.entries.filter fun p => p.1.length == 1).length)
    (hcls : ∀ q ∈ ngramLines a, ClsC a q.1)
    (hsorted : (ngramLines a).Pairwise (fun p q => p.1.length ≤ q.1.length))
    (hdist : (a.entries.map (·.1)).Nodup)
    (hinj : ∀ k k', IsKey a k → IsKey a k' → k.length = k'.length → hashOf combine k = hashOf combine k' → k = k')
    (hcaps : ∀ m, (keysOf (foldKeys [] (ngramLines a)) m).length < capOf buckets m) :
    ∃ s, build combine true a nWords buckets um = .ok s ∧
      InvT combine a nWords (capOf buckets) (foldKeys [] (ngramLines a)) s ∧ Final a (foldKeys [] (ngramLines a)) :=
  build_rest_inv_closed combine a nWords buckets um ok hu hcount hcls hsorted hdist hinj hcaps

/-- what `InvT` says about one stored n-gram: it is found (its hash maps to an index) and the payload at that index is the
`NoRestBuild` payload with `rest = restOf` -/
theorem probing_rest_payload (combine : Nat → Word → Nat) (a : Arpa) (nWords : Nat) (caps : Nat → Nat) (Sf : List Key) (s : St)
    (inv : InvT combine a nWords caps Sf s) (g : Key) (hg : g ∈ Sf) (h2 : 2 ≤ g.length) (hN : g.length ≤ a.order) :
    ∃ M j, OrdInv (tbl a.order s g.length) M ∧ M (hashOf combine g) = some j ∧
      (tbl a.order s g.length).pay.getD j default = { (wantW a Sf g) with rest := restOf a Sf g } := by
  obtain ⟨M, hP⟩ := inv.tabs g.length h2 hN
  obtain ⟨j, hj, hje, hM⟩ := hP.find_mem g ((mem_keysOf Sf _ g).mpr ⟨hg, rfl⟩)
  refine ⟨M, j, hP.inv, hM, ?_⟩
  rw [hP.pay j hj, hje]
  have hne : ¬ g.length = 1 := by omega
  simp [wantT, wantAll, hne]

/-- … and about a unigram: `rest` of a word is the maximum over the word's probability and all stored n-grams ending in it -/
theorem probing_rest_unigram (combine : Nat → Word → Nat) (a : Arpa) (nWords : Nat) (caps : Nat → Nat) (Sf : List Key) (s : St)
    (inv : InvT combine a nWords caps Sf s) (w : Word) :
    s.uni.getD w default = { (expU Sf w ((initUni a nWords).getD w default)) with rest := restOf a Sf [w] } := by
  rw [inv.uni w]
  simp [wantT, wantAll]

/-- `restOf` is an upper bound of the probabilities of the key and of everything stored that extends it to the left, and
it is the least one (it is their maximum) -/
theorem restOf_is_max (a : Arpa) (S : List Key) (k : Key) :
    val a k ≤ restOf a S k ∧ (∀ k' ∈ S, k <+: k' → val a k' ≤ restOf a S k) ∧
    (∀ B, val a k ≤ B → (∀ k' ∈ S, k <+: k' → val a k' ≤ B) → restOf a S k ≤ B) :=
  ⟨restOf_ge_self a S k, fun k' hk hp => restOf_ge_mem a S k k' hk hp, fun B h0 h => restOf_le a S k B h0 h⟩

/-! ### REST_MAX end to end for models without blanks -/

/-- **`probing_rest_build_represents_closed`** — `probing_rest_build_closed_partial` repackaged: the structure built with
`MaxRestBuild` **represents** `Table.build a` with the rest function `R := restOf a Sf` (`Sf` = the keys of the table):
`RepresentsR` = `Represents` with `rest = R g` in every payload (and `R [w]` for unigrams). -/
theorem probing_rest_build_represents_closed (combine : Nat → Word → Nat) (a : Arpa) (nWords : Nat) (buckets : List Nat) (um : Rat)
    (ok : ArpaOK' a nWords um) (hu : a.unkHallucinated = false)
    (hcount : nWords ≤ (a.entries.filter fun p => p.1.length == 1).length)
    (hcls : ∀ q ∈ ngramLines a, ClsC a q.1)
    (hsorted : (ngramLines a).Pairwise (fun p q => p.1.length ≤ q.1.length))
    (hdist : (a.entries.map (·.1)).Nodup)
    (hinj : ∀ k k', IsKey a k → IsKey a k' → k.length = k'.length → hashOf combine k = hashOf combine k' → k = k')
    (hcaps : ∀ m, (keysOf (foldKeys [] (ngramLines a)) m).length < capOf buckets m) :
    ∃ s Mmid Mlong, build combine true a nWords buckets um = .ok s ∧
      RepresentsR combine (toPLM true a.order s) (Table.build a) (restOf a (foldKeys [] (ngramLines a))) Mmid Mlong := by
  obtain ⟨s, hb, inv, ffin⟩ := build_rest_inv_closed combine a nWords buckets um ok hu hcount hcls hsorted hdist hinj hcaps
  obtain ⟨Mmid, Mlong, rep⟩ := representsR_of_invT combine a nWords um ok hu (capOf buckets) _ ffin s inv
  exact ⟨s, Mmid, Mlong, hb, rep⟩

/-- **`probing_rest_refines`** — a probing structure with rest costs that `RepresentsR` the table answers `FullScore` exactly
like `KV.Left.restSearch T R`, the search over the abstract table whose `Rest()` is `R`.  C08's theorems (`extendLeft_eq`,
`any_derivation`, `reveal_*` …) are stated over `restSearch T R` for an arbitrary `R`: with this refinement they apply to the
built `RestProbingModel` with `R := restOf a Sf`. -/
theorem probing_rest_refines (combine : Nat → Word → Nat) (P : KV.ProbingLM.PLM) (T : Table) (R : List Word → Rat)
    (Mmid : Nat → Nat → Option Nat) (Mlong : Nat → Option Nat)
    (rep : RepresentsR combine P T R Mmid Mlong) (inj : HashInjective combine T) (hN : 2 ≤ T.order) (s : State) (w : Word) :
    (fullScore (KV.ProbingLM.search combine P) s w).1.prob = (fullScore (KV.Left.restSearch T R) s w).1.prob ∧
    (fullScore (KV.ProbingLM.search combine P) s w).1.ngramLength = (fullScore (KV.Left.restSearch T R) s w).1.ngramLength ∧
    (fullScore (KV.ProbingLM.search combine P) s w).1.independentLeft = (fullScore (KV.Left.restSearch T R) s w).1.independentLeft ∧
    (fullScore (KV.ProbingLM.search combine P) s w).1.rest = (fullScore (KV.Left.restSearch T R) s w).1.rest ∧
    (fullScore (KV.ProbingLM.search combine P) s w).2 = (fullScore (KV.Left.restSearch T R) s w).2 :=
  fullScore_sim _ _ _ (probing_simR combine P T R Mmid Mlong rep inj hN)
    (by show 2 ≤ P.order; rw [rep.order]; exact hN) s w

/-- **`probing_rest_end_to_end_closed`** — REST_MAX end to end for models without blanks: on the structure `build … true`
produces, `FullScore` returns the ARPA recursion as probability, and its `rest` is `restOf a Sf` of the longest matching
n-gram `w :: ctx.take c0` (whenever that is not of the highest order, where the code returns `rest = prob`): the maximum
of that n-gram's probability and the probabilities of all n-grams of the model that extend it to the left. -/
theorem probing_rest_end_to_end_closed (combine : Nat → Word → Nat) (a : Arpa) (nWords : Nat) (buckets : List Nat) (um : Rat)
    (ok : ArpaOK' a nWords um) (hu : a.unkHallucinated = false)
    (hcount : nWords ≤ (a.entries.filter fun p => p.1.length == 1).length)
    (hcls : ∀ q ∈ ngramLines a, ClsC a q.1)
    (hsorted : (ngramLines a).Pairwise (fun p q => p.1.length ≤ q.1.length))
    (hdist : (a.entries.map (·.1)).Nodup)
    (hinj : ∀ k k', IsKey a k → IsKey a k' → k.length = k'.length → hashOf combine k = hashOf combine k' → k = k')
    (hcaps : ∀ m, (keysOf (foldKeys [] (ngramLines a)) m).length < capOf buckets m)
    (inj : HashInjective combine (Table.build a))
    (h : List Word) (st : State) (sf : StateFor a h st) (w : Word) (hw : a.gram [w] ≠ none) :
    ∃ s, build combine true a nWords buckets um = .ok s ∧
      (fullScore (KV.ProbingLM.search combine (toPLM true a.order s)) st w).1.prob = score a h w ∧
      ∃ c0, (fullScore (KV.ProbingLM.search combine (toPLM true a.order s)) st w).1.ngramLength = 1 + c0 ∧
        (1 + c0 < a.order →
          (fullScore (KV.ProbingLM.search combine (toPLM true a.order s)) st w).1.rest =
            restOf a (foldKeys [] (ngramLines a)) (w :: (st.words.take st.length).take c0)) := by
  obtain ⟨s, Mmid, Mlong, hb, rep⟩ := probing_rest_build_represents_closed combine a nWords buckets um ok hu hcount hcls hsorted
    hdist hinj hcaps
  obtain ⟨hp, hl, _, hr, _⟩ := probing_rest_refines combine _ _ _ Mmid Mlong rep inj ok.wf.order_ge st w
  have hne : (Table.build a).lookup [w] ≠ none := by
    rw [build_lookup_ne_none]; exact ⟨by simp, Or.inl hw⟩
  obtain ⟨t, ht⟩ := Option.ne_none_iff_exists'.mp hne
  obtain ⟨c0, _, hlen, _, hrest⟩ := KV.Left.fullScore_rest_spec (Table.build a) (restOf a (foldKeys [] (ngramLines a)))
    (build_tableFor a ok.wf _).toTableOK st w t ht
  refine ⟨s, hb, ?_, c0, by rw [hl]; exact hlen, fun hlt => by rw [hr]; exact hrest hlt⟩
  rw [hp, (KV.Left.fullScore_sim (Table.build a) _ st w).1]
  exact KV.C01.fullScore_prob a ok.wf (fun _ => false) h st sf w hw

/-- **`probing_rest_is_maxRest`** — the rest function proved for the built structure is `KV.Left.maxRest (Table.build a) Sf`,
the definition of `MaxRestBuild`'s rest costs C08 works with (maximum of `prob` over the entry and all table entries having it
as a reversed prefix) -/
theorem probing_rest_is_maxRest (a : Arpa) (wf : WellFormed a) (Sf : List Key) (f : Final a Sf) (g : Key)
    (hg : (Table.build a).lookup g ≠ none) : restOf a Sf g = KV.Left.maxRest (Table.build a) Sf g :=
  restOf_eq_maxRest a wf Sf f g hg

/-- **Blank chains under `MaxRestBuild`, operational part up to `AdjustLower` (partial).**  For a line with `L ≥ 1` missing
suffixes over a basis of order `b`, from any state described by a key-indexed payload function `want0`: insertion,
`FindLower` and `AdjustLower` with `rest = true` succeed and leave the payloads `want1` (blanks appended, line inserted)
updated by `fillUsT` (blank probabilities filled bottom-up, each blank's `rest` = its probability) and `markUsT`
(`MarkExtends` along the chain with the chained `longerRest`, starting from the line's `rest`).  Loop lemmas
`fillBlanks_chainT`, `markChain_chainT`, `adjustLower_chainT`.  Not proved: the `MarkLower`/`activate` tail on this state
(`markLower_chain` applies once monotonicity of the intermediate `rest` values is shown) and the key-level evaluation
(`rest` of a new blank = maximum over the chain above it), hence no `probing_rest_build_represents` for models with blanks. -/
theorem probing_rest_chain_adjust_partial (combine : Nat → Word → Nat) (a : Arpa) (u0 : List W) (N : Nat) (caps : Nat → Nat)
    (S : List Key) (s : St) (want0 : Key → W) (h : StP combine N caps u0.length s (keysOf S) want0) (si : SInv a S)
    (p : Key) (e : Entry) (lc : LC combine a u0 N caps S p e) (b L : Nat) (hb : 1 ≤ b) (hL : 1 ≤ L) (hpl : p.length = b + L + 1)
    (hbasis : b = 1 ∨ p.take b ∈ S) (hmiss : ∀ j, b < j → j ≤ b + L → p.take j ∉ S)
    (hcapn : (keysOf S (b + L + 1)).length + 1 < caps (b + L + 1))
    (hcapj : ∀ j, b < j → j ≤ b + L → (keysOf S j).length + 1 < caps j) :
    ∃ s3 Ks' want1,
      (insPhase combine N s p e >>= fun s1 => findLower combine p (p.length - 2) s1 [] >>= fun r =>
        adjustLower combine true (lineW e).rest p p.length r.2 r.1) = .ok s3 ∧
      (∀ m, Ks' m = if b < m ∧ m ≤ b + L then keysOf (S ++ [p]) m ++ [p.take m] else keysOf (S ++ [p]) m) ∧
      (∀ k, want1 k = if b < k.length ∧ k.length ≤ b + L ∧ k = p.take k.length then blankW else updW want0 p (lineW e) k) ∧
      StP combine N caps u0.length s3 Ks'
        (applyUpd (applyUpd want1 (fillUsT want1 p L b (-(want1 (p.take b)).mag)))
          (markUsT (applyUpd want1 (fillUsT want1 p L b (-(want1 (p.take b)).mag))) (chainKeys p b L) (lineW e).rest)) :=
  addLine_chainT_adjust combine a u0 N caps S s want0 h si p e lc b L hb hL hpl hbasis hmiss hcapn hcapj

/-- **`probing_rest_chain_line_partial`** — a line with a blank chain of any length under `MaxRestBuild`, complete operational
statement: from any state satisfying the `MaxRestBuild` invariant `InvT`, `addLine … true` (insertion, `FindLower`,
`AdjustLower`, **`MarkLower` below the basis**, `activate`) returns `.ok`, appends the `L` blanks and the line, and leaves the
explicit payload function `w5T` in every table and the unigram array.  `MarkLower` is discharged by `markLower_chain`: the
prefixes below the basis are untouched by `AdjustLower` (`CH.w3_low`), their `rest` is monotone (`restOf_mono`) and their
sign bits are clear. -/
theorem probing_rest_chain_line_partial {combine : Nat → Word → Nat} {a : Arpa} {nWords : Nat} {um : Rat} {caps : Nat → Nat}
    {S : List Key} {p : Key} {e : Entry} {b L : Nat} (ch : CH combine a nWords um caps S p e b L) (s : St)
    (h : InvT combine a nWords caps S s) :
    ∃ s5 Ks', addLine combine true a.order s p e = .ok s5 ∧
      (∀ m, Ks' m = if b < m ∧ m ≤ b + L then keysOf (S ++ [p]) m ++ [p.take m] else keysOf (S ++ [p]) m) ∧
      StP combine a.order caps (initUni a nWords).length s5 Ks' (w5T a (initUni a nWords) S p e b L) :=
  addLine_chainT ch s h

/-- **`probing_rest_chain_nonrest_partial`** — … and on every stored key and every unigram all fields of `w5T` except `rest`
(probability, back-off, sign bit, extension bit) are the ones prescribed for the enlarged key set, i.e. exactly what
`probing_build_represents` needs (`er` forgets `rest`; transfer from the `NoRestBuild` run by `applyUpd_er`).
Open: `(w5T … k).rest = restOf a (addLineKeys S p) k` on chains (new blank: maximum of `val` over the chain above it; basis
and the prefixes below it: max(old `restOf`, that maximum)), hence `stepAllT` and `probing_rest_build_represents` without
`ClsC`. -/
theorem probing_rest_chain_nonrest_partial {combine : Nat → Word → Nat} {a : Arpa} {nWords : Nat} {um : Rat} {caps : Nat → Nat}
    {S : List Key} {p : Key} {e : Entry} {b L : Nat} (ch : CH combine a nWords um caps S p e b L) (k : Key)
    (hk : k ∈ addLineKeys S p ∨ k.length = 1) :
    er (w5T a (initUni a nWords) S p e b L k) = er (wantAll a (initUni a nWords) (addLineKeys S p) k) :=
  ch.w5_nonrest k hk

end KV.C03ProbingBuild
