import Proofs.InterpReal
import Proofs.InterpSpec
import Proofs.InterpVocab
import Proofs.InterpBSE
import Proofs.InterpStream
import Proofs.InterpSorted
import Proofs.InterpPass3
import Proofs.InterpPass1Sorted
import Proofs.InterpKway
import Proofs.InterpBoMat
import Proofs.InterpMergeVocab
/-!
# C13 — Log-linear interpolation is the normalised weighted product of its inputs

Statements over the executable model `Model/Interp.lean`.  Contexts are in natural order
(`c = y :: c'` backs off to `c'`).  `cs : Comps W` are the weighted components `(λᵢ, mᵢ)` already
renumbered to universal word ids, `V` the union vocabulary, `bos` the id of `<s>`.

Generic part: any field `F` with `E : ℚ → F`, `E (a+b) = E a * E b`, `E 0 = 1` (an abstract
`x ↦ 10^x`; all log-space sums are exact rationals).  Real part: `E10 q = 10^q` (`Real.rpow`),
which yields the log-level statements of the property.

**Label: partial.**  The model mirrors the values computed by the three passes
(`merge_probabilities.cc`, `normalize.cc`, `backoff_reunification.cc`), not their streaming
mechanics (sorting, `RewindableStream`, `BoundedSequenceEncoding`, threads, float32/long-double
rounding); those are tied only through the final ARPA output of `bin/interpolate`
(`checks/C13.py`).  The termination clause of the property is *false* for the faithful model on
mixed orders (`abort_witness`), true for equal orders (`equal_orders_not_stuck`).
-/
namespace KV.C13
open KV.Interp

section Generic
variable {W : Type} [DecidableEq W] {F : Type} [Field F]

/-- What the theorems assume about the inputs (all decidable, all checked by `checks/C13.py` on
every generated tuple of lmplz models). -/
structure WellFormed (cs : Comps W) (V : List W) (bos : W) : Prop where
  /-- the union vocabulary lists each word once and contains `<s>` -/
  nodupV : V.Nodup
  bosV : bos ∈ V
  /-- `Σᵢ λᵢ log pᵢ(<s>) = 0` (lmplz writes `p(<s>) = 1`; `normalize.cc` subtracts exactly 1) -/
  bos0 : usum cs [] bos = 0
  /-- predicted words are in `V`; no n-gram of order ≥ 2 predicts `<s>` -/
  entries : EntriesOK cs V bos
  /-- the context of every n-gram is an n-gram -/
  prefixClosed : PrefixClosedD cs

/-- **Telescoping identity.**  The incremental normaliser of `normalize.cc`
`Z(c) = 10^(log Z(c') + B(c)) + Σ_{x explicit after c} (10^{s(x|c)} − 10^{s(x|c') + B(c)})`
equals the defining sum `Σ_{w ∈ V∖{<s>}} 10^{Σᵢ λᵢ scoreᵢ(w|c)}` for every context `c`
(induction on the context; no bound on its length). -/
theorem z_incremental (E : ℚ → F) (hE : IsExp E) (cs : Comps W) (V : List W) (bos : W)
    (wf : WellFormed cs V bos) (c : List W) :
    Zinc E cs V c = Zdirect E cs V bos c :=
  zinc_eq_zdirect E hE cs V bos wf.nodupV wf.bosV wf.bos0 (explicit_ok wf.entries) c

/-- **Formula (linear form).**  The ARPA back-off recursion over the entries written by the tool
gives, for every context `c` (of any length) and every word `w` of the union vocabulary,
`10^(Σᵢ λᵢ scoreᵢ(w|c)) / Z(c)` with the *defining* normaliser. -/
theorem formula (E : ℚ → F) (hE : IsExp E) (cs : Comps W) (V : List W) (bos : W)
    (wf : WellFormed cs V bos) (hZ : ∀ c, Zdirect E cs V bos c ≠ 0)
    (w : W) (hw : ([], w) ∈ unionGrams cs) (c : List W) :
    outScore (interpOut E cs V) c w = E (usum cs c w) / Zdirect E cs V bos c := by
  have hZ' : ∀ c, Zinc E cs V c ≠ 0 := fun c => by rw [z_incremental E hE cs V bos wf c]; exact hZ c
  rw [outScore_interpOut E hE cs V (prefixClosed_of_D wf.prefixClosed) hZ' w hw c,
    z_incremental E hE cs V bos wf c]

/-- **Normalisation.**  Every context's distribution over `V ∖ {<s>}` — as defined by the
written entries and the back-off recursion — sums to one. -/
theorem normalised (E : ℚ → F) (hE : IsExp E) (cs : Comps W) (V : List W) (bos : W)
    (wf : WellFormed cs V bos) (hZ : ∀ c, Zdirect E cs V bos c ≠ 0)
    (hV : ∀ w ∈ V, ([], w) ∈ unionGrams cs) (c : List W) :
    ((V.filter (fun w => decide (w ≠ bos))).map (fun w => outScore (interpOut E cs V) c w)).sum = 1 := by
  have h1 : (V.filter (fun w => decide (w ≠ bos))).map (fun w => outScore (interpOut E cs V) c w) =
      (V.filter (fun w => decide (w ≠ bos))).map
        (fun w => E (usum cs c w) * (Zdirect E cs V bos c)⁻¹) := by
    apply List.map_congr_left
    intro w hw
    rw [formula E hE cs V bos wf hZ w (hV w (List.mem_filter.1 hw).1) c, div_eq_mul_inv]
  rw [h1, List.sum_map_mul_right]
  exact mul_inv_cancel₀ (hZ c)

/-- **Union of the n-gram sets.**  The written model has exactly the n-grams of the components,
each once. -/
theorem ngram_union (E : ℚ → F) (cs : Comps W) (V : List W) :
    ((interpOut E cs V).map (fun e => (e.ctx, e.word))).Nodup ∧
    ∀ c w, (c, w) ∈ (interpOut E cs V).map (fun e => (e.ctx, e.word)) ↔
      ∃ p ∈ cs, ∃ e ∈ p.2.entries, e.ctx = c ∧ e.word = w := by
  have hmap : (interpOut E cs V).map (fun e => (e.ctx, e.word)) = unionGrams cs := by
    unfold interpOut
    rw [List.map_map]
    conv_rhs => rw [← List.map_id (unionGrams cs)]
    apply List.map_congr_left
    intro g _
    rfl
  rw [hmap]
  exact ⟨nodup_unionGrams cs, fun c w => mem_unionGrams⟩

/-- **Single model, weight one.**  If the component is normalised (`Z ≡ 1`), the written model
*is* the component: same value of the back-off recursion for every context and word, every
written probability equals the component's, and the back-off written for a context that has
extensions is the component's back-off. -/
theorem single_identity (E : ℚ → F) (hE : IsExp E) (m : LM W) (V : List W) (bos : W)
    (wf : WellFormed [(1, m)] V bos) (hnorm : ∀ c, Zdirect E [(1, m)] V bos c = 1) :
    (∀ c w, ([], w) ∈ unionGrams [(1, m)] →
      outScore (interpOut E [(1, m)] V) c w = E (m.rawScore c w)) ∧
    (∀ c w, pOut E [(1, m)] V c w = E (m.rawScore c w)) ∧
    (∀ y c, boSame E [(1, m)] V (y :: c) = E (m.boOf (y :: c))) := by
  have hu : ∀ c w, usum [(1, m)] c w = m.rawScore c w := fun c w => by simp [usum]
  have hb : ∀ c, bsum [(1, m)] c = m.boOf c := fun c => by simp [bsum]
  have hZi : ∀ c, Zinc E [(1, m)] V c = 1 := fun c => by
    rw [z_incremental E hE _ V bos wf c]; exact hnorm c
  refine ⟨fun c w hw => ?_, fun c w => ?_, fun y c => ?_⟩
  · rw [formula E hE _ V bos wf (fun c => by rw [hnorm c]; exact one_ne_zero) w hw c, hnorm c, hu]
    simp
  · unfold pOut; rw [hZi, hu]; simp
  · rw [boSame, hZi, hZi, hb]; simp

/-- **Tool score = specified score.**  On components where `<unk>` occurs only as a unigram
without back-off and all words of n-grams have unigrams, the weighted sum the tool forms from
look-ups on universal ids equals the weighted sum of the components' back-off scores with every
word missing from a component mapped to that component's `<unk>`. -/
theorem spec_eq_tool (cs : Comps W) (h : ∀ p ∈ cs, UnkClean p.2) (c : List W) (w : W) :
    usum cs c w = usumSpec cs c w :=
  usum_eq_usumSpec cs h c w

/-- **Formula with the specified component scores** (the statement of the property): the written
model evaluates to `10^(Σᵢ λᵢ scoreᵢ(w|c)) / Σ_{v ∈ V∖{<s>}} 10^(Σᵢ λᵢ scoreᵢ(v|c))` where `scoreᵢ`
maps every word unknown to component `i` to its `<unk>`. -/
theorem formula_spec (E : ℚ → F) (hE : IsExp E) (cs : Comps W) (V : List W) (bos : W)
    (wf : WellFormed cs V bos) (hu : ∀ p ∈ cs, UnkClean p.2)
    (hZ : ∀ c, Zdirect E cs V bos c ≠ 0)
    (w : W) (hw : ([], w) ∈ unionGrams cs) (c : List W) :
    outScore (interpOut E cs V) c w =
      E (usumSpec cs c w) /
        ((V.filter (fun v => decide (v ≠ bos))).map (fun v => E (usumSpec cs c v))).sum := by
  rw [formula E hE cs V bos wf hZ w hw c, spec_eq_tool cs hu]
  unfold Zdirect
  congr 2
  apply List.map_congr_left
  intro v _
  rw [spec_eq_tool cs hu]

/-- **Passes 1+2 refine the back-off recursion.**  The record written by `MergeProbabilities`
(probability of the longest suffix present + the level `from` it was found at) with the back-offs
charged by `Recurse::SameContext` gives: `Prob()` = the weighted back-off score in the full
context (always), and — when every component is suffix closed — `LowerProb()` = the weighted
back-off score in the shorter context, hence the code-shaped normaliser `ZincTool` is `Zinc`. -/
theorem pass12_refines (E : ℚ → F) (cs : Comps W) (V : List W) :
    (∀ c x, toolProb cs c x = usum cs c x) ∧
    ((∀ p ∈ cs, SuffixClosed p.2) →
      (∀ y c x, toolLower cs y c x = usum cs c x) ∧ (∀ c, ZincTool E cs V c = Zinc E cs V c)) :=
  ⟨toolProb_eq_usum cs, fun hs => ⟨toolLower_eq_usum cs hs, zincTool_eq_zinc E cs V hs⟩⟩

/-- **Termination, equal orders.**  If all components have the same order, every union n-gram
below that order gets a back-off record: `ReunifyBackoff` cannot hit
"Streams were not the same size during merging". -/
theorem equal_orders_not_stuck (cs : Comps W) (n : Nat) (h : ∀ p ∈ cs, p.2.order = n) :
    stuck cs = [] :=
  stuck_eq_nil_of_equal_orders cs n h

end Generic

/-! ## The termination clause fails for the faithful model on mixed orders (finding K)

Words: 0 `<unk>`, 1 `<s>`, 2 `</s>`, 3 `a`, 4 `b`.  Component A = `lmplz -o 2` on the corpus "a",
component B = `lmplz -o 3` on the corpus "b" (n-gram sets as produced by lmplz; the values are
irrelevant for the abort).  The bigrams `<s> a` and `a </s>` are at A's top order (so A does not
feed them to the `BackoffManager`), B does not contain them, and no trigram of the union extends
them: pass 2 writes 5 bigram probabilities but 3 bigram back-offs. -/

def witnessA : LM Nat :=
  { order := 2, unk := 0,
    entries := [⟨[], 0, -1, 0⟩, ⟨[], 1, 0, -1⟩, ⟨[], 2, -1, 0⟩, ⟨[], 3, -1, -1⟩,
                ⟨[1], 3, -1, 0⟩, ⟨[3], 2, -1, 0⟩] }

def witnessB : LM Nat :=
  { order := 3, unk := 0,
    entries := [⟨[], 0, -1, 0⟩, ⟨[], 1, 0, -1⟩, ⟨[], 2, -1, 0⟩, ⟨[], 4, -1, -1⟩,
                ⟨[1], 4, -1, -1⟩, ⟨[4], 2, -1, 0⟩, ⟨[1, 4], 2, -1, 0⟩] }

def witness : Comps Nat := [(1/2, witnessA), (1/2, witnessB)]

/-- the concrete witness: two union bigrams are left without a back-off record -/
theorem abort_witness : stuck witness = [[1, 3], [3, 2]] := by decide

/-- **Negation of the termination clause over the model**: it is not true that every tuple of
well-formed components is free of stuck n-grams (replayed on `bin/interpolate` by the check:
exit 134). -/
theorem termination_fails_mixed_orders :
    ¬ ∀ cs : Comps Nat, WellFormed cs [0, 1, 2, 3, 4] 1 → stuck cs = [] := by
  intro h
  have hw : WellFormed witness [0, 1, 2, 3, 4] 1 :=
    { nodupV := by decide
      bosV := by decide
      bos0 := by decide +kernel
      entries := by unfold EntriesOK; decide
      prefixClosed := by unfold PrefixClosedD; decide }
  have := h witness hw
  rw [abort_witness] at this
  exact List.cons_ne_nil _ _ this

/-- Suffix closure is *needed* for `LowerProb()`: a component with the trigram `a b x` but without
the bigram `b x` (words 3 `a`, 4 `b`, 5 `x`; `b` has back-off −1/2).  The code charges nothing to
the lower probability because the full n-gram was found, although the shorter context backs off. -/
def notSuffixClosed : LM Nat :=
  { order := 3, unk := 0,
    entries := [⟨[], 0, -2, 0⟩, ⟨[], 3, -1, -1/4⟩, ⟨[], 4, -1, -1/2⟩, ⟨[], 5, -1, 0⟩,
                ⟨[3], 4, -1/2, -1/8⟩, ⟨[3, 4], 5, -1/4, 0⟩] }

theorem toolLower_needs_suffix_closure :
    toolLower [(1, notSuffixClosed)] 3 [4] 5 = -1 ∧ usum [(1, notSuffixClosed)] [4] 5 = -3/2 := by
  constructor <;> decide +kernel

/-! ## Union vocabulary and renumbering -/

/-- **Union vocabulary.**  The universal vocabulary lists every word of every component (and
`<unk>`) exactly once and nothing else; the universal id of a local id denotes the same string,
renumbering is injective on a component's vocabulary, and all components' `<unk>` coincide. -/
theorem vocab_union (ms : List LocalLM) :
    (unionVocab ms).Nodup ∧
    (∀ s, s ∈ unionVocab ms ↔ s = "<unk>" ∨ ∃ m ∈ ms, s ∈ m.vocab) ∧
    (∀ m ∈ ms, ∀ i (hi : i < m.vocab.length),
      (unionVocab ms)[toUniv (unionVocab ms) m.vocab i]? = some m.vocab[i]) ∧
    (∀ m ∈ ms, m.vocab.Nodup → ∀ i j, i < m.vocab.length → j < m.vocab.length →
      toUniv (unionVocab ms) m.vocab i = toUniv (unionVocab ms) m.vocab j → i = j) ∧
    (∀ m ∈ ms, m.vocab[0]? = some "<unk>" →
      toUniv (unionVocab ms) m.vocab 0 = (unionVocab ms).idxOf "<unk>") :=
  ⟨nodup_unionVocab ms, fun _ => mem_unionVocab, fun _ hm _ hi => unionVocab_toUniv hm hi,
    fun _ hm hnd _ _ hi hj h => toUniv_inj hm hnd hi hj h, fun _ _ h0 => toUniv_unk _ h0⟩

/-- **Union n-gram set, from the files.**  The n-grams written for components read from
intermediate files (local ids + vocabularies) are exactly the renumbered n-grams of the
components. -/
theorem ngram_union_renumbered {F : Type} [Field F] (E : ℚ → F) (ms : List LocalLM) (ls : List ℚ)
    (hl : ls.length = ms.length) (V : List Nat) (c : List Nat) (w : Nat) :
    (c, w) ∈ (interpOut E (globalizeAll ms ls) V).map (fun e => (e.ctx, e.word)) ↔
      ∃ m ∈ ms, ∃ e ∈ m.entries, e.ctx.map (toUniv (unionVocab ms) m.vocab) = c ∧
        toUniv (unionVocab ms) m.vocab e.word = w := by
  rw [(ngram_union E (globalizeAll ms ls) V).2 c w, mem_globalizeAll_entries ms ls hl]

/-! ## `BoundedSequenceEncoding` (the `from` vector inside a pass-1 record) -/

/-- **Round trip of the `from` encoding.**  For every vector of bounds (`unsigned char`) and every
value vector strictly below its bounds — the contract under which `merge_probabilities.cc` calls it,
`fromᵢ < min(order, orderᵢ)` — `Decode(Encode(v)) = v`; any number of entries, hence any number of
64-bit words. -/
theorem bse_roundtrip (bounds vs : List Nat) (hb : ∀ b ∈ bounds, b < 256)
    (hv : BSE.Below bounds vs) : BSE.decode bounds (BSE.encode bounds vs) = vs :=
  BSE.decode_encode bounds vs hb (BSE.fits_of_below bounds vs 0 hv)

/-- **No shift by 64.**  The C++ `Encode`/`Decode` shift a `uint64_t` by `entry.shift`; that is
defined behaviour iff every shift is < 64.  It holds whenever all bounds are ≥ 2 (all components
and the record have order ≥ 2) and for unigram records (all bounds 1) … -/
theorem bse_no_ub (bounds : List Nat) :
    ((∀ b ∈ bounds, 2 ≤ b ∧ b < 256) → BSE.ubFree bounds = true) ∧
    (∀ n, BSE.ubFree (List.replicate n 1) = true) :=
  ⟨BSE.ubFree_of_two_le bounds, BSE.ubFree_replicate_one⟩

/-- … but **fails** when a zero-width field (a component of order 1) follows a completely full
word: 32 components of order ≥ 2 at n-gram order 2 (2 bits each) and one unigram model.  The model
then asks for `<< 64`, which is undefined behaviour in the C++ (UBSan: "shift exponent 64"; benign
on x86).  Replayed on the real header by the check (known finding / `repo_patches`). -/
theorem bse_shift64_witness : BSE.ubFree (List.replicate 32 2 ++ [1]) = false := by decide

/-- non-vacuity: 25 entries of width 3 bits cross a 64-bit word boundary -/
example : BSE.Below (List.replicate 25 6) (List.replicate 25 5) := by decide
example : BSE.byteLength (List.replicate 25 6) = 10 := by decide

/-! ## Pass 1 as a stream recursion -/

/-- **Pass 1 on `SuffixOrder`-sorted streams.**  `handleSuffix` is the code's `HandleSuffix` (the
same generic stream recursion as pass 2, one record per n-gram, inherited attribute = the
per-component `(λᵢ·prob, from)` fallback; the k-way choice of the minimum among the component
streams is abstracted into one merged stream per order).  For a union closed under dropping the
first word, run on the `SuffixOrder`-sorted n-gram streams of the orders `1 … D+1` and started with
the components' `<unk>` as fallback, it consumes every n-gram and writes `p1Rec` for each … -/
theorem pass1_on_sorted_streams (cs : Comps Nat) (h : UnionSuffixClosed cs) (D fuel : Nat)
    (hfuel : needE (sortedYg cs) D (sortedYg cs []) [] ≤ fuel) :
    handleSuffix cs fuel ((List.range (D + 1)).map (fun j => p1Stream cs (j + 1))) [] (mergeFb cs []) =
      (List.replicate (D + 1) [], (sortedYg cs []).flatMap (fun y => specP1 cs (sortedYg cs) D [y])) :=
  pass1_sorted cs h D fuel hfuel

/-- … and `p1Rec` carries exactly what pass 2 starts from: `Prob()` = Σᵢ λᵢ·(probability of the longest
suffix of the n-gram in component i) and the `from` levels (`LM.merge`; cf. `pass12_refines`, where
the back-offs charged according to `from` turn this into the weighted back-off score). -/
theorem pass1_record_values {W : Type} [DecidableEq W] (cs : Comps W) (c : List W) (w : W) :
    (p1Rec cs (c ++ [w])).prob = (cs.map (fun p => p.1 * (p.2.merge c w).1)).sum ∧
    (p1Rec cs (c ++ [w])).from_ = cs.map (fun p => (p.2.merge c w).2) :=
  p1Rec_values cs c w

/-! ## Pass 2 as a stream recursion -/

/-- **Pass 2 refines the functional model.**  `sameCtx` / `extendCtx` are the code's
`Recurse::SameContext` / `ExtendContext`: one stream per order (order 2 first), records consumed
from the heads, `z` handed down as `z_lower`.  If the streams have the grouped shape of
`ContextOrder`-sorted, suffix-closed input — below every context `c` first its own records `X c`,
then, for each left extension `y ∈ Y c` in a common order, the subtree of `y :: c` — then, started
as `Thread::Run` starts it, the recursion (with `needE` fuel) leaves every stream empty and writes,
in stream order, `pOut` for every record and `boSame` for every context: exactly the values of the
functional model (`formula`, `normalised` speak about those).  Any depth `D`, any width.
What remains outside: that the sort of pass 2 delivers this shape (checked on every generated case
by the driver: `levelsE … = sortedStream …`), pass 1's stream merge, pass 3's zip. -/
theorem pass2_stream_refines {W : Type} [DecidableEq W] {F : Type} [Field F]
    (E : ℚ → F) (cs : Comps W) (V : List W) (X Y : List W → List W)
    (hX : ∀ c, (X c).Perm (explicit cs c)) (D : Nat) (fuel : Nat)
    (hfuel : needE Y D (Y []) [] ≤ fuel)
    (hgood : ∀ y ∈ Y [], X [y] ≠ [] ∧ Good X Y D [y]) (hnd : (Y []).Nodup) :
    extendCtx E cs fuel (levelsE X Y D (Y []) []) [] (Zinc E cs V []) =
      (List.replicate (D + 1) [], (Y []).flatMap (fun y => specOut E cs V X Y D [y])) :=
  pass2_refines E cs V X Y hX D fuel hfuel hgood hnd

/-- **Pass 2 on `ContextOrder`-sorted streams.**  For a union model closed under dropping the first
word (lmplz models are; checked per case), the streams of orders `2 … D+2` sorted in `ContextOrder`
*have* the grouped shape, so the stream recursion of `normalize.cc` run on them consumes every record
and writes exactly `pOut` / `boSame`.  Remaining trust for pass 2: `util::stream::Sort` really sorts
(C16), `RewindableStream`, float rounding. -/
theorem pass2_on_sorted_streams {F : Type} [Field F] (E : ℚ → F) (cs : Comps Nat) (V : List Nat)
    (h : UnionSuffixClosed cs) (D fuel : Nat)
    (hfuel : needE (sortedY cs) D (sortedY cs []) [] ≤ fuel) :
    extendCtx E cs fuel ((List.range (D + 1)).map (fun j => sortedStream cs (j + 2))) []
        (Zinc E cs V []) =
      (List.replicate (D + 1) [],
        (sortedY cs []).flatMap (fun y => specOut E cs V (sortedX cs) (sortedY cs) D [y])) :=
  pass2_sorted cs E V h D fuel hfuel

/-- non-vacuity: a two-level tree (contexts `[1]`, `[3]`, `[1,3]`-style) satisfies `Good` -/
example : Good (fun c => if c.length ≤ 2 then [7, 8] else []) (fun c => if c = [] then [1, 3] else if c = [3] then [1] else [])
    1 [3] := by
  simp [Good]

/-! ## The back-off stream of pass 2 and the zip of pass 3 -/

/-- `SameContext` runs — and calls `BackoffManager::Enter` — exactly for the contexts of the
pre-order listing `ctxPre` of the context tree, in that order (the back-off events of the stream
recursion, cf. `pass2_stream_refines`). -/
theorem visited_contexts {W : Type} [DecidableEq W] {F : Type} [Field F]
    (E : ℚ → F) (cs : Comps W) (V : List W) (X Y : List W → List W) (d : Nat) (c : List W) :
    (specOut E cs V X Y d c).filterMap evCtx = ctxPre Y d c :=
  filterMap_specOut E cs V X Y d c

/-- **Pass 3.**  `backoffStream cs k` models the back-off stream of order `k` as the code produces
it: the merged `BackoffManager` queue (n-grams the components hold below their own top order, in
`SuffixLexicographicLess` order) is consumed against the visited contexts — skipped n-grams get a
record, entered ones get `SameContext`'s — and `Finish()` skips the rest.  For a union closed under
dropping the first / last word:
* it is the `SuffixOrder`-sorted list of the union n-grams of order `k` that `hasBackoffRecord`;
* if nothing is `stuck` it *equals* the n-gram sequence of the sorted probability stream, so
  `ReunifyBackoff` zips every probability with the back-off of the same n-gram;
* if an n-gram of order `k` is `stuck` it is strictly shorter: the zip throws
  "Streams were not the same size during merging" (finding K, derived rather than postulated). -/
theorem pass3_zip (cs : Comps Nat) (hsc : UnionSuffixClosed cs) (hpc : PrefixClosedD cs) :
    (∀ k, 1 ≤ k → k < maxOrder cs →
      backoffStream cs k = (probStream3 cs k).filter (hasBackoffRecord cs)) ∧
    (stuck cs = [] → ∀ k, 1 ≤ k → k < maxOrder cs → backoffStream cs k = probStream3 cs k) ∧
    (∀ g ∈ stuck cs, 1 ≤ g.length →
      (backoffStream cs g.length).length < (probStream3 cs g.length).length) :=
  ⟨fun k h1 h2 => backoffStream_eq cs hsc hpc k h1 h2,
   fun hst k h1 h2 => backoffStream_aligned cs hsc hpc hst k h1 h2,
   fun g hg h1 => backoffStream_short cs hsc hpc g hg h1⟩

/-- the witness of finding K at the stream level: for the two components of `abort_witness` the
bigram back-off stream is strictly shorter than the bigram probability stream -/
theorem pass3_throws_on_witness :
    (backoffStream witness 2).length < (probStream3 witness 2).length := by
  have hsc : UnionSuffixClosed witness := by unfold UnionSuffixClosed; decide
  have hpc : PrefixClosedD witness := by unfold PrefixClosedD; decide
  have hmem : [1, 3] ∈ stuck witness := by rw [abort_witness]; simp
  exact (pass3_zip witness hsc hpc).2.2 [1, 3] hmem (by simp)

/-! ## Round 3: the component streams, the back-off matrix, the vocabulary merge -/

/-- **Pass 1 with the component streams kept apart** (`NGramHandler::active_`, the `minimum` loop
of `HandleSuffix`).  `initActs cs k` is what the constructor builds from the component files: one
active entry per component that has n-grams of order `k`, tagged with its *model number*, holding
the component's own `SuffixOrder`-sorted stream.  For a union closed under dropping the first word,
`handleK` (smallest first word among the heads that end in the suffix; every stream whose head is
that n-gram contributes at its model number and is advanced; recursion; loop) consumes all
component streams of all orders and writes, in `SuffixOrder`, one record per union n-gram with
exactly the values of the functional model (`p1Rec`, cf. `pass1_record_values`). -/
theorem pass1_kway (cs : Comps Nat) (h : UnionSuffixClosed cs) (D fuel : Nat)
    (hfuel : needE (sortedYg cs) D (sortedYg cs []) [] ≤ fuel) :
    handleK (cs.map (·.1)) fuel ((List.range (D + 1)).map (fun j => initActs cs (j + 1))) []
        (mergeFb cs []) =
      (List.replicate (D + 1) [],
        (sortedYg cs []).flatMap (fun y => specP1 cs (sortedYg cs) D [y])) := by
  have := pass1_kway_sorted cs h D fuel hfuel
  simp only [initActs_eq]
  exact this

/-- **the merged stream the k-way selection produces**: when the head of the merged
(`SuffixOrder`-sorted union) stream is `gram`, the `minimum` loop picks it, and advancing returns as
contributors exactly the components that have `gram` — each under its own model number, with its
own probability — and leaves every component stream at the view of the rest of the merged stream. -/
theorem kway_selects_head (cs : Comps Nat) (y w : Nat) (g : List Nat) (M' : List (Rec Nat))
    (hhas : HasGram cs (y :: g)) (hge : ∀ r ∈ M', ∀ z, r.1 = z :: g → y ≤ z)
    (hne : ∀ r ∈ M', r.1 ≠ y :: g) :
    minFirst (actsOf cs ((y :: g, w) :: M')) g = some y ∧
    advance (actsOf cs ((y :: g, w) :: M')) (y :: g) = (contribFrom cs 0 (y :: g), actsOf cs M') ∧
    (∀ i, (contribFrom cs 0 (y :: g)).lookup i =
      (cs[i]?).bind (fun p => (p.2.findGram (y :: g)).map (fun e => e.prob))) ∧
    applyContrib (cs.map (·.1)) (mergeFb cs g) (contribFrom cs 0 (y :: g)) g.length = mergeFb cs (y :: g) :=
  ⟨minFirst_actsOf cs y w g M' hhas hge, advance_actsOf cs (y :: g) w M' hne,
    fun i => by rw [lookup_contribFrom]; simp, applyContrib_mergeFb cs y g⟩

/-- **seeded change C13-3 breaks `kway_selects_head`.**  Tagging a stream with its position among
the components that *have* the order (instead of its model number): for the two components of
`abort_witness` (a bigram model listed before a trigram model) the trigram `<s> b </s>` is
contributed under model number 0 instead of 1, and `probs[]`/`from[]` are overwritten for the wrong
component. -/
theorem c13_3_wrong_model_index :
    (advance (actsOfMut witness 3 [([1, 4, 2], 0)]) [1, 4, 2]).1 = [(0, -1)] ∧
    contribFrom witness 0 [1, 4, 2] = [(1, -1)] ∧
    applyContrib (witness.map (·.1)) (mergeFb witness [4, 2])
        (advance (actsOfMut witness 3 [([1, 4, 2], 0)]) [1, 4, 2]).1 2 ≠ mergeFb witness [1, 4, 2] := by
  refine ⟨by decide +kernel, by decide +kernel, by decide +kernel⟩

/-- **`BackoffManager::Get`.**  `pathMat cs K c` is the `BackoffMatrix` while `SameContext(c)` runs
(flat `backing_[model * max_order + level]`; the suffixes of `c` entered one per level, `Enter`
copying the back-off of the streams whose head is the context).  Then `Get(i, l)` is component
`i`'s back-off for the suffix of `c` of length `l + 1` — 0 unless the component has it below its
own top order — and 0 from level `|c|` upwards; `Exit` after `Enter` restores every cell. -/
theorem backoff_matrix_get {W : Type} [DecidableEq W] (cs : Comps W) (K : Nat) (c : List W)
    (hK : c.length ≤ K) :
    (∀ i l (hi : i < cs.length), l < K →
      (pathMat cs K c).get i l = if l < c.length then (cs[i]).2.boOf (sufOf c (l + 1)) else 0) ∧
    (∀ y, (y :: c).length ≤ K → ∀ i l, i < cs.length → l < K →
      (exitMat cs (enterMat cs (pathMat cs K c) (y :: c)) (y :: c)).get i l = (pathMat cs K c).get i l) := by
  obtain ⟨hW, hG⟩ := get_pathMat cs K c hK
  refine ⟨hG, fun y hy i l hi hl => ?_⟩
  apply get_exit_enter cs _ K (y :: c) hW (by simp) hy _ i l hi hl
  intro j
  by_cases hj : j < cs.length
  · rw [hG j _ hj (by simp at hy ⊢; omega)]; simp
  · exact get_out_of_range hW (by omega)

/-- **the charging loop of `SameContext`** (`for backed_to = from … order-3: accumulated +=
Get(m, backed_to)`, then `Get(m, order-2)` if `from < order-1`) adds `LM.charge c from` to `Prob()`
and `LM.charge c.tail from` to `LowerProb()` — the quantities of `pass12_refines`. -/
theorem charging_loop {W : Type} [DecidableEq W] (cs : Comps W) (K : Nat) (c : List W)
    (hK : c.length ≤ K) (i : Nat) (hi : i < cs.length) (from_ : Nat) :
    (chargeLoop (pathMat cs K c) i from_ c.length).2 = (cs[i]).2.charge c from_ ∧
    (chargeLoop (pathMat cs K c) i from_ c.length).1 = (cs[i]).2.charge c.tail from_ :=
  chargeLoop_pathMat cs K c hK i hi from_

/-- a component with distinct back-offs at the levels 1, 2, 3 (words 3 `a`, 4 `b`, 5 `c`) -/
def boLevels : LM Nat :=
  { order := 5, unk := 0,
    entries := [⟨[], 0, -2, 0⟩, ⟨[], 5, -1, -1/2⟩, ⟨[4], 5, -1, -1/4⟩, ⟨[3, 4], 5, -1, -1/8⟩] }

/-- **seeded change C13-5 breaks `charging_loop`.**  `Get(m, found)` instead of `Get(m, backed_to)`:
for the context `a b c` and a component found at level 0 the loop must charge
`b(c) + b(b c) + b(a b c) = -7/8`; the mutated loop charges `b(c)` twice: `-9/8`. -/
theorem c13_5_wrong_level :
    (chargeLoop (pathMat [(1, boLevels)] 4 [3, 4, 5]) 0 0 3).2 = -7/8 ∧
    boLevels.charge [3, 4, 5] 0 = -7/8 ∧
    (chargeLoopMut (pathMat [(1, boLevels)] 4 [3, 4, 5]) 0 0 3).2 = -9/8 := by
  refine ⟨by decide +kernel, by decide +kernel, by decide +kernel⟩

/-- **`MergeVocab`: universal ids and the per-model id maps.**  `mergeVocabLoop pops 0 0` is the
`while (!heap.empty())` loop on the pops in heap order.  For *any* hash function (`hash` fields) and
*any* tie order of the heap, as long as the pops come in non-decreasing hash order and no hash is 0:
two `(model, local id)` pairs are mapped to the same universal id iff their hashes are equal, ids are
monotone in the hash, lie in `1 … #pops`; with a hash that is injective on the words at hand, same
universal id ⇔ same word (so `Renumber` identifies exactly the equal words; 0 stays `<unk>`). -/
theorem merge_vocab_ids (pops : List VPop) (hs : pops.Pairwise (fun a b => a.hash ≤ b.hash))
    (hpos : ∀ p ∈ pops, 0 < p.hash) :
    (∀ a ∈ mergeVocabLoop pops 0 0, ∀ b ∈ mergeVocabLoop pops 0 0,
      (a.hash = b.hash ↔ a.univ = b.univ) ∧ (a.hash < b.hash ↔ a.univ < b.univ) ∧ 1 ≤ a.univ ∧
      a.univ ≤ pops.length) ∧
    (∀ (H : String → Nat) (wordOf : Nat → Nat → String),
      (∀ p ∈ pops, p.hash = H (wordOf p.model p.loc)) →
      (∀ p ∈ pops, ∀ q ∈ pops, H (wordOf p.model p.loc) = H (wordOf q.model q.loc) →
        wordOf p.model p.loc = wordOf q.model q.loc) →
      ∀ a ∈ mergeVocabLoop pops 0 0, ∀ b ∈ mergeVocabLoop pops 0 0,
        (a.univ = b.univ ↔ wordOf a.model a.loc = wordOf b.model b.loc)) :=
  ⟨mergeVocab_ids pops hs hpos, fun H wordOf hH hinj a ha b hb =>
    (mergeVocab_words H wordOf pops hs (fun p hp => ⟨hH p hp, hpos p hp⟩) hinj a ha b hb).1⟩

/-- non-vacuity / the zero-hash corner: a word whose hash is 0 is merged into `<unk>` (id 0) -/
example : mergeVocabLoop [⟨0, 0, 1⟩, ⟨5, 1, 1⟩, ⟨5, 0, 2⟩, ⟨9, 1, 2⟩] 0 0 =
    [⟨0, 0, 1, 0⟩, ⟨5, 1, 1, 1⟩, ⟨5, 0, 2, 1⟩, ⟨9, 1, 2, 2⟩] := by decide

/-! ## Real numbers: the log-level statements -/
section Real
variable {W : Type} [DecidableEq W]

/-- the defining formula at the log level:
`interp c w = Σᵢ λᵢ · scoreᵢ(w|c) − log₁₀ Σ_{v ∈ V∖{<s>}} 10^(Σᵢ λᵢ · scoreᵢ(v|c))` -/
noncomputable def interp (cs : Comps W) (V : List W) (bos : W) (c : List W) (w : W) : ℝ :=
  (usum cs c w : ℝ) - Real.logb 10 (Zdirect E10 cs V bos c)

/-- **Formula (log level, reals).**  log₁₀ of the back-off recursion over the written model is the
defining formula, for every context and every word of the union vocabulary. -/
theorem formula_real (cs : Comps W) (V : List W) (bos : W) (wf : WellFormed cs V bos)
    (hne : V.filter (fun w => decide (w ≠ bos)) ≠ [])
    (w : W) (hw : ([], w) ∈ unionGrams cs) (c : List W) :
    Real.logb 10 (outScore (interpOut E10 cs V) c w) = interp cs V bos c w := by
  have hZ : ∀ c, Zdirect E10 cs V bos c ≠ 0 := fun c => ne_of_gt (Zdirect_pos cs V bos c hne)
  rw [formula E10 isExp_E10 cs V bos wf hZ w hw c,
    Real.logb_div (ne_of_gt (E10_pos _)) (hZ c), logb_E10]
  rfl

/-- **Normalisation (reals).**  `Σ_{w ∈ V∖{<s>}} 10^(interp c w) = 1` for every context. -/
theorem normalised_real (cs : Comps W) (V : List W) (bos : W) (c : List W)
    (hne : V.filter (fun w => decide (w ≠ bos)) ≠ []) :
    ((V.filter (fun w => decide (w ≠ bos))).map (fun w => (10 : ℝ) ^ interp cs V bos c w)).sum = 1 := by
  have hZ := Zdirect_pos cs V bos c hne
  have h1 : (V.filter (fun w => decide (w ≠ bos))).map (fun w => (10 : ℝ) ^ interp cs V bos c w) =
      (V.filter (fun w => decide (w ≠ bos))).map
        (fun w => E10 (usum cs c w) * (Zdirect E10 cs V bos c)⁻¹) := by
    apply List.map_congr_left
    intro w _
    unfold interp
    rw [Real.rpow_sub (by norm_num), Real.rpow_logb (by norm_num) (by norm_num) hZ, div_eq_mul_inv]
    rfl
  rw [h1, List.sum_map_mul_right]
  exact mul_inv_cancel₀ (ne_of_gt hZ)

/-- the interpolated log-probability of a word of `V∖{<s>}` is never positive, so the clamp
`std::min(0.0f, prob)` of `backoff_reunification.cc` is the identity on exact values -/
theorem interp_nonpos (cs : Comps W) (V : List W) (bos : W) (c : List W) (w : W)
    (hw : w ∈ V.filter (fun w => decide (w ≠ bos))) : interp cs V bos c w ≤ 0 := by
  have hne : V.filter (fun w => decide (w ≠ bos)) ≠ [] := List.ne_nil_of_mem hw
  have hZ := Zdirect_pos cs V bos c hne
  have hle := term_le_Zdirect cs V bos c w hw
  unfold interp
  have : Real.logb 10 (E10 (usum cs c w)) ≤ Real.logb 10 (Zdirect E10 cs V bos c) :=
    Real.logb_le_logb_of_le (by norm_num) (E10_pos _) hle
  rw [logb_E10] at this
  linarith

/-- the incremental normaliser over the reals is the defining sum and is positive: the
`log10` taken by `normalize.cc` is always defined -/
theorem z_incremental_real (cs : Comps W) (V : List W) (bos : W) (wf : WellFormed cs V bos)
    (hne : V.filter (fun w => decide (w ≠ bos)) ≠ []) (c : List W) :
    Zinc E10 cs V c = Zdirect E10 cs V bos c ∧ 0 < Zinc E10 cs V c := by
  have h := z_incremental E10 isExp_E10 cs V bos wf c
  exact ⟨h, h ▸ Zdirect_pos cs V bos c hne⟩

end Real

/-! ## Non-vacuity: the hypotheses are satisfiable by a non-trivial state -/

/-- two components of order 2 over different vocabularies (`a` only in A, `b` only in B),
weights 1/2, 1/2 -/
def exB2 : LM Nat :=
  { order := 2, unk := 0,
    entries := [⟨[], 0, -1, 0⟩, ⟨[], 1, 0, -1⟩, ⟨[], 2, -1, 0⟩, ⟨[], 4, -1/2, -1/4⟩,
                ⟨[1], 4, -1/8, 0⟩, ⟨[4], 2, -1/4, 0⟩] }

def exCs : Comps Nat := [(1/2, witnessA), (1/2, exB2)]

example : WellFormed exCs [0, 1, 2, 3, 4] 1 :=
  { nodupV := by decide
    bosV := by decide
    bos0 := by decide +kernel
    entries := by unfold EntriesOK; decide
    prefixClosed := by unfold PrefixClosedD; decide }

example : ∀ p ∈ exCs, UnkClean p.2 := by
  intro p hp
  simp only [exCs, List.mem_cons, List.not_mem_nil, or_false] at hp
  rcases hp with rfl | rfl
  · exact ⟨by unfold UnkOnlyUnigram; decide, by decide +kernel, by unfold WordsKnown; decide⟩
  · exact ⟨by unfold UnkOnlyUnigram; decide, by decide +kernel, by unfold WordsKnown; decide⟩
example : ∀ p ∈ exCs, SuffixClosed p.2 := by
  intro p hp
  simp only [exCs, List.mem_cons, List.not_mem_nil, or_false] at hp
  rcases hp with rfl | rfl <;> (unfold SuffixClosed; decide)
example : [0, 1, 2, 3, 4].filter (fun w => decide (w ≠ 1)) ≠ [] := by decide
example : ([], 3) ∈ unionGrams exCs := by decide
example : stuck exCs = [] := equal_orders_not_stuck exCs 2 (by decide)
/-- the union really has n-grams from both sides and a context with explicit and backed-off words -/
example : explicit exCs [1] = [3, 4] := by decide
/-- the weighted sum is not trivial: `s(b | <s>) = ½·(b_A(<s>) + p_A(<unk>)) + ½·p_B(b|<s>)` -/
example : usum exCs [1] 4 = 1/2 * (-1 + -1) + 1/2 * (-1/8) := by decide +kernel

/-- non-vacuity: the union of the two example components is suffix closed -/
example : UnionSuffixClosed exCs := by unfold UnionSuffixClosed; decide

end KV.C13
