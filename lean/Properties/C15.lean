import Proofs.IOStream
import Generated.C15
/-!
# C15 — I/O failures are never silent: success implies complete, correct output

Theorems over the retry loops of util/file.cc:164-307 and `util::FileStream`, for **every**
OS oracle (a function from the call number to `ok n | eintr | err e | eof`), every data,
every request size, every buffer size; nothing is bounded.  `fuel` only bounds the number
of libc calls the model may make; `loops_terminate` shows which fuel is always enough and
`fuel_irrelevant` that a finished run does not depend on it.

What is *not* proved here (and is enumerated on the real tools by checks/C15.py instead):
that every call site of the four tools uses these primitives and lets their exceptions
reach `main`.
-/
namespace KV.C15
open KV.IO

/-- the model's `EINTR` is the platform's -/
theorem eintr_value : kEINTR = KV.Gen.C15.errnoEINTR := by decide

/-- **WriteOrThrow is all-or-throw.**  The bytes the OS accepted, in order, are always a
prefix of the data (`moved ++ rest = data`); success ⇒ they are all of the data and every
answer consumed was benign; a consumed `err e` ⇒ the loop throws with errno `e`; any other
failure is caused by the last consumed answer, which is not benign. -/
theorem write_all_or_throw (orc : Oracle) (fuel i : Nat) (data : Bytes) :
    let o := writeOrThrow orc fuel i data
    o.moved ++ o.rest = data ∧
    (o.res = .ok → o.moved = data ∧ ∀ j, i ≤ j → j < o.next → (orc j).benign) ∧
    (∀ j e, i ≤ j → j < o.next → orc j = .err e → o.res = .errno e) ∧
    (o.res ≠ .ok → o.res ≠ .fuel → i < o.next ∧ ¬ (orc (o.next - 1)).benign) ∧
    o.res ≠ .eofErr := by
  refine ⟨write_split orc fuel i data, fun hok => ⟨?_, ?_⟩, ?_, ?_, ?_⟩
  · have hs := write_split orc fuel i data
    rw [write_ok_rest orc fuel i data 0 hok] at hs
    simpa using hs
  · rw [writeOrThrow_eq] at hok ⊢
    exact xfer_ok_benign _ _ orc (by intro e; simp) fuel i data _ 0 0 hok
  · intro j e hij hj he
    rw [writeOrThrow_eq] at hj ⊢
    exact xfer_err_throws _ _ orc fuel i data data.length 0 0 j e hij hj he
  · rw [writeOrThrow_eq]
    exact xfer_fail_cause _ _ orc fuel i data data.length 0 0 (Nat.le_refl _)
  · rw [writeOrThrow_eq]
    intro h
    have := (xfer_eof (fun e => Res.errno e) false orc (fun _ _ _ => rfl) fuel i data data.length 0 0 h).1
    obtain ⟨e1, he1⟩ := this
    cases he1

/-- non-vacuity: a run with EINTR, two short writes and success; one that fails; and the
stale-errno case the correspondence run found (EINTR then a zero-length write: errno 4) -/
example : (writeOrThrow (scripted [.eintr, .ok 2, .eintr, .ok 1]) 10 0 [1,2,3,4,5]).res = .ok ∧
    (writeOrThrow (scripted [.eintr, .ok 2, .eintr, .ok 1]) 10 0 [1,2,3,4,5]).moved = [1,2,3,4,5] ∧
    (writeOrThrow (scripted [.ok 2, .err 28]) 10 0 [1,2,3,4,5]).res = .errno 28 ∧
    (writeOrThrow (scripted [.ok 2, .err 28]) 10 0 [1,2,3,4,5]).moved = [1,2] ∧
    (writeOrThrow (scripted [.eintr, .eof]) 10 0 [1,2]).res = .errno 4 := by decide

/-- **ReadOrThrow reads exactly `amount` bytes or throws.**  Success ⇒ the buffer holds the
next `amount` bytes of the source; a source shorter than `amount` can never yield success;
an EOF exception comes from a zero return; a consumed `err e` ⇒ errno `e`. -/
theorem read_exact_or_throw (orc : Oracle) (fuel i : Nat) (src : Bytes) (amount : Nat) :
    let o := readOrThrow orc fuel i src amount
    o.moved ++ o.rest = src ∧
    (o.res = .ok → o.moved = src.take amount ∧ o.moved.length = amount ∧
        ∀ j, i ≤ j → j < o.next → (orc j).benign) ∧
    (src.length < amount → o.res ≠ .ok) ∧
    (∀ j e, i ≤ j → j < o.next → orc j = .err e → o.res = .errno e) ∧
    (o.res = .eofErr → ∃ req avail, 0 < req ∧ (orc (o.next - 1)).ret req avail = .count 0) := by
  simp only [readOrThrow_eq]
  have hs := xfer_split (fun _ => .eofErr) false orc fuel i src amount 0 0
  have hl := xfer_ok_len (fun _ => .eofErr) false orc (by intro e; simp) fuel i src amount 0 0
  refine ⟨hs, fun hok => ⟨?_, hl hok, xfer_ok_benign _ _ orc (by intro e; simp) fuel i src amount 0 0 hok⟩, ?_, ?_, ?_⟩
  · exact take_of_split hs (hl hok)
  · intro hlt hok
    have h1 := hl hok
    have h2 := congrArg List.length hs
    simp only [List.length_append] at h2
    omega
  · intro j e; exact xfer_err_throws _ _ orc fuel i src amount 0 0 j e
  · intro h; exact (xfer_eof _ _ orc (fun _ _ _ => rfl) fuel i src amount 0 0 h).2

example : (readOrThrow (scripted [.ok 1, .eintr, .ok 7]) 10 0 [9,8,7,6] 3).moved = [9,8,7] ∧
    (readOrThrow (scripted [.ok 1, .eintr, .ok 7]) 10 0 [9,8,7,6] 3).res = .ok ∧
    (readOrThrow (scripted []) 10 0 [9,8] 3).res = .eofErr := by decide

/-- **ReadOrEOF**: never an EOF exception; the result is a prefix of the source of length
≤ amount; every consumed answer but the last is benign (a short result ends with a zero
return). -/
theorem read_or_eof (orc : Oracle) (fuel i : Nat) (src : Bytes) (amount : Nat) :
    let o := readOrEOF orc fuel i src amount
    o.moved ++ o.rest = src ∧ o.moved.length ≤ amount ∧ o.moved = src.take o.moved.length ∧
    o.res ≠ .eofErr ∧
    (∀ j e, i ≤ j → j < o.next → orc j = .err e → o.res = .errno e) ∧
    (∀ j, i ≤ j → j + 1 < o.next → (orc j).benign) := by
  simp only [readOrEOF_eq]
  have hs := xfer_split (fun _ => .ok) false orc fuel i src amount 0 0
  refine ⟨hs, xfer_moved_len _ _ orc fuel i src amount 0 0, take_of_split hs rfl, ?_, ?_, ?_⟩
  · intro h
    obtain ⟨e1, he1⟩ := (xfer_eof _ _ orc (fun _ _ _ => rfl) fuel i src amount 0 0 h).1
    cases he1
  · intro j e; exact xfer_err_throws _ _ orc fuel i src amount 0 0 j e
  · exact xfer_prefix_benign _ _ orc fuel i src amount 0 0

/-- **PartialRead** (one successful `read`, EINTR retried): returns a prefix of what is
left of the source, at most `amount` bytes. -/
theorem partial_read (orc : Oracle) : ∀ (fuel i : Nat) (src : Bytes) (amount : Nat),
    (partialRead orc fuel i src amount).moved ++ (partialRead orc fuel i src amount).rest = src ∧
    (partialRead orc fuel i src amount).moved.length ≤ amount ∧
    (∀ B, (∀ n, eintrCount orc i n ≤ B) → B < fuel → (partialRead orc fuel i src amount).res ≠ .fuel) := by
  intro fuel
  induction fuel with
  | zero => intro i src amount; simp [partialRead]
  | succ f ih =>
    intro i src amount
    simp only [partialRead]
    split
    · rename_i h
      obtain ⟨h1, h2, h3⟩ := ih (i+1) src amount
      refine ⟨by simpa using h1, by simpa using h2, ?_⟩
      intro B hB hf
      simp only [cons_res]
      have hi := ret_eintr h
      have hb1 := hB 1
      rw [eintrCount_eintr orc i 0 hi] at hb1
      refine h3 (B - 1) ?_ (by omega)
      intro n
      have := hB (n+1)
      rw [eintrCount_eintr orc i n hi] at this
      omega
    · simp
    · rename_i r h
      have hr := ret_count_le h
      refine ⟨List.take_append_drop _ _, ?_, by simp⟩
      simp only [List.length_take]; omega

/-- **ErsatzPRead / ErsatzPWrite behave like ReadOrThrow / WriteOrThrow, with offsets
advancing by the partial counts**: every request `c` issued covers exactly the tail not
yet transferred (`c.off + c.req = off + size`). -/
theorem pread_pwrite_same (orc : Oracle) (fuel i : Nat) (data src : Bytes) (size off : Nat) :
    (let o := ersatzPWrite orc fuel i data off
     o.moved ++ o.rest = data ∧ (o.res = .ok → o.moved = data) ∧
     (∀ c ∈ o.log, c.off + c.req = off + data.length) ∧
     (∀ j e, i ≤ j → j < o.next → orc j = .err e → o.res = .errno e) ∧
     (o.res = .ok → ∀ j, i ≤ j → j < o.next → (orc j).benign)) ∧
    (let o := ersatzPRead orc fuel i src size off
     o.moved ++ o.rest = src ∧ (o.res = .ok → o.moved = src.take size) ∧
     (∀ c ∈ o.log, c.off + c.req = off + size) ∧
     (∀ j e, i ≤ j → j < o.next → orc j = .err e → o.res = .errno e) ∧
     (o.res = .ok → ∀ j, i ≤ j → j < o.next → (orc j).benign)) := by
  simp only [ersatzPWrite_eq, ersatzPRead_eq]
  refine ⟨⟨xfer_split _ _ orc fuel i data _ off 0, ?_, xfer_offsets _ orc fuel i data _ off 0,
      fun j e => xfer_err_throws _ _ orc fuel i data _ off 0 j e,
      xfer_ok_benign _ _ orc (by intro e; simp) fuel i data _ off 0⟩,
    ⟨xfer_split _ _ orc fuel i src size off 0, ?_, xfer_offsets _ orc fuel i src size off 0,
      fun j e => xfer_err_throws _ _ orc fuel i src size off 0 j e,
      xfer_ok_benign _ _ orc (by intro e; simp) fuel i src size off 0⟩⟩
  · intro hok
    have hs := xfer_split (fun _ => .eofErr) true orc fuel i data data.length off 0
    have hl := xfer_ok_len (fun _ => .eofErr) true orc (by intro e; simp) fuel i data data.length off 0 hok
    have := take_of_split hs hl
    simpa using this
  · intro hok
    have hs := xfer_split (fun _ => .eofErr) true orc fuel i src size off 0
    have hl := xfer_ok_len (fun _ => .eofErr) true orc (by intro e; simp) fuel i src size off 0 hok
    exact take_of_split hs hl

example : (ersatzPWrite (scripted [.ok 2, .eintr, .ok 1]) 10 0 [1,2,3,4] 100).log =
    [⟨4,100⟩, ⟨2,102⟩, ⟨2,102⟩, ⟨1,103⟩] := by decide

/-- **EINTR and short transfers are transparent.**  Under any OS that only interrupts and
splits transfers (every answer is `eintr` or `ok n` with `n > 0`), with at most `B`
interruptions, every loop returns exactly what it returns under the ideal OS: success and
all the bytes.  (Error cases: see `write_all_or_throw` — the error is that of the first
non-benign answer, wherever the interruptions fall.) -/
theorem eintr_transparent (orc : Oracle) (i B : Nat) (hb : ∀ j, i ≤ j → (orc j).benign)
    (hB : ∀ n, eintrCount orc i n ≤ B) (data src : Bytes) (amount off : Nat) (hsrc : amount ≤ src.length) :
    ((writeOrThrow orc (data.length + B) i data).res = .ok ∧
      (writeOrThrow orc (data.length + B) i data).moved = data) ∧
    ((ersatzPWrite orc (data.length + B) i data off).res = .ok ∧
      (ersatzPWrite orc (data.length + B) i data off).moved = data) ∧
    ((readOrThrow orc (amount + B) i src amount).res = .ok ∧
      (readOrThrow orc (amount + B) i src amount).moved = src.take amount) ∧
    ((readOrEOF orc (amount + B) i src amount).res = .ok ∧
      (readOrEOF orc (amount + B) i src amount).moved = src.take amount) ∧
    ((ersatzPRead orc (amount + B) i src amount off).res = .ok ∧
      (ersatzPRead orc (amount + B) i src amount off).moved = src.take amount) := by
  have ok_of : ∀ (zero : Nat → Res) (posn : Bool) (s : Bytes) (a o : Nat), (∀ e, zero e ≠ .fuel) → a ≤ s.length →
      (xfer zero posn orc (a + B) i s a o 0).res = .ok := by
    intro zero posn s a o hz hl
    rcases xfer_benign zero posn orc (a + B) i s a o 0 hb hl with h | h
    · exact h
    · exact absurd h (xfer_terminates zero posn orc hz (a + B) i s a o 0 B hB (Nat.le_refl _))
  have take_of : ∀ (zero : Nat → Res) (posn : Bool) (s : Bytes) (a o : Nat), (∀ e, zero e ≠ .fuel) → a ≤ s.length →
      (xfer zero posn orc (a + B) i s a o 0).moved = s.take a := by
    intro zero posn s a o hz hl
    exact take_of_split (xfer_split zero posn orc (a + B) i s a o 0)
      (xfer_benign_len zero posn orc (a + B) i s a o 0 hb hl (ok_of zero posn s a o hz hl))
  refine ⟨⟨?_, ?_⟩, ⟨?_, ?_⟩, ⟨?_, ?_⟩, ⟨?_, ?_⟩, ⟨?_, ?_⟩⟩
  · rw [writeOrThrow_eq]; exact ok_of _ _ data _ 0 (by intro e; simp) (Nat.le_refl _)
  · rw [writeOrThrow_eq, take_of _ _ data _ 0 (by intro e; simp) (Nat.le_refl _)]; simp
  · rw [ersatzPWrite_eq]; exact ok_of _ _ data _ off (by intro e; simp) (Nat.le_refl _)
  · rw [ersatzPWrite_eq, take_of _ _ data _ off (by intro e; simp) (Nat.le_refl _)]; simp
  · rw [readOrThrow_eq]; exact ok_of _ _ src _ 0 (by intro e; simp) hsrc
  · rw [readOrThrow_eq]; exact take_of _ _ src _ 0 (by intro e; simp) hsrc
  · rw [readOrEOF_eq]; exact ok_of _ _ src _ 0 (by intro e; simp) hsrc
  · rw [readOrEOF_eq]; exact take_of _ _ src _ 0 (by intro e; simp) hsrc
  · rw [ersatzPRead_eq]; exact ok_of _ _ src _ off (by intro e; simp) hsrc
  · rw [ersatzPRead_eq]; exact take_of _ _ src _ off (by intro e; simp) hsrc

/-- **EINTR transparency, insertion form** (covers the failing runs too): for every oracle, insert one
`eintr` answer before any call `k ≥ i` of a finished run (one more unit of fuel).  The bytes moved
and the bytes left are unchanged for all five loops; the result is unchanged for
ReadOrThrow / ReadOrEOF / ErsatzPRead / ErsatzPWrite; for WriteOrThrow it is unchanged *except* in
exactly one case, which the real code exhibits (found by the correspondence run): if the call
right after the inserted EINTR returns 0, the exception carries errno `EINTR` (4) instead of the
errno state `e` it would have carried — still an exception, never a success. -/
theorem eintr_insertion (orc : Oracle) (k fuel i : Nat) (hik : i ≤ k) (data src : Bytes) (amount off : Nat) :
    ((writeOrThrow orc fuel i data).res ≠ .fuel →
      (writeOrThrow (insertAt orc k .eintr) (fuel + 1) i data).moved = (writeOrThrow orc fuel i data).moved ∧
      (writeOrThrow (insertAt orc k .eintr) (fuel + 1) i data).rest = (writeOrThrow orc fuel i data).rest ∧
      ((writeOrThrow (insertAt orc k .eintr) (fuel + 1) i data).res = (writeOrThrow orc fuel i data).res ∨
       ∃ e, (writeOrThrow orc fuel i data).res = .errno e ∧
            (writeOrThrow (insertAt orc k .eintr) (fuel + 1) i data).res = .errno kEINTR)) ∧
    ((ersatzPWrite orc fuel i data off).res ≠ .fuel →
      (ersatzPWrite (insertAt orc k .eintr) (fuel + 1) i data off).moved = (ersatzPWrite orc fuel i data off).moved ∧
      (ersatzPWrite (insertAt orc k .eintr) (fuel + 1) i data off).res = (ersatzPWrite orc fuel i data off).res) ∧
    ((readOrThrow orc fuel i src amount).res ≠ .fuel →
      (readOrThrow (insertAt orc k .eintr) (fuel + 1) i src amount).moved = (readOrThrow orc fuel i src amount).moved ∧
      (readOrThrow (insertAt orc k .eintr) (fuel + 1) i src amount).res = (readOrThrow orc fuel i src amount).res) ∧
    ((readOrEOF orc fuel i src amount).res ≠ .fuel →
      (readOrEOF (insertAt orc k .eintr) (fuel + 1) i src amount).moved = (readOrEOF orc fuel i src amount).moved ∧
      (readOrEOF (insertAt orc k .eintr) (fuel + 1) i src amount).res = (readOrEOF orc fuel i src amount).res) ∧
    ((ersatzPRead orc fuel i src amount off).res ≠ .fuel →
      (ersatzPRead (insertAt orc k .eintr) (fuel + 1) i src amount off).moved = (ersatzPRead orc fuel i src amount off).moved ∧
      (ersatzPRead (insertAt orc k .eintr) (fuel + 1) i src amount off).res = (ersatzPRead orc fuel i src amount off).res) := by
  have const : ∀ (z : Res) (posn : Bool) (s : Bytes) (a o : Nat),
      (xfer (fun _ => z) posn orc fuel i s a o 0).res ≠ .fuel →
      (xfer (fun _ => z) posn (insertAt orc k .eintr) (fuel + 1) i s a o 0).moved = (xfer (fun _ => z) posn orc fuel i s a o 0).moved ∧
      (xfer (fun _ => z) posn (insertAt orc k .eintr) (fuel + 1) i s a o 0).res = (xfer (fun _ => z) posn orc fuel i s a o 0).res := by
    intro z posn s a o h
    have := xfer_insert_eintr (fun _ => z) posn orc k fuel i s a o 0 hik h
    refine ⟨this.1, ?_⟩
    rcases this.2.2 with h1 | ⟨e, h1, h2⟩
    · exact h1
    · rw [h1, h2]
  refine ⟨?_, ?_, ?_, ?_, ?_⟩
  · intro h
    rw [writeOrThrow_eq] at h
    simp only [writeOrThrow_eq]
    exact xfer_insert_eintr (fun e => .errno e) false orc k fuel i data data.length 0 0 hik h
  · intro h; rw [ersatzPWrite_eq] at h; simp only [ersatzPWrite_eq]; exact const _ _ _ _ _ h
  · intro h; rw [readOrThrow_eq] at h; simp only [readOrThrow_eq]; exact const _ _ _ _ _ h
  · intro h; rw [readOrEOF_eq] at h; simp only [readOrEOF_eq]; exact const _ _ _ _ _ h
  · intro h; rw [ersatzPRead_eq] at h; simp only [ersatzPRead_eq]; exact const _ _ _ _ _ h

/-- the caveat is real: `[k0]` throws errno 0, `[eintr, k0]` throws errno 4 (as util::WriteOrThrow does) -/
example : (writeOrThrow (scripted [.ok 0]) 5 0 [1, 2]).res = .errno 0 ∧
    (writeOrThrow (insertAt (scripted [.ok 0]) 0 .eintr) 6 0 [1, 2]).res = .errno 4 ∧
    (writeOrThrow (insertAt (scripted [.ok 1, .err 28]) 1 .eintr) 6 0 [1, 2]).res = .errno 28 := by decide

/-- an oracle satisfying the hypotheses of `eintr_transparent` non-trivially -/
example : (∀ j, 0 ≤ j → ((scripted [.eintr, .ok 1, .eintr, .eintr, .ok 3]) j).benign) := by
  intro j _
  unfold scripted
  by_cases h : j < 5
  · have : j = 0 ∨ j = 1 ∨ j = 2 ∨ j = 3 ∨ j = 4 := by omega
    rcases this with rfl | rfl | rfl | rfl | rfl <;> simp [Ans.benign]
  · have : ([Ans.eintr, .ok 1, .eintr, .eintr, .ok 3] : List Ans)[j]? = none :=
      List.getElem?_eq_none (by simp; omega)
    simp [List.getD_eq_getElem?_getD, this, Ans.benign]

/-- **Every loop terminates** if the OS eventually stops answering EINTR: with at most `B`
EINTR answers from call `i` on, fuel `bytes remaining + B` is enough, whatever else the OS
answers. -/
theorem loops_terminate (orc : Oracle) (i B : Nat) (hB : ∀ n, eintrCount orc i n ≤ B)
    (data src : Bytes) (amount off fuel : Nat) :
    (data.length + B ≤ fuel → (writeOrThrow orc fuel i data).res ≠ .fuel ∧
                              (ersatzPWrite orc fuel i data off).res ≠ .fuel) ∧
    (amount + B ≤ fuel → (readOrThrow orc fuel i src amount).res ≠ .fuel ∧
                         (readOrEOF orc fuel i src amount).res ≠ .fuel ∧
                         (ersatzPRead orc fuel i src amount off).res ≠ .fuel) := by
  refine ⟨fun h => ⟨?_, ?_⟩, fun h => ⟨?_, ?_, ?_⟩⟩
  · rw [writeOrThrow_eq]; exact xfer_terminates _ _ orc (by intro e; simp) fuel i data _ 0 0 B hB h
  · rw [ersatzPWrite_eq]; exact xfer_terminates _ _ orc (by intro e; simp) fuel i data _ off 0 B hB h
  · rw [readOrThrow_eq]; exact xfer_terminates _ _ orc (by intro e; simp) fuel i src _ 0 0 B hB h
  · rw [readOrEOF_eq]; exact xfer_terminates _ _ orc (by intro e; simp) fuel i src _ 0 0 B hB h
  · rw [ersatzPRead_eq]; exact xfer_terminates _ _ orc (by intro e; simp) fuel i src _ off 0 B hB h

/-- a finished run does not depend on the fuel -/
theorem fuel_irrelevant (orc : Oracle) (fuel i : Nat) (data : Bytes)
    (h : (writeOrThrow orc fuel i data).res ≠ .fuel) (k : Nat) :
    writeOrThrow orc (fuel + k) i data = writeOrThrow orc fuel i data := by
  induction k with
  | zero => rfl
  | succ k ih =>
    have h' : (writeOrThrow orc (fuel + k) i data).res ≠ .fuel := by rw [ih]; exact h
    rw [← Nat.add_assoc, writeOrThrow_eq, xfer_fuel_mono _ _ orc (fuel + k) i data _ 0 0 (by rw [← writeOrThrow_eq]; exact h'),
      ← writeOrThrow_eq, ih]

/-- **FileStream loses nothing**: for every buffer size (the constructor raises it to at
least `kToStringMaxBytes`), every operation sequence, every OS: if the stream's life ends
without an exception, the bytes accepted by the OS are exactly the concatenation of the
`<<` / `write` arguments, in order; if it ends with an exception, they are a prefix of it
(nothing duplicated, reordered or invented). -/
theorem stream_no_loss (orc : Oracle) (fuel bufferSize : Nat) (ops : List SOp) :
    let r := streamRun orc fuel (max bufferSize KV.Gen.C15.kToStringMaxBytes) ops
    (r.res = .ok → r.sink = (ops.map SOp.arg).flatten ∧ r.st.buf = []) ∧
    (r.res ≠ .ok → r.sink <+: (ops.map SOp.arg).flatten) := by
  intro r
  have h0 : SInv { st := { cap := max bufferSize KV.Gen.C15.kToStringMaxBytes } } [] := by
    refine ⟨fun _ => rfl, fun h => absurd rfl h⟩
  have h1 := foldl_inv orc fuel ops _ [] h0
  have h2 := sStep_inv orc fuel _ .flush _ h1
  simp only [List.nil_append, SOp.arg, List.append_nil] at h2
  refine ⟨fun hok => ?_, h2.2⟩
  have hb : r.st.buf = [] := by
    show (sStep orc fuel _ SOp.flush).st.buf = []
    have hok' : (sStep orc fuel (ops.foldl (sStep orc fuel) { st := { cap := max bufferSize KV.Gen.C15.kToStringMaxBytes } }) .flush).res = .ok := hok
    unfold sStep at hok' ⊢
    split
    · rename_i hne; rw [if_pos hne] at hok'; exact absurd hok' hne
    · rename_i hne; rw [if_neg hne] at hok'; exact sFlush_ok_buf orc fuel _ hok'
  have := h2.1 hok
  rw [show (sStep orc fuel _ SOp.flush) = r from rfl, hb, List.append_nil] at this
  exact ⟨this, hb⟩

/-- the in-place reservations used by `operator<<` all fit the buffer floor (regenerated
from util/integer_to_string.hh and util/float_to_string.hh) -/
theorem inplace_reservations_fit : ∀ k ∈ KV.Gen.C15.kBytesList, k ≤ KV.Gen.C15.kToStringMaxBytes := by
  decide

/-- with honest reservations (`s.length ≤ amount ≤ kToStringMaxBytes`) the buffer never
overflows, for every buffer size: `Ensure`'s `assert(current_ + amount <= end_)` holds. -/
theorem stream_bounded (orc : Oracle) (fuel bufferSize : Nat) (ops : List SOp)
    (hfit : ∀ op ∈ ops, op.fits KV.Gen.C15.kToStringMaxBytes) :
    (ops.foldl (sStep orc fuel) { st := { cap := max bufferSize KV.Gen.C15.kToStringMaxBytes } }).st.buf.length
      ≤ max bufferSize KV.Gen.C15.kToStringMaxBytes := by
  have gen : ∀ (ops : List SOp) (r : SRun) (cap : Nat), r.st.cap = cap → KV.Gen.C15.kToStringMaxBytes ≤ cap →
      (∀ op ∈ ops, op.fits KV.Gen.C15.kToStringMaxBytes) → r.st.buf.length ≤ cap →
      (ops.foldl (sStep orc fuel) r).st.buf.length ≤ cap := by
    intro ops
    induction ops with
    | nil => intro r cap _ _ _ h; exact h
    | cons op ops ih =>
      intro r cap hc hk hf hb
      simp only [List.foldl_cons]
      refine ih _ cap (by rw [sStep_cap, hc]) hk (fun o ho => hf o (List.mem_cons_of_mem _ ho)) ?_
      have hop := hf op (List.mem_cons_self ..)
      have : op.fits r.st.cap := by
        cases op with
        | inplace amount s => simp only [SOp.fits] at hop ⊢; omega
        | write d => trivial
        | flush => trivial
      have := sStep_bounded orc fuel r op this (by omega)
      omega
  exact gen ops _ _ rfl (Nat.le_max_right ..) hfit (by simp)

example : (streamRun (scripted [.ok 3, .eintr]) 100 0 [.write [1,2,3], .inplace 20 [4,5], .write (List.replicate 30 7), .flush, .inplace 1 [9]]).sink
    = [1,2,3,4,5] ++ List.replicate 30 7 ++ [9] := by decide

end KV.C15
