import Model.Arpa
import Model.Table
import Model.Score
import Generated.C01
/-! C01 — Query scores follow the ARPA back-off definition in every data structure. -/
namespace KV.C01
open KV.Arpa KV.Table KV.Score KV.State

/-- the constants the models rely on, as the current tree defines them -/
theorem constants_ok :
    KV.Gen.C01.kMaxOrder ≥ 2 ∧ KV.Gen.C01.stateWords = KV.Gen.C01.kMaxOrder - 1 ∧
    KV.Gen.C01.hasExtensionOfPlusZero = true ∧ KV.Gen.C01.hasExtensionOfMinusZero = false ∧
    KV.Gen.C01.kNoExtensionBackoffBits = 2^31 ∧ KV.Gen.C01.kExtensionBackoffBits = 0 ∧
    KV.Gen.C01.unknownMissingIsInt = true := by decide

end KV.C01
