import Model.Arpa
import Model.Table
import Model.Score
import Generated.C01
import Proofs.ScoreMain
import Proofs.ScoreForgot
import Proofs.TableBuild
import Proofs.WellFormed
import Proofs.ScoreClosed
import Proofs.Quant
import Model.QuantBins
/-! C01 — Query scores follow the ARPA back-off definition in every data structure.

L0 = `KV.Arpa.score` (textbook recursion over the parsed ARPA text), L1 = `KV.Score.fullScore` etc.
(transcription of lm/model.cc over an abstract `Search`) run on `tableSearch (Table.build a unmarked)`.
`unmarked` is the set of blanks whose extends-right mark the trie builder loses (pre-observation G);
`fun _ => false` is probing / a repaired trie.  All probability theorems hold for every `unmarked`. -/
namespace KV.C01
open KV.Arpa KV.Table KV.Score KV.State

/-- the constants the models rely on, as the current tree defines them -/
theorem constants_ok :
    KV.Gen.C01.kMaxOrder ≥ 2 ∧ KV.Gen.C01.stateWords = KV.Gen.C01.kMaxOrder - 1 ∧
    KV.Gen.C01.hasExtensionOfPlusZero = true ∧ KV.Gen.C01.hasExtensionOfMinusZero = false ∧
    KV.Gen.C01.kNoExtensionBackoffBits = 2^31 ∧ KV.Gen.C01.kExtensionBackoffBits = 0 ∧
    KV.Gen.C01.unknownMissingIsInt = true ∧ KV.Gen.C01.sizeofWordIndex = 4 := by decide

/-- The table built from a well-formed model (real entries + hallucinated blanks + marks) satisfies the
interface the algorithm needs — for every set of blanks that lose their mark. -/
theorem table_represents (a : Arpa) (wf : WellFormed a) (unmarked : List Word → Bool) :
    TableFor a (build a unmarked) := build_tableFor a wf unmarked

/-- **FullScore = ARPA recursion.**  From any state that left-to-right scoring (or `GetState`) can
produce for the history `h`, the probability returned for `w` is the textbook back-off score of `w`
given the *entire* history. -/
theorem fullScore_prob (a : Arpa) (wf : WellFormed a) (unmarked : List Word → Bool)
    (h : List Word) (s : State) (sf : StateFor a h s) (w : Word) (hw : a.gram [w] ≠ none) :
    (fullScore (tableSearch (build a unmarked)) s w).1.prob = score a h w :=
  (step wf (build_tableFor a wf unmarked) sf hw).1

/-- the same over any table representing the model (the form the refinement theorems of the probing
and trie searches plug into) -/
theorem fullScore_prob_table (a : Arpa) (T : Table) (wf : WellFormed a) (tf : TableFor a T)
    (h : List Word) (s : State) (sf : StateFor a h s) (w : Word) (hw : a.gram [w] ≠ none) :
    (fullScore (tableSearch T) s w).1.prob = score a h w := (step wf tf sf hw).1

/-- the `StateFor` invariant is established by the two start states … -/
theorem stateFor_null (a : Arpa) : StateFor a [] nullContextState :=
  ⟨Nat.le_refl _, Nat.zero_le _, rfl, rfl, fun k h1 h2 => by simp at h2; simp [nullContextState] at h1; omega⟩

theorem stateFor_begin (a : Arpa) (wf : WellFormed a) (unmarked : List Word → Bool) (bos : Word) :
    StateFor a [bos] (beginSentenceState (tableSearch (build a unmarked)) bos) := by
  have tf := build_tableFor a wf unmarked
  have hN := wf.order_ge
  refine ⟨Nat.le_refl _, by show 1 ≤ a.order - 1; omega, rfl, ?_, fun k h1 h2 => by
    simp [beginSentenceState] at h1; simp at h2; omega⟩
  show [((tableSearch (build a unmarked)).lookupUnigram bos).1.backoff] = [a.boW [bos]]
  rw [← tf.bo_eq wf]
  simp only [tableSearch, Table.bo]
  cases (build a unmarked).lookup [bos] <;> simp [toFound]

/-- … and preserved by every `FullScore` call (induction step over the history). -/
theorem stateFor_step (a : Arpa) (wf : WellFormed a) (unmarked : List Word → Bool)
    (h : List Word) (s : State) (sf : StateFor a h s) (w : Word) (hw : a.gram [w] ≠ none) :
    StateFor a (w :: h) (fullScore (tableSearch (build a unmarked)) s w).2 :=
  (step wf (build_tableFor a wf unmarked) sf hw).2

/-- **Whole sequences**: left-to-right scoring of any word sequence of any length from any valid state
returns the sum of the textbook scores, and ends in a valid state for the extended history. -/
theorem scoreSeq_spec (a : Arpa) (wf : WellFormed a) (unmarked : List Word → Bool) :
    ∀ (ws : List Word) (h : List Word) (s : State), StateFor a h s → (∀ w ∈ ws, a.gram [w] ≠ none) →
      (scoreSeq (tableSearch (build a unmarked)) s ws).1 = specSeq a h ws ∧
      StateFor a (ws.reverse ++ h) (scoreSeq (tableSearch (build a unmarked)) s ws).2 := by
  intro ws
  induction ws with
  | nil => intro h s sf _; exact ⟨rfl, by simpa [scoreSeq] using sf⟩
  | cons w ws ih =>
    intro h s sf hv
    have hw := hv w List.mem_cons_self
    have st := step wf (build_tableFor a wf unmarked) sf hw
    have := ih (w :: h) _ st.2 (fun x hx => hv x (List.mem_cons_of_mem _ hx))
    simp only [scoreSeq, specSeq, st.1, this.1, List.reverse_cons, List.append_assoc, List.singleton_append]
    exact ⟨trivial, this.2⟩

/-- **FullScoreForgotState = ARPA recursion** for every explicit context of any length. -/
theorem forgot_prob (a : Arpa) (wf : WellFormed a) (unmarked : List Word → Bool)
    (ctx : List Word) (w : Word) (hw : a.gram [w] ≠ none) :
    (fullScoreForgotState (tableSearch (build a unmarked)) ctx w).1.prob = score a ctx w :=
  forgot_prob_aux wf (build_tableFor a wf unmarked) ctx hw

/-- **length_longest**: when the model contains the suffix of each of its n-grams, the reported matched length is
the length of the longest suffix of history + word that is an n-gram of the model. -/
theorem length_longest (a : Arpa) (wf : WellFormed a) (sc : SuffixClosed a) (unmarked : List Word → Bool)
    (h : List Word) (s : State) (sf : StateFor a h s) (w : Word) (hw : a.gram [w] ≠ none) :
    (fullScore (tableSearch (build a unmarked)) s w).1.ngramLength = longestMatch a h w :=
  length_longest_aux wf sc unmarked sf hw

/-- **indep_left_iff** (as an equation with the L0 specification `independentLeftSpec`): on a suffix-closed model
the flag is clear exactly when the whole supplied context (the words of the in-state) was matched, the match is
shorter than the order, and some n-gram of the model extends the match by one word to the left.  Holds for any
in-state of admissible length (garbage beyond `length` included). -/
theorem indep_left_iff (a : Arpa) (wf : WellFormed a) (sc : SuffixClosed a) (unmarked : List Word → Bool)
    (s : State) (hs : s.length ≤ a.order - 1) (w : Word) (hw : a.gram [w] ≠ none) :
    (fullScore (tableSearch (build a unmarked)) s w).1.independentLeft = false ↔
      (longestMatch a ((s.words.take s.length).take (a.order - 1)) w = ((s.words.take s.length).take (a.order - 1)).length + 1 ∧
       longestMatch a ((s.words.take s.length).take (a.order - 1)) w < a.order ∧
       a.hasLeftExtension (w :: (s.words.take s.length).take (a.order - 1)) = true) := by
  rw [indep_left_aux wf sc unmarked s hs hw]
  unfold independentLeftSpec
  simp only [Bool.not_eq_eq_eq_not, Bool.not_false, Bool.and_eq_true, beq_iff_eq, decide_eq_true_eq]
  constructor
  · rintro ⟨⟨h1, h2⟩, h3⟩; exact ⟨h1, h2, h3⟩
  · rintro ⟨h1, h2, h3⟩; exact ⟨⟨h1, h2⟩, h3⟩

/-- **quant_exact**: a quantised order is lossless whenever its value count (with multiplicity) fits the bins -/
theorem quant_exact (vals : List Rat) (bins : Nat) (hsorted : vals.Pairwise (· ≤ ·)) (hn : vals.length ≤ bins)
    (v : Rat) (hv : v ∈ vals) : KV.QuantBins.roundTrip vals bins v = some v :=
  KV.QuantBins.count_fits_lossless vals bins hsorted hn v hv

/-- a suffix-closed model for the non-vacuity of the structural theorems -/
def demoClosed : Arpa :=
  { order := 3,
    entries := [([0], ⟨-5, 0, false⟩), ([1], ⟨-1, -1/2, false⟩), ([2], ⟨-1, -1/4, false⟩), ([3], ⟨-2, 0, false⟩),
                ([2,1], ⟨-1/2, -1/8, false⟩), ([3,2], ⟨-3/2, 0, false⟩), ([3,2,1], ⟨-1/3, 0, false⟩)] }

theorem demoClosed_wf : WellFormed demoClosed := wfB_sound demoClosed (by decide +kernel)

theorem demoClosed_closed : SuffixClosed demoClosed := by
  intro g hg hl
  obtain ⟨e, he⟩ := Option.ne_none_iff_exists'.mp hg
  have hm := lookup_some_mem _ _ _ he
  simp [demoClosed] at hm
  rcases hm with h | h | h | h | h | h | h <;> (obtain ⟨rfl, _⟩ := h) <;> first | decide +kernel | (simp at hl)

example : (fullScore (tableSearch (build demoClosed)) { length := 2, words := [2, 1], backoff := [-1/4, -1/8] } 3).1.ngramLength = 3 := by
  decide +kernel
example : longestMatch demoClosed [2, 1] 3 = 3 := by decide +kernel

/-! ### non-vacuity: a pruned 3-gram model (needs a blank), scored through a blank -/

/-- `<unk>`=0, a=1, b=2, c=3; trigram "a b c" present while its suffix "b c" is pruned ⇒ blank `[3,2]` -/
def demo : Arpa :=
  { order := 3,
    entries := [([0], ⟨-5, 0, false⟩), ([1], ⟨-1, -1/2, false⟩), ([2], ⟨-1, -1/4, false⟩), ([3], ⟨-2, 0, false⟩),
                ([2,1], ⟨-1/2, -1/8, false⟩), ([3,2,1], ⟨-1/3, 0, false⟩)] }

theorem demo_wf : WellFormed demo := wfB_sound demo (by decide +kernel)

example : (build demo).lookup [3,2] = some ⟨-9/4, 0, true, false, true⟩ := by decide +kernel   -- the hallucinated blank
example : StateFor demo [] nullContextState := stateFor_null demo
example : demo.gram [3] ≠ none := by decide
/-- scoring "a b c" from the null context: −1 + −1/2 + −1/3, the last word matched through the blank -/
example : (scoreSeq (tableSearch (build demo)) nullContextState [1,2,3]).1 = -1 + -1/2 + -1/3 := by decide +kernel
example : specSeq demo [] [1,2,3] = -1 + -1/2 + -1/3 := by decide +kernel
/-- "b c" alone backs off through the blank: bo(b) + p(c) -/
example : score demo [2] 3 = -1/4 + -2 := by decide +kernel

end KV.C01
