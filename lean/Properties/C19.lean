import Model.Format
import Generated.C19
import Proofs.Format
import Proofs.FormatRead
import Proofs.FormatChars
import Proofs.FormatValue
/-!
# C19 — Number formatting is bounded, shortest and round-trips through the parser

Theorems over `Model/Format.lean` (a transcription of double-conversion's shortest formatting, kenlm's integer
formatting and the number-reader grammar of util/file_piece.cc), stated against the constants regenerated from
the current tree (`KV.Gen.C19.*`: `ToStringBuf<T>::kBytes`, `kToStringMaxBytes`, the `DoubleToStringConverter`
configuration of util/float_to_string.cc, `FileStream`'s minimum buffer).

This file is the version that is true on the tree with the repair
"fix: reserve enough bytes for shortest float/double text (ToStringBuf kBytes, kToStringMaxBytes)".
On the unrepaired tree (kBytes 19/19, kToStringMaxBytes 20) `float_len`, `double_len` and `max_bytes` do not
check; `float_len_false_at_19` / `double_len_false_at_19` below are the negations with concrete witnesses and
are true on both trees.
-/
namespace KV.C19
open KV.Format
open KV.Gen.C19

/-- the converter of util/float_to_string.cc, from the regenerated constructor arguments. -/
def conv : Conv :=
  Conv.ofRaw convFlags infSymbol nanSymbol expChar decimalLow decimalHigh minExponentWidth

/-- hypotheses on what `DoubleToAscii(SHORTEST_SINGLE)` can return (trusted: Grisu3/Bignum produce at most
`kBase10MaximalLengthSingle = 9` digits; float32 magnitudes lie in [1.4e-45, 3.4e38]). -/
@[reducible] def FloatDigits (digits : List Nat) (point : Int) : Prop :=
  1 ≤ digits.length ∧ digits.length ≤ 9 ∧ -45 ≤ point ∧ point ≤ 39

/-- likewise for `DoubleToAscii(SHORTEST)`: at most `kBase10MaximalLength = 17` digits, [4.9e-324, 1.8e308]. -/
@[reducible] def DoubleDigits (digits : List Nat) (point : Int) : Prop :=
  1 ≤ digits.length ∧ digits.length ≤ 17 ∧ -324 ≤ point ∧ point ≤ 309

example : FloatDigits [1, 2, 3, 4, 5, 6, 7, 8, 9] (-5) := by decide
example : DoubleDigits [1, 2, 3, 4, 5, 6, 7, 8, 9, 0, 1, 2, 3, 4, 5, 6, 7] 309 := by decide

/-- the digit-count hypotheses are the library's own constants -/
theorem digit_counts : base10MaximalLengthSingle = 9 ∧ base10MaximalLength = 17 := by decide

/-! ## the text length is a function of (sign, digit count, point) only -/

theorem fmtShortest_length (neg : Bool) (digits : List Nat) (point : Int) :
    (fmtShortest conv neg digits point).length
      = shortestLen conv neg (digits.all (· == 0)) digits.length point :=
  KV.Format.fmtShortest_length conv neg digits point rfl rfl

/-! ## bytes written ≤ bytes reserved (the `+ 1` is the NUL `~StringBuilder` writes) -/

theorem float_len (neg : Bool) (digits : List Nat) (point : Int) (h : FloatDigits digits point) :
    (fmtShortest conv neg digits point).length + 1 ≤ kBytesFloat := by
  obtain ⟨_, h9, hlo, hhi⟩ := h
  rw [fmtShortest_length]
  have hb := shortestLen_le conv neg (digits.all (· == 0)) digits.length 9 2 point h9 (by decide)
    (by omega) (by decide)
  have : maxShortestLen conv 9 2 + 1 ≤ kBytesFloat := by decide
  omega

theorem double_len (neg : Bool) (digits : List Nat) (point : Int) (h : DoubleDigits digits point) :
    (fmtShortest conv neg digits point).length + 1 ≤ kBytesDouble := by
  obtain ⟨_, h17, hlo, hhi⟩ := h
  rw [fmtShortest_length]
  have hb := shortestLen_le conv neg (digits.all (· == 0)) digits.length 17 3 point h17 (by decide)
    (by omega) (by decide)
  have : maxShortestLen conv 17 3 + 1 ≤ kBytesDouble := by decide
  omega

/-- special values: "inf", "-inf", "NaN" (+ NUL) -/
theorem special_len (neg : Bool) :
    (fmtValue conv (.inf neg)).length + 1 ≤ kBytesFloat ∧ (fmtValue conv .nan).length + 1 ≤ kBytesFloat ∧
    (fmtValue conv (.inf neg)).length + 1 ≤ kBytesDouble ∧ (fmtValue conv .nan).length + 1 ≤ kBytesDouble := by
  cases neg <;> decide

/-! ### the bounds are attained: 23 and 26 are the smallest correct reservations -/

theorem float_len_sharp :
    FloatDigits [1] 21 ∧ (fmtShortest conv true [1] 21).length + 1 = 23 := by decide

theorem double_len_sharp :
    DoubleDigits [1, 2, 3, 4, 5, 6, 7, 8, 9, 0, 1, 2, 3, 4, 5, 6, 7] (-5) ∧
    (fmtShortest conv true [1, 2, 3, 4, 5, 6, 7, 8, 9, 0, 1, 2, 3, 4, 5, 6, 7] (-5)).length + 1 = 26 := by decide

/-- no reservation below 23 bytes is sound for float … -/
theorem float_len_fails_below (k : Nat) (hk : k < 23) :
    ¬ ∀ (neg : Bool) (digits : List Nat) (point : Int), FloatDigits digits point →
        (fmtShortest conv neg digits point).length + 1 ≤ k := by
  intro h
  have := h true [1] 21 float_len_sharp.1
  have := float_len_sharp.2
  omega

/-- … and none below 26 for double. -/
theorem double_len_fails_below (k : Nat) (hk : k < 26) :
    ¬ ∀ (neg : Bool) (digits : List Nat) (point : Int), DoubleDigits digits point →
        (fmtShortest conv neg digits point).length + 1 ≤ k := by
  intro h
  have := h true [1, 2, 3, 4, 5, 6, 7, 8, 9, 0, 1, 2, 3, 4, 5, 6, 7] (-5) double_len_sharp.1
  have := double_len_sharp.2
  omega

/-- the negation of `float_len` for the value `kBytes = 19` of the unrepaired tree (witness −1e20f:
"-100000000000000000000", 22 characters + NUL). -/
theorem float_len_false_at_19 :
    ¬ ∀ (neg : Bool) (digits : List Nat) (point : Int), FloatDigits digits point →
        (fmtShortest conv neg digits point).length + 1 ≤ 19 :=
  float_len_fails_below 19 (by decide)

/-- the negation of `double_len` for `kBytes = 19` (witness −1.2345678901234567e-6:
"-0.0000012345678901234567", 25 characters + NUL). -/
theorem double_len_false_at_19 :
    ¬ ∀ (neg : Bool) (digits : List Nat) (point : Int), DoubleDigits digits point →
        (fmtShortest conv neg digits point).length + 1 ≤ 19 :=
  double_len_fails_below 19 (by decide)

/-! ## every reservation fits the streams' guaranteed space -/

/-- `FakeOStream::CallToString` reserves `kBytes` with `Ensure`, whose precondition is
`amount ≤ kToStringMaxBytes`; `FileStream` guarantees a buffer of at least `fileStreamMinBuffer`. -/
theorem max_bytes :
    (∀ k ∈ [kBytesBool, kBytesU16, kBytesI16, kBytesU32, kBytesI32, kBytesU64, kBytesI64, kBytesPtr,
            kBytesFloat, kBytesDouble], k ≤ kToStringMaxBytes) ∧
    kToStringMaxBytes ≤ fileStreamMinBuffer ∧ fileStreamMinBuffer ≤ fileStreamDefaultBuffer := by decide

/-! ## integers -/

theorem int_len :
    (∀ n : Nat, n < 2 ^ 64 → (fmtNat n).length ≤ kBytesU64) ∧
    (∀ n : Nat, n < 2 ^ 32 → (fmtNat n).length ≤ kBytesU32) ∧
    (∀ n : Nat, n < 2 ^ 16 → (fmtNat n).length ≤ kBytesU16) ∧
    (∀ i : Int, -2 ^ 63 ≤ i → i < 2 ^ 63 → (fmtInt i).length ≤ kBytesI64) ∧
    (∀ i : Int, -2 ^ 31 ≤ i → i < 2 ^ 31 → (fmtInt i).length ≤ kBytesI32) ∧
    (∀ i : Int, -2 ^ 15 ≤ i → i < 2 ^ 15 → (fmtInt i).length ≤ kBytesI16) ∧
    (∀ v : Nat, v < 2 ^ pointerBits → (fmtPtr v).length ≤ kBytesPtr) := by
  refine ⟨?_, ?_, ?_, ?_, ?_, ?_, ?_⟩
  · intro n h
    exact length_fmtNat_le (by decide) (Nat.lt_of_lt_of_le h (by decide))
  · intro n h
    exact length_fmtNat_le (by decide) (Nat.lt_of_lt_of_le h (by decide))
  · intro n h
    exact length_fmtNat_le (by decide) (Nat.lt_of_lt_of_le h (by decide))
  · intro i h1 h2
    exact length_fmtInt_le (k := kBytesI64 - 1) (by decide) (by decide) (Nat.lt_of_lt_of_le (by omega) (by decide : 2 ^ 63 + 1 ≤ 10 ^ (kBytesI64 - 1)))
  · intro i h1 h2
    exact length_fmtInt_le (k := kBytesI32 - 1) (by decide) (by decide) (Nat.lt_of_lt_of_le (by omega) (by decide : 2 ^ 31 + 1 ≤ 10 ^ (kBytesI32 - 1)))
  · intro i h1 h2
    exact length_fmtInt_le (k := kBytesI16 - 1) (by decide) (by decide) (Nat.lt_of_lt_of_le (by omega) (by decide : 2 ^ 15 + 1 ≤ 10 ^ (kBytesI16 - 1)))
  · intro v h
    exact length_fmtPtr_le (k := kBytesPtr - 2) (by decide) (by decide) (Nat.lt_of_lt_of_le h (by decide))

/-- bytes *stored* by the SSE2 path (an unconditional 16-byte store for 9…16-digit values) stay inside the reservation -/
theorem int_footprint :
    (∀ n : Nat, n < 2 ^ 64 → footprintU64 sse2Path n ≤ kBytesU64) ∧
    (∀ i : Int, -2 ^ 63 ≤ i → i < 2 ^ 63 → footprintI64 sse2Path i ≤ kBytesI64) := by
  constructor
  · intro n h
    unfold footprintU64
    split
    · decide
    · exact length_fmtNat_le (by decide) (Nat.lt_of_lt_of_le h (by decide))
  · intro i h1 h2
    unfold footprintI64 footprintU64
    have : (fmtNat i.natAbs).length ≤ 19 := length_fmtNat_le (by decide) (by omega)
    have : (19 : Nat) + 1 ≤ kBytesI64 := by decide
    split <;> split <;> omega

example : (fmtNat 18446744073709551615).length = 20 := by decide
example : (fmtInt (-9223372036854775808)).length = 20 := by decide
example : footprintU64 true 123456789 = 16 ∧ (fmtNat 123456789).length = 9 := by decide
example : fmtPtr 255 = ['0', 'x', 'f', 'f'] := by decide

/-! ## integers read back exactly (strtoul / strtol grammar of `ParseNumber`) -/

/-- `rest` is whatever follows the number in the file: anything that does not start with a digit. -/
theorem int_roundtrip :
    (∀ (n : Nat) (rest : List Char), n < 2 ^ 64 → NoDigitHead rest →
        readULong (fmtNat n ++ rest) = .ok (n, rest)) ∧
    (∀ (i : Int) (rest : List Char), -2 ^ 63 ≤ i → i < 2 ^ 63 → NoDigitHead rest →
        readLong (fmtInt i ++ rest) = .ok (i, rest)) :=
  ⟨readULong_fmtNat, readLong_fmtInt⟩

example : NoDigitHead ['\n', '1'] := by intro c h; simp at h; subst h; decide
example : readLong (fmtInt (-9223372036854775808) ++ ['\t', '7']) = .ok (-9223372036854775808, ['\t', '7']) := by rfl
/-- outside the range the reader reports an error (ERANGE), as strtoul does -/
example : readULong (fmtNat 18446744073709551616) = .error .range := by rfl

/-! ## the text denotes exactly (−1)^neg · 0.d₁…dₙ · 10^point and consists of number characters only -/

/-- util::kConverter: NO_FLAGS, exponent character 'e', no minimum exponent width -/
theorem conv_plain : PlainConv conv := ⟨rfl, rfl, rfl, rfl, rfl⟩

theorem conv_symbols : conv.infSym = ['i', 'n', 'f'] ∧ conv.nanSym = ['N', 'a', 'N'] ∧
    infSymbolIsNull = false ∧ nanSymbolIsNull = false := by decide

/-- `rest` is what follows the number in the file (`NumTerm`: end of input or a character that cannot continue a
number; ARPA files have a tab or a newline there).  The reader model returns sign, mantissa and decimal exponent
with `mant · 10^exp = d₁…dₙ · 10^(point − n)`, i.e. the value `0.d₁…dₙ · 10^point` (`k` = padding zeros that
became part of the mantissa), and the unconsumed `rest`.  Correct rounding of that exact decimal value to
binary is double-conversion's Strtod (trusted, exercised exhaustively for float32 by the harness). -/
theorem fmt_value (neg : Bool) (digits : List Nat) (point : Int) (rest : List Char)
    (hd : ∀ d ∈ digits, d < 10) (hL : 1 ≤ digits.length)
    (hp : -1000000000 ≤ point ∧ point ≤ 1000000000) (hr : NumTerm rest) :
    (∀ ch ∈ fmtShortest conv neg digits point, ch.isDigit = true ∨ ch = '.' ∨ ch = '-' ∨ ch = 'e') ∧
    ∃ (mant : Nat) (exp : Int) (k : Nat),
      readDecimal conv.infSym conv.nanSym (fmtShortest conv neg digits point ++ rest) = .num neg mant exp rest ∧
      mant = digitsVal digits * 10 ^ k ∧ exp + k = point - digits.length := by
  constructor
  · intro ch h
    rcases fmtShortest_chars conv neg digits point hd ch h with h | h | h | h | h
    · exact .inl h
    · exact .inr (.inl h)
    · exact .inr (.inr (.inl h))
    · exact .inr (.inr (.inr h))
    · exact absurd h.2 (by decide)
  · obtain ⟨a, t, hat, ha⟩ := shortestBody_head conv conv_plain digits point hd hL
    obtain ⟨mant, exp, k, hread, hm, he⟩ :=
      readMantissa_body conv conv_plain neg digits point rest hd hL (by omega) hr
    refine ⟨mant, exp, k, ?_, hm, he⟩
    have hsign : (neg && (!(digits.all (· == 0)) || !conv.uniqueZero)) = neg := by
      have : conv.uniqueZero = false := rfl
      simp [this]
    rw [fmtShortest_eq, hsign, List.append_assoc, hat, List.cons_append,
      readDecimal_signed conv.infSym conv.nanSym neg a (t ++ rest) ha
        (by intro c hc; rw [conv_symbols.1] at hc; simp at hc; subst hc; rfl)
        (by intro c hc; rw [conv_symbols.2.1] at hc; simp at hc; subst hc; rfl),
      ← List.cons_append, ← hat]
    exact hread

example : NumTerm ['\n'] := by intro c h; simp at h; subst h; decide
example : NumTerm ['\t', '-', '0', '.', '5'] := by intro c h; simp at h; subst h; decide
/-- −1e20f: text "-100000000000000000000", read back as −(1 · 10²⁰) · 10⁰ -/
example : fmtShortest conv true [1] 21 = "-100000000000000000000".toList := by decide
example : digitsVal [1, 2, 5] = 125 := by decide
/-- signed zero keeps its sign (UNIQUE_ZERO is not set) -/
example : fmtShortest conv true [0] 1 = ['-', '0'] := by decide

/-! ## special values read back (value level: every NaN payload prints as "NaN") -/

/-- `ReadFloat/ReadDouble` on the text of NaN / ±inf followed by *anything* (`rest` is arbitrary: the reader accepts NaN
by the characters the converter consumed — /repo a461449 — and `stripPrefix?` stops after the symbol). -/
theorem special_roundtrip (rest : List Char) :
    filePieceReadF conv.infSym conv.nanSym (fmtValue conv .nan ++ rest) = .nan 3 ∧
    filePieceReadF conv.infSym conv.nanSym (fmtValue conv (.inf false) ++ rest) = .val false 3 ∧
    filePieceReadF conv.infSym conv.nanSym (fmtValue conv (.inf true) ++ rest) = .val true 4 := by
  have hn : fmtValue conv .nan = ['N', 'a', 'N'] := by decide
  have hp : fmtValue conv (.inf false) = ['i', 'n', 'f'] := by decide
  have hm : fmtValue conv (.inf true) = ['-', 'i', 'n', 'f'] := by decide
  have hN : isSpaceC 'N' = false := by decide
  have hi : isSpaceC 'i' = false := by decide
  have hd : isSpaceC '-' = false := by decide
  rw [hn, hp, hm, conv_symbols.1, conv_symbols.2.1]
  have e3 : rest.length + 1 + 1 + 1 - rest.length = 3 := by omega
  have e4 : rest.length + 1 + 1 + 1 + 1 - rest.length = 4 := by omega
  refine ⟨?_, ?_, ?_⟩
  · simp [filePieceReadF, parseNumberF, readDecimal, startsWith, stripPrefix?, isWhitespaceDC, hN, e3]
  · simp [filePieceReadF, parseNumberF, readDecimal, startsWith, stripPrefix?, isWhitespaceDC, hi, e3]
  · simp [filePieceReadF, parseNumberF, readDecimal, startsWith, stripPrefix?, isWhitespaceDC, hd, hi, e4]

/-- what the reader rejects: lower-case "nan", a signed "NaN", junk (ParseNumberException) -/
example : filePieceReadF conv.infSym conv.nanSym ['n', 'a', 'n'] = .err := by decide
example : filePieceReadF conv.infSym conv.nanSym ['-', 'N', 'a', 'N'] = .err := by decide
example : filePieceReadF conv.infSym conv.nanSym ['N', 'a', 'N', 'x'] = .nan 3 := by decide
example : filePieceReadF conv.infSym conv.nanSym [' ', 'N', 'a', 'N', '\t', '1'] = .nan 4 := by decide

end KV.C19
