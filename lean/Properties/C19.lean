import Model.Format
import Generated.C19
namespace KV.C19
theorem placeholder : True := trivial
end KV.C19
