import Proofs.Bits
import Proofs.Search
/-!
# C20 — Core lookup primitives behave as exact maps and arrays  (bit-packing clause)

"A value written into a bit-packed array at any bit offset and width is read back
unchanged and leaves all neighbouring bits untouched."
Memory is a little-endian `Nat`; `bitOff` is any natural number (so "any offset mod 8").
-/
namespace KV.C20
open KV.Bits

/-- ReadInt57 reads exactly the `len`-bit field at `off` whenever the field fits in the
64-bit window, i.e. `off % 8 + len ≤ 64`; guaranteed by `len ≤ 57`. -/
theorem read_eq (m off len : Nat) (h : off % 8 + len ≤ 64) :
    readInt57 m off len = (m >>> off) % 2^len := by
  apply Nat.eq_of_testBit_eq
  intro j
  rw [testBit_readInt57, Nat.testBit_mod_two_pow, Nat.testBit_shiftRight]
  by_cases hj : j < len
  · have : off % 8 + j < 64 := by omega
    simp [hj, this]
  · simp [hj]

theorem read_eq_57 (m off len : Nat) (h : len ≤ 57) :
    readInt57 m off len = (m >>> off) % 2^len :=
  read_eq m off len (by omega)

/-- the target field is zero before the write (the documented contract of `Write*`) -/
def FieldZero (m off len : Nat) : Prop := ∀ j, j < len → m.testBit (off + j) = false

/-- every bit of memory after `WriteInt57`, for a value that fits and a width ≤ 57 -/
theorem write_bits (m off len v : Nat) (hlen : len ≤ 57) (hv : v < 2^len) (i : Nat) :
    (writeInt57 m off len v).testBit i =
      (m.testBit i || (decide (off ≤ i) && decide (i < off + len) && v.testBit (i - off))) := by
  rw [testBit_writeInt57]
  by_cases h1 : off ≤ i
  · by_cases h2 : i < off + len
    · have a : 8 * (off / 8) ≤ i := by omega
      have b : i - 8 * (off / 8) < 64 := by omega
      have c : off % 8 ≤ i - 8 * (off / 8) := by omega
      have d : i - 8 * (off / 8) - off % 8 = i - off := by omega
      simp [h1, h2, a, b, c, d]
    · have hz : v.testBit (i - off) = false := testBit_lt_of_lt_two_pow hv (by omega)
      by_cases a : 8 * (off / 8) ≤ i
      · by_cases c : off % 8 ≤ i - 8 * (off / 8)
        · have d : i - 8 * (off / 8) - off % 8 = i - off := by omega
          simp [h1, h2, a, c, d, hz]
        · simp [h1, h2, a, c]
      · simp [h1, h2, a]
  · have : ¬ (8 * (off / 8) ≤ i ∧ off % 8 ≤ i - 8 * (off / 8)) := by omega
    by_cases a : 8 * (off / 8) ≤ i
    · have c : ¬ off % 8 ≤ i - 8 * (off / 8) := by omega
      simp [h1, a, c]
    · simp [h1, a]

/-- **neighbouring bits untouched** -/
theorem write_frame (m off len v : Nat) (hlen : len ≤ 57) (hv : v < 2^len) (i : Nat)
    (hi : i < off ∨ off + len ≤ i) :
    (writeInt57 m off len v).testBit i = m.testBit i := by
  rw [write_bits m off len v hlen hv]
  rcases hi with hi | hi
  · have : ¬ off ≤ i := by omega
    simp [this]
  · have : ¬ i < off + len := by omega
    simp [this]

/-- **read back unchanged** -/
theorem write_read (m off len v : Nat) (hlen : len ≤ 57) (hv : v < 2^len)
    (hz : FieldZero m off len) :
    readInt57 (writeInt57 m off len v) off len = v := by
  rw [read_eq_57 _ _ _ hlen]
  apply Nat.eq_of_testBit_eq
  intro j
  rw [Nat.testBit_mod_two_pow, Nat.testBit_shiftRight, write_bits m off len v hlen hv]
  by_cases hj : j < len
  · have a : off ≤ off + j := by omega
    have b : off + j < off + len := by omega
    have c : off + j - off = j := by omega
    simp [hj, hz j hj, a, b, c]
  · have : v.testBit j = false := testBit_lt_of_lt_two_pow hv (by omega)
    simp [hj, this]

/-- a later write to a disjoint field does not disturb an earlier one -/
theorem write_read_other (m off len v off' len' : Nat) (hlen : len ≤ 57) (hv : v < 2^len)
    (hlen' : len' ≤ 57) (hd : off' + len' ≤ off ∨ off + len ≤ off') :
    readInt57 (writeInt57 m off len v) off' len' = readInt57 m off' len' := by
  rw [read_eq_57 _ _ _ hlen', read_eq_57 _ _ _ hlen']
  apply Nat.eq_of_testBit_eq
  intro j
  rw [Nat.testBit_mod_two_pow, Nat.testBit_mod_two_pow, Nat.testBit_shiftRight, Nat.testBit_shiftRight]
  by_cases hj : j < len'
  · rw [write_frame m off len v hlen hv (off' + j) (by omega)]
  · simp [hj]

example : FieldZero 0xFF00FF 8 8 ∧ (0xAB : Nat) < 2^8 ∧ readInt57 (writeInt57 0xFF00FF 8 8 0xAB) 8 8 = 0xAB := by
  refine ⟨?_, by decide, by decide⟩
  intro j hj
  have : j = 0 ∨ j = 1 ∨ j = 2 ∨ j = 3 ∨ j = 4 ∨ j = 5 ∨ j = 6 ∨ j = 7 := by omega
  rcases this with h|h|h|h|h|h|h|h <;> subst h <;> decide

/-! ### 32-bit window: `ReadInt25` / `WriteInt25` (width ≤ 25) -/

theorem read25_eq (m off len : Nat) (h : len ≤ 25) :
    readInt25 m off len = (m >>> off) % 2^len := by
  apply Nat.eq_of_testBit_eq
  intro j
  rw [testBit_readInt25, Nat.testBit_mod_two_pow, Nat.testBit_shiftRight]
  by_cases hj : j < len
  · have : off % 8 + j < 32 := by omega
    simp [hj, this]
  · simp [hj]

theorem write25_bits (m off len v : Nat) (hlen : len ≤ 25) (hv : v < 2^len) (i : Nat) :
    (writeInt25 m off len v).testBit i =
      (m.testBit i || (decide (off ≤ i) && decide (i < off + len) && v.testBit (i - off))) := by
  rw [testBit_writeInt25]
  by_cases h1 : off ≤ i
  · by_cases h2 : i < off + len
    · have a : 8 * (off / 8) ≤ i := by omega
      have b : i - 8 * (off / 8) < 32 := by omega
      have c : off % 8 ≤ i - 8 * (off / 8) := by omega
      have d : i - 8 * (off / 8) - off % 8 = i - off := by omega
      simp [h1, h2, a, b, c, d]
    · have hz : v.testBit (i - off) = false := testBit_lt_of_lt_two_pow hv (by omega)
      by_cases a : 8 * (off / 8) ≤ i
      · by_cases c : off % 8 ≤ i - 8 * (off / 8)
        · have d : i - 8 * (off / 8) - off % 8 = i - off := by omega
          simp [h1, h2, a, c, d, hz]
        · simp [h1, h2, a, c]
      · simp [h1, h2, a]
  · by_cases a : 8 * (off / 8) ≤ i
    · have c : ¬ off % 8 ≤ i - 8 * (off / 8) := by omega
      simp [h1, a, c]
    · simp [h1, a]

theorem write25_frame (m off len v : Nat) (hlen : len ≤ 25) (hv : v < 2^len) (i : Nat)
    (hi : i < off ∨ off + len ≤ i) :
    (writeInt25 m off len v).testBit i = m.testBit i := by
  rw [write25_bits m off len v hlen hv]
  rcases hi with hi | hi
  · have : ¬ off ≤ i := by omega
    simp [this]
  · have : ¬ i < off + len := by omega
    simp [this]

theorem write25_read (m off len v : Nat) (hlen : len ≤ 25) (hv : v < 2^len)
    (hz : FieldZero m off len) :
    readInt25 (writeInt25 m off len v) off len = v := by
  rw [read25_eq _ _ _ hlen]
  apply Nat.eq_of_testBit_eq
  intro j
  rw [Nat.testBit_mod_two_pow, Nat.testBit_shiftRight, write25_bits m off len v hlen hv]
  by_cases hj : j < len
  · have a : off ≤ off + j := by omega
    have b : off + j < off + len := by omega
    have c : off + j - off = j := by omega
    simp [hj, hz j hj, a, b, c]
  · have : v.testBit j = false := testBit_lt_of_lt_two_pow hv (by omega)
    simp [hj, this]

/-! ### floats: 32 stored bits, and 31 stored bits with the sign forced on -/

theorem float32_write_read (m off bits : Nat) (hb : bits < 2^32) (hz : FieldZero m off 32) :
    readFloat32 (writeFloat32 m off bits) off = bits := by
  apply Nat.eq_of_testBit_eq
  intro j
  rw [testBit_readFloat32]
  unfold writeFloat32
  rw [write_bits m off 32 bits (by omega) hb]
  by_cases hj : j < 32
  · have a : off ≤ off + j := by omega
    have b : off + j < off + 32 := by omega
    have c : off + j - off = j := by omega
    simp [hj, hz j hj, a, b, c]
  · have : bits.testBit j = false := testBit_lt_of_lt_two_pow hb (by omega)
    simp [hj, this]

theorem float32_write_frame (m off bits : Nat) (hb : bits < 2^32) (i : Nat)
    (hi : i < off ∨ off + 32 ≤ i) :
    (writeFloat32 m off bits).testBit i = m.testBit i :=
  write_frame m off 32 bits (by omega) hb i hi

theorem testBit_kSignBit (j : Nat) : kSignBit.testBit j = decide (j = 31) := by
  have : kSignBit = 2^31 := by decide
  rw [this, Nat.testBit_two_pow]
  by_cases h : j = 31 <;> simp [h, eq_comm]

/-- Whatever the neighbouring field holds, a non-positive float (sign bit set) stored in 31
bits is read back unchanged; a value with the sign clear comes back with the sign set
(`+0.0 ↦ -0.0`), which is the documented meaning of "NonPositive". -/
theorem float31_write_read (m off bits : Nat) (hb : bits < 2^32) (hz : FieldZero m off 31) :
    readNonPositiveFloat31 (writeNonPositiveFloat31 m off bits) off = bits ||| kSignBit := by
  apply Nat.eq_of_testBit_eq
  intro j
  unfold readNonPositiveFloat31 writeNonPositiveFloat31
  have h32 := testBit_readFloat32 (writeInt57 m off 31 (bits % 2^32 % 2^31)) off j
  unfold readFloat32 at h32
  rw [Nat.testBit_or, h32, Nat.testBit_or, testBit_kSignBit]
  have hv : bits % 2^32 % 2^31 < 2^31 := Nat.mod_lt _ (by decide)
  rw [write_bits m off 31 _ (by omega) hv]
  by_cases hj : j < 31
  · have a : off ≤ off + j := by omega
    have b : off + j < off + 31 := by omega
    have c : off + j - off = j := by omega
    have d : j < 32 := by omega
    have e : ¬ j = 31 := by omega
    have f : (bits % 2^32 % 2^31).testBit j = bits.testBit j := by
      rw [Nat.testBit_mod_two_pow, Nat.testBit_mod_two_pow]; simp [hj, d]
    rw [c, f]
    simp [hz j hj, a, b, d, e]
  · by_cases h31 : j = 31
    · simp [h31]
    · have : bits.testBit j = false := testBit_lt_of_lt_two_pow hb (by omega)
      have d : ¬ j < 32 := by omega
      simp [d, h31, this]

/-! ### `RequiredBits` -/

/-- every value up to `maxv` fits in `requiredBits maxv` bits … -/
theorem required_bits_fits (maxv v : Nat) (hm : maxv < 2^64) (hv : v ≤ maxv) :
    v < 2^(requiredBits maxv) := by
  unfold requiredBits
  by_cases h0 : maxv = 0
  · subst h0; simp at hv; subst hv; simp
  · simp only [h0, ↓reduceIte]
    obtain ⟨a, _, c⟩ := requiredBitsLoop_spec 64 maxv 1 (by omega) hm
    have : requiredBitsLoop 64 maxv 1 - 1 + 1 = requiredBitsLoop 64 maxv 1 := by omega
    rw [this] at c
    omega

/-- … and no smaller width would do (minimality). -/
theorem required_bits_minimal (maxv : Nat) (hm : maxv < 2^64) (h0 : maxv ≠ 0) :
    2^(requiredBits maxv - 1) ≤ maxv := by
  unfold requiredBits
  simp only [h0, ↓reduceIte]
  exact (requiredBitsLoop_spec 64 maxv 1 (by omega) hm).2.1

theorem required_bits_le_64 (maxv : Nat) (hm : maxv < 2^64) : requiredBits maxv ≤ 64 := by
  by_cases h0 : maxv = 0
  · subst h0; decide
  · have h := required_bits_minimal maxv hm h0
    have : 2^(requiredBits maxv - 1) < 2^64 := Nat.lt_of_le_of_lt h hm
    have := (Nat.pow_lt_pow_iff_right (a := 2) (by omega)).mp this
    omega

example : requiredBits 255 = 8 ∧ requiredBits 256 = 9 ∧ requiredBits 0 = 0 := by decide

/-! ## Interpolation search (util/sorted_uniform.hh)

"Interpolation search over any sorted array reports a key present exactly when it occurs,
and terminates, for any value distribution."  The statements quantify over every array
(function on positions), every key and **every** acceptable pivot; `Pivot32` and `Pivot64`
are proved acceptable, the latter for every possible floating-point result. -/
open KV.Search

theorem pivot32_acceptable : PivotOK pivot32 := pivot32_ok
theorem pivot64_acceptable (f : Nat → Nat → Nat → Nat) : PivotOK (pivot64 f) := pivot64_ok f

/-- `BoundedSortedUniformFind` answers "present" exactly when the key occurs strictly
between the bounds, and the position it returns holds the key.  `hi - lo` iterations
suffice (fuel `hi - lo - 1`), so the loop terminates. -/
theorem bounded_find_correct (a : Nat → Nat) (pivot) (hp : PivotOK pivot) (key fuel lo loV hi hiV : Nat)
    (hs : SortedIn a lo hi) (hl : loV ≤ key) (hh : key ≤ hiV) (hf : hi - lo ≤ fuel + 1) :
    ((bfind a pivot key fuel lo loV hi hiV).isSome ↔ ∃ q, lo < q ∧ q < hi ∧ a q = key) ∧
    (∀ p, bfind a pivot key fuel lo loV hi hiV = some p → a p = key ∧ lo < p ∧ p < hi) := by
  refine ⟨⟨?_, ?_⟩, fun p h => bfind_sound a pivot key hp fuel lo loV hi hiV p hl hh h⟩
  · intro h
    obtain ⟨p, hp'⟩ := Option.isSome_iff_exists.mp h
    have := bfind_sound a pivot key hp fuel lo loV hi hiV p hl hh hp'
    exact ⟨p, this.2.1, this.2.2, this.1⟩
  · intro h
    obtain ⟨p, hp'⟩ := bfind_complete a pivot key hp fuel lo loV hi hiV hs hl hh hf h
    simp [hp']

/-- every position the search reads lies strictly inside the bounds (no out-of-range read) -/
theorem bounded_find_probes_in_range (a : Nat → Nat) (pivot) (hp : PivotOK pivot)
    (key fuel lo loV hi hiV : Nat) (hl : loV ≤ key) (hh : key ≤ hiV) :
    ∀ p ∈ probes a pivot key fuel lo loV hi hiV, lo < p ∧ p < hi :=
  probes_in_range a pivot key hp fuel lo loV hi hiV hl hh

/-- termination: the result does not depend on the fuel once it covers the range -/
theorem bounded_find_terminates (a : Nat → Nat) (pivot) (hp : PivotOK pivot) (key f1 f2 lo loV hi hiV : Nat)
    (hl : loV ≤ key) (hh : key ≤ hiV) (h1 : hi - lo ≤ f1 + 1) (h2 : hi - lo ≤ f2 + 1) :
    bfind a pivot key f1 lo loV hi hiV = bfind a pivot key f2 lo loV hi hiV :=
  bfind_fuel a pivot key hp f1 f2 lo loV hi hiV hl hh h1 h2

/-- `SortedUniformFind` over `[b, e)`: present exactly when the key occurs. -/
theorem sorted_uniform_correct (a : Nat → Nat) (pivot) (hp : PivotOK pivot) (key b e : Nat)
    (hle : b ≤ e) (hs : ∀ i j, b ≤ i → i ≤ j → j < e → a i ≤ a j) :
    ((sortedUniformFind a pivot key b e).isSome ↔ ∃ q, b ≤ q ∧ q < e ∧ a q = key) ∧
    (∀ p, sortedUniformFind a pivot key b e = some p → a p = key ∧ b ≤ p ∧ p < e) := by
  unfold sortedUniformFind
  by_cases hbe : b = e
  · subst hbe
    simp only [↓reduceIte]
    refine ⟨⟨by simp, fun ⟨q, h1, h2, _⟩ => by omega⟩, by simp⟩
  · simp only [hbe, ↓reduceIte]
    have hlt : b < e := by omega
    by_cases h1 : key ≤ a b
    · simp only [h1, ↓reduceIte]
      by_cases h2 : key = a b
      · simp only [h2, ↓reduceIte]
        refine ⟨⟨fun _ => ⟨b, by omega, hlt, rfl⟩, by simp⟩, ?_⟩
        intro p h; injection h with h; subst h; exact ⟨rfl, by omega, hlt⟩
      · simp only [h2, ↓reduceIte]
        refine ⟨⟨by simp, ?_⟩, by simp⟩
        intro ⟨q, h3, h4, h5⟩
        have := hs b q (by omega) h3 h4
        omega
    · simp only [h1, ↓reduceIte]
      by_cases h3 : key ≥ a (e - 1)
      · simp only [h3, ↓reduceIte]
        by_cases h4 : key = a (e - 1)
        · simp only [h4, ↓reduceIte]
          refine ⟨⟨fun _ => ⟨e - 1, by omega, by omega, rfl⟩, by simp⟩, ?_⟩
          intro p h; injection h with h; subst h; exact ⟨rfl, by omega, by omega⟩
        · simp only [h4, ↓reduceIte]
          refine ⟨⟨by simp, ?_⟩, by simp⟩
          intro ⟨q, h5, h6, h7⟩
          have := hs q (e - 1) h5 (by omega) (by omega)
          omega
      · simp only [h3, ↓reduceIte]
        have hsi : SortedIn a b (e - 1) := fun i j hi hij hj => hs i j (by omega) hij (by omega)
        have core := bounded_find_correct a pivot hp key (e - 1 - b) b (a b) (e - 1) (a (e - 1)) hsi
          (by omega) (by omega) (by omega)
        refine ⟨⟨fun h => ?_, fun ⟨q, h5, h6, h7⟩ => ?_⟩, fun p h => ?_⟩
        · obtain ⟨q, h5, h6, h7⟩ := core.1.mp h
          exact ⟨q, by omega, by omega, h7⟩
        · apply core.1.mpr
          refine ⟨q, ?_, ?_, h7⟩
          · rcases Nat.lt_or_ge b q with h | h
            · exact h
            · have : q = b := by omega
              subst this; omega
          · rcases Nat.lt_or_ge q (e - 1) with h | h
            · exact h
            · have : q = e - 1 := by omega
              subst this; omega
        · have := core.2 p h; omega

/-- `BinaryFind` over `[b, e)` with `e - b` iterations at most. -/
theorem binary_find_correct (a : Nat → Nat) (key fuel b e : Nat)
    (hs : ∀ i j, b ≤ i → i ≤ j → j < e → a i ≤ a j) (hf : e - b ≤ fuel) :
    ((binaryFind a key fuel b e).isSome ↔ ∃ q, b ≤ q ∧ q < e ∧ a q = key) ∧
    (∀ p, binaryFind a key fuel b e = some p → a p = key ∧ b ≤ p ∧ p < e) := by
  refine ⟨⟨?_, ?_⟩, fun p h => binaryFind_sound a key fuel b e p h⟩
  · intro h
    obtain ⟨p, hp'⟩ := Option.isSome_iff_exists.mp h
    have := binaryFind_sound a key fuel b e p hp'
    exact ⟨p, this.2.1, this.2.2, this.1⟩
  · intro h
    obtain ⟨p, hp'⟩ := binaryFind_complete a key fuel b e hs hf h
    simp [hp']

/-- non-vacuity: a two-valued array with duplicates, probed through `Pivot32` -/
example : sortedUniformFind (fun i => if i < 3 then 7 else if i < 5 then 8 else 9) pivot32 8 0 7 = some 4 ∧
          sortedUniformFind (fun i => if i < 3 then 7 else 9) pivot32 8 0 6 = none := by decide

end KV.C20
