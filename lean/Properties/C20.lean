import Proofs.Bits
/-!
# C20 — Core lookup primitives behave as exact maps and arrays  (bit-packing clause)

"A value written into a bit-packed array at any bit offset and width is read back
unchanged and leaves all neighbouring bits untouched."
Memory is a little-endian `Nat`; `bitOff` is any natural number (so "any offset mod 8").
-/
namespace KV.C20
open KV.Bits

/-- ReadInt57 reads exactly the `len`-bit field at `off` whenever the field fits in the
64-bit window, i.e. `off % 8 + len ≤ 64`; guaranteed by `len ≤ 57`. -/
theorem read_eq (m off len : Nat) (h : off % 8 + len ≤ 64) :
    readInt57 m off len = (m >>> off) % 2^len := by
  apply Nat.eq_of_testBit_eq
  intro j
  rw [testBit_readInt57, Nat.testBit_mod_two_pow, Nat.testBit_shiftRight]
  by_cases hj : j < len
  · have : off % 8 + j < 64 := by omega
    simp [hj, this]
  · simp [hj]

theorem read_eq_57 (m off len : Nat) (h : len ≤ 57) :
    readInt57 m off len = (m >>> off) % 2^len :=
  read_eq m off len (by omega)

/-- the target field is zero before the write (the documented contract of `Write*`) -/
def FieldZero (m off len : Nat) : Prop := ∀ j, j < len → m.testBit (off + j) = false

/-- every bit of memory after `WriteInt57`, for a value that fits and a width ≤ 57 -/
theorem write_bits (m off len v : Nat) (hlen : len ≤ 57) (hv : v < 2^len) (i : Nat) :
    (writeInt57 m off len v).testBit i =
      (m.testBit i || (decide (off ≤ i) && decide (i < off + len) && v.testBit (i - off))) := by
  rw [testBit_writeInt57]
  by_cases h1 : off ≤ i
  · by_cases h2 : i < off + len
    · have a : 8 * (off / 8) ≤ i := by omega
      have b : i - 8 * (off / 8) < 64 := by omega
      have c : off % 8 ≤ i - 8 * (off / 8) := by omega
      have d : i - 8 * (off / 8) - off % 8 = i - off := by omega
      simp [h1, h2, a, b, c, d]
    · have hz : v.testBit (i - off) = false := testBit_lt_of_lt_two_pow hv (by omega)
      by_cases a : 8 * (off / 8) ≤ i
      · by_cases c : off % 8 ≤ i - 8 * (off / 8)
        · have d : i - 8 * (off / 8) - off % 8 = i - off := by omega
          simp [h1, h2, a, c, d, hz]
        · simp [h1, h2, a, c]
      · simp [h1, h2, a]
  · have : ¬ (8 * (off / 8) ≤ i ∧ off % 8 ≤ i - 8 * (off / 8)) := by omega
    by_cases a : 8 * (off / 8) ≤ i
    · have c : ¬ off % 8 ≤ i - 8 * (off / 8) := by omega
      simp [h1, a, c]
    · simp [h1, a]

/-- **neighbouring bits untouched** -/
theorem write_frame (m off len v : Nat) (hlen : len ≤ 57) (hv : v < 2^len) (i : Nat)
    (hi : i < off ∨ off + len ≤ i) :
    (writeInt57 m off len v).testBit i = m.testBit i := by
  rw [write_bits m off len v hlen hv]
  rcases hi with hi | hi
  · have : ¬ off ≤ i := by omega
    simp [this]
  · have : ¬ i < off + len := by omega
    simp [this]

/-- **read back unchanged** -/
theorem write_read (m off len v : Nat) (hlen : len ≤ 57) (hv : v < 2^len)
    (hz : FieldZero m off len) :
    readInt57 (writeInt57 m off len v) off len = v := by
  rw [read_eq_57 _ _ _ hlen]
  apply Nat.eq_of_testBit_eq
  intro j
  rw [Nat.testBit_mod_two_pow, Nat.testBit_shiftRight, write_bits m off len v hlen hv]
  by_cases hj : j < len
  · have a : off ≤ off + j := by omega
    have b : off + j < off + len := by omega
    have c : off + j - off = j := by omega
    simp [hj, hz j hj, a, b, c]
  · have : v.testBit j = false := testBit_lt_of_lt_two_pow hv (by omega)
    simp [hj, this]

/-- a later write to a disjoint field does not disturb an earlier one -/
theorem write_read_other (m off len v off' len' : Nat) (hlen : len ≤ 57) (hv : v < 2^len)
    (hlen' : len' ≤ 57) (hd : off' + len' ≤ off ∨ off + len ≤ off') :
    readInt57 (writeInt57 m off len v) off' len' = readInt57 m off' len' := by
  rw [read_eq_57 _ _ _ hlen', read_eq_57 _ _ _ hlen']
  apply Nat.eq_of_testBit_eq
  intro j
  rw [Nat.testBit_mod_two_pow, Nat.testBit_mod_two_pow, Nat.testBit_shiftRight, Nat.testBit_shiftRight]
  by_cases hj : j < len'
  · rw [write_frame m off len v hlen hv (off' + j) (by omega)]
  · simp [hj]

example : FieldZero 0xFF00FF 8 8 ∧ (0xAB : Nat) < 2^8 ∧ readInt57 (writeInt57 0xFF00FF 8 8 0xAB) 8 8 = 0xAB := by
  refine ⟨?_, by decide, by decide⟩
  intro j hj
  have : j = 0 ∨ j = 1 ∨ j = 2 ∨ j = 3 ∨ j = 4 ∨ j = 5 ∨ j = 6 ∨ j = 7 := by omega
  rcases this with h|h|h|h|h|h|h|h <;> subst h <;> decide

end KV.C20
