import Proofs.Bits
import Proofs.Search
import Proofs.ProbingAuto
import Proofs.ProbingP2
import Proofs.ProbingAutoP2Run
import Proofs.ProbingAutoInserts
import Proofs.ProbingRunD
import Proofs.VocabTop
/-!
# C20 — Core lookup primitives behave as exact maps and arrays  (bit-packing clause)

"A value written into a bit-packed array at any bit offset and width is read back
unchanged and leaves all neighbouring bits untouched."
Memory is a little-endian `Nat`; `bitOff` is any natural number (so "any offset mod 8").
-/
namespace KV.C20
open KV.Bits

/-- ReadInt57 reads exactly the `len`-bit field at `off` whenever the field fits in the
64-bit window, i.e. `off % 8 + len ≤ 64`; guaranteed by `len ≤ 57`. -/
theorem read_eq (m off len : Nat) (h : off % 8 + len ≤ 64) :
    readInt57 m off len = (m >>> off) % 2^len := by
  apply Nat.eq_of_testBit_eq
  intro j
  rw [testBit_readInt57, Nat.testBit_mod_two_pow, Nat.testBit_shiftRight]
  by_cases hj : j < len
  · have : off % 8 + j < 64 := by omega
    simp [hj, this]
  · simp [hj]

theorem read_eq_57 (m off len : Nat) (h : len ≤ 57) :
    readInt57 m off len = (m >>> off) % 2^len :=
  read_eq m off len (by omega)

/-- the target field is zero before the write (the documented contract of `Write*`) -/
def FieldZero (m off len : Nat) : Prop := ∀ j, j < len → m.testBit (off + j) = false

/-- every bit of memory after `WriteInt57`, for a value that fits and a width ≤ 57 -/
theorem write_bits (m off len v : Nat) (hlen : len ≤ 57) (hv : v < 2^len) (i : Nat) :
    (writeInt57 m off len v).testBit i =
      (m.testBit i || (decide (off ≤ i) && decide (i < off + len) && v.testBit (i - off))) := by
  rw [testBit_writeInt57]
  by_cases h1 : off ≤ i
  · by_cases h2 : i < off + len
    · have a : 8 * (off / 8) ≤ i := by omega
      have b : i - 8 * (off / 8) < 64 := by omega
      have c : off % 8 ≤ i - 8 * (off / 8) := by omega
      have d : i - 8 * (off / 8) - off % 8 = i - off := by omega
      simp [h1, h2, a, b, c, d]
    · have hz : v.testBit (i - off) = false := testBit_lt_of_lt_two_pow hv (by omega)
      by_cases a : 8 * (off / 8) ≤ i
      · by_cases c : off % 8 ≤ i - 8 * (off / 8)
        · have d : i - 8 * (off / 8) - off % 8 = i - off := by omega
          simp [h1, h2, a, c, d, hz]
        · simp [h1, h2, a, c]
      · simp [h1, h2, a]
  · have : ¬ (8 * (off / 8) ≤ i ∧ off % 8 ≤ i - 8 * (off / 8)) := by omega
    by_cases a : 8 * (off / 8) ≤ i
    · have c : ¬ off % 8 ≤ i - 8 * (off / 8) := by omega
      simp [h1, a, c]
    · simp [h1, a]

/-- **neighbouring bits untouched** -/
theorem write_frame (m off len v : Nat) (hlen : len ≤ 57) (hv : v < 2^len) (i : Nat)
    (hi : i < off ∨ off + len ≤ i) :
    (writeInt57 m off len v).testBit i = m.testBit i := by
  rw [write_bits m off len v hlen hv]
  rcases hi with hi | hi
  · have : ¬ off ≤ i := by omega
    simp [this]
  · have : ¬ i < off + len := by omega
    simp [this]

/-- **read back unchanged** -/
theorem write_read (m off len v : Nat) (hlen : len ≤ 57) (hv : v < 2^len)
    (hz : FieldZero m off len) :
    readInt57 (writeInt57 m off len v) off len = v := by
  rw [read_eq_57 _ _ _ hlen]
  apply Nat.eq_of_testBit_eq
  intro j
  rw [Nat.testBit_mod_two_pow, Nat.testBit_shiftRight, write_bits m off len v hlen hv]
  by_cases hj : j < len
  · have a : off ≤ off + j := by omega
    have b : off + j < off + len := by omega
    have c : off + j - off = j := by omega
    simp [hj, hz j hj, a, b, c]
  · have : v.testBit j = false := testBit_lt_of_lt_two_pow hv (by omega)
    simp [hj, this]

/-- a later write to a disjoint field does not disturb an earlier one -/
theorem write_read_other (m off len v off' len' : Nat) (hlen : len ≤ 57) (hv : v < 2^len)
    (hlen' : len' ≤ 57) (hd : off' + len' ≤ off ∨ off + len ≤ off') :
    readInt57 (writeInt57 m off len v) off' len' = readInt57 m off' len' := by
  rw [read_eq_57 _ _ _ hlen', read_eq_57 _ _ _ hlen']
  apply Nat.eq_of_testBit_eq
  intro j
  rw [Nat.testBit_mod_two_pow, Nat.testBit_mod_two_pow, Nat.testBit_shiftRight, Nat.testBit_shiftRight]
  by_cases hj : j < len'
  · rw [write_frame m off len v hlen hv (off' + j) (by omega)]
  · simp [hj]

example : FieldZero 0xFF00FF 8 8 ∧ (0xAB : Nat) < 2^8 ∧ readInt57 (writeInt57 0xFF00FF 8 8 0xAB) 8 8 = 0xAB := by
  refine ⟨?_, by decide, by decide⟩
  intro j hj
  have : j = 0 ∨ j = 1 ∨ j = 2 ∨ j = 3 ∨ j = 4 ∨ j = 5 ∨ j = 6 ∨ j = 7 := by omega
  rcases this with h|h|h|h|h|h|h|h <;> subst h <;> decide

/-! ### 32-bit window: `ReadInt25` / `WriteInt25` (width ≤ 25) -/

theorem read25_eq (m off len : Nat) (h : len ≤ 25) :
    readInt25 m off len = (m >>> off) % 2^len := by
  apply Nat.eq_of_testBit_eq
  intro j
  rw [testBit_readInt25, Nat.testBit_mod_two_pow, Nat.testBit_shiftRight]
  by_cases hj : j < len
  · have : off % 8 + j < 32 := by omega
    simp [hj, this]
  · simp [hj]

theorem write25_bits (m off len v : Nat) (hlen : len ≤ 25) (hv : v < 2^len) (i : Nat) :
    (writeInt25 m off len v).testBit i =
      (m.testBit i || (decide (off ≤ i) && decide (i < off + len) && v.testBit (i - off))) := by
  rw [testBit_writeInt25]
  by_cases h1 : off ≤ i
  · by_cases h2 : i < off + len
    · have a : 8 * (off / 8) ≤ i := by omega
      have b : i - 8 * (off / 8) < 32 := by omega
      have c : off % 8 ≤ i - 8 * (off / 8) := by omega
      have d : i - 8 * (off / 8) - off % 8 = i - off := by omega
      simp [h1, h2, a, b, c, d]
    · have hz : v.testBit (i - off) = false := testBit_lt_of_lt_two_pow hv (by omega)
      by_cases a : 8 * (off / 8) ≤ i
      · by_cases c : off % 8 ≤ i - 8 * (off / 8)
        · have d : i - 8 * (off / 8) - off % 8 = i - off := by omega
          simp [h1, h2, a, c, d, hz]
        · simp [h1, h2, a, c]
      · simp [h1, h2, a]
  · by_cases a : 8 * (off / 8) ≤ i
    · have c : ¬ off % 8 ≤ i - 8 * (off / 8) := by omega
      simp [h1, a, c]
    · simp [h1, a]

theorem write25_frame (m off len v : Nat) (hlen : len ≤ 25) (hv : v < 2^len) (i : Nat)
    (hi : i < off ∨ off + len ≤ i) :
    (writeInt25 m off len v).testBit i = m.testBit i := by
  rw [write25_bits m off len v hlen hv]
  rcases hi with hi | hi
  · have : ¬ off ≤ i := by omega
    simp [this]
  · have : ¬ i < off + len := by omega
    simp [this]

theorem write25_read (m off len v : Nat) (hlen : len ≤ 25) (hv : v < 2^len)
    (hz : FieldZero m off len) :
    readInt25 (writeInt25 m off len v) off len = v := by
  rw [read25_eq _ _ _ hlen]
  apply Nat.eq_of_testBit_eq
  intro j
  rw [Nat.testBit_mod_two_pow, Nat.testBit_shiftRight, write25_bits m off len v hlen hv]
  by_cases hj : j < len
  · have a : off ≤ off + j := by omega
    have b : off + j < off + len := by omega
    have c : off + j - off = j := by omega
    simp [hj, hz j hj, a, b, c]
  · have : v.testBit j = false := testBit_lt_of_lt_two_pow hv (by omega)
    simp [hj, this]

/-! ### floats: 32 stored bits, and 31 stored bits with the sign forced on -/

theorem float32_write_read (m off bits : Nat) (hb : bits < 2^32) (hz : FieldZero m off 32) :
    readFloat32 (writeFloat32 m off bits) off = bits := by
  apply Nat.eq_of_testBit_eq
  intro j
  rw [testBit_readFloat32]
  unfold writeFloat32
  rw [write_bits m off 32 bits (by omega) hb]
  by_cases hj : j < 32
  · have a : off ≤ off + j := by omega
    have b : off + j < off + 32 := by omega
    have c : off + j - off = j := by omega
    simp [hj, hz j hj, a, b, c]
  · have : bits.testBit j = false := testBit_lt_of_lt_two_pow hb (by omega)
    simp [hj, this]

theorem float32_write_frame (m off bits : Nat) (hb : bits < 2^32) (i : Nat)
    (hi : i < off ∨ off + 32 ≤ i) :
    (writeFloat32 m off bits).testBit i = m.testBit i :=
  write_frame m off 32 bits (by omega) hb i hi

theorem testBit_kSignBit (j : Nat) : kSignBit.testBit j = decide (j = 31) := by
  have : kSignBit = 2^31 := by decide
  rw [this, Nat.testBit_two_pow]
  by_cases h : j = 31 <;> simp [h, eq_comm]

/-- Whatever the neighbouring field holds, a non-positive float (sign bit set) stored in 31
bits is read back unchanged; a value with the sign clear comes back with the sign set
(`+0.0 ↦ -0.0`), which is the documented meaning of "NonPositive". -/
theorem float31_write_read (m off bits : Nat) (hb : bits < 2^32) (hz : FieldZero m off 31) :
    readNonPositiveFloat31 (writeNonPositiveFloat31 m off bits) off = bits ||| kSignBit := by
  apply Nat.eq_of_testBit_eq
  intro j
  unfold readNonPositiveFloat31 writeNonPositiveFloat31
  have h32 := testBit_readFloat32 (writeInt57 m off 31 (bits % 2^32 % 2^31)) off j
  unfold readFloat32 at h32
  rw [Nat.testBit_or, h32, Nat.testBit_or, testBit_kSignBit]
  have hv : bits % 2^32 % 2^31 < 2^31 := Nat.mod_lt _ (by decide)
  rw [write_bits m off 31 _ (by omega) hv]
  by_cases hj : j < 31
  · have a : off ≤ off + j := by omega
    have b : off + j < off + 31 := by omega
    have c : off + j - off = j := by omega
    have d : j < 32 := by omega
    have e : ¬ j = 31 := by omega
    have f : (bits % 2^32 % 2^31).testBit j = bits.testBit j := by
      rw [Nat.testBit_mod_two_pow, Nat.testBit_mod_two_pow]; simp [hj, d]
    rw [c, f]
    simp [hz j hj, a, b, d, e]
  · by_cases h31 : j = 31
    · simp [h31]
    · have : bits.testBit j = false := testBit_lt_of_lt_two_pow hb (by omega)
      have d : ¬ j < 32 := by omega
      simp [d, h31, this]

/-! ### `RequiredBits` -/

/-- every value up to `maxv` fits in `requiredBits maxv` bits … -/
theorem required_bits_fits (maxv v : Nat) (hm : maxv < 2^64) (hv : v ≤ maxv) :
    v < 2^(requiredBits maxv) := by
  unfold requiredBits
  by_cases h0 : maxv = 0
  · subst h0; simp at hv; subst hv; simp
  · simp only [h0, ↓reduceIte]
    obtain ⟨a, _, c⟩ := requiredBitsLoop_spec 64 maxv 1 (by omega) hm
    have : requiredBitsLoop 64 maxv 1 - 1 + 1 = requiredBitsLoop 64 maxv 1 := by omega
    rw [this] at c
    omega

/-- … and no smaller width would do (minimality). -/
theorem required_bits_minimal (maxv : Nat) (hm : maxv < 2^64) (h0 : maxv ≠ 0) :
    2^(requiredBits maxv - 1) ≤ maxv := by
  unfold requiredBits
  simp only [h0, ↓reduceIte]
  exact (requiredBitsLoop_spec 64 maxv 1 (by omega) hm).2.1

theorem required_bits_le_64 (maxv : Nat) (hm : maxv < 2^64) : requiredBits maxv ≤ 64 := by
  by_cases h0 : maxv = 0
  · subst h0; decide
  · have h := required_bits_minimal maxv hm h0
    have : 2^(requiredBits maxv - 1) < 2^64 := Nat.lt_of_le_of_lt h hm
    have := (Nat.pow_lt_pow_iff_right (a := 2) (by omega)).mp this
    omega

example : requiredBits 255 = 8 ∧ requiredBits 256 = 9 ∧ requiredBits 0 = 0 := by decide

/-! ## Interpolation search (util/sorted_uniform.hh)

"Interpolation search over any sorted array reports a key present exactly when it occurs,
and terminates, for any value distribution."  The statements quantify over every array
(function on positions), every key and **every** acceptable pivot; `Pivot32` and `Pivot64`
are proved acceptable, the latter for every possible floating-point result. -/
open KV.Search

theorem pivot32_acceptable : PivotOK pivot32 := pivot32_ok
theorem pivot64_acceptable (f : Nat → Nat → Nat → Nat) : PivotOK (pivot64 f) := pivot64_ok f

/-- `BoundedSortedUniformFind` answers "present" exactly when the key occurs strictly
between the bounds, and the position it returns holds the key.  `hi - lo` iterations
suffice (fuel `hi - lo - 1`), so the loop terminates. -/
theorem bounded_find_correct (a : Nat → Nat) (pivot) (hp : PivotOK pivot) (key fuel lo loV hi hiV : Nat)
    (hs : SortedIn a lo hi) (hl : loV ≤ key) (hh : key ≤ hiV) (hf : hi - lo ≤ fuel + 1) :
    ((bfind a pivot key fuel lo loV hi hiV).isSome ↔ ∃ q, lo < q ∧ q < hi ∧ a q = key) ∧
    (∀ p, bfind a pivot key fuel lo loV hi hiV = some p → a p = key ∧ lo < p ∧ p < hi) := by
  refine ⟨⟨?_, ?_⟩, fun p h => bfind_sound a pivot key hp fuel lo loV hi hiV p hl hh h⟩
  · intro h
    obtain ⟨p, hp'⟩ := Option.isSome_iff_exists.mp h
    have := bfind_sound a pivot key hp fuel lo loV hi hiV p hl hh hp'
    exact ⟨p, this.2.1, this.2.2, this.1⟩
  · intro h
    obtain ⟨p, hp'⟩ := bfind_complete a pivot key hp fuel lo loV hi hiV hs hl hh hf h
    simp [hp']

/-- every position the search reads lies strictly inside the bounds (no out-of-range read) -/
theorem bounded_find_probes_in_range (a : Nat → Nat) (pivot) (hp : PivotOK pivot)
    (key fuel lo loV hi hiV : Nat) (hl : loV ≤ key) (hh : key ≤ hiV) :
    ∀ p ∈ probes a pivot key fuel lo loV hi hiV, lo < p ∧ p < hi :=
  probes_in_range a pivot key hp fuel lo loV hi hiV hl hh

/-- termination: the result does not depend on the fuel once it covers the range -/
theorem bounded_find_terminates (a : Nat → Nat) (pivot) (hp : PivotOK pivot) (key f1 f2 lo loV hi hiV : Nat)
    (hl : loV ≤ key) (hh : key ≤ hiV) (h1 : hi - lo ≤ f1 + 1) (h2 : hi - lo ≤ f2 + 1) :
    bfind a pivot key f1 lo loV hi hiV = bfind a pivot key f2 lo loV hi hiV :=
  bfind_fuel a pivot key hp f1 f2 lo loV hi hiV hl hh h1 h2

/-- `SortedUniformFind` over `[b, e)`: present exactly when the key occurs. -/
theorem sorted_uniform_correct (a : Nat → Nat) (pivot) (hp : PivotOK pivot) (key b e : Nat)
    (hle : b ≤ e) (hs : ∀ i j, b ≤ i → i ≤ j → j < e → a i ≤ a j) :
    ((sortedUniformFind a pivot key b e).isSome ↔ ∃ q, b ≤ q ∧ q < e ∧ a q = key) ∧
    (∀ p, sortedUniformFind a pivot key b e = some p → a p = key ∧ b ≤ p ∧ p < e) := by
  unfold sortedUniformFind
  by_cases hbe : b = e
  · subst hbe
    simp only [↓reduceIte]
    refine ⟨⟨by simp, fun ⟨q, h1, h2, _⟩ => by omega⟩, by simp⟩
  · simp only [hbe, ↓reduceIte]
    have hlt : b < e := by omega
    by_cases h1 : key ≤ a b
    · simp only [h1, ↓reduceIte]
      by_cases h2 : key = a b
      · simp only [h2, ↓reduceIte]
        refine ⟨⟨fun _ => ⟨b, by omega, hlt, rfl⟩, by simp⟩, ?_⟩
        intro p h; injection h with h; subst h; exact ⟨rfl, by omega, hlt⟩
      · simp only [h2, ↓reduceIte]
        refine ⟨⟨by simp, ?_⟩, by simp⟩
        intro ⟨q, h3, h4, h5⟩
        have := hs b q (by omega) h3 h4
        omega
    · simp only [h1, ↓reduceIte]
      by_cases h3 : key ≥ a (e - 1)
      · simp only [h3, ↓reduceIte]
        by_cases h4 : key = a (e - 1)
        · simp only [h4, ↓reduceIte]
          refine ⟨⟨fun _ => ⟨e - 1, by omega, by omega, rfl⟩, by simp⟩, ?_⟩
          intro p h; injection h with h; subst h; exact ⟨rfl, by omega, by omega⟩
        · simp only [h4, ↓reduceIte]
          refine ⟨⟨by simp, ?_⟩, by simp⟩
          intro ⟨q, h5, h6, h7⟩
          have := hs q (e - 1) h5 (by omega) (by omega)
          omega
      · simp only [h3, ↓reduceIte]
        have hsi : SortedIn a b (e - 1) := fun i j hi hij hj => hs i j (by omega) hij (by omega)
        have core := bounded_find_correct a pivot hp key (e - 1 - b) b (a b) (e - 1) (a (e - 1)) hsi
          (by omega) (by omega) (by omega)
        refine ⟨⟨fun h => ?_, fun ⟨q, h5, h6, h7⟩ => ?_⟩, fun p h => ?_⟩
        · obtain ⟨q, h5, h6, h7⟩ := core.1.mp h
          exact ⟨q, by omega, by omega, h7⟩
        · apply core.1.mpr
          refine ⟨q, ?_, ?_, h7⟩
          · rcases Nat.lt_or_ge b q with h | h
            · exact h
            · have : q = b := by omega
              subst this; omega
          · rcases Nat.lt_or_ge q (e - 1) with h | h
            · exact h
            · have : q = e - 1 := by omega
              subst this; omega
        · have := core.2 p h; omega

/-- `BinaryFind` over `[b, e)` with `e - b` iterations at most. -/
theorem binary_find_correct (a : Nat → Nat) (key fuel b e : Nat)
    (hs : ∀ i j, b ≤ i → i ≤ j → j < e → a i ≤ a j) (hf : e - b ≤ fuel) :
    ((binaryFind a key fuel b e).isSome ↔ ∃ q, b ≤ q ∧ q < e ∧ a q = key) ∧
    (∀ p, binaryFind a key fuel b e = some p → a p = key ∧ b ≤ p ∧ p < e) := by
  refine ⟨⟨?_, ?_⟩, fun p h => binaryFind_sound a key fuel b e p h⟩
  · intro h
    obtain ⟨p, hp'⟩ := Option.isSome_iff_exists.mp h
    have := binaryFind_sound a key fuel b e p hp'
    exact ⟨p, this.2.1, this.2.2, this.1⟩
  · intro h
    obtain ⟨p, hp'⟩ := binaryFind_complete a key fuel b e hs hf h
    simp [hp']

/-- non-vacuity: a two-valued array with duplicates, probed through `Pivot32` -/
example : sortedUniformFind (fun i => if i < 3 then 7 else if i < 5 then 8 else 9) pivot32 8 0 7 = some 4 ∧
          sortedUniformFind (fun i => if i < 3 then 7 else 9) pivot32 8 0 6 = none := by decide

/-! ## Probing hash table (util/probing_hash_table.hh)

"A probing hash table finds every key inserted so far with its value and reports every other key
absent, for any insertion sequence that keeps it below capacity, and the growing variant preserves
this across every doubling, including entries that had wrapped around the end; exceeding capacity
raises an exception instead of looping."

Model: `Model/Probing.lean` (`Find`, `Insert`, `FindOrInsert`, `UncheckedInsert`, the three loops of
`Double`, `AutoProbing::{Insert, FindOrInsert, DoubleIfNeeded}`, `Power2Mod`).  The hash `h` is an
arbitrary function, the bucket count any `N ≥ 1`.  `Inv h t`: keys stored once, every bucket between
a key's ideal bucket and its bucket (cyclically) occupied, one empty bucket, `occupied ≤ entries_`.
`Abs t M`: the stored pairs are exactly the map `M`.
-/
section Probing
open KV.Probing

/-- **`Find` returns the value of every inserted key and `absent` for every other key** -/
theorem find_correct (h : Nat → Nat) (t : Table) (M : Nat → Option Nat) (inv : Inv h t) (abs : Abs t M)
    (k : Nat) : find h t k = some (M k) :=
  find_correct' h t M inv abs k

/-- **`Insert` of a fresh key below capacity** succeeds, keeps the invariant and extends the map -/
theorem insert_spec (h : Nat → Nat) (t : Table) (M : Nat → Option Nat) (k v : Nat) (inv : Inv h t)
    (abs : Abs t M) (hM : M k = none) (hc : t.entries + 1 < t.N) :
    ∃ q t', insert h t k v = .ok (q, t') ∧ Inv h t' ∧ Abs t' (upd M k v) ∧
      t'.N = t.N ∧ t'.entries = t.entries + 1 ∧ q < t.N ∧ t'.s q = some (k, v) :=
  insert_spec' h t M k v inv abs hM hc

/-- **exceeding capacity raises instead of looping**: `Insert` throws before its loop, `FindOrInsert`
of an absent key terminates at the empty bucket the invariant guarantees and throws there; the state
left behind (with `entries_` incremented) still satisfies the invariant and represents the same map -/
theorem full_throws (h : Nat → Nat) (t : Table) (M : Nat → Option Nat) (k v : Nat) (inv : Inv h t)
    (abs : Abs t M) (hc : t.entries + 1 ≥ t.N) :
    insert h t k v = .full { t with entries := t.entries + 1 } ∧
    (M k = none → findOrInsert h t k v = .full { t with entries := t.entries + 1 }) ∧
    Inv h { t with entries := t.entries + 1 } ∧ Abs { t with entries := t.entries + 1 } M :=
  ⟨insert_full h t k v hc, fun hM => findOrInsert_full h t M k v inv abs hM hc, Inv_bump h t inv, abs⟩

/-- **`FindOrInsert`**: a present key is found with its value and nothing changes; an absent key is
inserted below capacity -/
theorem findOrInsert_spec (h : Nat → Nat) (t : Table) (M : Nat → Option Nat) (k v : Nat) (inv : Inv h t)
    (abs : Abs t M) :
    (∀ v', M k = some v' →
      ∃ p, findOrInsert h t k v = .ok (true, p, v', t) ∧ p < t.N ∧ t.s p = some (k, v')) ∧
    (M k = none → t.entries + 1 < t.N →
      ∃ p t', findOrInsert h t k v = .ok (false, p, v, t') ∧ Inv h t' ∧ Abs t' (upd M k v) ∧
        t'.N = t.N ∧ t'.entries = t.entries + 1 ∧ p < t.N ∧ t'.s p = some (k, v)) :=
  ⟨fun v' hM => findOrInsert_found h t M k v v' inv abs hM,
   fun hM hc => findOrInsert_new h t M k v inv abs hM hc⟩

/-- **fuel**: the model's `none` ("does not terminate") arises exactly when every bucket holds
another key — then the unbounded C++ loop cycles forever, with any amount of fuel -/
theorem scan_diverges_iff (s : Slots) (N k i : Nat) (hi : i < N) :
    scan s N k N i = none ↔ ∀ x, x < N → ∃ k' v', s x = some (k', v') ∧ k' ≠ k :=
  ⟨scan_none_all_other s N k i hi, fun hall => scan_all_other_none s N k hall N i hi⟩

/-- **any script** of `Insert` (fresh keys) / `FindOrInsert` / `Find` on a table that represents the
specification state produces exactly the outputs of the map-with-capacity specification
(`runSpec`: a map, an insertion counter, "full" once `count + 1 ≥ N`), never diverges, and ends in a
table that again represents the specification state -/
theorem run_refines_map (h : Nat → Nat) (ops : List Op) (t : Table) (σ : Spec) (outs : List Out) (σ' : Spec)
    (r : Ref h t σ) (hs : runSpec σ ops = some (outs, σ')) :
    ∃ t', runT h t ops = some (outs, t') ∧ Ref h t' σ' :=
  run_refines h ops t σ outs σ' r hs

/-- … in particular from the freshly cleared table -/
theorem run_refines_map_from_empty (h : Nat → Nat) (N : Nat) (hN : 0 < N) (ops : List Op) (outs : List Out)
    (σ' : Spec) (hs : runSpec { M := fun _ => none, count := 0, N := N } ops = some (outs, σ')) :
    ∃ t', runT h (emptyTable N) ops = some (outs, t') ∧ Ref h t' σ' :=
  run_refines h ops _ _ outs σ' ⟨Inv_empty h N hN, Abs_empty N, rfl, rfl⟩ hs

/-- **the property in its own words, fixed size**: after inserting any sequence of distinct keys that
keeps the table below capacity (`length < N`), every inserted key is found with its value and every
other key is reported absent — for every hash function and every bucket count -/
theorem inserted_found (h : Nat → Nat) (N : Nat) (kvs : List (Nat × Nat))
    (hd : kvs.Pairwise (fun a b => a.1 ≠ b.1)) (hc : kvs.length < N) :
    ∃ t, runT h (emptyTable N) (insertsOf kvs) = some (kvs.map (fun _ => Out.done), t) ∧
      (∀ k v, (k, v) ∈ kvs → find h t k = some (some v)) ∧
      (∀ k, (∀ v, (k, v) ∉ kvs) → find h t k = some none) :=
  KV.Probing.inserted_found h N kvs hd hc

/-- the `UncheckedInsert` loop fails to terminate exactly on a completely full table -/
theorem firstEmpty_diverges_iff (s : Slots) (N i : Nat) (hi : i < N) :
    firstEmpty s N N i = none ↔ ∀ x, x < N → s x ≠ none :=
  firstEmpty_diverges_iff' s N i hi

/-- a table sized like `ProbingHashTable::Size(n, multiplier)` (`DivMod`: `max(n + 1, ⌊multiplier · n⌋)` buckets,
for whatever value `f` the floating-point product takes) holds any `≤ n` distinct keys without exception -/
theorem sized_table_holds (h : Nat → Nat) (n f : Nat) (kvs : List (Nat × Nat))
    (hd : kvs.Pairwise (fun a b => a.1 ≠ b.1)) (hn : kvs.length ≤ n) :
    ∃ t, runT h (emptyTable (max (n + 1) f)) (insertsOf kvs) = some (kvs.map (fun _ => Out.done), t) ∧
      (∀ k v, (k, v) ∈ kvs → find h t k = some (some v)) ∧
      (∀ k, (∀ v, (k, v) ∉ kvs) → find h t k = some none) :=
  KV.Probing.sized_table_holds h n f kvs hd hn

/-- **the probe loops stay inside the table**: their results do not depend on anything outside buckets
`[0, N)`, and the bucket `UncheckedInsert` writes is one of them -/
theorem probe_reads_in_range (s s' : Slots) (N k fuel i : Nat) (heq : ∀ x, x < N → s x = s' x) (hi : i < N) :
    scan s N k fuel i = scan s' N k fuel i ∧ firstEmpty s N fuel i = firstEmpty s' N fuel i ∧
    (∀ q, firstEmpty s N fuel i = some q → q < N ∧ s q = none) :=
  ⟨scan_in_range s s' N k heq fuel i hi, firstEmpty_in_range s s' N heq fuel i hi,
   fun q hq => firstEmpty_lt s N fuel i q hi hq⟩

/-- **`Double` preserves the table**: all three loops terminate, the result satisfies the invariant
for `2 N`, represents the same map (including every entry that had wrapped around the end),
`entries_` and the number of occupied buckets are unchanged -/
theorem double_preserves (h : Nat → Nat) (t : Table) (M : Nat → Option Nat) (inv : Inv h t) (abs : Abs t M) :
    ∃ t', double h t = some t' ∧ Inv h t' ∧ Abs t' M ∧ t'.N = 2 * t.N ∧ t'.entries = t.entries ∧
      occ t'.s t'.N = occ t.s t.N :=
  double_preserves' h t M inv abs

/-- **`Double` writes only buckets `[0, 2N)`** — the memory the caller handed over — and nothing beyond -/
theorem double_frame (h : Nat → Nat) (t t' : Table) (hN : 0 < t.N) (hd : double h t = some t') :
    ∀ x, 2 * t.N ≤ x → t'.s x = t.s x :=
  KV.Probing.double_frame h t t' hN hd

/-- **scripts that call `Double` explicitly** (any bucket count, `DivMod`): the table refines the map
specification whose capacity doubles at each `Double` -/
theorem run_with_double_refines_map (h : Nat → Nat) (ops : List OpD) (t : Table) (σ : Spec)
    (outs : List (Option Out)) (σ' : Spec) (r : Ref h t σ) (hs : runSpecD σ ops = some (outs, σ')) :
    ∃ t', runTD h t ops = some (outs, t') ∧ Ref h t' σ' :=
  runD_refines h ops t σ outs σ' r hs

/-- a 3-bucket table (not a power of two): two insertions, the third raises, `Double`, then it fits -/
example :
    let r := runTD id (emptyTable 3)
      [.base (.insert 2 20), .base (.insert 5 50), .base (.insert 8 80), .double, .base (.insert 8 80), .base (.find 5)]
    r.map (·.1) = some [some .done, some .done, some .full, none, some .done, some (.got (some 50))] ∧
    r.map (fun r => (r.2.N, r.2.entries)) = some (6, 4) ∧
    r.map (fun r => (List.range 6).map r.2.s) = some [none, none, some (2, 20), some (8, 80), none, some (5, 50)] := by
  decide

/-- **`AutoProbing` refines the plain map across any number of doublings**, for every threshold
function with `θ N ≤ N - 1` and `N ≤ θ (2 N)`: no capacity exception, no divergence -/
theorem auto_refines_map (h : Nat → Nat) (θ : Nat → Nat) (hθ : ThetaOK θ) (ops : List Op) (a : Auto)
    (M : Nat → Option Nat) (outs : List Out) (M' : Nat → Option Nat) (r : ARef h θ a M)
    (hs : runMap M ops = some (outs, M')) :
    ∃ a', runA h θ a ops = some (outs, a') ∧ ARef h θ a' M' :=
  runA_refines h θ hθ ops a M outs M' r hs

/-- … instantiated with the code's threshold `min (N - 1) (0.9 N)` and a fresh table of any size ≥ 1
(`AutoProbing(0)` starts with one bucket) -/
theorem auto_refines_map_real (h : Nat → Nat) (N : Nat) (hN : 0 < N) (ops : List Op) (outs : List Out)
    (M' : Nat → Option Nat) (hs : runMap (fun _ => none) ops = some (outs, M')) :
    ∃ a', runA h thetaReal { t := emptyTable N, thr := thetaReal N } ops = some (outs, a') ∧
      ARef h thetaReal a' M' :=
  runA_refines h thetaReal thetaReal_ok ops _ _ outs M' (auto_init h thetaReal N hN) hs

theorem theta_real_ok : ThetaOK thetaReal := thetaReal_ok

/-! ### `Power2Mod` is `DivMod` on powers of two -/

theorem power2_next_eq (j i : Nat) (hi : i < 2^j) : nextP2 (2^j) i = next (2^j) i := nextP2_eq j i hi
theorem power2_ideal_eq (h : Nat → Nat) (j k : Nat) : idealP2 h (2^j) k = ideal h (2^j) k := idealP2_eq h j k

/-- the constructor of `Power2Mod` accepts exactly the powers of two … -/
theorem power2_ctor_iff (n : Nat) : isPow2 n = true ↔ ∃ j, n = 2^j := isPow2_iff n

/-- … and on those the mask versions of all table operations coincide with the `DivMod` versions,
so every theorem above holds for `ProbingHashTable<…, Power2Mod>` and for `AutoProbing`'s backend -/
theorem power2_ops_eq (h : Nat → Nat) (t : Table) (j : Nat) (hN : t.N = 2^j) (k v : Nat) :
    findPosP2 h t k = findPos h t k ∧ insertP2 h t k v = insert h t k v ∧
    findOrInsertP2 h t k v = findOrInsert h t k v ∧ uncheckedInsertP2 h t k v = uncheckedInsert h t k v :=
  ⟨findPosP2_eq h t j k hN, insertP2_eq h t j k v hN, findOrInsertP2_eq h t j k v hN,
   uncheckedInsertP2_eq h t j k v hN⟩

/-- **`RoundBuckets`** returns the least power of two `≥ x` (for `1 ≤ x ≤ 2^63`) -/
theorem roundBuckets (x : Nat) (h1 : 1 ≤ x) (h2 : x ≤ 2^63) :
    ∃ j, KV.Probing.roundBuckets x = 2^j ∧ x ≤ 2^j ∧ (j = 0 ∨ 2^(j-1) < x) :=
  roundBuckets_spec x h1 h2

/-- `Double` as `Power2Mod` executes it (`mask_ = (mask_ << 1) | 1`, mask versions of `Ideal`/`Next`)
is the `Double` of `double_preserves` -/
theorem power2_double_eq (h : Nat → Nat) (t : Table) (j : Nat) (hN : t.N = 2^j) : doubleP2 h t = double h t :=
  doubleP2_eq h t j hN

/-- **`AutoProbing` as it is compiled** — backend `ProbingHashTable<…, Power2Mod>` with mask arithmetic in
every operation and in `Double` (`runAP2`), initial bucket count `RoundBuckets(x)`, the code's threshold —
refines the plain map on every script: no exception, no divergence, across all doublings -/
theorem auto_refines_map_power2 (h : Nat → Nat) (x : Nat) (h1 : 1 ≤ x) (h2 : x ≤ 2^63) (ops : List Op)
    (outs : List Out) (M' : Nat → Option Nat) (hs : runMap (fun _ => none) ops = some (outs, M')) :
    ∃ a', runAP2 h thetaReal { t := emptyTable (KV.Probing.roundBuckets x), thr := thetaReal (KV.Probing.roundBuckets x) } ops
        = some (outs, a') ∧ ARef h thetaReal a' M' := by
  obtain ⟨j, hj, _, _⟩ := roundBuckets_spec x h1 h2
  have hpos : 0 < KV.Probing.roundBuckets x := by rw [hj]; exact Nat.two_pow_pos j
  obtain ⟨a', hr, r, _⟩ := runAP2_refines h thetaReal thetaReal_ok ops _ _ outs M'
    (auto_init h thetaReal _ hpos) ⟨j, hj⟩ hs
  exact ⟨a', hr, r⟩

/-- **the property in its own words, growing variant** (as compiled: `Power2Mod` backend, `RoundBuckets(x)`
initial buckets, the code's threshold): after inserting any list of distinct keys — of any length, through
however many doublings — every inserted key is found with its value and every other key is absent -/
theorem auto_inserted_found (h : Nat → Nat) (x : Nat) (h1 : 1 ≤ x) (h2 : x ≤ 2^63) (kvs : List (Nat × Nat))
    (hd : kvs.Pairwise (fun a b => a.1 ≠ b.1)) :
    ∃ a, runAP2 h thetaReal { t := emptyTable (KV.Probing.roundBuckets x), thr := thetaReal (KV.Probing.roundBuckets x) }
          (insertsOf kvs) = some (kvs.map (fun _ => Out.done), a) ∧
      (∀ k v, (k, v) ∈ kvs → a.find h k = some (some v)) ∧
      (∀ k, (∀ v, (k, v) ∉ kvs) → a.find h k = some none) :=
  KV.Probing.auto_inserted_found h x h1 h2 kvs hd

example : KV.Probing.roundBuckets 1 = 1 ∧ KV.Probing.roundBuckets 5 = 8 ∧ KV.Probing.roundBuckets 8 = 8 ∧
    KV.Probing.roundBuckets (2^63) = 2^63 ∧ KV.Probing.roundBuckets (2^63 + 1) = 0 := by decide

/-! ### non-vacuity: a concrete table with a wrapped cluster, and its `Double`

Identity hash, 8 buckets; `Insert` 15, 31, 2, 10, 3:  15 → bucket 7, 31 → 7 is taken, wraps to 0,
2 → 2, 10 → 3, 3 → 4.  The invariant of this table is obtained from `run_refines_map_from_empty`
(the hypotheses of all theorems above are satisfiable by a state with a wrapped cluster). -/

def exOps : List Op := [.insert 15 150, .insert 31 310, .insert 2 20, .findOrInsert 10 100, .insert 3 30]
def exSpec : Spec := ((runSpec { M := fun _ => none, count := 0, N := 8 } exOps).map (·.2)).getD ⟨fun _ => none, 0, 0⟩
def exT : Table := ((runT id (emptyTable 8) exOps).map (·.2)).getD (emptyTable 8)

theorem exT_ref : Ref id exT exSpec := by
  obtain ⟨t', h1, r⟩ := run_refines_map_from_empty id 8 (by decide) exOps
    [.done, .done, .done, .foi false 100, .done] exSpec rfl
  have : exT = t' := by unfold exT; rw [h1]; rfl
  rw [this]; exact r

/-- the layout: 31 has wrapped around the end, 10 and 3 are displaced -/
example : (List.range 8).map exT.s = [some (31, 310), none, some (2, 20), some (10, 100), some (3, 30), none, none, some (15, 150)]
    ∧ exT.entries = 5 ∧ ideal id 8 31 = 7 := by decide

example : Inv id exT ∧ Abs exT exSpec.M ∧ exSpec.M 31 = some 310 ∧ exSpec.M 4 = none ∧
    find id exT 31 = some (some 310) ∧ find id exT 4 = some none ∧ find id exT 23 = some none :=
  ⟨exT_ref.inv, exT_ref.abs, rfl, rfl, by decide, by decide, by decide⟩

/-- `insert_spec`'s hypotheses hold for key 23 (ideal bucket 7, wraps to bucket 1) -/
example : exSpec.M 23 = none ∧ exT.entries + 1 < exT.N ∧
    (match insert id exT 23 230 with | .ok (q, _) => q == 1 | _ => false) = true := by decide

/-- `findOrInsert_spec`, both branches: 31 is found at bucket 0 with its value and nothing changes; 23 is new
and lands in bucket 1 (after wrapping from its ideal bucket 7) -/
example : (match findOrInsert id exT 31 5 with | .ok (true, 0, 310, t) => t.entries == 5 | _ => false) = true ∧
    (match findOrInsert id exT 23 230 with | .ok (false, 1, 230, t) => t.entries == 6 | _ => false) = true := by decide

/-- `Power2Mod`: wrap by mask, constructor test -/
example : nextP2 8 7 = 0 ∧ nextP2 8 3 = 4 ∧ idealP2 id 8 31 = 7 ∧ isPow2 8 = true ∧ isPow2 12 = false ∧ isPow2 0 = false ∧
    (doubleP2 id exT).map (fun t => (List.range 16).map t.s) = (double id exT).map (fun t => (List.range 16).map t.s) := by
  decide

/-- `Double` of it: 31 is buffered and wraps again (15 and 31 both have the new ideal bucket 15),
3 moves back into the gap left by 10, 10 moves to the new half -/
example : (double id exT).map (fun t => ((List.range 16).map t.s, t.N, t.entries)) =
    some ([some (31, 310), none, some (2, 20), some (3, 30), none, none, none, none, none, none, some (10, 100),
           none, none, none, none, some (15, 150)], 16, 5) := by decide

example : ∃ t', double id exT = some t' ∧ Inv id t' ∧ Abs t' exSpec.M ∧ find id t' 31 = some (some 310) := by
  obtain ⟨t', h1, inv', abs', _⟩ := double_preserves id exT exSpec.M exT_ref.inv exT_ref.abs
  exact ⟨t', h1, inv', abs', find_correct id t' _ inv' abs' 31⟩

/-- at capacity: a table of 2 buckets holds one entry; the next `Insert` / `FindOrInsert` raises -/
example : (match insert id (emptyTable 2) 5 50 with
           | .ok (_, t) => (match insert id t 7 70 with | .full _ => true | _ => false) &&
                           (match findOrInsert id t 7 70 with | .full _ => true | _ => false) &&
                           (find id t 7 == some none)
           | _ => false) = true := by decide

/-- the rolled-over buffer is necessary: without it (`doubleNoRoll`) the 4-bucket table {7 ↦ bucket 3,
3 ↦ wrapped to bucket 0} loses key 3 (it is re-inserted behind 7, and then 7 moves away) -/
theorem double_without_rollover_loses :
    let t := ((runT id (emptyTable 4) [.insert 7 70, .insert 3 30]).map (·.2)).getD (emptyTable 4)
    find id t 3 = some (some 30) ∧
    ((doubleNoRoll id t).bind fun t' => find id t' 3) = some none ∧
    ((double id t).bind fun t' => find id t' 3) = some (some 30) := by decide

/-- `AutoProbing(0)`: one bucket, threshold 0; ten insertions go through four doublings -/
example : (runA id thetaReal { t := emptyTable 1, thr := thetaReal 1 }
            ((List.range 10).map fun i => Op.insert (8 * i + 7) i)).map (fun r => (r.2.t.N, r.2.t.entries, r.2.thr)) =
    some (16, 10, 14) := by decide

/-- the same ten insertions through the literal `Power2Mod` code path -/
example : (runAP2 id thetaReal { t := emptyTable 1, thr := thetaReal 1 }
            ((List.range 10).map fun i => Op.insert (8 * i + 7) i)).map (fun r => (r.2.t.N, r.2.t.entries, r.2.thr)) =
    some (16, 10, 14) := by decide

end Probing

/-! ## Vocabularies (lm/vocab.hh, lm/vocab.cc) on top of the probing table and the interpolation search

Model: `Model/Vocab.lean`.  Words are represented by their 64-bit MurmurHash (abstract); the word-level
statements take injectivity of the hash on the words that occur as an explicit hypothesis (`InjOn`), and
`hash w ≠ 0` (0 is the invalid key of these tables: a word hashing to 0 is outside the C++ contract).
-/
section Vocabularies
open KV.Probing KV.Vocab

/-- **`GrowableVocab` (lmplz): the ids of a token stream do not depend on the initial size of the
`AutoProbing` table, hence not on its doubling history** — in the shape of KV.C07's hypothesis
`h_vocab : ∀ m, I.encode m text = ids text` (`I.encode m := growableIds … (xOf m)`, `ids := firstOccurrenceIds …`):
for every memory configuration `m` the id sequences `CorpusCount` appends are the positions of first
occurrence among the distinct words, `<unk>`, `<s>`, `</s>` being 0, 1, 2 (and dropped from the lines).
General in: the word type, the hash (injective on the occurring words), the text, the configuration type and
its map to the `RoundBuckets` argument (any value in `[1, 2^63]`, see `initial_arg_ok`). -/
theorem vocab_ids_indep {Mem W : Type} [DecidableEq W] (hash : W → Nat) (unk bos eos : W) (unkCapHash : Nat)
    (xOf : Mem → Nat) (hx : ∀ m, 1 ≤ xOf m ∧ xOf m ≤ 2^63) (text : List (List W))
    (hsp : unk ≠ bos ∧ unk ≠ eos ∧ bos ≠ eos)
    (hinj : InjOn hash ([unk, bos, eos] ++ text.flatten))
    (hnz : ∀ w, w ∈ [unk, bos, eos] ++ text.flatten → hash w ≠ 0)
    (hmax : (specEncode unk bos eos text).2 < kWordIndexMax) :
    ∀ m, growableIds hash unk bos eos unkCapHash (xOf m) text = firstOccurrenceIds unk bos eos text :=
  vocab_ids_indep' hash unk bos eos unkCapHash xOf hx text hsp hinj hnz hmax

/-- the full result (ids and `type_count_`), for one initial size -/
theorem vocab_ids_first_occurrence {W : Type} [DecidableEq W] (hash : W → Nat) (unk bos eos : W) (unkCapHash : Nat)
    (text : List (List W)) (hsp : unk ≠ bos ∧ unk ≠ eos ∧ bos ≠ eos)
    (hinj : InjOn hash ([unk, bos, eos] ++ text.flatten))
    (hnz : ∀ w, w ∈ [unk, bos, eos] ++ text.flatten → hash w ≠ 0)
    (hmax : (specEncode unk bos eos text).2 < kWordIndexMax) (x : Nat) (h1 : 1 ≤ x) (h2 : x ≤ 2^63) :
    growableEncode ⟨hash unk, unkCapHash, hash bos, hash eos⟩ x (text.map (·.map hash)) =
      .ok (specEncode unk bos eos text) :=
  growable_ids_first_occurrence hash unk bos eos unkCapHash text hsp hinj hnz hmax x h1 h2

/-- every 32-bit `initial_size` gives an admissible `RoundBuckets` argument -/
theorem vocab_initial_arg_ok (init fl : Nat) (hi : init < 2^32) (hf : fl ≤ 2^63) :
    1 ≤ max (init + 1) fl ∧ max (init + 1) fl ≤ 2^63 := initial_arg_ok init fl hi hf

/-- injective hashes transport positions: the bridge between the hash-level statements below and words -/
theorem hash_inj_transfer {W : Type} [DecidableEq W] (hash : W → Nat) (seen : List W) (w : W)
    (hinj : InjOn hash (w :: seen)) :
    (seen.map hash).idxOf (hash w) = seen.idxOf w ∧ (hash w ∈ seen.map hash ↔ w ∈ seen) :=
  idxOf_map_inj hash seen w hinj

/-- **`ProbingVocabulary`**: `Insert` in file order, `Index` = id of an inserted word, 0 otherwise -/
theorem probing_vocab_correct (sp : Specials) (N : Nat) (ws : List Nat)
    (hnd : (ws.filter (fun k => !isUnk sp k)).Nodup) (hN : (ws.filter (fun k => !isUnk sp k)).length < N) :
    ∃ v, pInsertAll sp (pNew N) ws = .ok (pSpecIds sp 1 ws, v) ∧
      v.bound = (ws.filter (fun k => !isUnk sp k)).length + 1 ∧
      v.sawUnk = ws.any (isUnk sp) ∧
      ∀ k, pIndex v k = some (if k ∈ ws.filter (fun k => !isUnk sp k)
                              then (ws.filter (fun k => !isUnk sp k)).idxOf k + 1 else 0) :=
  probing_vocab_correct' sp N ws hnd hN

/-- … with the bucket count of `ProbingHashTable::Size(entries, multiplier)` for any multiplier
(`fl` = whatever the float product is): enough room whenever the header count covers the words -/
theorem probing_vocab_sized (sp : Specials) (entries fl : Nat) (ws : List Nat)
    (hnd : (ws.filter (fun k => !isUnk sp k)).Nodup) (hE : (ws.filter (fun k => !isUnk sp k)).length ≤ entries) :
    ∃ v, pInsertAll sp (pNew (max (entries + 1) fl)) ws = .ok (pSpecIds sp 1 ws, v) ∧
      ∀ k, pIndex v k = some (if k ∈ ws.filter (fun k => !isUnk sp k)
                              then (ws.filter (fun k => !isUnk sp k)).idxOf k + 1 else 0) :=
  probing_vocab_sized' sp entries fl ws hnd hE

/-- the ids `Insert` returned are the ids `Index` reports afterwards -/
theorem probing_vocab_insert_ids (sp : Specials) (ws : List Nat) (hnd : (ws.filter (fun k => !isUnk sp k)).Nodup) :
    pSpecIds sp 1 ws = ws.map (fun k => if isUnk sp k then 0 else (ws.filter (fun k => !isUnk sp k)).idxOf k + 1) := by
  have := pSpecIds_eq_index sp ws [] (by simpa using hnd)
  simpa using this

/-- **`SortedVocabulary`**: after `FinishedLoading` the hashes are strictly sorted, the (hash, weights) pairs are
a permutation of the supplied ones, `Index` = rank + 1 for inserted words and 0 otherwise — for every
floating-point pivot `f` — and the weights found at `Index(h)` are those supplied with `h` -/
theorem sorted_vocab_correct {β : Type} (f : Nat → Nat → Nat → Nat) (sp : Specials) (ws : List Nat) (weights : List β)
    (hlen : weights.length = (ws.filter (fun k => !(k = sp.unk || k = sp.unkCap))).length)
    (hnd : (ws.filter (fun k => !(k = sp.unk || k = sp.unkCap))).Nodup) :
    let keys := ws.filter (fun k => !(k = sp.unk || k = sp.unkCap))
    let v0 := (sInsertAll sp sNew ws).2
    let r := sFinish v0 weights
    v0.keys = keys ∧
    r.1.keys.Pairwise (· < ·) ∧ r.1.keys.Perm keys ∧ (r.1.keys.zip r.2).Perm (keys.zip weights) ∧
    (∀ k, k < 2^64 → sIndex f r.1 k = if k ∈ keys then keys.countP (· < k) + 1 else 0) ∧
    (∀ h w, h < 2^64 → (h, w) ∈ keys.zip weights → r.2[sIndex f r.1 h - 1]? = some w) ∧
    sBound r.1 = keys.length + 1 ∧
    r.1.sawUnk = ws.any (fun k => k = sp.unk || k = sp.unkCap) :=
  sorted_vocab_correct' f sp ws weights hlen hnd

/-- `std::sort` is not stable and unspecified — irrelevant: on distinct hashes every sorted permutation of the
pairs is the model's `jointSort` -/
theorem joint_sort_unique {β : Type} (ps l : List (Nat × β)) (hnd : (ps.map (·.1)).Nodup) (hperm : l.Perm ps)
    (hsorted : l.Pairwise (fun a b => a.1 ≤ b.1)) : l = jointSort ps :=
  jointSort_unique ps l hnd hperm hsorted

/-! ### non-vacuity -/

def exSp : Specials := ⟨100, 200, 3, 7⟩

/-- a token stream through `GrowableVocab` with one bucket and with 64 buckets initially: same ids
(`3` is `<s>`: dropped), six types -/
example : (growableEncode exSp 1 [[5, 9, 5], [3, 9, 11]]).toOption = some ([[3, 4, 3], [4, 5]], 6) ∧
    (growableEncode exSp 64 [[5, 9, 5], [3, 9, 11]]).toOption = some ([[3, 4, 3], [4, 5]], 6) ∧
    specEncode (100 : Nat) 3 7 [[5, 9, 5], [3, 9, 11]] = ([[3, 4, 3], [4, 5]], 6) := by decide

/-- the hypotheses of `vocab_ids_indep` hold for words = numbers, hash = `· + 1`, configurations = numbers -/
example : ∀ m : Nat, growableIds (· + 1) 0 1 2 999 (m % 1000 + 1) [[5, 9, 5], [1, 9, 11]] =
    firstOccurrenceIds (0 : Nat) 1 2 [[5, 9, 5], [1, 9, 11]] :=
  vocab_ids_indep (· + 1) 0 1 2 999 (fun m => m % 1000 + 1) (fun m => by omega) [[5, 9, 5], [1, 9, 11]]
    (by decide) (fun a _ b _ e => by simpa using e) (fun w _ => by simp) (by decide)

/-- `ProbingVocabulary` with 8 buckets: `<unk>` (hash 100) is id 0 and not in the table -/
example :
    let r := (pInsertAll exSp (pNew 8) [5, 100, 9, 3]).toOption
    r.map (·.1) = some [1, 0, 2, 3] ∧ r.map (fun r => (r.2.bound, r.2.sawUnk)) = some (4, true) ∧
    r.map (fun r => [pIndex r.2 9, pIndex r.2 100, pIndex r.2 42, pIndex r.2 3]) = some [some 2, some 0, some 0, some 3] := by
  decide

/-- `SortedVocabulary`: `Insert` of hashes 50, `<unk>`, 20, 30 gives provisional ids 1, 0, 2, 3 -/
example : sInsertAll exSp sNew [50, 100, 20, 30] = ([1, 0, 2, 3], ⟨[50, 20, 30], true⟩) := by rfl

/-- … `FinishedLoading` with weights 10, 11, 12 (`List.mergeSort` does not evaluate by `decide`; the result is
pinned down by `joint_sort_unique`) -/
theorem exJointSort : jointSort [(50, 10), (20, 11), (30, 12)] = [(20, 11), (30, 12), (50, 10)] :=
  (joint_sort_unique [(50, 10), (20, 11), (30, 12)] [(20, 11), (30, 12), (50, 10)] (by decide) (by decide) (by decide)).symm

example : sFinish (⟨[50, 20, 30], true⟩ : SVocab) [10, 11, 12] = (⟨[20, 30, 50], true⟩, [11, 12, 10]) := by
  show (({ keys := (jointSort [(50, 10), (20, 11), (30, 12)]).map (·.1), sawUnk := true } : SVocab),
        (jointSort [(50, 10), (20, 11), (30, 12)]).map (·.2)) = _
  rw [exJointSort]; rfl

/-- … and `Index`: rank + 1, with two different pivots; absent hashes and `<unk>` give 0 -/
example : sIndex (fun _ _ _ => 0) ⟨[20, 30, 50], true⟩ 50 = 3 ∧ sIndex (fun o r w => o * w / (r + 1)) ⟨[20, 30, 50], true⟩ 20 = 1 ∧
    sIndex (fun _ _ w => w) ⟨[20, 30, 50], true⟩ 30 = 2 ∧ sIndex (fun _ _ _ => 0) ⟨[20, 30, 50], true⟩ 25 = 0 ∧
    sIndex (fun _ _ _ => 0) ⟨[20, 30, 50], true⟩ 100 = 0 ∧ sBound ⟨[20, 30, 50], true⟩ = 4 := by decide

end Vocabularies

end KV.C20
