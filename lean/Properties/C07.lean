import Proofs.KNCount
import Proofs.KNBlocks
import Proofs.KNC07Base
import Proofs.KNC07Discharge
import Proofs.KNSorters
import Proofs.KNC07Chain
import Proofs.KNC07Fanin
import Proofs.KNC07ReadTwice
import Proofs.KNCollapseMarks
/-!
# C07 — Estimation result is independent of memory budget, block sizes and scheduling

"Whenever lmplz succeeds, the bytes of its output depend only on the corpus and the modelling
options: they are identical for every sorting-memory limit, sort block size, minimum block size,
block count, vocabulary-size estimate and temporary directory, and across repeated runs under any
thread scheduling."

What is proved here, over `Model/KNCount.lean` (the `Writer` of `lm/builder/corpus_count.cc`, whose
only memory-dependent parameter is the number `cap` of n-gram slots per chain block):

* `count_total_spec`, `count_keys_spec`, `count_blocks_good`, `count_blocks_sized`: for **every**
  block capacity the blocks that leave CorpusCount hold every order-`N` occurrence of the corpus
  exactly once (counted with multiplicity = count), nothing else, no n-gram twice in a block, no
  zero count; all blocks but the last are full.
* `count_block_indep`: hence per-n-gram totals, n-gram sets and the sorted + combined table are the
  same for any two capacities; the table is `KV.KN.countFull` (`count_combine_spec`), the input of the
  pipeline model of C05.
* `lmplz_indep`: composition with the stages that are proved elsewhere (C16 external sort, C17 chain
  scheduling, C20 vocabulary growth), taken as explicit hypotheses.

The memory-splitting heuristics of `pipeline.cc:44-211` are not modelled: the theorems quantify over
every resulting capacity / configuration, so the heuristics can only choose among behaviours proved
equal.
-/
namespace KV.C07
open KV.KN KV.KN.Count

/-! ## CorpusCount: block boundaries never lose, duplicate or invent an n-gram -/

/-- For every block capacity, the counts of an n-gram summed over all blocks are its number of
occurrences in the (padded) corpus — the block-independent specification. -/
theorem count_total_spec {N : Nat} (hN : 1 ≤ N) (cap : Nat) (corpus : List (List Word)) (g : Gram) :
    total g (corpusCount N cap corpus).flatten = (occurrences N corpus).count g :=
  total_corpusCount hN cap corpus g

/-- order ≥ 2: the n-grams present in some block are exactly those that occur -/
theorem count_keys_spec {N : Nat} (hN : 2 ≤ N) (cap : Nat) (corpus : List (List Word)) (g : Gram) :
    g ∈ (corpusCount N cap corpus).flatten.map (·.1) ↔ g ∈ occurrences N corpus := by
  rw [keys_corpusCount (by omega)]
  constructor
  · rintro (h | h)
    · exact absurd h (keyB_init_ge2 hN cap g)
    · exact h
  · exact Or.inr

/-- order 1: additionally the two slots `<unk>`, `<s>` written by the constructor (count 0) -/
theorem count_keys_spec_one (cap : Nat) (corpus : List (List Word)) (g : Gram) :
    g ∈ (corpusCount 1 cap corpus).flatten.map (·.1) ↔ (g = [unk] ∨ g = [bos]) ∨ g ∈ occurrences 1 corpus := by
  rw [keys_corpusCount (Nat.le_refl _), keyB_init_one]

/-- order ≥ 2: within a block the n-grams are distinct (the dedupe table works per block) and every
count is positive -/
theorem count_blocks_good {N : Nat} (hN : 2 ≤ N) (cap : Nat) (corpus : List (List Word)) :
    ∀ d ∈ corpusCount N cap corpus, (d.map (·.1)).Nodup ∧ ∀ e ∈ d, 0 < e.2 :=
  blocks_good hN cap corpus

/-- every block but the last is full (`cap` slots), the last one is not -/
theorem count_blocks_sized {N cap : Nat} (hN : 1 ≤ N) (hc : 1 ≤ cap) (corpus : List (List Word)) :
    ∃ full last, corpusCount N cap corpus = full ++ [last] ∧ (∀ d ∈ full, d.length = cap) ∧ last.length < cap :=
  blocks_sized N hN hc corpus

/-- the sort + `CombineCounts` stage applied to the blocks (as a function: stable merge sort by
suffix order, then run-length combine) yields the table `countFull` that C05's model starts from -/
theorem count_combine_spec {N : Nat} (hN : 2 ≤ N) (cap : Nat) (corpus : List (List Word)) :
    combineSorted ((corpusCount N cap corpus).flatten.mergeSort gramLe) = countFull N corpus :=
  sortCombine_ge2 hN cap corpus

/-- order 1 (`<unk>`, `<s>` with count 0 in front); the corpus holds no special id, as
`RunWithVocab` skips them (`vocab.IsSpecial(word)` ⇒ `continue`) -/
theorem count_combine_spec_one (cap : Nat) (corpus : List (List Word)) (hw : ∀ s ∈ corpus, ∀ w ∈ s, 2 ≤ w) :
    combineSorted ((corpusCount 1 cap corpus).flatten.mergeSort gramLe) = countFull1 corpus :=
  sortCombine_one cap corpus hw

/-- **Chain block boundaries never change the data**: for any two block capacities (any `-S`,
`--block_count`, … that `pipeline.cc` turns into a block size) the per-n-gram totals, the sets of
n-grams and the sorted, combined tables coincide.  (No hypothesis on the capacities is needed; a
real chain has `cap ≥ 1`, see `count_blocks_sized`.) -/
theorem count_block_indep {N : Nat} (hN : 1 ≤ N) (cap₁ cap₂ : Nat) (corpus : List (List Word)) :
    (∀ g, total g (corpusCount N cap₁ corpus).flatten = total g (corpusCount N cap₂ corpus).flatten) ∧
    (∀ g, g ∈ (corpusCount N cap₁ corpus).flatten.map (·.1) ↔ g ∈ (corpusCount N cap₂ corpus).flatten.map (·.1)) ∧
    combineSorted ((corpusCount N cap₁ corpus).flatten.mergeSort gramLe) =
      combineSorted ((corpusCount N cap₂ corpus).flatten.mergeSort gramLe) := by
  have ht : ∀ g, total g (corpusCount N cap₁ corpus).flatten = total g (corpusCount N cap₂ corpus).flatten :=
    fun g => by rw [count_total_spec hN, count_total_spec hN]
  have hk : ∀ g, g ∈ (corpusCount N cap₁ corpus).flatten.map (·.1) ↔
      g ∈ (corpusCount N cap₂ corpus).flatten.map (·.1) := by
    intro g
    rw [keys_corpusCount hN, keys_corpusCount hN]
    by_cases h1 : N = 1
    · subst h1; rw [keyB_init_one, keyB_init_one]
    · have h2 : 2 ≤ N := by omega
      constructor
      · rintro (h | h)
        · exact absurd h (keyB_init_ge2 h2 cap₁ g)
        · exact Or.inr h
      · rintro (h | h)
        · exact absurd h (keyB_init_ge2 h2 cap₂ g)
        · exact Or.inr h
  exact ⟨ht, hk, combine_sort_ext hk ht⟩

/-! ### non-vacuity: capacities 1, 2 and 100 give different block structures, equal totals -/

def exCorpus : List (List Word) := [[3, 4, 3, 4], [3, 4]]

example : corpusCount 2 1 exCorpus =
    [[([3, 1], 1)], [([4, 3], 1)], [([3, 4], 1)], [([4, 3], 1)], [([2, 4], 1)], [([3, 1], 1)], [([4, 3], 1)],
     [([2, 4], 1)], []] := by decide
example : corpusCount 2 2 exCorpus =
    [[([3, 1], 1), ([4, 3], 1)], [([3, 4], 1), ([4, 3], 1)], [([2, 4], 1), ([3, 1], 1)], [([4, 3], 1), ([2, 4], 1)], []] := by
  decide
/-- capacity 4: the second `4 3` falls into the block that already holds one, the third does not -/
example : corpusCount 2 4 exCorpus =
    [[([3, 1], 1), ([4, 3], 2), ([3, 4], 1), ([2, 4], 1)], [([3, 1], 1), ([4, 3], 1), ([2, 4], 1)]] := by decide
example : corpusCount 2 100 exCorpus = [[([3, 1], 2), ([4, 3], 3), ([3, 4], 1), ([2, 4], 2)]] := by decide
example : occurrences 2 exCorpus = [[3, 1], [4, 3], [3, 4], [4, 3], [2, 4], [3, 1], [4, 3], [2, 4]] := by decide
example : ∀ cap ∈ [1, 2, 3, 4, 100], total [4, 3] (corpusCount 2 cap exCorpus).flatten = 3 := by decide
/-- order 1: the constructor's `<unk>`, `<s>` slots share the first blocks with real unigrams -/
example : corpusCount 1 3 exCorpus =
    [[([0], 0), ([1], 0), ([3], 1)], [([4], 2), ([3], 1), ([2], 1)], [([3], 1), ([4], 1), ([2], 1)], []] := by decide
/-- a writer that forgot to clear the table at the boundary, or carried `N-2` words, would differ here:
the model is not insensitive to its own details -/
example : corpusCount 3 2 [[3, 4, 5]] =
    [[([3, 1, 1], 1), ([4, 3, 1], 1)], [([5, 4, 3], 1), ([2, 5, 4], 1)], []] := by decide

/-! ## The whole tool: composition with C16 / C17 / C20 -/

/-! `Opts`, `Impl`, `lmplzOut`, `lmplzSpec` are defined in `Proofs/KNC07Base.lean` (namespace `KV.C07`). -/

/-- **The output is a function of (corpus, modelling options) only.**  Hypotheses (visible, not
proved here; each is the statement of another property's theorem):

* `h_vocab` — C20 `vocab_ids_indep`: the ids `GrowableVocab` assigns are those of the order of first
  occurrence (`ids`), for every initial table size / doubling history;
* `h_ids` — `corpus_count.cc:247`: special ids never reach `Append`;
* `h_sort` — C16 `sort_sorted_perm_combine`: for every plan (block size, buffer sizes, number of
  passes, lazy memory, temp dir) and schedule the external sort with `CombineCounts` returns the
  sorted permutation of all records, equal n-grams combined;
* `h_chain` — C17 `chain_deterministic` (and C16 again for the context/suffix sorts between the
  later stages): for every schedule and every chain geometry the stream seen by the last stage is the
  composition of the stage functions, which C05 models as `estimateFrom`; `render` is the printer.

Conclusion: the tool equals the configuration-free `lmplzSpec`. -/
theorem lmplz_eq_spec {Mem Sched Text Out : Type} (I : Impl Mem Sched Text Out)
    (render : Except Err Model → Out) (ids : Text → List (List Word)) (opts : Opts) (hN : 1 ≤ opts.cfg.order)
    (text : Text)
    (h_vocab : ∀ m, I.encode m text = ids text)
    (h_ids : ∀ s ∈ ids text, ∀ w ∈ s, isSpecial w = false)
    (h_sort : ∀ m s blocks, I.sortCombine m s blocks = combineSorted (blocks.flatten.mergeSort gramLe))
    (h_chain : ∀ m s full, I.post m s opts full = render (estimateFrom opts.cfg opts.pruneVocab opts.fallback full))
    (m : Mem) (s : Sched) :
    lmplzOut I m s opts text = lmplzSpec render ids opts text :=
  lmplz_eq_spec_base I render ids opts hN text h_vocab h_ids h_sort h_chain m s

/-- **C07**: any two memory configurations and any two schedules give the same output. -/
theorem lmplz_indep {Mem Sched Text Out : Type} (I : Impl Mem Sched Text Out)
    (render : Except Err Model → Out) (ids : Text → List (List Word)) (opts : Opts) (hN : 1 ≤ opts.cfg.order)
    (text : Text)
    (h_vocab : ∀ m, I.encode m text = ids text)
    (h_ids : ∀ s ∈ ids text, ∀ w ∈ s, isSpecial w = false)
    (h_sort : ∀ m s blocks, I.sortCombine m s blocks = combineSorted (blocks.flatten.mergeSort gramLe))
    (h_chain : ∀ m s full, I.post m s opts full = render (estimateFrom opts.cfg opts.pruneVocab opts.fallback full))
    (m₁ m₂ : Mem) (s₁ s₂ : Sched) :
    lmplzOut I m₁ s₁ opts text = lmplzOut I m₂ s₂ opts text :=
  lmplz_indep_base I render ids opts hN text h_vocab h_ids h_sort h_chain m₁ m₂ s₁ s₂

/-! ### non-vacuity: an implementation satisfying all four hypotheses whose chain blocks differ -/

/-- `Mem` = block capacity, one schedule, text = id sequences; sort and later stages are the
functions themselves -/
def exImpl : Impl Nat Unit (List (List Word)) (Except Err Model) where
  cap := fun m => m
  encode := fun _ t => t
  sortCombine := fun _ _ blocks => combineSorted (blocks.flatten.mergeSort gramLe)
  post := fun _ _ o full => estimateFrom o.cfg o.pruneVocab o.fallback full

def exOpts : Opts := { cfg := { order := 2, thr := fun _ => 0, excl := fun _ => false }, pruneVocab := false,
                       fallback := some ⟨1/2, 1, 3/2⟩ }

example : lmplzOut exImpl 1 () exOpts exCorpus = lmplzOut exImpl 100 () exOpts exCorpus :=
  lmplz_indep exImpl id (fun t => t) exOpts (by decide) exCorpus (fun _ => rfl) (by decide)
    (fun _ _ _ => rfl) (fun _ _ _ => rfl) 1 100 () ()

/-! ## The hypotheses of `lmplz_indep` discharged by C20 / C16 / C17

Proofs in `Proofs/KNC07Discharge.lean` (names with suffix `_pf`); `toRec`, `toBlocks` translate KN records
(reversed n-gram, count) into the records of C16's sort model (key in natural word order, payload). -/

section discharged
open KV.Vocab KV.Chain
variable {W : Type} [DecidableEq W]

/-- **`h_vocab` and `h_ids` discharged by C20 `vocab_ids_indep'`** (the content of
`Proofs/VocabC07Bridge.lean`'s `lmplz_indep_growable`, here without `h_ids`).  Remaining vocabulary
hypotheses: `h_enc` (the encoder *is* `GrowableVocab` over the tokenised text, initial size `xOf m`),
`hx`, `hsp`, `hinj`/`hnz` (the 64-bit hash is injective and non-zero on the words that occur), `hmax`
(fewer than 2^32-1 types). -/
theorem lmplz_indep_vocab {Mem Sched Out : Type}
    (I : Impl Mem Sched (List (List W)) Out) (render : Except Err Model → Out) (opts : Opts)
    (hN : 1 ≤ opts.cfg.order) (text : List (List W))
    (hash : W → Nat) (unk bos eos : W) (unkCapHash : Nat) (xOf : Mem → Nat)
    (hx : ∀ m, 1 ≤ xOf m ∧ xOf m ≤ 2^63)
    (h_enc : ∀ m t, I.encode m t = growableIds hash unk bos eos unkCapHash (xOf m) t)
    (hsp : unk ≠ bos ∧ unk ≠ eos ∧ bos ≠ eos)
    (hinj : InjOn hash ([unk, bos, eos] ++ text.flatten))
    (hnz : ∀ w, w ∈ [unk, bos, eos] ++ text.flatten → hash w ≠ 0)
    (hmax : (specEncode unk bos eos text).2 < kWordIndexMax)
    (h_sort : ∀ m s blocks, I.sortCombine m s blocks = combineSorted (blocks.flatten.mergeSort gramLe))
    (h_chain : ∀ m s full, I.post m s opts full = render (estimateFrom opts.cfg opts.pruneVocab opts.fallback full))
    (m₁ m₂ : Mem) (s₁ s₂ : Sched) :
    lmplzOut I m₁ s₁ opts text = lmplzOut I m₂ s₂ opts text :=
  lmplz_indep_vocab_pf I render opts hN text hash unk bos eos unkCapHash xOf hx h_enc hsp hinj hnz hmax h_sort h_chain m₁ m₂ s₁ s₂

/-- **`h_sort` as a theorem of C16** (`extSort_canon` + `Canon.unique` with `counting_suffix`): for
duplicate-free chain blocks, every external sort with `CombineCounts` under `SuffixOrder` — every
tie-break policy, every merge plan (any number of passes, any grouping, lazy or not), any number of
blocks including none and one (`ReadSingle`) — returns the sorted, combined table of all records. -/
theorem sort_hyp_discharged (blocks : List (List Count.Rec)) (hnd : ∀ b ∈ blocks, (b.map (·.1)).Nodup)
    (pick : KV.Sort.Pick KV.Sort.Rec) (plan : List (List Nat)) :
    KV.Sort.extSort KV.Sort.suffixLt KV.Sort.combineCounts pick (toBlocks blocks) plan =
      some ((combineSorted (blocks.flatten.mergeSort gramLe)).map toRec) :=
  sort_hyp_discharged_pf blocks hnd pick plan

/-- … in particular the plan the code computes (`Sort::Merge`, `MergingReader::Run`,
`OwningMergingReader`) for every accepted `(entry_size, buffer_size, total_memory)` and every lazy
memory: it completes (C16 `codeSort_ok`) and returns that table (C16 `codeSort_refines`). -/
theorem sort_hyp_discharged_code {entrySize bufferSize totalMemory : Nat} {cfg : KV.Sort.Cfg}
    (hcfg : KV.Sort.mkCfg entrySize bufferSize totalMemory = .ok cfg)
    (blocks : List (List Count.Rec)) (hnd : ∀ b ∈ blocks, (b.map (·.1)).Nodup)
    (pick : KV.Sort.Pick KV.Sort.Rec) (lazyMem : Nat) :
    ∃ p ret, KV.Sort.codeSort KV.Sort.suffixLt KV.Sort.combineCounts pick cfg lazyMem (toBlocks blocks) =
      .ok ((combineSorted (blocks.flatten.mergeSort gramLe)).map toRec, p, ret) :=
  sort_hyp_discharged_code_pf hcfg blocks hnd pick lazyMem

/-- every block that leaves CorpusCount is duplicate-free (order 1: for a corpus without the ids of
`<unk>`, `<s>`, which `RunWithVocab` skips) -/
theorem count_blocks_nodup {N : Nat} (hN : 1 ≤ N) (cap : Nat) (corpus : List (List Word))
    (hw : ∀ s ∈ corpus, ∀ w ∈ s, 2 ≤ w) : ∀ d ∈ corpusCount N cap corpus, (d.map (·.1)).Nodup :=
  blocks_nodup_pf hN cap corpus hw

/-- **C17 `chain_ring`, read at the end of a run** (`chain_deterministic`): for every number of blocks
`b ≥ 1`, every chain length, every data and every schedule (`Reach` = any finite interleaving of the
threads), once `Chain::Wait` has returned, stage `k+1` has received exactly the source's blocks, in
order, each exactly once, each transformed by the composition of the stage functions before it, followed
by one poison.  Block boundaries and interleavings are not observable by a stage. -/
theorem chain_stream_deterministic {b m : Nat} {data : List Nat} {c : Chain} (hb : 0 < b) (hm : 1 ≤ m)
    (hr : Chain.Reach (Chain.init b m data) c) (hfin : c.main = .finished) :
    ∀ k, k + 1 ≤ m → (c.st (k + 1)).inp = (data.map (seenAt k)).map Item.val ++ [Item.poison] :=
  chain_stream_deterministic_pf hb hm hr hfin

/-- **`lmplz_eq_spec` with `h_vocab`, `h_ids`, `h_sort` discharged.**

Discharged:
* `h_vocab` by C20 `KV.Vocab.vocab_ids_indep'` (ids = first-occurrence order for every initial table
  size / doubling history) — remaining: `h_enc` (the encoder IS `GrowableVocab`: `growableIds`), `hx`
  (admissible size argument), `hsp`, `hinj`, `hnz` (64-bit MurmurHash injective and non-zero on the words
  of the text and the three specials), `hmax` (fewer than 2^32-1 word types);
* `h_ids` by the definition of the specification (`firstOccurrenceIds_not_special`);
* `h_sort` by C16 `extSort_canon`, `Canon.unique`, `counting_suffix`, `extSort_isSome`
  (`sort_hyp_discharged`) and this property's `blocks_nodup` — remaining: `h_sortImpl`, "the table that
  leaves the first sort, translated record by record, IS the result of C16's external-sort model on the
  translated chain blocks for *some* tie-break policy and *some* merge plan" (both may depend on the
  memory configuration, the schedule and the data in any way).  By `sort_hyp_discharged_code` the plan
  computed by `Sort::Merge` for any accepted configuration is one of them.

Not discharged — `h_chainImpl`: "everything after the first sort (AdjustCounts, InitialProbabilities,
Interpolate, the context/suffix sorts between them, the printer), run as threads over chains whose block
sizes and counts come from the memory configuration, computes `render (estimateFrom …)`", where
`estimateFrom` is C05's stream model and `render` an *arbitrary* function of the exact model (float32
arithmetic, `log10`, number printing and the ARPA / intermediate writers live in it).  What the other
properties provide towards it: C17 `chain_ring` (here `chain_stream_deterministic`): in a chain every
stage sees its predecessor's blocks exactly once, in order, for every schedule and block count; this
property's `collapse_partition_indep` / `prune_partition_indep`: the two stages that work block by block
(`CollapseStream`, `PruneNGramStream`) do not depend on the block boundaries; C16 `extSort_eq_spec` for
the later sorts (total orders, no combiner).  What is missing to *derive* `h_chainImpl` from them: C17's
chain has one stateless per-block function per stage and a single chain, whereas the KN stages are
stateful stream transformers over several chains at once (AdjustCounts reads one and writes `N`), and
`Model/KN.lean` has the later sorts as `List.mergeSort` inside `estimateFrom` rather than as a parameter. -/
theorem lmplz_eq_spec_discharged {Mem Sched Out : Type}
    (I : Impl Mem Sched (List (List W)) Out) (render : Except Err Model → Out) (opts : Opts)
    (hN : 1 ≤ opts.cfg.order) (text : List (List W))
    (hash : W → Nat) (unk bos eos : W) (unkCapHash : Nat) (xOf : Mem → Nat)
    (hx : ∀ m, 1 ≤ xOf m ∧ xOf m ≤ 2^63)
    (h_enc : ∀ m t, I.encode m t = growableIds hash unk bos eos unkCapHash (xOf m) t)
    (hsp : unk ≠ bos ∧ unk ≠ eos ∧ bos ≠ eos)
    (hinj : InjOn hash ([unk, bos, eos] ++ text.flatten))
    (hnz : ∀ w, w ∈ [unk, bos, eos] ++ text.flatten → hash w ≠ 0)
    (hmax : (specEncode unk bos eos text).2 < kWordIndexMax)
    (h_sortImpl : ∀ m s blocks, ∃ pick plan,
      KV.Sort.extSort KV.Sort.suffixLt KV.Sort.combineCounts pick (toBlocks blocks) plan =
        some ((I.sortCombine m s blocks).map toRec))
    (h_chainImpl : ∀ m s full, I.post m s opts full = render (estimateFrom opts.cfg opts.pruneVocab opts.fallback full))
    (m : Mem) (s : Sched) :
    lmplzOut I m s opts text = lmplzSpec render (firstOccurrenceIds unk bos eos) opts text :=
  lmplz_eq_spec_discharged_pf I render opts hN text hash unk bos eos unkCapHash xOf hx h_enc hsp hinj hnz hmax h_sortImpl h_chainImpl m s

/-- **C07 with the hypotheses discharged**: any two memory configurations and any two schedules give
the same output.  Remaining hypotheses: `h_enc`, `hx`, `hsp`, `hinj`, `hnz`, `hmax` (C20's contract),
`h_sortImpl` (the first sort is an instance of C16's model), `h_chainImpl` (see `lmplz_eq_spec_discharged`). -/
theorem lmplz_indep_discharged {Mem Sched Out : Type}
    (I : Impl Mem Sched (List (List W)) Out) (render : Except Err Model → Out) (opts : Opts)
    (hN : 1 ≤ opts.cfg.order) (text : List (List W))
    (hash : W → Nat) (unk bos eos : W) (unkCapHash : Nat) (xOf : Mem → Nat)
    (hx : ∀ m, 1 ≤ xOf m ∧ xOf m ≤ 2^63)
    (h_enc : ∀ m t, I.encode m t = growableIds hash unk bos eos unkCapHash (xOf m) t)
    (hsp : unk ≠ bos ∧ unk ≠ eos ∧ bos ≠ eos)
    (hinj : InjOn hash ([unk, bos, eos] ++ text.flatten))
    (hnz : ∀ w, w ∈ [unk, bos, eos] ++ text.flatten → hash w ≠ 0)
    (hmax : (specEncode unk bos eos text).2 < kWordIndexMax)
    (h_sortImpl : ∀ m s blocks, ∃ pick plan,
      KV.Sort.extSort KV.Sort.suffixLt KV.Sort.combineCounts pick (toBlocks blocks) plan =
        some ((I.sortCombine m s blocks).map toRec))
    (h_chainImpl : ∀ m s full, I.post m s opts full = render (estimateFrom opts.cfg opts.pruneVocab opts.fallback full))
    (m₁ m₂ : Mem) (s₁ s₂ : Sched) :
    lmplzOut I m₁ s₁ opts text = lmplzOut I m₂ s₂ opts text :=
  lmplz_indep_discharged_pf I render opts hN text hash unk bos eos unkCapHash xOf hx h_enc hsp hinj hnz hmax h_sortImpl h_chainImpl m₁ m₂ s₁ s₂

end discharged

open KV.KN.Interp KV.Vocab in
/-- **C07, as far as the hypotheses can be discharged today.**  Any two memory configurations and any
two schedules give the same output.  What is *proved* inside: block-size independence of
CorpusCount (`count_block_indep`), vocabulary ids independent of `--vocab_estimate` / doubling history
(C20 `vocab_ids_indep'`), the first external sort independent of blocks, tie-break policy and merge
plan (C16 `extSort_canon`/`Canon.unique`/`counting_suffix`), special ids never reach `Append`, the
later context/suffix sorts may be ANY correct sorts chosen per configuration, schedule and order
(`estimateFromWith_eq`: the sorted permutation of records with distinct n-grams is unique), and the
streaming stages equal the specification (C05 `estimate_eq_spec`, not needed for this statement).
What is still *assumed* (each named):
* `h_enc`, `hx` — the encoder is `GrowableVocab` (C20's model `growableIds`) with some initial size;
* `hinj`, `hnz`, `hmax`, `hsp` — the 64-bit Murmur hash is injective and non-zero on the words that
  occur, fewer than 2^32−1 types, the three special strings differ;
* `h_sortImpl` — the sort after CorpusCount is some run of C16's `extSort` model;
* `h_stages` — the threads over the chains compute the composition of the stage functions of
  Model/KN.lean (`estimateFromWith`, with whatever sorters); C17's `chain_ring` gives this for
  stateless per-block stages only (`chain_stream_deterministic`), not for these stream functions;
* `h_sorters` — those later sorts return sorted permutations (what C16 proves of `extSort`/`codeSort`);
* `hk` — the tree has the repaired special-unigram handling (`keep_specials_tree` in C05/C06);
* `render` is an arbitrary function of the exact model: float32 arithmetic, `log10f` and printing live
  there and are deterministic functions of their inputs (not modelled). -/
theorem lmplz_indep_final {W : Type} [DecidableEq W] {Mem Sched Out : Type}
    (I : Impl Mem Sched (List (List W)) Out) (render : Except Err Model → Out) (opts : Opts)
    (hN : 1 ≤ opts.cfg.order) (text : List (List W))
    (hash : W → Nat) (unk bos eos : W) (unkCapHash : Nat) (xOf : Mem → Nat)
    (hx : ∀ m, 1 ≤ xOf m ∧ xOf m ≤ 2^63)
    (h_enc : ∀ m t, I.encode m t = growableIds hash unk bos eos unkCapHash (xOf m) t)
    (hsp : unk ≠ bos ∧ unk ≠ eos ∧ bos ≠ eos)
    (hinj : InjOn hash ([unk, bos, eos] ++ text.flatten))
    (hnz : ∀ w, w ∈ [unk, bos, eos] ++ text.flatten → hash w ≠ 0)
    (hmax : (specEncode unk bos eos text).2 < kWordIndexMax)
    (h_sortImpl : ∀ m s blocks, ∃ pick plan,
      KV.Sort.extSort KV.Sort.suffixLt KV.Sort.combineCounts pick (toBlocks blocks) plan =
        some ((I.sortCombine m s blocks).map toRec))
    (sorters : Mem → Sched → Nat → Sorters)
    (h_stages : ∀ m s full, I.post m s opts full =
      render (estimateFromWith (sorters m s) opts.cfg opts.pruneVocab opts.fallback full))
    (h_sorters : ∀ m s n, SortsOK (sorters m s n))
    (hk : opts.cfg.keepSpecials = true)
    (m₁ m₂ : Mem) (s₁ s₂ : Sched) :
    lmplzOut I m₁ s₁ opts text = lmplzOut I m₂ s₂ opts text :=
  lmplz_indep_discharged2 I render opts hN text hash unk bos eos unkCapHash xOf hx h_enc hsp hinj hnz hmax
    h_sortImpl sorters h_stages h_sorters hk m₁ m₂ s₁ s₂

/-! ## The single-chain part of `h_stages` discharged by C17 `chain_stream_transducer`

Proofs in `Proofs/KNC07Chain.lean`; the stages as per-block state transformers in `Model/KNChainStages.lean`. -/

section singlechain
open KV.Vocab KV.Chain KV.KN.ChainStages KV.KN.Blocks KV.KN.Interp
variable {W : Type} [DecidableEq W] {σ β γ : Type}

/-- **A stage on a chain** (C17 `chain_stream_transducer`).  Let the source of a chain produce the
record blocks `blocks` (any partition of its stream) and the worker run the per-block state
transformer `step` from `init`.  For every number `b ≥ 1` of chain blocks, every chain length `m ≥ 2`
and EVERY schedule (`Chain.Reach`: any finite interleaving of source, workers, recycler and the thread
that called `Chain::Start` / `Chain::Wait`): when `Wait` has returned, the worker has handed on exactly
the blocks `runBlocks step init blocks`, in order, each once, then one poison, and the next stage has
received exactly that. -/
theorem chain_stage_stream (cβ : BlockCode β) (cγ : BlockCode γ) (step : Stage σ β γ) (init : σ)
    (blocks : List (List β)) {b m : Nat} {c : Chain} (hb : 0 < b) (hm : 2 ≤ m)
    (hr : Chain.Reach (Chain.initT b m (blocks.map cβ.enc) (liftStage cβ cγ step init).toStageFn.tr) c)
    (hfin : c.main = .finished) :
    (valsOf (c.st 1).out).map cγ.dec = runBlocks step init blocks
    ∧ (c.st 1).out = ((runBlocks step init blocks).map cγ.enc).map Item.val ++ [Item.poison]
    ∧ (c.st 2).inp = (c.st 1).out :=
  chain_stage_stream_pf cβ cγ step init blocks hb hm hr hfin

/-- **`MergeRight` ∘ `PruneNGramStream` on an order's primary chain**: for every partition of the
context-sorted stream `es` into blocks, with the sums stream from the adder chain (one entry per context,
in order: `(ctxRuns es).map (addRight d)`) as the initial state, the concatenation of the blocks handed
on is the stage function of `initialOrder` / `initialOrderWith` before the suffix sort. -/
theorem mergeRight_partition (d : Disc) (es : List Emit) (blocks : List (List Emit)) (hb : blocks.flatten = es) :
    (runBlocks (mrBlock d) ⟨(ctxRuns es).map (addRight d), none⟩ blocks).flatten =
      ((ctxRuns es).flatMap (mergeRight d)).filter (·.keep) :=
  mergeRight_partition_pf d es blocks hb

/-- **the order-1 branch** (as `Model/KN.lean` has it: by the value of the word), over the repaired
`PruneNGramStream`: for every partition of the unigram stream, with the single sums entry as the state -/
theorem mergeRightUnigram_partition (iu : Bool) (d : Disc) (es : List Emit) (hne : es ≠ [])
    (huni : ∀ e ∈ es, e.gram.tail = []) (blocks : List (List Emit)) (hb : blocks.flatten = es) :
    (runBlocks (mrUnigramBlock iu d) (addRight d es) blocks).flatten =
      ((ctxRuns es).flatMap (mergeRightUnigram iu d)).filter (·.keep) :=
  mergeRightUnigram_partition_pf iu d es hne huni blocks hb

/-- **every single chain of the pipeline delivers its stage function's stream**, for every block coding,
number of chain blocks, chain length, upstream block partition and schedule (see `SingleChainsDeliver`) -/
theorem single_chain_stages : SingleChainsDeliver := single_chain_stages_pf

/-- **C07 with the single-chain part of `h_stages` discharged.**  As `lmplz_indep_final`, with `h_stages`
replaced by `h_wiring`: *given* that every single chain delivers its stage function's stream
(`SingleChainsDeliver`, proved: `single_chain_stages`), the part of the tool after the first sort computes
`render (estimateFromWith (sorters m s) …)`.  `h_wiring` is what is still ASSUMED about the later stages;
since its premise is a theorem it is logically no weaker than `h_stages` — its form records what a proof
of it may use and what it has to supply, namely the plumbing BETWEEN chains, none of which is discharged
here:
* fan-out in step 2: `AdjustCounts::Run` reads the sorted order-`N` chain and writes the `N` chains of the
  orders `1 … N` in one loop (the stateful multi-output stream function `adjustStream` + `collapse` of
  Model/KN.lean, C05 `adjust_stream_eq`); only its `CollapseStream` iterator is a single-chain stage (2.);
* the counts-of-counts → discounts hand-over (`discounts` after the last block of step 2: a barrier);
* fan-out in step 3: `SortAndReadTwice` delivers the context-sorted stream of an order twice, to the adder
  chain (`AddRight`, source of chain 1.) and to the primary chain (3./4.); that both readers see the same
  stream is C16 (`h_sorters`: the sort's output is a function of its input) plus the file being read twice;
* fan-in in step 3: the sums stream of the adder chain is consumed by `MergeRight` record by record
  (`util::stream::Stream summed(from_adder_)`), interleaved with the primary chain: here the whole sums
  stream sits in the initial state of the worker (3.), i.e. "the second chain's content is
  `(ctxRuns es).map (addRight d)` and arrives in order" is part of `h_wiring`, as is `AddRight` computing
  `addRight d` per context (a single-chain source, not a worker);
* fan-in in step 4: `Interpolate` / `JointOrder` read the `N` suffix-sorted chains in lock step
  (`joinLower`, `interpOrder`, `interpAll`) together with the `N−1` gamma files written via 1.
  (`takeBackoffsSeq` / `takeBackoffsHash`);
* the external sorts between the steps (`sorters m s n`, assumed correct in `h_sorters`, which C16 proves
  of `extSort` / `codeSort`), `--renumber` (a stateless per-record map, not in the model) and the printer
  (`render`).
Everything else is as in `lmplz_indep_final`. -/
theorem lmplz_indep_final2 {Mem Sched Out : Type}
    (I : Impl Mem Sched (List (List W)) Out) (render : Except Err Model → Out) (opts : Opts)
    (hN : 1 ≤ opts.cfg.order) (text : List (List W))
    (hash : W → Nat) (unk bos eos : W) (unkCapHash : Nat) (xOf : Mem → Nat)
    (hx : ∀ m, 1 ≤ xOf m ∧ xOf m ≤ 2^63)
    (h_enc : ∀ m t, I.encode m t = growableIds hash unk bos eos unkCapHash (xOf m) t)
    (hsp : unk ≠ bos ∧ unk ≠ eos ∧ bos ≠ eos)
    (hinj : InjOn hash ([unk, bos, eos] ++ text.flatten))
    (hnz : ∀ w, w ∈ [unk, bos, eos] ++ text.flatten → hash w ≠ 0)
    (hmax : (specEncode unk bos eos text).2 < kWordIndexMax)
    (h_sortImpl : ∀ m s blocks, ∃ pick plan,
      KV.Sort.extSort KV.Sort.suffixLt KV.Sort.combineCounts pick (toBlocks blocks) plan =
        some ((I.sortCombine m s blocks).map toRec))
    (sorters : Mem → Sched → Nat → Sorters)
    (h_wiring : SingleChainsDeliver → ∀ m s full, I.post m s opts full =
      render (estimateFromWith (sorters m s) opts.cfg opts.pruneVocab opts.fallback full))
    (h_sorters : ∀ m s n, SortsOK (sorters m s n))
    (hk : opts.cfg.keepSpecials = true)
    (m₁ m₂ : Mem) (s₁ s₂ : Sched) :
    lmplzOut I m₁ s₁ opts text = lmplzOut I m₂ s₂ opts text :=
  lmplz_indep_final2_pf I render opts hN text hash unk bos eos unkCapHash xOf hx h_enc hsp hinj hnz hmax h_sortImpl sorters h_wiring h_sorters hk m₁ m₂ s₁ s₂

end singlechain

/-! ## More of `h_wiring`: the adder-chain fan-in into `MergeRight`, the discounts barrier

Proofs in `Proofs/KNC07Fanin.lean`; `AddRight` as a stateful reader in `Model/KNChainAdder.lean`. -/

section fanin
open KV.Vocab KV.Chain KV.KN.ChainStages KV.KN.Blocks KV.KN.Interp
variable {W : Type} [DecidableEq W] {τ : Type}

/-- **`AddRight` as a stream function**: reading the context-sorted stream `es` in ANY input blocks, it
writes exactly one entry per context, in order: `(ctxRuns es).map (addRight d)` — the sums stream that
`mergeRight_partition` assumes in `MergeRight`'s initial state. -/
theorem addRight_stream (d : Disc) (es : List Emit) (inBlocks : List (List Emit)) (hb : inBlocks.flatten = es) :
    addRightStream d inBlocks = (ctxRuns es).map (addRight d) :=
  addRight_stream_pf d es inBlocks hb

/-- **incremental reading = reading the final stream.**  In every reachable state of a chain (any
transducers, any `b`, `m`, data, schedule): (1) what stage `i+1` has received is a prefix of what stage
`i` has produced (the rest is in the queue between them), and (2) what worker `i` has produced so far is
its transducer's output on what it has received so far — a prefix of its output on any longer input.
So a consumer that reads a position block by block while the chain runs sees prefixes of the stream that
`chain_stage_stream` describes at the end. -/
theorem adder_prefix_monotone {τ : Type} (T : Transducers τ) {b m : Nat} {data : List Nat} {c : Chain}
    (hb : 0 < b) (hm : 1 ≤ m) (hr : Chain.Reach (Chain.initT b m data T.toStageFn.tr) c) :
    (∀ i, i < m → ∃ rest, (c.st i).out = (c.st (i + 1)).inp ++ rest)
    ∧ (∀ i, 1 ≤ i → i < m → ∀ more : List Nat,
        ∃ rest, T.run i (T.init i) (valsOf (c.st i).inp ++ more) = valsOf ((c.st i).out ++ pend (c.st i)) ++ rest) :=
  adder_prefix_monotone_pf T hb hm hr

/-- **the adder chain's fan-in**: `AddRight` (source) has read `es` in any input blocks and written its
entries in any output blocks `sumBlocks`; whatever runs at the later positions of the chain (`TA`:
`MergeRight`'s pass-through reader at position 1, `OnlyGamma` behind it), for every number of chain
blocks and EVERY schedule: once the chain has finished, position 1 — where `MergeRight` reads
(`gamma_out[i].Add()`, before `OnlyGamma`) — has received exactly `(ctxRuns es).map (addRight d)`,
one entry per context, in order, each once. -/
theorem adder_fanin_delivers {τ : Type} (TA : Transducers τ) (cG : BlockCode Gam) (d : Disc) (es : List Emit)
    (inBlocks : List (List Emit)) (hin : inBlocks.flatten = es)
    (sumBlocks : List (List Gam)) (hsum : sumBlocks.flatten = addRightStream d inBlocks)
    {b m : Nat} {cA : Chain} (hb : 0 < b) (hm : 1 ≤ m)
    (hr : Chain.Reach (Chain.initT b m (sumBlocks.map cG.enc) TA.toStageFn.tr) cA) (hfin : cA.main = .finished) :
    ((valsOf (cA.st 1).inp).map cG.dec).flatten = (ctxRuns es).map (addRight d) :=
  adder_fanin_delivers_pf TA cG d es inBlocks hin sumBlocks hsum hb hm hr hfin

/-- **`MergeRight` over (adder chain, primary chain)** as a product of two C17 chains under independent
schedules (a schedule of the pair is a pair of schedules): chain A as in `adder_fanin_delivers`; chain B
carries the first copy of `es` in any blocks `blocksB` and its worker runs `MergeRight` over
`PruneNGramStream`, taking its sums entries from what position 1 of chain A delivers.  For all block
partitions on both chains, all numbers of chain blocks and all pairs of schedules, once both chains have
finished the concatenation of what `MergeRight` hands on is the stage function of `Model/KN.lean`.

Abstraction (stated, not hidden): `MergeRight`'s blocking reads on chain A (`++summed`, one per new
context, interleaved with its own blocks) are folded into "the stream chain A delivers to position 1",
which is the worker's initial state here; `adder_prefix_monotone` is the justification (what has been
delivered at any moment is a prefix of that stream, so reading it incrementally reads the same entries).
That `MergeRight` never needs more entries than arrive (no deadlock between the two chains) is C17's
liveness for each chain separately plus `(ctxRuns es).length` entries being produced; it is not restated
here. -/
theorem mergeRight_two_chains {τ : Type} (TA : Transducers τ) (cG : BlockCode Gam) (cE : BlockCode Emit)
    (cU : BlockCode Uninterp) (d : Disc) (es : List Emit)
    (inBlocksA : List (List Emit)) (hinA : inBlocksA.flatten = es)
    (sumBlocks : List (List Gam)) (hsum : sumBlocks.flatten = addRightStream d inBlocksA)
    (blocksB : List (List Emit)) (hB : blocksB.flatten = es)
    {bA mA bB mB : Nat} {cA cB : Chain} (hbA : 0 < bA) (hmA : 1 ≤ mA) (hbB : 0 < bB) (hmB : 2 ≤ mB)
    (hrA : Chain.Reach (Chain.initT bA mA (sumBlocks.map cG.enc) TA.toStageFn.tr) cA) (hfinA : cA.main = .finished)
    (hrB : Chain.Reach (Chain.initT bB mB (blocksB.map cE.enc)
      (liftStage cE cU (mrBlock d) ⟨((valsOf (cA.st 1).inp).map cG.dec).flatten, none⟩).toStageFn.tr) cB)
    (hfinB : cB.main = .finished) :
    ((valsOf (cB.st 1).out).map cU.dec).flatten = ((ctxRuns es).flatMap (mergeRight d)).filter (·.keep) :=
  mergeRight_two_chains_pf TA cG cE cU d es inBlocksA hinA sumBlocks hsum blocksB hB hbA hmA hbB hmB hrA hfinA hrB hfinB

/-- the statistics of an order depend only on the multiset of its records -/
theorem countsOfCounts_perm {es₁ es₂ : List Emit} (h : es₁.Perm es₂) : countsOfCounts es₁ = countsOfCounts es₂ :=
  countsOfCounts_perm_pf h

/-- **the barrier after step 2**: the discounts (and the error class, if Chen–Goodman fails without a
fallback) computed from the per-order statistics are the same for per-order streams that are
permutations of each other — so the hand-over needs only that step 2 has finished on all `N` chains;
the order in which records (or chains) arrived, block boundaries and the interleaving of the `stats.Add`
calls of different orders are not observable. -/
theorem discounts_barrier_indep (fallback : Option Disc) {s₁ s₂ : List (List Emit)}
    (h : List.Forall₂ List.Perm s₁ s₂) :
    discounts fallback (s₁.map countsOfCounts) = discounts fallback (s₂.map countsOfCounts) :=
  discounts_barrier_indep_pf fallback h

/-- the fan-in facts for all codings, partitions, chain geometries and pairs of schedules (`FaninDelivers`) -/
theorem fanin_delivers : FaninDelivers := fanin_delivers_pf

/-- the barrier fact (`BarrierIndep`) -/
theorem barrier_indep : BarrierIndep := barrier_indep_pf

/-- **C07, final form.**  As `lmplz_indep_final2`, the premise of `h_wiring` now also contains the adder
fan-in (`FaninDelivers`: `AddRight` over any input blocks, the adder chain delivering to `MergeRight`'s
reader under every schedule, `MergeRight` over the pair of chains) and the discounts barrier
(`BarrierIndep`) — all three premises are theorems (`single_chain_stages`, `fanin_delivers`,
`barrier_indep`), so `h_wiring` is still logically as strong as `h_stages`; it names what REMAINS to be
shown about the stages after the first sort:
* `AdjustCounts::Run`'s fan-out: one loop over the sorted order-`N` chain writing the `N` chains of all
  orders (`adjustStream`/`collapse`; C05 `adjust_stream_eq` is about the stream function, not the chains);
* `SortAndReadTwice`: the context sort of an order delivering the same stream to two readers (the adder
  chain's `AddRight` and the primary chain) — that both copies are the sorter's output `es`;
* `Interpolate` / `JointOrder`: lock-step fan-in over the `N` suffix-sorted chains plus the `N−1` gamma
  files written by `OnlyGamma` (`joinLower`, `interpOrder`, `interpAll`, `takeBackoffs*`);
* the external sorts between the steps being correct sorts is `h_sorters` (C16 proves it of
  `extSort`/`codeSort`); `--renumber` (a stateless per-record id map, not in the model); the printer and
  all float arithmetic (`render`, an arbitrary function of the exact model).
Everything else as in `lmplz_indep_final`. -/
theorem lmplz_indep_final3 {Mem Sched Out : Type}
    (I : Impl Mem Sched (List (List W)) Out) (render : Except Err Model → Out) (opts : Opts)
    (hN : 1 ≤ opts.cfg.order) (text : List (List W))
    (hash : W → Nat) (unk bos eos : W) (unkCapHash : Nat) (xOf : Mem → Nat)
    (hx : ∀ m, 1 ≤ xOf m ∧ xOf m ≤ 2^63)
    (h_enc : ∀ m t, I.encode m t = growableIds hash unk bos eos unkCapHash (xOf m) t)
    (hsp : unk ≠ bos ∧ unk ≠ eos ∧ bos ≠ eos)
    (hinj : InjOn hash ([unk, bos, eos] ++ text.flatten))
    (hnz : ∀ w, w ∈ [unk, bos, eos] ++ text.flatten → hash w ≠ 0)
    (hmax : (specEncode unk bos eos text).2 < kWordIndexMax)
    (h_sortImpl : ∀ m s blocks, ∃ pick plan,
      KV.Sort.extSort KV.Sort.suffixLt KV.Sort.combineCounts pick (toBlocks blocks) plan =
        some ((I.sortCombine m s blocks).map toRec))
    (sorters : Mem → Sched → Nat → Sorters)
    (h_wiring : SingleChainsDeliver → FaninDelivers → BarrierIndep → ∀ m s full, I.post m s opts full =
      render (estimateFromWith (sorters m s) opts.cfg opts.pruneVocab opts.fallback full))
    (h_sorters : ∀ m s n, SortsOK (sorters m s n))
    (hk : opts.cfg.keepSpecials = true)
    (m₁ m₂ : Mem) (s₁ s₂ : Sched) :
    lmplzOut I m₁ s₁ opts text = lmplzOut I m₂ s₂ opts text :=
  lmplz_indep_final3_pf I render opts hN text hash unk bos eos unkCapHash xOf hx h_enc hsp hinj hnz hmax h_sortImpl sorters h_wiring h_sorters hk m₁ m₂ s₁ s₂

end fanin

/-! ## More of `h_wiring`: `SortAndReadTwice` and step 3 of one order over its three chains

Proofs in `Proofs/KNC07ReadTwice.lean`. -/

section readtwice
open KV.Vocab KV.Chain KV.KN.ChainStages KV.KN.Blocks KV.KN.Interp
variable {W : Type} [DecidableEq W]

/-- **`SortAndReadTwice`: both readers receive the sorted stream.**  The context sort of an order (any
correct sort `S`, C16: `extSort_sorted` + `extSort_perm` / `codeSort_sorted_perm`; what is read back from
the spill file is what was written: C16 `spill_roundtrip`) has produced `S.ctx es'` from the records in
any arrival order `es'` (a permutation of the order's stream `es`, distinct non-empty n-grams).  The file
is read twice, into two chains, in two arbitrary block partitions, under two arbitrary schedules, with
arbitrary workers behind the sources.  Once both chains have finished, the record streams at the two
reader positions are equal to each other and to `es.mergeSort ctxLe`. -/
theorem sort_read_twice_same {τ₁ τ₂ : Type} (T₁ : Transducers τ₁) (T₂ : Transducers τ₂) (cE : BlockCode Emit)
    {S : Sorters} (hS : SortsOK S) {es es' : List Emit} (hperm : es'.Perm es)
    (hnd : (es.map (·.gram)).Nodup) (hne : ∀ e ∈ es, e.gram ≠ [])
    (blocks₁ blocks₂ : List (List Emit)) (h₁ : blocks₁.flatten = S.ctx es') (h₂ : blocks₂.flatten = S.ctx es')
    {b₁ m₁ b₂ m₂ : Nat} {c₁ c₂ : Chain} (hb₁ : 0 < b₁) (hm₁ : 1 ≤ m₁) (hb₂ : 0 < b₂) (hm₂ : 1 ≤ m₂)
    (hr₁ : Chain.Reach (Chain.initT b₁ m₁ (blocks₁.map cE.enc) T₁.toStageFn.tr) c₁) (hfin₁ : c₁.main = .finished)
    (hr₂ : Chain.Reach (Chain.initT b₂ m₂ (blocks₂.map cE.enc) T₂.toStageFn.tr) c₂) (hfin₂ : c₂.main = .finished) :
    ((valsOf (c₁.st 1).inp).map cE.dec).flatten = ((valsOf (c₂.st 1).inp).map cE.dec).flatten
    ∧ ((valsOf (c₁.st 1).inp).map cE.dec).flatten = es.mergeSort ctxLe :=
  sort_read_twice_same_pf T₁ T₂ cE hS hperm hnd hne blocks₁ blocks₂ h₁ h₂ hb₁ hm₁ hb₂ hm₂ hr₁ hfin₁ hr₂ hfin₂

/-- **step 3 of one order ≥ 2 over its three chains.**  From the adjusted stream `es` of the order,
arriving at the context sort in any order `es'`: the sorted file is read into the `second` chain
(blocks `blocks₂`, `AddRight` reads at its position 1) and into the primary chain (blocks `blocksB`);
`AddRight` is the source of the adder chain and writes its entries in any blocks `sumBlocks`;
`MergeRight` over `PruneNGramStream` is the worker of the primary chain and takes its sums from position
1 of the adder chain.  For every correct sort, all block partitions on the three chains, all numbers of
chain blocks and all triples of schedules: once the chains have finished, the concatenation of what
`MergeRight` hands on is the stage function of `Model/KN.lean` on the sorted stream.
(Same abstraction as `mergeRight_two_chains`: blocking cross-chain reads are folded into "the stream the
other chain delivers".) -/
theorem step3_order_delivers {τ₂ τA : Type} (T₂ : Transducers τ₂) (TA : Transducers τA)
    (cE : BlockCode Emit) (cG : BlockCode Gam) (cU : BlockCode Uninterp) (d : Disc)
    {S : Sorters} (hS : SortsOK S) {es es' : List Emit} (hperm : es'.Perm es)
    (hnd : (es.map (·.gram)).Nodup) (hne : ∀ e ∈ es, e.gram ≠ [])
    (blocks₂ blocksB : List (List Emit)) (h₂ : blocks₂.flatten = S.ctx es') (hB : blocksB.flatten = S.ctx es')
    {b₂ m₂ bA mA bB mB : Nat} {c₂ cA cB : Chain}
    (hb₂ : 0 < b₂) (hm₂ : 1 ≤ m₂) (hbA : 0 < bA) (hmA : 1 ≤ mA) (hbB : 0 < bB) (hmB : 2 ≤ mB)
    (hr₂ : Chain.Reach (Chain.initT b₂ m₂ (blocks₂.map cE.enc) T₂.toStageFn.tr) c₂) (hfin₂ : c₂.main = .finished)
    (sumBlocks : List (List Gam))
    (hsum : sumBlocks.flatten = addRightStream d ((valsOf (c₂.st 1).inp).map cE.dec))
    (hrA : Chain.Reach (Chain.initT bA mA (sumBlocks.map cG.enc) TA.toStageFn.tr) cA) (hfinA : cA.main = .finished)
    (hrB : Chain.Reach (Chain.initT bB mB (blocksB.map cE.enc)
      (liftStage cE cU (mrBlock d) ⟨((valsOf (cA.st 1).inp).map cG.dec).flatten, none⟩).toStageFn.tr) cB)
    (hfinB : cB.main = .finished) :
    ((valsOf (cB.st 1).out).map cU.dec).flatten =
      ((ctxRuns (es.mergeSort ctxLe)).flatMap (mergeRight d)).filter (·.keep) :=
  step3_order_delivers_pf T₂ TA cE cG cU d hS hperm hnd hne blocks₂ blocksB h₂ hB hb₂ hm₂ hbA hmA hbB hmB hr₂ hfin₂ sumBlocks hsum hrA hfinA hrB hfinB

/-- both for all codings, sorts, partitions, chain geometries and schedules (`Step3Delivers`) -/
theorem step3_delivers : Step3Delivers := step3_delivers_pf

/-- **C07, last form.**  As `lmplz_indep_final3`, the premise of `h_wiring` now also contains
`Step3Delivers` (`SortAndReadTwice`'s two readers receive the same sorted stream; step 3 of an order
≥ 2 over its second / adder / primary chains computes `initialOrderWith`'s stream before the suffix
sort).  All four premises are theorems, so `h_wiring` is still logically as strong as `h_stages`; what
REMAINS to be shown inside it:
* `AdjustCounts::Run`'s fan-out: one loop over the sorted order-`N` chain writing the `N` chains of all
  orders (`adjustStream` / `collapse`);
* `Interpolate` / `JointOrder`: lock-step fan-in over the `N` suffix-sorted chains plus the `N−1` gamma
  files written by `OnlyGamma`;
* step 3 of order 1 over its three chains (the single-chain part is `mergeRightUnigram_partition`);
* that the external sorts are correct sorts is `h_sorters` (C16); `--renumber` (not in the model); the
  printer and all float arithmetic (`render`). -/
theorem lmplz_indep_final4 {Mem Sched Out : Type}
    (I : Impl Mem Sched (List (List W)) Out) (render : Except Err Model → Out) (opts : Opts)
    (hN : 1 ≤ opts.cfg.order) (text : List (List W))
    (hash : W → Nat) (unk bos eos : W) (unkCapHash : Nat) (xOf : Mem → Nat)
    (hx : ∀ m, 1 ≤ xOf m ∧ xOf m ≤ 2^63)
    (h_enc : ∀ m t, I.encode m t = growableIds hash unk bos eos unkCapHash (xOf m) t)
    (hsp : unk ≠ bos ∧ unk ≠ eos ∧ bos ≠ eos)
    (hinj : InjOn hash ([unk, bos, eos] ++ text.flatten))
    (hnz : ∀ w, w ∈ [unk, bos, eos] ++ text.flatten → hash w ≠ 0)
    (hmax : (specEncode unk bos eos text).2 < kWordIndexMax)
    (h_sortImpl : ∀ m s blocks, ∃ pick plan,
      KV.Sort.extSort KV.Sort.suffixLt KV.Sort.combineCounts pick (toBlocks blocks) plan =
        some ((I.sortCombine m s blocks).map toRec))
    (sorters : Mem → Sched → Nat → Sorters)
    (h_wiring : SingleChainsDeliver → FaninDelivers → BarrierIndep → Step3Delivers →
      ∀ m s full, I.post m s opts full =
        render (estimateFromWith (sorters m s) opts.cfg opts.pruneVocab opts.fallback full))
    (h_sorters : ∀ m s n, SortsOK (sorters m s n))
    (hk : opts.cfg.keepSpecials = true)
    (m₁ m₂ : Mem) (s₁ s₂ : Sched) :
    lmplzOut I m₁ s₁ opts text = lmplzOut I m₂ s₂ opts text :=
  lmplz_indep_final4_pf I render opts hN text hash unk bos eos unkCapHash xOf hx h_enc hsp hinj hnz hmax h_sortImpl sorters h_wiring h_sorters hk m₁ m₂ s₁ s₂

end readtwice

/-! ## chain block boundaries inside the pipeline: the two compacting iterators -/

open KV.KN.Blocks in
/-- `CollapseStream` compacts every chain block in place; whatever the block boundaries are,
the records that flow on are the same multiset (they are sorted again afterwards) -/
theorem collapse_partition_indep {α : Type} [Inhabited α] (p : α → Bool) (bs₁ bs₂ : List (List α))
    (h : bs₁.flatten = bs₂.flatten) :
    (collapseStream p bs₁).2.Perm (collapseStream p bs₂).2 :=
  collapseStream_partition p bs₁ bs₂ h

open KV.KN.Blocks in
/-- `PruneNGramStream` (repaired) drops the marked records block by block; the output stream does
not depend on the block boundaries -/
theorem prune_partition_indep {β : Type} (f : KV.KN.Emit → β) (bs₁ bs₂ : List (List KV.KN.Emit))
    (h : bs₁.flatten = bs₂.flatten) : pruneStream true f bs₁ = pruneStream true f bs₂ := by
  rw [pruneStream_fixed, pruneStream_fixed, h]


/-! ## `CollapseStream`'s pruning marks (round 5; seed C07-9) -/

open KV.KN.Blocks in
/-- **collapse_marks_everywhere** — the sentence `Model/KNBlocks.lean` assumed: with the marking code of the real iterator
(`StartBlock` marks the first slot, `operator++` marks the slot that just received `*copy_from_` and then the new current
slot), the stream that flows downstream is exactly `map mk` of the mark-free model's stream — every record that leaves step 2
carries the mark a function of the record alone, for every cut of the stream into chain blocks. -/
theorem collapse_marks_everywhere {α : Type} (p : α → Bool) (mk : α → α) (hp : ∀ a, p (mk a) = p a) (bs : List (List α)) :
    collapseStreamM p mk true bs = ((collapseStream p bs).2).map mk := by
  unfold collapseStreamM collapseStream
  induction bs with
  | nil => rfl
  | cons b bs ih =>
    simp only [List.flatMap_cons, List.map_append] at ih ⊢
    rw [ih, collapseBlockM_eq_map p mk hp]

open KV.KN.Blocks in
/-- **collapse_marked_partition_indep** — hence the marked stream does not depend on the chain block boundaries either -/
theorem collapse_marked_partition_indep {α : Type} [Inhabited α] (p : α → Bool) (mk : α → α) (hp : ∀ a, p (mk a) = p a)
    (bs₁ bs₂ : List (List α)) (h : bs₁.flatten = bs₂.flatten) :
    (collapseStreamM p mk true bs₁).Perm (collapseStreamM p mk true bs₂) := by
  rw [collapse_marks_everywhere p mk hp, collapse_marks_everywhere p mk hp]
  exact (collapse_partition_indep p bs₁ bs₂ h).map mk

/-- records `(hasBos, count, marked)`; mark when `count ≤ 1` -/
def exMk (e : Bool × Nat × Bool) : Bool × Nat × Bool := (e.1, e.2.1, e.2.2 || decide (e.2.1 ≤ 1))

open KV.KN.Blocks in
/-- negation witness (`decide`) for the variant of `operator++` without the marking block after the `memcpy` (seed C07-9):
the same stream cut at two places gives different marks (`remark = false`), while the real code (`remark = true`) gives
the same marked stream; `exMk` satisfies the hypothesis of `collapse_marks_everywhere` (the `<s>` flag is untouched). -/
theorem collapse_without_remark_depends_on_blocks :
    -- same stream, two block partitions
    ([[(true, 5, false), (false, 1, false)], [(false, 7, false)]] : List (List (Bool × Nat × Bool))).flatten
      = [[(true, 5, false)], [(false, 1, false), (false, 7, false)]].flatten
    ∧ collapseStreamM (·.1) exMk true [[(true, 5, false), (false, 1, false)], [(false, 7, false)]]
      = [(false, 1, true), (false, 7, false)]
    ∧ collapseStreamM (·.1) exMk true [[(true, 5, false)], [(false, 1, false), (false, 7, false)]]
      = [(false, 1, true), (false, 7, false)]
    ∧ collapseStreamM (·.1) exMk false [[(true, 5, false), (false, 1, false)], [(false, 7, false)]]
      = [(false, 1, false), (false, 7, false)]
    ∧ collapseStreamM (·.1) exMk false [[(true, 5, false)], [(false, 1, false), (false, 7, false)]]
      = [(false, 1, true), (false, 7, false)] := by decide


end KV.C07
