import Proofs.KNCount
import Proofs.KNBlocks
/-!
# C07 — Estimation result is independent of memory budget, block sizes and scheduling

"Whenever lmplz succeeds, the bytes of its output depend only on the corpus and the modelling
options: they are identical for every sorting-memory limit, sort block size, minimum block size,
block count, vocabulary-size estimate and temporary directory, and across repeated runs under any
thread scheduling."

What is proved here, over `Model/KNCount.lean` (the `Writer` of `lm/builder/corpus_count.cc`, whose
only memory-dependent parameter is the number `cap` of n-gram slots per chain block):

* `count_total_spec`, `count_keys_spec`, `count_blocks_good`, `count_blocks_sized`: for **every**
  block capacity the blocks that leave CorpusCount hold every order-`N` occurrence of the corpus
  exactly once (counted with multiplicity = count), nothing else, no n-gram twice in a block, no
  zero count; all blocks but the last are full.
* `count_block_indep`: hence per-n-gram totals, n-gram sets and the sorted + combined table are the
  same for any two capacities; the table is `KV.KN.countFull` (`count_combine_spec`), the input of the
  pipeline model of C05.
* `lmplz_indep`: composition with the stages that are proved elsewhere (C16 external sort, C17 chain
  scheduling, C20 vocabulary growth), taken as explicit hypotheses.

The memory-splitting heuristics of `pipeline.cc:44-211` are not modelled: the theorems quantify over
every resulting capacity / configuration, so the heuristics can only choose among behaviours proved
equal.
-/
namespace KV.C07
open KV.KN KV.KN.Count

/-! ## CorpusCount: block boundaries never lose, duplicate or invent an n-gram -/

/-- For every block capacity, the counts of an n-gram summed over all blocks are its number of
occurrences in the (padded) corpus — the block-independent specification. -/
theorem count_total_spec {N : Nat} (hN : 1 ≤ N) (cap : Nat) (corpus : List (List Word)) (g : Gram) :
    total g (corpusCount N cap corpus).flatten = (occurrences N corpus).count g :=
  total_corpusCount hN cap corpus g

/-- order ≥ 2: the n-grams present in some block are exactly those that occur -/
theorem count_keys_spec {N : Nat} (hN : 2 ≤ N) (cap : Nat) (corpus : List (List Word)) (g : Gram) :
    g ∈ (corpusCount N cap corpus).flatten.map (·.1) ↔ g ∈ occurrences N corpus := by
  rw [keys_corpusCount (by omega)]
  constructor
  · rintro (h | h)
    · exact absurd h (keyB_init_ge2 hN cap g)
    · exact h
  · exact Or.inr

/-- order 1: additionally the two slots `<unk>`, `<s>` written by the constructor (count 0) -/
theorem count_keys_spec_one (cap : Nat) (corpus : List (List Word)) (g : Gram) :
    g ∈ (corpusCount 1 cap corpus).flatten.map (·.1) ↔ (g = [unk] ∨ g = [bos]) ∨ g ∈ occurrences 1 corpus := by
  rw [keys_corpusCount (Nat.le_refl _), keyB_init_one]

/-- order ≥ 2: within a block the n-grams are distinct (the dedupe table works per block) and every
count is positive -/
theorem count_blocks_good {N : Nat} (hN : 2 ≤ N) (cap : Nat) (corpus : List (List Word)) :
    ∀ d ∈ corpusCount N cap corpus, (d.map (·.1)).Nodup ∧ ∀ e ∈ d, 0 < e.2 :=
  blocks_good hN cap corpus

/-- every block but the last is full (`cap` slots), the last one is not -/
theorem count_blocks_sized {N cap : Nat} (hN : 1 ≤ N) (hc : 1 ≤ cap) (corpus : List (List Word)) :
    ∃ full last, corpusCount N cap corpus = full ++ [last] ∧ (∀ d ∈ full, d.length = cap) ∧ last.length < cap :=
  blocks_sized N hN hc corpus

/-- the sort + `CombineCounts` stage applied to the blocks (as a function: stable merge sort by
suffix order, then run-length combine) yields the table `countFull` that C05's model starts from -/
theorem count_combine_spec {N : Nat} (hN : 2 ≤ N) (cap : Nat) (corpus : List (List Word)) :
    combineSorted ((corpusCount N cap corpus).flatten.mergeSort gramLe) = countFull N corpus :=
  sortCombine_ge2 hN cap corpus

/-- order 1 (`<unk>`, `<s>` with count 0 in front); the corpus holds no special id, as
`RunWithVocab` skips them (`vocab.IsSpecial(word)` ⇒ `continue`) -/
theorem count_combine_spec_one (cap : Nat) (corpus : List (List Word)) (hw : ∀ s ∈ corpus, ∀ w ∈ s, 2 ≤ w) :
    combineSorted ((corpusCount 1 cap corpus).flatten.mergeSort gramLe) = countFull1 corpus :=
  sortCombine_one cap corpus hw

/-- **Chain block boundaries never change the data**: for any two block capacities (any `-S`,
`--block_count`, … that `pipeline.cc` turns into a block size) the per-n-gram totals, the sets of
n-grams and the sorted, combined tables coincide.  (No hypothesis on the capacities is needed; a
real chain has `cap ≥ 1`, see `count_blocks_sized`.) -/
theorem count_block_indep {N : Nat} (hN : 1 ≤ N) (cap₁ cap₂ : Nat) (corpus : List (List Word)) :
    (∀ g, total g (corpusCount N cap₁ corpus).flatten = total g (corpusCount N cap₂ corpus).flatten) ∧
    (∀ g, g ∈ (corpusCount N cap₁ corpus).flatten.map (·.1) ↔ g ∈ (corpusCount N cap₂ corpus).flatten.map (·.1)) ∧
    combineSorted ((corpusCount N cap₁ corpus).flatten.mergeSort gramLe) =
      combineSorted ((corpusCount N cap₂ corpus).flatten.mergeSort gramLe) := by
  have ht : ∀ g, total g (corpusCount N cap₁ corpus).flatten = total g (corpusCount N cap₂ corpus).flatten :=
    fun g => by rw [count_total_spec hN, count_total_spec hN]
  have hk : ∀ g, g ∈ (corpusCount N cap₁ corpus).flatten.map (·.1) ↔
      g ∈ (corpusCount N cap₂ corpus).flatten.map (·.1) := by
    intro g
    rw [keys_corpusCount hN, keys_corpusCount hN]
    by_cases h1 : N = 1
    · subst h1; rw [keyB_init_one, keyB_init_one]
    · have h2 : 2 ≤ N := by omega
      constructor
      · rintro (h | h)
        · exact absurd h (keyB_init_ge2 h2 cap₁ g)
        · exact Or.inr h
      · rintro (h | h)
        · exact absurd h (keyB_init_ge2 h2 cap₂ g)
        · exact Or.inr h
  exact ⟨ht, hk, combine_sort_ext hk ht⟩

/-! ### non-vacuity: capacities 1, 2 and 100 give different block structures, equal totals -/

def exCorpus : List (List Word) := [[3, 4, 3, 4], [3, 4]]

example : corpusCount 2 1 exCorpus =
    [[([3, 1], 1)], [([4, 3], 1)], [([3, 4], 1)], [([4, 3], 1)], [([2, 4], 1)], [([3, 1], 1)], [([4, 3], 1)],
     [([2, 4], 1)], []] := by decide
example : corpusCount 2 2 exCorpus =
    [[([3, 1], 1), ([4, 3], 1)], [([3, 4], 1), ([4, 3], 1)], [([2, 4], 1), ([3, 1], 1)], [([4, 3], 1), ([2, 4], 1)], []] := by
  decide
/-- capacity 4: the second `4 3` falls into the block that already holds one, the third does not -/
example : corpusCount 2 4 exCorpus =
    [[([3, 1], 1), ([4, 3], 2), ([3, 4], 1), ([2, 4], 1)], [([3, 1], 1), ([4, 3], 1), ([2, 4], 1)]] := by decide
example : corpusCount 2 100 exCorpus = [[([3, 1], 2), ([4, 3], 3), ([3, 4], 1), ([2, 4], 2)]] := by decide
example : occurrences 2 exCorpus = [[3, 1], [4, 3], [3, 4], [4, 3], [2, 4], [3, 1], [4, 3], [2, 4]] := by decide
example : ∀ cap ∈ [1, 2, 3, 4, 100], total [4, 3] (corpusCount 2 cap exCorpus).flatten = 3 := by decide
/-- order 1: the constructor's `<unk>`, `<s>` slots share the first blocks with real unigrams -/
example : corpusCount 1 3 exCorpus =
    [[([0], 0), ([1], 0), ([3], 1)], [([4], 2), ([3], 1), ([2], 1)], [([3], 1), ([4], 1), ([2], 1)], []] := by decide
/-- a writer that forgot to clear the table at the boundary, or carried `N-2` words, would differ here:
the model is not insensitive to its own details -/
example : corpusCount 3 2 [[3, 4, 5]] =
    [[([3, 1, 1], 1), ([4, 3, 1], 1)], [([5, 4, 3], 1), ([2, 5, 4], 1)], []] := by decide

/-! ## The whole tool: composition with C16 / C17 / C20 -/

/-- the modelling options (everything on the command line that is *meant* to change the model) -/
structure Opts where
  /-- order, pruning thresholds, `--limit_vocab_file` exclusions, `--interpolate_unigrams` -/
  cfg : Cfg
  pruneVocab : Bool
  /-- `--discount_fallback` -/
  fallback : Option Disc

/-- The parts of `lmplz` outside `Model/KNCount.lean`, *as executed* under a memory configuration
`m : Mem` (`-S`, `--sort_block`, `--minimum_block`, `--block_count`, `--vocab_estimate`, `-T`) and a
thread schedule `s : Sched`.  Nothing is assumed about them here; the theorems below take the facts
they need as hypotheses. -/
structure Impl (Mem Sched Text Out : Type) where
  /-- slots per block of the CorpusCount chain (`pipeline.cc` + `chain.cc:43`) -/
  cap : Mem → Nat
  /-- tokeniser + `GrowableVocab` (initial size from `--vocab_estimate`, doubling): the id sequences
  of the lines, special words skipped -/
  encode : Mem → Text → List (List Word)
  /-- `Sort<SuffixOrder, CombineCounts>`: block sort, spill to `-T`, multi-pass / lazy merge -/
  sortCombine : Mem → Sched → List (List Rec) → List Rec
  /-- AdjustCounts … Interpolate … PrintARPA / `--intermediate` writer, run as threads over chains
  (with further external sorts between them) -/
  post : Mem → Sched → Opts → List Rec → Out

/-- the tool: `post ∘ sortCombine ∘ corpusCount ∘ encode` -/
def lmplzOut {Mem Sched Text Out : Type} (I : Impl Mem Sched Text Out) (m : Mem) (s : Sched) (opts : Opts)
    (text : Text) : Out :=
  I.post m s opts (I.sortCombine m s (corpusCount opts.cfg.order (I.cap m) (I.encode m text)))

/-- the configuration-free specification: C05's `estimate` on the ids by first occurrence, rendered -/
def lmplzSpec {Text Out : Type} (render : Except Err Model → Out) (ids : Text → List (List Word)) (opts : Opts)
    (text : Text) : Out :=
  render (estimate opts.cfg opts.pruneVocab opts.fallback (ids text))

/-- **The output is a function of (corpus, modelling options) only.**  Hypotheses (visible, not
proved here; each is the statement of another property's theorem):

* `h_vocab` — C20 `vocab_ids_indep`: the ids `GrowableVocab` assigns are those of the order of first
  occurrence (`ids`), for every initial table size / doubling history;
* `h_ids` — `corpus_count.cc:247`: special ids never reach `Append`;
* `h_sort` — C16 `sort_sorted_perm_combine`: for every plan (block size, buffer sizes, number of
  passes, lazy memory, temp dir) and schedule the external sort with `CombineCounts` returns the
  sorted permutation of all records, equal n-grams combined;
* `h_chain` — C17 `chain_deterministic` (and C16 again for the context/suffix sorts between the
  later stages): for every schedule and every chain geometry the stream seen by the last stage is the
  composition of the stage functions, which C05 models as `estimateFrom`; `render` is the printer.

Conclusion: the tool equals the configuration-free `lmplzSpec`. -/
theorem lmplz_eq_spec {Mem Sched Text Out : Type} (I : Impl Mem Sched Text Out)
    (render : Except Err Model → Out) (ids : Text → List (List Word)) (opts : Opts) (hN : 1 ≤ opts.cfg.order)
    (text : Text)
    (h_vocab : ∀ m, I.encode m text = ids text)
    (h_ids : ∀ s ∈ ids text, ∀ w ∈ s, isSpecial w = false)
    (h_sort : ∀ m s blocks, I.sortCombine m s blocks = combineSorted (blocks.flatten.mergeSort gramLe))
    (h_chain : ∀ m s full, I.post m s opts full = render (estimateFrom opts.cfg opts.pruneVocab opts.fallback full))
    (m : Mem) (s : Sched) :
    lmplzOut I m s opts text = lmplzSpec render ids opts text := by
  unfold lmplzOut lmplzSpec estimate
  rw [h_chain, h_sort, h_vocab]
  by_cases h1 : opts.cfg.order ≤ 1
  · have e1 : opts.cfg.order = 1 := by omega
    rw [if_pos h1, e1, count_combine_spec_one]
    intro l hl w hw
    have := h_ids l hl w hw
    simp only [isSpecial, unk, bos, eos, Bool.or_eq_false_iff, beq_eq_false_iff_ne] at this
    have h0 : w ≠ 0 := this.1.1
    have h1 : w ≠ 1 := this.1.2
    exact Nat.lt_of_le_of_ne (Nat.pos_of_ne_zero h0) (Ne.symm h1)
  · rw [if_neg h1, count_combine_spec (by omega)]

/-- **C07**: any two memory configurations and any two schedules give the same output. -/
theorem lmplz_indep {Mem Sched Text Out : Type} (I : Impl Mem Sched Text Out)
    (render : Except Err Model → Out) (ids : Text → List (List Word)) (opts : Opts) (hN : 1 ≤ opts.cfg.order)
    (text : Text)
    (h_vocab : ∀ m, I.encode m text = ids text)
    (h_ids : ∀ s ∈ ids text, ∀ w ∈ s, isSpecial w = false)
    (h_sort : ∀ m s blocks, I.sortCombine m s blocks = combineSorted (blocks.flatten.mergeSort gramLe))
    (h_chain : ∀ m s full, I.post m s opts full = render (estimateFrom opts.cfg opts.pruneVocab opts.fallback full))
    (m₁ m₂ : Mem) (s₁ s₂ : Sched) :
    lmplzOut I m₁ s₁ opts text = lmplzOut I m₂ s₂ opts text := by
  rw [lmplz_eq_spec I render ids opts hN text h_vocab h_ids h_sort h_chain,
    lmplz_eq_spec I render ids opts hN text h_vocab h_ids h_sort h_chain]

/-! ### non-vacuity: an implementation satisfying all four hypotheses whose chain blocks differ -/

/-- `Mem` = block capacity, one schedule, text = id sequences; sort and later stages are the
functions themselves -/
def exImpl : Impl Nat Unit (List (List Word)) (Except Err Model) where
  cap := fun m => m
  encode := fun _ t => t
  sortCombine := fun _ _ blocks => combineSorted (blocks.flatten.mergeSort gramLe)
  post := fun _ _ o full => estimateFrom o.cfg o.pruneVocab o.fallback full

def exOpts : Opts := { cfg := { order := 2, thr := fun _ => 0, excl := fun _ => false }, pruneVocab := false,
                       fallback := some ⟨1/2, 1, 3/2⟩ }

example : lmplzOut exImpl 1 () exOpts exCorpus = lmplzOut exImpl 100 () exOpts exCorpus :=
  lmplz_indep exImpl id (fun t => t) exOpts (by decide) exCorpus (fun _ => rfl) (by decide)
    (fun _ _ _ => rfl) (fun _ _ _ => rfl) 1 100 () ()

/-! ## chain block boundaries inside the pipeline: the two compacting iterators -/

open KV.KN.Blocks in
/-- `CollapseStream` compacts every chain block in place; whatever the block boundaries are,
the records that flow on are the same multiset (they are sorted again afterwards) -/
theorem collapse_partition_indep {α : Type} [Inhabited α] (p : α → Bool) (bs₁ bs₂ : List (List α))
    (h : bs₁.flatten = bs₂.flatten) :
    (collapseStream p bs₁).2.Perm (collapseStream p bs₂).2 :=
  collapseStream_partition p bs₁ bs₂ h

open KV.KN.Blocks in
/-- `PruneNGramStream` (repaired) drops the marked records block by block; the output stream does
not depend on the block boundaries -/
theorem prune_partition_indep {β : Type} (f : KV.KN.Emit → β) (bs₁ bs₂ : List (List KV.KN.Emit))
    (h : bs₁.flatten = bs₂.flatten) : pruneStream true f bs₁ = pruneStream true f bs₂ := by
  rw [pruneStream_fixed, pruneStream_fixed, h]

end KV.C07
