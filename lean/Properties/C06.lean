import Generated.C06
import Model.KN
import Model.KNSpec
import Model.KNQuery
import Proofs.KNNorm
import Proofs.KNTable
import Proofs.KNCorpus
import Proofs.KNProb
import Proofs.KNCorpus3
import Proofs.KNCorpus4
import Proofs.KNInterp2
import Proofs.KNOutput
import Proofs.KNCorpus5
/-!
# C06 — lmplz output is a proper, closed, loadable language model

Over the set-based specification `Spec.estimateFrom` (Model/KNSpec.lean), which the check
ties to the real `bin/lmplz` (C05 stream) and whose streaming counterpart is Model/KN.lean.
`Query.score` is the ARPA back-off recursion every KenLM data structure implements (C01).

The hypotheses about the count table are collected in `KV.KN.Norm.TableOK` (one record per
n-gram, closure of the kept n-grams under dropping the oldest / newest word, positive
counts above order 1, special unigrams unmarked, `uniform = 1/(|kept vocabulary| − 1)`).
-/
namespace KV.C06
open KV.KN KV.KN.Norm

/-! ## the tree implements the repaired variants the theorems describe -/

/-- special unigrams are never count-pruned in the order ≥ 2 paths of `AdjustCounts::Run`
(broken obligation on a tree where `</s>` can be marked: then the header count is one short
and `p(</s>)` is garbage — replayed by the check) -/
theorem keep_specials_tree : KV.Gen.C06.keepSpecials = true := by decide

/-- `PruneNGramStream` moves special unigrams like every other kept record (on the unrepaired
tree a special unigram that follows a pruned one in a renumbered vocabulary is lost) -/
theorem prune_copies_specials_tree : KV.Gen.C06.pruneCopiesSpecials = true := by decide

/-! ## normalisation -/

/-- **Abstract normalisation.** For any system of kept extensions `inE`, discounted
probabilities `u`, interpolation weights `γ` (holding discounted *and* pruned mass),
stored probabilities `p` and back-offs `bo` that satisfies the per-context mass identity,
the interpolation equation, closure and the two back-off rules, the back-off query sums to
one over the vocabulary for **every** context — in the model or not, of any length. -/
theorem normalised_abstract (S : System) (h : S.OK) (ctx : Gram) :
    (S.V.map (S.pBO ctx)).sum = 1 :=
  KV.KN.Norm.normalised_abstract S h ctx

example : exSys.OK := exSys_ok

/-- **Per-context mass identity of the specification**: kept discounted mass plus
`γ = (Σ_kept D(c) + Σ_pruned c)/Σ c` is one ("Makes model sum to 1 with pruning (I hope)"). -/
theorem ctx_mass_identity (d : Disc) (es : List Emit) (ctx : Gram) (hden : Spec.den es ctx ≠ 0) :
    (((Spec.group es ctx).filter fun e => !e.marked).map (Spec.uProb d es)).sum + Spec.gamma d es ctx = 1 :=
  KV.KN.Norm.ctx_mass_identity d es ctx hden

/-- **normalised**: in the model the specification produces, for every context `ctx` (any
word list, in the model or not), `Σ_{w ∈ V, w ≠ <s>} score(ctx, w) = 1`; with pruning, with
either `--interpolate_unigrams` setting. -/
theorem normalised {c : Spec.Ctx} (h : TableOK c) (ctx : Gram) :
    ((Query.vocabNoBos (ordersOf c)).map (Query.score (ordersOf c) ctx)).sum = 1 :=
  KV.KN.Norm.normalised h ctx

example : TableOK exCtx := exCtx_ok

/-- the same for the value `Spec.estimateFrom` returns -/
theorem normalised_estimate (cfg : Cfg) (fallback : Option Disc) (full : Spec.Table) (m : Model)
    (hm : Spec.estimateFrom cfg fallback full = .ok m)
    (hT : ∀ discs, discounts fallback ((specRecords cfg full).map Spec.stats) = .ok discs →
      TableOK (specCtx cfg full discs))
    (ctx : Gram) :
    ((Query.vocabNoBos m.orders).map (Query.score m.orders ctx)).sum = 1 :=
  KV.KN.Norm.normalised_estimate cfg fallback full m hm hT ctx

/-- **normalised, from decidable facts about the count table only** (`Spec.TableWF`: every row
has `order` words, rows distinct with positive counts, the newest word is never `<s>`/`<unk>`,
no `<unk>`/`</s>` in second position, `<s>` only as a run at the old end, every n-gram occurs
at most as often as its context (`tailDom`), non-decreasing prune thresholds).  The driver
evaluates `Spec.tableWFb` on every generated case. -/
theorem normalised_table (cfg : Cfg) (fallback : Option Disc) (full : Spec.Table) (m : Model)
    (hm : Spec.estimateFrom cfg fallback full = .ok m) (hw : Spec.TableWF cfg full) (ctx : Gram) :
    ((Query.vocabNoBos m.orders).map (Query.score m.orders ctx)).sum = 1 :=
  KV.KN.Norm.normalised_table cfg fallback full m hm hw ctx

/-- the order-1 model -/
theorem normalised_table1 (cfg : Cfg) (fallback : Option Disc) (full : Spec.Table) (m : Model)
    (hm : Spec.estimateFrom cfg fallback full = .ok m) (hw : Spec.TableWF1 cfg full) (ctx : Gram) :
    ((Query.vocabNoBos m.orders).map (Query.score m.orders ctx)).sum = 1 :=
  KV.KN.Norm.normalised_table1 cfg fallback full m hm hw ctx

/-- `TableWF` ⇒ the records of the specification are closed, distinct, positively counted, … -/
theorem tableOK_of_wf {cfg : Cfg} {full : Spec.Table} (hw : Spec.TableWF cfg full) (discs : List (Disc × Bool)) :
    TableOK (specCtx cfg full discs) :=
  KV.KN.Norm.tableOK_of_wf hw discs

/-- **normalised, for every corpus**: for every non-empty corpus of ordinary words (ids ≥ 3,
i.e. no `<s>`, `</s>`, `<unk>` tokens — lmplz rejects or skips them), every order ≥ 2, every
non-decreasing prune-threshold vector, every excluded-word set, both `--interpolate_unigrams`
settings and whatever discounts were used: in the model the specification estimates, the
back-off probabilities of all vocabulary words except `<s>` sum to exactly one for **every**
context (any word list of any length, in the model or not). -/
theorem normalised_corpus (cfg : Cfg) (pv : Bool) (fallback : Option Disc) (corpus : List (List Word))
    (m : Model) (hm : Spec.estimate cfg pv fallback corpus = .ok m) (h2 : 2 ≤ cfg.order)
    (hne : corpus ≠ []) (hw : ∀ s ∈ corpus, ∀ w ∈ s, 3 ≤ w)
    (hthr : ∀ i, i < cfg.order - 1 → cfg.thr i ≤ cfg.thr (i + 1)) (ctx : Gram) :
    ((Query.vocabNoBos m.orders).map (Query.score m.orders ctx)).sum = 1 :=
  KV.KN.Norm.normalised_corpus cfg pv fallback corpus m hm h2 hne hw hthr ctx

/-- **normalised, for the streaming pipeline** (the model that is differentially tied to the C++):
by `KV.KN.Interp.estimate_eq_spec` the transcription of `AdjustCounts`/`InitialProbabilities`/
`Interpolate` returns the specification's model, hence a normalised one. -/
theorem normalised_stream (cfg : Cfg) (pv : Bool) (fallback : Option Disc) (corpus : List (List Word))
    (m : Model) (hm : estimate cfg pv fallback corpus = .ok m) (h2 : 2 ≤ cfg.order)
    (hne : corpus ≠ []) (hw : ∀ s ∈ corpus, ∀ w ∈ s, 3 ≤ w)
    (hthr : ∀ i, i < cfg.order - 1 → cfg.thr i ≤ cfg.thr (i + 1))
    (hk : cfg.keepSpecials = true) (hfix : cfg.flushAdjusted = true)
    (hpv : pv = false → ∀ w, cfg.excl w = false) (ctx : Gram) :
    ((Query.vocabNoBos m.orders).map (Query.score m.orders ctx)).sum = 1 := by
  rw [KV.KN.Interp.estimate_eq_spec cfg pv fallback corpus (by omega) hne hw hthr hk hfix hpv] at hm
  exact normalised_corpus cfg pv fallback corpus m hm h2 hne hw hthr ctx

open KV.KN.Output in
/-- **intermediate_eq**: over the model of `Output::SinkProbs` with both hooks (`writeBoth`): the
ARPA text and the intermediate files carry the same metadata counts, the same number of orders
and records per order, and line by line the same n-gram, the same probability and — wherever
the ARPA prints one (all orders but the highest) — the same back-off; the ARPA is a function
of the intermediate files. -/
theorem intermediate_eq (m : Model) :
    (writeBoth m).1.counts = (writeBoth m).2.counts ∧
    (writeBoth m).1.sections.length = (writeBoth m).2.files.length ∧
    (∀ i : Nat, (writeBoth m).1.sections[i]?.map List.length = (writeBoth m).2.files[i]?.map List.length) ∧
    (∀ (i j : Nat) (line : ArpaLine), (writeBoth m).1.sections[i]?.bind (·[j]?) = some line →
      ∃ r : InterRec, (writeBoth m).2.files[i]?.bind (·[j]?) = some r ∧ line.1 = r.1 ∧ line.2.1 = r.2.1 ∧
        (∀ b, line.2.2 = some b → b = r.2.2) ∧
        line.2.2.isSome = decide (i + 1 < (writeBoth m).2.files.length)) ∧
    (writeBoth m).1 = arpaFromInter (writeBoth m).2 :=
  KV.KN.Output.intermediate_eq m

open KV.KN.Output in
/-- with `header_counts_corpus` the metadata / header counts are the file / section lengths -/
theorem intermediate_header (m : Model) (h : m.header = m.orders.map List.length) :
    (interOf m).counts = (interOf m).files.map List.length ∧
    (arpaOf m).counts = (arpaOf m).sections.map List.length :=
  KV.KN.Output.intermediate_header m h

/-- **specials, order-1 model** (`closed` is vacuous there: nothing of order ≥ 2 is written) -/
theorem specials_corpus1 (cfg : Cfg) (pv : Bool) (fallback : Option Disc) (corpus : List (List Word)) (m : Model)
    (hm : Spec.estimate cfg pv fallback corpus = .ok m) (h1 : cfg.order = 1) (hne : corpus ≠ [])
    (hw : ∀ s ∈ corpus, ∀ w ∈ s, 3 ≤ w) :
    (Query.lookup m.orders [unk]).isSome = true ∧ (Query.lookup m.orders [bos]).isSome = true ∧
      (Query.lookup m.orders [eos]).isSome = true :=
  KV.KN.Norm.specials_corpus1 cfg pv fallback corpus m hm h1 hne hw

/-- **header_counts, order-1 model** -/
theorem header_counts_corpus1 (cfg : Cfg) (pv : Bool) (fallback : Option Disc) (corpus : List (List Word)) (m : Model)
    (hm : Spec.estimate cfg pv fallback corpus = .ok m) (h1 : cfg.order = 1) (hne : corpus ≠ [])
    (hw : ∀ s ∈ corpus, ∀ w ∈ s, 3 ≤ w) : m.header = m.orders.map List.length :=
  KV.KN.Norm.header_counts_corpus1 cfg pv fallback corpus m hm h1 hne hw

/-- the order-1 model -/
theorem normalised_corpus1 (cfg : Cfg) (pv : Bool) (fallback : Option Disc) (corpus : List (List Word))
    (m : Model) (hm : Spec.estimate cfg pv fallback corpus = .ok m) (h1 : cfg.order = 1)
    (hne : corpus ≠ []) (hw : ∀ s ∈ corpus, ∀ w ∈ s, 3 ≤ w) (ctx : Gram) :
    ((Query.vocabNoBos m.orders).map (Query.score m.orders ctx)).sum = 1 :=
  KV.KN.Norm.normalised_corpus1 cfg pv fallback corpus m hm h1 hne hw ctx

/-- the count table of every corpus satisfies the hypotheses of `normalised_table` -/
theorem tableWF_countFull (cfg : Cfg) (corpus : List (List Word)) (h2 : 2 ≤ cfg.order)
    (hne : corpus ≠ []) (hw : ∀ s ∈ corpus, ∀ w ∈ s, 3 ≤ w)
    (hthr : ∀ i, i < cfg.order - 1 → cfg.thr i ≤ cfg.thr (i + 1)) :
    Spec.TableWF cfg (countFull cfg.order corpus) :=
  KV.KN.Norm.tableWF_countFull cfg corpus h2 hne hw hthr

example : ∃ (cfg : Cfg) (corpus : List (List Word)), 2 ≤ cfg.order ∧ corpus ≠ [] ∧ (∀ s ∈ corpus, ∀ w ∈ s, 3 ≤ w) ∧
    (∀ i, i < cfg.order - 1 → cfg.thr i ≤ cfg.thr (i + 1)) :=
  ⟨{ order := 3, thr := fun i => if i = 0 then 0 else 1, excl := fun _ => false }, [[3, 4], [3], [4, 3, 5]],
   by decide, by decide, by decide, by decide⟩

/-- **prob_le_zero**: every written probability is in `[0, 1]` (so its `log10` is ≤ 0) and every
back-off weight is ≥ 0, for every corpus, when the user's fallback discounts are in range
(`ParseDiscountFallback` enforces `0 ≤ Dⱼ ≤ j`; the closed form is range-checked by the code). -/
theorem prob_le_zero (cfg : Cfg) (pv : Bool) (fallback : Option Disc) (corpus : List (List Word))
    (m : Model) (hm : Spec.estimate cfg pv fallback corpus = .ok m) (h2 : 2 ≤ cfg.order)
    (hne : corpus ≠ []) (hw : ∀ s ∈ corpus, ∀ w ∈ s, 3 ≤ w)
    (hthr : ∀ i, i < cfg.order - 1 → cfg.thr i ≤ cfg.thr (i + 1))
    (hfb : ∀ f, fallback = some f → DiscOK f) :
    ∀ l ∈ m.orders, ∀ e ∈ l, 0 ≤ e.p ∧ e.p ≤ 1 ∧ 0 ≤ e.bo :=
  KV.KN.Norm.prob_le_one_corpus cfg pv fallback corpus m hm h2 hne hw hthr hfb

/-- the back-off query itself is a probability for every context and vocabulary word -/
theorem score_bounds (cfg : Cfg) (pv : Bool) (fallback : Option Disc) (corpus : List (List Word))
    (m : Model) (hm : Spec.estimate cfg pv fallback corpus = .ok m) (h2 : 2 ≤ cfg.order)
    (hne : corpus ≠ []) (hw : ∀ s ∈ corpus, ∀ w ∈ s, 3 ≤ w)
    (hthr : ∀ i, i < cfg.order - 1 → cfg.thr i ≤ cfg.thr (i + 1))
    (hfb : ∀ f, fallback = some f → DiscOK f) (ctx : Gram) (w : Word)
    (hwv : w ∈ Query.vocabNoBos m.orders) :
    0 ≤ Query.score m.orders ctx w ∧ Query.score m.orders ctx w ≤ 1 :=
  KV.KN.Norm.score_bounds_corpus cfg pv fallback corpus m hm h2 hne hw hthr hfb ctx w hwv

/-! ## header counts, specials, closure -/

theorem length_mergeSort_map_filter (c : Spec.Ctx) (l : List Emit) :
    (((l.filter keptBy).map (mkEntry c)).mergeSort Spec.specLe).length = (l.filter keptBy).length := by
  rw [(List.mergeSort_perm _ _).length_eq, List.length_map]

/-- a record is written iff it is unmarked, when unmarked records have a positive count or
are special unigrams and special unigrams are unmarked -/
theorem kept_iff_unmarked (es : List Emit)
    (hpos : ∀ e ∈ es, e.marked = false → 1 ≤ e.count ∨ (e.gram.length = 1 ∧ e.gram.all isSpecial = true))
    (hsp : ∀ e ∈ es, e.gram.length = 1 → e.gram.all isSpecial = true → e.marked = false) :
    (es.filter keptBy).length = es.countP (fun e => !e.marked) := by
  rw [List.countP_eq_length_filter]
  congr 1
  apply List.filter_congr
  intro e he
  unfold keptBy Emit.cutoff
  cases hm : e.marked with
  | true =>
    by_cases hs : (e.gram.length == 1 && e.gram.all isSpecial) = true
    · simp only [Bool.and_eq_true, beq_iff_eq] at hs
      have := hsp e he hs.1 hs.2
      rw [hm] at this; cases this
    · simp only [Bool.not_eq_true] at hs
      simp [hs]
  | false =>
    rcases hpos e he hm with h | h
    · have : decide (e.count > 0) = true := by simp; omega
      simp [this]
    · simp [h.1, h.2]

/-- **header_counts**: the count written to the ARPA header / intermediate metadata
(`counts_pruned` = number of unmarked records) is the number of entries written. -/
theorem header_counts (c : Spec.Ctx) (n : Nat) (hn : n < c.es.length)
    (hpos : ∀ e ∈ c.es[n], e.marked = false → 1 ≤ e.count ∨ (e.gram.length = 1 ∧ e.gram.all isSpecial = true))
    (hsp : ∀ e ∈ c.es[n], e.gram.length = 1 → e.gram.all isSpecial = true → e.marked = false) :
    ((ordersOf c).getD n []).length = (Spec.stats c.es[n]).countPruned := by
  have : (ordersOf c).getD n [] = ((c.es[n].filter keptBy).map (mkEntry c)).mergeSort Spec.specLe := by
    unfold ordersOf
    simp [List.getD, hn]
  rw [this, length_mergeSort_map_filter, kept_iff_unmarked _ hpos hsp]
  rfl

/-- **header_counts, for every corpus**: the header / metadata counts are the numbers of entries -/
theorem header_counts_corpus (cfg : Cfg) (pv : Bool) (fallback : Option Disc) (corpus : List (List Word)) (m : Model)
    (hm : Spec.estimate cfg pv fallback corpus = .ok m) (h2 : 2 ≤ cfg.order) (hne : corpus ≠ [])
    (hw : ∀ s ∈ corpus, ∀ w ∈ s, 3 ≤ w) (hthr : ∀ i, i < cfg.order - 1 → cfg.thr i ≤ cfg.thr (i + 1)) :
    m.header = m.orders.map List.length :=
  KV.KN.Norm.header_counts_corpus cfg pv fallback corpus m hm h2 hne hw hthr

/-- **closed, for every corpus**: context and suffix of every written n-gram are written -/
theorem closed_corpus (cfg : Cfg) (pv : Bool) (fallback : Option Disc) (corpus : List (List Word)) (m : Model)
    (hm : Spec.estimate cfg pv fallback corpus = .ok m) (h2 : 2 ≤ cfg.order) (hne : corpus ≠ [])
    (hw : ∀ s ∈ corpus, ∀ w ∈ s, 3 ≤ w) (hthr : ∀ i, i < cfg.order - 1 → cfg.thr i ≤ cfg.thr (i + 1))
    (g : Gram) (hg : 2 ≤ g.length) (hin : (Query.lookup m.orders g).isSome = true) :
    (Query.lookup m.orders g.tail).isSome = true ∧ (Query.lookup m.orders g.dropLast).isSome = true :=
  KV.KN.Norm.closed_corpus cfg pv fallback corpus m hm h2 hne hw hthr g hg hin

/-- **specials, for every corpus** -/
theorem specials_corpus (cfg : Cfg) (pv : Bool) (fallback : Option Disc) (corpus : List (List Word)) (m : Model)
    (hm : Spec.estimate cfg pv fallback corpus = .ok m) (h2 : 2 ≤ cfg.order) (hne : corpus ≠ [])
    (hw : ∀ s ∈ corpus, ∀ w ∈ s, 3 ≤ w) (hthr : ∀ i, i < cfg.order - 1 → cfg.thr i ≤ cfg.thr (i + 1)) :
    (Query.lookup m.orders [unk]).isSome = true ∧ (Query.lookup m.orders [bos]).isSome = true ∧
      (Query.lookup m.orders [eos]).isSome = true :=
  KV.KN.Norm.specials_corpus cfg pv fallback corpus m hm h2 hne hw hthr

/-! ## the option-vector rule of `ParsePruning` is what `closed` rests on -/

/-- the rule the current tree applies to `--prune` vectors (observed by the probe on fixed
vectors: a decrease at the first, a middle and only the LAST position, too many values, vectors
shorter than the order) is the model's `pruneVectorOK` -/
theorem prune_rule_tree : ∀ x ∈ KV.Gen.C06.pruneProbe, pruneVectorOK x.1 x.2.1 = x.2.2 := by decide

theorem getD_mono_of_nonDecreasing : ∀ (l : List Nat) (d : Nat), l.getLast? = some d → nonDecreasing l = true →
    ∀ i, l.getD i d ≤ l.getD (i + 1) d
  | [], _, h, _, _ => by simp at h
  | [a], d, h, _, i => by
    simp at h; subst h
    cases i <;> simp [List.getD]
  | a :: b :: t, d, h, hn, i => by
    have hl : (b :: t).getLast? = some d := by simpa [List.getLast?_cons_cons] using h
    simp only [nonDecreasing, Bool.and_eq_true, decide_eq_true_eq] at hn
    cases i with
    | zero => simpa [List.getD] using hn.1
    | succ j =>
      have := getD_mono_of_nonDecreasing (b :: t) d hl hn.2 j
      simpa [List.getD] using this

/-- thresholds padded from a non-decreasing vector are non-decreasing over all orders -/
theorem padPrune_mono (vals : List Nat) (h : nonDecreasing vals = true) (i : Nat) :
    padPrune vals i ≤ padPrune vals (i + 1) := by
  unfold padPrune
  cases hl : vals.getLast? with
  | none => simp
  | some d => exact getD_mono_of_nonDecreasing vals d hl h i

/-- what an accepted `--prune` option means: the values parse, satisfy `pruneVectorOK`, and the
thresholds used are the padded ones — in particular they never decrease -/
theorem parsePruning_ok (toks : List String) (order : Nat) (thr : Nat → Nat)
    (h : parsePruning toks order = .ok thr) :
    (∃ vals, toks.mapM parseU64 = some vals ∧ (vals = [] ∨ pruneVectorOK vals order = true) ∧ thr = padPrune vals) ∧
    ∀ i, thr i ≤ thr (i + 1) := by
  unfold parsePruning at h
  cases hm : toks.mapM parseU64 with
  | none => simp [hm] at h
  | some vals =>
    simp only [hm] at h
    by_cases he : vals.isEmpty = true
    · simp only [he, if_true] at h
      have hv : vals = [] := by simpa using he
      cases h
      exact ⟨⟨vals, rfl, Or.inl hv, by subst hv; rfl⟩, fun _ => Nat.le_refl _⟩
    · simp only [he] at h
      by_cases hc : vals.length > order
      · simp [hc] at h
      · by_cases hd : nonDecreasing vals = true
        · simp [hc, hd] at h
          cases h
          refine ⟨⟨vals, rfl, Or.inr ?_, rfl⟩, padPrune_mono vals hd⟩
          simp [pruneVectorOK, hd]; omega
        · simp [hc, hd] at h

/-- **closed, under the rule lmplz enforces on `--prune`**: whenever `ParsePruning` accepts the
option, every written n-gram has its context and its suffix written one order lower. -/
theorem closed_under_prune_rule (cfg : Cfg) (toks : List String) (hp : parsePruning toks cfg.order = .ok cfg.thr)
    (pv : Bool) (fallback : Option Disc) (corpus : List (List Word)) (m : Model)
    (hm : Spec.estimate cfg pv fallback corpus = .ok m) (h2 : 2 ≤ cfg.order) (hne : corpus ≠ [])
    (hw : ∀ s ∈ corpus, ∀ w ∈ s, 3 ≤ w) (g : Gram) (hg : 2 ≤ g.length)
    (hin : (Query.lookup m.orders g).isSome = true) :
    (Query.lookup m.orders g.tail).isSome = true ∧ (Query.lookup m.orders g.dropLast).isSome = true :=
  KV.KN.Norm.closed_corpus cfg pv fallback corpus m hm h2 hne hw
    (fun i _ => (parsePruning_ok toks cfg.order cfg.thr hp).2 i) g hg hin

/-- the corpus `a b c / a b c` as its order-3 count table -/
def ruleWitnessTable : Spec.Table := [([2, 5, 4], 2), ([3, 1, 1], 2), ([4, 3, 1], 2), ([5, 4, 3], 2)]

def ruleWitnessCfg : Cfg := { order := 3, thr := padPrune [0, 2, 1], excl := fun _ => false }

/-- **the rule is necessary**: with the vector `0 2 1` (refused by `pruneVectorOK`; a tree whose
check skips the last pair accepts it) the trigram `a b c` (count 2 > 1) is written while its
context `a b` (count 2 ≤ 2) and every other bigram is pruned: closure fails. -/
theorem closed_fails_without_rule :
    pruneVectorOK [0, 2, 1] 3 = false ∧
    ∃ e ∈ Spec.ents ruleWitnessCfg ruleWitnessTable 3, e.gram = [5, 4, 3] ∧ keptBy e = true ∧
      ∀ e' ∈ Spec.ents ruleWitnessCfg ruleWitnessTable 2, keptBy e' = false := by
  decide

/-- **closed** (specification): every written n-gram of order ≥ 2 has its context (drop the
newest word) and its suffix (drop the oldest word) written one order lower — under pruning too. -/
theorem closed_spec {c : Spec.Ctx} (h : TableOK c) (g : Gram) (hg : 2 ≤ g.length)
    (hin : (Query.lookup (ordersOf c) g).isSome) :
    (Query.lookup (ordersOf c) g.tail).isSome ∧ (Query.lookup (ordersOf c) g.dropLast).isSome := by
  have hne : g ≠ [] := by intro h0; subst h0; simp at hg
  rw [lookup_eq c g hne] at hin
  have hk : keptIn c g = true := by
    by_cases hk : keptIn c g = true
    · exact hk
    · simp [hk] at hin
  obtain ⟨e, he, hke, heg⟩ := keptIn_iff.mp hk
  obtain ⟨n, hn⟩ : ∃ n, g.length = n + 2 := ⟨g.length - 2, by omega⟩
  have he' : e ∈ c.esAt ((n + 1) + 1) := by rw [← hn]; exact he
  obtain ⟨⟨e1, he1, hk1, hg1⟩, ⟨e2, he2, hk2, hg2⟩⟩ := h.closure (n + 1) (by omega) e he' hke
  have ht : g.tail ≠ [] := by
    intro h0
    have := congrArg List.length h0
    simp at this; omega
  have hd : g.dropLast ≠ [] := by
    intro h0
    have := congrArg List.length h0
    simp at this; omega
  have ltail : g.tail.length = n + 1 := by simp; omega
  have ldrop : g.dropLast.length = n + 1 := by simp; omega
  constructor
  · rw [lookup_eq c g.tail ht]
    have : keptIn c g.tail = true :=
      keptIn_iff.mpr ⟨e2, by rw [ltail]; exact he2, hk2, by rw [hg2, heg]⟩
    simp [this]
  · rw [lookup_eq c g.dropLast hd]
    have : keptIn c g.dropLast = true :=
      keptIn_iff.mpr ⟨e1, by rw [ldrop]; exact he1, hk1, by rw [hg1, heg]⟩
    simp [this]

/-- **specials**: `<unk>`, `<s>`, `</s>` are unigrams of the output whenever they have records
(`<unk>`, `<s>` always; `</s>` as soon as the corpus has one line) — they are kept even when marked. -/
theorem specials (c : Spec.Ctx) (w : Word) (hw : isSpecial w = true) (hrec : ∃ e ∈ c.esAt 1, e.gram = [w]) :
    (Query.lookup (ordersOf c) [w]).isSome := by
  obtain ⟨e, he, hg⟩ := hrec
  rw [lookup_eq c [w] (by simp)]
  have : keptIn c [w] = true := by
    apply keptIn_iff.mpr
    refine ⟨e, he, ?_, hg⟩
    unfold keptBy
    simp [hg, hw]
  simp [this]

end KV.C06
