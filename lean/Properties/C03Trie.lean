import Proofs.TrieCheck
import Properties.C01
/-!
# C03 (trie clause) — the bit-packed trie search refines the abstract table

`Model/TrieLM.lean` is `trie::TrieSearch<Quant, Bhiksha>` over the *bytes of a binary file* (a little-endian `Nat` memory):
unigram array with `next` pointers, bit-packed middle / longest records, `FindBitPacked` = `BoundedSortedUniformFind` with
`Pivot32`, `DontBhiksha` / `ArrayBhiksha::ReadNext`, `DontQuantize` / `SeparatelyQuantize` value reads.
`TrieLM.ofLayout` places it at the offsets of the C04 layout model (`Binary.trieSetup`), so the same definitions run in the
driver on the bytes `build_binary` wrote and are compared with the real `TrieSearch` lookups (stream `trielm` of check C04).

Proved in general (any memory, any table, any order, both Bhiksha variants, both quantisation variants, any `fval`):
`trie_refines`, `trie_prob`, `trie_refines_of_check`.  By `decide +kernel` on concrete instances (real file bytes of a
pruned model that needs a blank): `ExamplePlain.represents`, `ExampleQuantArray.represents`.
-/
namespace KV.C03Trie
open KV.Arpa KV.Table KV.Score KV.State KV.TrieLM

/-- **trie_refines**: if the memory represents the table (`Represents`: chains of sorted child ranges lead to records holding
word, values and child range of every entry, and nothing else), then for every in-state and word whose ids are below the
vocabulary bound (`new_word < Bound()`, the code's precondition), `FullScore` over the trie returns exactly what `FullScore`
over the table returns: probability, matched length, left-independence, rest and out-state.  Uses C20
`bounded_find_correct` for `FindBitPacked`; holds for `DontBhiksha` and `ArrayBhiksha`, `DontQuantize` and
`SeparatelyQuantize` alike (they only differ in how `middleRec` / `longestProbBits` read the memory). -/
theorem trie_refines (fval : Nat → Rat) (M : Trie) (T : Table) (rng : List Word → Node) (rep : Represents fval M T rng)
    (hN : 2 ≤ T.order) (s : State) (w : Word) (hw : w < M.bound) (hs : ∀ x ∈ s.words.take s.length, x < M.bound) :
    (fullScore (search fval M) s w).1.prob = (fullScore (tableSearch T) s w).1.prob ∧
    (fullScore (search fval M) s w).1.ngramLength = (fullScore (tableSearch T) s w).1.ngramLength ∧
    (fullScore (search fval M) s w).1.independentLeft = (fullScore (tableSearch T) s w).1.independentLeft ∧
    (fullScore (search fval M) s w).1.rest = (fullScore (tableSearch T) s w).1.rest ∧
    (fullScore (search fval M) s w).2 = (fullScore (tableSearch T) s w).2 :=
  fullScore_simOn (fun w => w < M.bound) _ _ _ (trie_sim fval M T rng rep hN)
    (by show 2 ≤ M.order; rw [rep.order]; exact hN) s w hw hs

/-- hence: a trie that represents `build a unmarked` (whichever blanks lost their mark, pre-observation G) returns the ARPA
back-off recursion -/
theorem trie_prob (a : Arpa) (wf : WellFormed a) (unmarked : List Word → Bool) (fval : Nat → Rat) (M : Trie)
    (rng : List Word → Node) (rep : Represents fval M (build a unmarked) rng)
    (h : List Word) (s : State) (sf : StateFor a h s) (w : Word) (hw : a.gram [w] ≠ none)
    (hwb : w < M.bound) (hs : ∀ x ∈ s.words.take s.length, x < M.bound) :
    (fullScore (search fval M) s w).1.prob = score a h w := by
  rw [(trie_refines fval M _ rng rep wf.order_ge s w hwb hs).1]
  exact KV.C01.fullScore_prob a wf unmarked h s sf w hw

/-- the decidable checker is a sufficient condition: a finite table, a memory, ghost ranges; `check = true` ⇒ refinement -/
theorem trie_refines_of_check (fval : Nat → Rat) (M : Trie) (ft : FT) (order : Nat) (rng : List Word → Node)
    (hc : check fval M ft order rng = true) (hN : 2 ≤ order) (s : State) (w : Word) (hw : w < M.bound)
    (hs : ∀ x ∈ s.words.take s.length, x < M.bound) :
    (fullScore (search fval M) s w).1.prob = (fullScore (tableSearch (tableOf ft order)) s w).1.prob ∧
    (fullScore (search fval M) s w).2 = (fullScore (tableSearch (tableOf ft order)) s w).2 := by
  have := trie_refines fval M (tableOf ft order) rng (check_sound fval M ft order rng hc) hN s w hw hs
  exact ⟨this.1, this.2.2.2.2⟩

/-- two searches over the same file layout differ only in how values are read: the *structure* of the lookups (which record
is found, its child range) does not mention the quantiser at all -/
theorem quant_structural (M : Trie) (q' : Option Quant) (om2 : Nat) (w : Word) (node : Node) (i : Nat) :
    middleFind { M with quant := q' } om2 w node = middleFind M om2 w node ∧
    longestFind { M with quant := q' } w node = longestFind M w node ∧
    (middleRec { M with quant := q' } om2 i).range = (middleRec M om2 i).range ∧
    (unigramRec { M with quant := q' } w) = unigramRec M w := ⟨rfl, rfl, rfl, rfl⟩

/-- two tables with the same keys and the same extension marks (what quantisation preserves: values change to bin centres,
the reserved back-off codes keep "extends right", child ranges keep "extends left") -/
def StructEq (T₁ T₂ : Table) : Prop :=
  T₁.order = T₂.order ∧ ∀ g, match T₁.lookup g, T₂.lookup g with
    | some t₁, some t₂ => t₁.extendsLeft = t₂.extendsLeft ∧ t₁.extendsRight = t₂.extendsRight
    | none, none => True
    | _, _ => False

def AccStruct {ν : Type} (a₁ a₂ : Acc ν) : Prop :=
  a₁.ret.ngramLength = a₂.ret.ngramLength ∧ a₁.ret.independentLeft = a₂.ret.independentLeft ∧ a₁.nextUse = a₂.nextUse ∧
  a₁.backoffOut.length = a₂.backoffOut.length

theorem ts_long (T : Table) (x : Word) (node : List Word) :
    (tableSearch T).lookupLongest x node = (T.lookup (node ++ [x])).map (·.prob) := rfl
theorem ts_mid (T : Table) (om2 : Nat) (x : Word) (node : List Word) :
    (tableSearch T).lookupMiddle om2 x node = ((T.lookup (node ++ [x])).map Score.toFound, node ++ [x]) := rfl
theorem ts_uni (T : Table) (w : Word) :
    (tableSearch T).lookupUnigram w = ((match T.lookup [w] with
     | some t => Score.toFound t
     | none => { prob := 0, backoff := 0, extendsRight := false, independentLeft := true, rest := 0 }), [w]) := rfl

theorem resume_struct (T₁ T₂ : Table) (h : StructEq T₁ T₂) :
    ∀ (hist : List Word) (om2 : Nat) (node : List Word) (a₁ a₂ : Acc (List Word)), AccStruct a₁ a₂ →
      AccStruct (resumeScore (tableSearch T₁) hist om2 node a₁) (resumeScore (tableSearch T₂) hist om2 node a₂) := by
  intro hist
  induction hist with
  | nil => intro om2 node a₁ a₂ ha; simpa [resumeScore] using ha
  | cons x rest ih =>
    intro om2 node a₁ a₂ ha
    obtain ⟨hl, hi, hn, hb⟩ := ha
    unfold resumeScore
    rw [← hi]
    by_cases hil : a₁.ret.independentLeft = true
    · simp only [hil, if_true]; exact ⟨hl, hi, hn, hb⟩
    · simp only [hil, Bool.false_eq_true, if_false]
      have hord : (tableSearch T₁).order = (tableSearch T₂).order := h.1
      rw [← hord]
      have hg := h.2 (node ++ [x])
      by_cases hlong : (om2 == (tableSearch T₁).order - 2) = true
      · simp only [hlong, if_true, ts_long]
        cases h1 : T₁.lookup (node ++ [x]) <;> cases h2 : T₂.lookup (node ++ [x]) <;> simp only [h1, h2] at hg
        · exact ⟨hl, rfl, hn, hb⟩
        · exact ⟨rfl, rfl, hn, hb⟩
      · simp only [hlong, Bool.false_eq_true, if_false, ts_mid]
        cases h1 : T₁.lookup (node ++ [x]) <;> cases h2 : T₂.lookup (node ++ [x]) <;> simp only [h1, h2] at hg
        · exact ⟨hl, rfl, hn, hb⟩
        · simp only [Option.map_some]
          apply ih
          refine ⟨rfl, ?_, ?_, ?_⟩
          · simp [Score.toFound, hg.1]
          · show (if (Score.toFound _).extendsRight = true then _ else _) = (if (Score.toFound _).extendsRight = true then _ else _)
            simp only [Score.toFound, hg.2, hn]
            all_goals rfl
          · simp [hb]

/-- **quant_structural**: a quantised and an unquantised structure (or any two structures) whose tables have the same keys
and extension marks return the same *structural* results for every state and word: matched n-gram length, left-independence,
length and words of the out-state.  Only the float values differ. -/
theorem table_structural (T₁ T₂ : Table) (h : StructEq T₁ T₂) (s : State) (w : Word) :
    (fullScore (tableSearch T₁) s w).1.ngramLength = (fullScore (tableSearch T₂) s w).1.ngramLength ∧
    (fullScore (tableSearch T₁) s w).1.independentLeft = (fullScore (tableSearch T₂) s w).1.independentLeft ∧
    (fullScore (tableSearch T₁) s w).2.length = (fullScore (tableSearch T₂) s w).2.length ∧
    (fullScore (tableSearch T₁) s w).2.words = (fullScore (tableSearch T₂) s w).2.words := by
  have hg := h.2 [w]
  have key : AccStruct
      (resumeScore (tableSearch T₁) (s.words.take s.length) 0 ((tableSearch T₁).lookupUnigram w).2
        { ret := { prob := ((tableSearch T₁).lookupUnigram w).1.prob, rest := ((tableSearch T₁).lookupUnigram w).1.rest, ngramLength := 1,
                   independentLeft := ((tableSearch T₁).lookupUnigram w).1.independentLeft, extendLeft := ((tableSearch T₁).lookupUnigram w).2 },
          backoffOut := [((tableSearch T₁).lookupUnigram w).1.backoff],
          nextUse := if ((tableSearch T₁).lookupUnigram w).1.extendsRight then 1 else 0 })
      (resumeScore (tableSearch T₂) (s.words.take s.length) 0 ((tableSearch T₂).lookupUnigram w).2
        { ret := { prob := ((tableSearch T₂).lookupUnigram w).1.prob, rest := ((tableSearch T₂).lookupUnigram w).1.rest, ngramLength := 1,
                   independentLeft := ((tableSearch T₂).lookupUnigram w).1.independentLeft, extendLeft := ((tableSearch T₂).lookupUnigram w).2 },
          backoffOut := [((tableSearch T₂).lookupUnigram w).1.backoff],
          nextUse := if ((tableSearch T₂).lookupUnigram w).1.extendsRight then 1 else 0 }) := by
    have hn : ((tableSearch T₁).lookupUnigram w).2 = ((tableSearch T₂).lookupUnigram w).2 := rfl
    rw [hn]
    apply resume_struct T₁ T₂ h
    have hIL : ((tableSearch T₁).lookupUnigram w).1.independentLeft = ((tableSearch T₂).lookupUnigram w).1.independentLeft := by
      simp only [ts_uni]
      cases h1 : T₁.lookup [w] <;> cases h2 : T₂.lookup [w] <;> simp only [h1, h2] at hg
      · rfl
      · simp [Score.toFound, hg.1]
    have hER : ((tableSearch T₁).lookupUnigram w).1.extendsRight = ((tableSearch T₂).lookupUnigram w).1.extendsRight := by
      simp only [ts_uni]
      cases h1 : T₁.lookup [w] <;> cases h2 : T₂.lookup [w] <;> simp only [h1, h2] at hg
      · rfl
      · simp [Score.toFound, hg.2]
    exact ⟨rfl, hIL, by show (if _ then _ else _) = (if _ then _ else _); rw [hER], rfl⟩
  obtain ⟨k1, k2, k3, _⟩ := key
  simp only [fullScore, scoreExceptBackoff]
  exact ⟨k1, k2, k3, by rw [k3]⟩

/-- the same through two tries: e.g. `TrieModel` and `QuantArrayTrieModel` built from one ARPA file -/
theorem quant_structural_tries (fval₁ fval₂ : Nat → Rat) (M₁ M₂ : Trie) (T₁ T₂ : Table) (rng₁ rng₂ : List Word → Node)
    (rep₁ : Represents fval₁ M₁ T₁ rng₁) (rep₂ : Represents fval₂ M₂ T₂ rng₂) (h : StructEq T₁ T₂) (hN : 2 ≤ T₁.order)
    (s : State) (w : Word) (hw₁ : w < M₁.bound) (hw₂ : w < M₂.bound)
    (hs₁ : ∀ x ∈ s.words.take s.length, x < M₁.bound) (hs₂ : ∀ x ∈ s.words.take s.length, x < M₂.bound) :
    (fullScore (search fval₁ M₁) s w).1.ngramLength = (fullScore (search fval₂ M₂) s w).1.ngramLength ∧
    (fullScore (search fval₁ M₁) s w).1.independentLeft = (fullScore (search fval₂ M₂) s w).1.independentLeft ∧
    (fullScore (search fval₁ M₁) s w).2.length = (fullScore (search fval₂ M₂) s w).2.length ∧
    (fullScore (search fval₁ M₁) s w).2.words = (fullScore (search fval₂ M₂) s w).2.words := by
  have r₁ := trie_refines fval₁ M₁ T₁ rng₁ rep₁ hN s w hw₁ hs₁
  have r₂ := trie_refines fval₂ M₂ T₂ rng₂ rep₂ (by rw [← h.1]; exact hN) s w hw₂ hs₂
  have t := table_structural T₁ T₂ h s w
  rw [r₁.2.1, r₁.2.2.1, r₁.2.2.2.2, r₂.2.1, r₂.2.2.1, r₂.2.2.2.2]
  exact t


namespace ExamplePlain
/-- the bytes of the file `build_binary` (trie) wrote for the example model, as a little-endian number (400 bytes, no vocabulary strings) -/
def fileMem : Nat := 761476677160407308217975864470614751727348382627115423152470112628619092959904902344675923764049775541790675653369984681341251354178973324354704184449717076722008694969161737295398178929897496965487866245448340550389208910674906323611120178634150232100142902384119149281423817629901806019307788963460722240025464104440056090565264927775694327040793530331603726469758391775973573702672575613604224006169537101039515225289305070749463163740316790297432875553306897306048874838216536383933780836900833855196732058659853426422352541870751737809333562445279187834910323583288795471349083209521711528229418145962980659530881310595584099967686084481395691756683777524133653575249628401438152329790416478872466871534668806747242521596050075560697902588037388867013809162506185706361296025996415967684280654828443486150338842539302920603524685068756466273752184813385180397354827530089166927695978839648650761967352628834366123126370735320429
def cfg : KV.Binary.Config := ⟨1069547520, 8, 8, 22⟩
def counts : List Nat := [6,5,2]
/-- the loader's view: offsets from the layout model of C04 over the file's bytes -/
def trie : Trie := ofLayout fileMem false false cfg counts (KV.Binary.loadLayout (.trie false false) cfg counts).search
/-- the table: every n-gram of the model and the blank `b c` (reversed ids; ids by hash order: <unk>=0, <s>=1, a=2, </s>=3, c=4, b=5) -/
def table : FT := [
  ([0], ⟨f32ToRat 3221225472, f32ToRat 2147483648, false, false, false⟩),
  ([1], ⟨f32ToRat 3267756032, f32ToRat 3204448256, false, true, false⟩),
  ([3], ⟨f32ToRat 3214934016, f32ToRat 2147483648, true, false, false⟩),
  ([2], ⟨f32ToRat 3208642560, f32ToRat 3196059648, true, true, false⟩),
  ([5], ⟨f32ToRat 3217031168, f32ToRat 3187671040, true, true, false⟩),
  ([4], ⟨f32ToRat 3212836864, f32ToRat 2147483648, true, false, false⟩),
  ([2, 1], ⟨f32ToRat 3204448256, f32ToRat 3196059648, false, true, false⟩),
  ([5, 2], ⟨f32ToRat 3206545408, f32ToRat 3200253952, true, true, false⟩),
  ([3, 5], ⟨f32ToRat 3210739712, f32ToRat 2147483648, false, false, false⟩),
  ([4, 2], ⟨f32ToRat 3213885440, f32ToRat 2147483648, false, false, false⟩),
  ([4, 5], ⟨f32ToRat 3213885440, f32ToRat 2147483648, true, false, true⟩),
  ([5, 2, 1], ⟨f32ToRat 3196059648, 0, false, false, false⟩),
  ([4, 5, 2], ⟨f32ToRat 3200253952, 0, false, false, false⟩)]
/-- ghost child ranges -/
def ranges : List (List Word × Node) := [
  ([0], (0, 0)),
  ([1], (0, 0)),
  ([3], (1, 2)),
  ([2], (0, 1)),
  ([5], (4, 5)),
  ([4], (2, 4)),
  ([2, 1], (0, 0)),
  ([5, 2], (1, 2)),
  ([3, 5], (0, 0)),
  ([4, 2], (0, 0)),
  ([4, 5], (0, 1))]
def rng (g : List Word) : Node := (ranges.lookup g).getD (0, 0)

theorem check_ok : check f32ToRat trie table 3 rng = true := by decide +kernel
theorem represents : Represents f32ToRat trie (tableOf table 3) rng := check_sound _ _ _ _ _ check_ok
end ExamplePlain


namespace ExampleQuantArray
/-- the bytes of the file `build_binary` (trie -q 4 -b 3 -a 1) wrote for the example model, as a little-endian number (539 bytes, no vocabulary strings) -/
def fileMem : Nat := 5524848176119718405252142564753643756785795574764977356348038199739256315781435255242991745655367890726635464378716346336213401452151513923049954788143287679604551100973530194090789669722359662568462937389013594441463653635389987444905249789163838757965826944257865511557305037436995912091330333448545354861547435378309303626945232842154577280041148320768814044272542399203802351284732683066052490567720770886237254767754521725772246481707664904811403561703739465830634851435668092517002220336796428059944435533357918600430516147185492422171799364609881718158981406082414224505865445866198036327756312245037014563413478229858865339425593441729944439723000852425456314049549828288154692526953229669303971639173077084041597571379741064221646535628729539460333257808320299544476422481807587785504983014183852322656232148735707009405153080547999001045873124246275942464366308222153607174553116179432346419179921521442248923222952133815769192212145896436809696675487248968492384255088113540946730805984481743989016479844403552064280552239097321001152559821195838972418334006715395102579183183195138175776257237428314555761569078146971411857473423899827697305152937910784341870311215135216578912608791186080199819066197102928869003772396722631349728301767881770813542080118140267885
def cfg : KV.Binary.Config := ⟨1069547520, 4, 3, 1⟩
def counts : List Nat := [6,5,2]
/-- the loader's view: offsets from the layout model of C04 over the file's bytes -/
def trie : Trie := ofLayout fileMem true true cfg counts (KV.Binary.loadLayout (.trie true true) cfg counts).search
/-- the table: every n-gram of the model and the blank `b c` (reversed ids; ids by hash order: <unk>=0, <s>=1, a=2, </s>=3, c=4, b=5) -/
def table : FT := [
  ([0], ⟨f32ToRat 3221225472, f32ToRat 2147483648, false, false, false⟩),
  ([1], ⟨f32ToRat 3267756032, f32ToRat 3204448256, false, true, false⟩),
  ([3], ⟨f32ToRat 3214934016, f32ToRat 2147483648, true, false, false⟩),
  ([2], ⟨f32ToRat 3208642560, f32ToRat 3196059648, true, true, false⟩),
  ([5], ⟨f32ToRat 3217031168, f32ToRat 3187671040, true, true, false⟩),
  ([4], ⟨f32ToRat 3212836864, f32ToRat 2147483648, true, false, false⟩),
  ([2, 1], ⟨f32ToRat 3204448256, f32ToRat 3196059648, false, true, false⟩),
  ([5, 2], ⟨f32ToRat 3206545408, f32ToRat 3200253952, true, true, false⟩),
  ([3, 5], ⟨f32ToRat 3210739712, f32ToRat 2147483648, false, false, false⟩),
  ([4, 2], ⟨f32ToRat 3213885440, f32ToRat 2147483648, false, false, false⟩),
  ([4, 5], ⟨f32ToRat 3213885440, f32ToRat 2147483648, true, false, true⟩),
  ([5, 2, 1], ⟨f32ToRat 3196059648, 0, false, false, false⟩),
  ([4, 5, 2], ⟨f32ToRat 3200253952, 0, false, false, false⟩)]
/-- ghost child ranges -/
def ranges : List (List Word × Node) := [
  ([0], (0, 0)),
  ([1], (0, 0)),
  ([3], (1, 2)),
  ([2], (0, 1)),
  ([5], (4, 5)),
  ([4], (2, 4)),
  ([2, 1], (0, 0)),
  ([5, 2], (1, 2)),
  ([3, 5], (0, 0)),
  ([4, 2], (0, 0)),
  ([4, 5], (0, 1))]
def rng (g : List Word) : Node := (ranges.lookup g).getD (0, 0)

theorem check_ok : check f32ToRat trie table 3 rng = true := by decide +kernel
theorem represents : Represents f32ToRat trie (tableOf table 3) rng := check_sound _ _ _ _ _ check_ok
end ExampleQuantArray


namespace ExampleBuilt
/-- the example model as a bit table (reversed ids; float bits as the real builder stored them, incl. the blank `b c`) -/
def bt : BT := [
  ([0], (3221225472, 2147483648)),
  ([1], (3267756032, 3204448256)),
  ([3], (3214934016, 2147483648)),
  ([2], (3208642560, 3196059648)),
  ([5], (3217031168, 3187671040)),
  ([4], (3212836864, 2147483648)),
  ([2, 1], (3204448256, 3196059648)),
  ([5, 2], (3206545408, 3200253952)),
  ([3, 5], (3210739712, 2147483648)),
  ([4, 2], (3213885440, 2147483648)),
  ([4, 5], (3213885440, 2147483648)),
  ([5, 2, 1], (3196059648, 0)),
  ([4, 5, 2], (3200253952, 0))]
def built : Trie := ofTable bt 6 3 (KV.Binary.loadLayout (.trie false false) plainCfg (countsOf bt 6 3)).search

/-- the search region starts at this file offset (header 136 + sorted vocabulary 56) -/
theorem search_offset : (KV.Binary.loadLayout (.trie false false) plainCfg (countsOf bt 6 3)).search = 192 := by decide +kernel

/-- **non-vacuity of `Represents`, constructively**: the trie built from the table by the pure fold `ofTable` (records inserted
level by level in sorted order, as `RecursiveInsert`/`WriteEntries` do) represents the table of the pruned example model
(13 entries, one of them the blank `b c` that SRI-style pruning makes necessary). -/
theorem built_check : check f32ToRat built (ftOf f32ToRat bt 3) 3 (rngOf bt 6) = true := by decide +kernel
theorem built_represents : Represents f32ToRat built (tableOf (ftOf f32ToRat bt 3) 3) (rngOf bt 6) :=
  check_sound _ _ _ _ _ built_check

/-- … and the memory it builds is, byte for byte, the search region of the file the real `build_binary trie` wrote for the
same model (everything from offset 192 on; header and vocabulary are not the builder's business). -/
theorem built_eq_real_file : built.mem = (ExamplePlain.fileMem >>> (8 * 192)) <<< (8 * 192) := by decide +kernel

/-- hence FullScore over the built trie = FullScore over the table, for all valid states and words -/
theorem built_refines (s : State) (w : Word) (hw : w < 6) (hs : ∀ x ∈ s.words.take s.length, x < 6) :
    (fullScore (search f32ToRat built) s w).1.prob = (fullScore (tableSearch (tableOf (ftOf f32ToRat bt 3) 3)) s w).1.prob ∧
    (fullScore (search f32ToRat built) s w).2 = (fullScore (tableSearch (tableOf (ftOf f32ToRat bt 3) 3)) s w).2 :=
  trie_refines_of_check f32ToRat built _ 3 _ built_check (by decide) s w hw hs
end ExampleBuilt

end KV.C03Trie
