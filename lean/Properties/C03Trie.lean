import Proofs.TrieCheck
import Properties.C01
/-!
# C03 (trie clause) — the bit-packed trie search refines the abstract table

`Model/TrieLM.lean` is `trie::TrieSearch<Quant, Bhiksha>` over the *bytes of a binary file* (a little-endian `Nat` memory):
unigram array with `next` pointers, bit-packed middle / longest records, `FindBitPacked` = `BoundedSortedUniformFind` with
`Pivot32`, `DontBhiksha` / `ArrayBhiksha::ReadNext`, `DontQuantize` / `SeparatelyQuantize` value reads.
`TrieLM.ofLayout` places it at the offsets of the C04 layout model (`Binary.trieSetup`), so the same definitions run in the
driver on the bytes `build_binary` wrote and are compared with the real `TrieSearch` lookups (stream `trielm` of check C04).

Proved in general (any memory, any table, any order, both Bhiksha variants, both quantisation variants, any `fval`):
`trie_refines`, `trie_prob`, `trie_refines_of_check`.  By `decide +kernel` on concrete instances (real file bytes of a
pruned model that needs a blank): `ExamplePlain.represents`, `ExampleQuantArray.represents`.
-/
namespace KV.C03Trie
open KV.Arpa KV.Table KV.Score KV.State KV.TrieLM

/-- **trie_refines**: if the memory represents the table (`Represents`: chains of sorted child ranges lead to records holding
word, values and child range of every entry, and nothing else), then for every in-state and word whose ids are below the
vocabulary bound (`new_word < Bound()`, the code's precondition), `FullScore` over the trie returns exactly what `FullScore`
over the table returns: probability, matched length, left-independence, rest and out-state.  Uses C20
`bounded_find_correct` for `FindBitPacked`; holds for `DontBhiksha` and `ArrayBhiksha`, `DontQuantize` and
`SeparatelyQuantize` alike (they only differ in how `middleRec` / `longestProbBits` read the memory). -/
theorem trie_refines (fval : Nat → Rat) (M : Trie) (T : Table) (rng : List Word → Node) (rep : Represents fval M T rng)
    (hN : 2 ≤ T.order) (s : State) (w : Word) (hw : w < M.bound) (hs : ∀ x ∈ s.words.take s.length, x < M.bound) :
    (fullScore (search fval M) s w).1.prob = (fullScore (tableSearch T) s w).1.prob ∧
    (fullScore (search fval M) s w).1.ngramLength = (fullScore (tableSearch T) s w).1.ngramLength ∧
    (fullScore (search fval M) s w).1.independentLeft = (fullScore (tableSearch T) s w).1.independentLeft ∧
    (fullScore (search fval M) s w).1.rest = (fullScore (tableSearch T) s w).1.rest ∧
    (fullScore (search fval M) s w).2 = (fullScore (tableSearch T) s w).2 :=
  fullScore_simOn (fun w => w < M.bound) _ _ _ (trie_sim fval M T rng rep hN)
    (by show 2 ≤ M.order; rw [rep.order]; exact hN) s w hw hs

/-- hence: a trie that represents `build a unmarked` (whichever blanks lost their mark, pre-observation G) returns the ARPA
back-off recursion -/
theorem trie_prob (a : Arpa) (wf : WellFormed a) (unmarked : List Word → Bool) (fval : Nat → Rat) (M : Trie)
    (rng : List Word → Node) (rep : Represents fval M (build a unmarked) rng)
    (h : List Word) (s : State) (sf : StateFor a h s) (w : Word) (hw : a.gram [w] ≠ none)
    (hwb : w < M.bound) (hs : ∀ x ∈ s.words.take s.length, x < M.bound) :
    (fullScore (search fval M) s w).1.prob = score a h w := by
  rw [(trie_refines fval M _ rng rep wf.order_ge s w hwb hs).1]
  exact KV.C01.fullScore_prob a wf unmarked h s sf w hw

/-- the decidable checker is a sufficient condition: a finite table, a memory, ghost ranges; `check = true` ⇒ refinement -/
theorem trie_refines_of_check (fval : Nat → Rat) (M : Trie) (ft : FT) (order : Nat) (rng : List Word → Node)
    (hc : check fval M ft order rng = true) (hN : 2 ≤ order) (s : State) (w : Word) (hw : w < M.bound)
    (hs : ∀ x ∈ s.words.take s.length, x < M.bound) :
    (fullScore (search fval M) s w).1.prob = (fullScore (tableSearch (tableOf ft order)) s w).1.prob ∧
    (fullScore (search fval M) s w).2 = (fullScore (tableSearch (tableOf ft order)) s w).2 := by
  have := trie_refines fval M (tableOf ft order) rng (check_sound fval M ft order rng hc) hN s w hw hs
  exact ⟨this.1, this.2.2.2.2⟩

/-- two searches over the same file layout differ only in how values are read: the *structure* of the lookups (which record
is found, its child range) does not mention the quantiser at all -/
theorem quant_structural (M : Trie) (q' : Option Quant) (om2 : Nat) (w : Word) (node : Node) (i : Nat) :
    middleFind { M with quant := q' } om2 w node = middleFind M om2 w node ∧
    longestFind { M with quant := q' } w node = longestFind M w node ∧
    (middleRec { M with quant := q' } om2 i).range = (middleRec M om2 i).range ∧
    (unigramRec { M with quant := q' } w) = unigramRec M w := ⟨rfl, rfl, rfl, rfl⟩

namespace ExamplePlain
/-- the bytes of the file `build_binary` (trie) wrote for the example model, as a little-endian number (400 bytes, no vocabulary strings) -/
def fileMem : Nat := 761476677160407308217975864470614751727348382627115423152470112628619092959904902344675923764049775541790675653369984681341251354178973324354704184449717076722008694969161737295398178929897496965487866245448340550389208910674906323611120178634150232100142902384119149281423817629901806019307788963460722240025464104440056090565264927775694327040793530331603726469758391775973573702672575613604224006169537101039515225289305070749463163740316790297432875553306897306048874838216536383933780836900833855196732058659853426422352541870751737809333562445279187834910323583288795471349083209521711528229418145962980659530881310595584099967686084481395691756683777524133653575249628401438152329790416478872466871534668806747242521596050075560697902588037388867013809162506185706361296025996415967684280654828443486150338842539302920603524685068756466273752184813385180397354827530089166927695978839648650761967352628834366123126370735320429
def cfg : KV.Binary.Config := ⟨1069547520, 8, 8, 22⟩
def counts : List Nat := [6,5,2]
/-- the loader's view: offsets from the layout model of C04 over the file's bytes -/
def trie : Trie := ofLayout fileMem false false cfg counts (KV.Binary.loadLayout (.trie false false) cfg counts).search
/-- the table: every n-gram of the model and the blank `b c` (reversed ids; ids by hash order: <unk>=0, <s>=1, a=2, </s>=3, c=4, b=5) -/
def table : FT := [
  ([0], ⟨f32ToRat 3221225472, f32ToRat 2147483648, false, false, false⟩),
  ([1], ⟨f32ToRat 3267756032, f32ToRat 3204448256, false, true, false⟩),
  ([3], ⟨f32ToRat 3214934016, f32ToRat 2147483648, true, false, false⟩),
  ([2], ⟨f32ToRat 3208642560, f32ToRat 3196059648, true, true, false⟩),
  ([5], ⟨f32ToRat 3217031168, f32ToRat 3187671040, true, true, false⟩),
  ([4], ⟨f32ToRat 3212836864, f32ToRat 2147483648, true, false, false⟩),
  ([2, 1], ⟨f32ToRat 3204448256, f32ToRat 3196059648, false, true, false⟩),
  ([5, 2], ⟨f32ToRat 3206545408, f32ToRat 3200253952, true, true, false⟩),
  ([3, 5], ⟨f32ToRat 3210739712, f32ToRat 2147483648, false, false, false⟩),
  ([4, 2], ⟨f32ToRat 3213885440, f32ToRat 2147483648, false, false, false⟩),
  ([4, 5], ⟨f32ToRat 3213885440, f32ToRat 2147483648, true, false, true⟩),
  ([5, 2, 1], ⟨f32ToRat 3196059648, 0, false, false, false⟩),
  ([4, 5, 2], ⟨f32ToRat 3200253952, 0, false, false, false⟩)]
/-- ghost child ranges -/
def ranges : List (List Word × Node) := [
  ([0], (0, 0)),
  ([1], (0, 0)),
  ([3], (1, 2)),
  ([2], (0, 1)),
  ([5], (4, 5)),
  ([4], (2, 4)),
  ([2, 1], (0, 0)),
  ([5, 2], (1, 2)),
  ([3, 5], (0, 0)),
  ([4, 2], (0, 0)),
  ([4, 5], (0, 1))]
def rng (g : List Word) : Node := (ranges.lookup g).getD (0, 0)

theorem check_ok : check f32ToRat trie table 3 rng = true := by decide +kernel
theorem represents : Represents f32ToRat trie (tableOf table 3) rng := check_sound _ _ _ _ _ check_ok
end ExamplePlain


namespace ExampleQuantArray
/-- the bytes of the file `build_binary` (trie -q 4 -b 3 -a 1) wrote for the example model, as a little-endian number (539 bytes, no vocabulary strings) -/
def fileMem : Nat := 5524848176119718405252142564753643756785795574764977356348038199739256315781435255242991745655367890726635464378716346336213401452151513923049954788143287679604551100973530194090789669722359662568462937389013594441463653635389987444905249789163838757965826944257865511557305037436995912091330333448545354861547435378309303626945232842154577280041148320768814044272542399203802351284732683066052490567720770886237254767754521725772246481707664904811403561703739465830634851435668092517002220336796428059944435533357918600430516147185492422171799364609881718158981406082414224505865445866198036327756312245037014563413478229858865339425593441729944439723000852425456314049549828288154692526953229669303971639173077084041597571379741064221646535628729539460333257808320299544476422481807587785504983014183852322656232148735707009405153080547999001045873124246275942464366308222153607174553116179432346419179921521442248923222952133815769192212145896436809696675487248968492384255088113540946730805984481743989016479844403552064280552239097321001152559821195838972418334006715395102579183183195138175776257237428314555761569078146971411857473423899827697305152937910784341870311215135216578912608791186080199819066197102928869003772396722631349728301767881770813542080118140267885
def cfg : KV.Binary.Config := ⟨1069547520, 4, 3, 1⟩
def counts : List Nat := [6,5,2]
/-- the loader's view: offsets from the layout model of C04 over the file's bytes -/
def trie : Trie := ofLayout fileMem true true cfg counts (KV.Binary.loadLayout (.trie true true) cfg counts).search
/-- the table: every n-gram of the model and the blank `b c` (reversed ids; ids by hash order: <unk>=0, <s>=1, a=2, </s>=3, c=4, b=5) -/
def table : FT := [
  ([0], ⟨f32ToRat 3221225472, f32ToRat 2147483648, false, false, false⟩),
  ([1], ⟨f32ToRat 3267756032, f32ToRat 3204448256, false, true, false⟩),
  ([3], ⟨f32ToRat 3214934016, f32ToRat 2147483648, true, false, false⟩),
  ([2], ⟨f32ToRat 3208642560, f32ToRat 3196059648, true, true, false⟩),
  ([5], ⟨f32ToRat 3217031168, f32ToRat 3187671040, true, true, false⟩),
  ([4], ⟨f32ToRat 3212836864, f32ToRat 2147483648, true, false, false⟩),
  ([2, 1], ⟨f32ToRat 3204448256, f32ToRat 3196059648, false, true, false⟩),
  ([5, 2], ⟨f32ToRat 3206545408, f32ToRat 3200253952, true, true, false⟩),
  ([3, 5], ⟨f32ToRat 3210739712, f32ToRat 2147483648, false, false, false⟩),
  ([4, 2], ⟨f32ToRat 3213885440, f32ToRat 2147483648, false, false, false⟩),
  ([4, 5], ⟨f32ToRat 3213885440, f32ToRat 2147483648, true, false, true⟩),
  ([5, 2, 1], ⟨f32ToRat 3196059648, 0, false, false, false⟩),
  ([4, 5, 2], ⟨f32ToRat 3200253952, 0, false, false, false⟩)]
/-- ghost child ranges -/
def ranges : List (List Word × Node) := [
  ([0], (0, 0)),
  ([1], (0, 0)),
  ([3], (1, 2)),
  ([2], (0, 1)),
  ([5], (4, 5)),
  ([4], (2, 4)),
  ([2, 1], (0, 0)),
  ([5, 2], (1, 2)),
  ([3, 5], (0, 0)),
  ([4, 2], (0, 0)),
  ([4, 5], (0, 1))]
def rng (g : List Word) : Node := (ranges.lookup g).getD (0, 0)

theorem check_ok : check f32ToRat trie table 3 rng = true := by decide +kernel
theorem represents : Represents f32ToRat trie (tableOf table 3) rng := check_sound _ _ _ _ _ check_ok
end ExampleQuantArray


namespace ExampleBuilt
/-- the example model as a bit table (reversed ids; float bits as the real builder stored them, incl. the blank `b c`) -/
def bt : BT := [
  ([0], (3221225472, 2147483648)),
  ([1], (3267756032, 3204448256)),
  ([3], (3214934016, 2147483648)),
  ([2], (3208642560, 3196059648)),
  ([5], (3217031168, 3187671040)),
  ([4], (3212836864, 2147483648)),
  ([2, 1], (3204448256, 3196059648)),
  ([5, 2], (3206545408, 3200253952)),
  ([3, 5], (3210739712, 2147483648)),
  ([4, 2], (3213885440, 2147483648)),
  ([4, 5], (3213885440, 2147483648)),
  ([5, 2, 1], (3196059648, 0)),
  ([4, 5, 2], (3200253952, 0))]
def built : Trie := ofTable bt 6 3 (KV.Binary.loadLayout (.trie false false) plainCfg (countsOf bt 6 3)).search

/-- the search region starts at this file offset (header 136 + sorted vocabulary 56) -/
theorem search_offset : (KV.Binary.loadLayout (.trie false false) plainCfg (countsOf bt 6 3)).search = 192 := by decide +kernel

/-- **non-vacuity of `Represents`, constructively**: the trie built from the table by the pure fold `ofTable` (records inserted
level by level in sorted order, as `RecursiveInsert`/`WriteEntries` do) represents the table of the pruned example model
(13 entries, one of them the blank `b c` that SRI-style pruning makes necessary). -/
theorem built_check : check f32ToRat built (ftOf f32ToRat bt 3) 3 (rngOf bt 6) = true := by decide +kernel
theorem built_represents : Represents f32ToRat built (tableOf (ftOf f32ToRat bt 3) 3) (rngOf bt 6) :=
  check_sound _ _ _ _ _ built_check

/-- … and the memory it builds is, byte for byte, the search region of the file the real `build_binary trie` wrote for the
same model (everything from offset 192 on; header and vocabulary are not the builder's business). -/
theorem built_eq_real_file : built.mem = (ExamplePlain.fileMem >>> (8 * 192)) <<< (8 * 192) := by decide +kernel

/-- hence FullScore over the built trie = FullScore over the table, for all valid states and words -/
theorem built_refines (s : State) (w : Word) (hw : w < 6) (hs : ∀ x ∈ s.words.take s.length, x < 6) :
    (fullScore (search f32ToRat built) s w).1.prob = (fullScore (tableSearch (tableOf (ftOf f32ToRat bt 3) 3)) s w).1.prob ∧
    (fullScore (search f32ToRat built) s w).2 = (fullScore (tableSearch (tableOf (ftOf f32ToRat bt 3) 3)) s w).2 :=
  trie_refines_of_check f32ToRat built _ 3 _ built_check (by decide) s w hw hs
end ExampleBuilt

end KV.C03Trie
