import Proofs.Binary
import Proofs.BinaryBhiksha
import Proofs.BinaryQuant
import Model.TrieLM
/-!
# C04 — Binary model files round-trip exactly

Theorems over the model of the binary format (`Model/Binary.lean`, `Model/Bhiksha.lean`, `Model/Quant.lean`).
All struct sizes, offsets, magic strings and version bytes are the regenerated constants of
`Generated/C04.lean`; every statement is for all counts / orders / configurations (no bounds) unless a
hypothesis says otherwise.  What is *not* proved here: the behaviour of mmap/read/msync (OS), the
n-gram contents of the search structures (C01–C03, C20), IEEE arithmetic (assumed in `Quant.Laws`).
-/
namespace KV.C04
open KV.Binary KV.Gen.C04 KV.Bits

/-! ## header -/

/-- The model of `Sanity::SetToReference` produces exactly the bytes the real struct has now. -/
theorem sanity_model_eq_probe : sanityBytes = sanityRef ∧ sanityBytes.length = sizeofSanity ∧
    sanityMagicField = align8 magicBytes.length := by decide

/-- `TotalHeaderSize(order)` of the code for every supported order equals the model's. -/
theorem total_header_table : (List.range (maxOrder + 1)).map totalHeaderSize = totalHeaderSizes := by decide

/-- `FixedWidthParameters`: the fields the model writes are where the compiler puts them. -/
theorem fixed_layout : offOrder = 0 ∧ offMultiplier + 4 = offModelType ∧ offModelType + sizeofModelType = offHasVocab
    ∧ offHasVocab + sizeofBool ≤ offSearchVersion ∧ offSearchVersion + sizeofSearchVersion = sizeofFixed
    ∧ ∀ f, (fixedBytes f).length = sizeofFixed := by
  refine ⟨by decide, by decide, by decide, by decide, by decide, length_fixedBytes⟩

/-- **header_roundtrip**: what `WriteHeader` writes, `IsBinaryFormat` + `ReadHeader` read back, whatever follows
the header in the file. -/
theorem header_roundtrip (p : Params) (h : ParamsWF p) (rest : List Nat) :
    recognize (headerBytes p ++ rest) = .binary p := recognize_headerBytes p h rest

def exampleParams : Params :=
  { fixed := ⟨3, defaultMultiplierBits, tQuantArrayTrie, true, trieSearchVersion⟩, counts := [49, 103, 50] }

example : ParamsWF exampleParams :=
  ⟨⟨by decide, by decide, by decide, by decide⟩, rfl, by decide, by decide⟩

/-- the header has the size `TotalHeaderSize` says (so the vocabulary starts where the loader looks for it) -/
theorem header_length (p : Params) : (headerBytes p).length = totalHeaderSize p.counts.length := by
  have h := totalHeaderSize_ge p.counts.length
  have hc : (countsBytes p.counts).length = 8 * p.counts.length := by
    induction p.counts with
    | nil => rfl
    | cons c cs ih => simp [countsBytes, length_leBytes] at ih ⊢; omega
  simp only [headerBytes, List.length_append, zeros, List.length_replicate, sanity_length, length_fixedBytes, hc]
  simp only [sizeofCount] at h
  omega

/-- **magic_distinct**: the "incomplete" marker is shorter than the magic, is not a prefix of a finished header and
does not look like an old-version header; a file that still carries the marker `SetupJustVocab` wrote (at any order,
followed by anything) is rejected with a format error, never recognised. -/
theorem magic_distinct :
    magicIncomplete.length < magicBytes.length
    ∧ ¬ (magicIncomplete <+: sanityRef)
    ∧ (magicBeforeVersion <+: magicBytes)
    ∧ ¬ (magicBeforeVersion <+: magicIncomplete)
    ∧ ∀ order rest, recognize (incompleteHeader order ++ rest) = .errFormat := by
  refine ⟨by decide, ?_, ?_, ?_, recognize_incomplete⟩
  · rw [← List.isPrefixOf_iff_prefix]; decide
  · rw [← List.isPrefixOf_iff_prefix]; decide
  · rw [← List.isPrefixOf_iff_prefix]; decide

/-- **recognize_type**: `RecognizeBinary` on a file written by model class `k` returns `k`'s type, and the six
classes have six different type numbers (`Kind.ofNum` inverts `typeNum`), each below `numModelNames`. -/
theorem recognize_type (k : Kind) (order mult : Nat) (hv : Bool) (counts : List Nat) (rest : List Nat)
    (ho : order < 256) (hm : mult < 2^32) (hl : counts.length = order) (hc : ∀ c ∈ counts, c < 2^64)
    (h1 : floatNotGeOne mult = false) :
    ∃ p, recognize (headerBytes { fixed := { order := order, multBits := mult, modelType := k.typeNum, hasVocab := hv,
                                              searchVersion := k.searchVersion }, counts := counts } ++ rest) = .binary p
      ∧ Kind.ofNum p.fixed.modelType = some k ∧ p.fixed.modelType < numModelNames
      ∧ p.fixed.searchVersion = k.searchVersion ∧ p.counts = counts ∧ p.fixed.hasVocab = hv ∧ p.fixed.multBits = mult := by
  refine ⟨_, header_roundtrip _ ⟨⟨ho, hm, ?_, ?_⟩, hl, hc, h1⟩ rest, typeNum_ofNum k, typeNum_lt k, rfl, rfl, rfl, rfl⟩
  · have := typeNum_lt k; simp only [numModelNames] at this; show k.typeNum < 2^32; omega
  · show k.searchVersion < 2^32
    cases k with
    | probing r => cases r <;> decide
    | trie q a => simp [Kind.searchVersion, trieSearchVersion]

theorem model_classes_match_probe :
    (Kind.probing false).typeNum = typeOfProbingModel ∧ (Kind.probing true).typeNum = typeOfRestProbingModel
    ∧ (Kind.trie false false).typeNum = typeOfTrieModel ∧ (Kind.trie true false).typeNum = typeOfQuantTrieModel
    ∧ (Kind.trie false true).typeNum = typeOfArrayTrieModel ∧ (Kind.trie true true).typeNum = typeOfQuantArrayTrieModel := by decide

/-! ## Size versus SetupMemory -/

/-- **size_eq_setup**: for every search type, all counts and configurations, `SetupMemory` ends exactly
`Size(counts, config)` bytes after its start — the agreement `GenericModel::SetupMemory` checks at load time
("The data structures took … but Size says …") can never fail. -/
theorem size_eq_setup (k : Kind) (cfg : Config) (counts : List Nat) (start : Nat) :
    searchSetupEnd k cfg counts start - start = searchSize k cfg counts ∧
    searchSetupEnd k cfg counts start = start + searchSize k cfg counts := by
  have := search_size_eq_setup k cfg counts start
  omega

/-- `GenericModel::SetupMemory(base, counts, config)`: vocabulary then search end at `base + Size(counts, config)` -/
theorem model_size_eq_setup (k : Kind) (cfg : Config) (counts : List Nat) (base : Nat) :
    searchSetupEnd k cfg counts (base + vocabSize k cfg (cnt counts 0)) = base + modelSize k cfg counts := by
  rw [search_size_eq_setup]; simp [modelSize]; omega

/-- the regions `SetupMemory` hands out tile the search area in order: no gap, no overlap (hashed search) -/
theorem hashed_regions (rest : Bool) (cfg : Config) (counts : List Nat) (start : Nat) :
    Consecutive start (hashedRegionList rest counts (hashedSetup rest cfg counts start)) (start + hashedSize rest cfg counts) :=
  hashed_regions_consecutive rest cfg counts start

/-- … and for the four trie variants (quantiser tables | unigrams | per middle: Bhiksha block, packed records | longest) -/
theorem trie_regions (quant array : Bool) (cfg : Config) (counts : List Nat) (start : Nat) :
    Consecutive start (trieRegionList quant cfg counts (trieSetup quant array cfg counts start))
      (start + trieSize quant array cfg counts) :=
  trie_regions_consecutive quant array cfg counts start

example : (trieSetup true true { multBits := defaultMultiplierBits, probBits := 8, backoffBits := 8, bhikshaBits := 22 } [49, 103, 50] 536).stop = 4920
    ∧ trieSize true true { multBits := defaultMultiplierBits, probBits := 8, backoffBits := 8, bhikshaBits := 22 } [49, 103, 50] = 4384 := by
  decide

/-- the ArrayBhiksha offset table fits in its block for every alignment of the block -/
theorem array_table_in_block (cfg : Config) (qb entries maxVocab maxNext start : Nat) :
    let m := mkMiddle true cfg qb entries maxVocab maxNext start
    m.start + sizeofUint64 ≤ m.offBegin ∧ m.offBegin % 8 = 0 ∧ m.offEnd ≤ m.packed
      ∧ m.offEnd = m.offBegin + sizeofUint64 * arrayCount (entries + 1) maxNext cfg.bhikshaBits :=
  array_table_fits cfg qb entries maxVocab maxNext start

/-! ## whole file -/

/-- byte regions of a written file, in file order -/
def fileRegions (k : Kind) (cfg : Config) (arpa fixed : List Nat) (sawUnk iv : Bool) (sl : Nat) : List (Nat × Nat) :=
  let w := writeLayout k cfg arpa fixed sawUnk iv sl
  [(0, w.header), (w.header, w.vocab), (w.header + w.vocab, w.pad)]
    ++ (match k with
        | .probing r => hashedRegionList r w.storedCounts (hashedSetup r cfg w.storedCounts w.search)
        | .trie q a => trieRegionList q cfg w.storedCounts (trieSetup q a cfg w.storedCounts w.search))
    ++ [(w.strings, if iv then sl else 0)]

/-- **regions_disjoint**: header | vocabulary | pad | search sub-regions | strings are consecutive and tile the file
`[0, fileSize)`; the header size and (for the trie) the search offset are multiples of 8. -/
theorem regions_disjoint (k : Kind) (cfg : Config) (arpa fixed : List Nat) (sawUnk iv : Bool) (sl : Nat) :
    let w := writeLayout k cfg arpa fixed sawUnk iv sl
    Consecutive 0 (fileRegions k cfg arpa fixed sawUnk iv sl) w.fileSize
      ∧ w.header % 8 = 0 ∧ (k.isTrie = true → w.search % 8 = 0 ∧ w.vocab % 8 = 0) := by
  intro w
  refine ⟨?_, totalHeaderSize_mod _, ?_⟩
  · unfold fileRegions
    apply Consecutive_append (m := w.strings)
    · apply Consecutive_append (m := w.search)
      · simp [Consecutive, w, writeLayout]
      · cases k with
        | probing r => exact hashed_regions_consecutive r cfg _ _
        | trie q a => exact trie_regions_consecutive q a cfg _ _
    · simp [Consecutive, w, writeLayout]
  · intro hk
    cases k with
    | probing r => simp [Kind.isTrie] at hk
    | trie q a =>
      exact ⟨trie_search_aligned q a cfg arpa fixed sawUnk iv sl, by simp [w, writeLayout, vocabSize, Kind.isTrie, sortedVocabSize_mod]⟩

/-- **unk_padding**: a sorted vocabulary sized for `n` words plus the 8 padding bytes is the size for `n+1` words. -/
theorem unk_padding (n : Nat) : sortedVocabSize n + unkPadding (.trie q a) false = sortedVocabSize (n + 1) := by
  simp [sortedVocabSize, unkPadding, Kind.isTrie, sizeofUint64]; omega

/-- **load_layout_eq_write_layout**: the loader, which knows only the stored (fixed) counts and the configuration, finds the
vocabulary, the search structure and the strings exactly where the writer, which sized the vocabulary from the ARPA
header counts and padded when `<unk>` was missing, put them. -/
theorem load_layout_eq_write_layout (k : Kind) (cfg : Config) (arpa fixed : List Nat) (sawUnk iv : Bool) (sl : Nat)
    (hlen : fixed.length = arpa.length)
    (h0 : k.isTrie = true → cnt fixed 0 = cnt arpa 0 + (if sawUnk then 0 else 1)) :
    let w := writeLayout k cfg arpa fixed sawUnk iv sl
    let l := loadLayout k cfg w.storedCounts
    l.header = w.header ∧ l.vocabSize = w.vocab + w.pad ∧ l.search = w.search ∧ l.mapped = w.strings :=
  load_eq_write k cfg arpa fixed sawUnk iv sl hlen h0

example : let w := writeLayout (.trie false false) ⟨defaultMultiplierBits, 8, 8, 22⟩ [3, 1, 1, 1] [4, 2, 2, 1] false true 20
    w.pad = 8 ∧ (loadLayout (.trie false false) ⟨defaultMultiplierBits, 8, 8, 22⟩ w.storedCounts).search = w.search := by decide

/-- **written_file_passes_size_check** — `LoadBinary`'s test `file_size < total_map ⇒ "Binary file has size … but the
headers say it should be at least …"` never fires on a finished file, for every model class, configuration and count
vector; and the bound is *tight*: a file written without vocabulary strings (`build_binary -v`, `include_vocab = false`)
has exactly the size `total_map`, so a non-strict comparison would reject every such file (seed C04-9).  The loader's
`total_map` is `loadLayout.mapped` (header + `Size(stored counts, config)`); `KV.LoaderBin.mapAndVocab` makes the same
comparison on the byte list. -/
theorem written_file_passes_size_check (k : Kind) (cfg : Config) (arpa fixed : List Nat) (sawUnk iv : Bool) (sl : Nat)
    (hlen : fixed.length = arpa.length)
    (h0 : k.isTrie = true → cnt fixed 0 = cnt arpa 0 + (if sawUnk then 0 else 1)) :
    let w := writeLayout k cfg arpa fixed sawUnk iv sl
    let l := loadLayout k cfg w.storedCounts
    ¬ (w.fileSize < l.mapped) ∧ (iv = false → w.fileSize = l.mapped) ∧ (iv = true → w.fileSize = l.mapped + sl) := by
  intro w l
  have h := (load_layout_eq_write_layout k cfg arpa fixed sawUnk iv sl hlen h0).2.2.2
  have hm : l.mapped = w.strings := h
  have hf : w.fileSize = w.strings + (if iv then sl else 0) := by simp [w, writeLayout]
  rw [hm, hf]
  cases iv <;> simp

example : let w := writeLayout (.probing false) ⟨defaultMultiplierBits, 8, 8, 22⟩ [3, 1] [3, 1] true false 20
    w.fileSize = (loadLayout (.probing false) ⟨defaultMultiplierBits, 8, 8, 22⟩ w.storedCounts).mapped := by decide


/-- **stored_params_read**: whatever configuration the loader starts from, `UpdateConfigFromBinary` on a file that holds the
bytes `FinishedLoading` wrote succeeds and yields a configuration under which `Size` and every offset of
`SetupMemory` are the builder's. -/
theorem stored_params_read (q a : Bool) (cfg cfg0 : Config) (stored : List Nat) (rd : Nat → Nat)
    (hp : cfg.probBits < 256) (hb : cfg.backoffBits < 256) (hh : cfg.bhikshaBits < 256)
    (hrd : ∀ p ∈ storedParamBytes (.trie q a) cfg stored
        (totalHeaderSize stored.length + vocabSize (.trie q a) cfg (cnt stored 0)), rd p.1 = p.2) :
    ∃ cfg', updateConfigFromBinary (.trie q a) rd stored cfg0 = .ok cfg'
      ∧ (q = true → cfg'.probBits = cfg.probBits ∧ cfg'.backoffBits = cfg.backoffBits)
      ∧ (a = true → stored.length > 2 → cfg'.bhikshaBits = cfg.bhikshaBits)
      ∧ (∀ s, trieSetup q a cfg' stored s = trieSetup q a cfg stored s)
      ∧ trieSize q a cfg' stored = trieSize q a cfg stored := by
  obtain ⟨cfg', h1, h2⟩ := stored_params_read_aux q a cfg cfg0 stored rd hp hb hh hrd
  exact ⟨cfg', h1, h2.1, h2.2, fun s => trieSetup_congr h2 s, trieSize_congr h2⟩

/-- the probing models store nothing in the search area: the multiplier travels in the header (`header_roundtrip`) -/
theorem stored_params_probing (r : Bool) (rd : Nat → Nat) (stored : List Nat) (cfg0 : Config) :
    updateConfigFromBinary (.probing r) rd stored cfg0 = .ok cfg0 := rfl

/-! ## probing bucket count -/

/-- the table always has room for one more than `entries` keys (so exactly `entries` inserts never hit "table full") -/
theorem probing_buckets_gt (mult entries : Nat) : entries < probingBuckets mult entries := by
  unfold probingBuckets; omega

/-- below 2^24 the conversion of `entries` to `float` is exact -/
theorem rne24_small (n : Nat) (h : n < 2^24) : rne24 n = n := rne24_id n h

example : probingBuckets defaultMultiplierBits 49 = 73 ∧ probingBuckets defaultMultiplierBits 16777217 = 25165824 := by decide

/-! ## pointer compression -/

open KV.Bhiksha in
/-- **bhiksha_array_roundtrip**: for every non-decreasing pointer sequence `vs` (the `next` pointers of one middle order,
the last one written by `FinishedLoading`) whose last element has the table's top index as high part, `FinishedLoading`
accepts, and `ReadNext` of every record returns exactly the pair (own pointer, next record's pointer) that was written —
for every inline width. -/
theorem bhiksha_array_roundtrip (bits : Nat) (vs : List Nat) (hne : vs ≠ [])
    (hmono : vs.Pairwise (· ≤ ·)) :
    let a := writeAll vs 0 (Arr.init bits ((vs.getLast hne >>> bits) + 1))
    ∃ table, a.finish = some table ∧
      ∀ i (h : i + 1 < vs.length), readNext bits table a.inl i = (vs[i], vs[i + 1]) :=
  KV.Bhiksha.array_roundtrip bits vs hne hmono

open KV.Bhiksha in
/-- `DontBhiksha`: the inline field is wide enough for every pointer up to `max_next` -/
theorem bhiksha_dont_roundtrip (maxNext : Nat) (hm : maxNext < 2^64) (vs : List Nat) (hv : ∀ v ∈ vs, v ≤ maxNext) :
    ∀ i (h : i + 1 < vs.length), dontReadNext (vs.map (dontInline maxNext)) i = (vs[i], vs[i + 1]) :=
  KV.Bhiksha.dont_roundtrip maxNext hm vs hv

/-- `ChopBits` never chops more bits than there are, nor more than configured; hence `InlineBits + chopped = RequiredBits`
and the table built by the constructor (`ArrayCount`) has the top index `max_next >> InlineBits`, which is what
`bhiksha_array_roundtrip` needs of the last pointer `max_next`. -/
theorem chop_bits_bounds (maxOffset maxNext bhikshaBits : Nat) :
    chopBits maxOffset maxNext bhikshaBits ≤ requiredBits maxNext ∧ chopBits maxOffset maxNext bhikshaBits ≤ bhikshaBits
    ∧ arrayCount maxOffset maxNext bhikshaBits = (maxNext >>> inlineBits true maxOffset maxNext bhikshaBits) + 1 :=
  KV.Bhiksha.chopBits_bounds maxOffset maxNext bhikshaBits

/-! ## quantiser -/

open KV.Quant in
/-- **quant_exact**: if the number of values of a table (count, with multiplicity — *not* the number of distinct values)
does not exceed the number of bins, every trained value is its own centre: `Decode (Encode v) = v`, for the probability
tables (`reserved = 0`, `pre = []`) and the back-off tables (`reserved = 2`, `pre = [-0.0, +0.0]`).
Holds for any arithmetic with the order laws `Laws` (IEEE floats without NaN / mixed zero signs satisfy them). -/
theorem quant_exact {α : Type} [Inhabited α] (ops : Ops α) (laws : Laws ops) (vals : List α) (bins reserved : Nat) (pre : List α)
    (hpre : pre.length = reserved) (hfit : vals.length ≤ bins) (v : α) (hv : v ∈ vals) :
    decode (pre ++ makeBins ops vals bins) (encode ops (pre ++ makeBins ops vals bins) reserved v) = v :=
  KV.Quant.quant_exact ops laws vals bins reserved pre hpre hfit v hv

namespace QuantExample
open KV.Quant
/-- exact arithmetic on `Int ∪ {-inf}` (`none`): an instance of the laws, used for non-vacuity and for the witness below -/
def ops : Ops (Option Int) where
  lt a b := match a, b with
    | _, none => false
    | none, some _ => true
    | some x, some y => x < y
  sub a b := match a, b with
    | some x, some y => some (x - y)
    | some _, none => some 1
    | none, _ => none
  mean l := match l with
    | [] => none
    | [a] => a
    | _ => some ((l.map (·.getD 0)).sum / l.length)
  negInf := none

theorem laws : Laws ops where
  irrefl a := by cases a <;> simp [ops]
  trans a b c := by
    cases a <;> cases b <;> cases c <;> simp [ops]
    omega
  tri a b := by
    cases a <;> cases b <;> simp [ops]
    omega
  negInf_min a := by cases a <;> simp [ops]
  mean_single a := by simp [ops]
  sub_close p v := by
    cases p <;> cases v <;> simp [ops]
    omega

instance : Inhabited (Option Int) := ⟨none⟩

/-- hypotheses of `quant_exact` are satisfiable: three values, four bins -/
example : decode (makeBins ops [some (-75), some (-25), some (-25)] 4)
    (encode ops (makeBins ops [some (-75), some (-25), some (-25)] 4) 0 (some (-75))) = some (-75) :=
  quant_exact ops laws _ 4 0 [] rfl (by decide) _ (by simp)

/-- **quant_lossy_when_count_exceeds_bins** (negation witness, pre-observation D): the hypothesis is about the *count*:
two distinct values, two bins, but four values (-0.25 three times, -0.75 once, in units of 1/100) — the value -0.75
shares its bin with a -0.25 and is decoded as their mean -0.50.  (`build_binary -q 1 trie` reproduces it.) -/
theorem quant_lossy_when_count_exceeds_bins :
    let vals := [some (-25), some (-25), some (-25), some (-75)]
    decode (makeBins ops vals 2) (encode ops (makeBins ops vals 2) 0 (some (-75))) = some (-50) := by decide

end QuantExample

/-- the `uint8_t` sums of `BaseSize`/`BaseInit`/`BitPackedMiddle::Size` never wrap for 64-bit counts: the `% 256` of the model
are identities on everything the code can be given -/
theorem no_uint8_wrap (array : Bool) (quantBits maxOffset maxVocab maxNext bhikshaBits : Nat)
    (hv : maxVocab < 2^64) (hn : maxNext < 2^64) (hq : quantBits ≤ 63) :
    let inl := inlineBits array maxOffset maxNext bhikshaBits
    inl ≤ 64 ∧ (quantBits + inl) % 256 = quantBits + inl
      ∧ totalBits maxVocab ((quantBits + inl) % 256) = requiredBits maxVocab + quantBits + inl := by
  intro inl
  have h1 := KV.C20.required_bits_le_64 maxVocab hv
  have h2 := KV.C20.required_bits_le_64 maxNext hn
  have hi : inl ≤ 64 := by
    simp only [inl, inlineBits]
    split <;> omega
  have e : (quantBits + inl) % 256 = quantBits + inl := Nat.mod_eq_of_lt (by omega)
  refine ⟨hi, e, ?_⟩
  rw [e]; unfold totalBits
  rw [Nat.mod_eq_of_lt (by omega)]; omega

/-- **file_roundtrip_layout**: from the bytes of a finished file alone (header as written by `FinishFile`, anything after it),
the loader recognises the writer's model class and computes exactly the writer's offsets for the vocabulary lookup, the
search structure and the vocabulary strings. -/
theorem file_roundtrip_layout (k : Kind) (cfg : Config) (arpa fixed : List Nat) (sawUnk iv : Bool) (sl : Nat) (rest : List Nat)
    (hlen : fixed.length = arpa.length) (ho : arpa.length < 256) (hm : cfg.multBits < 2^32) (h1 : floatNotGeOne cfg.multBits = false)
    (hc : ∀ c ∈ storedCounts k arpa fixed, c < 2^64)
    (h0 : k.isTrie = true → cnt fixed 0 = cnt arpa 0 + (if sawUnk then 0 else 1)) :
    let w := writeLayout k cfg arpa fixed sawUnk iv sl
    ∃ p, recognize (headerBytes { fixed := { order := arpa.length, multBits := cfg.multBits, modelType := k.typeNum, hasVocab := iv,
                                              searchVersion := k.searchVersion }, counts := w.storedCounts } ++ rest) = .binary p
      ∧ Kind.ofNum p.fixed.modelType = some k ∧ p.fixed.hasVocab = iv
      ∧ (let l := loadLayout k { cfg with multBits := p.fixed.multBits } p.counts
         l.header = w.header ∧ l.vocabSize = w.vocab + w.pad ∧ l.search = w.search ∧ l.mapped = w.strings) := by
  intro w
  have hsl : (storedCounts k arpa fixed).length = arpa.length := by
    unfold storedCounts; split <;> simp [hlen]
  obtain ⟨p, hp, hk, _, _, hcounts, hhv, hpm⟩ := recognize_type k arpa.length cfg.multBits iv (storedCounts k arpa fixed) rest ho hm hsl hc h1
  refine ⟨p, hp, hk, hhv, ?_⟩
  have hcfg : ({ cfg with multBits := p.fixed.multBits } : Config) = cfg := by rw [hpm]
  rw [hcfg, hcounts]
  exact load_layout_eq_write_layout k cfg arpa fixed sawUnk iv sl hlen h0


open KV.TrieLM in
/-- the trie a loader builds over the file's bytes depends on the configuration only through what `CfgAgree` fixes -/
theorem ofLayout_congr {q a : Bool} {counts : List Nat} {c1 c2 : Config} (h : CfgAgree q a counts.length c1 c2) (mem s : Nat) :
    ofLayout mem q a c1 counts s = ofLayout mem q a c2 counts s := by
  unfold ofLayout
  rw [trieSetup_congr h]
  cases q with
  | false => simp
  | true => obtain ⟨h1, h2⟩ := h.1 rfl; simp [h1, h2]

open KV.TrieLM in
/-- **roundtrip_semantic** (trie models): the decoded search structure after load *is* the one that was written.
A writer with configuration `cfg` lays the trie out at `w.search` (`writeLayout`) and stores its parameters; a loader that
starts from an arbitrary configuration `cfg0`, knows only the stored counts and reads the file's bytes `mem`, ends up with
exactly the same `TrieLM.Trie` value — same offsets, bit widths, Bhiksha tables, quantiser tables over the same bytes — hence
every lookup, every `FullScore`, every enumeration of records gives the same result.  (That the mapped/read bytes are the
written bytes is the OS's part; the n-gram content of those bytes is `trie_refines`.) -/
theorem roundtrip_semantic (q a : Bool) (cfg cfg0 : Config) (arpa fixed : List Nat) (sawUnk iv : Bool) (sl mem : Nat)
    (hp : cfg.probBits < 256) (hb : cfg.backoffBits < 256) (hh : cfg.bhikshaBits < 256)
    (hlen : fixed.length = arpa.length)
    (h0 : cnt fixed 0 = cnt arpa 0 + (if sawUnk then 0 else 1))
    (hrd : ∀ p ∈ storedParamBytes (.trie q a) cfg fixed (writeLayout (.trie q a) cfg arpa fixed sawUnk iv sl).search,
        load8 mem p.1 = p.2) :
    let w := writeLayout (.trie q a) cfg arpa fixed sawUnk iv sl
    ∃ cfg', updateConfigFromBinary (.trie q a) (load8 mem) w.storedCounts cfg0 = .ok cfg' ∧
      ofLayout mem q a cfg' w.storedCounts (loadLayout (.trie q a) cfg' w.storedCounts).search
        = ofLayout mem q a cfg w.storedCounts w.search := by
  intro w
  have hsc : w.storedCounts = fixed := by simp [w, writeLayout, storedCounts, Kind.isTrie]
  have hl := load_layout_eq_write_layout (.trie q a) cfg arpa fixed sawUnk iv sl hlen (fun _ => h0)
  have hsearch : w.search = totalHeaderSize fixed.length + vocabSize (.trie q a) cfg (cnt fixed 0) := by
    have := hl.2.2.1
    simp only [loadLayout] at this
    rw [← this, hsc]
  rw [hsc]
  have hrd' : ∀ p ∈ storedParamBytes (.trie q a) cfg fixed
      (totalHeaderSize fixed.length + vocabSize (.trie q a) cfg (cnt fixed 0)), load8 mem p.1 = p.2 := by
    rw [← hsearch]; exact hrd
  obtain ⟨cfg', hu, hagree⟩ := stored_params_read_aux q a cfg cfg0 fixed (load8 mem) hp hb hh hrd'
  refine ⟨cfg', hu, ?_⟩
  rw [ofLayout_congr hagree]
  congr 1
  -- the loader's search offset does not depend on the configuration for the sorted vocabulary
  simp only [loadLayout, vocabSize, Kind.isTrie, if_true]
  rw [hsearch]
  simp [vocabSize, Kind.isTrie]

open KV.TrieLM KV.Score in
/-- **roundtrip_semantic_queries** (trie models) — the query clause of the round trip, spelled out: after the loader has
recovered its configuration from the stored parameters, *every* `FullScore` call (any state, any word, any decoding `fval` of
the 32-bit values) and every left-to-right sentence score over the loaded file equals the same call on the structure the writer
laid out.  Together with `KV.C03TrieBuild.trie_end_to_end` (the written structure answers the ARPA back-off recursion) this is
"a binary file answers exactly like the ARPA it was built from", for all four trie classes. -/
theorem roundtrip_semantic_queries (q a : Bool) (cfg cfg0 : Config) (arpa fixed : List Nat) (sawUnk iv : Bool) (sl mem : Nat)
    (hp : cfg.probBits < 256) (hb : cfg.backoffBits < 256) (hh : cfg.bhikshaBits < 256)
    (hlen : fixed.length = arpa.length)
    (h0 : cnt fixed 0 = cnt arpa 0 + (if sawUnk then 0 else 1))
    (hrd : ∀ p ∈ storedParamBytes (.trie q a) cfg fixed (writeLayout (.trie q a) cfg arpa fixed sawUnk iv sl).search,
        load8 mem p.1 = p.2) :
    let w := writeLayout (.trie q a) cfg arpa fixed sawUnk iv sl
    ∃ cfg', updateConfigFromBinary (.trie q a) (load8 mem) w.storedCounts cfg0 = .ok cfg' ∧
      ∀ (fval : Nat → Rat),
        (∀ st wd, fullScore (search fval (ofLayout mem q a cfg' w.storedCounts (loadLayout (.trie q a) cfg' w.storedCounts).search)) st wd
          = fullScore (search fval (ofLayout mem q a cfg w.storedCounts w.search)) st wd) ∧
        (∀ st ws, scoreSeq (search fval (ofLayout mem q a cfg' w.storedCounts (loadLayout (.trie q a) cfg' w.storedCounts).search)) st ws
          = scoreSeq (search fval (ofLayout mem q a cfg w.storedCounts w.search)) st ws) := by
  intro w
  obtain ⟨cfg', hu, he⟩ := roundtrip_semantic q a cfg cfg0 arpa fixed sawUnk iv sl mem hp hb hh hlen h0 hrd
  refine ⟨cfg', hu, fun fval => ?_⟩
  rw [he]
  exact ⟨fun _ _ => rfl, fun _ _ => rfl⟩


end KV.C04
