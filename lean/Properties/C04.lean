import Model.Binary
import Model.Bhiksha
import Model.Quant
namespace KV.C04
open KV.Binary KV.Gen.C04

/-- trie count fix-up: a vocabulary sized without `<unk>` plus the 8 padding bytes is the size for one more entry -/
theorem unk_padding (n : Nat) : sortedVocabSize n + sizeofUint64 = sortedVocabSize (n + 1) := by
  unfold sortedVocabSize; simp [sizeofUint64]; omega

end KV.C04
