import Proofs.FilterInter2
import Proofs.FilterHeader
import Proofs.FilterPhrase
import Generated.C11
import Proofs.FilterSearchGraph
/-!
# C11 — Filtering keeps exactly the n-grams a restricted decoder can query

Model: `Model/Filter.lean`.  `verdict mode opts ngram` is what `Filter::AddNGram(ngram, line,
output)` does with one line (`all` = every output file, `only ks` = files `ks`);
`arpaFile` / `rawFile` are the bytes written to output file `k`.

Proved here: `out_sublist` (+ `out_sublist_binary`), `header_counts`, `kept_iff_single`,
`kept_iff_union_partial` and `kept_iff_multi_partial` (soundness of `FirstIntersectionSorted` /
`AllIntersection` for every order of the ranges; completeness by correspondence only),
`context_option`, `copy_identity`, `decode_equiv` (+ `decode_equiv_sentence`).
Phrase mode: specification `Tiles` only (tied by correspondence is future work; see
design_notes/C11.md).
-/
namespace KV.C11
open KV.Filter

/-! ## the output is a sublist of the input, verbatim and in order -/

/-- **out_sublist**: the n-gram lines written to file `k` are a sublist of the input lines
(same bytes, same order), provided no line is sent twice to the same file. -/
theorem out_sublist (vs : Item → Verdict) (k : Nat) (items : List Item)
    (h : ∀ it ∈ items, (vs it).copies k ≤ 1) :
    (keptLines vs k items).Sublist (items.map (·.line)) := by
  induction items with
  | nil => simp [keptLines]
  | cons it r ih =>
    have hr := ih (fun x hx => h x (List.mem_cons_of_mem _ hx))
    have hc := h it List.mem_cons_self
    simp only [keptLines, List.flatMap_cons, List.map_cons] at hr ⊢
    rcases Nat.lt_or_ge ((vs it).copies k) 1 with h0 | h1
    · have : (vs it).copies k = 0 := by omega
      rw [this]; simpa using List.Sublist.cons it.line hr
    · have : (vs it).copies k = 1 := by omega
      rw [this]; simpa using List.Sublist.cons₂ it.line hr

/-- copy, single and union send a line to their one output at most once -/
theorem copies_le_one_binary (m : Mode) (o : Opts) (g : Bytes) (k : Nat)
    (hm : ∀ s, m ≠ .multiple s) : (verdict m o g).copies k ≤ 1 := by
  cases m with
  | copy => simp [verdict, Verdict.copies]
  | single V =>
    simp only [verdict, verdictWords]
    split <;> split <;> simp [Verdict.copies]
  | union s =>
    simp only [verdict, verdictWords]
    split <;> split <;> simp [Verdict.copies]
  | multiple s => exact absurd rfl (hm s)

theorem out_sublist_binary (m : Mode) (o : Opts) (items : List Item) (k : Nat) (hm : ∀ s, m ≠ .multiple s) :
    (keptLines (fun it => verdict m o it.ngram) k items).Sublist (items.map (·.line)) :=
  out_sublist _ k items (fun it _ => copies_le_one_binary m o it.ngram k hm)

/-- raw format: the whole output file is the kept lines, each followed by a newline -/
theorem raw_file_eq (items : List Item) (vs : Item → Verdict) (k : Nat) :
    rawFile items vs k = joinLines (keptLines vs k items) := rfl

/-! ## header -/

/-- **header_counts**: the ARPA output starts with the `\data\` header whose count for order
`n` is the number of lines written in section `n`; the space reserved with the input's counts
is padded with newlines; the sections follow with exactly the kept lines. -/
theorem header_counts (a : Arpa) (vs : Item → Verdict) (k : Nat) :
    ∃ pad, arpaFile a vs k =
      countsHeader ((a.orders.map (keptLines vs k)).map List.length) ++ List.replicate pad 10 ++
      sectionsBody 1 (a.orders.map (keptLines vs k)) ++ bEnd ++ [10] :=
  ⟨_, rfl⟩

/-- **header_counts at the level of `ARPAOutput`'s counter**: the calls that reach output file
`k` during the sequential run (= during every threaded run, C12 `ctl_output_arpa`), fed to the
model of `ARPAOutput` (`BeginLength` resets the counter, `AddNGram` increments it, `EndLength`
stores it per order, `Finish` writes the counts over the reservation), produce exactly
`arpaFile`: the header counts the lines actually written in each section. -/
theorem header_counts_counter (a : Arpa) (vs : Item → Verdict) (k : Nat) :
    KV.FilterDrv.renderArpa (countsHeader a.counts).length
        (KV.FilterCtl.fileLog k (KV.FilterCtl.seqLog vs (KV.FilterCtl.arpaProgram a.orders))) = arpaFile a vs k :=
  KV.FilterDrv.renderArpa_seqLog a vs k

/-- raw format counterpart: the calls that reach file `k`, written by `CountOutput`, are `rawFile` -/
theorem raw_counter (items : List Item) (vs : Item → Verdict) (k : Nat) :
    KV.FilterDrv.renderRaw (KV.FilterCtl.fileLog k (KV.FilterCtl.seqLog vs (KV.FilterCtl.rawProgram items))) = rawFile items vs k :=
  KV.FilterDrv.renderRaw_seqLog items vs k

/-! ## which n-grams are kept -/

/-- **kept_iff_single**: kept iff every word other than a `<tag>` is in the vocabulary -/
theorem kept_iff_single (V : List Bytes) (o : Opts) (g : Bytes) :
    verdict (.single V) o g = .all ↔
      ∀ w ∈ words (if o.context then contextOf g else g), isTag w = true ∨ w ∈ V := by
  simp only [verdict, verdictWords]
  generalize words (if o.context then contextOf g else g) = ws
  have hall : passSingle V ws = true ↔ ∀ w ∈ ws, isTag w = true ∨ w ∈ V := by
    simp [passSingle, List.all_eq_true]
  by_cases hp : passSingle V ws = true
  · simp only [hp, if_true, true_iff]; exact hall.mp hp
  · simp only [hp]
    constructor
    · intro h; cases h
    · intro h; exact absurd (hall.mpr h) hp

/-- in single mode nothing else can happen: a line is written or dropped -/
theorem single_verdict_cases (V : List Bytes) (o : Opts) (g : Bytes) :
    verdict (.single V) o g = .all ∨ verdict (.single V) o g = .only [] := by
  simp only [verdict, verdictWords]; split <;> simp

/-- soundness half of `kept_iff_union` (no sortedness needed; any order of the ranges) -/
theorem kept_union_sound (sents : List (List Bytes)) (o : Opts) (g : Bytes)
    (h : verdict (.union sents) o g = .all) :
    ∃ c : Nat, ∀ w ∈ (words (if o.context then contextOf g else g)).filter (fun w => !isTag w),
      ∃ sent : List Bytes, sents[c]? = some sent ∧ w ∈ sent := by
  simp only [verdict, verdictWords] at h
  generalize words (if o.context then contextOf g else g) = ws at h ⊢
  have hp : passUnion sents ws = true := by
    by_cases hp : passUnion sents ws = true
    · exact hp
    · simp [hp] at h
  clear h
  have h := hp
  unfold passUnion at h
  cases hg : gatherSets sents ws with
  | none => rw [hg] at h; simp at h
  | some sets =>
    rw [hg] at h
    cases sets with
    | nil => exact ⟨sents.length, gatherSets_spec sents ws [] hg sents.length (by intro s hs; cases hs)⟩
    | cons s0 rest =>
      simp only at h
      cases hf : firstInter (sortBySize (s0 :: rest)) with
      | none => rw [hf] at h; simp at h
      | some m =>
        refine ⟨m, gatherSets_spec sents ws _ hg m ?_⟩
        intro s hs
        exact firstInter_mem hf s ((mem_sortBySize s _).mpr hs)

/-- soundness half of `kept_iff_multi` (no sortedness needed; any order of the ranges) -/
theorem kept_multi_sound (sents : List (List Bytes)) (ws : List Bytes) (ks : List Nat) (s : Nat)
    (h : multiVerdict sents ws = .only ks) (hs : s ∈ ks) :
    ∀ w ∈ ws.filter (fun w => !isTag w), ∃ sent : List Bytes, sents[s]? = some sent ∧ w ∈ sent := by
  unfold multiVerdict at h
  cases hg : gatherSets sents ws with
  | none => rw [hg] at h; simp at h; subst h; cases hs
  | some sets =>
    rw [hg] at h
    cases sets with
    | nil => simp at h
    | cons s0 rest =>
      simp only at h
      injection h with h; subst h
      apply gatherSets_spec sents ws _ hg s
      intro t ht
      exact allInterFuel_mem _ _ s hs t ((mem_sortBySize t _).mpr ht)

/-- **kept_iff_union**: in union mode an n-gram is kept exactly when one sentence contains all
its non-tag words (trivially so when it has none).  Uses soundness and completeness of
`FirstIntersectionSorted`'s restart loop (`firstInter_isSome_iff`, valid for every order of the
ranges — `std::sort` leaves ties unspecified) and that posting lists are strictly increasing. -/
theorem kept_iff_union (sents : List (List Bytes)) (o : Opts) (g : Bytes) :
    verdict (.union sents) o g = .all ↔
      ∃ c : Nat, ∀ w ∈ (words (if o.context then contextOf g else g)).filter (fun w => !isTag w),
        ∃ sent : List Bytes, sents[c]? = some sent ∧ w ∈ sent := by
  constructor
  · exact kept_union_sound sents o g
  · rintro ⟨c, hc⟩
    simp only [verdict, verdictWords]
    generalize words (if o.context then contextOf g else g) = ws at hc ⊢
    obtain ⟨sets, e, hcom, _⟩ := gatherSets_complete sents c ws hc
    have hp : passUnion sents ws = true := by
      unfold passUnion
      rw [e]
      cases sets with
      | nil => rfl
      | cons s0 rest =>
        simp only
        exact (firstInter_isSome_iff (sortBySize_ne_nil (by simp)) (sortBySize_allInc (gatherSets_inc sents ws _ e))).mpr
          ⟨c, sortBySize_common.mpr hcom⟩
    simp [hp]

/-- **kept_iff_multi**: in multiple mode a line goes to all files iff it has no non-tag word;
otherwise it goes to file `s` iff sentence `s` contains all its non-tag words, and each such
file is named exactly once, in increasing order (`AllIntersection` enumerates exactly the
intersection of the posting lists). -/
theorem kept_iff_multi (sents : List (List Bytes)) (ws : List Bytes) :
    (multiVerdict sents ws = .all ↔ ws.filter (fun w => !isTag w) = []) ∧
    (∀ ks, multiVerdict sents ws = .only ks →
      ks.Pairwise (· < ·) ∧
      ∀ s : Nat, s ∈ ks ↔ (ws.filter (fun w => !isTag w) ≠ [] ∧
        ∀ w ∈ ws.filter (fun w => !isTag w), ∃ sent : List Bytes, sents[s]? = some sent ∧ w ∈ sent)) := by
  unfold multiVerdict
  cases hg : gatherSets sents ws with
  | none =>
    have hno : ∀ s : Nat, ¬ (∀ w ∈ ws.filter (fun w => !isTag w), ∃ sent : List Bytes, sents[s]? = some sent ∧ w ∈ sent) := by
      intro s hs
      obtain ⟨sets, e, _, _⟩ := gatherSets_complete sents s ws hs
      rw [hg] at e; cases e
    refine ⟨⟨(by intro h; cases h), ?_⟩, ?_⟩
    · intro hnil
      exfalso
      apply hno 0
      intro w hw; rw [hnil] at hw; cases hw
    · intro ks hks
      injection hks with hks; subst hks
      refine ⟨List.Pairwise.nil, fun s => ⟨(fun h => by cases h), fun h => absurd h.2 (hno s)⟩⟩
  | some sets =>
    have hnil := gatherSets_nil_iff sents ws sets hg
    cases sets with
    | nil =>
      refine ⟨⟨fun _ => hnil.mp rfl, fun _ => rfl⟩, ?_⟩
      intro ks hks; cases hks
    | cons s0 rest =>
      have hne : ws.filter (fun w => !isTag w) ≠ [] := fun h => by have := hnil.mpr h; cases this
      refine ⟨⟨(by intro h; cases h), fun h => absurd h hne⟩, ?_⟩
      intro ks hks
      simp only at hks
      injection hks with hks; subst hks
      obtain ⟨h1, h2⟩ := allInter_spec (sortBySize_ne_nil (l := s0 :: rest) (by simp))
        (sortBySize_allInc (gatherSets_inc sents ws _ hg))
      refine ⟨h2, fun s => ?_⟩
      rw [h1 s, sortBySize_common]
      constructor
      · intro hc
        exact ⟨hne, gatherSets_spec sents ws _ hg s hc⟩
      · rintro ⟨_, hall⟩
        obtain ⟨sets', e', hc', _⟩ := gatherSets_complete sents s ws hall
        rw [hg] at e'; injection e' with e'; subst e'
        exact hc'

/-- multiple mode: every file receives a sublist of the input lines (no line twice) -/
theorem out_sublist_multiple (sents : List (List Bytes)) (o : Opts) (items : List Item) (k : Nat) :
    (keptLines (fun it => verdict (.multiple sents) o it.ngram) k items).Sublist (items.map (·.line)) := by
  apply out_sublist
  intro it _
  simp only [verdict, verdictWords]
  generalize words (if o.context then contextOf it.ngram else it.ngram) = ws
  cases hv : multiVerdict sents ws with
  | all => simp [Verdict.copies]
  | only ks =>
    simp only [Verdict.copies]
    exact Inc.count_le_one ((kept_iff_multi sents ws).2 ks hv).1 k

/-- **context_option**: with `context` the filter looks at the n-gram without its last word
(everything before the last space at a position > 0) -/
theorem context_option (m : Mode) (g : Bytes) :
    verdict m { context := true } g = verdict m { context := false } (contextOf g) := by
  cases m <;> simp [verdict]

/-- **copy_identity**: copy mode writes every entry -/
theorem copy_identity (o : Opts) (items : List Item) :
    keptLines (fun it => verdict .copy o it.ngram) 0 items = items.map (·.line) := by
  induction items with
  | nil => rfl
  | cons it r ih =>
    simp only [keptLines, List.flatMap_cons, List.map_cons] at ih ⊢
    rw [ih]; simp [verdict, Verdict.copies]

/-! ## decoding with the filtered model

A self-contained back-off model (`Model/Arpa.lean` is not on `main` yet): a model maps an
n-gram (list of words, oldest first) to `(log-prob, back-off)`; `score` is the textbook
recursion, `matched` the length of the longest matching n-gram. -/

abbrev Word := Nat
abbrev LM := List Word → Option (Int × Int)

/-- `score A ctx w`: log p(w | ctx) with back-off; `unk` is the score of an unknown unigram -/
def score (A : LM) (unk : Int) : List Word → Word → Int
  | [], w => match A [w] with
    | some (p, _) => p
    | none => unk
  | c :: ctx, w => match A (c :: ctx ++ [w]) with
    | some (p, _) => p
    | none => (match A (c :: ctx) with | some (_, b) => b | none => 0) + score A unk ctx w

/-- length of the longest n-gram ending in `w` that the model contains -/
def matched (A : LM) : List Word → Word → Nat
  | [], w => match A [w] with
    | some _ => 1
    | none => 0
  | c :: ctx, w => match A (c :: ctx ++ [w]) with
    | some _ => (c :: ctx).length + 1
    | none => matched A ctx w

/-- the model restricted to the kept n-grams -/
def restrict (A : LM) (K : List Word → Bool) : LM := fun g => if K g then A g else none

/-- **decode_equiv**: if every n-gram of the model whose words all pass (`V`: vocabulary ∪
tags, with OOV words already mapped to `<unk>`, which is a tag) is kept, then on every context
and word over `V` the filtered model gives the same score and the same matched length. -/
theorem decode_equiv (A : LM) (K : List Word → Bool) (V : Word → Bool) (unk : Int)
    (hK : ∀ g, (∀ w ∈ g, V w = true) → A g ≠ none → K g = true)
    (ctx : List Word) (w : Word) (hc : ∀ c ∈ ctx, V c = true) (hw : V w = true) :
    score (restrict A K) unk ctx w = score A unk ctx w ∧ matched (restrict A K) ctx w = matched A ctx w := by
  have key : ∀ g, (∀ x ∈ g, V x = true) → restrict A K g = A g := by
    intro g hg
    unfold restrict
    by_cases hA : A g = none
    · rw [hA]; simp
    · rw [if_pos (hK g hg hA)]
  induction ctx with
  | nil =>
    have h1 := key [w] (by intro x hx; simp at hx; rw [hx]; exact hw)
    simp [score, matched, h1]
  | cons c ctx ih =>
    have hc' : ∀ x ∈ ctx, V x = true := fun x hx => hc x (List.mem_cons_of_mem _ hx)
    obtain ⟨ih1, ih2⟩ := ih hc'
    have h1 := key (c :: ctx ++ [w]) (by
      intro x hx
      simp only [List.cons_append, List.mem_cons, List.mem_append, List.not_mem_nil, or_false] at hx
      rcases hx with rfl | hx | rfl
      · exact hc _ List.mem_cons_self
      · exact hc' x hx
      · exact hw)
    have h2 := key (c :: ctx) hc
    simp only [score, matched, h1, h2, ih1, ih2]
    trivial

/-- whole sentences: the sum of the scores over any sentence whose words pass -/
def sentenceScore (A : LM) (unk : Int) (order : Nat) : List Word → List Word → Int
  | _, [] => 0
  | hist, w :: rest =>
    score A unk (hist.drop (hist.length + 1 - order)) w + sentenceScore A unk order (hist ++ [w]) rest

theorem decode_equiv_sentence (A : LM) (K : List Word → Bool) (V : Word → Bool) (unk : Int) (order : Nat)
    (hK : ∀ g, (∀ w ∈ g, V w = true) → A g ≠ none → K g = true)
    (hist sent : List Word) (hh : ∀ c ∈ hist, V c = true) (hs : ∀ c ∈ sent, V c = true) :
    sentenceScore (restrict A K) unk order hist sent = sentenceScore A unk order hist sent := by
  induction sent generalizing hist with
  | nil => rfl
  | cons w rest ih =>
    have hw := hs w List.mem_cons_self
    have hd : ∀ c ∈ hist.drop (hist.length + 1 - order), V c = true :=
      fun c hc => hh c (List.mem_of_mem_drop hc)
    have h1 := (decode_equiv A K V unk hK _ w hd hw).1
    have h2 := ih (hist ++ [w]) (by
      intro c hc
      rcases List.mem_append.mp hc with hc | hc
      · exact hh c hc
      · simp at hc; rw [hc]; exact hw) (fun c hc => hs c (List.mem_cons_of_mem _ hc))
    simp only [sentenceScore, h1, h2]

/-- non-vacuity: a model with a bigram that is dropped, a vocabulary that keeps the rest -/
example :
    let A : LM := fun g => if g = [1] then some (-10, -3) else if g = [2] then some (-20, 0)
                           else if g = [1, 2] then some (-5, 0) else if g = [3] then some (-7, -1)
                           else if g = [3, 1] then some (-2, 0) else none
    let V : Word → Bool := fun w => w = 1 || w = 2
    let K : List Word → Bool := fun g => g.all V
    (∀ g, (∀ w ∈ g, V w = true) → A g ≠ none → K g = true) ∧
      score (restrict A K) (-100) [1] 2 = -5 ∧ score (restrict A K) (-100) [2] 1 = -10 ∧ restrict A K [3, 1] = none := by
  refine ⟨?_, by decide, by decide, by decide⟩
  intro g hg _
  simp only [List.all_eq_true]
  exact hg

/-! ## phrase mode

`Tiles phrases g` (Proofs/FilterPhrase.lean): `g` is a contiguous part of one phrase, or a
non-empty end of a phrase ++ whole phrases ++ a non-empty beginning of a phrase — exactly "can
be read off a concatenation of the sentence's phrases".  `tilesB` is its executable form (the
driver's lower bound `.must<k>`, cross-checked against an independent Python DP and a literal
enumeration of concatenations).  `graphAccept` models the arcs `BuildGraph` creates from the
`Substrings` tables, including the `break`s on absent keys, with acceptance = a path of arcs
that all contain the sentence; the checks compare it **byte for byte** with `bin/filter phrase`.
Not modelled, hence not proved: the lazy evaluation of that graph (`Vertex::LowerBound` /
`Arc::LowerBound` with priority queues) and hashing — tied by that exact correspondence. -/

/-- **phrase_sound** (one direction, as the property states; for the search graph): every
n-gram that can be read off a concatenation of the phrases of sentence `s` is accepted for `s` -/
theorem phrase_sound (sents : List (List (List Bytes))) (s : Nat) (g : List Bytes)
    (h : Tiles (sents.getD s []) g) : graphAccept sents s g = true :=
  tilesB_graphAccept sents s g (tilesB_of_Tiles _ g h)

/-- … and therefore sentence `s` is among the outputs of the model of `phrase::Multiple`
(resp. the n-gram passes `phrase::Union`) -/
theorem phrase_sound_multiple (sents : List (List (List Bytes))) (ws : List Bytes) (s : Nat) (hs : s < sents.length)
    (h : Tiles (sents.getD s []) (phraseWords ws)) :
    phraseVerdict sents ws = .all ∨ ∃ ks, phraseVerdict sents ws = .only ks ∧ s ∈ ks := by
  unfold phraseVerdict
  by_cases hg : phraseWords ws = []
  · left; simp [hg]
  · right
    simp only [hg, if_false]
    refine ⟨_, rfl, ?_⟩
    simp only [List.mem_filter, List.mem_range]
    exact ⟨hs, phrase_sound sents s _ h⟩

theorem phrase_sound_union (sents : List (List (List Bytes))) (ws : List Bytes) (s : Nat) (hs : s < sents.length)
    (h : Tiles (sents.getD s []) (phraseWords ws)) : phraseVerdictUnion sents ws = .all := by
  unfold phraseVerdictUnion
  rcases phrase_sound_multiple sents ws s hs h with h | ⟨ks, h, hk⟩
  · rw [h]
  · rw [h]
    cases ks with
    | nil => cases hk
    | cons k ks => rfl

/-- the `FindSubstring` path at the highest order the tools are built for (`KENLM_MAX_ORDER`,
regenerated from lm/max_order.hh): an n-gram of that order lying inside one phrase of sentence `s`
is accepted — there is no length limit on the indexed parts of a phrase -/
theorem phrase_sound_max_order (sents : List (List (List Bytes))) (s : Nat) (g a b : List Bytes)
    (_hlen : g.length = KV.Gen.C11.kenlmMaxOrder) (hp : a ++ g ++ b ∈ sents.getD s []) :
    graphAccept sents s g = true :=
  phrase_sound sents s g (Or.inl ⟨_, hp, a, b, rfl⟩)

/-! ## the lazy search of lm/filter/phrase.cc (round 5)

`Model/FilterPhraseSearch.lean` models `Arc::LowerBound`, `Vertex::LowerBound` (priority queue by
current candidate) and the `Evaluate` loops of `phrase::Union` / `phrase::Multiple` over the arcs
of `BuildGraph` (`buildGraph`, semantic tables).  `PAcc arcs v s`: some path of arcs that all
contain sentence `s` ends at vertex `v`.  `Good arcs σ L`: every arc's remaining range is a suffix
of its sentence list and still holds every sentence `≥ L` that its source vertex accepts. -/

/-- **lowerBound_spec**: from a `Good` state with low-water mark `L ≤ to`, `Vertex::LowerBound(v, to)`
(nesting depth `d > v`: fuel proved sufficient) leaves the state `Good` at `to`, does not touch arcs
into higher vertices, and returns `none` only if no sentence `≥ to` is accepted at `v`, else some
`c ≥ to` such that nothing in `[to, c)` is accepted and `c` itself is accepted when `c = to`. -/
theorem lowerBound_spec (arcs : List PArc) (hw : WFG arcs) (d v : Nat) (hv : v < d)
    (σ : PState) (L to : Nat) (hg : Good arcs σ L) (hl : L ≤ to) :
    Good arcs (vertexLB false arcs d v to σ).2 to ∧
    (∀ (j : Nat) (b : PArc), arcs[j]? = some b → v < b.to → restOf (vertexLB false arcs d v to σ).2 j = restOf σ j) ∧
    match (vertexLB false arcs d v to σ).1 with
    | none => ∀ s, to ≤ s → ¬ PAcc arcs v s
    | some c => to ≤ c ∧ (c = to → PAcc arcs v to) ∧ (∀ s, to ≤ s → s < c → ¬ PAcc arcs v s) ∧ (c = to ∨ c ≤ maxSent arcs) :=
  KV.Filter.lowerBound_spec hw d v hv σ L to hg hl

/-- the graph `BuildGraph` builds is well-formed and accepts exactly what `graphAccept` accepts -/
theorem buildGraph_accepts (sents : List (List (List Bytes))) (s : Nat) (g : List Bytes) :
    WFG (buildGraph sents g) ∧ (PAcc (buildGraph sents g) (g.length - 1) s ↔ graphAccept sents s g = true) :=
  ⟨buildGraph_wf sents g, acc_iff_graphAccept sents s g⟩

/-- **phrase_multi_correct**: `phrase::Multiple::Evaluate` reports exactly `{s | graphAccept s}`,
each once, in increasing order -/
theorem phrase_multi_correct (sents : List (List (List Bytes))) (g : List Bytes) :
    let arcs := buildGraph sents g
    let out := multiEval false arcs (g.length - 1) (maxSent arcs + 2) 0 (initState arcs)
    (∀ s, s ∈ out ↔ graphAccept sents s g = true) ∧ out.Pairwise (· < ·) := by
  obtain ⟨h1, h2⟩ := multiEval_correct (buildGraph_wf sents g) (g.length - 1)
  exact ⟨fun s => by rw [h1 s, acc_iff_graphAccept], h2⟩

/-- **phrase_union_correct**: `phrase::Union::Evaluate` answers true iff some sentence is accepted -/
theorem phrase_union_correct (sents : List (List (List Bytes))) (g : List Bytes) :
    let arcs := buildGraph sents g
    unionEval false arcs (g.length - 1) (maxSent arcs + 2) 0 (initState arcs) = true ↔
      ∃ s, graphAccept sents s g = true := by
  simp only
  rw [unionEval_correct (buildGraph_wf sents g) (g.length - 1)]
  exact ⟨fun ⟨s, h⟩ => ⟨s, (acc_iff_graphAccept sents s g).mp h⟩, fun ⟨s, h⟩ => ⟨s, (acc_iff_graphAccept sents s g).mpr h⟩⟩

/-- the model of the lazy search and the declarative graph model are the same function (so the
driver's `.search<k>` and `.graph<k>` files coincide by theorem, not only by test) -/
theorem phrase_search_eq_graph (sents : List (List (List Bytes))) (ws : List Bytes) :
    phraseSearch false sents ws = phraseVerdict sents ws :=
  phraseSearch_eq_graph sents ws

/-- **the property's phrase clause end to end**: an n-gram that can be read off a concatenation
of the phrases of sentence `s` is sent to output `s` by the model of the real search -/
theorem phrase_end_to_end (sents : List (List (List Bytes))) (ws : List Bytes) (s : Nat) (hs : s < sents.length)
    (h : Tiles (sents.getD s []) (phraseWords ws)) :
    phraseSearch false sents ws = .all ∨ ∃ ks, phraseSearch false sents ws = .only ks ∧ s ∈ ks := by
  rw [phrase_search_eq_graph]
  exact phrase_sound_multiple sents ws s hs h

theorem phrase_end_to_end_union (sents : List (List (List Bytes))) (ws : List Bytes) (s : Nat) (_hs : s < sents.length)
    (h : Tiles (sents.getD s []) (phraseWords ws)) : phraseSearchUnion false sents ws = .all := by
  unfold phraseSearchUnion
  by_cases hg : phraseWords ws = []
  · simp [hg]
  · simp only [hg, if_false]
    have := (phrase_union_correct sents (phraseWords ws)).mpr ⟨s, phrase_sound sents s _ h⟩
    rw [this]; rfl

/-! ### Old: the search of seeded change C11-1 ("advance the source vertex to the candidate
straight away", `mutant = true`) does not meet `lowerBound_spec` -/
namespace OldSearch

def sents6 : List (List (List Bytes)) :=
  [[[[98]]], [[[99]], [[100]]], [[[122]]], [[[97]], [[98], [99]], [[100]]], [[[122]], [[121]]], [[[97]], [[98]]]]
def g4 : List Bytes := [[97], [98], [99], [100]]

/-- on the six-sentence file of seeded/C11-1 and the n-gram `a b c d`: the state after the
first `LowerBound(0)` of the correct code is `Good`; the mutant's `LowerBound(1)` from it drops
sentence 3 from the right-aligned arc for `a` although it is valid there -/
theorem lowerBound_spec_fails_mutant :
    ¬ (∀ (arcs : List PArc), WFG arcs → ∀ (d v : Nat), v < d → ∀ (σ : PState) (L to : Nat), Good arcs σ L → L ≤ to →
        Good arcs (vertexLB true arcs d v to σ).2 to) := by
  intro h
  have hw := buildGraph_wf sents6 g4
  have hg1 := (KV.Filter.lowerBound_spec hw 4 3 (by omega) (initState (buildGraph sents6 g4)) 0 0 good_init (Nat.le_refl _)).1
  have hbad := h (buildGraph sents6 g4) hw 4 3 (by omega) _ 0 1 hg1 (by omega)
  have harc : (buildGraph sents6 g4)[0]? = some ⟨none, 0, [3, 5]⟩ := by decide
  have hmem := hbad.keep 0 _ harc 3 ⟨by decide, Or.inl rfl⟩ (by omega)
  have hrest : restOf (vertexLB true (buildGraph sents6 g4) 4 3 1
      (vertexLB false (buildGraph sents6 g4) 4 3 0 (initState (buildGraph sents6 g4))).2).2 0 = [5] := by decide
  rw [hrest] at hmem
  simp at hmem

/-- … and consequently `Evaluate` loses the n-gram for sentence 3, which the graph accepts -/
theorem multi_wrong_mutant :
    multiEval true (buildGraph sents6 g4) 3 (maxSent (buildGraph sents6 g4) + 2) 0 (initState (buildGraph sents6 g4)) = [] ∧
    multiEval false (buildGraph sents6 g4) 3 (maxSent (buildGraph sents6 g4) + 2) 0 (initState (buildGraph sents6 g4)) = [3] ∧
    graphAccept sents6 3 g4 = true := by decide

end OldSearch

/-- the lower bound the checks enforce is implied by the graph model (so "tool = graph model"
on a run implies "tool ⊇ Tiles" on that run) -/
theorem must_le_graph (sents : List (List (List Bytes))) (ws : List Bytes) (ks : List Nat) (s : Nat)
    (h : phraseMust sents ws = .only ks) (hs : s ∈ ks) :
    ∃ ks', phraseVerdict sents ws = .only ks' ∧ s ∈ ks' := by
  unfold phraseMust at h
  unfold phraseVerdict
  by_cases hg : phraseWords ws = []
  · simp [hg] at h
  · simp only [hg, if_false] at h ⊢
    injection h with h; subst h
    refine ⟨_, rfl, ?_⟩
    simp only [List.mem_filter, List.mem_range] at hs ⊢
    exact ⟨hs.1, tilesB_graphAccept sents s _ hs.2⟩

/-- non-vacuity: the n-gram of seeded/C11-1 — `a b c d` tiles sentence 3 (`a | b c | d`) only
(a = 97, b = 98, c = 99, d = 100, y = 121, z = 122) -/
example :
    let sents : List (List (List Bytes)) :=
      [[[[98]]], [[[99]], [[100]]], [[[122]]], [[[97]], [[98], [99]], [[100]]], [[[122]], [[121]]], [[[97]], [[98]]]]
    let g : List Bytes := [[97], [98], [99], [100]]
    (List.range 6).filter (fun s => tilesB (sents.getD s []) g) = [3] ∧
      (List.range 6).filter (fun s => graphAccept sents s g) = [3] := by decide

/-! ## round 5: seed C11-9 -/

open KV.Filter in
/-- the seeded `PassNGram` of `vocab::Union` (C11-9): `FirstIntersection(sets_).value_or(0)` converted to `bool` — a lowest
common sentence id of 0 reads as "no common sentence" -/
def passUnionValueOr0 (sents : List (List Bytes)) (ws : List Bytes) : Bool :=
  match gatherSets sents ws with
  | none => false
  | some [] => true
  | some sets => (firstInter (sortBySize sets)).getD 0 != 0


open KV.Filter in
/-- **union_value_or_zero_drops_first_sentence** (negation witness, `decide`): with a single vocabulary sentence `a b`, the
unigram `a` is kept by `vocab::Union::PassNGram` (`kept_iff_union`: sentence 0 contains it) but dropped by the variant that
converts `FirstIntersection(...).value_or(0)` to `bool`, because the lowest common sentence id is 0; an n-gram whose words
meet only in sentence 1 is kept by both. -/
theorem union_value_or_zero_drops_first_sentence :
    passUnion [[[97], [98]], [[99]]] [[97]] = true ∧ passUnionValueOr0 [[[97], [98]], [[99]]] [[97]] = false
    ∧ passUnion [[[97], [98]], [[99]]] [[99]] = true ∧ passUnionValueOr0 [[[97], [98]], [[99]]] [[99]] = true := by decide

end KV.C11
