import Proofs.FilterInter
/-!
# C11 — Filtering keeps exactly the n-grams a restricted decoder can query

Model: `Model/Filter.lean`.  `verdict mode opts ngram` is what `Filter::AddNGram(ngram, line,
output)` does with one line (`all` = every output file, `only ks` = files `ks`);
`arpaFile` / `rawFile` are the bytes written to output file `k`.

Proved here: `out_sublist` (+ `out_sublist_binary`), `header_counts`, `kept_iff_single`,
`kept_iff_union_partial` and `kept_iff_multi_partial` (soundness of `FirstIntersectionSorted` /
`AllIntersection` for every order of the ranges; completeness by correspondence only),
`context_option`, `copy_identity`, `decode_equiv` (+ `decode_equiv_sentence`).
Phrase mode: specification `Tiles` only (tied by correspondence is future work; see
design_notes/C11.md).
-/
namespace KV.C11
open KV.Filter

/-! ## the output is a sublist of the input, verbatim and in order -/

/-- **out_sublist**: the n-gram lines written to file `k` are a sublist of the input lines
(same bytes, same order), provided no line is sent twice to the same file. -/
theorem out_sublist (vs : Item → Verdict) (k : Nat) (items : List Item)
    (h : ∀ it ∈ items, (vs it).copies k ≤ 1) :
    (keptLines vs k items).Sublist (items.map (·.line)) := by
  induction items with
  | nil => simp [keptLines]
  | cons it r ih =>
    have hr := ih (fun x hx => h x (List.mem_cons_of_mem _ hx))
    have hc := h it List.mem_cons_self
    simp only [keptLines, List.flatMap_cons, List.map_cons] at hr ⊢
    rcases Nat.lt_or_ge ((vs it).copies k) 1 with h0 | h1
    · have : (vs it).copies k = 0 := by omega
      rw [this]; simpa using List.Sublist.cons it.line hr
    · have : (vs it).copies k = 1 := by omega
      rw [this]; simpa using List.Sublist.cons₂ it.line hr

/-- copy, single and union send a line to their one output at most once -/
theorem copies_le_one_binary (m : Mode) (o : Opts) (g : Bytes) (k : Nat)
    (hm : ∀ s, m ≠ .multiple s) : (verdict m o g).copies k ≤ 1 := by
  cases m with
  | copy => simp [verdict, Verdict.copies]
  | single V =>
    simp only [verdict, verdictWords]
    split <;> split <;> simp [Verdict.copies]
  | union s =>
    simp only [verdict, verdictWords]
    split <;> split <;> simp [Verdict.copies]
  | multiple s => exact absurd rfl (hm s)

theorem out_sublist_binary (m : Mode) (o : Opts) (items : List Item) (k : Nat) (hm : ∀ s, m ≠ .multiple s) :
    (keptLines (fun it => verdict m o it.ngram) k items).Sublist (items.map (·.line)) :=
  out_sublist _ k items (fun it _ => copies_le_one_binary m o it.ngram k hm)

/-- raw format: the whole output file is the kept lines, each followed by a newline -/
theorem raw_file_eq (items : List Item) (vs : Item → Verdict) (k : Nat) :
    rawFile items vs k = joinLines (keptLines vs k items) := rfl

/-! ## header -/

/-- **header_counts**: the ARPA output starts with the `\data\` header whose count for order
`n` is the number of lines written in section `n`; the space reserved with the input's counts
is padded with newlines; the sections follow with exactly the kept lines. -/
theorem header_counts (a : Arpa) (vs : Item → Verdict) (k : Nat) :
    ∃ pad, arpaFile a vs k =
      countsHeader ((a.orders.map (keptLines vs k)).map List.length) ++ List.replicate pad 10 ++
      sectionsBody 1 (a.orders.map (keptLines vs k)) ++ bEnd ++ [10] :=
  ⟨_, rfl⟩

/-! ## which n-grams are kept -/

/-- **kept_iff_single**: kept iff every word other than a `<tag>` is in the vocabulary -/
theorem kept_iff_single (V : List Bytes) (o : Opts) (g : Bytes) :
    verdict (.single V) o g = .all ↔
      ∀ w ∈ words (if o.context then contextOf g else g), isTag w = true ∨ w ∈ V := by
  simp only [verdict, verdictWords]
  generalize words (if o.context then contextOf g else g) = ws
  have hall : passSingle V ws = true ↔ ∀ w ∈ ws, isTag w = true ∨ w ∈ V := by
    simp [passSingle, List.all_eq_true]
  by_cases hp : passSingle V ws = true
  · simp only [hp, if_true, true_iff]; exact hall.mp hp
  · simp only [hp]
    constructor
    · intro h; cases h
    · intro h; exact absurd (hall.mpr h) hp

/-- in single mode nothing else can happen: a line is written or dropped -/
theorem single_verdict_cases (V : List Bytes) (o : Opts) (g : Bytes) :
    verdict (.single V) o g = .all ∨ verdict (.single V) o g = .only [] := by
  simp only [verdict, verdictWords]; split <;> simp

/-- **kept_iff_union** (partial: the direction "kept ⇒ some sentence contains every non-tag
word", i.e. soundness of `FirstIntersectionSorted` for the order of ranges the driver uses — the
lemma `firstInter_mem` holds for *every* order, which covers `std::sort`'s unspecified ties.
Missing: "some sentence contains them all ⇒ kept" (completeness of the restart loop; needs the
sortedness of posting lists and the fuel bound) — covered by the correspondence run only). -/
theorem kept_iff_union_partial (sents : List (List Bytes)) (o : Opts) (g : Bytes)
    (h : verdict (.union sents) o g = .all) :
    ∃ c : Nat, ∀ w ∈ (words (if o.context then contextOf g else g)).filter (fun w => !isTag w),
      ∃ sent : List Bytes, sents[c]? = some sent ∧ w ∈ sent := by
  simp only [verdict, verdictWords] at h
  generalize words (if o.context then contextOf g else g) = ws at h ⊢
  have hp : passUnion sents ws = true := by
    by_cases hp : passUnion sents ws = true
    · exact hp
    · simp [hp] at h
  clear h
  have h := hp
  unfold passUnion at h
  cases hg : gatherSets sents ws with
  | none => rw [hg] at h; simp at h
  | some sets =>
    rw [hg] at h
    cases sets with
    | nil => exact ⟨sents.length, gatherSets_spec sents ws [] hg sents.length (by intro s hs; cases hs)⟩
    | cons s0 rest =>
      simp only at h
      cases hf : firstInter (sortBySize (s0 :: rest)) with
      | none => rw [hf] at h; simp at h
      | some m =>
        refine ⟨m, gatherSets_spec sents ws _ hg m ?_⟩
        intro s hs
        exact firstInter_mem hf s ((mem_sortBySize s _).mpr hs)

/-- **kept_iff_multi** (partial: "a line is sent to file `s` only if sentence `s` contains every
non-tag word" — soundness of `AllIntersection`; and a line without non-tag words goes to all
files.  Missing: every sentence of the intersection is reported, exactly once — covered by the
correspondence run only). -/
theorem kept_iff_multi_partial (sents : List (List Bytes)) (ws : List Bytes) (ks : List Nat) (s : Nat)
    (h : multiVerdict sents ws = .only ks) (hs : s ∈ ks) :
    ∀ w ∈ ws.filter (fun w => !isTag w), ∃ sent : List Bytes, sents[s]? = some sent ∧ w ∈ sent := by
  unfold multiVerdict at h
  cases hg : gatherSets sents ws with
  | none => rw [hg] at h; simp at h; subst h; cases hs
  | some sets =>
    rw [hg] at h
    cases sets with
    | nil => simp at h
    | cons s0 rest =>
      simp only at h
      injection h with h; subst h
      apply gatherSets_spec sents ws _ hg s
      intro t ht
      exact allInterFuel_mem _ _ s hs t ((mem_sortBySize t _).mpr ht)

/-- **context_option**: with `context` the filter looks at the n-gram without its last word
(everything before the last space at a position > 0) -/
theorem context_option (m : Mode) (g : Bytes) :
    verdict m { context := true } g = verdict m { context := false } (contextOf g) := by
  cases m <;> simp [verdict]

/-- **copy_identity**: copy mode writes every entry -/
theorem copy_identity (o : Opts) (items : List Item) :
    keptLines (fun it => verdict .copy o it.ngram) 0 items = items.map (·.line) := by
  induction items with
  | nil => rfl
  | cons it r ih =>
    simp only [keptLines, List.flatMap_cons, List.map_cons] at ih ⊢
    rw [ih]; simp [verdict, Verdict.copies]

/-! ## decoding with the filtered model

A self-contained back-off model (`Model/Arpa.lean` is not on `main` yet): a model maps an
n-gram (list of words, oldest first) to `(log-prob, back-off)`; `score` is the textbook
recursion, `matched` the length of the longest matching n-gram. -/

abbrev Word := Nat
abbrev LM := List Word → Option (Int × Int)

/-- `score A ctx w`: log p(w | ctx) with back-off; `unk` is the score of an unknown unigram -/
def score (A : LM) (unk : Int) : List Word → Word → Int
  | [], w => match A [w] with
    | some (p, _) => p
    | none => unk
  | c :: ctx, w => match A (c :: ctx ++ [w]) with
    | some (p, _) => p
    | none => (match A (c :: ctx) with | some (_, b) => b | none => 0) + score A unk ctx w

/-- length of the longest n-gram ending in `w` that the model contains -/
def matched (A : LM) : List Word → Word → Nat
  | [], w => match A [w] with
    | some _ => 1
    | none => 0
  | c :: ctx, w => match A (c :: ctx ++ [w]) with
    | some _ => (c :: ctx).length + 1
    | none => matched A ctx w

/-- the model restricted to the kept n-grams -/
def restrict (A : LM) (K : List Word → Bool) : LM := fun g => if K g then A g else none

/-- **decode_equiv**: if every n-gram of the model whose words all pass (`V`: vocabulary ∪
tags, with OOV words already mapped to `<unk>`, which is a tag) is kept, then on every context
and word over `V` the filtered model gives the same score and the same matched length. -/
theorem decode_equiv (A : LM) (K : List Word → Bool) (V : Word → Bool) (unk : Int)
    (hK : ∀ g, (∀ w ∈ g, V w = true) → A g ≠ none → K g = true)
    (ctx : List Word) (w : Word) (hc : ∀ c ∈ ctx, V c = true) (hw : V w = true) :
    score (restrict A K) unk ctx w = score A unk ctx w ∧ matched (restrict A K) ctx w = matched A ctx w := by
  have key : ∀ g, (∀ x ∈ g, V x = true) → restrict A K g = A g := by
    intro g hg
    unfold restrict
    by_cases hA : A g = none
    · rw [hA]; simp
    · rw [if_pos (hK g hg hA)]
  induction ctx with
  | nil =>
    have h1 := key [w] (by intro x hx; simp at hx; rw [hx]; exact hw)
    simp [score, matched, h1]
  | cons c ctx ih =>
    have hc' : ∀ x ∈ ctx, V x = true := fun x hx => hc x (List.mem_cons_of_mem _ hx)
    obtain ⟨ih1, ih2⟩ := ih hc'
    have h1 := key (c :: ctx ++ [w]) (by
      intro x hx
      simp only [List.cons_append, List.mem_cons, List.mem_append, List.not_mem_nil, or_false] at hx
      rcases hx with rfl | hx | rfl
      · exact hc _ List.mem_cons_self
      · exact hc' x hx
      · exact hw)
    have h2 := key (c :: ctx) hc
    simp only [score, matched, h1, h2, ih1, ih2]
    trivial

/-- whole sentences: the sum of the scores over any sentence whose words pass -/
def sentenceScore (A : LM) (unk : Int) (order : Nat) : List Word → List Word → Int
  | _, [] => 0
  | hist, w :: rest =>
    score A unk (hist.drop (hist.length + 1 - order)) w + sentenceScore A unk order (hist ++ [w]) rest

theorem decode_equiv_sentence (A : LM) (K : List Word → Bool) (V : Word → Bool) (unk : Int) (order : Nat)
    (hK : ∀ g, (∀ w ∈ g, V w = true) → A g ≠ none → K g = true)
    (hist sent : List Word) (hh : ∀ c ∈ hist, V c = true) (hs : ∀ c ∈ sent, V c = true) :
    sentenceScore (restrict A K) unk order hist sent = sentenceScore A unk order hist sent := by
  induction sent generalizing hist with
  | nil => rfl
  | cons w rest ih =>
    have hw := hs w List.mem_cons_self
    have hd : ∀ c ∈ hist.drop (hist.length + 1 - order), V c = true :=
      fun c hc => hh c (List.mem_of_mem_drop hc)
    have h1 := (decode_equiv A K V unk hK _ w hd hw).1
    have h2 := ih (hist ++ [w]) (by
      intro c hc
      rcases List.mem_append.mp hc with hc | hc
      · exact hh c hc
      · simp at hc; rw [hc]; exact hw) (fun c hc => hs c (List.mem_cons_of_mem _ hc))
    simp only [sentenceScore, h1, h2]

/-- non-vacuity: a model with a bigram that is dropped, a vocabulary that keeps the rest -/
example :
    let A : LM := fun g => if g = [1] then some (-10, -3) else if g = [2] then some (-20, 0)
                           else if g = [1, 2] then some (-5, 0) else if g = [3] then some (-7, -1)
                           else if g = [3, 1] then some (-2, 0) else none
    let V : Word → Bool := fun w => w = 1 || w = 2
    let K : List Word → Bool := fun g => g.all V
    (∀ g, (∀ w ∈ g, V w = true) → A g ≠ none → K g = true) ∧
      score (restrict A K) (-100) [1] 2 = -5 ∧ score (restrict A K) (-100) [2] 1 = -10 ∧ restrict A K [3, 1] = none := by
  refine ⟨?_, by decide, by decide, by decide⟩
  intro g hg _
  simp only [List.all_eq_true]
  exact hg

/-! ## phrase mode (specification only) -/

/-- `g` can be read off a concatenation of phrases: a (possibly empty) proper suffix of a
phrase, then whole phrases, then a (possibly empty) proper prefix of a phrase — or `g` is a
substring of one phrase. -/
def Tiles (phrases : List (List Bytes)) (g : List Bytes) : Prop :=
  (∃ p ∈ phrases, ∃ a b, p = a ++ g ++ b) ∨
  (∃ (suf : List Bytes) (mid : List (List Bytes)) (pre : List Bytes), g = suf ++ mid.flatten ++ pre ∧ (∀ m ∈ mid, m ∈ phrases) ∧
     (suf = [] ∨ ∃ p ∈ phrases, ∃ a, p = a ++ suf) ∧ (pre = [] ∨ ∃ p ∈ phrases, ∃ b, p = pre ++ b))

end KV.C11
