import Proofs.Interp
import Mathlib.Analysis.SpecialFunctions.Pow.Real
import Mathlib.Analysis.SpecialFunctions.Log.Base
/-!
The real-number twin of the linear-domain model (C13): `E q = 10^q` with Mathlib's `Real.rpow`.
Noncomputable; used only in theorems.
-/
namespace KV.Interp

/-- `x ↦ 10^x` on the exact rational log-scores -/
noncomputable def E10 (q : ℚ) : ℝ := (10 : ℝ) ^ (q : ℝ)

theorem isExp_E10 : IsExp E10 where
  add a b := by
    unfold E10
    rw [Rat.cast_add, Real.rpow_add (by norm_num)]
  zero := by simp [E10]

theorem E10_pos (q : ℚ) : 0 < E10 q := Real.rpow_pos_of_pos (by norm_num) _

theorem logb_E10 (q : ℚ) : Real.logb 10 (E10 q) = (q : ℝ) := by
  unfold E10
  rw [Real.logb_rpow (by norm_num) (by norm_num)]

section
variable {W : Type} [DecidableEq W]

/-- the defining normaliser is strictly positive as soon as the vocabulary has a word besides `<s>` -/
theorem Zdirect_pos (cs : Comps W) (V : List W) (bos : W) (c : List W)
    (hne : V.filter (fun w => decide (w ≠ bos)) ≠ []) : 0 < Zdirect E10 cs V bos c := by
  unfold Zdirect
  apply List.sum_pos
  · intro x hx
    rw [List.mem_map] at hx
    obtain ⟨w, _, rfl⟩ := hx
    exact E10_pos _
  · intro h
    exact hne (List.map_eq_nil_iff.1 h)

/-- a single term never exceeds the whole sum -/
theorem term_le_Zdirect (cs : Comps W) (V : List W) (bos : W) (c : List W) (w : W)
    (hw : w ∈ V.filter (fun w => decide (w ≠ bos))) :
    E10 (usum cs c w) ≤ Zdirect E10 cs V bos c := by
  unfold Zdirect
  apply List.single_le_sum
  · intro x hx
    rw [List.mem_map] at hx
    obtain ⟨w', _, rfl⟩ := hx
    exact le_of_lt (E10_pos _)
  · exact List.mem_map.2 ⟨w, hw, rfl⟩

end
end KV.Interp
