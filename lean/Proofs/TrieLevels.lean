import Model.TrieLM
/-! Combinatorics of the level-by-level trie builder `TrieLM.ofTable`: sorted children, positions of children in the next
level (`startOf`), running next pointers (`childStarts`), membership and uniqueness of keys in levels. -/
namespace KV.TrieLM

/-! ## sortNat -/
theorem mem_insertNat (x y : Nat) (l : List Nat) : y ∈ insertNat x l ↔ y = x ∨ y ∈ l := by
  induction l with
  | nil => simp [insertNat]
  | cons h t ih =>
    unfold insertNat
    split
    · simp
    · simp only [List.mem_cons, ih]
      constructor
      · rintro (h1 | h1 | h1) <;> simp [h1]
      · rintro (h1 | h1 | h1) <;> simp [h1]

theorem mem_sortNat (l : List Nat) (y : Nat) : y ∈ sortNat l ↔ y ∈ l := by
  induction l with
  | nil => simp [sortNat]
  | cons x xs ih => show y ∈ insertNat x (sortNat xs) ↔ _; rw [mem_insertNat, ih]; simp

theorem sorted_insertNat (x : Nat) (l : List Nat) (h : l.Pairwise (· ≤ ·)) : (insertNat x l).Pairwise (· ≤ ·) := by
  induction l with
  | nil => simp [insertNat]
  | cons y ys ih =>
    have hp := List.pairwise_cons.mp h
    unfold insertNat
    by_cases hxy : x ≤ y
    · rw [if_pos hxy]
      refine List.pairwise_cons.mpr ⟨?_, h⟩
      intro z hz
      rcases List.mem_cons.mp hz with e | e
      · omega
      · have := hp.1 z e; omega
    · rw [if_neg hxy]
      refine List.pairwise_cons.mpr ⟨?_, ih hp.2⟩
      intro z hz
      rcases (mem_insertNat x z ys).mp hz with e | e
      · omega
      · exact hp.1 z e

theorem sorted_sortNat (l : List Nat) : (sortNat l).Pairwise (· ≤ ·) := by
  induction l with
  | nil => simp [sortNat]
  | cons x xs ih => exact sorted_insertNat x _ ih

theorem length_insertNat (x : Nat) (l : List Nat) : (insertNat x l).length = l.length + 1 := by
  induction l with
  | nil => rfl
  | cons y ys ih => unfold insertNat; split <;> simp [ih]

theorem nodup_insertNat (x : Nat) (l : List Nat) (h : l.Nodup) (hx : x ∉ l) : (insertNat x l).Nodup := by
  induction l with
  | nil => simp [insertNat]
  | cons y ys ih =>
    have hn := List.nodup_cons.mp h
    unfold insertNat
    split
    · exact List.nodup_cons.mpr ⟨hx, h⟩
    · refine List.nodup_cons.mpr ⟨?_, ih hn.2 (fun h' => hx (List.mem_cons_of_mem _ h'))⟩
      intro hm
      rcases (mem_insertNat x y ys).mp hm with e | e
      · exact hx (by rw [e]; simp)
      · exact hn.1 e

theorem nodup_sortNat (l : List Nat) (h : l.Nodup) : (sortNat l).Nodup := by
  induction l with
  | nil => simp [sortNat]
  | cons x xs ih =>
    have hn := List.nodup_cons.mp h
    exact nodup_insertNat x _ (ih hn.2) (fun hm => hn.1 ((mem_sortNat xs x).mp hm))

/-! ## positions of children in the next level -/

/-- number of records of the next level that belong to the first `j` records of `lvl` -/
def startOf (bt : BT) (lvl : List (List Nat)) (j : Nat) : Nat := ((lvl.take j).map fun g => (childrenOf bt g).length).sum

theorem startOf_succ (bt : BT) (lvl : List (List Nat)) (j : Nat) (hj : j < lvl.length) :
    startOf bt lvl (j + 1) = startOf bt lvl j + (childrenOf bt lvl[j]).length := by
  unfold startOf
  rw [List.take_succ_eq_append_getElem hj, List.map_append, List.sum_append]
  simp

theorem length_nextLevel (bt : BT) (lvl : List (List Nat)) : (nextLevel bt lvl).length = startOf bt lvl lvl.length := by
  unfold nextLevel startOf
  rw [List.take_length]
  induction lvl with
  | nil => rfl
  | cons g rest ih => simp [List.flatMap_cons, ih]

/-- record `startOf j + i` of the next level is the `i`-th child of record `j` -/
theorem nextLevel_getElem (bt : BT) : ∀ (lvl : List (List Nat)) (j i : Nat) (hj : j < lvl.length)
    (hi : i < (childrenOf bt lvl[j]).length),
    (nextLevel bt lvl)[startOf bt lvl j + i]? = some (lvl[j] ++ [(childrenOf bt lvl[j])[i]])
  | [], j, _, hj, _ => by simp at hj
  | g :: rest, 0, i, _, hi => by
    simp only [nextLevel, List.flatMap_cons, startOf, List.take_zero, List.map_nil, List.sum_nil, Nat.zero_add]
    rw [List.getElem?_append_left (by simpa using hi)]
    simp at hi ⊢
  | g :: rest, j+1, i, hj, hi => by
    have hj' : j < rest.length := by simpa using hj
    have ih := nextLevel_getElem bt rest j i hj' (by simpa using hi)
    have hs : startOf bt (g :: rest) (j + 1) = (childrenOf bt g).length + startOf bt rest j := by
      simp [startOf]
    simp only [nextLevel, List.flatMap_cons] at ih ⊢
    rw [hs, List.getElem?_append_right (by simp; omega)]
    simp only [List.length_map, List.getElem_cons_succ]
    have : (childrenOf bt g).length + startOf bt rest j + i - (childrenOf bt g).length = startOf bt rest j + i := by omega
    rw [this]; exact ih

def IsKey (bt : BT) (g : List Nat) : Prop := ∃ p ∈ bt, p.1 = g

theorem lookup_ne_none_iff (bt : BT) (g : List Nat) : bt.lookup g ≠ none ↔ IsKey bt g := by
  induction bt with
  | nil => simp [List.lookup, IsKey]
  | cons p ps ih =>
    obtain ⟨k, v⟩ := p
    by_cases hk : g = k
    · subst hk
      simp [List.lookup, IsKey]
    · have : (g == k) = false := by simpa using hk
      simp only [List.lookup, this, ih, IsKey, List.mem_cons]
      constructor
      · rintro ⟨q, hq, e⟩; exact ⟨q, Or.inr hq, e⟩
      · rintro ⟨q, hq | hq, e⟩
        · subst hq; exact absurd e.symm hk
        · exact ⟨q, hq, e⟩

theorem split_last (l g : List Nat) (w : Nat) : (l.length = g.length + 1 ∧ l.dropLast = g ∧ l.getLast? = some w) ↔ l = g ++ [w] := by
  constructor
  · rintro ⟨_, h2, h3⟩
    have hne : l ≠ [] := by intro e; rw [e] at h3; simp at h3
    have h4 : l.getLast hne = w := by
      rw [List.getLast?_eq_some_getLast hne] at h3; exact Option.some.inj h3
    have := List.dropLast_concat_getLast hne
    rw [h2, h4] at this; exact this.symm
  · rintro rfl; simp

theorem mem_childrenOf (bt : BT) (g : List Nat) (w : Nat) : w ∈ childrenOf bt g ↔ IsKey bt (g ++ [w]) := by
  unfold childrenOf
  rw [mem_sortNat, List.mem_filterMap]
  constructor
  · rintro ⟨p, hp, h⟩
    split at h
    · rename_i hc
      exact ⟨p, hp, (split_last p.1 g w).mp ⟨hc.1, hc.2, h⟩⟩
    · cases h
  · rintro ⟨p, hp, e⟩
    refine ⟨p, hp, ?_⟩
    have := (split_last p.1 g w).mpr e
    rw [if_pos ⟨this.1, this.2.1⟩]; exact this.2.2

theorem childStarts_fold (bt : BT) (l : List (List Nat)) : ∀ (acc : List Nat) (n : Nat),
    l.foldl (fun (a : List Nat × Nat) g => (a.1 ++ [a.2], a.2 + (childrenOf bt g).length)) (acc, n)
      = (acc ++ (List.range l.length).map (fun j => n + startOf bt l j), n + startOf bt l l.length) := by
  induction l with
  | nil => intro acc n; simp [startOf]
  | cons g rest ih =>
    intro acc n
    rw [List.foldl_cons, ih]
    have h1 : ∀ j, startOf bt (g :: rest) (j + 1) = (childrenOf bt g).length + startOf bt rest j := by
      intro j; simp [startOf]
    have h0 : startOf bt (g :: rest) 0 = 0 := by simp [startOf]
    simp only [List.length_cons, List.range_succ_eq_map, List.map_cons, List.map_map, h0, Nat.add_zero, List.append_assoc,
      List.singleton_append, h1]
    congr 1
    · congr 2
      apply List.map_congr_left
      intro j _
      simp only [Function.comp, h1]; omega
    · omega

theorem childStarts_getD (bt : BT) (lvl : List (List Nat)) (j : Nat) (hj : j ≤ lvl.length) :
    (childStarts bt lvl).getD j 0 = startOf bt lvl j := by
  unfold childStarts
  rw [childStarts_fold]
  have hsum : (lvl.map fun g => (childrenOf bt g).length).sum = startOf bt lvl lvl.length := by
    simp [startOf]
  simp only [List.nil_append, Nat.zero_add, hsum, List.getD_eq_getElem?_getD]
  by_cases h : j < lvl.length
  · rw [List.getElem?_append_left (by simpa using h)]
    simp [h]
  · have : j = lvl.length := by omega
    subst this
    rw [List.getElem?_append_right (by simp)]
    simp


/-- well-formedness of a bit table for the builder: what `buildTable` delivers (unique keys, all unigrams, words below the
bound, every entry's parent present = suffix closure after blank insertion) -/
structure BTOK (bt : BT) (bound order : Nat) : Prop where
  order2 : 2 ≤ order
  nodup : (bt.map (·.1)).Nodup
  len : ∀ p ∈ bt, 1 ≤ p.1.length ∧ p.1.length ≤ order
  words : ∀ p ∈ bt, ∀ w ∈ p.1, w < bound
  unigrams : ∀ w, w < bound → IsKey bt [w]
  parent : ∀ p ∈ bt, 2 ≤ p.1.length → IsKey bt p.1.dropLast

theorem nodup_childrenOf (bt : BT) (hn : (bt.map (·.1)).Nodup) (g : List Nat) : (childrenOf bt g).Nodup := by
  unfold childrenOf
  apply nodup_sortNat
  have e : (bt.filterMap fun p => if p.1.length = g.length + 1 ∧ p.1.dropLast = g then p.1.getLast? else none)
      = (bt.map (·.1)).filterMap (fun k => if k.length = g.length + 1 ∧ k.dropLast = g then k.getLast? else none) := by
    rw [List.filterMap_map]; rfl
  rw [e]
  refine List.Pairwise.filterMap _ ?_ hn
  intro k k' hkk w h1 w' h2 hww
  subst hww
  apply hkk
  split at h1
  · rename_i c1
    split at h2
    · rename_i c2
      have e1 := (split_last k g w).mp ⟨c1.1, c1.2, h1⟩
      have e2 := (split_last k' g w).mp ⟨c2.1, c2.2, h2⟩
      rw [e1, e2]
    · cases h2
  · cases h1

theorem mem_level (bt : BT) (bound order : Nat) (ok : BTOK bt bound order) :
    ∀ k, 1 ≤ k → ∀ g, g ∈ level bt bound k ↔ (IsKey bt g ∧ g.length = k) := by
  intro k hk
  induction k with
  | zero => omega
  | succ k ih =>
    intro g
    cases k with
    | zero =>
      show g ∈ (List.range bound).map (fun w => [w]) ↔ _
      simp only [List.mem_map, List.mem_range]
      constructor
      · rintro ⟨w, hw, rfl⟩; exact ⟨ok.unigrams w hw, rfl⟩
      · rintro ⟨⟨p, hp, e⟩, hl⟩
        match g, hl with
        | [w], _ => exact ⟨w, ok.words p hp w (by rw [e]; simp), rfl⟩
    | succ k =>
      have ih' := ih (by omega)
      show g ∈ nextLevel bt (level bt bound (k + 1)) ↔ _
      simp only [nextLevel, List.mem_flatMap, List.mem_map]
      constructor
      · rintro ⟨h, hh, w, hw, rfl⟩
        exact ⟨(mem_childrenOf bt h w).mp hw, by simp [((ih' h).mp hh).2]⟩
      · rintro ⟨⟨p, hp, e⟩, hl⟩
        have hne : g ≠ [] := by intro e'; rw [e'] at hl; simp at hl
        have hsplit : g = g.dropLast ++ [g.getLast hne] := (List.dropLast_concat_getLast hne).symm
        have hpar : IsKey bt g.dropLast := by rw [← e]; exact ok.parent p hp (by rw [e]; omega)
        refine ⟨g.dropLast, (ih' _).mpr ⟨hpar, by simp [hl]⟩, g.getLast hne, ?_, hsplit.symm⟩
        rw [mem_childrenOf, ← hsplit]; exact ⟨p, hp, e⟩

theorem nodup_level (bt : BT) (bound : Nat) (hn : (bt.map (·.1)).Nodup) : ∀ k, (level bt bound k).Nodup := by
  intro k
  induction k with
  | zero => simp [level]
  | succ k ih =>
    cases k with
    | zero =>
      show ((List.range bound).map (fun w => [w])).Nodup
      refine List.Pairwise.map _ ?_ List.nodup_range
      intro a b hab h; exact hab (by simpa using h)
    | succ k =>
      show (nextLevel bt (level bt bound (k + 1))).Nodup
      unfold nextLevel
      show List.Pairwise (· ≠ ·) _
      rw [List.pairwise_flatMap]
      constructor
      · intro g _
        refine List.Pairwise.map _ ?_ (nodup_childrenOf bt hn g)
        intro a b hab h; exact hab (by simpa using h)
      · refine List.Pairwise.imp ?_ ih
        intro a b hab x hx1 y hx2 hxy
        simp only [List.mem_map] at hx1 hx2
        obtain ⟨w1, _, rfl⟩ := hx1
        obtain ⟨w2, _, rfl⟩ := hx2
        have := congrArg List.dropLast hxy
        simp at this
        exact hab this


theorem level_succ (bt : BT) (bound k : Nat) (hk : 1 ≤ k) : level bt bound (k + 1) = nextLevel bt (level bt bound k) := by
  cases k with
  | zero => omega
  | succ k => rfl

theorem idxOf_getElem_nodup {l : List (List Nat)} (hn : l.Nodup) (i : Nat) (hi : i < l.length) : l.idxOf l[i] = i := by
  induction l generalizing i with
  | nil => simp at hi
  | cons x xs ih =>
    have hp := List.nodup_cons.mp hn
    cases i with
    | zero => simp
    | succ i =>
      have hi' : i < xs.length := by simpa using hi
      have hne : ¬ (x == xs[i]) = true := by
        intro h; have : x = xs[i] := by simpa using h
        exact hp.1 (this ▸ List.getElem_mem hi')
      simp only [List.getElem_cons_succ, List.idxOf_cons]
      simp [hne, ih hp.2 i hi']

/-- where a key sits and where its children sit -/
theorem key_position (bt : BT) (bound order : Nat) (ok : BTOK bt bound order) (g : List Nat) (hg : IsKey bt g) :
    ∃ j, ∃ hj : j < (level bt bound g.length).length, (level bt bound g.length)[j] = g ∧
      (level bt bound g.length).idxOf g = j ∧
      rngOf bt bound g = (startOf bt (level bt bound g.length) j,
                          startOf bt (level bt bound g.length) j + (childrenOf bt g).length) := by
  obtain ⟨p, hp, e⟩ := hg
  have hlen : 1 ≤ g.length := by rw [← e]; exact (ok.len p hp).1
  have hmem : g ∈ level bt bound g.length := (mem_level bt bound order ok g.length hlen g).mpr ⟨⟨p, hp, e⟩, rfl⟩
  obtain ⟨j, hj, hjg⟩ := List.getElem_of_mem hmem
  have hidx : (level bt bound g.length).idxOf g = j := by
    have := idxOf_getElem_nodup (nodup_level bt bound ok.nodup g.length) j hj
    rw [hjg] at this; exact this
  refine ⟨j, hj, hjg, hidx, ?_⟩
  unfold rngOf
  simp only [hidx]
  rw [childStarts_getD _ _ j (by omega), childStarts_getD _ _ (j + 1) (by omega), startOf_succ _ _ j hj, hjg]

/-- the `t`-th child of the key at index `j` of level `k` is record `startOf j + t` of level `k+1`, and that is its index -/
theorem child_position (bt : BT) (bound order : Nat) (ok : BTOK bt bound order) (k j t : Nat) (hk : 1 ≤ k)
    (hj : j < (level bt bound k).length) (ht : t < (childrenOf bt (level bt bound k)[j]).length) :
    ∃ hi : startOf bt (level bt bound k) j + t < (level bt bound (k + 1)).length,
      (level bt bound (k + 1))[startOf bt (level bt bound k) j + t] =
        (level bt bound k)[j] ++ [(childrenOf bt (level bt bound k)[j])[t]] ∧
      (level bt bound (k + 1)).idxOf ((level bt bound k)[j] ++ [(childrenOf bt (level bt bound k)[j])[t]])
        = startOf bt (level bt bound k) j + t := by
  have h := nextLevel_getElem bt (level bt bound k) j t hj ht
  rw [← level_succ bt bound k hk] at h
  obtain ⟨hi, he⟩ := List.getElem?_eq_some_iff.mp h
  refine ⟨hi, he, ?_⟩
  rw [← he]
  exact idxOf_getElem_nodup (nodup_level bt bound ok.nodup _) _ hi


end KV.TrieLM
