import Proofs.ProbingBuildFold
/-! From the general (blank-aware) invariant at the end of the file to `Represents (Table.build a)`. -/
namespace KV.ProbingBuild
open KV.Arpa KV.Table KV.Score KV.ProbingLM

theorem isContext_iff (a : Arpa) (c : List Word) :
    isContext a c = true ↔ ∃ p, a.gram p ≠ none ∧ c.length < p.length ∧ c <+: p.tail := by
  unfold isContext
  rw [List.any_eq_true]
  constructor
  · rintro ⟨⟨k, e⟩, hmem, h⟩
    simp only [Bool.and_eq_true, decide_eq_true_eq, List.isPrefixOf_iff_prefix] at h
    exact ⟨k, mem_lookup_ne_none _ _ _ hmem, h.1, h.2⟩
  · rintro ⟨p, hp, hl, hpre⟩
    obtain ⟨e, he⟩ := Option.ne_none_iff_exists'.mp hp
    exact ⟨(p, e), lookup_some_mem _ _ _ he, by simp [hl, List.isPrefixOf_iff_prefix, hpre]⟩

/-- the stored keys at the end of the file -/
structure Final (a : Arpa) (Sf : List Key) : Prop where
  si : SInv a Sf
  reals : ∀ k, a.gram k ≠ none → 2 ≤ k.length → k ∈ Sf

theorem Final.key_mem {a : Arpa} {Sf : List Key} (f : Final a Sf) (k : Key) (hk : IsKey a k) (h2 : 2 ≤ k.length) : k ∈ Sf := by
  rcases hk.2 with hr | hx
  · exact f.reals k hr h2
  · obtain ⟨p, hp, hl, hpre⟩ := (extendsLeft_iff _ _).mp hx
    have hpS := f.reals p hp (by omega)
    have := f.si.take_mem p hpS (p.length - k.length) k.length (by omega) h2
    rw [← List.prefix_iff_eq_take.mp hpre] at this
    exact this

theorem endsInK_final {a : Arpa} {Sf : List Key} (f : Final a Sf) (g : Key) (hg : g ≠ []) : endsInK Sf g = extendsLeft a g := by
  have hgl : 1 ≤ g.length := by cases g with | nil => exact absurd rfl hg | cons _ _ => simp
  apply Bool.eq_iff_iff.mpr
  rw [extendsLeft_iff]
  unfold endsInK
  rw [List.any_eq_true]
  constructor
  · rintro ⟨k, hk, h⟩
    simp only [Bool.and_eq_true, beq_iff_eq] at h
    have hpre : g <+: k := by rw [← h.2]; exact List.take_prefix _ _
    rcases (f.si.keys k hk).2 with hr | hx
    · exact ⟨k, hr, by omega, hpre⟩
    · obtain ⟨p, hp, hl, hkp⟩ := (extendsLeft_iff _ _).mp hx
      exact ⟨p, hp, by omega, List.IsPrefix.trans hpre hkp⟩
  · rintro ⟨p, hp, hl, hpre⟩
    have hkp : IsKey a p := ⟨by intro h; rw [h] at hl; simp at hl, Or.inl hp⟩
    have hk := f.key_mem (p.take (g.length + 1)) (isKey_take a p hkp _ (by omega) (by omega)) (by rw [List.length_take]; omega)
    refine ⟨_, hk, ?_⟩
    simp only [Bool.and_eq_true, beq_iff_eq]
    refine ⟨by rw [List.length_take]; omega, ?_⟩
    rw [List.take_take]
    have : min g.length (g.length + 1) = g.length := by omega
    rw [this]; exact (List.prefix_iff_eq_take.mp hpre).symm

theorem startsWithK_final {a : Arpa} {Sf : List Key} (f : Final a Sf) (g : Key) (hg : g ≠ []) : startsWithK Sf g = isContext a g := by
  have hgl : 1 ≤ g.length := by cases g with | nil => exact absurd rfl hg | cons _ _ => simp
  apply Bool.eq_iff_iff.mpr
  rw [isContext_iff]
  unfold startsWithK
  rw [List.any_eq_true]
  constructor
  · rintro ⟨k, hk, h⟩
    simp only [Bool.and_eq_true, beq_iff_eq] at h
    have hkne : k ≠ [] := by intro hn; rw [hn] at h; simp at h
    have key : ∀ p, k <+: p → g <+: p.tail := by
      rintro p ⟨t, rfl⟩
      cases k with
      | nil => exact absurd rfl hkne
      | cons x k' =>
        have : g = k' := by rw [← h.2]; rfl
        subst this
        exact ⟨t, rfl⟩
    rcases (f.si.keys k hk).2 with hr | hx
    · exact ⟨k, hr, by omega, key k (List.prefix_refl _)⟩
    · obtain ⟨p, hp, hl, hkp⟩ := (extendsLeft_iff _ _).mp hx
      exact ⟨p, hp, by omega, key p hkp⟩
  · rintro ⟨p, hp, hl, hpre⟩
    have hkp : IsKey a p := ⟨by intro h; rw [h] at hl; simp at hl, Or.inl hp⟩
    have hk := f.key_mem (p.take (g.length + 1)) (isKey_take a p hkp _ (by omega) (by omega)) (by rw [List.length_take]; omega)
    refine ⟨_, hk, ?_⟩
    simp only [Bool.and_eq_true, beq_iff_eq]
    refine ⟨by rw [List.length_take]; omega, ?_⟩
    rw [take_drop_one p _ (by omega)]
    have : g.length + 1 - 1 = g.length := by omega
    rw [this, List.drop_one]
    exact (List.prefix_iff_eq_take.mp hpre).symm

end KV.ProbingBuild

namespace KV.ProbingBuild
open KV.Arpa KV.Table KV.Score KV.ProbingLM

theorem stored_of_G {combine : Nat → Word → Nat} {a : Arpa} {nWords : Nat} {um : Rat} (ok : ArpaOK' a nWords um)
    {Sf : List Key} (f : Final a Sf) {m cap : Nat} {o : Ord} {M : Nat → Option Nat} (sem : OrdG combine a Sf m cap o M)
    (g : List Word) (t : TEntry) (hl : g.length = m) (h2 : 2 ≤ m) (ht : (KV.Table.build a).lookup g = some t) :
    ∃ j, M (hashOf combine g) = some j ∧ wFound false (o.pay.getD j default) = toFound t := by
  have hne : (KV.Table.build a).lookup g ≠ none := by rw [ht]; simp
  have hkey : IsKey a g := (build_lookup_ne_none a _ g).mp hne
  obtain ⟨j, hj, hje, hk⟩ := sem.find_mem g (f.key_mem g hkey (by omega)) hl
  have hp := sem.pay j hj
  rw [hje] at hp
  refine ⟨j, hk, ?_⟩
  rw [hp]
  have hgne := hkey.1
  have hE := endsInK_final f g hgne
  have hS := startsWithK_final f g hgne
  cases g with
  | nil => exact absurd rfl hgne
  | cons w ctx =>
    have hne0 : ((w :: ctx) == [0]) = false := by
      cases ctx with
      | nil => simp at hl; omega
      | cons _ _ => simp
    cases hg : a.gram (w :: ctx) with
    | some e =>
      simp only [KV.Table.build, hg] at ht
      injection ht with ht
      subst ht
      simp only [wFound, toFound, wantW, baseW, hg, lineW, hE, hS, neg_abs_of_nonpos _ (ok.nonpos _ e hg), hne0,
        Bool.and_false, Bool.or_false, Bool.true_and, Bool.false_eq_true, if_false]
      simp
      by_cases hb : e.backoff = 0 <;> simp [hb]
    | none =>
      have hx : extendsLeft a (w :: ctx) = true := by
        rcases hkey.2 with h | h
        · exact absurd hg h
        · exact h
      simp only [KV.Table.build, hg, hx, if_true] at ht
      injection ht with ht
      subst ht
      have hsc := ok.proper (w :: ctx) hkey hg
      simp only [List.tail_cons, List.headD_cons] at hsc
      simp only [wFound, toFound, wantW, baseW, hg, hE, hS, hx, List.tail_cons, List.headD_cons,
        neg_abs_of_nonpos _ hsc, Bool.true_and, Bool.not_true, Bool.false_or, Bool.false_eq_true, if_false, Bool.not_false,
        Bool.and_true]

theorem only_of_G {combine : Nat → Word → Nat} {a : Arpa} {Sf : List Key} (f : Final a Sf) {m cap : Nat} {o : Ord} {M : Nat → Option Nat}
    (sem : OrdG combine a Sf m cap o M) (k v : Nat) (h : M k = some v) :
    ∃ g, g.length = m ∧ hashOf combine g = k ∧ (KV.Table.build a).lookup g ≠ none := by
  obtain ⟨hj, hk⟩ := sem.only k v h
  have hmem := List.getElem_mem hj
  refine ⟨_, keysOf_len _ _ _ hmem, hk.symm, ?_⟩
  rw [build_lookup_ne_none]
  exact f.si.keys _ (keysOf_mem _ _ _ hmem)

theorem uni_of_G {a : Arpa} {nWords : Nat} {um : Rat} (ok : ArpaOK' a nWords um) {Sf : List Key} (f : Final a Sf) (s : St)
    (sem : UniG (initUni a nWords) Sf s.uni) (w : Word) :
    wFound false ((fixUnk a um s).uni.getD w default) = ((tableSearch (KV.Table.build a)).lookupUnigram w).1 := by
  have hval := sem.val w
  have hE1 := endsInK_final f [w] (by simp)
  have hE2 := startsWithK_final f [w] (by simp)
  have hlen : s.uni.length = nWords := by rw [sem.len]; simp [initUni]
  cases hg : a.gram [w] with
  | none =>
    have hw : ¬ w < nWords := fun h => (ok.vocab w).mp h hg
    have hxl : extendsLeft a [w] = false := by
      cases hx : extendsLeft a [w] with
      | false => rfl
      | true =>
        obtain ⟨p, hp, _, ⟨ys, hys⟩⟩ := (extendsLeft_iff _ _).mp hx
        exact absurd hg (ok.words p hp w (by rw [← hys]; simp))
    have hic : isContext a [w] = false := by
      cases hx : isContext a [w] with
      | false => rfl
      | true =>
        obtain ⟨p, hp, hl, ⟨ys, hys⟩⟩ := (isContext_iff _ _).mp hx
        have : w ∈ p := by
          cases p with
          | nil => simp at hl
          | cons x t => simp only [List.tail_cons] at hys; rw [← hys]; simp
        exact absurd hg (ok.words p hp w this)
    have hw0 : ¬ (w = 0 ∧ a.unkHallucinated = true) := by
      intro ⟨h0, hu⟩
      obtain ⟨e, he, _⟩ := ok.unk hu
      subst h0; rw [hg] at he; cases he
    have hfix : (fixUnk a um s).uni.getD w default = s.uni.getD w default := by
      unfold fixUnk
      by_cases hu : a.unkHallucinated = true
      · simp only [hu, if_true, St.modify, getD_set]
        have : ¬ (w = 0 ∧ 0 < s.uni.length) := fun ⟨h0, _⟩ => hw0 ⟨h0, hu⟩
        simp [this]
      · simp [hu]
    rw [hfix, hval, initUni_getD_ge a nWords w hw]
    have hl : (KV.Table.build a).lookup [w] = none := by simp [KV.Table.build, hg, hxl]
    simp only [tableSearch, hl, expU, hE1, hE2, hxl, hic, wFound]
    simp [default]
  | some e =>
    have hw : w < nWords := (ok.vocab w).mpr (by rw [hg]; simp)
    have hl : (KV.Table.build a).lookup [w] = some (realT a [w] e) := by
      simp [KV.Table.build, hg, realT]
    simp only [tableSearch, hl, toFound, realT]
    have hnp := ok.nonpos _ e hg
    by_cases hu0 : w = 0 ∧ a.unkHallucinated = true
    · obtain ⟨h0, hu⟩ := hu0
      subst h0
      obtain ⟨e', he', hp', hb'⟩ := ok.unk hu
      rw [hg] at he'; cases he'
      have hfix : (fixUnk a um s).uni.getD 0 default =
          { (s.uni.getD 0 default) with backoff := 0, xr := true, mag := um.abs, neg := (s.uni.getD 0 default).neg } := by
        unfold fixUnk
        simp only [hu, if_true, St.modify, getD_set]
        have : (0 = 0 ∧ 0 < s.uni.length) := ⟨rfl, by rw [hlen]; exact hw⟩
        simp [this]
      rw [hfix, hval, initUni_getD_lt a nWords 0 hw e hg]
      simp only [hu, beq_self_eq_true, Bool.and_self, if_true, wFound, expU, hE1, hE2, hp', hb',
        neg_abs_of_nonpos _ ok.umle, Bool.true_and, Bool.true_or, Bool.false_eq_true, if_false]
      simp
    · have hfix : (fixUnk a um s).uni.getD w default = s.uni.getD w default := by
        unfold fixUnk
        by_cases hu : a.unkHallucinated = true
        · simp only [hu, if_true, St.modify, getD_set]
          have : ¬ (w = 0 ∧ 0 < s.uni.length) := fun ⟨h0, _⟩ => hu0 ⟨h0, hu⟩
          simp [this]
        · simp [hu]
      rw [hfix, hval, initUni_getD_lt a nWords w hw e hg]
      have hcond : (w == 0 && a.unkHallucinated) = false := by
        cases hw0 : (w == 0) <;> cases hu : a.unkHallucinated <;> simp_all
      have hcond2 : (a.unkHallucinated && ([w] == [0])) = false := by
        cases hu : a.unkHallucinated <;> simp_all
      simp only [hcond, Bool.false_eq_true, if_false, wFound, expU, hE1, hE2, hcond2, Bool.or_false,
        neg_abs_of_nonpos _ hnp, Bool.true_and]
      simp
      by_cases hb : e.backoff = 0 <;> simp [hb]

end KV.ProbingBuild

namespace KV.ProbingBuild
open KV.Arpa KV.Table KV.Score KV.ProbingLM

theorem lookup_of_mem_nodup {β} (l : List (List Word × β)) (hnd : (l.map (·.1)).Nodup) (k : List Word) (v : β)
    (h : (k, v) ∈ l) : l.lookup k = some v := by
  induction l with
  | nil => cases h
  | cons p l ih =>
    obtain ⟨k', v'⟩ := p
    simp only [List.map_cons, List.nodup_cons] at hnd
    rw [List.lookup_cons]
    rcases List.mem_cons.mp h with h1 | hm
    · cases h1; simp
    · have hne : k ≠ k' := by
        intro he; subst he
        exact hnd.1 (List.mem_map.mpr ⟨(k, v), hm, rfl⟩)
      have : (k == k') = false := by simpa using hne
      rw [this]
      exact ih hnd.2 hm

/-- **the general invariant at the end of the file implies `Represents`** -/
theorem represents_of_invG (combine : Nat → Word → Nat) (a : Arpa) (nWords : Nat) (um : Rat) (ok : ArpaOK' a nWords um)
    (caps : Nat → Nat) (Sf : List Key) (f : Final a Sf) (s : St)
    (inv : InvG combine a (initUni a nWords) a.order caps Sf s) :
    ∃ Mmid Mlong, Represents combine (toPLM false a.order (fixUnk a um s)) (KV.Table.build a) Mmid Mlong := by
  have hN := ok.wf.order_ge
  have hmid : ∀ om2, om2 + 2 < a.order → tbl a.order s (om2 + 2) = s.mid.getD om2 default := by
    intro om2 h
    unfold tbl
    have : ¬ om2 + 2 = a.order := by omega
    simp [this]
  have hlong : tbl a.order s a.order = s.longest := by unfold tbl; simp
  have hex : ∀ om2, om2 + 2 < a.order →
      ∃ M, OrdG combine a Sf (om2 + 2) (caps (om2 + 2)) (s.mid.getD om2 default) M := by
    intro om2 h
    obtain ⟨M, sem⟩ := inv.tabs (om2 + 2) (by omega) (by omega)
    rw [hmid om2 h] at sem
    exact ⟨M, sem⟩
  let Mmid : Nat → Nat → Option Nat := fun om2 =>
    if h : om2 + 2 < a.order then Classical.choose (hex om2 h) else fun _ => none
  have hMmid : ∀ om2 (h : om2 + 2 < a.order), OrdG combine a Sf (om2 + 2) (caps (om2 + 2)) (s.mid.getD om2 default) (Mmid om2) := by
    intro om2 h
    have := Classical.choose_spec (hex om2 h)
    simp only [Mmid, h, dif_pos]
    exact this
  obtain ⟨Mlong, semL⟩ := inv.tabs a.order hN (Nat.le_refl _)
  rw [hlong] at semL
  refine ⟨Mmid, Mlong, ⟨rfl, ?_, ?_, ?_, ?_, ?_, ?_, ?_⟩⟩
  · intro w
    exact uni_of_G ok f s inv.uni w
  · intro om2
    show KV.Probing.Inv id ((fixUnk a um s).mid.getD om2 default).t ∧ KV.Probing.Abs ((fixUnk a um s).mid.getD om2 default).t (Mmid om2)
    rw [fixUnk_mid]
    by_cases h : om2 + 2 < a.order
    · exact ⟨(hMmid om2 h).inv.inv, (hMmid om2 h).inv.abs⟩
    · have hge : s.mid.length ≤ om2 := by rw [inv.midlen]; omega
      have hd : s.mid.getD om2 default = default := by
        rw [List.getD_eq_getElem?_getD, List.getElem?_eq_none hge]; rfl
      rw [hd]
      simp only [Mmid, h, dif_neg, not_false_eq_true]
      exact ⟨KV.Probing.Inv_empty id 1 (by decide), KV.Probing.Abs_empty 1⟩
  · show KV.Probing.Inv id (fixUnk a um s).longest.t ∧ KV.Probing.Abs (fixUnk a um s).longest.t Mlong
    rw [fixUnk_longest]
    exact ⟨semL.inv.inv, semL.inv.abs⟩
  · intro om2 g t hl hlt ht
    have hlt' : om2 + 2 < a.order := hlt
    obtain ⟨j, hj, hw⟩ := stored_of_G ok f (hMmid om2 hlt') g t hl (by omega) ht
    refine ⟨j, hj, ?_⟩
    show wFound false (((fixUnk a um s).mid.getD om2 default).pay.getD j default) = toFound t
    rw [fixUnk_mid]; exact hw
  · intro om2 k v h
    by_cases hlt : om2 + 2 < a.order
    · exact only_of_G f (hMmid om2 hlt) k v h
    · simp only [Mmid, hlt, dif_neg, not_false_eq_true] at h
      cases h
  · intro g t hl ht
    have hl' : g.length = a.order := hl
    obtain ⟨j, hj, hw⟩ := stored_of_G ok f semL g t hl' hN ht
    refine ⟨j, hj, ?_⟩
    show -((fixUnk a um s).longest.pay.getD j default).mag = t.prob
    rw [fixUnk_longest]
    have := congrArg Found.prob hw
    simpa [wFound, toFound] using this
  · intro k v h
    exact only_of_G f semL k v h

/-- **the builder represents `Table.build a`** for every file whose lines admit the per-line step `step` -/
theorem build_represents_of_step (combine : Nat → Word → Nat) (a : Arpa) (nWords : Nat) (buckets : List Nat) (um : Rat)
    (ok : ArpaOK' a nWords um) (Cls : Key → Prop)
    (step : StepOK combine a (initUni a nWords) a.order (capOf buckets) Cls)
    (hcls : ∀ q ∈ ngramLines a, Cls q.1)
    (hsorted : (ngramLines a).Pairwise (fun p q => p.1.length ≤ q.1.length))
    (hdist : (a.entries.map (·.1)).Nodup)
    (hinj : ∀ k k', IsKey a k → IsKey a k' → k.length = k'.length → hashOf combine k = hashOf combine k' → k = k')
    (hcaps : ∀ m, (keysOf (foldKeys [] (ngramLines a)) m).length < capOf buckets m) :
    ∃ s Mmid Mlong, build combine false a nWords buckets um = .ok s ∧
      Represents combine (toPLM false a.order s) (KV.Table.build a) Mmid Mlong := by
  have hN := ok.wf.order_ge
  have hul : (initUni a nWords).length = nWords := by simp [initUni]
  have inv0 : InvG combine a (initUni a nWords) a.order (capOf buckets) [] (initSt a nWords buckets) := by
    refine ⟨by simp [initSt], ⟨rfl, fun w => by simp [initSt, expU, endsInK, startsWithK]⟩, ?_⟩
    intro m h2 hmN
    have hc : 0 < capOf buckets m := by have := hcaps m; omega
    refine ⟨fun _ => none, ?_⟩
    have : tbl a.order (initSt a nWords buckets) m = emptyOrd (capOf buckets m) := by
      unfold tbl capOf initSt
      by_cases hm : m = a.order
      · simp [hm]
      · have hlt : m - 2 < a.order - 2 := by omega
        simp only [hm, if_false]
        rw [List.getD_eq_getElem?_getD, List.getElem?_map, List.getElem?_range hlt]
        rfl
    rw [this]
    exact ordG_empty combine a m _ hc
  have fi0 : FI a [] [] := ⟨⟨by simp, by simp, by simp, by simp⟩, by simp, by simp⟩
  have hmemE : ∀ q ∈ ngramLines a, q ∈ a.entries ∧ 2 ≤ q.1.length := by
    intro q hq; simp [ngramLines] at hq; exact hq
  obtain ⟨s, hf, inv, fi⟩ := invG_fold combine a (initUni a nWords) a.order (capOf buckets) Cls step ok.wf hinj
    (fun p hp x hx => by rw [hul]; exact (ok.vocab x).mpr (ok.words p hp x hx))
    (ngramLines a) [] [] _ inv0 fi0 (by simpa using hsorted)
    (by
      have : ((ngramLines a).map (·.1)).Nodup := by
        unfold ngramLines
        exact List.Nodup.sublist (List.Sublist.map _ List.filter_sublist) hdist
      simpa using this)
    (by
      intro q hq
      have hq' : q ∈ ngramLines a := by simpa using hq
      obtain ⟨hqe, hq2⟩ := hmemE q hq'
      have hg : a.gram q.1 = some q.2 := lookup_of_mem_nodup a.entries hdist q.1 q.2 hqe
      exact ⟨hq2, ok.wf.len_le _ (by rw [hg]; simp), hg⟩)
    (by
      intro k hk h2
      obtain ⟨e, he⟩ := Option.ne_none_iff_exists'.mp hk
      exact ⟨(k, e), by simpa using mem_ngramLines a k e he h2, rfl⟩)
    hcaps (by simpa using hcls)
  have ffin : Final a (foldKeys [] (ngramLines a)) := by
    refine ⟨fi.si, ?_⟩
    intro k hk h2
    obtain ⟨e, he⟩ := Option.ne_none_iff_exists'.mp hk
    have := fi.lines (k, e) (by simpa using mem_ngramLines a k e he h2)
    exact this
  obtain ⟨Mmid, Mlong, rep⟩ := represents_of_invG combine a nWords um ok (capOf buckets) _ ffin s inv
  refine ⟨_, Mmid, Mlong, ?_, rep⟩
  unfold build
  simp only [bind, Except.bind]
  have hf' : List.foldlM (fun s p => addLine combine false a.order s p.1 p.2) (initSt a nWords buckets)
      (a.entries.filter fun p => p.1.length ≥ 2) = .ok s := hf
  unfold initSt at hf'
  rw [hf']

end KV.ProbingBuild
