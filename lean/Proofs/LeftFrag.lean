import Proofs.LeftExt
/-! The fragment invariant `Frag` of chart scoring and its preservation by `Terminal` and `Finish`. -/
namespace KV.Left
open KV.Arpa KV.Table KV.State KV.Score

variable {a : Arpa} {T : Table}

/-- the pointer of the prefix of length `i+1`: the reversed n-gram `w_0 … w_i` -/
def pre (ws : List Word) (i : Nat) : Ptr := (ws.take (i+1)).reverse

/-- Σ_{i<L} R(w_0 … w_i) -/
def restSum (R : Ptr → Rat) (ws : List Word) : Nat → Rat
  | 0 => 0
  | L+1 => restSum R ws L + R (pre ws L)

def NormS (s : State) : Prop := s.words.length = s.length ∧ s.backoff.length = s.length

/-- why a fragment's left state is complete: (a) the n-gram `w_0 … w_L` cannot be extended to the left by any
table entry, (b) all words are in the left state but some suffix of the fragment does not extend right, or
(c) the fragment is a complete (N-1)-gram -/
def Closed (T : Table) (ws : List Word) (L : Nat) : Prop :=
  (L < ws.length ∧ ∀ x, T.lookup (pre ws L ++ [x]) = none) ∨
  (L = ws.length ∧ 0 < L ∧ ∃ k, 1 ≤ k ∧ k ≤ ws.length ∧ T.xr (ws.reverse.take k) = false) ∨
  (L = ws.length ∧ L = T.order - 1)

/-- **the fragment invariant** (`RuleScore` before `Finish`): the chart state and accumulated score are the
canonical ones of the word sequence `ws`, with `L` words still in the left state -/
structure Frag (a : Arpa) (T : Table) (R : Ptr → Rat) (ws : List Word) (L : Nat) (rs : RS) : Prop where
  right_for : StateFor a ws.reverse rs.out.right
  right_norm : NormS rs.out.right
  L_le : L ≤ ws.length
  L_lt : L ≤ a.order - 1
  ptrs : rs.out.left.pointers = (List.range L).map (pre ws)
  ptr_xl : ∀ i, i < L → T.xl (pre ws i) = true
  prob_eq : rs.prob = restSum R ws L + specSeq a (ws.take L).reverse (ws.drop L)
  open_ : rs.leftDone = false → L = ws.length ∧ rs.out.right.length = ws.length
  closed : rs.leftDone = true → Closed T ws L

/-! ### small facts -/

theorem pre_append (ws l : List Word) {i : Nat} (hi : i < ws.length) : pre (ws ++ l) i = pre ws i := by
  unfold pre
  rw [List.take_append_of_le_length (by omega)]

theorem pre_full (ws : List Word) (w : Word) : pre (ws ++ [w]) ws.length = w :: ws.reverse := by
  unfold pre
  rw [List.take_of_length_le (by simp)]
  simp

theorem restSum_append (R : Ptr → Rat) (ws l : List Word) : ∀ L, L ≤ ws.length → restSum R (ws ++ l) L = restSum R ws L := by
  intro L
  induction L with
  | zero => intro _; rfl
  | succ L ih => intro h; simp only [restSum, ih (by omega), pre_append ws l (by omega : L < ws.length)]

theorem specSeq_append (a : Arpa) : ∀ (l1 l2 h : List Word), specSeq a h (l1 ++ l2) = specSeq a h l1 + specSeq a (l1.reverse ++ h) l2 := by
  intro l1
  induction l1 with
  | nil => intro l2 h; simp only [specSeq, List.nil_append, List.reverse_nil]; grind
  | cons w l1 ih =>
    intro l2 h
    simp only [List.cons_append, specSeq, ih, List.reverse_cons, List.append_assoc, List.singleton_append]
    grind

theorem normS_of_stateFor {h : List Word} {s : State} (sf : StateFor a h s) : NormS (normS s) ∧ StateFor a h (normS s) := by
  have h1 := congrArg List.length sf.words
  have h2 := congrArg List.length sf.backoff
  simp only [List.length_take, List.length_map, List.length_range] at h1 h2
  have h3 := sf.len_le_h
  refine ⟨⟨?_, ?_⟩, ⟨sf.len_le_h, sf.len_le_N, ?_, ?_, sf.dead⟩⟩
  · simp only [normS, List.length_take]; omega
  · simp only [normS, List.length_take]; omega
  · simp only [normS, List.take_take, Nat.min_self]; exact sf.words
  · simp only [normS, List.take_take, Nat.min_self]; exact sf.backoff

theorem xl_lookup {g : Ptr} (h : T.xl g = true) : ∃ t, T.lookup g = some t ∧ t.extendsLeft = true := by
  unfold Table.xl at h
  cases hl : T.lookup g with
  | none => simp [hl] at h
  | some t => exact ⟨t, rfl, by simpa [hl] using h⟩

/-- closure survives appending words -/
theorem Closed.append (H : Hyp a T) {ws : List Word} {L : Nat} (hc : Closed T ws L) (l : List Word) : Closed T (ws ++ l) L := by
  cases l with
  | nil => simpa using hc
  | cons w l' =>
    have hp : L = ws.length → pre (ws ++ w :: l') L = w :: ws.reverse := by
      intro h1
      unfold pre
      subst h1
      have : ws ++ w :: l' = (ws ++ [w]) ++ l' := by simp
      rw [this, List.take_append_of_le_length (by simp), List.take_of_length_le (by simp)]
      simp
    rcases hc with ⟨h1, h2⟩ | ⟨h1, h2, k, hk1, hk2, h3⟩ | ⟨h1, h2⟩
    · left
      refine ⟨by simp; omega, ?_⟩
      rw [pre_append ws _ h1]; exact h2
    · left
      refine ⟨by simp; omega, ?_⟩
      intro x
      have hne : ws.reverse.take k ≠ [] := take_ne_nil hk1 (by simpa using hk2)
      have hnone : T.lookup (w :: ws.reverse.take k) = none := by
        apply Classical.byContradiction; intro hc
        have := H.marks _ w hne hc
        rw [h3] at this; cases this
      have h4 := lookup_none_take H.ok w ws.reverse k ws.length hk2 hnone
      rw [List.take_of_length_le (by simp)] at h4
      rw [hp h1]
      exact lookup_none_extend H.ok [x] (w :: ws.reverse) (by simp) h4
    · left
      refine ⟨by simp; omega, ?_⟩
      intro x
      rw [hp h1]
      apply Classical.byContradiction; intro hne
      have := H.ok.len_le _ hne
      simp only [List.length_cons, List.length_append, List.length_reverse, List.length_nil] at this
      have := H.ok.order_ge
      omega

/-! ### `FullScore` over the rest-cost search, in terms of the resumed loop -/

def uniAcc (T : Table) (R : Ptr → Rat) (w : Word) (tu : TEntry) : Acc Ptr :=
  { ret := { prob := tu.prob, rest := R [w], ngramLength := 1, independentLeft := !tu.extendsLeft, extendLeft := [w] },
    backoffOut := [tu.backoff], nextUse := if tu.extendsRight then 1 else 0 }

theorem fullScore_rest (T : Table) (R : Ptr → Rat) (s : State) (w : Word) (tu : TEntry) (hu : T.lookup [w] = some tu) :
    fullScore (restSearch T R) s w =
      (let acc := resumeScore (restSearch T R) (s.words.take s.length) 0 [w] (uniAcc T R w tu)
       ({ acc.ret with prob := acc.ret.prob + ((s.backoff.take s.length).drop (acc.ret.ngramLength - 1)).sum },
        { length := acc.nextUse, words := w :: (s.words.take s.length).take (acc.nextUse - 1), backoff := acc.backoffOut })) := by
  simp only [fullScore, sxb_def]
  have h1 : (restSearch T R).lookupUnigram w = ({ toFound tu with rest := R [w] }, [w]) := by
    simp [restSearch, foundOf, hu]
  simp only [h1, toFound, uniAcc]

/-- **Terminal preserves the fragment invariant.** -/
theorem terminal_frag_aux (H : Hyp a T) (R : Ptr → Rat) {ws : List Word} {L : Nat} {rs : RS}
    (F : Frag a T R ws L rs) (w : Word) (hw : a.gram [w] ≠ none) :
    ∃ L', Frag a T R (ws ++ [w]) L' (terminal T R rs w) := by
  have ok := H.ok
  have tf := H.tf
  have hord : T.order = a.order := tf.order_eq
  have hN2 := H.wf.order_ge
  obtain ⟨e, he⟩ := Option.ne_none_iff_exists'.mp hw
  obtain ⟨tu, hu, _, _⟩ := tf.real [w] e he
  have hsim := fullScore_sim T R rs.out.right w
  have hstep := step H.wf tf F.right_for hw
  have hprob : (fullScore (restSearch T R) rs.out.right w).1.prob = score a ws.reverse w := by rw [hsim.1, hstep.1]
  have hst : StateFor a (w :: ws.reverse) (fullScore (restSearch T R) rs.out.right w).2 := by rw [hsim.2]; exact hstep.2
  have hrev : (ws ++ [w]).reverse = w :: ws.reverse := by simp
  obtain ⟨hnorm, hst'⟩ := normS_of_stateFor hst
  -- the probability bookkeeping shared by the two "completed" branches
  have hprobC : L ≤ ws.length → restSum R ws L + specSeq a (ws.take L).reverse (ws.drop L) + score a ws.reverse w =
      restSum R (ws ++ [w]) L + specSeq a ((ws ++ [w]).take L).reverse ((ws ++ [w]).drop L) := by
    intro hL
    rw [restSum_append R ws [w] L hL, List.take_append_of_le_length hL, List.drop_append_of_le_length hL, specSeq_append]
    simp only [specSeq]
    have : (ws.drop L).reverse ++ (ws.take L).reverse = ws.reverse := by
      rw [← List.reverse_append, List.take_append_drop]
    rw [this]; grind
  unfold terminal
  by_cases hdone : rs.leftDone = true
  · -- the left state is complete: plain left-to-right scoring
    simp only [hdone, if_true]
    refine ⟨L, ⟨by rw [hrev]; exact hst', hnorm, by simp; have := F.L_le; omega, F.L_lt, ?_, ?_, ?_, by simp [hdone], fun _ => (F.closed hdone).append H [w]⟩⟩
    · show rs.out.left.pointers = _
      rw [F.ptrs]
      apply List.map_congr_left
      intro i hi
      have : i < L := by simpa using hi
      rw [pre_append ws [w] (by have := F.L_le; omega)]
    · intro i hi
      rw [pre_append ws [w] (by have := F.L_le; omega)]; exact F.ptr_xl i hi
    · show rs.prob + (fullScore (restSearch T R) rs.out.right w).1.prob = _
      rw [hprob, F.prob_eq]; exact hprobC F.L_le
  · have hopen : rs.leftDone = false := by simpa using hdone
    obtain ⟨hL, hrl⟩ := F.open_ hopen
    simp only [hopen, Bool.false_eq_true, if_false]
    -- the resumed loop for the unigram `w` over the whole fragment
    have hctx : rs.out.right.words.take rs.out.right.length = ws.reverse := by
      rw [F.right_for.words, hrl, List.take_of_length_le (by simp)]
    have hfs := fullScore_rest T R rs.out.right w tu hu
    rw [hctx] at hfs
    have hinv : ExtInv T R [w] ws.reverse (uniAcc T R w tu) 0 [w] (uniAcc T R w tu) := by
      refine ⟨by simp, by omega, ?_, rfl, ⟨tu, by simpa using hu, rfl, rfl⟩, by simp [uniAcc], by simp [uniAcc], by simp, Or.inl ⟨rfl, fun j hj => by omega⟩⟩
      show [w].length + 0 ≤ T.order - 1
      simp only [List.length_singleton]; omega
    obtain ⟨c0, post⟩ := resume_ext T R ok [w] ws.reverse (uniAcc T R w tu) (by simp) (ws.reverse.length - 0) 0 [w] _ rfl hinv
    simp only [List.drop_zero, List.length_singleton, Nat.add_zero, Nat.sub_self, Nat.zero_add] at post
    generalize hacc : resumeScore (restSearch T R) ws.reverse 0 [w] (uniAcc T R w tu) = acc at post hfs
    have hc0 : c0 ≤ ws.length := by simpa using post.c0_le
    have hret_ind : (fullScore (restSearch T R) rs.out.right w).1.independentLeft = acc.ret.independentLeft := by rw [hfs]
    have hret_rest : (fullScore (restSearch T R) rs.out.right w).1.rest = acc.ret.rest := by rw [hfs]
    have hret_ptr : (fullScore (restSearch T R) rs.out.right w).1.extendLeft = acc.ret.extendLeft := by rw [hfs]
    have hout_len : (fullScore (restSearch T R) rs.out.right w).2.length = acc.nextUse := by rw [hfs]
    have hwx : ∀ x, (w :: ws.reverse ++ [x]).length = ws.length + 2 := by intro x; simp
    rw [hret_ind]
    by_cases hind : acc.ret.independentLeft = true
    · -- independent of further left context: the left state is complete with the old pointers
      simp only [hind, if_true]
      have hclosed : Closed T (ws ++ [w]) L := by
        left
        refine ⟨by simp; omega, ?_⟩
        intro x
        rw [hL, pre_full]
        have hi := post.indep
        rw [hind] at hi
        have hi := hi.symm
        apply Classical.byContradiction; intro hne
        have hle := ok.len_le _ hne
        rw [hwx] at hle
        simp only [Bool.or_eq_true, decide_eq_true_eq, Bool.not_eq_true'] at hi
        simp only [List.length_reverse, List.length_singleton, List.singleton_append] at hi
        have hall : ws.reverse.take ws.length = ws.reverse := List.take_of_length_le (by simp)
        rcases hi with (h1 | h1) | h1
        · omega
        · have hs := post.stop (by simpa using h1) (by simp only [List.length_singleton]; omega)
          simp only [List.singleton_append] at hs
          have h3 := lookup_none_take ok w ws.reverse (c0+1) ws.length (by omega) hs
          rw [hall] at h3
          exact hne (lookup_none_extend ok [x] (w :: ws.reverse) (by simp) h3)
        · by_cases hc : c0 < ws.length
          · have hs := post.stop (by simpa using hc) (by simp only [List.length_singleton]; omega)
            simp only [List.singleton_append] at hs
            have h3 := lookup_none_take ok w ws.reverse (c0+1) ws.length (by omega) hs
            rw [hall] at h3
            exact hne (lookup_none_extend ok [x] (w :: ws.reverse) (by simp) h3)
          · have hce : c0 = ws.length := by omega
            rw [hce, hall] at h1
            obtain ⟨t, ht, _⟩ := post.found
            simp only [List.singleton_append, hce, hall] at ht
            have hxl : t.extendsLeft = false := by simpa [Table.xl, ht] using h1
            exact hne (ok.xl_sound (w :: ws.reverse) x t ht hxl)
      refine ⟨L, ⟨by rw [hrev]; exact hst', hnorm, by simp; omega, F.L_lt, ?_, ?_, ?_, by simp, fun _ => hclosed⟩⟩
      · show rs.out.left.pointers = _
        rw [F.ptrs]
        apply List.map_congr_left
        intro i hi
        have : i < L := by simpa using hi
        rw [pre_append ws [w] (by omega)]
      · intro i hi
        rw [pre_append ws [w] (by omega)]; exact F.ptr_xl i hi
      · show rs.prob + (fullScore (restSearch T R) rs.out.right w).1.prob = _
        rw [hprob, F.prob_eq]; exact hprobC F.L_le
    · -- the whole fragment plus `w` is an n-gram that extends left: one more pointer
      simp only [hind, Bool.false_eq_true, if_false]
      have hi := post.indep
      have hind' : acc.ret.independentLeft = false := by simpa using hind
      rw [hind'] at hi
      have hi := hi.symm
      simp only [Bool.or_eq_false_iff, decide_eq_false_iff_not, Bool.not_eq_false'] at hi
      simp only [List.length_reverse, List.length_singleton, List.singleton_append] at hi
      obtain ⟨⟨hi1, hi2⟩, hi3⟩ := hi
      have hce : c0 = ws.length := by omega
      have hall : ws.reverse.take ws.length = ws.reverse := List.take_of_length_le (by simp)
      have hlenN : ws.length + 1 < T.order := by
        have := post.len_le
        simp only [List.length_singleton] at this
        omega
      rw [hce, hall] at hi3
      have hptr := post.ptr (by simp; omega)
      simp only [List.singleton_append, hce, hall] at hptr
      have hrest := post.rest
      have hne' : ¬ ([w].length + c0 = T.order) := by simp; omega
      simp only [hne', if_false, List.singleton_append, hce, hall] at hrest
      have hmin : min c0 (T.order - 1 - [w].length) = ws.length := by simp; omega
      refine ⟨L + 1, ⟨by rw [hrev]; exact hst', hnorm, by simp; omega, by omega, ?_, ?_, ?_, ?_, ?_⟩⟩
      · show rs.out.left.pointers ++ [(fullScore (restSearch T R) rs.out.right w).1.extendLeft] = _
        rw [hret_ptr, hptr, F.ptrs, List.range_succ, List.map_append]
        congr 1
        · apply List.map_congr_left
          intro i hi
          have : i < L := by simpa using hi
          rw [pre_append ws [w] (by omega)]
        · simp only [List.map_cons, List.map_nil]; rw [hL, pre_full]
      · intro i hi
        by_cases hiL : i < L
        · rw [pre_append ws [w] (by omega)]; exact F.ptr_xl i hiL
        · have : i = ws.length := by omega
          rw [this, pre_full]; exact hi3
      · show rs.prob + (fullScore (restSearch T R) rs.out.right w).1.rest = _
        rw [hret_rest, hrest, F.prob_eq, hL]
        have e1 : (ws ++ [w]).drop (ws.length + 1) = [] := List.drop_eq_nil_of_le (by simp)
        have e2 : ws.drop ws.length = [] := List.drop_eq_nil_of_le (by simp)
        rw [e1, e2]
        simp only [specSeq, restSum]
        rw [restSum_append R ws [w] ws.length (by omega), pre_full]
        grind
      · -- still open: everything is in both states
        intro hdn
        have : ((fullScore (restSearch T R) rs.out.right w).2.length != rs.out.right.length + 1) = false := hdn
        rw [hout_len, hrl] at this
        have h' : acc.nextUse = ws.length + 1 := by simpa using this
        refine ⟨by simp; omega, ?_⟩
        show (normS (fullScore (restSearch T R) rs.out.right w).2).length = _
        simp only [normS, hout_len, h']; simp
      · -- completed because the whole n-gram does not extend right
        intro hdn
        have : ((fullScore (restSearch T R) rs.out.right w).2.length != rs.out.right.length + 1) = true := hdn
        rw [hout_len, hrl] at this
        have hnu : acc.nextUse ≠ ws.length + 1 := by simpa using this
        right; left
        refine ⟨by simp; omega, by omega, ws.length + 1, by omega, by simp, ?_⟩
        rw [hrev, List.take_of_length_le (by simp)]
        have hnucases := post.nu
        rw [hmin] at hnucases
        simp only [List.singleton_append, List.length_singleton] at hnucases
        rcases hnucases with ⟨he0, hall0⟩ | ⟨j, hj, he0, hxr, hall0⟩
        · by_cases hz : ws.length = 0
          · have hnil : ws = [] := List.eq_nil_of_length_eq_zero hz
            subst hnil
            simp only [uniAcc, List.length_nil, Nat.zero_add] at he0 hnu
            rw [he0] at hnu
            have : tu.extendsRight = false := by
              cases hx : tu.extendsRight with
              | false => rfl
              | true => rw [hx] at hnu; simp at hnu
            simp [Table.xr, hu, this]
          · have := hall0 (ws.length - 1) (by omega)
            have e : ws.length - 1 + 1 = ws.length := by omega
            rwa [e, hall] at this
        · have hjl : j + 1 < ws.length := by omega
          have := hall0 (ws.length - 1) (by omega) (by omega)
          have e : ws.length - 1 + 1 = ws.length := by omega
          rwa [e, hall] at this

end KV.Left
