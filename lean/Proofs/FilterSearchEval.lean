import Proofs.FilterSearchLB
/-!
The `Evaluate` loops of `phrase::Union` / `phrase::Multiple` on top of `lowerBound_spec`:
union answers "is some sentence accepted at the last vertex", multiple enumerates exactly the
accepted sentences, increasing.
-/
namespace KV.Filter

theorem acc_le_max {arcs : List PArc} {v s : Nat} (h : PAcc arcs v s) : s ≤ maxSent arcs := by
  obtain ⟨a, ha, _, hv⟩ := acc_iff_valid.mp h
  exact le_maxElem (List.mem_map.mpr ⟨a, ha, rfl⟩) hv.1

/-- **`phrase::Multiple::Evaluate`** from a `Good` state with nothing accepted below `lower` lost -/
theorem multiEval_spec {arcs : List PArc} (hw : WFG arcs) (last : Nat) :
    ∀ (fuel lower : Nat) (σ : PState) (L : Nat), Good arcs σ L → L ≤ lower → maxSent arcs + 2 ≤ fuel + lower →
      (∀ s, s ∈ multiEval false arcs last fuel lower σ ↔ lower ≤ s ∧ PAcc arcs last s) ∧
      Inc (multiEval false arcs last fuel lower σ) ∧ (∀ x ∈ multiEval false arcs last fuel lower σ, lower ≤ x)
  | 0, lower, σ, L, hg, hl, hf => by
    simp only [multiEval]
    refine ⟨fun s => ⟨(fun h => by cases h), fun ⟨h1, h2⟩ => ?_⟩, List.Pairwise.nil, fun x hx => by cases hx⟩
    have := acc_le_max h2; omega
  | f+1, lower, σ, L, hg, hl, hf => by
    obtain ⟨hg', _, hres⟩ := lowerBound_spec hw (last + 1) last (by omega) σ L lower hg hl
    simp only [multiEval]
    cases hr : vertexLB false arcs (last + 1) last lower σ with
    | mk r σ' =>
      rw [hr] at hg' hres
      simp only at hg' hres ⊢
      cases r with
      | none =>
        simp only at hres ⊢
        exact ⟨fun s => ⟨(fun h => by cases h), fun ⟨h1, h2⟩ => absurd h2 (hres s h1)⟩, List.Pairwise.nil, fun x hx => by cases hx⟩
      | some c =>
        simp only at hres ⊢
        obtain ⟨hge, heq, hno, hb⟩ := hres
        by_cases hc : c = lower
        · simp only [hc, if_true]
          subst hc
          have hacc := heq rfl
          have hmax := acc_le_max hacc
          obtain ⟨i1, i2, i3⟩ := multiEval_spec hw last f (c + 1) σ' c hg' (by omega) (by omega)
          refine ⟨?_, ?_, ?_⟩
          · intro s
            simp only [List.mem_cons, i1 s]
            constructor
            · rintro (rfl | ⟨h1, h2⟩)
              · exact ⟨Nat.le_refl _, hacc⟩
              · exact ⟨by omega, h2⟩
            · rintro ⟨h1, h2⟩
              rcases Nat.lt_or_ge c s with h | h
              · exact Or.inr ⟨by omega, h2⟩
              · exact Or.inl (by omega)
          · exact List.pairwise_cons.mpr ⟨fun x hx => by have := i3 x hx; omega, i2⟩
          · intro x hx
            rcases List.mem_cons.mp hx with rfl | hx
            · exact Nat.le_refl _
            · have := i3 x hx; omega
        · simp only [hc, if_false]
          have hcm : c ≤ maxSent arcs := by rcases hb with h | h; exact absurd h hc; exact h
          obtain ⟨i1, i2, i3⟩ := multiEval_spec hw last f c σ' lower hg' hge (by omega)
          refine ⟨?_, i2, fun x hx => by have := i3 x hx; omega⟩
          intro s
          rw [i1 s]
          constructor
          · rintro ⟨h1, h2⟩; exact ⟨by omega, h2⟩
          · rintro ⟨h1, h2⟩
            refine ⟨?_, h2⟩
            rcases Nat.lt_or_ge s c with h | h
            · exact absurd h2 (hno s h1 h)
            · exact h

/-- **`phrase::Union::Evaluate`** -/
theorem unionEval_spec {arcs : List PArc} (hw : WFG arcs) (last : Nat) :
    ∀ (fuel lower : Nat) (σ : PState) (L : Nat), Good arcs σ L → L ≤ lower → maxSent arcs + 2 ≤ fuel + lower →
      (unionEval false arcs last fuel lower σ = true ↔ ∃ s, lower ≤ s ∧ PAcc arcs last s)
  | 0, lower, σ, L, hg, hl, hf => by
    simp only [unionEval]
    refine ⟨(fun h => by cases h), fun ⟨s, h1, h2⟩ => ?_⟩
    have := acc_le_max h2; omega
  | f+1, lower, σ, L, hg, hl, hf => by
    obtain ⟨hg', _, hres⟩ := lowerBound_spec hw (last + 1) last (by omega) σ L lower hg hl
    simp only [unionEval]
    cases hr : vertexLB false arcs (last + 1) last lower σ with
    | mk r σ' =>
      rw [hr] at hg' hres
      simp only at hg' hres ⊢
      cases r with
      | none =>
        simp only at hres ⊢
        exact ⟨(fun h => by cases h), fun ⟨s, h1, h2⟩ => absurd h2 (hres s h1)⟩
      | some c =>
        simp only at hres ⊢
        obtain ⟨hge, heq, hno, hb⟩ := hres
        by_cases hc : c = lower
        · simp only [hc, if_true, true_iff]
          exact ⟨lower, Nat.le_refl _, heq hc⟩
        · simp only [hc, if_false]
          have hcm : c ≤ maxSent arcs := by rcases hb with h | h; exact absurd h hc; exact h
          rw [unionEval_spec hw last f c σ' lower hg' hge (by omega)]
          constructor
          · rintro ⟨s, h1, h2⟩; exact ⟨s, by omega, h2⟩
          · rintro ⟨s, h1, h2⟩
            refine ⟨s, ?_, h2⟩
            rcases Nat.lt_or_ge s c with h | h
            · exact absurd h2 (hno s h1 h)
            · exact h

/-- from the initial state: multiple reports exactly the accepted sentences, each once, increasing -/
theorem multiEval_correct {arcs : List PArc} (hw : WFG arcs) (last : Nat) :
    (∀ s, s ∈ multiEval false arcs last (maxSent arcs + 2) 0 (initState arcs) ↔ PAcc arcs last s) ∧
    Inc (multiEval false arcs last (maxSent arcs + 2) 0 (initState arcs)) := by
  obtain ⟨h1, h2, _⟩ := multiEval_spec hw last (maxSent arcs + 2) 0 (initState arcs) 0 good_init (Nat.le_refl _) (by omega)
  exact ⟨fun s => by rw [h1 s]; simp, h2⟩

theorem unionEval_correct {arcs : List PArc} (hw : WFG arcs) (last : Nat) :
    unionEval false arcs last (maxSent arcs + 2) 0 (initState arcs) = true ↔ ∃ s, PAcc arcs last s := by
  rw [unionEval_spec hw last (maxSent arcs + 2) 0 (initState arcs) 0 good_init (Nat.le_refl _) (by omega)]
  simp

end KV.Filter
