import Proofs.LeftSubsume
/-! One whole `ExtendLoop` call, packaged: which pointers are written, what is accumulated, and the state of the
back-off buffer afterwards. -/
namespace KV.Left
open KV.Arpa KV.Table KV.State KV.Score

variable {a : Arpa} {T : Table}

theorem InvL.with_adjust {F P h : List Word} {nu0 i : Nat} {v : ExtendReturn} (I : InvL a F P h nu0 i v) (x : Rat) :
    InvL a F P h nu0 i { v with adjust := x } := ⟨I.nu_le, I.hN, I.back, I.dead⟩

theorem extendLoop_sem (H : Hyp a T) (R : Ptr → Rat) {F P h : List Word} {L nu0 : Nat} (C : LoopCtx a T F P h L nu0)
    (seen i0 : Nat) (hseen : seen = i0 + P.length) (hi0 : i0 ≤ L) (bs : List Rat)
    (I0 : InvL a F P h nu0 i0 { nextUse := nu0, backIn := bs.take nu0 }) (write : Bool) (hall : write = true → nu0 = h.length) :
    ∃ Lw, i0 ≤ Lw ∧ Lw ≤ L ∧ (write = false → Lw = i0) ∧
      (extendLoop T R seen (h.take nu0) bs (((List.range L).map (fun i => pre F i ++ P)).drop i0) write).written =
        ((List.range Lw).drop i0).map (fun i' => pre F i' ++ P ++ h) ∧
      (∀ i', i0 ≤ i' → i' < Lw → T.xl (pre F i' ++ P ++ h) = true) ∧
      (i0 < Lw → Lw + P.length + h.length ≤ a.order - 1) ∧
      InvL a F P h nu0 L (extendLoop T R seen (h.take nu0) bs (((List.range L).map (fun i => pre F i ++ P)).drop i0) write) ∧
      (extendLoop T R seen (h.take nu0) bs (((List.range L).map (fun i => pre F i ++ P)).drop i0) write).adjust =
        dsum (openTerm R F P h) i0 (Lw - i0) + dsum (doneTerm a R F P h) Lw (L - Lw) ∧
      (((extendLoop T R seen (h.take nu0) bs (((List.range L).map (fun i => pre F i ++ P)).drop i0) write).makeFull = false ∧
          (write = true → Lw = L ∧
            (extendLoop T R seen (h.take nu0) bs (((List.range L).map (fun i => pre F i ++ P)).drop i0) write).nextUse = nu0)) ∨
       ((extendLoop T R seen (h.take nu0) bs (((List.range L).map (fun i => pre F i ++ P)).drop i0) write).makeFull = true ∧
          write = true ∧ CNL T F P h L Lw)) := by
  have haddl : (h.take nu0).length = nu0 := by rw [List.length_take]; have := C.nu0_le; omega
  let v0 : ExtendReturn := { nextUse := nu0, backIn := bs.take nu0 }
  have hdef : ∀ ps, extendLoop T R seen (h.take nu0) bs ps write =
      (let r1 := if write then extendLoopWrite T R seen (h.take nu0) nu0 ps 0 v0 else (v0, ps, 0)
       let r2 := extendLoopUse T R seen (h.take nu0) r1.2.1 r1.2.2 r1.1
       { r2.1 with adjust := r2.1.adjust + unRest T R r2.2.1 (r2.2.2 + seen + 1) }) := by
    intro ps
    unfold extendLoop
    simp only [haddl]
    rfl
  rw [hdef]
  cases write with
  | false =>
    simp only [Bool.false_eq_true, if_false]
    obtain ⟨_, u1, u2, u3, u4⟩ := useLoop H R C seen _ 0 i0 v0 rfl hi0 (by omega) I0
    generalize extendLoopUse T R seen (h.take nu0) (((List.range L).map (fun i => pre F i ++ P)).drop i0) 0 v0 = r2 at u1 u2 u3 u4
    refine ⟨i0, Nat.le_refl _, hi0, fun _ => rfl, ?_, fun i' h1 h2 => by omega, fun hc => by omega, u3.with_adjust _, ?_, Or.inl ⟨u2, fun hc => by cases hc⟩⟩
    · show r2.1.written = _
      rw [u1]; simp [v0]
    · show r2.1.adjust + unRest T R r2.2.1 (r2.2.2 + seen + 1) = _
      rw [u4]; simp [v0, dsum] <;> grind
  | true =>
    simp only [if_true]
    have hall' := hall rfl
    obtain ⟨Lw, t, w1, w2, w3, w4, w5, w6, w7, w8, w9, w10, w11, w12⟩ :=
      writeLoop H R C seen hall' [] i0 _ 0 i0 v0 rfl (Nat.le_refl _) hi0 (by omega) I0 rfl rfl
        (by show ([] : List Ptr) = _; simp) (fun i' h1 h2 => by omega)
    generalize extendLoopWrite T R seen (h.take nu0) nu0 (((List.range L).map (fun i => pre F i ++ P)).drop i0) 0 v0 = r1
      at w6 w8 w9 w10 w11 w12
    obtain ⟨u0, u1, u2, u3, u4⟩ := useLoop H R C seen r1.2.1 r1.2.2 t r1.1 w8 w3 w9 w10
    generalize extendLoopUse T R seen (h.take nu0) r1.2.1 r1.2.2 r1.1 = r2 at u0 u1 u2 u3 u4
    refine ⟨Lw, w1, by omega, (fun hc => by cases hc), ?_, w7, fun _ => w5, u3.with_adjust _, ?_, ?_⟩
    · show r2.1.written = _
      rw [u1, w6]; simp
    · show r2.1.adjust + unRest T R r2.2.1 (r2.2.2 + seen + 1) = _
      rw [u4, w11]
      have hsplit : L - Lw = (t - Lw) + (L - t) := by omega
      rw [hsplit, dsum_add]
      have e : Lw + (t - Lw) = t := by omega
      rw [e]
      simp [v0] <;> grind
    · rcases w12 with ⟨m1, m2, m3, m4⟩ | ⟨m1, m2⟩
      · left
        refine ⟨by show r2.1.makeFull = false; rw [u2]; exact m1, fun _ => ⟨m2, ?_⟩⟩
        show r2.1.nextUse = nu0
        rw [u0 m3]; exact m4
      · right
        exact ⟨by show r2.1.makeFull = true; rw [u2]; exact m1, (by first | rfl | trivial), m2⟩

end KV.Left
