import Proofs.TrieOfTable
/-! `ShapeOK` from the C04 layout model: the plain `TrieModel` shape produced by `Binary.trieSetup` has the bit widths of
`RequiredBits`, no `uint8` wrap, and its regions follow one another in the file. -/
set_option maxRecDepth 4000
namespace KV.TrieLM
open KV.Bits KV.Binary

/-- prefix sums -/
def psum (f : Nat → Nat) : Nat → Nat
  | 0 => 0
  | t+1 => psum f t + f t

theorem psum_shift (f : Nat → Nat) : ∀ t, psum f (t + 1) = f 0 + psum (fun u => f (u + 1)) t
  | 0 => by simp [psum]
  | t+1 => by
    have ih := psum_shift f t
    show psum f (t + 1) + f (t + 1) = f 0 + (psum (fun u => f (u + 1)) t + f (t + 1))
    rw [ih]; omega

theorem psum_mono (f : Nat → Nat) : ∀ {i j : Nat}, i ≤ j → psum f i ≤ psum f j := by
  intro i j h
  induction j with
  | zero => have : i = 0 := by omega
            subst this; exact Nat.le_refl _
  | succ j ih =>
    by_cases hj : i = j + 1
    · subst hj; exact Nat.le_refl _
    · have := ih (by omega); simp only [psum]; omega

/-- closed form of the middle loop of `TrieSearch::SetupMemory` -/
theorem trieMiddleLoop_closed (q a : Bool) (cfg : Config) (counts : List Nat) : ∀ (m s0 s : Nat) (acc : List MiddleRegion),
    trieMiddleLoop q a cfg counts (List.range' s0 m) s acc =
      (s + psum (fun t => middleSize a cfg (middleBits q cfg) (cnt counts (s0 + t - 1)) (cnt counts 0) (cnt counts (s0 + t))) m,
       acc.reverse ++ (List.range m).map (fun t =>
         mkMiddle a cfg (middleBits q cfg) (cnt counts (s0 + t - 1)) (cnt counts 0) (cnt counts (s0 + t))
           (s + psum (fun u => middleSize a cfg (middleBits q cfg) (cnt counts (s0 + u - 1)) (cnt counts 0) (cnt counts (s0 + u))) t))) := by
  intro m
  induction m with
  | zero => intro s0 s acc; simp [trieMiddleLoop, psum]
  | succ m ih =>
    intro s0 s acc
    rw [List.range'_succ]
    simp only [trieMiddleLoop]
    rw [ih (s0 + 1)]
    have hsh := psum_shift (fun t => middleSize a cfg (middleBits q cfg) (cnt counts (s0 + t - 1)) (cnt counts 0) (cnt counts (s0 + t)))
    have e1 : ∀ u, s0 + 1 + u = s0 + (u + 1) := by intro u; omega
    simp only [e1]
    refine Prod.ext ?_ ?_
    · simp only [hsh m, Nat.add_zero]; omega
    · simp only [List.reverse_cons, List.append_assoc, List.singleton_append, List.range_succ_eq_map, List.map_cons,
        List.map_map, psum, Nat.add_zero]
      congr 2
      apply List.map_congr_left
      intro t _
      simp only [Function.comp, hsh t, Nat.add_zero]
      congr 1; omega


theorem requiredBits_le_of_lt (x b : Nat) (hb : b ≤ 64) (h : x < 2^b) : requiredBits x ≤ b := by
  by_cases h0 : x = 0
  · subst h0; simp [requiredBits]
  · have hx : x < 2^64 := Nat.lt_of_lt_of_le h (Nat.pow_le_pow_right (by decide) hb)
    have hm := KV.C20.required_bits_minimal x hx h0
    have : 2^(requiredBits x - 1) < 2^b := Nat.lt_of_le_of_lt hm h
    have := (Nat.pow_lt_pow_iff_right (a := 2) (by omega)).mp this
    omega

/-- size hypotheses: what "counts below 2^57" means for a bit table -/
structure SmallOK (bt : BT) (bound order : Nat) : Prop where
  order2 : 2 ≤ order
  boundLt : bound < 2^57
  levels : ∀ k, k ≤ order → (level bt bound k).length < 2^57

/-- start of the packed records of middle `j` and size of middle `j` in the plain layout -/
def plainSz (bt : BT) (bound order : Nat) (j : Nat) : Nat :=
  middleSize false plainCfg (middleBits false plainCfg) (cnt (countsOf bt bound order) (2 + j - 1))
    (cnt (countsOf bt bound order) 0) (cnt (countsOf bt bound order) (2 + j))

def plainS2 (bt : BT) (bound order start : Nat) : Nat := start + trieUnigramSize (cnt (countsOf bt bound order) 0)

theorem countsOf_length (bt : BT) (bound order : Nat) : (countsOf bt bound order).length = order := by simp [countsOf]

theorem plain_middles (bt : BT) (bound order start : Nat) :
    (trieSetup false false plainCfg (countsOf bt bound order) start).middles =
      (List.range (order - 2)).map (fun t =>
        mkMiddle false plainCfg (middleBits false plainCfg) (cnt (countsOf bt bound order) (2 + t - 1))
          (cnt (countsOf bt bound order) 0) (cnt (countsOf bt bound order) (2 + t))
          (plainS2 bt bound order start + psum (plainSz bt bound order) t)) ∧
    (trieSetup false false plainCfg (countsOf bt bound order) start).longest.1 =
      plainS2 bt bound order start + psum (plainSz bt bound order) (order - 2) := by
  unfold trieSetup
  simp only [countsOf_length]
  rw [trieMiddleLoop_closed]
  exact ⟨rfl, rfl⟩


theorem cnt0 (bt : BT) (bound order : Nat) (ho : 1 ≤ order) : cnt (countsOf bt bound order) 0 = bound := by
  rw [countsOf_cnt _ _ _ 0 ho]; simp [level]

theorem plain_middle_getD (bt : BT) (bound order start : Nat) (sm : SmallOK bt bound order) (j : Nat) (hj : j + 2 < order) :
    (ofLayout 0 false false plainCfg (countsOf bt bound order) start).middles.getD j default =
      { base := plainS2 bt bound order start + psum (plainSz bt bound order) j, wordBits := requiredBits bound,
        totalBits := requiredBits bound + 63 + requiredBits (level bt bound (j + 3)).length,
        quantBits := 63, maxVocab := bound, bhik := .dont (requiredBits (level bt bound (j + 3)).length) } := by
  have ho := sm.order2
  have hW : requiredBits bound ≤ 57 := requiredBits_le_of_lt _ 57 (by omega) sm.boundLt
  have hI : requiredBits (level bt bound (j + 3)).length ≤ 57 := requiredBits_le_of_lt _ 57 (by omega) (sm.levels _ (by omega))
  have c0 := cnt0 bt bound order (by omega)
  have c2 : cnt (countsOf bt bound order) (2 + j) = (level bt bound (j + 3)).length := by
    rw [countsOf_cnt _ _ _ (2 + j) (by omega)]; congr 2; omega
  unfold ofLayout
  simp only [(plain_middles bt bound order start).1, List.map_map, List.getD_eq_getElem?_getD, List.getElem?_map,
    List.getElem?_range (show j < order - 2 by omega), Option.map_some, Option.getD_some, Function.comp]
  simp only [mkMiddle, inlineBits, bhikshaSize, Binary.totalBits, middleBits, Gen.C04.dontQuantMiddleBits, c0, c2,
    Bool.false_eq_true, if_false, Nat.add_zero]
  have e1 : (63 + requiredBits (level bt bound (j + 3)).length) % 256 = 63 + requiredBits (level bt bound (j + 3)).length :=
    Nat.mod_eq_of_lt (by omega)
  rw [e1, Nat.mod_eq_of_lt (by omega)]
  congr 1
  omega


theorem plainSz_ge (bt : BT) (bound order : Nat) (sm : SmallOK bt bound order) (j : Nat) (hj : j + 2 < order) :
    ((level bt bound (j + 2)).length + 1) * (requiredBits bound + 63 + requiredBits (level bt bound (j + 3)).length)
      ≤ 8 * plainSz bt bound order j := by
  have ho := sm.order2
  have hW : requiredBits bound ≤ 57 := requiredBits_le_of_lt _ 57 (by omega) sm.boundLt
  have hI : requiredBits (level bt bound (j + 3)).length ≤ 57 := requiredBits_le_of_lt _ 57 (by omega) (sm.levels _ (by omega))
  have c0 := cnt0 bt bound order (by omega)
  have c1 : cnt (countsOf bt bound order) (2 + j - 1) = (level bt bound (j + 2)).length := by
    rw [countsOf_cnt _ _ _ (2 + j - 1) (by omega)]; congr 2; omega
  have c2 : cnt (countsOf bt bound order) (2 + j) = (level bt bound (j + 3)).length := by
    rw [countsOf_cnt _ _ _ (2 + j) (by omega)]; congr 2; omega
  unfold plainSz
  simp only [middleSize, bhikshaSize, baseSize, inlineBits, Binary.totalBits, middleBits, Gen.C04.dontQuantMiddleBits,
    Gen.C04.bitPackedSlack, c0, c1, c2, Bool.false_eq_true, if_false, Nat.zero_add]
  have e1 : (63 + requiredBits (level bt bound (j + 3)).length) % 256 = 63 + requiredBits (level bt bound (j + 3)).length :=
    Nat.mod_eq_of_lt (by omega)
  rw [e1, Nat.mod_eq_of_lt (by omega)]
  have e2 : requiredBits bound + (63 + requiredBits (level bt bound (j + 3)).length)
      = requiredBits bound + 63 + requiredBits (level bt bound (j + 3)).length := by omega
  rw [e2, Nat.add_comm 1 _]
  generalize ((level bt bound (j + 2)).length + 1) * (requiredBits bound + 63 + requiredBits (level bt bound (j + 3)).length) = x
  omega

theorem zip_range_map {α β} (l : List α) (d : α) (g : α × Nat → β) :
    (l.zip (List.range l.length)).map g = (List.range l.length).map (fun j => g (l.getD j d, j)) := by
  apply List.ext_getElem
  · simp
  · intro i h1 h2
    simp at h1
    simp [List.getD_eq_getElem?_getD, h1]


theorem shapeOK_of_small (bt : BT) (bound order start : Nat) (sm : SmallOK bt bound order) : ShapeOK bt bound order start := by
  have ho := sm.order2
  have hW : requiredBits bound ≤ 57 := requiredBits_le_of_lt _ 57 (by omega) sm.boundLt
  have c0 := cnt0 bt bound order (by omega)
  have hnmid : (ofLayout 0 false false plainCfg (countsOf bt bound order) start).middles.length = order - 2 := by
    unfold ofLayout; simp [(plain_middles bt bound order start).1]
  have hlong : (ofLayout 0 false false plainCfg (countsOf bt bound order) start).longest =
      { base := plainS2 bt bound order start + psum (plainSz bt bound order) (order - 2), wordBits := requiredBits bound,
        totalBits := requiredBits bound + 31, maxVocab := bound } := by
    have h1 := (plain_middles bt bound order start).2
    unfold ofLayout
    simp only [h1, c0]
    simp only [trieSetup, Binary.totalBits, longestBits, Gen.C04.dontQuantLongestBits, c0, Bool.false_eq_true, if_false]
    rw [Nat.mod_eq_of_lt (by omega)]
  refine ⟨hnmid, fun om2 h => ⟨_, plain_middle_getD bt bound order start sm om2 h⟩, ⟨_, hlong⟩, ?_,
    ⟨hW, fun k hk => requiredBits_le_of_lt _ 57 (by omega) (sm.levels k hk)⟩,
    ⟨Nat.lt_trans sm.boundLt (by decide), fun k hk => Nat.lt_trans (sm.levels k hk) (by decide)⟩⟩
  -- the regions in file order
  have hmids : ((ofLayout 0 false false plainCfg (countsOf bt bound order) start).middles.zip
        (List.range (ofLayout 0 false false plainCfg (countsOf bt bound order) start).middles.length)).map
        (fun mi => midRegion bt bound (mi.2 + 2) mi.1 (bhikBits mi.1.bhik))
      = (List.range (order - 2)).map (fun j => midRegion bt bound (j + 2)
          { base := plainS2 bt bound order start + psum (plainSz bt bound order) j, wordBits := requiredBits bound,
            totalBits := requiredBits bound + 63 + requiredBits (level bt bound (j + 3)).length,
            quantBits := 63, maxVocab := bound, bhik := .dont (requiredBits (level bt bound (j + 3)).length) }
          (requiredBits (level bt bound (j + 3)).length)) := by
    rw [zip_range_map _ default, hnmid]
    apply List.map_congr_left
    intro j hj
    have hj' : j + 2 < order := by have := List.mem_range.mp hj; omega
    simp only [plain_middle_getD bt bound order start sm j hj', bhikBits]
  unfold regionsOf
  rw [hmids, hlong]
  have hU : (ofLayout 0 false false plainCfg (countsOf bt bound order) start).unigram = start := by
    unfold ofLayout trieSetup; simp [quantSize]
  rw [hU]
  have hs2 : 8 * start + (bound + 1) * (8 * 16) ≤ 8 * plainS2 bt bound order start := by
    simp only [plainS2, trieUnigramSize, c0, Gen.C04.sizeofTrieUnigramValue]; omega
  have hmidBefore : ∀ j, j + 2 < order → ∀ base', 8 * (plainS2 bt bound order start + psum (plainSz bt bound order) (j + 1)) ≤ base' →
      8 * (plainS2 bt bound order start + psum (plainSz bt bound order) j)
        + ((level bt bound (j + 2)).length + 1) * (requiredBits bound + 63 + requiredBits (level bt bound (j + 3)).length) ≤ base' := by
    intro j hj base' hb
    have := plainSz_ge bt bound order sm j hj
    simp only [psum] at hb
    omega
  rw [List.pairwise_append]
  refine ⟨?_, by simp, ?_⟩
  · rw [List.pairwise_append]
    refine ⟨by simp, ?_, ?_⟩
    · -- middles among themselves
      rw [List.pairwise_map]
      refine List.Pairwise.imp_of_mem ?_ (List.pairwise_lt_range (n := order - 2))
      intro j j' hj hj' hlt
      have h1 := List.mem_range.mp hj
      have h2 := List.mem_range.mp hj'
      show _ + _ * _ ≤ _
      simp only [midRegion]
      apply hmidBefore j (by omega)
      have := psum_mono (plainSz bt bound order) (show j + 1 ≤ j' by omega)
      omega
    · -- unigrams before every middle
      intro a ha b hb
      simp only [List.mem_singleton] at ha
      subst ha
      simp only [List.mem_map, List.mem_range] at hb
      obtain ⟨j, _, rfl⟩ := hb
      show _ + _ * _ ≤ _
      simp only [uniRegion, midRegion, Gen.C04.sizeofTrieUnigramValue]
      omega
  · intro a ha b hb
    simp only [List.mem_singleton] at hb
    subst hb
    simp only [List.mem_append, List.mem_singleton, List.mem_map, List.mem_range] at ha
    rcases ha with rfl | ⟨j, hj, rfl⟩
    · show _ + _ * _ ≤ _
      simp only [uniRegion, longRegion, Gen.C04.sizeofTrieUnigramValue]
      omega
    · show _ + _ * _ ≤ _
      simp only [midRegion, longRegion]
      apply hmidBefore j (by omega)
      have := psum_mono (plainSz bt bound order) (show j + 1 ≤ order - 2 by omega)
      omega


end KV.TrieLM
