import Proofs.InterpStream
import Mathlib.Data.List.Nodup
import Mathlib.Data.List.Perm.Basic
/-!
The `ContextOrder`-sorted merged-probability streams of a suffix-closed union model have the grouped
shape `levelsE` assumed by the pass-2 refinement (`Proofs/InterpStream.lean`).
-/
namespace KV.Interp

/-! ### the lexicographic order used by the model -/

theorem lexLe_refl : ∀ a : List Nat, lexLe a a = true
  | [] => rfl
  | x :: xs => by simp [lexLe, lexLe_refl xs]

theorem lexLe_total : ∀ a b : List Nat, (lexLe a b || lexLe b a) = true
  | [], _ => by simp [lexLe]
  | _ :: _, [] => by simp [lexLe]
  | x :: xs, y :: ys => by
    have ih := lexLe_total xs ys
    by_cases h1 : x < y
    · simp [lexLe, h1]
    · by_cases h2 : y < x
      · simp [lexLe, h1, h2]
      · have : x = y := by omega
        subst this
        simpa [lexLe] using ih

theorem lexLe_antisymm : ∀ a b : List Nat, lexLe a b = true → lexLe b a = true → a = b
  | [], [], _, _ => rfl
  | [], _ :: _, _, h => by simp [lexLe] at h
  | _ :: _, [], h, _ => by simp [lexLe] at h
  | x :: xs, y :: ys, h1, h2 => by
    by_cases hxy : x < y
    · have : ¬ y < x := by omega
      simp [lexLe, hxy, this] at h2
    · by_cases hyx : y < x
      · simp [lexLe, hxy, hyx] at h1
      · have : x = y := by omega
        subst this
        simp only [lexLe, hxy, if_false] at h1 h2
        rw [lexLe_antisymm xs ys h1 h2]

theorem lexLe_trans : ∀ a b c : List Nat, lexLe a b = true → lexLe b c = true → lexLe a c = true
  | [], _, _, _, _ => by simp [lexLe]
  | _ :: _, [], _, h, _ => by simp [lexLe] at h
  | _ :: _, _ :: _, [], _, h => by simp [lexLe] at h
  | x :: xs, y :: ys, z :: zs, h1, h2 => by
    by_cases hxy : x < y
    · by_cases hyz : y < z
      · simp [lexLe, show x < z by omega]
      · by_cases hzy : z < y
        · simp [lexLe, hyz, hzy] at h2
        · have : y = z := by omega
          subst this
          simp [lexLe, hxy]
    · by_cases hyx : y < x
      · simp [lexLe, hxy, hyx] at h1
      · have : x = y := by omega
        subst this
        simp only [lexLe, hxy, if_false] at h1
        by_cases hxz : x < z
        · simp [lexLe, hxz]
        · by_cases hzx : z < x
          · simp [lexLe, hxz, hzx] at h2
          · have : x = z := by omega
            subst this
            simp only [lexLe, hxz, if_false] at h2 ⊢
            exact lexLe_trans xs ys zs h1 h2

theorem lexLe_append_left : ∀ (l a b : List Nat), lexLe (l ++ a) (l ++ b) = lexLe a b
  | [], _, _ => rfl
  | x :: l, a, b => by simp [lexLe, lexLe_append_left l a b]

theorem lexLe_cons_lt {x y : Nat} (h : x < y) (a b : List Nat) : lexLe (x :: a) (y :: b) = true := by
  simp [lexLe, h]

/-- the sort key of a record -/
def key (r : Rec Nat) : List Nat := r.1.reverse ++ [r.2]

theorem key_inj {a b : Rec Nat} (h : key a = key b) : a = b := by
  unfold key at h
  have := List.append_inj' h rfl
  have h1 : a.1 = b.1 := List.reverse_injective this.1
  have h2 : a.2 = b.2 := by simpa using this.2
  exact Prod.ext h1 h2

theorem ctxOrderLe_trans (a b c : Rec Nat) : ctxOrderLe a b = true → ctxOrderLe b c = true →
    ctxOrderLe a c = true := lexLe_trans _ _ _

theorem ctxOrderLe_total (a b : Rec Nat) : (ctxOrderLe a b || ctxOrderLe b a) = true :=
  lexLe_total _ _

theorem ctxOrderLe_antisymm (a b : Rec Nat) (h1 : ctxOrderLe a b = true) (h2 : ctxOrderLe b a = true) :
    a = b := key_inj (lexLe_antisymm _ _ h1 h2)

/-! ### the levels of `levels`, one at a time -/
section Lev
variable {W : Type} (X Y : List W → List W)

/-- records `j` words of context deeper than `c`, in the subtree of `c` -/
def lev : Nat → List W → List (Rec W)
  | 0, c => own X c
  | j + 1, c => (Y c).flatMap (fun y => lev j (y :: c))

theorem getD_zipWith_append {α : Type} : ∀ (A B : List (List α)) (j : Nat), j < A.length → j < B.length →
    (List.zipWith (· ++ ·) A B).getD j [] = A.getD j [] ++ B.getD j []
  | [], _, _, h, _ => by simp at h
  | _ :: _, [], _, _, h => by simp at h
  | a :: A, b :: B, 0, _, _ => by simp
  | a :: A, b :: B, j + 1, hA, hB => by
    simp only [List.zipWith_cons_cons, List.getD_cons_succ]
    exact getD_zipWith_append A B j (by simpa using hA) (by simpa using hB)

theorem getD_replicate_nil {α : Type} (n j : Nat) : (List.replicate n ([] : List α)).getD j [] = [] := by
  rw [List.getD_eq_getElem?_getD, List.getElem?_replicate]
  split <;> rfl

theorem getD_levelsE [DecidableEq W] (d j : Nat) (hj : j ≤ d) (c : List W) : ∀ ys : List W,
    (levelsE X Y d ys c).getD j [] = ys.flatMap (fun y => (levels X Y d (y :: c)).getD j [])
  | [] => by rw [levelsE_nil, getD_replicate_nil]; rfl
  | y :: ys => by
    rw [levelsE_cons, getD_zipWith_append _ _ j (by rw [length_levels]; omega)
      (by rw [length_levelsE]; omega), getD_levelsE d j hj c ys, List.flatMap_cons]

theorem getD_levels [DecidableEq W] : ∀ (d j : Nat) (c : List W), j ≤ d →
    (levels X Y d c).getD j [] = lev X Y j c
  | 0, 0, c, _ => rfl
  | 0, j + 1, _, h => by omega
  | d + 1, 0, c, _ => rfl
  | d + 1, j + 1, c, h => by
    rw [levels_succ, List.getD_cons_succ, getD_levelsE X Y d j (by omega) c, lev]
    apply List.flatMap_congr
    intro y _
    exact getD_levels d j (y :: c) (by omega)

/-- membership in a level, as a recursion -/
def InLev : Nat → List W → Rec W → Prop
  | 0, c, r => r.1 = c ∧ r.2 ∈ X c
  | j + 1, c, r => ∃ y ∈ Y c, InLev j (y :: c) r

theorem mem_lev : ∀ (j : Nat) (c : List W) (r : Rec W), r ∈ lev X Y j c ↔ InLev X Y j c r
  | 0, c, r => by
    unfold lev own InLev
    rw [List.mem_map]
    constructor
    · rintro ⟨x, hx, rfl⟩; exact ⟨rfl, hx⟩
    · rintro ⟨h1, h2⟩; exact ⟨r.2, h2, by rw [← h1]⟩
  | j + 1, c, r => by
    unfold lev InLev
    rw [List.mem_flatMap]
    constructor
    · rintro ⟨y, hy, h⟩; exact ⟨y, hy, (mem_lev j (y :: c) r).1 h⟩
    · rintro ⟨y, hy, h⟩; exact ⟨y, hy, (mem_lev j (y :: c) r).2 h⟩

/-- every record of level `j` below `c` has a context `p ++ c` with `|p| = j` -/
theorem inLev_ctx : ∀ (j : Nat) (c : List W) (r : Rec W), InLev X Y j c r →
    ∃ p, p.length = j ∧ r.1 = p ++ c
  | 0, c, r, h => ⟨[], rfl, h.1⟩
  | j + 1, c, r, ⟨y, _, h⟩ => by
    obtain ⟨p, hp, hr⟩ := inLev_ctx j (y :: c) r h
    exact ⟨p ++ [y], by simp [hp], by rw [hr]; simp⟩

end Lev

/-! ### the concrete sorted streams -/
section Concrete
variable (cs : Comps Nat)

/-- the union n-gram set is closed under dropping the first word (lmplz models are) -/
def UnionSuffixClosed : Prop :=
  ∀ g ∈ unionGrams cs, g.1 ≠ [] → (g.1.tail, g.2) ∈ unionGrams cs

theorem mem_sortedX {c : List Nat} {x : Nat} : x ∈ sortedX cs c ↔ (c, x) ∈ unionGrams cs := by
  unfold sortedX
  rw [List.mem_mergeSort, mem_unionGrams_iff_explicit]

theorem mem_sortedY {c : List Nat} {y : Nat} :
    y ∈ sortedY cs c ↔ ∃ x, (y :: c, x) ∈ unionGrams cs := by
  unfold sortedY
  rw [List.mem_mergeSort, mem_dedup, List.mem_filterMap]
  constructor
  · rintro ⟨g, hg, h⟩
    rcases g with ⟨ctx, x⟩
    cases ctx with
    | nil => simp at h
    | cons y' c' =>
      simp only at h
      split at h
      · rename_i hc
        have : y' = y := by simpa using h
        exact ⟨x, by rw [← this, ← hc]; exact hg⟩
      · simp at h
  · rintro ⟨x, hx⟩
    exact ⟨(y :: c, x), hx, by simp⟩

theorem union_drop (h : UnionSuffixClosed cs) : ∀ (p c : List Nat) (x : Nat),
    (p ++ c, x) ∈ unionGrams cs → (c, x) ∈ unionGrams cs
  | [], _, _, hm => hm
  | y :: p, c, x, hm => union_drop h p c x (by simpa using h (y :: p ++ c, x) hm (by simp))

/-- the records of level `j` below `c` are exactly the union n-grams whose context is `c` extended
by `j` words to the left -/
theorem inLev_iff (h : UnionSuffixClosed cs) : ∀ (j : Nat) (c : List Nat) (r : Rec Nat),
    InLev (sortedX cs) (sortedY cs) j c r ↔
      (r.1, r.2) ∈ unionGrams cs ∧ ∃ p, p.length = j ∧ r.1 = p ++ c
  | 0, c, r => by
    unfold InLev
    rw [mem_sortedX]
    constructor
    · rintro ⟨h1, h2⟩; exact ⟨h1 ▸ h2, [], rfl, h1⟩
    · rintro ⟨h1, p, hp, hr⟩
      have : p = [] := List.length_eq_zero_iff.1 hp
      subst this
      have hr' : r.1 = c := by simpa using hr
      exact ⟨hr', hr' ▸ h1⟩
  | j + 1, c, r => by
    unfold InLev
    constructor
    · rintro ⟨y, _, hin⟩
      obtain ⟨hm, p, hp, hr⟩ := (inLev_iff h j (y :: c) r).1 hin
      exact ⟨hm, p ++ [y], by simp [hp], by rw [hr]; simp⟩
    · rintro ⟨hm, p, hp, hr⟩
      obtain ⟨p', y, rfl⟩ : ∃ p' y, p = p' ++ [y] := by
        rcases List.eq_nil_or_concat p with h0 | ⟨p', y, h1⟩
        · rw [h0] at hp; simp at hp
        · exact ⟨p', y, by rw [h1, List.concat_eq_append]⟩
      have hr' : r.1 = p' ++ (y :: c) := by rw [hr]; simp
      refine ⟨y, ?_, (inLev_iff h j (y :: c) r).2 ⟨hm, p', by simpa using hp, hr'⟩⟩
      rw [mem_sortedY]
      exact ⟨r.2, union_drop cs h p' (y :: c) r.2 (hr' ▸ hm)⟩

/-- strict version of the stream order -/
def ctxLt (a b : Rec Nat) : Prop := ctxOrderLe a b = true ∧ a ≠ b

theorem pairwise_lt_sorted (l : List Nat) (hnd : l.Nodup) :
    (l.mergeSort (fun a b => decide (a ≤ b))).Pairwise (· < ·) := by
  have hs : (l.mergeSort (fun a b => decide (a ≤ b))).Pairwise (fun a b => decide (a ≤ b) = true) :=
    List.pairwise_mergeSort (fun a b c h1 h2 => by simp at *; omega) (fun a b => by simp; omega) l
  have hnd' : (l.mergeSort (fun a b => decide (a ≤ b))).Nodup := (List.mergeSort_perm l _).nodup_iff.2 hnd
  have hne := List.nodup_iff_pairwise_ne.1 hnd'
  exact (hs.and hne).imp (fun ⟨h1, h2⟩ => by simp at h1; omega)

theorem nodup_sortedY_src (c : List Nat) : (sortedY cs c).Pairwise (· < ·) := by
  unfold sortedY
  exact pairwise_lt_sorted _ (nodup_dedup _)

theorem pairwise_sortedX (c : List Nat) : (sortedX cs c).Pairwise (· < ·) := by
  unfold sortedX
  exact pairwise_lt_sorted _ (nodup_explicit cs c)

/-- every level is strictly sorted in `ContextOrder` -/
theorem pairwise_lev : ∀ (j : Nat) (c : List Nat),
    (lev (sortedX cs) (sortedY cs) j c).Pairwise ctxLt
  | 0, c => by
    unfold lev own
    rw [List.pairwise_map]
    apply (pairwise_sortedX cs c).imp
    intro a b hab
    refine ⟨?_, fun h => by have := (Prod.ext_iff.1 h).2; simp at this; omega⟩
    unfold ctxOrderLe
    rw [lexLe_append_left]
    exact lexLe_cons_lt hab _ _
  | j + 1, c => by
    unfold lev
    rw [List.pairwise_flatMap]
    refine ⟨fun y _ => pairwise_lev j (y :: c), ?_⟩
    apply (nodup_sortedY_src cs c).imp
    intro y1 y2 hlt r1 h1 r2 h2
    obtain ⟨p1, hp1, hr1⟩ := inLev_ctx _ _ j (y1 :: c) r1 ((mem_lev _ _ j _ r1).1 h1)
    obtain ⟨p2, hp2, hr2⟩ := inLev_ctx _ _ j (y2 :: c) r2 ((mem_lev _ _ j _ r2).1 h2)
    have hk1 : r1.1.reverse ++ [r1.2] = c.reverse ++ (y1 :: (p1.reverse ++ [r1.2])) := by
      rw [hr1]; simp
    have hk2 : r2.1.reverse ++ [r2.2] = c.reverse ++ (y2 :: (p2.reverse ++ [r2.2])) := by
      rw [hr2]; simp
    refine ⟨?_, ?_⟩
    · unfold ctxOrderLe
      rw [hk1, hk2, lexLe_append_left]
      exact lexLe_cons_lt hlt _ _
    · intro heq
      have : key r1 = key r2 := by rw [heq]
      unfold key at this
      rw [hk1, hk2] at this
      have := List.append_cancel_left this
      have : y1 = y2 := (List.cons.inj this).1
      omega

/-- **shape of the sorted streams**: for a suffix-closed union, the stream of order `j + 2` sorted in
`ContextOrder` is level `j + 1` of the context tree below the empty context -/
theorem sortedStream_eq_lev (h : UnionSuffixClosed cs) (j : Nat) :
    sortedStream cs (j + 2) = lev (sortedX cs) (sortedY cs) (j + 1) [] := by
  unfold sortedStream
  have hp := pairwise_lev cs (j + 1) []
  set L := lev (sortedX cs) (sortedY cs) (j + 1) [] with hL
  set Fl := (unionGrams cs).filter (fun g => g.1.length + 1 == j + 2) with hFl
  have hndL : L.Nodup := List.nodup_iff_pairwise_ne.2 (hp.imp (fun h => h.2))
  have hndF : Fl.Nodup := (nodup_unionGrams cs).filter _
  have hperm : (Fl.mergeSort ctxOrderLe).Perm L := by
    apply (List.mergeSort_perm Fl ctxOrderLe).trans
    apply (List.perm_ext_iff_of_nodup hndF hndL).2
    intro r
    rw [hL, mem_lev, inLev_iff cs h, hFl, List.mem_filter]
    constructor
    · rintro ⟨hm, hlen⟩
      refine ⟨hm, r.1, ?_, by simp⟩
      simpa using hlen
    · rintro ⟨hm, p, hp', hr⟩
      refine ⟨hm, ?_⟩
      rw [hr]; simp [hp']
  have hs := List.pairwise_mergeSort ctxOrderLe_trans ctxOrderLe_total Fl
  exact hperm.eq_of_pairwise (fun a b _ _ => ctxOrderLe_antisymm a b) hs (hp.imp (fun h => h.1))

/-- **the sorted streams of all orders have the grouped shape** assumed by `pass2_refines` -/
theorem levelsE_eq_sortedStreams (h : UnionSuffixClosed cs) (D : Nat) :
    levelsE (sortedX cs) (sortedY cs) D (sortedY cs []) [] =
      (List.range (D + 1)).map (fun j => sortedStream cs (j + 2)) := by
  apply List.ext_getElem
  · rw [length_levelsE]; simp
  · intro j h1 h2
    have hj : j ≤ D := by rw [length_levelsE] at h1; omega
    have := getD_levelsE (sortedX cs) (sortedY cs) D j hj [] (sortedY cs [])
    rw [List.getD_eq_getElem?_getD, List.getElem?_eq_getElem h1, Option.getD_some] at this
    rw [this, List.getElem_map, List.getElem_range, sortedStream_eq_lev cs h j, lev]
    apply List.flatMap_congr
    intro y _
    exact getD_levels (sortedX cs) (sortedY cs) D j [y] hj

/-- the context tree of a union model is always well formed -/
theorem good_sorted : ∀ (d : Nat) (c : List Nat), Good (sortedX cs) (sortedY cs) d c
  | 0, _ => trivial
  | d + 1, c => by
    refine ⟨List.nodup_iff_pairwise_ne.2 ((nodup_sortedY_src cs c).imp (fun h => Nat.ne_of_lt h)), ?_⟩
    intro y hy
    refine ⟨?_, good_sorted d (y :: c)⟩
    obtain ⟨x, hx⟩ := (mem_sortedY cs).1 hy
    exact List.ne_nil_of_mem ((mem_sortedX cs).2 hx)

/-- **Pass 2 on the sorted streams.**  For a suffix-closed union model, running the stream recursion
of `normalize.cc` on the `ContextOrder`-sorted streams of the orders `2 … D + 2` consumes every record
and writes exactly the functional model's values. -/
theorem pass2_sorted {F : Type} [Field F] (E : ℚ → F) (V : List Nat) (h : UnionSuffixClosed cs)
    (D fuel : Nat) (hfuel : needE (sortedY cs) D (sortedY cs []) [] ≤ fuel) :
    extendCtx E cs fuel ((List.range (D + 1)).map (fun j => sortedStream cs (j + 2))) []
        (Zinc E cs V []) =
      (List.replicate (D + 1) [],
        (sortedY cs []).flatMap (fun y => specOut E cs V (sortedX cs) (sortedY cs) D [y])) := by
  rw [← levelsE_eq_sortedStreams cs h D]
  apply pass2_refines E cs V (sortedX cs) (sortedY cs) (fun c => List.mergeSort_perm _ _) D fuel hfuel
  · intro y hy
    refine ⟨?_, good_sorted cs D [y]⟩
    obtain ⟨x, hx⟩ := (mem_sortedY cs).1 hy
    exact List.ne_nil_of_mem ((mem_sortedX cs).2 hx)
  · exact List.nodup_iff_pairwise_ne.2 ((nodup_sortedY_src cs []).imp (fun h => Nat.ne_of_lt h))

end Concrete

end KV.Interp
