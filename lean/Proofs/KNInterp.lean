import Model.KNSpec
import Proofs.KNNorm
import Mathlib.Tactic.Ring
import Mathlib.Tactic.Linarith
/-!
Streaming stages 3 and 4 of `lmplz` (`Model/KN.lean` §4–§5) against the set-based
specification (`Model/KNSpec.lean`): theorem family `interp_eq` of property C05.

* §1–2 `addRight_eq`, `mergeRight_eq`, `mergeRightUnigram_eq` (+ `specUninterp1_uGamma`)
* §3 `ctxRuns_ok`/`ctxRuns_sorted`/`ctxRuns_eq_filter`, `runs_perm_group`, `initialOrder_gams`
* §4 `dropLast_le_of_lt`, `dropLast_sorted`, `joinLower_eq`, `joinLower_error(_only)`
* §5 `takeBackoffsSeq_eq`, `takeBackoffsHash_eq`
* §6 `interpOrder_eq` (per-record formula under `LowerOK`/`NextOK`)
* §7 `initialOrder_us(1)`, `gamOf_initialOrder`, `boVal_backoff`, `interpOrder_spec`
* §8 `us_map_entry`, `interpOrder_specOrder` (= the entry list `Spec.estimateFrom` writes)
* §10 `interpAll_eq`, `interp_eq` (all orders, under `OrderOK`); `ClosureFacts`,
  `OrderOKOfClosure` are stated only
* §11 non-vacuity examples
-/
namespace KV.KN.Interp

open KV.KN KV.KN.Norm

/-! ## 1. `addRight` -/

theorem get_zero (d : Disc) : d.get 0 = 0 := rfl

/-- the per-record summand of `dsum + norm` -/
theorem addRight_term (d : Disc) (e : Emit) :
    (if e.cutoff > 0 then d.get e.cutoff else 0) + ((e.count - e.cutoff : Nat) : Rat)
      = if e.marked then (e.count : Rat) else d.get e.count := by
  unfold Emit.cutoff
  by_cases hm : e.marked = true
  · simp [hm]
  · have hm' : e.marked = false := by simpa using hm
    simp only [hm', Bool.false_eq_true, if_false, Nat.sub_self, Nat.cast_zero, add_zero]
    by_cases hc : e.count > 0
    · simp [hc]
    · have : e.count = 0 := by omega
      simp [this, get_zero]

theorem addRight_num (d : Disc) (run : List Emit) :
    (run.map fun e => if e.cutoff > 0 then d.get e.cutoff else 0).sum
        + (((run.map fun e => e.count - e.cutoff).sum : Nat) : Rat)
      = (run.map fun e => if e.marked then (e.count : Rat) else d.get e.count).sum := by
  rw [cast_sum_map, ← sum_map_add]
  exact sum_map_congr _ _ _ fun e _ => addRight_term d e

theorem sum_nat_perm {α : Type} {l₁ l₂ : List α} (h : l₁.Perm l₂) (f : α → Nat) :
    (l₁.map f).sum = (l₂.map f).sum := (h.map f).sum_eq

theorem addRight_den (d : Disc) (es run : List Emit) (ctx : Gram)
    (hp : run.Perm (Spec.group es ctx)) : (addRight d run).den = Spec.den es ctx := by
  simp only [addRight, Spec.den]
  exact sum_nat_perm hp _

theorem addRight_gamma (d : Disc) (es run : List Emit) (ctx : Gram)
    (hp : run.Perm (Spec.group es ctx)) : (addRight d run).gamma = Spec.gamma d es ctx := by
  have hden := addRight_den d es run ctx hp
  simp only [addRight] at hden
  simp only [addRight, Spec.gamma]
  rw [addRight_num, hden, sum_map_perm hp]

theorem addRight_ctx (d : Disc) (run : List Emit) (ctx : Gram) (hne : run ≠ [])
    (hc : ∀ e ∈ run, e.gram.tail = ctx) : (addRight d run).ctx = ctx := by
  cases run with
  | nil => exact absurd rfl hne
  | cons a t => simp [addRight, hc a (List.mem_cons_self)]

/-- **`AddRight` computes the denominator and the interpolation weight of its context.** -/
theorem addRight_eq (d : Disc) (es run : List Emit) (ctx : Gram) (hne : run ≠ [])
    (hc : ∀ e ∈ run, e.gram.tail = ctx) (hp : run.Perm (Spec.group es ctx)) :
    (addRight d run).den = Spec.den es ctx ∧ (addRight d run).gamma = Spec.gamma d es ctx ∧
      (addRight d run).ctx = ctx :=
  ⟨addRight_den d es run ctx hp, addRight_gamma d es run ctx hp, addRight_ctx d run ctx hne hc⟩

/-! ## 2. `mergeRight` -/

/-- the record `MergeRight` should produce for `e` (order ≥ 2) -/
def specUninterp (d : Disc) (es : List Emit) (e : Emit) : Uninterp :=
  ⟨e.gram, Spec.uProb d es e, Spec.gamma d es e.gram.tail, keptBy e⟩

/-- **`MergeRight` (order ≥ 2)**: every record gets `u`, `γ` of the specification. -/
theorem mergeRight_eq (d : Disc) (es run : List Emit) (ctx : Gram)
    (hc : ∀ e ∈ run, e.gram.tail = ctx) (hp : run.Perm (Spec.group es ctx)) :
    mergeRight d run = run.map (specUninterp d es) := by
  unfold mergeRight
  apply List.map_congr_left
  intro e he
  simp only [specUninterp, Spec.uProb, hc e he, addRight_den d es run ctx hp,
    addRight_gamma d es run ctx hp]

/-- the record the unigram branch of `MergeRight` should produce, in terms of the spec values -/
def specUninterp1 (interpUni : Bool) (d : Disc) (es : List Emit) (e : Emit) : Uninterp :=
  let gm := Spec.gamma d es []
  if e.gram = [unk] then ⟨e.gram, if interpUni then 0 else gm, if interpUni then gm else 0, keptBy e⟩
  else if e.gram = [bos] then ⟨e.gram, 1, 0, keptBy e⟩
  else ⟨e.gram, d.apply e.count / (Spec.den es [] : Rat), if interpUni then gm else 0, keptBy e⟩

theorem rawCount_unmarked {e : Emit} (h : e.marked = false) : e.rawCount = e.count := by
  simp [Emit.rawCount, h]

/-- **`MergeRight`, unigram branch**, for runs in which no ordinary record is marked (the raw
count the C++ reads includes the mark bit; see `mergeRightUnigram_marked` for what happens
otherwise). -/
theorem mergeRightUnigram_eq (interpUni : Bool) (d : Disc) (es run : List Emit)
    (hp : run.Perm (Spec.group es []))
    (hm : ∀ e ∈ run, e.gram ≠ [unk] → e.gram ≠ [bos] → e.marked = false) :
    mergeRightUnigram interpUni d run = run.map (specUninterp1 interpUni d es) := by
  unfold mergeRightUnigram
  apply List.map_congr_left
  intro e he
  simp only [specUninterp1, addRight_den d es run [] hp, addRight_gamma d es run [] hp]
  by_cases h1 : e.gram = [unk]
  · simp only [h1, if_true]
  · by_cases h2 : e.gram = [bos]
    · simp only [h2, if_true]
    · simp only [h1, h2, if_false, rawCount_unmarked (hm e he h1 h2)]

/-- the first two components of `specUninterp1` are `Spec.Ctx.uGamma` when the records have
distinct n-grams of length one -/
theorem specUninterp1_uGamma (c : Spec.Ctx) (e : Emit) (he : e ∈ c.esAt 1)
    (hl : e.gram.length = 1) (hnd : ((c.esAt 1).map (·.gram)).Nodup) :
    ((specUninterp1 c.cfg.interpUni (c.dAt 1) (c.esAt 1) e).u,
      (specUninterp1 c.cfg.interpUni (c.dAt 1) (c.esAt 1) e).gamma) = c.uGamma e.gram := by
  have hf := find_of_nodup (c.esAt 1) hnd e he
  unfold Spec.Ctx.uGamma specUninterp1
  simp only [hl, hf, BEq.rfl, if_true, Option.map_some, Option.getD_some]
  by_cases h2 : e.gram = [bos]
  · have hbu : bos ≠ unk := by decide
    simp [h2, hbu]
  · by_cases h1 : e.gram = [unk]
    · have hb : ([unk] == [bos]) = false := by decide
      simp only [h1, if_true, hb, Bool.false_eq_true, if_false, BEq.rfl]
      cases c.cfg.interpUni <;> simp
    · simp only [h1, h2, if_false, beq_iff_eq]

/-! ## 3. `ctxRuns` -/

/-! the lexicographic order of `Gram = List Nat` (core lemmas, no `LinearOrder` instance) -/

theorem glt_trans {a b c : Gram} (h1 : a < b) (h2 : b < c) : a < c := List.lt_trans h1 h2
theorem gle_of_lt {a b : Gram} (h : a < b) : a ≤ b := List.le_of_lt h
theorem gle_refl (a : Gram) : a ≤ a := List.le_refl a
theorem gne_of_lt {a b : Gram} (h : a < b) : a ≠ b := fun e => List.lt_irrefl b (e ▸ h)
theorem glt_of_le_of_ne {a b : Gram} (h : a ≤ b) (hne : a ≠ b) : a < b :=
  (List.le_iff_lt_or_eq.mp h).resolve_right hne
theorem glt_trichotomy (a b : Gram) : a < b ∨ a = b ∨ b < a := by
  by_cases h : a < b
  · exact Or.inl h
  · rcases List.le_iff_lt_or_eq.mp (List.not_lt.mp h) with h2 | h2
    · exact Or.inr (Or.inr h2)
    · exact Or.inr (Or.inl h2.symm)
theorem glt_of_le_of_lt {a b c : Gram} (h1 : a ≤ b) (h2 : b < c) : a < c := List.lt_of_le_of_lt h1 h2
theorem glt_of_lt_of_le {a b c : Gram} (h1 : a < b) (h2 : b ≤ c) : a < c := by
  rcases List.le_iff_lt_or_eq.mp h2 with h | h
  · exact glt_trans h1 h
  · exact h ▸ h1
theorem gle_trans {a b c : Gram} (h1 : a ≤ b) (h2 : b ≤ c) : a ≤ c := List.le_trans h1 h2

/-- the context of a run (of its first record) -/
def runCtx (r : List Emit) : Gram := (r.head?.map (·.gram.tail)).getD []

theorem addRight_ctx_eq (d : Disc) (r : List Emit) : (addRight d r).ctx = runCtx r := rfl

/-- what `ctxRuns` guarantees without any assumption on the input -/
structure RunsOK (l : List Emit) (rs : List (List Emit)) : Prop where
  flat : rs.flatten = l
  ne : ∀ r ∈ rs, r ≠ []
  const : ∀ r ∈ rs, ∀ e ∈ r, e.gram.tail = runCtx r

theorem ctxRuns_ok (l : List Emit) : RunsOK l (ctxRuns l) := by
  induction l with
  | nil => exact ⟨rfl, by simp [ctxRuns], by simp [ctxRuns]⟩
  | cons e t ih =>
    rcases hrt : ctxRuns t with _ | ⟨r0, rs⟩
    · have ht : t = [] := by have := ih.flat; rw [hrt] at this; simpa using this.symm
      subst ht
      refine ⟨by simp [ctxRuns], by simp [ctxRuns], ?_⟩
      intro r hr x hx
      simp only [ctxRuns, List.mem_singleton] at hr
      subst hr
      simp only [List.mem_singleton] at hx
      subst hx; rfl
    · rcases r0 with _ | ⟨f, r⟩
      · exact absurd rfl (ih.ne [] (by rw [hrt]; exact List.mem_cons_self))
      · have hflat : (f :: r) ++ rs.flatten = t := by
          have := ih.flat; rw [hrt] at this; simpa using this
        have hne := ih.ne; have hconst := ih.const
        rw [hrt] at hne hconst
        by_cases hef : e.gram.tail = f.gram.tail
        · have hcr : ctxRuns (e :: t) = (e :: f :: r) :: rs := by
            simp only [ctxRuns, hrt, hef, if_true]
          rw [hcr]
          refine ⟨by simp [← hflat], ?_, ?_⟩
          · intro x hx
            rcases List.mem_cons.mp hx with h | h
            · subst h; simp
            · exact hne x (List.mem_cons_of_mem _ h)
          · intro x hx y hy
            rcases List.mem_cons.mp hx with h | h
            · subst h
              rcases List.mem_cons.mp hy with h2 | h2
              · subst h2; rfl
              · have := hconst (f :: r) List.mem_cons_self y h2
                rw [this]; simp [runCtx, hef]
            · exact hconst x (List.mem_cons_of_mem _ h) y hy
        · have hcr : ctxRuns (e :: t) = [e] :: (f :: r) :: rs := by
            simp only [ctxRuns, hrt, hef, if_false]
          rw [hcr]
          refine ⟨by simp [← hflat], ?_, ?_⟩
          · intro x hx
            rcases List.mem_cons.mp hx with h | h
            · subst h; simp
            · exact hne x h
          · intro x hx y hy
            rcases List.mem_cons.mp hx with h | h
            · subst h
              simp only [List.mem_singleton] at hy
              subst hy; rfl
            · exact hconst x h y hy

theorem ctxRuns_flatten (l : List Emit) : (ctxRuns l).flatten = l := (ctxRuns_ok l).flat

theorem ctxRuns_ne_nil (l : List Emit) : ∀ r ∈ ctxRuns l, r ≠ [] := (ctxRuns_ok l).ne

theorem ctxRuns_const (l : List Emit) : ∀ r ∈ ctxRuns l, ∀ e ∈ r, e.gram.tail = runCtx r :=
  (ctxRuns_ok l).const

/-- the two shapes of `ctxRuns (e :: t)` -/
theorem ctxRuns_cons_cases (e : Emit) (t : List Emit) :
    (t = [] ∧ ctxRuns (e :: t) = [[e]]) ∨
    (∃ f r rs, ctxRuns t = (f :: r) :: rs ∧ e.gram.tail = f.gram.tail ∧
        ctxRuns (e :: t) = (e :: f :: r) :: rs) ∨
    (∃ f r rs, ctxRuns t = (f :: r) :: rs ∧ e.gram.tail ≠ f.gram.tail ∧
        ctxRuns (e :: t) = [e] :: (f :: r) :: rs) := by
  have ih := ctxRuns_ok t
  rcases hrt : ctxRuns t with _ | ⟨r0, rs⟩
  · left
    have ht : t = [] := by have := ih.flat; rw [hrt] at this; simpa using this.symm
    subst ht; exact ⟨rfl, rfl⟩
  · rcases r0 with _ | ⟨f, r⟩
    · exact absurd rfl (ih.ne [] (by rw [hrt]; exact List.mem_cons_self))
    · by_cases hef : e.gram.tail = f.gram.tail
      · right; left
        exact ⟨f, r, rs, rfl, hef, by simp only [ctxRuns, hrt, hef, if_true]⟩
      · right; right
        exact ⟨f, r, rs, rfl, hef, by simp only [ctxRuns, hrt, hef, if_false]⟩

/-- context-sorted input: the run contexts are strictly increasing -/
theorem ctxRuns_sorted (l : List Emit) (hs : l.Pairwise fun a b => a.gram.tail ≤ b.gram.tail) :
    (ctxRuns l).Pairwise fun r s => runCtx r < runCtx s := by
  induction l with
  | nil => simp [ctxRuns]
  | cons e t ih =>
    rw [List.pairwise_cons] at hs
    have iht := ih hs.2
    rcases ctxRuns_cons_cases e t with ⟨_, h⟩ | ⟨f, r, rs, hrt, hef, h⟩ | ⟨f, r, rs, hrt, hef, h⟩
    · rw [h]; simp
    · rw [h]; rw [hrt] at iht
      rw [List.pairwise_cons] at iht ⊢
      refine ⟨?_, iht.2⟩
      intro s hs'
      have := iht.1 s hs'
      simpa [runCtx, hef] using this
    · rw [h]; rw [hrt] at iht
      have hft : f ∈ t := by
        have := (ctxRuns_ok t).flat; rw [hrt] at this; rw [← this]; simp
      have hlt : e.gram.tail < f.gram.tail := glt_of_le_of_ne (hs.1 f hft) hef
      refine List.pairwise_cons.mpr ⟨?_, iht⟩
      intro s hs'
      rcases List.mem_cons.mp hs' with h1 | h1
      · subst h1; simpa [runCtx] using hlt
      · have h2 : runCtx (f :: r) < runCtx s := (List.pairwise_cons.mp iht).1 s h1
        have h3 : runCtx [e] < runCtx (f :: r) := by simpa [runCtx] using hlt
        exact glt_trans h3 h2

/-- generic: in a concatenation of blocks with constant, pairwise different keys, filtering
by the key of a block gives back the block -/
theorem filter_flatten_block {α κ : Type} [BEq κ] [LawfulBEq κ] (k : α → κ) (key : List α → κ)
    (rs : List (List α)) (hconst : ∀ r ∈ rs, ∀ x ∈ r, k x = key r)
    (hd : rs.Pairwise fun r s => key r ≠ key s) :
    ∀ r ∈ rs, rs.flatten.filter (fun x => k x == key r) = r := by
  induction rs with
  | nil => intro r hr; cases hr
  | cons a t ih =>
    intro r hr
    rw [List.pairwise_cons] at hd
    rw [List.flatten_cons, List.filter_append]
    have iht := ih (fun r hr => hconst r (List.mem_cons_of_mem _ hr)) hd.2
    have hall : ∀ (s : List α), s ∈ a :: t → key s = key r → s.filter (fun x => k x == key r) = s := by
      intro s hs hk
      apply List.filter_eq_self.mpr
      intro x hx; simp [hconst s hs x hx, hk]
    have hnone : ∀ (s : List α), s ∈ a :: t → key s ≠ key r → s.filter (fun x => k x == key r) = [] := by
      intro s hs hk
      apply List.filter_eq_nil_iff.mpr
      intro x hx; simp [hconst s hs x hx, hk]
    rcases List.mem_cons.mp hr with h | h
    · subst h
      rw [hall r List.mem_cons_self rfl]
      have : t.flatten.filter (fun x => k x == key r) = [] := by
        apply List.filter_eq_nil_iff.mpr
        intro x hx
        rcases List.mem_flatten.mp hx with ⟨s, hs, hxs⟩
        have := hd.1 s hs
        simp [hconst s (List.mem_cons_of_mem _ hs) x hxs, Ne.symm this]
      rw [this, List.append_nil]
    · rw [iht r h, hnone a List.mem_cons_self (hd.1 r h), List.nil_append]

/-- **every run of a context-sorted list is the whole group of its context** -/
theorem ctxRuns_eq_filter (l : List Emit) (hs : l.Pairwise fun a b => a.gram.tail ≤ b.gram.tail) :
    ∀ r ∈ ctxRuns l, r = l.filter fun e => e.gram.tail == runCtx r := by
  intro r hr
  have ok := ctxRuns_ok l
  have hd : (ctxRuns l).Pairwise fun r s => runCtx r ≠ runCtx s :=
    (ctxRuns_sorted l hs).imp fun h => gne_of_lt h
  have := filter_flatten_block (fun e : Emit => e.gram.tail) runCtx (ctxRuns l) ok.const hd r hr
  rw [ok.flat] at this
  exact this.symm

/-! ### `ctxLe` is a total preorder, so `mergeSort ctxLe` sorts by context -/

theorem ctxLe_total (a b : Emit) : (ctxLe a b || ctxLe b a) = true := by
  unfold ctxLe
  simp only [Bool.or_eq_true, decide_eq_true_eq, Bool.and_eq_true, beq_iff_eq]
  rcases glt_trichotomy a.gram.tail b.gram.tail with h | h | h
  · exact Or.inl (Or.inl h)
  · rcases Nat.le_total (a.gram.headD 0) (b.gram.headD 0) with h2 | h2
    · exact Or.inl (Or.inr ⟨h, h2⟩)
    · exact Or.inr (Or.inr ⟨h.symm, h2⟩)
  · exact Or.inr (Or.inl h)

theorem ctxLe_tail {a b : Emit} (h : ctxLe a b = true) : a.gram.tail ≤ b.gram.tail := by
  unfold ctxLe at h
  simp only [Bool.or_eq_true, decide_eq_true_eq, Bool.and_eq_true, beq_iff_eq] at h
  rcases h with h | h
  · exact gle_of_lt h
  · exact h.1 ▸ gle_refl _

theorem ctxLe_trans (a b c : Emit) (h1 : ctxLe a b = true) (h2 : ctxLe b c = true) :
    ctxLe a c = true := by
  unfold ctxLe at *
  simp only [Bool.or_eq_true, decide_eq_true_eq, Bool.and_eq_true, beq_iff_eq] at *
  rcases h1 with h1 | h1 <;> rcases h2 with h2 | h2
  · exact Or.inl (glt_trans h1 h2)
  · exact Or.inl (h2.1 ▸ h1)
  · exact Or.inl (h1.1 ▸ h2)
  · exact Or.inr ⟨h1.1.trans h2.1, Nat.le_trans h1.2 h2.2⟩

theorem mergeSort_ctxLe_sorted (es : List Emit) :
    (es.mergeSort ctxLe).Pairwise fun a b => a.gram.tail ≤ b.gram.tail :=
  (List.pairwise_mergeSort ctxLe_trans ctxLe_total es).imp ctxLe_tail

/-- **the runs `initialOrder` feeds to `AddRight`/`MergeRight` are the groups of the
specification** (up to the order inside the group) -/
theorem runs_perm_group (es : List Emit) :
    ∀ r ∈ ctxRuns (es.mergeSort ctxLe),
      r ≠ [] ∧ (∀ e ∈ r, e.gram.tail = runCtx r) ∧ r.Perm (Spec.group es (runCtx r)) := by
  intro r hr
  have ok := ctxRuns_ok (es.mergeSort ctxLe)
  refine ⟨ok.ne r hr, ok.const r hr, ?_⟩
  have h := ctxRuns_eq_filter _ (mergeSort_ctxLe_sorted es) r hr
  unfold Spec.group
  rw [h]
  have hp := (List.mergeSort_perm es ctxLe).filter (fun e => e.gram.tail == runCtx r)
  convert hp using 2
  rw [← h]

/-- the contexts of the runs are exactly the contexts that occur -/
theorem mem_runCtx_iff (l : List Emit) (c : Gram) :
    c ∈ (ctxRuns l).map runCtx ↔ ∃ e ∈ l, e.gram.tail = c := by
  have ok := ctxRuns_ok l
  constructor
  · intro h
    rcases List.mem_map.mp h with ⟨r, hr, hc⟩
    rcases hr0 : r with _ | ⟨a, t⟩
    · exact absurd hr0 (ok.ne r hr)
    · refine ⟨a, ?_, ?_⟩
      · rw [← ok.flat]; exact List.mem_flatten.mpr ⟨r, hr, by rw [hr0]; exact List.mem_cons_self⟩
      · rw [← hc, hr0]; rfl
  · rintro ⟨e, he, hc⟩
    rw [← ok.flat] at he
    rcases List.mem_flatten.mp he with ⟨r, hr, her⟩
    exact List.mem_map.mpr ⟨r, hr, by rw [← hc, ok.const r hr e her]⟩

/-- the gammas `initialOrder` hands to stage 4: one per context, contexts strictly increasing,
values of the specification -/
theorem initialOrder_gams (interpUni : Bool) (n : Nat) (d : Disc) (es : List Emit) :
    let gams := (initialOrder interpUni n d es).2
    (gams.map (·.ctx)).Pairwise (· < ·) ∧
    (∀ c, c ∈ gams.map (·.ctx) ↔ ∃ e ∈ es, e.gram.tail = c) ∧
    ∀ g ∈ gams, g.den = Spec.den es g.ctx ∧ g.gamma = Spec.gamma d es g.ctx := by
  simp only [initialOrder]
  have hmap : ((ctxRuns (es.mergeSort ctxLe)).map (addRight d)).map (·.ctx)
      = (ctxRuns (es.mergeSort ctxLe)).map runCtx := by
    rw [List.map_map]; rfl
  refine ⟨?_, ?_, ?_⟩
  · rw [hmap, List.pairwise_map]
    exact ctxRuns_sorted _ (mergeSort_ctxLe_sorted es)
  · intro c
    rw [hmap, mem_runCtx_iff]
    constructor
    · rintro ⟨e, he, hc⟩; exact ⟨e, (List.mergeSort_perm es ctxLe).mem_iff.mp he, hc⟩
    · rintro ⟨e, he, hc⟩; exact ⟨e, (List.mergeSort_perm es ctxLe).mem_iff.mpr he, hc⟩
  · intro g hg
    rcases List.mem_map.mp hg with ⟨r, hr, rfl⟩
    obtain ⟨_, _, hp⟩ := runs_perm_group es r hr
    rw [addRight_ctx_eq]
    exact ⟨addRight_den d es r _ hp, addRight_gamma d es r _ hp⟩

/-! ## 4. `joinLower` -/

/-- suffix order and back-off: for n-grams of the same length, `a < b` implies that the
back-off n-grams are ordered the same way (weakly) -/
theorem dropLast_le_of_lt : ∀ (a b : Gram), a.length = b.length → a < b → a.dropLast ≤ b.dropLast
  | [], _, _, _ => List.nil_le _
  | [_], b, _, _ => by simp
  | x :: x' :: a, [], hl, _ => by simp at hl
  | x :: x' :: a, [y], hl, _ => by simp at hl
  | x :: x' :: a, y :: y' :: b, hl, h => by
    rw [List.dropLast_cons_cons, List.dropLast_cons_cons, List.cons_le_cons_iff]
    rcases List.cons_lt_cons_iff.mp h with h1 | ⟨h1, h2⟩
    · exact Or.inl h1
    · exact Or.inr ⟨h1, dropLast_le_of_lt (x' :: a) (y' :: b) (by simpa using hl) h2⟩

/-- … hence a suffix-sorted stream of one order presents its back-off n-grams in
non-decreasing order -/
theorem dropLast_sorted (xs : List Uninterp) (n : Nat) (hlen : ∀ x ∈ xs, x.gram.length = n)
    (hs : xs.Pairwise fun a b => a.gram ≤ b.gram) :
    (xs.map (·.gram.dropLast)).Pairwise (· ≤ ·) := by
  rw [List.pairwise_map]
  refine List.Pairwise.imp_of_mem ?_ hs
  intro a b ha hb hab
  rcases List.le_iff_lt_or_eq.mp hab with h | h
  · exact dropLast_le_of_lt _ _ ((hlen a ha).trans (hlen b hb).symm) h
  · rw [h]; exact gle_refl _

theorem lookup_cons_ne {k g : Gram} {p : Rat} {ys : List (Gram × Rat)} (h : g ≠ k) :
    List.lookup g ((k, p) :: ys) = List.lookup g ys := by
  have : (g == k) = false := by simpa using h
  simp [List.lookup, this]

/-- **`joinLower` is the look-up of the back-off n-gram** when the lower stream is strictly
sorted, the upper stream presents its back-off n-grams in non-decreasing order and every
back-off n-gram is present -/
theorem joinLower_eq (xs : List Uninterp) (lower : List (Gram × Rat)) (n : Nat)
    (hl : lower.Pairwise fun a b => a.1 < b.1)
    (hx : (xs.map (·.gram.dropLast)).Pairwise (· ≤ ·))
    (hc : ∀ x ∈ xs, x.gram.dropLast ∈ lower.map (·.1)) :
    joinLower xs lower n
      = .ok (xs.map fun x => (x, (lower.lookup x.gram.dropLast).getD 0)) := by
  fun_induction joinLower xs lower n with
  | case1 => rfl
  | case2 x xs n =>
    have := hc x List.mem_cons_self
    simp at this
  | case3 x xs p ys n ih =>
    rw [List.map_cons, List.pairwise_cons] at hx
    rw [ih hl hx.2 (fun x' hx' => hc x' (List.mem_cons_of_mem _ hx'))]
    simp [List.lookup, bind, Except.bind, pure, Except.pure]
  | case4 x xs k p ys n hne ih =>
    rw [List.pairwise_cons] at hl
    have hlt : ∀ x' ∈ x :: xs, k < x'.gram.dropLast := by
      have hx0 : k < x.gram.dropLast := by
        have := hc x List.mem_cons_self
        rw [List.map_cons, List.mem_cons] at this
        rcases this with h | h
        · exact absurd h hne
        · rcases List.mem_map.mp h with ⟨b, hb, hb2⟩
          rw [← hb2]; exact hl.1 b hb
      intro x' hx'
      rcases List.mem_cons.mp hx' with h | h
      · rw [h]; exact hx0
      · rw [List.map_cons, List.pairwise_cons] at hx
        exact glt_of_lt_of_le hx0 (hx.1 _ (List.mem_map.mpr ⟨x', h, rfl⟩))
    have hc' : ∀ x' ∈ x :: xs, x'.gram.dropLast ∈ ys.map (·.1) := by
      intro x' hx'
      have := hc x' hx'
      rw [List.map_cons, List.mem_cons] at this
      rcases this with h | h
      · exact absurd h.symm (gne_of_lt (hlt x' hx'))
      · exact h
    rw [ih hl.2 hx hc']
    congr 1
    apply List.map_congr_left
    intro x' hx'
    rw [lookup_cons_ne (Ne.symm (gne_of_lt (hlt x' hx')))]

/-- **the error case**: a record whose back-off n-gram is missing from the lower order aborts
the join (no ordering assumption needed) -/
theorem joinLower_error (xs : List Uninterp) (lower : List (Gram × Rat)) (n : Nat)
    (hc : ∃ x ∈ xs, x.gram.dropLast ∉ lower.map (·.1)) :
    joinLower xs lower n = .error (Err.noMatchingSuffix n) := by
  fun_induction joinLower xs lower n with
  | case1 => obtain ⟨x, hx, _⟩ := hc; cases hx
  | case2 x xs n => rfl
  | case3 x xs p ys n ih =>
    obtain ⟨x', hx', hbad⟩ := hc
    have : x' ∈ xs := by
      rcases List.mem_cons.mp hx' with h | h
      · subst h; exact absurd (by simp) hbad
      · exact h
    rw [ih ⟨x', this, hbad⟩]; rfl
  | case4 x xs k p ys n hne ih =>
    obtain ⟨x', hx', hbad⟩ := hc
    exact ih ⟨x', hx', fun h => hbad (by rw [List.map_cons]; exact List.mem_cons_of_mem _ h)⟩

/-- `joinLower` has no other failure -/
theorem joinLower_error_only (xs : List Uninterp) (lower : List (Gram × Rat)) (n : Nat) (e : Err)
    (h : joinLower xs lower n = .error e) : e = Err.noMatchingSuffix n := by
  fun_induction joinLower xs lower n with
  | case1 => cases h
  | case2 x xs n => cases h; rfl
  | case3 x xs p ys n ih =>
    cases hr : joinLower xs ((x.gram.dropLast, p) :: ys) n with
    | error e' => rw [hr] at h; cases h; exact ih hr
    | ok r => rw [hr] at h; cases h
  | case4 x xs k p ys n hne ih => exact ih h

/-! ## 5. Back-offs: `takeBackoffsSeq`, `leftoverSeq`, `takeBackoffsHash` -/

/-- the interpolation weight stored for context `g` (1 when there is none) -/
def gamOf (gams : List Gam) (g : Gram) : Rat := ((gams.find? fun x => x.ctx == g).map (·.gamma)).getD 1

/-- the back-off column stage 4 should write for the n-grams `gs` -/
def specBackoffs (gs : List Gram) (gams : List Gam) : List Rat :=
  gs.map fun g => if wantsBackoff g then gamOf gams g else 1

theorem gamOf_cons_eq (gam : Gam) (gams : List Gam) : gamOf (gam :: gams) gam.ctx = gam.gamma := by
  simp [gamOf]

theorem gamOf_cons_ne {gam : Gam} {gams : List Gam} {g : Gram} (h : gam.ctx ≠ g) :
    gamOf (gam :: gams) g = gamOf gams g := by
  have : (gam.ctx == g) = false := by simpa using h
  simp [gamOf, this]

theorem gamOf_append_of_not_mem {pre l : List Gam} {g : Gram} (h : ∀ x ∈ pre, x.ctx ≠ g) :
    gamOf (pre ++ l) g = gamOf l g := by
  induction pre with
  | nil => rfl
  | cons a t ih =>
    rw [List.cons_append, gamOf_cons_ne (h a List.mem_cons_self)]
    exact ih fun x hx => h x (List.mem_cons_of_mem _ hx)

theorem specBackoffs_congr (gs : List Gram) (gams gams' : List Gam)
    (h : ∀ g ∈ gs, wantsBackoff g = true → gamOf gams g = gamOf gams' g) :
    specBackoffs gs gams = specBackoffs gs gams' := by
  unfold specBackoffs
  apply List.map_congr_left
  intro g hg
  by_cases hw : wantsBackoff g = true
  · simp only [hw, if_true, h g hg hw]
  · have hw' : wantsBackoff g = false := by simpa using hw
    simp [hw']

theorem takeBackoffsSeq_skip {g : Gram} (gs : List Gram) (gams : List Gam)
    (h : wantsBackoff g = false) : takeBackoffsSeq (g :: gs) gams = 1 :: takeBackoffsSeq gs gams := by
  cases gams <;> simp [takeBackoffsSeq, h]

theorem leftoverSeq_skip {g : Gram} (gs : List Gram) (gams : List Gam)
    (h : wantsBackoff g = false) (h0 : leftoverSeq gs gams = 0) : leftoverSeq (g :: gs) gams = 0 := by
  cases gams <;> simp [leftoverSeq, h, h0]

/-- **sequential back-offs** (next order not pruned): if the gammas arrive exactly in the order
of the records that ask for one, every record gets the gamma of its own n-gram and nothing is
left over -/
theorem takeBackoffsSeq_eq (gs : List Gram) (gams : List Gam)
    (hnd : (gams.map (·.ctx)).Nodup) (h : gams.map (·.ctx) = gs.filter wantsBackoff) :
    takeBackoffsSeq gs gams = specBackoffs gs gams ∧ leftoverSeq gs gams = 0 := by
  induction gs generalizing gams with
  | nil =>
    have : gams = [] := by simpa using h
    subst this; exact ⟨rfl, rfl⟩
  | cons g gs ih =>
    by_cases hw : wantsBackoff g = true
    · rw [List.filter_cons_of_pos hw] at h
      rcases gams with _ | ⟨gam, gams'⟩
      · cases h
      · rw [List.map_cons, List.cons.injEq] at h
        rw [List.map_cons, List.nodup_cons] at hnd
        obtain ⟨ih1, ih2⟩ := ih gams' hnd.2 h.2
        refine ⟨?_, by simp [leftoverSeq, hw, ih2]⟩
        simp only [takeBackoffsSeq, hw, if_true, ih1]
        have htl : specBackoffs gs gams' = specBackoffs gs (gam :: gams') := by
          apply specBackoffs_congr
          intro g' hg' hw'
          have hmem : g' ∈ gams'.map (·.ctx) := by rw [h.2]; exact List.mem_filter.mpr ⟨hg', hw'⟩
          rw [gamOf_cons_ne]
          intro he; exact hnd.1 (he ▸ hmem)
        rw [htl]
        have hw2 : wantsBackoff gam.ctx = true := h.1 ▸ hw
        simp only [specBackoffs, List.map_cons, ← h.1, hw2, if_true, gamOf_cons_eq]
    · have hw' : wantsBackoff g = false := by simpa using hw
      rw [List.filter_cons_of_neg hw] at h
      obtain ⟨ih1, ih2⟩ := ih gams hnd h
      refine ⟨?_, leftoverSeq_skip gs gams hw' ih2⟩
      rw [takeBackoffsSeq_skip gs gams hw', ih1]
      simp [specBackoffs, hw']

theorem skipTo_spec (g : Gram) (gams : List Gam) (v : Rat) (rest : List Gam)
    (h : skipTo g gams = some (v, rest)) :
    ∃ pre gam, gams = pre ++ gam :: rest ∧ gam.ctx = g ∧ v = gam.gamma ∧ ∀ x ∈ pre, x.ctx ≠ g := by
  induction gams with
  | nil => cases h
  | cons a t ih =>
    by_cases ha : a.ctx = g
    · simp only [skipTo, ha, if_true, Option.some.injEq, Prod.mk.injEq] at h
      exact ⟨[], a, by simp [h.2], ha, h.1.symm, by simp⟩
    · simp only [skipTo, ha, if_false] at h
      obtain ⟨pre, gam, h1, h2, h3, h4⟩ := ih h
      refine ⟨a :: pre, gam, by simp [h1], h2, h3, ?_⟩
      intro x hx
      rcases List.mem_cons.mp hx with hx | hx
      · rw [hx]; exact ha
      · exact h4 x hx

theorem skipTo_none (g : Gram) (gams : List Gam) (h : skipTo g gams = none) :
    g ∉ gams.map (·.ctx) := by
  induction gams with
  | nil => simp
  | cons a t ih =>
    by_cases ha : a.ctx = g
    · simp [skipTo, ha] at h
    · simp only [skipTo, ha, if_false] at h
      simp only [List.map_cons, List.mem_cons, not_or]
      exact ⟨fun e => ha e.symm, ih h⟩

theorem sublist_after {α : Type} {g : α} {F P R : List α} (hP : g ∉ P)
    (h : (g :: F).Sublist (P ++ g :: R)) : F.Sublist R := by
  induction P with
  | nil => exact List.cons_sublist_cons.mp h
  | cons a P ih =>
    have hag : a ≠ g := fun e => hP (e ▸ List.mem_cons_self)
    rw [List.cons_append] at h
    cases h with
    | cons _ h' => exact ih (fun hm => hP (List.mem_cons_of_mem _ hm)) h'
    | cons_cons _ _ => exact absurd rfl hag

/-- **hash-matched back-offs** (next order pruned): if the contexts of the gamma stream are
pairwise distinct and the records that ask for a gamma appear in it in the same relative
order, every record gets the gamma of its own n-gram -/
theorem takeBackoffsHash_eq (gs : List Gram) (gams : List Gam)
    (hnd : (gams.map (·.ctx)).Nodup) (h : (gs.filter wantsBackoff).Sublist (gams.map (·.ctx))) :
    takeBackoffsHash gs gams = specBackoffs gs gams := by
  induction gs generalizing gams with
  | nil => rfl
  | cons g gs ih =>
    by_cases hw : wantsBackoff g = true
    · rw [List.filter_cons_of_pos hw] at h
      have hmem : g ∈ gams.map (·.ctx) := h.subset List.mem_cons_self
      have hne : gams.isEmpty = false := by
        cases gams with
        | nil => simp at hmem
        | cons _ _ => rfl
      cases hs : skipTo g gams with
      | none => exact absurd hmem (skipTo_none g gams hs)
      | some vr =>
        obtain ⟨v, rest⟩ := vr
        obtain ⟨pre, gam, h1, h2, h3, h4⟩ := skipTo_spec g gams v rest hs
        have hg_pre : g ∉ pre.map (·.ctx) := by
          intro hm
          rcases List.mem_map.mp hm with ⟨x, hx, hxe⟩
          exact h4 x hx hxe
        subst h1
        rw [List.map_append, List.map_cons, h2] at h hnd
        have hsub : (gs.filter wantsBackoff).Sublist (rest.map (·.ctx)) := sublist_after hg_pre h
        have hnd' := List.nodup_append.mp hnd
        have hnd2 := List.nodup_cons.mp hnd'.2.1
        simp only [takeBackoffsHash, hw, hne, Bool.not_false, Bool.and_self, if_true, hs,
          ih rest hnd2.2 hsub]
        have hgam : gamOf (pre ++ gam :: rest) g = v := by
          rw [gamOf_append_of_not_mem h4, ← h2, gamOf_cons_eq, h3]
        have htl : specBackoffs gs rest = specBackoffs gs (pre ++ gam :: rest) := by
          apply specBackoffs_congr
          intro g' hg' hw'
          have hm : g' ∈ rest.map (·.ctx) := hsub.subset (List.mem_filter.mpr ⟨hg', hw'⟩)
          have hne1 : gam.ctx ≠ g' := by
            intro e; rw [h2] at e; exact hnd2.1 (e ▸ hm)
          have hne2 : ∀ x ∈ pre, x.ctx ≠ g' := by
            intro x hx e
            exact hnd'.2.2 g' (e ▸ List.mem_map.mpr ⟨x, hx, rfl⟩) g' (List.mem_cons_of_mem _ hm) rfl
          rw [gamOf_append_of_not_mem hne2, gamOf_cons_ne hne1]
        rw [htl]
        simp only [specBackoffs, List.map_cons, hw, if_true, hgam]
    · have hw' : wantsBackoff g = false := by simpa using hw
      rw [List.filter_cons_of_neg hw] at h
      simp only [takeBackoffsHash, hw', Bool.false_and, Bool.false_eq_true, if_false, ih gams hnd h]
      simp [specBackoffs, hw']

/-! ## 6. One order of stage 4 (`interpOrder`) -/

def lowerVal (lower : Option (List (Gram × Rat))) (uniform : Rat) (g : Gram) : Rat :=
  match lower with
  | none => uniform
  | some l => (l.lookup g.dropLast).getD 0

def boVal (next : Option (List Gam × Bool)) (g : Gram) : Rat :=
  match next with
  | none => 1
  | some (gams, _) => if wantsBackoff g then gamOf gams g else 1

def LowerOK (us : List Uninterp) : Option (List (Gram × Rat)) → Prop
  | none => True
  | some l => (l.Pairwise fun a b => a.1 < b.1) ∧ (us.map (·.gram.dropLast)).Pairwise (· ≤ ·) ∧
      ∀ x ∈ us, x.gram.dropLast ∈ l.map (·.1)

def NextOK (us : List Uninterp) : Option (List Gam × Bool) → Prop
  | none => True
  | some (gams, false) => (gams.map (·.ctx)).Nodup ∧
      gams.map (·.ctx) = (us.map (·.gram)).filter wantsBackoff
  | some (gams, true) => (gams.map (·.ctx)).Nodup ∧
      ((us.map (·.gram)).filter wantsBackoff).Sublist (gams.map (·.ctx))

theorem specBackoffs_map (us : List Uninterp) (gams : List Gam) :
    specBackoffs (us.map (·.gram)) gams
      = us.map fun x => if wantsBackoff x.gram then gamOf gams x.gram else 1 := by
  unfold specBackoffs; rw [List.map_map]; rfl

set_option linter.unusedSimpArgs false in
/-- **one order of stage 4**: under the ordering/closure hypotheses `LowerOK`, `NextOK` the result
is the per-record formula `p = u + γ·p_lower(back-off n-gram)`, `bo = γ(own n-gram)` or 1 -/
theorem interpOrder_eq (n : Nat) (us : List Uninterp) (lower : Option (List (Gram × Rat)))
    (uniform : Rat) (next : Option (List Gam × Bool)) (hl : LowerOK us lower) (hn : NextOK us next) :
    interpOrder n us lower uniform next
      = .ok (us.map fun x => ⟨x.gram, interpProb x (lowerVal lower uniform x.gram), boVal next x.gram⟩) := by
  have hg : ∀ f : Uninterp → Rat, ((us.map fun x => (x, f x)).map (·.1.gram)) = us.map (·.gram) := by
    intro f; rw [List.map_map]; rfl
  have hone : ∀ f : Uninterp → Rat,
      ((us.map fun x => (x, f x)).map fun _ => (1 : Rat)) = us.map fun _ => (1 : Rat) := by
    intro f; rw [List.map_map]; rfl
  have hz : ∀ (f g : Uninterp → Rat),
      (((us.map fun x => (x, f x)).zip (us.map g)).map
          fun x => (⟨x.1.1.gram, interpProb x.1.1 x.1.2, x.2⟩ : Entry))
        = us.map fun x => ⟨x.gram, interpProb x (f x), g x⟩ := by
    intro f g
    rw [List.zip_map', List.map_map]; rfl
  have hjoin : ∀ l, lower = some l →
      joinLower us l n = .ok (us.map fun x => (x, lowerVal lower uniform x.gram)) := by
    intro l hlo; subst hlo
    exact joinLower_eq us l n hl.1 hl.2.1 hl.2.2
  unfold interpOrder
  rcases next with _ | ⟨gams, _ | _⟩
  · cases lower with
    | none => simp only [bind, Except.bind, pure, Except.pure, hg, hone, hz]; rfl
    | some l => simp only [bind, Except.bind, pure, Except.pure, hjoin l rfl, hg, hone, hz]; rfl
  · obtain ⟨h1, h2⟩ := takeBackoffsSeq_eq (us.map (·.gram)) gams hn.1 hn.2
    cases lower with
    | none =>
      simp only [bind, Except.bind, pure, Except.pure, hg, h1, h2, specBackoffs_map, ne_eq,
        not_true_eq_false, if_false, Bool.false_eq_true, if_true]
      exact congrArg Except.ok (hz _ _)
    | some l =>
      simp only [bind, Except.bind, pure, Except.pure, hjoin l rfl, hg, h1, h2, specBackoffs_map, ne_eq,
        not_true_eq_false, if_false, Bool.false_eq_true, if_true]
      exact congrArg Except.ok (hz _ _)
  · have h1 := takeBackoffsHash_eq (us.map (·.gram)) gams hn.1 hn.2
    cases lower with
    | none =>
      simp only [bind, Except.bind, pure, Except.pure, hg, h1, specBackoffs_map, ne_eq,
        not_true_eq_false, if_false, Bool.false_eq_true, if_true]
      exact congrArg Except.ok (hz _ _)
    | some l =>
      simp only [bind, Except.bind, pure, Except.pure, hjoin l rfl, hg, h1, specBackoffs_map, ne_eq,
        not_true_eq_false, if_false, Bool.false_eq_true, if_true]
      exact congrArg Except.ok (hz _ _)
/-! ## 7. Stage 3 as a whole, and the link to `Spec.Ctx` -/

theorem flatMap_map_of {α β : Type} {rs : List (List α)} {F : List α → List β} {f : α → β}
    (h : ∀ r ∈ rs, F r = r.map f) : rs.flatMap F = rs.flatten.map f := by
  induction rs with
  | nil => rfl
  | cons a t ih =>
    rw [List.flatMap_cons, List.flatten_cons, List.map_append, h a List.mem_cons_self,
      ih fun r hr => h r (List.mem_cons_of_mem _ hr)]

/-- **stage 3, order ≥ 2**: the surviving records are the kept records of the order with the
`u`, `γ` of the specification, in suffix order -/
theorem initialOrder_us (interpUni : Bool) (n : Nat) (d : Disc) (es : List Emit) (hn : n ≠ 1) :
    (initialOrder interpUni n d es).1
      = (((es.mergeSort ctxLe).filter keptBy).map (specUninterp d es)).mergeSort uninterpLe := by
  have hn' : (n == 1) = false := by simpa using hn
  have h1 : (ctxRuns (es.mergeSort ctxLe)).flatMap (mergeRight d)
      = (es.mergeSort ctxLe).map (specUninterp d es) := by
    rw [flatMap_map_of (f := specUninterp d es), ctxRuns_flatten]
    intro r hr
    obtain ⟨_, hc, hp⟩ := runs_perm_group es r hr
    exact mergeRight_eq d es r _ hc hp
  simp only [initialOrder, hn', Bool.false_eq_true, if_false, h1, List.filter_map]
  rfl

/-- **stage 3, order 1** (all records have the empty context; no ordinary record is marked) -/
theorem initialOrder_us1 (interpUni : Bool) (d : Disc) (es : List Emit)
    (hctx : ∀ e ∈ es, e.gram.tail = [])
    (hm : ∀ e ∈ es, e.gram ≠ [unk] → e.gram ≠ [bos] → e.marked = false) :
    (initialOrder interpUni 1 d es).1
      = (((es.mergeSort ctxLe).filter keptBy).map (specUninterp1 interpUni d es)).mergeSort uninterpLe := by
  have hmem : ∀ r ∈ ctxRuns (es.mergeSort ctxLe), ∀ e ∈ r, e ∈ es := by
    intro r hr e he
    apply (List.mergeSort_perm es ctxLe).mem_iff.mp
    rw [← ctxRuns_flatten (es.mergeSort ctxLe)]
    exact List.mem_flatten.mpr ⟨r, hr, he⟩
  have h1 : (ctxRuns (es.mergeSort ctxLe)).flatMap (mergeRightUnigram interpUni d)
      = (es.mergeSort ctxLe).map (specUninterp1 interpUni d es) := by
    rw [flatMap_map_of (f := specUninterp1 interpUni d es), ctxRuns_flatten]
    intro r hr
    obtain ⟨hne, hc, hp⟩ := runs_perm_group es r hr
    have hr0 : runCtx r = [] := by
      rcases r with _ | ⟨a, t⟩
      · exact absurd rfl hne
      · exact hctx a (hmem _ hr a List.mem_cons_self)
    rw [hr0] at hp
    exact mergeRightUnigram_eq interpUni d es r hp fun e he => hm e (hmem r hr e he)
  simp only [initialOrder, BEq.rfl, if_true, h1, List.filter_map]
  congr 2
  apply List.filter_congr
  intro e _
  simp only [Function.comp, specUninterp1]
  split <;> [rfl; (split <;> rfl)]

/-- `u`, `γ` of `MergeRight` are `Spec.Ctx.uGamma` (order ≥ 2, distinct n-grams) -/
theorem specUninterp_uGamma (c : Spec.Ctx) (n : Nat) (hn : n ≠ 1) (e : Emit) (he : e ∈ c.esAt n)
    (hl : e.gram.length = n) (hnd : ((c.esAt n).map (·.gram)).Nodup) :
    ((specUninterp (c.dAt n) (c.esAt n) e).u, (specUninterp (c.dAt n) (c.esAt n) e).gamma)
      = c.uGamma e.gram := by
  have hf := find_of_nodup (c.esAt n) hnd e he
  have hn' : (n == 1) = false := by simpa using hn
  unfold Spec.Ctx.uGamma specUninterp Spec.uProb
  simp only [hl, hf, hn', Bool.false_eq_true, if_false, Option.map_some, Option.getD_some]

theorem prob_step (c : Spec.Ctx) (g : Gram) (hg : g ≠ []) :
    c.prob g = (c.uGamma g).1 + (c.uGamma g).2 * c.prob g.dropLast := by
  cases g with
  | nil => exact absurd rfl hg
  | cons w t => rw [Spec.Ctx.prob]

theorem prob_nil (c : Spec.Ctx) : c.prob [] = c.uniform := by rw [Spec.Ctx.prob]

/-- the gammas of stage 3, looked up by context -/
theorem gamOf_initialOrder (interpUni : Bool) (n : Nat) (d : Disc) (es : List Emit) (g : Gram) :
    gamOf (initialOrder interpUni n d es).2 g
      = if (Spec.group es g).isEmpty then 1 else Spec.gamma d es g := by
  obtain ⟨_, hmem, hval⟩ := initialOrder_gams interpUni n d es
  generalize (initialOrder interpUni n d es).2 = gams at hmem hval
  have hgrp : (Spec.group es g).isEmpty = false ↔ ∃ e ∈ es, e.gram.tail = g := by
    rw [← Bool.not_eq_true, List.isEmpty_iff]
    constructor
    · intro h
      rcases List.exists_mem_of_ne_nil _ h with ⟨e, he⟩
      exact ⟨e, (mem_group.mp he).1, (mem_group.mp he).2⟩
    · rintro ⟨e, he, ht⟩ h
      have : e ∈ Spec.group es g := mem_group.mpr ⟨he, ht⟩
      rw [h] at this; cases this
  unfold gamOf
  cases hf : gams.find? (fun x => x.ctx == g) with
  | none =>
    have hno : ¬ ∃ e ∈ es, e.gram.tail = g := by
      rw [← hmem g]
      intro hm
      rcases List.mem_map.mp hm with ⟨x, hx, hxg⟩
      have := List.find?_eq_none.mp hf x hx
      simp [hxg] at this
    have : (Spec.group es g).isEmpty = true := by
      rcases hb : (Spec.group es g).isEmpty with _ | _
      · exact absurd (hgrp.mp hb) hno
      · rfl
    simp [this]
  | some x =>
    have hx : x ∈ gams := List.mem_of_find?_eq_some hf
    have hxg : x.ctx = g := by simpa using List.find?_some hf
    have : (Spec.group es g).isEmpty = false :=
      hgrp.mpr ((hmem g).mp (List.mem_map.mpr ⟨x, hx, hxg⟩))
    simp [this, (hval x hx).2, hxg]

/-- **the back-off column is `Spec.Ctx.backoff`** when the gammas are those of stage 3 of the
next order (`none` for the highest order) -/
theorem boVal_backoff (c : Spec.Ctx) (g : Gram) (next : Option (List Gam × Bool))
    (hnext : match next with
      | none => ¬ g.length < c.cfg.order
      | some (gams, _) => g.length < c.cfg.order ∧
          gams = (initialOrder c.cfg.interpUni (g.length + 1) (c.dAt (g.length + 1))
                    (c.esAt (g.length + 1))).2) :
    boVal next g = c.backoff g := by
  unfold Spec.Ctx.backoff boVal
  rcases next with _ | ⟨gams, b⟩
  · have : decide (g.length < c.cfg.order) = false := by simpa using hnext
    simp [this]
  · obtain ⟨h1, h2⟩ := hnext
    subst h2
    have : decide (g.length < c.cfg.order) = true := by simpa using h1
    simp only [gamOf_initialOrder, this, Bool.true_and]
    by_cases hw : wantsBackoff g = true
    · rcases hb : (Spec.group (c.esAt (g.length + 1)) g).isEmpty with _ | _ <;> simp [hw]
    · have hw' : wantsBackoff g = false := by simpa using hw
      simp [hw']

theorem mem_sorted_kept {β : Type} (es : List Emit) (f : Emit → β) (le : β → β → Bool) (x : β)
    (h : x ∈ (((es.mergeSort ctxLe).filter keptBy).map f).mergeSort le) :
    ∃ e ∈ es, keptBy e = true ∧ x = f e := by
  have h1 := (List.mergeSort_perm _ le).mem_iff.mp h
  rcases List.mem_map.mp h1 with ⟨e, he, hx⟩
  have he' := List.mem_filter.mp he
  exact ⟨e, (List.mergeSort_perm es ctxLe).mem_iff.mp he'.1, he'.2, hx.symm⟩

theorem lookup_of_mem_keys (l : List (Gram × Rat)) (g : Gram) (h : g ∈ l.map (·.1)) :
    ∃ p, l.lookup g = some p ∧ (g, p) ∈ l := by
  induction l with
  | nil => cases h
  | cons a t ih =>
    obtain ⟨k, p⟩ := a
    by_cases hk : g = k
    · subst hk; exact ⟨p, by simp [List.lookup], List.mem_cons_self⟩
    · have : g ∈ t.map (·.1) := by
        rw [List.map_cons, List.mem_cons] at h
        exact h.resolve_left hk
      obtain ⟨q, h1, h2⟩ := ih this
      exact ⟨q, by rw [lookup_cons_ne hk]; exact h1, List.mem_cons_of_mem _ h2⟩

/-- **`interp_eq` for one order**: fed with stage 3 of the order (and of the next order for the
back-offs) and with the interpolated probabilities of the lower order, `interpOrder` writes
`Spec.Ctx.prob` and `Spec.Ctx.backoff` for every surviving record.  `LowerOK`/`NextOK` are the
ordering and closure facts about the streams. -/
theorem interpOrder_spec (c : Spec.Ctx) (n : Nat) (hn0 : 1 ≤ n)
    (hlen : ∀ e ∈ c.esAt n, e.gram.length = n)
    (hnd : ((c.esAt n).map (·.gram)).Nodup)
    (hm : n = 1 → ∀ e ∈ c.esAt 1, e.gram ≠ [unk] → e.gram ≠ [bos] → e.marked = false)
    (us : List Uninterp) (hus : us = (initialOrder c.cfg.interpUni n (c.dAt n) (c.esAt n)).1)
    (lower : Option (List (Gram × Rat)))
    (hlow : match lower with
      | none => n = 1
      | some l => n ≠ 1 ∧ ∀ kp ∈ l, kp.2 = c.prob kp.1)
    (next : Option (List Gam × Bool))
    (hnext : match next with
      | none => ¬ n < c.cfg.order
      | some (gams, _) => n < c.cfg.order ∧
          gams = (initialOrder c.cfg.interpUni (n + 1) (c.dAt (n + 1)) (c.esAt (n + 1))).2)
    (hl : LowerOK us lower) (hnx : NextOK us next) :
    interpOrder n us lower c.uniform next
      = .ok (us.map fun x => ⟨x.gram, c.prob x.gram, c.backoff x.gram⟩) := by
  rw [interpOrder_eq n us lower c.uniform next hl hnx]
  congr 1
  apply List.map_congr_left
  intro x hx
  -- the record behind `x`
  have hx' : ∃ e ∈ c.esAt n, x.gram = e.gram ∧ (x.u, x.gamma) = c.uGamma e.gram := by
    by_cases hn : n = 1
    · subst hn
      rw [hus, initialOrder_us1 _ _ _ (fun e he => by
            have := hlen e he
            rcases hg : e.gram with _ | ⟨w, t⟩
            · rfl
            · rw [hg] at this; simp at this; simp [this]) (hm rfl)] at hx
      obtain ⟨e, he, _, rfl⟩ := mem_sorted_kept _ _ _ _ hx
      refine ⟨e, he, ?_, specUninterp1_uGamma c e he (hlen e he) hnd⟩
      simp only [specUninterp1]; split <;> [rfl; (split <;> rfl)]
    · rw [hus, initialOrder_us _ _ _ _ hn] at hx
      obtain ⟨e, he, _, rfl⟩ := mem_sorted_kept _ _ _ _ hx
      exact ⟨e, he, rfl, specUninterp_uGamma c n hn e he (hlen e he) hnd⟩
  obtain ⟨e, he, hg, hug⟩ := hx'
  have hlg : x.gram.length = n := by rw [hg]; exact hlen e he
  have hu : x.u = (c.uGamma x.gram).1 := by rw [hg, ← hug]
  have hga : x.gamma = (c.uGamma x.gram).2 := by rw [hg, ← hug]
  have hbo : boVal next x.gram = c.backoff x.gram := by
    apply boVal_backoff
    rw [hlg]; exact hnext
  have hp : interpProb x (lowerVal lower c.uniform x.gram) = c.prob x.gram := by
    have hne : x.gram ≠ [] := by
      intro h0; rw [h0] at hlg; simp at hlg; omega
    rw [prob_step c x.gram hne, interpProb, hu, hga]
    congr 2
    rcases lower with _ | l
    · have h1 : n = 1 := hlow
      have : x.gram.dropLast = [] := by
        rcases hxg : x.gram with _ | ⟨w, t⟩
        · rfl
        · rw [hxg, h1] at hlg; simp at hlg; simp [hlg]
      rw [this, prob_nil]; rfl
    · obtain ⟨p, hp1, hp2⟩ := lookup_of_mem_keys l _ (hl.2.2 x hx)
      simp only [lowerVal, hp1, Option.getD_some]
      exact hlow.2 _ hp2
  rw [hp, hbo]

/-! ## 8. The order as `Spec.estimateFrom` writes it -/

/-- the order-`n` entries of the specification (`Norm.ordersOf c`, index `n-1`) -/
def specOrder (c : Spec.Ctx) (n : Nat) : List Entry :=
  (((c.esAt n).filter keptBy).map (mkEntry c)).mergeSort Spec.specLe

theorem gle_antisymm {a b : Gram} (h1 : a ≤ b) (h2 : b ≤ a) : a = b := by
  rcases List.le_iff_lt_or_eq.mp h1 with h | h
  · exact absurd h (List.not_lt.mpr h2)
  · exact h

theorem specLe_trans (a b c : Entry) (h1 : Spec.specLe a b = true) (h2 : Spec.specLe b c = true) :
    Spec.specLe a c = true := by
  unfold Spec.specLe at *
  simp only [decide_eq_true_eq] at *
  exact gle_trans h1 h2

theorem specLe_total (a b : Entry) : (Spec.specLe a b || Spec.specLe b a) = true := by
  unfold Spec.specLe
  simp only [Bool.or_eq_true, decide_eq_true_eq]
  exact List.le_total _ _

/-- the entries written from the suffix-sorted survivors of stage 3 are the order of the
specification (both are sorted by n-gram, and an entry is determined by its n-gram) -/
theorem us_map_entry (c : Spec.Ctx) (es : List Emit) (f : Emit → Uninterp)
    (hf : ∀ e, (f e).gram = e.gram) :
    ((((es.mergeSort ctxLe).filter keptBy).map f).mergeSort uninterpLe).map
        (fun x => (⟨x.gram, c.prob x.gram, c.backoff x.gram⟩ : Entry))
      = ((es.filter keptBy).map (mkEntry c)).mergeSort Spec.specLe := by
  rw [List.map_mergeSort (r := uninterpLe) (s := Spec.specLe)
    (f := fun x : Uninterp => (⟨x.gram, c.prob x.gram, c.backoff x.gram⟩ : Entry))
    (fun a _ b _ => rfl), List.map_map]
  have hfun : ((fun x : Uninterp => (⟨x.gram, c.prob x.gram, c.backoff x.gram⟩ : Entry)) ∘ f)
      = mkEntry c := by
    funext e; simp only [Function.comp, mkEntry, hf]
  rw [hfun]
  apply List.Perm.eq_of_pairwise (le := fun a b => Spec.specLe a b = true)
  · intro a b ha hb hab hba
    have ha' := (List.mergeSort_perm _ _).mem_iff.mp ha
    have hb' := (List.mergeSort_perm _ _).mem_iff.mp hb
    rcases List.mem_map.mp ha' with ⟨e1, _, rfl⟩
    rcases List.mem_map.mp hb' with ⟨e2, _, rfl⟩
    have hg : e1.gram = e2.gram := by
      unfold Spec.specLe at hab hba
      exact gle_antisymm (of_decide_eq_true hab) (of_decide_eq_true hba)
    simp only [mkEntry, hg]
  · exact List.pairwise_mergeSort specLe_trans specLe_total _
  · exact List.pairwise_mergeSort specLe_trans specLe_total _
  · exact (List.mergeSort_perm _ _).trans
      ((((List.mergeSort_perm es ctxLe).filter _).map _).trans (List.mergeSort_perm _ _).symm)

/-- **`interp_eq`, one order, in the form of `Spec.estimateFrom`**: the streaming stage 4 writes
exactly the order-`n` entry list of the specification -/
theorem interpOrder_specOrder (c : Spec.Ctx) (n : Nat) (hn0 : 1 ≤ n)
    (hlen : ∀ e ∈ c.esAt n, e.gram.length = n)
    (hnd : ((c.esAt n).map (·.gram)).Nodup)
    (hm : n = 1 → ∀ e ∈ c.esAt 1, e.gram ≠ [unk] → e.gram ≠ [bos] → e.marked = false)
    (us : List Uninterp) (hus : us = (initialOrder c.cfg.interpUni n (c.dAt n) (c.esAt n)).1)
    (lower : Option (List (Gram × Rat)))
    (hlow : match lower with
      | none => n = 1
      | some l => n ≠ 1 ∧ ∀ kp ∈ l, kp.2 = c.prob kp.1)
    (next : Option (List Gam × Bool))
    (hnext : match next with
      | none => ¬ n < c.cfg.order
      | some (gams, _) => n < c.cfg.order ∧
          gams = (initialOrder c.cfg.interpUni (n + 1) (c.dAt (n + 1)) (c.esAt (n + 1))).2)
    (hl : LowerOK us lower) (hnx : NextOK us next) :
    interpOrder n us lower c.uniform next = .ok (specOrder c n) := by
  rw [interpOrder_spec c n hn0 hlen hnd hm us hus lower hlow next hnext hl hnx]
  congr 1
  rw [hus]
  unfold specOrder
  by_cases hn : n = 1
  · subst hn
    rw [initialOrder_us1 _ _ _ (fun e he => by
          have := hlen e he
          rcases hg : e.gram with _ | ⟨w, t⟩
          · rfl
          · rw [hg] at this; simp at this; simp [this]) (hm rfl)]
    apply us_map_entry
    intro e
    simp only [specUninterp1]; split <;> [rfl; (split <;> rfl)]
  · rw [initialOrder_us _ _ _ _ hn]
    exact us_map_entry c _ _ fun _ => rfl

/-! ## 10. All orders (`interpAll`) -/

/-- stage 3 of order `k` for the records and discounts of `c` -/
def stage3Of (c : Spec.Ctx) (k : Nat) : List Uninterp × List Gam :=
  initialOrder c.cfg.interpUni k (c.dAt k) (c.esAt k)

/-- what `interpAll` passes down as the lower order of order `n` -/
def lowerOf (c : Spec.Ctx) (n : Nat) : Option (List (Gram × Rat)) :=
  if n = 1 then none else some ((specOrder c (n - 1)).map fun e => (e.gram, e.p))

/-- what `interpAll` passes as the gammas of the next order -/
def nextOf (c : Spec.Ctx) (pruned : Nat → Bool) (n : Nat) : Option (List Gam × Bool) :=
  if n < c.cfg.order then some ((stage3Of c (n + 1)).2, pruned n) else none

/-- the record facts about order `n` that the streaming stage 4 relies on -/
structure OrderOK (c : Spec.Ctx) (pruned : Nat → Bool) (n : Nat) : Prop where
  len : ∀ e ∈ c.esAt n, e.gram.length = n
  nd : ((c.esAt n).map (·.gram)).Nodup
  unmarked : n = 1 → ∀ e ∈ c.esAt 1, e.gram ≠ [unk] → e.gram ≠ [bos] → e.marked = false
  lower : LowerOK (stage3Of c n).1 (lowerOf c n)
  next : NextOK (stage3Of c n).1 (nextOf c pruned n)

theorem specOrder_p (c : Spec.Ctx) (n : Nat) : ∀ e ∈ specOrder c n, e.p = c.prob e.gram := by
  intro e he
  have := (List.mergeSort_perm _ _).mem_iff.mp he
  rcases List.mem_map.mp this with ⟨x, _, rfl⟩
  rfl

theorem interpOrder_ok (c : Spec.Ctx) (pruned : Nat → Bool) (n : Nat) (hn0 : 1 ≤ n)
    (h : OrderOK c pruned n) :
    interpOrder n (stage3Of c n).1 (lowerOf c n) c.uniform (nextOf c pruned n)
      = .ok (specOrder c n) := by
  apply interpOrder_specOrder c n hn0 h.len h.nd h.unmarked _ rfl _ _ _ _ h.lower h.next
  · unfold lowerOf
    by_cases h1 : n = 1
    · simp [h1]
    · simp only [h1, if_false]
      refine ⟨h1, ?_⟩
      intro kp hkp
      rcases List.mem_map.mp hkp with ⟨e, he, rfl⟩
      exact specOrder_p c (n - 1) e he
  · unfold nextOf
    by_cases h1 : n < c.cfg.order
    · rw [if_pos h1]; exact ⟨h1, rfl⟩
    · rw [if_neg h1]; exact h1

/-- **`interp_eq`, all orders**: when every order satisfies `OrderOK`, the streaming stage 4 run
on the streaming stage 3 produces the entry lists of the specification, order by order -/
theorem interpAll_eq (c : Spec.Ctx) (pruned : Nat → Bool)
    (hok : ∀ n, 1 ≤ n → n ≤ c.cfg.order → OrderOK c pruned n) :
    ∀ (m n : Nat), 1 ≤ n → n + m = c.cfg.order + 1 →
      interpAll pruned c.uniform n ((List.range' n m).map (stage3Of c)) (lowerOf c n)
        = .ok ((List.range' n m).map (specOrder c)) := by
  intro m
  induction m with
  | zero => intro n _ _; rfl
  | succ m ih =>
    intro n hn0 hnm
    have hle : n ≤ c.cfg.order := by omega
    have hord := interpOrder_ok c pruned n hn0 (hok n hn0 hle)
    have hnext : (match (List.range' (n + 1) m).map (stage3Of c) with
        | (_, gams) :: _ => some (gams, pruned n)
        | [] => none) = nextOf c pruned n := by
      unfold nextOf
      cases m with
      | zero => have : ¬ n < c.cfg.order := by omega
                simp [this]
      | succ m' => have : n < c.cfg.order := by omega
                   simp [this, List.range'_succ]
    have hlow : (some ((specOrder c n).map fun e => (e.gram, e.p)) : Option (List (Gram × Rat)))
        = lowerOf c (n + 1) := by
      unfold lowerOf
      have : n + 1 ≠ 1 := by omega
      rw [if_neg this]; rfl
    rw [List.range'_succ, List.map_cons, List.map_cons]
    show (do
      let es ← interpOrder n (stage3Of c n).1 (lowerOf c n) c.uniform
        (match (List.range' (n + 1) m).map (stage3Of c) with
          | (_, gams) :: _ => some (gams, pruned n)
          | [] => none)
      let tl ← interpAll pruned c.uniform (n + 1) ((List.range' (n + 1) m).map (stage3Of c))
        (some (es.map fun e : Entry => (e.gram, e.p)))
      pure (es :: tl)) = _
    rw [hnext, hord]
    simp only [bind, Except.bind]
    rw [hlow, ih (n + 1) (by omega) (by omega)]
    rfl

/-- **`interp_eq`**: stage 4 on stage 3, from order 1 with no lower order -/
theorem interp_eq (c : Spec.Ctx) (pruned : Nat → Bool)
    (hok : ∀ n, 1 ≤ n → n ≤ c.cfg.order → OrderOK c pruned n) :
    interpAll pruned c.uniform 1 ((List.range' 1 c.cfg.order).map (stage3Of c)) none
      = .ok ((List.range' 1 c.cfg.order).map (specOrder c)) :=
  interpAll_eq c pruned hok c.cfg.order 1 (Nat.le_refl 1) (by omega)

/-! ### What is left (stated, not proved)

`OrderOK.lower` and `OrderOK.next` are ordering-plus-closure facts about the streams.  The
ordering halves follow from lemmas above (`dropLast_sorted` with `pairwise_mergeSort` for the
upper stream, `specOrder` sorted with distinct n-grams for the lower stream, `initialOrder_gams`
for the gammas; two strictly sorted lists are sublists of each other as soon as they are
subsets).  What then remains are the three closure facts below, which speak about the records
only. -/

/-- closure facts of order `n`: the back-off n-gram of a kept record is a kept record of the
lower order; a kept record that asks for a back-off is the context of a record of the next
order; and, when the next order is not pruned, conversely every context of the next order is
a kept record that asks for a back-off -/
def ClosureFacts (c : Spec.Ctx) (pruned : Nat → Bool) (n : Nat) : Prop :=
  (n ≠ 1 → ∀ e ∈ c.esAt n, keptBy e = true →
      ∃ e' ∈ c.esAt (n - 1), keptBy e' = true ∧ e'.gram = e.gram.dropLast) ∧
  (n < c.cfg.order → ∀ e ∈ c.esAt n, keptBy e = true → wantsBackoff e.gram = true →
      ∃ e' ∈ c.esAt (n + 1), e'.gram.tail = e.gram) ∧
  (n < c.cfg.order → pruned n = false → ∀ e' ∈ c.esAt (n + 1),
      ∃ e ∈ c.esAt n, keptBy e = true ∧ wantsBackoff e.gram = true ∧ e.gram = e'.gram.tail)

/-- the intended reduction of `OrderOK` to record facts (not proved here; needs
`interpOrder`-independent list lemmas only: sections 3, 4 and `initialOrder_gams`) -/
def OrderOKOfClosure : Prop :=
  ∀ (c : Spec.Ctx) (pruned : Nat → Bool) (n : Nat), 1 ≤ n → n ≤ c.cfg.order →
    (∀ k, 1 ≤ k → k ≤ c.cfg.order → (∀ e ∈ c.esAt k, e.gram.length = k) ∧
      ((c.esAt k).map (·.gram)).Nodup) →
    (∀ e ∈ c.esAt 1, e.gram ≠ [unk] → e.gram ≠ [bos] → e.marked = false) →
    ClosureFacts c pruned n → OrderOK c pruned n

/-! ## 11. Non-vacuity: the hypotheses are satisfiable and the conclusions non-trivial -/

def exD : Disc := ⟨1/2, 1, 3/2⟩
def exEs : List Emit := [⟨[7, 5], 2, false⟩, ⟨[9, 6], 4, false⟩, ⟨[8, 5], 1, true⟩, ⟨[3, 5], 3, false⟩]
def exRun : List Emit := [⟨[3, 5], 3, false⟩, ⟨[7, 5], 2, false⟩, ⟨[8, 5], 1, true⟩]

example : exRun ≠ [] ∧ (∀ e ∈ exRun, e.gram.tail = [5]) ∧ exRun.Perm (Spec.group exEs [5]) := by
  decide
example : (addRight exD exRun).den = 6 := by decide
example : (addRight exD exRun).den = Spec.den exEs [5] ∧
    (addRight exD exRun).gamma = Spec.gamma exD exEs [5] ∧ (addRight exD exRun).ctx = [5] :=
  addRight_eq exD exEs exRun [5] (by decide) (by decide) (by decide)
example : mergeRight exD exRun = exRun.map (specUninterp exD exEs) :=
  mergeRight_eq exD exEs exRun [5] (by decide) (by decide)
example : ctxRuns (exRun ++ [⟨[9, 6], 4, false⟩]) = [exRun, [⟨[9, 6], 4, false⟩]] := by decide
example : (exRun ++ [(⟨[9, 6], 4, false⟩ : Emit)]).Pairwise
    (fun a b : Emit => a.gram.tail ≤ b.gram.tail) := by decide

def exLower : List (Gram × Rat) := [([2], 1/10), ([5], 1/5), ([6], 3/10), ([7], 2/5)]
def exUs : List Uninterp := [⟨[2, 1], 1/4, 1/2, true⟩, ⟨[5, 1], 1/6, 1/3, true⟩, ⟨[7, 5], 1, 0, true⟩]
example : LowerOK exUs (some exLower) := by
  refine ⟨by decide, by decide, by decide⟩
example : joinLower exUs exLower 2
    = .ok (exUs.map fun x => (x, (exLower.lookup x.gram.dropLast).getD 0)) :=
  joinLower_eq exUs exLower 2 (by decide) (by decide) (by decide)
example : joinLower exUs [([2], 1/10), ([6], 3/10)] 2 = .error (Err.noMatchingSuffix 2) :=
  joinLower_error _ _ _ (by decide)
example : ([3, 6] : Gram) < [7, 5] ∧ ([3, 6] : Gram).dropLast ≤ ([7, 5] : Gram).dropLast := by decide

def exGams : List Gam := [⟨[5, 1], 3, 1/3⟩, ⟨[6, 2], 1, 1/2⟩, ⟨[7, 5], 2, 1/4⟩]
def exGs : List Gram := exUs.map (·.gram)
example : (exGams.map (·.ctx)).Nodup ∧ (exGs.filter wantsBackoff).Sublist (exGams.map (·.ctx)) := by
  decide
example : takeBackoffsHash exGs exGams = specBackoffs exGs exGams :=
  takeBackoffsHash_eq exGs exGams (by decide) (by decide)
example : takeBackoffsSeq exGs [exGams[0], exGams[2]] = specBackoffs exGs [exGams[0], exGams[2]] ∧
    leftoverSeq exGs [exGams[0], exGams[2]] = 0 :=
  takeBackoffsSeq_eq exGs _ (by decide) (by decide)
example : leftoverSeq exGs exGams = 1 := by decide
example : NextOK exUs (some ([exGams[0], exGams[2]], false)) ∧ NextOK exUs (some (exGams, true)) := by
  refine ⟨⟨by decide, by decide⟩, ⟨by decide, by decide⟩⟩

def exUni : List Emit := [⟨[0], 0, false⟩, ⟨[1], 0, false⟩, ⟨[2], 3, false⟩, ⟨[5], 2, false⟩]
example : mergeRightUnigram true exD exUni = exUni.map (specUninterp1 true exD exUni) :=
  mergeRightUnigram_eq true exD exUni exUni (by decide) (by decide)

end KV.KN.Interp
