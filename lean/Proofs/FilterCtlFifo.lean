import Model.FilterCtl
import Model.Chain
/-!
The three queues of `KV.FilterCtl` are used only through the atomic bounded-FIFO operations
`KV.Chain.fifoPush cfg.queue` / `KV.Chain.fifoPop` — the interface that
`KV.C17.pcqueue_refines_fifo` proves the step-level model of `util::PCQueue` refines.
-/
namespace KV.FilterCtl
open KV.Chain (fifoPush fifoPop)
variable {α : Type}

/-- one thread step does at most one FIFO operation on a queue -/
def FifoOp {β : Type} (cap : Nat) (q q' : List β) : Prop :=
  q' = q ∨ (∃ x, fifoPush cap q x = some q') ∨ (∃ x, fifoPop q = some (x, q'))

theorem FifoOp.same {β : Type} (cap : Nat) (q : List β) : FifoOp cap q q := Or.inl rfl

theorem FifoOp.push {β : Type} {cap : Nat} {q : List β} (x : β) (h : q.length < cap) : FifoOp cap q (q ++ [x]) :=
  Or.inr (Or.inl ⟨x, by simp [fifoPush, h]⟩)

theorem FifoOp.pop {β : Type} (cap : Nat) (x : β) (q : List β) : FifoOp cap (x :: q) q :=
  Or.inr (Or.inr ⟨x, rfl⟩)

def QueuesFifo (cfg : Cfg α) (s s' : State α) : Prop :=
  FifoOp cfg.queue s.toRead s'.toRead ∧ FifoOp cfg.queue s.filterQ s'.filterQ ∧ FifoOp cfg.queue s.doneQ s'.doneQ

theorem newInput_queues (cfg : Cfg α) (s : State α) :
    (newInput cfg s).toRead = s.toRead ∧ (newInput cfg s).filterQ = s.filterQ ∧ (newInput cfg s).doneQ = s.doneQ := by
  unfold newInput; split <;> exact ⟨rfl, rfl, rfl⟩

theorem reader_fifo (cfg : Cfg α) {s s' : State α} (hst : readerStep cfg s = some s') : QueuesFifo cfg s s' := by
  unfold readerStep at hst
  split at hst
  · split at hst
    · simp only [Option.some.injEq] at hst; subst hst; exact ⟨.same _ _, .same _ _, .same _ _⟩
    · simp only [Option.some.injEq] at hst; subst hst; exact ⟨.same _ _, .same _ _, .same _ _⟩
    · split at hst
      · simp at hst
      simp only at hst
      split at hst
      · split at hst
        · rename_i hroom
          split at hst
          · simp only [Option.some.injEq] at hst; subst hst
            exact ⟨.same _ _, .push _ hroom, .same _ _⟩
          · simp only [Option.some.injEq] at hst; subst hst
            obtain ⟨h1, h2, h3⟩ := newInput_queues cfg (send cfg { s with prog := _ } _ _)
            refine ⟨?_, ?_, ?_⟩
            · rw [h1]; exact .same _ _
            · rw [h2]; exact .push _ hroom
            · rw [h3]; exact .same _ _
        · simp at hst
      · simp only [Option.some.injEq] at hst; subst hst; exact ⟨.same _ _, .same _ _, .same _ _⟩
    · split at hst
      · simp at hst
      simp only at hst
      split at hst
      · simp only [Option.some.injEq] at hst; subst hst; exact ⟨.same _ _, .same _ _, .same _ _⟩
      · split at hst
        · rename_i hroom
          simp only [Option.some.injEq] at hst; subst hst
          exact ⟨.same _ _, .push _ hroom, .same _ _⟩
        · simp at hst
  · split at hst
    · simp at hst
    · rename_i b tr htr
      simp only [Option.some.injEq] at hst; subst hst
      obtain ⟨h1, h2, h3⟩ := newInput_queues cfg { s with toRead := tr, localRead := b :: s.localRead, rpc := .run }
      refine ⟨?_, ?_, ?_⟩
      · rw [h1, htr]; exact .pop _ _ _
      · rw [h2]; exact .same _ _
      · rw [h3]; exact .same _ _
  · split at hst
    · split at hst
      · simp at hst
      · rename_i b tr htr
        simp only [Option.some.injEq] at hst; subst hst
        exact ⟨by rw [htr]; exact .pop _ _ _, .same _ _, .same _ _⟩
    · simp only [Option.some.injEq] at hst; subst hst
      obtain ⟨h1, h2, h3⟩ := newInput_queues cfg { s with rpc := .run }
      refine ⟨?_, ?_, ?_⟩
      · rw [h1]; exact .same _ _
      · rw [h2]; exact .same _ _
      · rw [h3]; exact .same _ _
  · split at hst
    · simp only [Option.some.injEq] at hst; subst hst; exact ⟨.same _ _, .same _ _, .same _ _⟩
    · simp at hst
  · split at hst
    · rename_i hroom
      simp only [Option.some.injEq] at hst; subst hst; exact ⟨.same _ _, .push _ hroom, .same _ _⟩
    · simp at hst
  · split at hst
    · rename_i hroom
      simp only [Option.some.injEq] at hst; subst hst; exact ⟨.same _ _, .same _ _, .push _ hroom⟩
    · simp at hst
  · split at hst
    · simp only [Option.some.injEq] at hst; subst hst; exact ⟨.same _ _, .same _ _, .same _ _⟩
    · simp at hst
  · simp at hst

theorem worker_fifo (cfg : Cfg α) {s s' : State α} (i : Nat) (hst : workerStep cfg s i = some s') : QueuesFifo cfg s s' := by
  unfold workerStep at hst
  split at hst
  · split at hst
    · simp at hst
    · rename_i b q hq
      simp only [Option.some.injEq] at hst; subst hst
      exact ⟨.same _ _, by rw [hq]; exact .pop _ _ _, .same _ _⟩
    · rename_i q hq
      simp only [Option.some.injEq] at hst; subst hst
      exact ⟨.same _ _, by rw [hq]; exact .pop _ _ _, .same _ _⟩
  · split at hst
    · rename_i hroom
      simp only [Option.some.injEq] at hst; subst hst
      exact ⟨.same _ _, .same _ _, .push _ hroom⟩
    · simp at hst
  · simp at hst

theorem out_fifo (cfg : Cfg α) {s s' : State α} (hst : outStep cfg s = some s') : QueuesFifo cfg s s' := by
  unfold outStep at hst
  split at hst
  · simp at hst
  split at hst
  · split at hst
    · rename_i hroom
      simp only [Option.some.injEq] at hst; subst hst
      exact ⟨.push _ hroom, .same _ _, .same _ _⟩
    · simp at hst
  · split at hst
    · simp at hst
    · rename_i q hq
      simp only [Option.some.injEq] at hst; subst hst
      exact ⟨.same _ _, .same _ _, by rw [hq]; exact .pop _ _ _⟩
    · rename_i b q hq
      simp only [Option.some.injEq] at hst; subst hst
      exact ⟨.same _ _, .same _ _, by rw [hq]; exact .pop _ _ _⟩

/-- **every step of every thread uses the queues only as atomic bounded FIFOs of capacity `queue`** -/
theorem step_queues_fifo (cfg : Cfg α) {s s' : State α} (t : Tid) (hst : step cfg s t = some s') : QueuesFifo cfg s s' := by
  cases t with
  | reader => exact reader_fifo cfg hst
  | outw => exact out_fifo cfg hst
  | worker i => exact worker_fifo cfg i hst

end KV.FilterCtl
