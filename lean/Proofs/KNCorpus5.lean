import Proofs.KNCorpus4
/-!
The order-1 model (`cfg.order = 1`, `Spec.ents1`) on the corpus: what is written
(`written_set_corpus1`), the special unigrams (`specials_corpus1`), the header counts
(`header_counts_corpus1`).  The closure clause (`closed`) is vacuous at order 1: no n-gram of
length ≥ 2 is written (`no_higher_order1`).
-/
namespace KV.KN.Norm

open KV.KN KV.KN.Spec

/-! ## 1. The unigram table of a corpus -/

theorem mem_windows_one {l : List Word} {g : Gram} : g ∈ windows 1 l ↔ ∃ w ∈ l, g = [w] := by
  induction l with
  | nil => simp [windows]
  | cons a t ih =>
    rw [windows_cons, if_pos (by simp), List.mem_cons, ih]
    simp

theorem mem_occ_one {corpus : List (List Word)} {g : Gram} :
    g ∈ occurrences 1 corpus ↔ ∃ w, g = [w] ∧ ((∃ s ∈ corpus, w ∈ s) ∨ (w = eos ∧ corpus ≠ [])) := by
  unfold occurrences
  rw [List.mem_flatMap]
  have hp : ∀ s : List Word, paddedN 1 s = s ++ [eos] := by intro s; simp [paddedN]
  constructor
  · rintro ⟨s, hs, hg⟩
    rw [hp, mem_windows_one] at hg
    obtain ⟨w, hw, rfl⟩ := hg
    refine ⟨w, rfl, ?_⟩
    rcases List.mem_append.mp hw with h | h
    · exact Or.inl ⟨s, hs, h⟩
    · exact Or.inr ⟨by simpa using h, by intro h0; rw [h0] at hs; cases hs⟩
  · rintro ⟨w, rfl, h⟩
    rcases h with ⟨s, hs, hw⟩ | ⟨rfl, hne⟩
    · exact ⟨s, hs, by rw [hp, mem_windows_one]; exact ⟨w, by simp [hw], rfl⟩⟩
    · obtain ⟨s, hs⟩ : ∃ s, s ∈ corpus := by
        cases corpus with
        | nil => contradiction
        | cons a t => exact ⟨a, by simp⟩
      exact ⟨s, hs, by rw [hp, mem_windows_one]; exact ⟨eos, by simp, rfl⟩⟩

/-- the count of a row is the number of occurrences of its n-gram -/
theorem sumP_key (l : List (Gram × Nat)) (h : (l.map (·.1)).Nodup) (r : Gram × Nat) (hr : r ∈ l) :
    sumP (fun g => g == r.1) l = r.2 := by
  induction l with
  | nil => cases hr
  | cons a t ih =>
    obtain ⟨g, c⟩ := a
    rw [List.map_cons, List.nodup_cons] at h
    rw [sumP_cons]
    have hz : ∀ x ∈ t, x.1 ≠ g := fun x hx hxg => h.1 (hxg ▸ List.mem_map.mpr ⟨x, hx, rfl⟩)
    rcases List.mem_cons.mp hr with rfl | hr'
    · have : sumP (fun g' => g' == g) t = 0 := by
        unfold sumP
        rw [List.filter_eq_nil_iff.mpr]
        · rfl
        · intro x hx; simpa using hz x hx
      simp [this]
    · have hne : g ≠ r.1 := fun h0 => hz r hr' h0.symm
      have : (g == r.1) = false := by simpa using hne
      rw [this, ih h.2 hr']; simp

theorem row_count (N : Nat) (corpus : List (List Word)) (r : Gram × Nat) (hr : r ∈ countFull N corpus) :
    r.2 = (occurrences N corpus).count r.1 := by
  rw [← sumP_key _ (countFull_nodup N corpus) r hr, sumP_countFull, List.count_eq_countP]

/-! ## 2. What is written -/

section
variable {cfg : Cfg} {full : Table} (hw : TableWF1 cfg full) (discs : List (Disc × Bool))
include hw

theorem rec1_kept_row {r : Gram × Nat} (hr : r ∈ full) :
    keptBy (rec1 cfg r) = true ↔
      r.1 = [eos] ∨ (cfg.thr 0 < r.2 ∧ r.1.any cfg.excl = false) := by
  have hl := hw.len r hr
  have hp := hw.pos r hr
  have hh := hw.headOK r hr
  obtain ⟨g, c⟩ := r
  simp only at hl hp hh ⊢
  by_cases he : g = [eos]
  · subst he; simp [rec1, keptBy, isSpecial]
  · have hsp : (g == [unk] || g == [bos] || g == [eos]) = false := by simp [hh.1, hh.2, he]
    have hsp' : (g.length == 1 && g.all isSpecial) = false := by rw [special_iff, hsp]
    simp only [rec1, keptBy, hsp, hsp', Bool.false_eq_true, if_false, Bool.false_or,
      decide_eq_true_eq, Emit.cutoff, he, false_or]
    cases hm : (decide (c ≤ cfg.thr 0) || g.any cfg.excl) with
    | true =>
      simp only [if_true]
      simp only [Bool.or_eq_true, decide_eq_true_eq] at hm
      constructor
      · intro h; omega
      · rintro ⟨h1, h2⟩
        rcases hm with h | h
        · omega
        · rw [h2] at h; cases h
    | false =>
      simp only [Bool.false_eq_true, if_false]
      simp only [Bool.or_eq_false_iff, decide_eq_false_iff_not] at hm
      constructor
      · intro _; exact ⟨by omega, hm.2⟩
      · intro _; omega

theorem written_iff1 (g : Gram) :
    (Query.lookup (ordersOf (specCtx cfg full discs)) g).isSome = true ↔
      g = [unk] ∨ g = [bos] ∨
        ∃ r ∈ full, r.1 = g ∧ (g = [eos] ∨ (cfg.thr 0 < r.2 ∧ g.any cfg.excl = false)) := by
  by_cases hne : g = []
  · subst hne
    simp only [Query.lookup, Option.isSome_none, Bool.false_eq_true, false_iff]
    rintro (h | h | ⟨r, hr, h, _⟩)
    · cases h
    · cases h
    · have := hw.len r hr; rw [h] at this; simp at this
  rw [lookup_isSome_iff _ hne, keptIn_iff]
  constructor
  · rintro ⟨e, he, hke, heg⟩
    have hl1 : g.length = 1 := by
      by_contra hl
      rw [esAt1_spec hw, if_neg (by have := length_pos_of_ne_nil hne; omega)] at he; cases he
    rw [hl1] at he
    obtain ⟨r, hr, rfl⟩ := (mem_esAt1 hw discs).mp he
    have hrg : r.1 = g := heg
    rcases hr with rfl | rfl | hr
    · exact Or.inl hrg.symm
    · exact Or.inr (Or.inl hrg.symm)
    · refine Or.inr (Or.inr ⟨r, hr, hrg, ?_⟩)
      rw [← hrg]
      exact (rec1_kept_row hw hr).mp hke
  · rintro (rfl | rfl | ⟨r, hr, rfl, h⟩)
    · exact ⟨rec1 cfg ([unk], 0), (mem_esAt1 hw discs).mpr ⟨_, Or.inl rfl, rfl⟩, rfl, rfl⟩
    · exact ⟨rec1 cfg ([bos], 0), (mem_esAt1 hw discs).mpr ⟨_, Or.inr (Or.inl rfl), rfl⟩, rfl, rfl⟩
    · have hl := hw.len r hr
      refine ⟨rec1 cfg r, ?_, (rec1_kept_row hw hr).mpr h, rfl⟩
      rw [hl]
      exact (mem_esAt1 hw discs).mpr ⟨r, Or.inr (Or.inr hr), rfl⟩

/-- no n-gram of length ≥ 2 is written by the order-1 model (so `closed` is vacuous) -/
theorem no_higher_order1 (g : Gram) (hg : 2 ≤ g.length) :
    (Query.lookup (ordersOf (specCtx cfg full discs)) g).isSome = false := by
  cases h : (Query.lookup (ordersOf (specCtx cfg full discs)) g).isSome with
  | false => rfl
  | true =>
    rcases (written_iff1 hw discs g).mp h with rfl | rfl | ⟨r, hr, rfl, _⟩
    · simp at hg
    · simp at hg
    · have := hw.len r hr; omega

theorem kept_eq_unmarked1 (n : Nat) (e : Emit) (he : e ∈ (specCtx cfg full discs).esAt n) (hn : 1 ≤ n) :
    keptBy e = !e.marked := by
  by_cases hn1 : n = 1
  · subst hn1
    obtain ⟨r, hr, rfl⟩ := (mem_esAt1 hw discs).mp he
    rcases hr with rfl | rfl | hr
    · rfl
    · rfl
    · have hl := hw.len r hr
      have hp := hw.pos r hr
      obtain ⟨g, c⟩ := r
      simp only at hl hp
      simp only [rec1, keptBy, Emit.cutoff, special_iff]
      cases hsp : (g == [unk] || g == [bos] || g == [eos]) with
      | true => simp
      | false =>
        cases hm : (decide (c ≤ cfg.thr 0) || g.any cfg.excl) with
        | true => simp
        | false => simp; omega
  · rw [esAt1_spec hw, if_neg (by omega)] at he; cases he

end

theorem header_counts_table1 (cfg : Cfg) (fallback : Option Disc) (full : Spec.Table) (m : Model)
    (hm : Spec.estimateFrom cfg fallback full = .ok m) (hw : TableWF1 cfg full) :
    m.header = m.orders.map List.length := by
  obtain ⟨discs, _, ho⟩ := estimateFrom_orders cfg fallback full m hm
  rw [estimateFrom_header cfg fallback full m hm, ho]
  unfold ordersOf
  have hes : (specCtx cfg full discs).es = specRecords cfg full := rfl
  rw [hes, List.map_map, List.map_map]
  apply List.map_congr_left
  intro l hl
  obtain ⟨n, hn, hln⟩ := esAt_of_mem (specCtx cfg full discs) (hes ▸ hl)
  simp only [Function.comp, List.length_mergeSort, List.length_map, Spec.stats]
  rw [List.countP_eq_length_filter]
  congr 1
  apply List.filter_congr
  intro e he
  rw [kept_eq_unmarked1 hw discs n e (hln ▸ he) hn]

/-! ## 3. Corpus level -/

section
variable (cfg : Cfg) (pv : Bool) (fallback : Option Disc) (corpus : List (List Word)) (m : Model)
  (hm : Spec.estimate cfg pv fallback corpus = .ok m) (h1 : cfg.order = 1) (hne : corpus ≠ [])
  (hw : ∀ s ∈ corpus, ∀ w ∈ s, 3 ≤ w)
include hm h1 hne hw

/-- **What is written, order 1**: `<unk>`, `<s>`, `</s>`, and the words of the corpus whose count is
above the unigram threshold and that are not excluded -/
theorem written_set_corpus1 (g : Gram) :
    (Query.lookup m.orders g).isSome = true ↔
      g = [unk] ∨ g = [bos] ∨
        ∃ w, g = [w] ∧ ((∃ s ∈ corpus, w ∈ s) ∨ w = eos) ∧
          (w = eos ∨ (cfg.thr 0 < (occurrences 1 corpus).count [w] ∧ cfg.excl w = false)) := by
  unfold Spec.estimate at hm
  rw [if_pos (by omega)] at hm
  obtain ⟨discs, _, ho⟩ := estimateFrom_orders cfg fallback _ m hm
  have hW := tableWF1_countFull cfg corpus h1 hne hw
  rw [ho, written_iff1 hW discs g]
  constructor
  · rintro (h | h | ⟨r, hr, rfl, hk⟩)
    · exact Or.inl h
    · exact Or.inr (Or.inl h)
    · have hocc := (mem_countFull_keys 1 corpus r.1).mp (List.mem_map.mpr ⟨r, hr, rfl⟩)
      obtain ⟨w, hg, hwc⟩ := mem_occ_one.mp hocc
      refine Or.inr (Or.inr ⟨w, hg, ?_, ?_⟩)
      · rcases hwc with h | ⟨h, _⟩
        · exact Or.inl h
        · exact Or.inr h
      · rcases hk with h | ⟨h3, h4⟩
        · left; rw [hg] at h; simpa using h
        · right
          rw [row_count 1 corpus r hr, hg] at h3
          rw [hg] at h4
          exact ⟨h3, by simpa using h4⟩
  · rintro (h | h | ⟨w, rfl, hwc, hk⟩)
    · exact Or.inl h
    · exact Or.inr (Or.inl h)
    · have hocc : [w] ∈ occurrences 1 corpus := mem_occ_one.mpr ⟨w, rfl, by
        rcases hwc with h | h
        · exact Or.inl h
        · exact Or.inr ⟨h, hne⟩⟩
      obtain ⟨r, hr, hrg⟩ := List.mem_map.mp ((mem_countFull_keys 1 corpus [w]).mpr hocc)
      refine Or.inr (Or.inr ⟨r, hr, hrg, ?_⟩)
      rcases hk with h | ⟨h3, h4⟩
      · left; rw [h]
      · right
        rw [row_count 1 corpus r hr, hrg]
        exact ⟨h3, by simp [h4]⟩

theorem specials_corpus1 :
    (Query.lookup m.orders [unk]).isSome = true ∧ (Query.lookup m.orders [bos]).isSome = true ∧
      (Query.lookup m.orders [eos]).isSome = true := by
  have hW := written_set_corpus1 cfg pv fallback corpus m hm h1 hne hw
  exact ⟨(hW [unk]).mpr (Or.inl rfl), (hW [bos]).mpr (Or.inr (Or.inl rfl)),
    (hW [eos]).mpr (Or.inr (Or.inr ⟨eos, rfl, Or.inr rfl, Or.inl rfl⟩))⟩

theorem header_counts_corpus1 : m.header = m.orders.map List.length := by
  unfold Spec.estimate at hm
  rw [if_pos (by omega)] at hm
  exact header_counts_table1 cfg fallback _ m hm (tableWF1_countFull cfg corpus h1 hne hw)

end

end KV.KN.Norm
