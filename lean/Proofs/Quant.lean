import Model.QuantBins
/-! Lossless quantisation: (a) value count ≤ bins, (b) equal multiplicities with one bin per distinct value. -/
namespace KV.QuantBins

theorem takeWhile_length_of_prefix {α} (p : α → Bool) :
    ∀ (l : List α) (j : Nat) (hj : j < l.length), (∀ i (hi : i < j), p (l[i]'(by omega)) = true) → p (l[j]) = false →
      (l.takeWhile p).length = j := by
  intro l
  induction l with
  | nil => intro j hj; simp at hj
  | cons x xs ih =>
    intro j hj hall hstop
    cases j with
    | zero => simp at hstop; simp [List.takeWhile, hstop]
    | succ j =>
      have hx : p x = true := by simpa using hall 0 (by omega)
      simp only [List.takeWhile, hx, List.length_cons]
      congr 1
      apply ih j (by simpa using hj)
      · intro i hi; simpa using hall (i+1) (by omega)
      · simpa using hstop

/-- the encoder finds a centre that equals the value when all earlier centres are smaller -/
theorem roundTrip_of_index (cs : List (Option Rat)) (v : Rat) (j : Nat) (hj : j < cs.length)
    (hv : cs[j] = some v) (hlt : ∀ i (hi : i < j), ltOpt (cs[i]'(by omega)) v = true) :
    decode cs (encode cs v) = some v := by
  have hlb : lowerBound cs v = j := by
    unfold lowerBound
    apply takeWhile_length_of_prefix _ cs j hj hlt
    rw [hv]; simp [ltOpt]
  have hdec : decode cs j = some v := by simp [decode, List.getD, hj, hv]
  unfold encode
  simp only [hlb]
  by_cases h0 : j = 0
  · simp [h0] at hdec ⊢; exact hdec
  · have hne : ¬ j = cs.length := by omega
    simp only [h0, hne, if_false]
    have hj1 : j - 1 < j := by omega
    have hprev := hlt (j - 1) hj1
    have hget1 : cs.getD (j - 1) none = cs[j - 1]'(by omega) := by simp [List.getD, show j - 1 < cs.length by omega]
    have hget2 : cs.getD j none = some v := by simp [List.getD, hj, hv]
    rw [hget1, hget2]
    cases hc : cs[j - 1]'(by omega) with
    | none => exact hdec
    | some lo =>
      rw [hc] at hprev
      have hlo : lo < v := by simpa [ltOpt] using hprev
      have : ¬ (v - lo < v - v) := by
        intro h; have : v - v = 0 := by grind
        grind
      simp only [this, if_false]; exact hdec

theorem sum_replicate (m : Nat) (d : Rat) : (List.replicate m d).sum = (m : Rat) * d := by
  induction m with
  | zero => simp
  | succ m ih => rw [List.replicate_succ, List.sum_cons, ih]; push_cast; grind

theorem mean_replicate (m : Nat) (hm : 0 < m) (d : Rat) : mean (List.replicate m d) = d := by
  unfold mean
  rw [sum_replicate, List.length_replicate]
  have : (m : Rat) ≠ 0 := by
    have : (0 : Rat) < (m : Rat) := by exact_mod_cast hm
    grind
  grind

end KV.QuantBins

namespace KV.QuantBins

theorem drop_flatMap_replicate (m : Nat) : ∀ (ds : List Rat) (i : Nat),
    (ds.flatMap (List.replicate m)).drop (m * i) = (ds.drop i).flatMap (List.replicate m) := by
  intro ds
  induction ds with
  | nil => intro i; simp
  | cons d rest ih =>
    intro i
    cases i with
    | zero => simp
    | succ i =>
      have : m * (i + 1) = (List.replicate m d).length + m * i := by simp [Nat.mul_succ, Nat.add_comm]
      rw [List.flatMap_cons, this, List.drop_append]
      have e1 : List.drop ((List.replicate m d).length + m * i) (List.replicate m d) = [] := List.drop_eq_nil_of_le (by omega)
      have e2 : (List.replicate m d).length + m * i - (List.replicate m d).length = m * i := by omega
      rw [e1, e2, ih]; simp

theorem length_flatMap_replicate (m : Nat) (ds : List Rat) : (ds.flatMap (List.replicate m)).length = ds.length * m := by
  induction ds with
  | nil => simp
  | cons d rest ih => rw [List.flatMap_cons, List.length_append, ih]; simp [Nat.succ_mul, Nat.add_comm]

theorem seg_equal_mult (m : Nat) (ds : List Rat) (i : Nat) (hi : i < ds.length) :
    seg (ds.flatMap (List.replicate m)) ds.length i = List.replicate m ds[i] := by
  have hk : 0 < ds.length := by omega
  unfold seg binLo binHi
  rw [length_flatMap_replicate]
  have h1 : ds.length * m * i / ds.length = m * i := by
    rw [Nat.mul_assoc]; exact Nat.mul_div_cancel_left _ hk
  have h2 : ds.length * m * (i + 1) / ds.length = m * (i + 1) := by
    rw [Nat.mul_assoc]; exact Nat.mul_div_cancel_left _ hk
  rw [h1, h2, drop_flatMap_replicate]
  have h3 : m * (i + 1) - m * i = m := by rw [Nat.mul_succ]; omega
  rw [h3, List.drop_eq_getElem_cons hi, List.flatMap_cons]
  rw [List.take_append_of_le_length (by simp)]
  simp

theorem centreAt_equal_mult (m : Nat) (hm : 0 < m) (ds : List Rat) (i : Nat) (hi : i < ds.length) :
    centreAt (ds.flatMap (List.replicate m)) ds.length i = some ds[i] := by
  have hs := seg_equal_mult m ds i hi
  have hne : (List.replicate m ds[i]).isEmpty = false := by
    cases m with
    | zero => omega
    | succ m => simp [List.replicate_succ]
  cases i with
  | zero => simp only [centreAt, hs, hne, Bool.false_eq_true, if_false, mean_replicate m hm]
  | succ i => simp only [centreAt, hs, hne, Bool.false_eq_true, if_false, mean_replicate m hm]

theorem makeBins_equal_mult (m : Nat) (hm : 0 < m) (ds : List Rat) :
    makeBins (ds.flatMap (List.replicate m)) ds.length = ds.map some := by
  unfold makeBins
  apply List.ext_getElem
  · simp
  · intro i h1 h2
    have hi : i < ds.length := by simpa using h1
    simp [centreAt_equal_mult m hm ds i hi]

/-- **Equal multiplicity ⇒ lossless.**  `k` distinct values (strictly increasing `ds`), each occurring exactly `m > 0`
times, quantised with `k` bins: every value decodes to itself. -/
theorem equal_multiplicity_lossless (m : Nat) (hm : 0 < m) (ds : List Rat) (hsorted : ds.Pairwise (· < ·))
    (v : Rat) (hv : v ∈ ds) : roundTrip (ds.flatMap (List.replicate m)) ds.length v = some v := by
  unfold roundTrip
  simp only [makeBins_equal_mult m hm ds]
  obtain ⟨j, hj, hjv⟩ := List.mem_iff_getElem.mp hv
  apply roundTrip_of_index (ds.map some) v j (by simpa using hj) (by simp [hjv])
  intro i hi
  have := (List.pairwise_iff_getElem.mp hsorted) i j (by omega) hj hi
  simp [ltOpt, hjv] at this ⊢
  exact this

end KV.QuantBins

namespace KV.QuantBins

theorem bin_width_le_one (n bins i : Nat) (hb : 0 < bins) (hn : n ≤ bins) :
    binHi n bins i - binLo n bins i ≤ 1 := by
  unfold binHi binLo
  have h1 : n * (i + 1) ≤ n * i + bins := by rw [Nat.mul_succ]; omega
  have h2 := Nat.div_le_div_right (c := bins) h1
  rw [Nat.add_div_right _ hb] at h2
  omega

theorem binLo_le_binHi (n bins i : Nat) : binLo n bins i ≤ binHi n bins i := by
  unfold binHi binLo
  exact Nat.div_le_div_right (Nat.mul_le_mul_left _ (Nat.le_succ i))

theorem binHi_le (n bins i : Nat) (hb : 0 < bins) (hi : i < bins) : binHi n bins i ≤ n := by
  unfold binHi
  have : n * (i + 1) ≤ n * bins := Nat.mul_le_mul_left _ hi
  calc n * (i + 1) / bins ≤ n * bins / bins := Nat.div_le_div_right this
    _ = n := Nat.mul_div_cancel _ hb

theorem binHi_last (n bins : Nat) (hb : 0 < bins) : binHi n bins (bins - 1) = n := by
  unfold binHi
  have : bins - 1 + 1 = bins := by omega
  rw [this, Nat.mul_div_cancel _ hb]

/-- centre as a function of the upper index of the bin: the last value below it -/
def lastBelow (vals : List Rat) (h : Nat) : Option Rat := if h = 0 then none else vals[h - 1]?

theorem mean_singleton (x : Rat) : mean [x] = x := by
  unfold mean; simp; grind

theorem seg_cases (vals : List Rat) (bins i : Nat) (hb : 0 < bins) (hn : vals.length ≤ bins) (hi : i < bins) :
    (binHi vals.length bins i = binLo vals.length bins i ∧ seg vals bins i = []) ∨
    (∃ (hlt : binLo vals.length bins i < vals.length), binHi vals.length bins i = binLo vals.length bins i + 1 ∧
      seg vals bins i = [vals[binLo vals.length bins i]]) := by
  have h1 := bin_width_le_one vals.length bins i hb hn
  have h2 := binLo_le_binHi vals.length bins i
  have h3 := binHi_le vals.length bins i hb hi
  by_cases he : binHi vals.length bins i = binLo vals.length bins i
  · left; refine ⟨he, ?_⟩; unfold seg; rw [he]; simp
  · right
    have hlo : binLo vals.length bins i < vals.length := by omega
    refine ⟨hlo, by omega, ?_⟩
    unfold seg
    have : binHi vals.length bins i - binLo vals.length bins i = 1 := by omega
    rw [this]
    have hd := List.drop_eq_getElem_cons hlo
    rw [hd]; rfl

theorem centreAt_fits (vals : List Rat) (bins : Nat) (hb : 0 < bins) (hn : vals.length ≤ bins) :
    ∀ i, i < bins → centreAt vals bins i = lastBelow vals (binHi vals.length bins i) := by
  intro i
  induction i with
  | zero =>
    intro hi
    have hlo0 : binLo vals.length bins 0 = 0 := by simp [binLo]
    rcases seg_cases vals bins 0 hb hn hi with ⟨he, hs⟩ | ⟨hlt, he, hs⟩
    · simp [centreAt, hs, lastBelow, he, hlo0]
    · simp only [centreAt, hs, List.isEmpty_cons, Bool.false_eq_true, if_false, mean_singleton, lastBelow, he]
      simp [hlo0] at hlt ⊢
  | succ i ih =>
    intro hi
    have hlo : binLo vals.length bins (i+1) = binHi vals.length bins i := rfl
    rcases seg_cases vals bins (i+1) hb hn hi with ⟨he, hs⟩ | ⟨hlt, he, hs⟩
    · simp only [centreAt, hs, List.isEmpty_nil, if_true, ih (by omega), he, hlo]
    · simp only [centreAt, hs, List.isEmpty_cons, Bool.false_eq_true, if_false, mean_singleton, lastBelow, he]
      simp [List.getElem?_eq_getElem hlt]

theorem first_reach (f : Nat → Nat) (t : Nat) (ht : 1 ≤ t) (h0 : f 0 ≤ 1) (hstep : ∀ i, f (i+1) ≤ f i + 1)
    (hmono : ∀ i, f i ≤ f (i+1)) : ∀ i, t ≤ f i → ∃ i0, i0 ≤ i ∧ f i0 = t ∧ ∀ i', i' < i0 → f i' < t := by
  have mono : ∀ a b, a ≤ b → f a ≤ f b := by
    intro a b hab
    induction b with
    | zero => have : a = 0 := by omega
              subst this; exact Nat.le_refl _
    | succ b ih =>
      by_cases h : a = b + 1
      · subst h; exact Nat.le_refl _
      · exact Nat.le_trans (ih (by omega)) (hmono b)
  intro i
  induction i with
  | zero => intro h; exact ⟨0, Nat.le_refl _, by omega, fun i' hi' => by omega⟩
  | succ i ih =>
    intro h
    by_cases hi : t ≤ f i
    · obtain ⟨i0, h1, h2, h3⟩ := ih hi
      exact ⟨i0, by omega, h2, h3⟩
    · have := hstep i
      refine ⟨i+1, Nat.le_refl _, by omega, ?_⟩
      intro i' hi'
      have := mono i' i (by omega)
      omega

theorem first_occurrence (l : List Rat) (v : Rat) (hv : v ∈ l) :
    ∃ h0, ∃ (hh : h0 < l.length), l[h0] = v ∧ ∀ h (hlt : h < h0), l[h]'(by omega) ≠ v := by
  induction l with
  | nil => cases hv
  | cons x xs ih =>
    by_cases hx : x = v
    · exact ⟨0, by simp, by simpa using hx, fun h hlt => by omega⟩
    · have hv' : v ∈ xs := by
        rcases List.mem_cons.mp hv with h | h
        · exact absurd h.symm hx
        · exact h
      obtain ⟨h0, hh, he, hmin⟩ := ih hv'
      refine ⟨h0 + 1, by simpa using hh, by simpa using he, ?_⟩
      intro h hlt
      cases h with
      | zero => simpa using hx
      | succ h => simpa using hmin h (by omega)

/-- **Lossless by count** (`quant_exact`): if the number of values of an order, counted with multiplicity,
does not exceed the number of bins, every value decodes to itself. -/
theorem count_fits_lossless (vals : List Rat) (bins : Nat) (hsorted : vals.Pairwise (· ≤ ·))
    (hn : vals.length ≤ bins) (v : Rat) (hv : v ∈ vals) : roundTrip vals bins v = some v := by
  have hpos : 0 < vals.length := List.length_pos_of_mem hv
  have hb : 0 < bins := by omega
  obtain ⟨h0, hh, he, hmin⟩ := first_occurrence vals v hv
  let f := fun i => binHi vals.length bins i
  obtain ⟨j, hj1, hj2, hj3⟩ := first_reach f (h0 + 1) (by omega)
    (by have := bin_width_le_one vals.length bins 0 hb hn
        have h0' : binLo vals.length bins 0 = 0 := by simp [binLo]
        show binHi vals.length bins 0 ≤ 1
        omega)
    (fun i => by
      have := bin_width_le_one vals.length bins (i+1) hb hn
      have hlo : binLo vals.length bins (i+1) = binHi vals.length bins i := rfl
      show binHi vals.length bins (i+1) ≤ binHi vals.length bins i + 1
      omega)
    (fun i => by
      have := binLo_le_binHi vals.length bins (i+1)
      have hlo : binLo vals.length bins (i+1) = binHi vals.length bins i := rfl
      show binHi vals.length bins i ≤ binHi vals.length bins (i+1)
      omega)
    (bins - 1) (by show h0 + 1 ≤ binHi vals.length bins (bins - 1); rw [binHi_last _ _ hb]; omega)
  have hjb : j < bins := by omega
  unfold roundTrip
  simp only
  apply roundTrip_of_index (makeBins vals bins) v j (by simp [makeBins]; exact hjb)
  · simp only [makeBins, List.getElem_map, List.getElem_range]
    rw [centreAt_fits vals bins hb hn j hjb]
    show lastBelow vals (f j) = some v
    rw [hj2]; simp [lastBelow, List.getElem?_eq_getElem hh, he]
  · intro i hi
    simp only [makeBins, List.getElem_map, List.getElem_range]
    rw [centreAt_fits vals bins hb hn i (by omega)]
    have hlt := hj3 i hi
    show ltOpt (lastBelow vals (f i)) v = true
    unfold lastBelow
    by_cases hz : f i = 0
    · simp [hz, ltOpt]
    · have hidx : f i - 1 < h0 := by omega
      have hidx' : f i - 1 < vals.length := by omega
      simp only [hz, if_false, List.getElem?_eq_getElem hidx', ltOpt]
      have hle := (List.pairwise_iff_getElem.mp hsorted) (f i - 1) h0 hidx' hh hidx
      have hne := hmin (f i - 1) hidx
      rw [he] at hle
      have : vals[f i - 1] < v := Rat.lt_of_le_of_ne hle hne
      simpa using this

end KV.QuantBins
