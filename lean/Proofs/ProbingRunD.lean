import Proofs.ProbingRun
import Proofs.ProbingDouble3
import Proofs.ProbingInserts
/-!
Scripts on the fixed-size table that also call `Double` explicitly (the stream's `dbl` op, for
arbitrary — not only power-of-two — bucket counts) refine the map whose capacity doubles.
-/
namespace KV.Probing

theorem stepD_refines (h : Nat → Nat) (t : Table) (σ : Spec) (op : OpD) (o : Option Out) (σ' : Spec)
    (r : Ref h t σ) (hs : stepSpecD σ op = some (o, σ')) :
    ∃ t', stepTD h t op = some (o, t') ∧ Ref h t' σ' := by
  cases op with
  | base b =>
    simp only [stepSpecD] at hs
    split at hs
    · next r1 σ1 h1 =>
      injection hs with hs; injection hs with ho hσ
      subst ho; subst hσ
      obtain ⟨t', ht, r'⟩ := step_refines h t σ b r1 σ1 r h1
      exact ⟨t', by simp [stepTD, ht], r'⟩
    · cases hs
  | double =>
    simp only [stepSpecD] at hs
    injection hs with hs; injection hs with ho hσ
    subst ho; subst hσ
    obtain ⟨t', hd, inv', abs', hN', hE', _⟩ := double_preserves' h t σ.M r.inv r.abs
    refine ⟨t', by simp [stepTD, hd], inv', abs', ?_, ?_⟩
    · show t'.entries = σ.count; rw [hE']; exact r.cnt
    · show t'.N = 2 * σ.N; rw [hN', r.cap]

theorem runD_refines (h : Nat → Nat) : ∀ (ops : List OpD) (t : Table) (σ : Spec) (outs : List (Option Out)) (σ' : Spec),
    Ref h t σ → runSpecD σ ops = some (outs, σ') →
    ∃ t', runTD h t ops = some (outs, t') ∧ Ref h t' σ' := by
  intro ops
  induction ops with
  | nil =>
    intro t σ outs σ' r hs
    simp [runSpecD] at hs
    obtain ⟨rfl, rfl⟩ := hs
    exact ⟨t, rfl, r⟩
  | cons op ops ih =>
    intro t σ outs σ' r hs
    cases h1 : stepSpecD σ op with
    | none => simp [runSpecD, h1] at hs
    | some r1 =>
      obtain ⟨o, σ1⟩ := r1
      cases h2 : runSpecD σ1 ops with
      | none => simp [runSpecD, h1, h2] at hs
      | some r2 =>
        obtain ⟨os, σ2⟩ := r2
        simp [runSpecD, h1, h2] at hs
        obtain ⟨rfl, rfl⟩ := hs
        obtain ⟨t1, ht1, r1'⟩ := stepD_refines h t σ op o σ1 r h1
        obtain ⟨t2, ht2, r2'⟩ := ih t1 σ1 os σ2 r1' h2
        exact ⟨t2, by simp [runTD, ht1, ht2], r2'⟩

end KV.Probing

namespace KV.Probing

/-! ### the loops read only buckets of the table -/

theorem scan_in_range (s s' : Slots) (N k : Nat) (heq : ∀ x, x < N → s x = s' x) :
    ∀ fuel i, i < N → scan s N k fuel i = scan s' N k fuel i := by
  intro fuel
  induction fuel with
  | zero => intro i _; rfl
  | succ f ih =>
    intro i hi
    simp only [scanWith, ← heq i hi]
    cases s i with
    | none => rfl
    | some e =>
      obtain ⟨k', v⟩ := e
      simp only []
      split
      · rfl
      · exact ih (next N i) (next_lt N i hi)

theorem firstEmpty_in_range (s s' : Slots) (N : Nat) (heq : ∀ x, x < N → s x = s' x) :
    ∀ fuel i, i < N → firstEmpty s N fuel i = firstEmpty s' N fuel i := by
  intro fuel
  induction fuel with
  | zero => intro i _; rfl
  | succ f ih =>
    intro i hi
    simp only [firstEmptyWith, ← heq i hi]
    cases s i with
    | none => rfl
    | some e => exact ih (next N i) (next_lt N i hi)

/-- every bucket the `Find` loop returns or the `UncheckedInsert` loop writes lies inside the table -/
theorem firstEmpty_lt (s : Slots) (N : Nat) : ∀ fuel i q, i < N → firstEmpty s N fuel i = some q → q < N ∧ s q = none := by
  intro fuel
  induction fuel with
  | zero => intro i q _ h; simp [firstEmptyWith] at h
  | succ f ih =>
    intro i q hi h
    cases hsi : s i with
    | none => simp [firstEmptyWith, hsi] at h; subst h; exact ⟨hi, hsi⟩
    | some en =>
      simp [firstEmptyWith, hsi] at h
      exact ih (next N i) q (next_lt N i hi) h

/-- a table sized like `ProbingHashTable::Size(n, multiplier)` with `DivMod` — `max(n + 1, ⌊multiplier·n⌋)`
buckets, whatever the floating-point product `f` is — holds any `≤ n` distinct keys without exception -/
theorem sized_table_holds (h : Nat → Nat) (n f : Nat) (kvs : List (Nat × Nat))
    (hd : kvs.Pairwise (fun a b => a.1 ≠ b.1)) (hn : kvs.length ≤ n) :
    ∃ t, runT h (emptyTable (max (n + 1) f)) (insertsOf kvs) = some (kvs.map (fun _ => Out.done), t) ∧
      (∀ k v, (k, v) ∈ kvs → find h t k = some (some v)) ∧
      (∀ k, (∀ v, (k, v) ∉ kvs) → find h t k = some none) := by
  have : kvs.length < max (n + 1) f := by omega
  exact inserted_found h _ kvs hd this

end KV.Probing

namespace KV.Probing

/-! ### `Double` writes only inside the doubled table -/

theorem reinsert_frame (h : Nat → Nat) (N' : Nat) (hN : 0 < N') : ∀ (n i : Nat) (s s2 : Slots), i + n ≤ N' →
    reinsert h N' n i s = some s2 → ∀ x, N' ≤ x → s2 x = s x := by
  intro n
  induction n with
  | zero => intro i s s2 _ hr x _; simp [reinsert] at hr; rw [hr]
  | succ n ih =>
    intro i s s2 hin hr x hx
    cases hsi : s i with
    | none =>
      simp [reinsert, hsi] at hr
      exact ih (i + 1) s s2 (by omega) hr x hx
    | some e =>
      obtain ⟨k, v⟩ := e
      simp only [reinsert, hsi] at hr
      cases hq : firstEmpty (set s i none) N' N' (ideal h N' k) with
      | none => rw [hq] at hr; cases hr
      | some q =>
        rw [hq] at hr
        have hqlt := (firstEmpty_lt (set s i none) N' N' _ q (ideal_lt h N' k hN) hq).1
        rw [ih (i + 1) _ s2 (by omega) hr x hx]
        have e1 : x ≠ q := by omega
        have e2 : x ≠ i := by omega
        simp [set, e1, e2]

theorem insertAll_frame (h : Nat → Nat) (N' : Nat) (hN : 0 < N') : ∀ (buf : List Entry) (s s3 : Slots),
    insertAll h N' buf s = some s3 → ∀ x, N' ≤ x → s3 x = s x := by
  intro buf
  induction buf with
  | nil => intro s s3 hr x _; simp [insertAll] at hr; rw [hr]
  | cons e rest ih =>
    intro s s3 hr x hx
    obtain ⟨k, v⟩ := e
    simp only [insertAll] at hr
    cases hq : firstEmpty s N' N' (ideal h N' k) with
    | none => rw [hq] at hr; cases hr
    | some q =>
      rw [hq] at hr
      have hqlt := (firstEmpty_lt s N' N' _ q (ideal_lt h N' k hN) hq).1
      rw [ih _ s3 hr x hx]
      have e1 : x ≠ q := by omega
      simp [set, e1]

/-- **`Double` touches only buckets `[0, 2N)`** (the memory the caller provided) -/
theorem double_frame (h : Nat → Nat) (t t' : Table) (hN : 0 < t.N) (hd : double h t = some t') :
    ∀ x, 2 * t.N ≤ x → t'.s x = t.s x := by
  intro x hx
  obtain ⟨r, hr, _, hsl, _⟩ := rollPrefix_spec (clearRange t.s t.N (2 * t.N)) t.N 0
  unfold double at hd
  simp only [] at hd
  cases h2 : reinsert h (2 * t.N) t.N 0 (rollPrefix (clearRange t.s t.N (2 * t.N)) t.N 0).1 with
  | none => rw [h2] at hd; cases hd
  | some s2 =>
    rw [h2] at hd
    simp only [] at hd
    cases h3 : insertAll h (2 * t.N) (rollPrefix (clearRange t.s t.N (2 * t.N)) t.N 0).2 s2 with
    | none => rw [h3] at hd; cases hd
    | some s3 =>
      rw [h3] at hd
      injection hd with hd
      rw [← hd]
      show s3 x = t.s x
      rw [insertAll_frame h (2 * t.N) (by omega) _ s2 s3 h3 x hx,
          reinsert_frame h (2 * t.N) (by omega) t.N 0 _ s2 (by omega) h2 x hx, hsl x]
      have c : ¬ (0 ≤ x ∧ x < 0 + r) := by omega
      have c2 : ¬ (t.N ≤ x ∧ x < 2 * t.N) := by omega
      rw [if_neg c]
      simp [clearRange, c2]

end KV.Probing
