import Proofs.ProbingDouble2
/-!
`Double`, part 3: the three loops together.
-/
namespace KV.Probing

/-- `Double` on well-formed buckets (even a completely full table): the result is well-formed
for `2 * N`, stores the same pairs and occupies the same number of buckets -/
theorem double_wf (h : Nat → Nat) (t : Table) (wf : WF h t.s t.N) :
    ∃ t', double h t = some t' ∧ WF h t'.s t'.N ∧ t'.N = 2 * t.N ∧ t'.entries = t.entries ∧
      occ t'.s t'.N = occ t.s t.N ∧ ∀ k v, Stored t'.s t'.N k v ↔ Stored t.s t.N k v := by
  have hN := wf.pos
  have hs0lo : ∀ x, x < t.N → clearRange t.s t.N (2 * t.N) x = t.s x := by
    intro x hx
    have : ¬ (t.N ≤ x ∧ x < 2 * t.N) := by omega
    simp [clearRange, this]
  have hs0hi : ∀ x, t.N ≤ x → x < 2 * t.N → clearRange t.s t.N (2 * t.N) x = none := by
    intro x h1 h2
    simp [clearRange, h1, h2]
  obtain ⟨r, hr, hlen, hsl, hmem, hstop, hocc, hpw⟩ := rollPrefix_spec (clearRange t.s t.N (2 * t.N)) t.N 0
  cases hrp : rollPrefix (clearRange t.s t.N (2 * t.N)) t.N 0 with
  | mk s1 buf =>
  simp only [hrp] at hlen hsl hmem hocc hpw
  have hsl' : ∀ x, s1 x = if x < r then none else clearRange t.s t.N (2 * t.N) x := by
    intro x; rw [hsl x]; simp
  -- what an occupied bucket of `s1` is
  have hs1some : ∀ x e, x < 2 * t.N → s1 x = some e → r ≤ x ∧ x < t.N ∧ t.s x = some e := by
    intro x e hx hs
    rw [hsl' x] at hs
    by_cases c : x < r
    · rw [if_pos c] at hs; cases hs
    · rw [if_neg c] at hs
      have hxN : x < t.N := by
        apply Classical.byContradiction
        intro hc
        rw [hs0hi x (by omega) hx] at hs; cases hs
      rw [hs0lo x hxN] at hs
      exact ⟨by omega, hxN, hs⟩
  have hs1keep : ∀ x, r ≤ x → x < t.N → s1 x = t.s x := by
    intro x h1 h2
    rw [hsl' x, if_neg (by omega), hs0lo x h2]
  have hbuf : ∀ e, e ∈ buf ↔ ∃ x, x < r ∧ t.s x = some e := by
    intro e
    rw [hmem e]
    constructor
    · rintro ⟨x, _, h2, h3⟩
      rw [hs0lo x (by omega)] at h3
      exact ⟨x, by omega, h3⟩
    · rintro ⟨x, h2, h3⟩
      exact ⟨x, Nat.zero_le _, by omega, by rw [hs0lo x (by omega)]; exact h3⟩
  -- the loop invariant holds initially
  have j0 : J h t.N 0 s1 := by
    refine ⟨?_, ?_, ?_⟩
    · intro p q k v w hp hq h1 h2
      obtain ⟨_, a2, a3⟩ := hs1some p _ hp h1
      obtain ⟨_, b2, b3⟩ := hs1some q _ hq h2
      exact wf.distinct p q k v w a2 b2 a3 b3
    · intro p k v _ hp h1
      obtain ⟨a1, _, a3⟩ := hs1some p _ (by omega) h1
      apply Classical.byContradiction
      intro hc
      have hpath := wf.path p k v hp a3
      have hr0 : t.s r = none := by
        have := hstop (by omega)
        rw [Nat.zero_add, hs0lo r (by omega)] at this
        exact this
      by_cases e : r = p
      · subst e; rw [hr0] at a3; cases a3
      · exact hpath r (by unfold onPath; omega) hr0
    · intro p k v h1 h2 h3
      obtain ⟨_, a2, _⟩ := hs1some p _ h2 h3
      omega
  obtain ⟨s2, h2, j2, hocc2, hst2⟩ := reinsert_spec h t.N t.N 0 s1 (by omega) j0
  have wf2 := J_final h t.N s2 hN j2
  -- counting
  have hc0 : occ (clearRange t.s t.N (2 * t.N)) (2 * t.N) = occ t.s t.N := by
    rw [occ_extend _ t.N (2 * t.N) (by omega) (fun x a b => hs0hi x a b)]
    exact occ_congr _ _ _ (fun i hi => hs0lo i hi)
  have hc1 : occ s1 (2 * t.N) + r = occ t.s t.N := by
    have := hocc (2 * t.N) (by omega); omega
  have hle := occ_le t.s t.N
  -- the buffered keys are not in the table and are pairwise different
  have hfresh : ∀ e, e ∈ buf → ∀ p w, p < 2 * t.N → s2 p ≠ some (e.1, w) := by
    intro e he p w hp hs
    obtain ⟨p', hp', hs'⟩ := (hst2 e.1 w).1 ⟨p, hp, hs⟩
    obtain ⟨a1, a2, a3⟩ := hs1some p' _ hp' hs'
    obtain ⟨x, hx, hxs⟩ := (hbuf e).1 he
    have := wf.distinct x p' e.1 e.2 w (by omega) a2 hxs a3
    omega
  have hpw' : buf.Pairwise (fun a b => a.1 ≠ b.1) := by
    apply hpw
    intro x y k v w _ hx _ hy h1 h2
    rw [hs0lo x (by omega)] at h1
    rw [hs0lo y (by omega)] at h2
    exact wf.distinct x y k v w (by omega) (by omega) h1 h2
  obtain ⟨s3, h3, wf3, hocc3, hst3⟩ :=
    insertAll_spec h (2 * t.N) buf s2 wf2 (by omega) hfresh hpw'
  refine ⟨{ s := s3, N := 2 * t.N, entries := t.entries }, ?_, wf3, rfl, rfl, ?_, ?_⟩
  · simp [double, hrp, h2, h3]
  · show occ s3 (2 * t.N) = occ t.s t.N; omega
  · intro k v
    show Stored s3 (2 * t.N) k v ↔ _
    rw [hst3 k v, hst2 k v, hbuf (k, v)]
    constructor
    · rintro (⟨p, hp, hs⟩ | ⟨x, hx, hs⟩)
      · obtain ⟨_, a2, a3⟩ := hs1some p _ hp hs
        exact ⟨p, a2, a3⟩
      · exact ⟨x, by omega, hs⟩
    · rintro ⟨p, hp, hs⟩
      by_cases c : p < r
      · right; exact ⟨p, c, hs⟩
      · left; exact ⟨p, by omega, by rw [hs1keep p (by omega) hp]; exact hs⟩

/-- **`Double` preserves the table** -/
theorem double_preserves' (h : Nat → Nat) (t : Table) (M : Nat → Option Nat) (inv : Inv h t)
    (abs : Abs t M) :
    ∃ t', double h t = some t' ∧ Inv h t' ∧ Abs t' M ∧ t'.N = 2 * t.N ∧ t'.entries = t.entries ∧
      occ t'.s t'.N = occ t.s t.N := by
  obtain ⟨t', hd, wf', hN', hE', hocc', hst'⟩ := double_wf h t inv.wf
  have hle := occ_le t.s t.N
  have hpos := inv.wf.pos
  have hcnt := inv.cnt
  refine ⟨t', hd, ⟨wf', ?_, by omega⟩, ?_, hN', hE', hocc'⟩
  · exact exists_hole _ _ (by omega)
  · intro k v
    rw [hst' k v]
    exact abs k v

end KV.Probing
