import Proofs.PCQueueStep
/-! Initial states satisfy the invariant; deadlock freedom; termination measure. -/
namespace KV.PCQueue

variable {dP dC : Nat}

theorem sumBy_map_zero {α : Type} (f : Thread → Nat) (g : α → Thread) (l : List α) (h : ∀ a, f (g a) = 0) :
    sumBy f (l.map g) = 0 := by
  induction l with
  | nil => rfl
  | cons a l ih => simp [sumBy_cons, h, ih]

theorem sumBy_remP_prods (ps : List (List Nat)) : sumBy remP (ps.map mkProd) = (ps.map List.length).sum := by
  induction ps with
  | nil => rfl
  | cons a l ih => simp [sumBy_cons, ih, remP, mkProd]

theorem sumBy_remC_cons (qs : List Nat) : sumBy remC (qs.map mkCons) = qs.sum := by
  induction qs with
  | nil => rfl
  | cons a l ih => simp [sumBy_cons, ih, remC, mkCons]

theorem nextProd_cases (items : List Nat) :
    (nextProd items = .done ∧ items = []) ∨ (nextProd items = .wait ∧ items ≠ []) := by
  cases items <;> simp [nextProd]

theorem nextCons_cases (q : Nat) : (nextCons q = .done ∧ q = 0) ∨ (nextCons q = .wait ∧ 0 < q) := by
  unfold nextCons
  by_cases h : q = 0
  · simp [h]
  · simp [h]; omega

theorem init_thread_cases {ps : List (List Nat)} {qs : List Nat} {t : Nat} {th : Thread}
    (h : (ps.map mkProd ++ qs.map mkCons)[t]? = some th) :
    (∃ items, th = mkProd items) ∨ (∃ q, th = mkCons q) := by
  have hm := List.mem_of_getElem? h
  rcases List.mem_append.mp hm with h1 | h1
  · obtain ⟨a, _, ha⟩ := List.mem_map.mp h1
    exact Or.inl ⟨a, ha.symm⟩
  · obtain ⟨a, _, ha⟩ := List.mem_map.mp h1
    exact Or.inr ⟨a, ha.symm⟩

/-- the initial state of any configuration with positive capacity and as many `Consume` calls as values -/
theorem inv_init (cap : Nat) (ps : List (List Nat)) (qs : List Nat) (hcap : 0 < cap)
    : Inv (ps.map List.length).sum qs.sum (mkInit cap ps qs) := by
  have zA : ∀ f : Thread → Nat, (∀ a, f (mkProd a) = 0) → (∀ q, f (mkCons q) = 0) →
      sumBy f (ps.map mkProd ++ qs.map mkCons) = 0 := by
    intro f h1 h2
    rw [sumBy_append, sumBy_map_zero f _ _ h1, sumBy_map_zero f _ _ h2]
  have eA := zA isA (fun a => by rcases nextProd_cases a with ⟨h, _⟩ | ⟨h, _⟩ <;> simp [isA, b2n, mkProd, h])
    (fun q => by simp [isA, b2n, mkCons])
  have eB := zA isB (fun a => by rcases nextProd_cases a with ⟨h, _⟩ | ⟨h, _⟩ <;> simp [isB, b2n, mkProd, h])
    (fun q => by simp [isB, b2n, mkCons])
  have eC := zA isC (fun a => by simp [isC, b2n, mkProd])
    (fun q => by rcases nextCons_cases q with ⟨h, _⟩ | ⟨h, _⟩ <;> simp [isC, b2n, mkCons, h])
  have eD := zA isD (fun a => by simp [isD, b2n, mkProd])
    (fun q => by rcases nextCons_cases q with ⟨h, _⟩ | ⟨h, _⟩ <;> simp [isD, b2n, mkCons, h])
  refine { cap_pos := hcap, acct := ?_, occ := ?_, pat := ?_, cat := ?_, ringv := ?_, fifo := ?_,
           pm := ?_, cm := ?_, balance := ?_, thr := ?_ }
  · simp [mkInit, eA, eB, eC, eD]
  · simp [mkInit, eB, eC]
  · simp [mkInit]
  · simp [mkInit]
  · intro i _ h2; simp [mkInit] at h2
  · simp [mkInit]
  · refine ⟨fun t ht => by simp [mkInit] at ht, ?_⟩
    intro t th h0 hh
    rcases init_thread_cases h0 with ⟨a, rfl⟩ | ⟨q, rfl⟩
    · rcases nextProd_cases a with ⟨h, _⟩ | ⟨h, _⟩ <;> simp [holdsP, mkProd, h] at hh
    · simp [holdsP, mkCons] at hh
  · refine ⟨fun t ht => by simp [mkInit] at ht, ?_⟩
    intro t th h0 hh
    rcases init_thread_cases h0 with ⟨a, rfl⟩ | ⟨q, rfl⟩
    · simp [holdsC, mkProd] at hh
    · rcases nextCons_cases q with ⟨h, _⟩ | ⟨h, _⟩ <;> simp [holdsC, mkCons, h] at hh
  · show sumBy remP (ps.map mkProd ++ qs.map mkCons) + 0 + qs.sum
        = sumBy remC (ps.map mkProd ++ qs.map mkCons) + 0 + (ps.map List.length).sum
    rw [sumBy_append, sumBy_append, sumBy_remP_prods, sumBy_remC_cons,
        sumBy_map_zero remP mkCons qs (fun q => by simp [remP, mkCons]),
        sumBy_map_zero remC mkProd ps (fun a => by simp [remC, mkProd])]
    omega
  · intro t th h0
    rcases init_thread_cases h0 with ⟨a, rfl⟩ | ⟨q, rfl⟩
    · rcases nextProd_cases a with ⟨h, ha⟩ | ⟨h, ha⟩
      · exact ⟨by simp [mkProd, h], by simp [mkProd, ha], by simp [mkProd, mkInit, writesOf],
               by simp [mkProd], by simp [mkProd], by simp [mkProd]⟩
      · exact ⟨by simp [mkProd, ha], by simp [mkProd, h], by simp [mkProd, mkInit, writesOf],
               by simp [mkProd], by simp [mkProd], by simp [mkProd]⟩
    · rcases nextCons_cases q with ⟨h, hq⟩ | ⟨h, hq⟩
      · exact ⟨by simp [mkCons], by simp [mkCons], by simp [mkCons], by simp [mkCons, h], by simp [mkCons, hq],
               by simp [mkCons, mkInit, writesOf]⟩
      · exact ⟨by simp [mkCons], by simp [mkCons], by simp [mkCons], by simp [mkCons]; omega, by simp [mkCons, h],
               by simp [mkCons, mkInit, writesOf]⟩

/-! ### deadlock freedom -/

theorem step_isSome_of {s : State} {tid : Nat} {th : Thread} (h : Inv dP dC s) (hth : s.threads[tid]? = some th)
    (hc : (th.role = .prod ∧ th.pc = .wait ∧ s.empty ≠ 0) ∨ (th.role = .prod ∧ th.pc = .lock ∧ s.pmutex = none)
        ∨ (th.role = .cons ∧ th.pc = .wait ∧ s.used ≠ 0) ∨ (th.role = .cons ∧ th.pc = .lock ∧ s.cmutex = none)
        ∨ th.pc = .body ∨ th.pc = .unlock ∨ th.pc = .post) : step s tid ≠ none := by
  have ok := h.thr tid th hth
  unfold step
  simp only [hth]
  obtain ⟨role, pc, items, orig, quota, got⟩ := th
  rcases hc with ⟨hr, hp, he⟩ | ⟨hr, hp, he⟩ | ⟨hr, hp, he⟩ | ⟨hr, hp, he⟩ | hp | hp | hp
  · simp at hr hp; subst hr; subst hp; simp [he]
  · simp at hr hp; subst hr; subst hp; simp [he]
  · simp at hr hp; subst hr; subst hp; simp [he]
  · simp at hr hp; subst hr; subst hp; simp [he]
  · simp at hp; subst hp
    cases role
    · have := ok.p_nonempty rfl (Or.inr (Or.inr rfl))
      cases items with
      | nil => simp at this
      | cons v r => simp
    · simp
  · simp at hp; subst hp; cases role <;> simp
  · simp at hp; subst hp; cases role <;> simp

/-- In a reachable state of a balanced configuration, if some thread has not finished then some
thread can take a step. -/
theorem no_deadlock_inv {s : State} {d : Nat} (h : Inv d d s)
    (hwork : ∃ (t : Nat) (th : Thread), s.threads[t]? = some th ∧ th.pc ≠ .done) :
    ∃ tid, step s tid ≠ none := by
  -- 1. a thread inside or after its critical section can always step
  by_cases h1 : ∃ (t : Nat) (th : Thread), s.threads[t]? = some th ∧ (th.pc = .body ∨ th.pc = .unlock ∨ th.pc = .post)
  · obtain ⟨t, th, hth, hp⟩ := h1
    exact ⟨t, step_isSome_of h hth (by rcases hp with hp | hp | hp <;> simp [hp])⟩
  have n1 : ∀ (t : Nat) (th : Thread), s.threads[t]? = some th → th.pc ≠ .body ∧ th.pc ≠ .unlock ∧ th.pc ≠ .post := by
    intro t th hth
    refine ⟨fun e => h1 ⟨t, th, hth, Or.inl e⟩, fun e => h1 ⟨t, th, hth, Or.inr (Or.inl e)⟩,
            fun e => h1 ⟨t, th, hth, Or.inr (Or.inr e)⟩⟩
  -- hence both mutexes are free
  have hpm : s.pmutex = none := by
    cases hm : s.pmutex with
    | none => rfl
    | some t =>
      obtain ⟨th, hth, _, hp⟩ := h.pm.1 t hm
      have := n1 t th hth
      rcases hp with hp | hp <;> simp [hp] at this
  have hcm : s.cmutex = none := by
    cases hm : s.cmutex with
    | none => rfl
    | some t =>
      obtain ⟨th, hth, _, hp⟩ := h.cm.1 t hm
      have := n1 t th hth
      rcases hp with hp | hp <;> simp [hp] at this
  -- 2. a thread waiting for a mutex can step
  by_cases h2 : ∃ (t : Nat) (th : Thread), s.threads[t]? = some th ∧ th.pc = .lock
  · obtain ⟨t, th, hth, hp⟩ := h2
    cases hr : th.role
    · exact ⟨t, step_isSome_of h hth (Or.inr (Or.inl ⟨hr, hp, hpm⟩))⟩
    · exact ⟨t, step_isSome_of h hth (Or.inr (Or.inr (Or.inr (Or.inl ⟨hr, hp, hcm⟩))))⟩
  -- 3. everybody is at `wait` or `done`: all tokens are in the semaphores
  have n2 : ∀ (t : Nat) (th : Thread), s.threads[t]? = some th → th.pc = .wait ∨ th.pc = .done := by
    intro t th hth
    have a := n1 t th hth
    have b : th.pc ≠ .lock := fun e => h2 ⟨t, th, hth, e⟩
    cases hp : th.pc <;> simp_all
  have zA : sumBy isA s.threads = 0 := sumBy_eq_zero (fun t th hth => by
    rcases n2 t th hth with hp | hp <;> simp [isA, b2n, hp])
  have zB : sumBy isB s.threads = 0 := sumBy_eq_zero (fun t th hth => by
    rcases n2 t th hth with hp | hp <;> simp [isB, b2n, hp])
  have zC : sumBy isC s.threads = 0 := sumBy_eq_zero (fun t th hth => by
    rcases n2 t th hth with hp | hp <;> simp [isC, b2n, hp])
  have zD : sumBy isD s.threads = 0 := sumBy_eq_zero (fun t th hth => by
    rcases n2 t th hth with hp | hp <;> simp [isD, b2n, hp])
  have hacct := h.acct
  have hocc := h.occ
  have hbal := h.balance
  have hcap := h.cap_pos
  obtain ⟨t, th, hth, hnd⟩ := hwork
  have hw : th.pc = .wait := by rcases n2 t th hth with hp | hp; exact hp; exact absurd hp hnd
  -- a producer waiting with empty > 0, or a consumer waiting with used > 0, can step
  by_cases h3 : ∃ (t : Nat) (th : Thread), s.threads[t]? = some th ∧ th.pc = .wait ∧
      ((th.role = .prod ∧ s.empty ≠ 0) ∨ (th.role = .cons ∧ s.used ≠ 0))
  · obtain ⟨t, th, hth, hp, hc⟩ := h3
    rcases hc with ⟨hr, he⟩ | ⟨hr, he⟩
    · exact ⟨t, step_isSome_of h hth (Or.inl ⟨hr, hp, he⟩)⟩
    · exact ⟨t, step_isSome_of h hth (Or.inr (Or.inr (Or.inl ⟨hr, hp, he⟩)))⟩
  exfalso
  cases hr : th.role
  · -- a producer waits and empty = 0: the ring is full, so no consumer waits, so all consumers are done
    have he : s.empty = 0 := Classical.byContradiction fun e => h3 ⟨t, th, hth, hw, Or.inl ⟨hr, e⟩⟩
    have hu : s.used ≠ 0 := by omega
    have zQ : sumBy remC s.threads = 0 := sumBy_eq_zero (fun t' th' hth' => by
      cases hr' : th'.role
      · simp [remC, hr']
      · rcases n2 t' th' hth' with hp | hp
        · exact absurd ⟨t', th', hth', hp, Or.inr ⟨hr', hu⟩⟩ h3
        · simp [remC, hr', (h.thr t' th' hth').c_done hr' hp])
    omega
  · -- a consumer waits and used = 0: the ring is empty, so no producer waits, so all producers are done
    have hu : s.used = 0 := Classical.byContradiction fun e => h3 ⟨t, th, hth, hw, Or.inr ⟨hr, e⟩⟩
    have he : s.empty ≠ 0 := by omega
    have zP : sumBy remP s.threads = 0 := sumBy_eq_zero (fun t' th' hth' => by
      cases hr' : th'.role
      · rcases n2 t' th' hth' with hp | hp
        · exact absurd ⟨t', th', hth', hp, Or.inl ⟨hr', he⟩⟩ h3
        · simp [remP, hr', (h.thr t' th' hth').p_done hr' hp]
      · simp [remP, hr'])
    have hq : 0 < th.quota := (h.thr t th hth).c_pos hr (Or.inl hw)
    have : th.quota ≤ sumBy remC s.threads := by
      have := sumBy_le (f := remC) hth; simpa [remC, hr] using this
    omega

end KV.PCQueue
