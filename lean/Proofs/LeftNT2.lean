import Proofs.LeftNT1
/-! The pointer loop of `NonTerminal` (`extendAll`) when the left state of the fragment under construction is
already complete: every revealed pointer just adds `ret.prob`. -/
namespace KV.Left
open KV.Arpa KV.Table KV.State KV.Score

variable {a : Arpa} {T : Table}

/-- loop invariant before pointer `i` (independent of the mode) -/
structure InvA (a : Arpa) (ws2 h : List Word) (s0 : State) (i : Nat) (st : StepOut) : Prop where
  right : st.rs.out.right = s0
  nu_le : st.nextUse ≤ s0.length
  hN : i + 1 + st.nextUse ≤ a.order
  back : st.back.take st.nextUse = (List.range st.nextUse).map (fun j => a.boW (gm1 ws2 i ++ h.take (j+1)))
  dead : ∀ k, st.nextUse < k → k ≤ h.length → ¬ live a (gm1 ws2 i ++ h.take k)
  noexit : st.exit = false

theorem extendAll_exit (R : Ptr → Rat) (c : Chart) (fuel e : Nat) (st : StepOut) (h : st.exit = true) :
    extendAll T R c fuel e st = st := by
  cases fuel with
  | zero => rfl
  | succ f => simp [extendAll, h]

theorem gm1_length (ws : List Word) (i : Nat) (hi : i ≤ ws.length) : (gm1 ws i).length = i := by
  simp [gm1]; omega

theorem state_words_take {h : List Word} {s0 : State} (sf : StateFor a h s0) (nm : NormS s0) {nu : Nat} (hnu : nu ≤ s0.length) :
    s0.words.take nu = h.take nu := by
  have h1 : s0.words.take s0.length = s0.words := List.take_of_length_le (by rw [nm.1]; omega)
  rw [← h1, sf.words, List.take_take, Nat.min_eq_left hnu]

theorem rev_split (ws : List Word) (i : Nat) : ws.reverse = (ws.drop i).reverse ++ gm1 ws i := by
  unfold gm1
  rw [← List.reverse_append, List.take_append_drop]

/-- one call of the private `RuleScore::ExtendLeft` on pointer `i`, described through `ExtStep` -/
theorem rsExtendLeft_step (H : Hyp a T) (R : Ptr → Rat) {ws2 : List Word} {L2 : Nat} {c : Chart} {p2 : Rat}
    (G : FragC a T R ws2 L2 c p2) {h : List Word} {s0 : State} (sf : StateFor a h s0) (nm : NormS s0)
    {i : Nat} {st : StepOut} (I : InvA a ws2 h s0 i st) (hi : i < L2) (hiw : i < ws2.length) :
    ∃ c0, ExtStep a T R ws2[i] (gm1 ws2 i) h st.nextUse
        (extendLeft T R (h.take st.nextUse) st.back (pre ws2 i) (i+1)) c0 ∧
      rsExtendLeft T R st.rs c st.nextUse (i+1) st.back =
        (let ret := extendLeft T R (h.take st.nextUse) st.back (pre ws2 i) (i+1)
         let rs1 := processRet st.rs ret
         if ret.nextUse != s0.length then
           let rs2 := { rs1 with leftDone := true }
           if ret.nextUse == 0 then
             { rs := { rs2 with out := { rs2.out with right := c.right },
                                prob := rs2.prob + unRest T R (c.left.pointers.drop (i+1)) (i + 1 + 1) },
               nextUse := 0, back := ret.backoffOut, exit := true }
           else { rs := rs2, nextUse := ret.nextUse, back := ret.backoffOut, exit := false }
         else { rs := rs1, nextUse := ret.nextUse, back := ret.backoffOut, exit := false }) := by
  have hL := G.L_le
  obtain ⟨tg, htg, hxl⟩ := xl_lookup (G.ptr_xl i hi)
  have hpc := pre_eq_cons ws2 i hiw
  have hgl := gm1_length ws2 i (by omega)
  have hnul : st.nextUse ≤ h.length := by have := I.nu_le; have := sf.len_le_h; omega
  have hstep := extendLeft_step H R ws2[i] (gm1 ws2 i) h st.nextUse st.back tg (by rw [← hpc]; exact htg) hxl hnul
    (by rw [hgl]; exact I.hN) (by rw [hgl]; have := G.L_lt; omega) I.back I.dead
  rw [hgl, ← hpc] at hstep
  obtain ⟨c0, hs⟩ := hstep
  refine ⟨c0, hs, ?_⟩
  unfold rsExtendLeft
  have hptr : c.left.pointers.getD (i + 1 - 1) [] = pre ws2 i := by
    rw [G.ptrs, Nat.add_sub_cancel]
    simp [List.getD, hi]
  rw [hptr, I.right, state_words_take sf nm I.nu_le]

/-- **the done-mode loop.**  From pointer `i` on, with a complete left state, the loop adds exactly
`remaining … i` (or leaves the part from `L2` on to the caller), never touches the left state, and keeps the
invariant for the back-off buffer. -/
theorem loopA (H : Hyp a T) (R : Ptr → Rat) {ws2 : List Word} {L2 : Nat} {c : Chart} {p2 : Rat}
    (G : FragC a T R ws2 L2 c p2) {h : List Word} {s0 : State} (sf : StateFor a h s0) (nm : NormS s0) :
    ∀ (fuel i : Nat) (st : StepOut), i + fuel = L2 → InvA a ws2 h s0 i st → st.rs.leftDone = true →
      (extendAll T R c fuel (i+1) st).rs.leftDone = true ∧
      (extendAll T R c fuel (i+1) st).rs.out.left = st.rs.out.left ∧
      (((extendAll T R c fuel (i+1) st).exit = true ∧ (extendAll T R c fuel (i+1) st).rs.out.right = c.right ∧
          (∀ k, 1 ≤ k → k ≤ h.length → ¬ live a (ws2.reverse ++ h.take k)) ∧
          (extendAll T R c fuel (i+1) st).rs.prob = st.rs.prob + remaining a R ws2 L2 h i) ∨
       ((extendAll T R c fuel (i+1) st).exit = false ∧ InvA a ws2 h s0 L2 (extendAll T R c fuel (i+1) st) ∧
          (extendAll T R c fuel (i+1) st).rs.prob + remaining a R ws2 L2 h L2 = st.rs.prob + remaining a R ws2 L2 h i)) := by
  intro fuel
  induction fuel with
  | zero =>
    intro i st hf I hd
    have : i = L2 := by omega
    subst this
    exact ⟨hd, rfl, Or.inr ⟨I.noexit, I, rfl⟩⟩
  | succ fuel ih =>
    intro i st hf I hd
    have hi : i < L2 := by omega
    have hL := G.L_le
    have hiw : i < ws2.length := by omega
    obtain ⟨c0, hs, hdef⟩ := rsExtendLeft_step H R G sf nm I hi hiw
    have hunf : extendAll T R c (fuel+1) (i+1) st = extendAll T R c fuel (i+1+1) (rsExtendLeft T R st.rs c st.nextUse (i+1) st.back) := by
      simp [extendAll, I.noexit]
    rw [hunf, hdef]
    generalize hret : extendLeft T R (h.take st.nextUse) st.back (pre ws2 i) (i+1) = ret at hs
    have hpc := pre_eq_cons ws2 i hiw
    -- done mode: ProcessRet adds ret.prob
    have hpr : processRet st.rs ret = { st.rs with prob := st.rs.prob + ret.prob } := by simp [processRet, hd]
    have hprob : ret.prob = score a (gm1 ws2 i ++ h) ws2[i] - R (pre ws2 i) := by
      have := hs.prob; rw [← hpc] at this; rw [← this]; grind
    have hrem := remaining_step (a := a) R ws2 L2 h i hi hL
    -- the invariant for the next pointer
    have hnext : ∀ rs', rs'.out.right = s0 →
        InvA a ws2 h s0 (i+1) { rs := rs', nextUse := ret.nextUse, back := ret.backoffOut, exit := false } := by
      intro rs' hr
      refine ⟨hr, ?_, ?_, ?_, ?_, rfl⟩
      · have := hs.nu_le.1; have := hs.c0_le; have := I.nu_le; show ret.nextUse ≤ _; omega
      · have := hs.nu_le.2; rw [gm1_length ws2 i (by omega), H.tf.order_eq] at this
        have := H.wf.order_ge
        show i + 1 + 1 + ret.nextUse ≤ a.order; omega
      · show ret.backoffOut.take ret.nextUse = _
        rw [hs.back, gm1_succ ws2 i hiw, hpc]
      · show ∀ k, ret.nextUse < k → _
        rw [gm1_succ ws2 i hiw, hpc]; exact hs.dead
    simp only [hpr]
    by_cases hne : (ret.nextUse != s0.length) = true
    · simp only [hne, if_true]
      by_cases hz : (ret.nextUse == 0) = true
      · -- early exit
        simp only [hz, if_true]
        rw [extendAll_exit R c fuel _ _ rfl]
        have hz' : ret.nextUse = 0 := by simpa using hz
        have hdead1 : ∀ k, 1 ≤ k → k ≤ h.length → ¬ live a (gm1 ws2 (i+1) ++ h.take k) := by
          intro k hk1 hk2
          rw [gm1_succ ws2 i hiw, hpc]
          exact hs.dead k (by omega) hk2
        refine ⟨rfl, rfl, Or.inl ⟨rfl, rfl, ?_, ?_⟩⟩
        · intro k hk1 hk2
          rw [rev_split ws2 (i+1), List.append_assoc]
          have hne' : gm1 ws2 (i+1) ++ h.take k ≠ [] := by have := take_ne_nil hk1 hk2; simp [this]
          exact H.dead_cons _ _ hne' (hdead1 k hk1 hk2)
        · show st.rs.prob + ret.prob + unRest T R (c.left.pointers.drop (i+1)) (i+1+1) = _
          rw [G.ptrs, unrest_remaining H R ws2 L2 h hL G.L_lt G.ptr_xl (L2 - (i+1)) (i+1) rfl (by omega) hdead1, hrem, hprob]
          grind
      · simp only [hz, Bool.false_eq_true, if_false]
        have I' := hnext { st.rs with prob := st.rs.prob + ret.prob, leftDone := true } I.right
        have := ih (i+1) _ (by omega) I' rfl
        obtain ⟨h1, h2, h3⟩ := this
        refine ⟨h1, h2, ?_⟩
        rcases h3 with ⟨e1, e2, e3, e4⟩ | ⟨e1, e2, e3⟩
        · exact Or.inl ⟨e1, e2, e3, by rw [e4, hrem]; dsimp only; rw [hprob]; grind⟩
        · exact Or.inr ⟨e1, e2, by rw [e3, hrem]; dsimp only; rw [hprob]; grind⟩
    · simp only [hne, Bool.false_eq_true, if_false]
      have I' := hnext { st.rs with prob := st.rs.prob + ret.prob } I.right
      have := ih (i+1) _ (by omega) I' hd
      obtain ⟨h1, h2, h3⟩ := this
      refine ⟨h1, h2, ?_⟩
      rcases h3 with ⟨e1, e2, e3, e4⟩ | ⟨e1, e2, e3⟩
      · exact Or.inl ⟨e1, e2, e3, by rw [e4, hrem]; dsimp only; rw [hprob]; grind⟩
      · exact Or.inr ⟨e1, e2, by rw [e3, hrem]; dsimp only; rw [hprob]; grind⟩

end KV.Left
