import Proofs.InterpStream
/-!
Pass 1 (`MergeProbabilities` / `HandleSuffix`) as an instance of the generic stream recursion: on
n-gram streams of the grouped (`SuffixOrder`) shape it writes, for every union n-gram, exactly the
per-component longest-suffix probabilities and `from` levels of the functional model (`LM.merge`).
-/
namespace KV.Interp
variable {W : Type} [DecidableEq W]

theorem findGram_append (m : LM W) (c : List W) (w : W) : m.findGram (c ++ [w]) = m.find c w := by
  unfold LM.findGram LM.find
  congr 1
  funext e
  unfold Entry.gram
  by_cases h : e.ctx = c ∧ e.word = w
  · simp [h]
  · have : ¬ (e.ctx ++ [e.word] = c ++ [w]) := by
      intro heq
      have := List.append_inj' heq rfl
      exact h ⟨this.1, by simpa using this.2⟩
    simp [h, this]

/-- the whole-n-gram form agrees with `LM.merge` on `(context, word)` -/
theorem mergeG_append (m : LM W) : ∀ (c : List W) (w : W), m.mergeG (c ++ [w]) = m.merge c w
  | [], w => by
    have h := findGram_append m [] w
    simp only [List.nil_append] at h
    show m.mergeG [w] = m.merge [] w
    rw [LM.mergeG, h, LM.merge]
    cases m.find [] w <;> rfl
  | y :: c, w => by
    have h := findGram_append m (y :: c) w
    show m.mergeG (y :: (c ++ [w])) = m.merge (y :: c) w
    rw [LM.mergeG, LM.merge]
    rw [List.cons_append] at h
    rw [h]
    cases m.find (y :: c) w with
    | some e => simp
    | none => exact mergeG_append m c w

/-- one iteration of the loop of `HandleSuffix` turns the values of the suffix into the values of
the n-gram -/
theorem mergeStep_mergeFb (cs : Comps W) (y : W) (t : List W) (xs : List W) :
    mergeStep cs (y :: t) (mergeFb cs t) xs = mergeFb cs (y :: t) := by
  unfold mergeStep mergeFb
  induction cs with
  | nil => rfl
  | cons p ps ih =>
    rw [List.map_cons, List.map_cons, List.zipWith_cons_cons, ih]
    congr 1
    rw [LM.mergeG]
    cases p.2.findGram (y :: t) <;> simp

theorem mergeEmit_eq (cs : Comps W) (y : W) (t : List W) (xs : List W) :
    mergeEmit cs (y :: t) (mergeFb cs t) xs = [p1Rec cs (y :: t)] := by
  unfold mergeEmit p1Rec
  rw [mergeStep_mergeFb]
  rfl

theorem specSameG_merge (cs : Comps W) (X Y : List W → List W) : ∀ (d : Nat) (y : W) (t : List W),
    specSameG (mergeStep cs) (mergeEmit cs) X Y d (y :: t) (mergeFb cs t) = specP1 cs Y d (y :: t)
  | 0, y, t => by
    rw [specSameG_zero, mergeEmit_eq, specP1]
  | d + 1, y, t => by
    rw [specSameG_succ, mergeEmit_eq, mergeStep_mergeFb, specP1]
    simp only [List.singleton_append, List.cons.injEq, true_and]
    apply List.flatMap_congr
    intro y' _
    exact specSameG_merge cs X Y d y' (y :: t)

/-- **Pass 1 refines the functional model.**  On n-gram streams of the grouped shape (one record
per n-gram: `X g` is a singleton), started like `HandleNGrams` starts it (fallback = the components'
`<unk>`), `HandleSuffix` consumes every n-gram of every order and writes for each the record
`p1Rec`: `Prob()` = Σᵢ λᵢ·(probability of the longest suffix in component i), `LowerProb()` = the same
for the n-gram without its first word, and the `from` vector. -/
theorem pass1_refines (cs : Comps W) (X Y : List W → List W) (D fuel : Nat)
    (hfuel : needE Y D (Y []) [] ≤ fuel)
    (hgood : ∀ y ∈ Y [], X [y] ≠ [] ∧ Good X Y D [y]) (hnd : (Y []).Nodup) :
    handleSuffix cs fuel (levelsE X Y D (Y []) []) [] (mergeFb cs []) =
      (List.replicate (D + 1) [], (Y []).flatMap (fun y => specP1 cs Y D [y])) := by
  have h := extendCtx_spec (mergeStep cs) (mergeEmit cs) X Y D
    (sameCtx_spec (mergeStep cs) (mergeEmit cs) X Y D) (Y []) [] (mergeFb cs [])
    (List.replicate (D + 1) []) fuel (by simp) hfuel hgood hnd
    (by intro l hl r hr; rw [(List.mem_replicate.1 hl).2] at hr; simp at hr)
  rw [zipWith_replicate_nil_right _ _ (by rw [length_levelsE])] at h
  show extendCtxG (mergeStep cs) (mergeEmit cs) fuel (levelsE X Y D (Y []) []) [] (mergeFb cs []) = _
  rw [h]
  congr 1
  apply List.flatMap_congr
  intro y _
  exact specSameG_merge cs X Y D y []

/-- the values of a pass-1 record in terms of `LM.merge` on `(context, word)`: exactly the uncharged
part of `toolProb` and the `from` levels that drive the charging of pass 2 -/
theorem p1Rec_values (cs : Comps W) (c : List W) (w : W) :
    (p1Rec cs (c ++ [w])).prob = (cs.map (fun p => p.1 * (p.2.merge c w).1)).sum ∧
    (p1Rec cs (c ++ [w])).from_ = cs.map (fun p => (p.2.merge c w).2) := by
  unfold p1Rec mergeFb
  simp only [List.map_map]
  constructor
  · congr 1
    apply List.map_congr_left
    intro p _
    simp [mergeG_append]
  · apply List.map_congr_left
    intro p _
    simp [mergeG_append]

end KV.Interp
