import Model.KNBlocks
/-!
The compacting iterators of `Model/KNBlocks.lean` output exactly the filtered stream:

* `collapse_seen`, `collapse_perm`, `collapseStream_perm` — `CollapseStream` shows the consumer every
  record of the block in order, and leaves a permutation of the records without `<s>` in position 1;
  hence for every partition into blocks the output multiset is the filter of the input stream;
* `pruneBlock_fixed`, `pruneStream_fixed` — the repaired `PruneNGramStream` leaves
  `(block.filter keptBy).map f` in order; `pruneBlock_unfixed` — so does the unrepaired one when no
  special unigram follows a dropped record in its block; `prune_stream_unfixed_false` — and it
  does not otherwise.
-/
namespace KV.KN.Blocks

open KV.KN

/-! ## 0. Lists -/

theorem getElem?_mid {α : Type} (W : List α) (q : α) (R : List α) : (W ++ q :: R)[W.length]? = some q := by
  rw [List.getElem?_append_right (Nat.le_refl _)]; simp

theorem set_mid {α : Type} (W : List α) (a b : α) (R : List α) :
    (W ++ a :: R).set W.length b = W ++ b :: R := by
  induction W with
  | nil => rfl
  | cons w W ih => simp [ih]

theorem take_mid {α : Type} (W R : List α) : (W ++ R).take W.length = W := by
  simp

theorem drop_mid {α : Type} (W R : List α) : (W ++ R).drop W.length = R := by
  simp

/-- one more element of a list whose rest is known -/
theorem take_drop_succ {α : Type} {l : List α} {n : Nat} {a : α} {R : List α} (h : l.drop n = a :: R) :
    l.take (n + 1) = l.take n ++ [a] ∧ l.drop (n + 1) = R := by
  have h1 : l[n]? = some a := by
    have := congrArg (fun x => x[0]?) h
    simpa [List.getElem?_drop] using this
  constructor
  · rw [List.take_add_one, h1]; rfl
  · have := congrArg (fun x => x.drop 1) h
    simpa [List.drop_drop, Nat.add_comm] using this

/-! ## 1. `CollapseStream` -/

section Collapse
variable {α : Type} (p : α → Bool)

/-- skipping a run of droppable records -/
theorem down_all (cur : Nat) (P : List α) (hP : ∀ x ∈ P, p x = true) :
    ∀ (W Z : List α), cur ≤ W.length →
      down p (W ++ (P ++ Z)) cur (W.length + P.length) = down p (W ++ (P ++ Z)) cur W.length := by
  induction P with
  | nil => intro W Z _; rfl
  | cons q P ih =>
    intro W Z hc
    have h1 := ih (fun x hx => hP x (List.mem_cons_of_mem _ hx)) (W ++ [q]) Z
      (by simp; omega)
    have hl : W ++ (q :: P ++ Z) = (W ++ [q]) ++ (P ++ Z) := by simp
    rw [hl, show W.length + (q :: P).length = (W ++ [q]).length + P.length by simp; omega, h1]
    rw [show (W ++ [q]).length = W.length + 1 by simp, down]
    rw [if_neg (by omega)]
    have : ((W ++ [q]) ++ (P ++ Z))[W.length]? = some q := by
      simp
    rw [this]
    simp [hP q (List.mem_cons_self ..)]

theorem down_stop (cur : Nat) (W : List α) (y : α) (R : List α) (hy : p y = false) (hc : cur ≤ W.length) :
    down p (W ++ y :: R) cur (W.length + 1) = W.length + 1 := by
  rw [down, if_neg (by omega), getElem?_mid]
  simp [hy]

/-- either every element is droppable, or there is a last one that is not -/
theorem split_last (L : List α) :
    (∀ x ∈ L, p x = true) ∨ ∃ Y y P, L = Y ++ y :: P ∧ p y = false ∧ ∀ x ∈ P, p x = true := by
  induction L with
  | nil => left; intro x hx; cases hx
  | cons a L ih =>
    rcases ih with h | ⟨Y, y, P, rfl, hy, hP⟩
    · by_cases ha : p a = true
      · left
        intro x hx
        rcases List.mem_cons.mp hx with rfl | hx
        · exact ha
        · exact h x hx
      · right
        exact ⟨[], a, L, rfl, by simpa using ha, h⟩
    · right
      exact ⟨a :: Y, y, P, rfl, hy, hP⟩

theorem filter_all (P : List α) (hP : ∀ x ∈ P, p x = true) : P.filter (fun x => !p x) = [] := by
  rw [List.filter_eq_nil_iff]
  intro x hx
  simp [hP x hx]

/-- regime "`current_ < copy_from_ + 1`": done part `D`, unvisited part `M0 ++ [b]` up to the copy
source `b`, and the stale rest `T` -/
def InvA (inp : List α) (st : CState α) : Prop :=
  ∃ D M0 b T, st.slots = D ++ (M0 ++ b :: T) ∧ D.length = st.cur ∧
    st.copyEnd = D.length + M0.length + 1 ∧ (∀ x ∈ D, p x = false) ∧ p b = false ∧
    (D ++ (M0.filter (fun x => !p x) ++ [b])).Perm (inp.filter fun x => !p x) ∧
    inp.drop st.cur = M0 ++ b :: T ∧ st.slots.length = inp.length ∧
    st.seen.reverse = inp.take st.cur

/-- regime "`copy_from_` has been passed": the output prefix is final -/
def InvB (inp : List α) (st : CState α) : Prop :=
  st.copyEnd ≤ st.cur ∧ (st.slots.take st.copyEnd).Perm (inp.filter fun x => !p x) ∧
    st.slots.drop st.cur = inp.drop st.cur ∧ st.slots.length = inp.length ∧
    st.seen.reverse = inp.take st.cur

theorem start_inv (inp : List α) : InvA p inp (cstart p inp) ∨ InvB p inp (cstart p inp) := by
  rcases split_last p inp with h | ⟨Y, y, P, rfl, hy, hP⟩
  · right
    have hd : down p inp 0 inp.length = 0 := by
      have := down_all p 0 inp h [] [] (Nat.zero_le _)
      simp only [List.nil_append, List.append_nil, List.length_nil, Nat.zero_add] at this
      rw [this]; rfl
    refine ⟨by show down p inp 0 inp.length ≤ 0; omega, ?_, rfl, rfl, rfl⟩
    simp only [cstart, hd, List.take_zero]
    rw [filter_all p inp h]
  · left
    have hd : down p (Y ++ y :: P) 0 (Y ++ y :: P).length = Y.length + 1 := by
      have h1 := down_all p 0 P hP (Y ++ [y]) [] (Nat.zero_le _)
      have hl : (Y ++ [y]) ++ (P ++ []) = Y ++ y :: P := by simp
      rw [hl] at h1
      rw [show (Y ++ y :: P).length = (Y ++ [y]).length + P.length by simp; omega, h1,
        show (Y ++ [y]).length = Y.length + 1 by simp]
      exact down_stop p 0 Y y P hy (Nat.zero_le _)
    refine ⟨[], Y, y, P, rfl, rfl,
      by show down p (Y ++ y :: P) 0 (Y ++ y :: P).length = _; rw [hd]; simp, by simp, hy, ?_, rfl, rfl, rfl⟩
    simp only [List.nil_append, List.filter_append, List.filter_cons, hy, Bool.not_false, if_true,
      filter_all p P hP]
    simp

theorem stepB (inp : List α) (st : CState α) (h : InvB p inp st) (hc : st.cur < inp.length) :
    InvB p inp (cstep p st) ∧ (cstep p st).cur = st.cur + 1 := by
  obtain ⟨h1, h2, h3, h4, h5⟩ := h
  obtain ⟨a, ha⟩ : ∃ a, st.slots[st.cur]? = some a :=
    ⟨st.slots[st.cur]'(by omega), List.getElem?_eq_getElem (by omega)⟩
  have hcond : (p a && decide (st.cur + 1 < st.copyEnd)) = false := by
    have : ¬ (st.cur + 1 < st.copyEnd) := by omega
    simp [this]
  have hd : inp.drop st.cur = a :: inp.drop (st.cur + 1) := by
    rw [← h3]
    have : st.slots.drop st.cur = a :: st.slots.drop (st.cur + 1) := by
      rw [List.drop_eq_getElem_cons (by omega)]
      congr 1
      have := List.getElem?_eq_getElem (l := st.slots) (i := st.cur) (by omega)
      rw [ha] at this; exact (Option.some.inj this).symm
    rw [this]
    congr 1
    have h3' := congrArg (fun x => x.drop 1) h3
    simpa [List.drop_drop, Nat.add_comm] using h3'
  obtain ⟨ht, _⟩ := take_drop_succ hd
  unfold cstep
  rw [ha]
  simp only [hcond, Bool.false_eq_true, if_false]
  refine ⟨⟨by simp <;> omega, h2, ?_, h4, ?_⟩, trivial⟩
  · have h3' := congrArg (fun x => x.drop 1) h3
    simpa [List.drop_drop, Nat.add_comm] using h3'
  · simp only [List.reverse_cons, h5, ht]

theorem stepA (inp : List α) (st : CState α) (h : InvA p inp st) :
    (InvA p inp (cstep p st) ∨ InvB p inp (cstep p st)) ∧ (cstep p st).cur = st.cur + 1 := by
  obtain ⟨D, M0, b, T, hs, hD, hE, hall, hb, hperm, hdrop, hlen, hseen⟩ := h
  cases M0 with
  | nil =>
    -- the copy source itself: kept in place, the prefix is final
    simp only [List.nil_append, List.length_nil, Nat.add_zero, List.filter_nil] at hs hE hperm hdrop
    have ha : st.slots[st.cur]? = some b := by rw [hs, ← hD]; exact getElem?_mid D b T
    obtain ⟨ht, hdr⟩ := take_drop_succ hdrop
    unfold cstep
    rw [ha]
    simp only [hb, Bool.false_and, Bool.false_eq_true, if_false]
    refine ⟨Or.inr ⟨by simp <;> omega, ?_, ?_, hlen, ?_⟩, trivial⟩
    · simp only [hE, hs]
      have : (D ++ b :: T).take (D.length + 1) = D ++ [b] := by
        have := take_mid (D ++ [b]) T
        simpa using this
      rw [this]; exact hperm
    · simp only [hs, ← hD]
      have : (D ++ b :: T).drop (D.length + 1) = T := by
        simp
      rw [this, hD, hdr]
    · simp only [List.reverse_cons, hseen, ht]
  | cons a M1 =>
    simp only [List.cons_append, List.length_cons] at hs hE hperm hdrop
    have ha : st.slots[st.cur]? = some a := by rw [hs, ← hD]; exact getElem?_mid D a _
    obtain ⟨ht, hdr⟩ := take_drop_succ hdrop
    by_cases hpa : p a = true
    · -- overwritten by the copy source
      have hcond : (p a && decide (st.cur + 1 < st.copyEnd)) = true := by
        have : st.cur + 1 < st.copyEnd := by omega
        simp [hpa, this]
      have hbget : st.slots[st.copyEnd - 1]? = some b := by
        rw [hs, hE]
        have := getElem?_mid (D ++ a :: M1) b T
        simp only [List.append_assoc, List.cons_append, List.length_append, List.length_cons] at this
        rw [show D.length + (M1.length + 1) + 1 - 1 = D.length + (M1.length + 1) by omega]
        exact this
      have hset : st.slots.set st.cur b = D ++ b :: (M1 ++ b :: T) := by
        rw [hs, ← hD]; exact set_mid D a b _
      unfold cstep
      rw [ha]
      simp only [hcond, if_true, hbget, hset]
      have hfa : (a :: M1).filter (fun x => !p x) = M1.filter (fun x => !p x) := by
        simp [hpa]
      rw [hfa] at hperm
      rcases split_last p M1 with hM | ⟨Y0, y, P, rfl, hy, hP⟩
      · -- nothing else to keep below the copy source
        have hd : down p (D ++ b :: (M1 ++ b :: T)) st.cur (st.copyEnd - 1) = D.length + 1 := by
          have h1 := down_all p st.cur M1 hM (D ++ [b]) (b :: T) (by simp; omega)
          have hl : (D ++ [b]) ++ (M1 ++ b :: T) = D ++ b :: (M1 ++ b :: T) := by simp
          rw [hl] at h1
          rw [show st.copyEnd - 1 = (D ++ [b]).length + M1.length by simp; omega, h1,
            show (D ++ [b]).length = D.length + 1 by simp]
          exact down_stop p st.cur D b _ hb (by omega)
        rw [hd]
        refine ⟨Or.inr ⟨by simp <;> omega, ?_, ?_, by rw [← hlen, hs]; simp, ?_⟩, trivial⟩
        · have : (D ++ b :: (M1 ++ b :: T)).take (D.length + 1) = D ++ [b] := by
            have := take_mid (D ++ [b]) (M1 ++ b :: T)
            simpa using this
          simp only [this]
          rw [filter_all p M1 hM] at hperm
          simpa using hperm
        · simp only [← hD]
          have : (D ++ b :: (M1 ++ b :: T)).drop (D.length + 1) = M1 ++ b :: T := by
            simp
          rw [this, hD, hdr]
        · simp only [List.reverse_cons, hseen, ht]
      · -- `y` is the new copy source
        have hd : down p (D ++ b :: ((Y0 ++ y :: P) ++ b :: T)) st.cur (st.copyEnd - 1)
            = D.length + 1 + Y0.length + 1 := by
          have h1 := down_all p st.cur P hP (D ++ b :: (Y0 ++ [y])) (b :: T) (by simp; omega)
          have hl : (D ++ b :: (Y0 ++ [y])) ++ (P ++ b :: T) = D ++ b :: ((Y0 ++ y :: P) ++ b :: T) := by
            simp
          rw [hl] at h1
          rw [show st.copyEnd - 1 = (D ++ b :: (Y0 ++ [y])).length + P.length by
            simp at hE ⊢; omega, h1]
          have h2 := down_stop p st.cur (D ++ b :: Y0) y (P ++ b :: T) hy (by simp; omega)
          have hl2 : (D ++ b :: Y0) ++ y :: (P ++ b :: T) = D ++ b :: ((Y0 ++ y :: P) ++ b :: T) := by
            simp
          rw [hl2] at h2
          rw [show (D ++ b :: (Y0 ++ [y])).length = (D ++ b :: Y0).length + 1 by simp; omega, h2]
          simp; omega
        rw [hd]
        refine ⟨Or.inl ⟨D ++ [b], Y0, y, P ++ b :: T, by simp, by simp <;> omega, by simp <;> omega, ?_,
          hy, ?_, ?_, ?_, ?_⟩, trivial⟩
        · intro x hx
          rcases List.mem_append.mp hx with h | h
          · exact hall x h
          · simp at h; subst h; exact hb
        · have hf : (Y0 ++ y :: P).filter (fun x => !p x) = Y0.filter (fun x => !p x) ++ [y] := by
            simp [List.filter_append, hy, filter_all p P hP]
          rw [hf] at hperm
          have key : ((D ++ [b]) ++ (Y0.filter (fun x => !p x) ++ [y])).Perm
              (D ++ ((Y0.filter (fun x => !p x) ++ [y]) ++ [b])) := by
            rw [List.append_assoc]
            exact List.Perm.append_left D List.perm_append_comm
          exact key.trans hperm
        · simp only [hdr]; simp
        · rw [← hlen, hs]; simp
        · simp only [List.reverse_cons, hseen, ht]
    · -- kept in place
      have hpa' : p a = false := by simpa using hpa
      unfold cstep
      rw [ha]
      simp only [hpa', Bool.false_and, Bool.false_eq_true, if_false]
      refine ⟨Or.inl ⟨D ++ [a], M1, b, T, by rw [hs]; simp, by simp <;> omega, by simp <;> omega, ?_, hb,
        ?_, ?_, hlen, ?_⟩, trivial⟩
      · intro x hx
        rcases List.mem_append.mp hx with h | h
        · exact hall x h
        · simp at h; subst h; exact hpa'
      · have : (a :: M1).filter (fun x => !p x) = a :: M1.filter (fun x => !p x) := by
          simp [hpa']
        rw [this] at hperm
        simpa using hperm
      · exact hdr
      · simp only [List.reverse_cons, hseen, ht]

theorem steps_inv (inp : List α) : ∀ (k : Nat) (st : CState α),
    (InvA p inp st ∨ InvB p inp st) → st.cur + k = inp.length →
    InvB p inp (csteps p k st) ∧ (csteps p k st).cur = inp.length := by
  intro k
  induction k with
  | zero =>
    intro st h hk
    rcases h with h | h
    · exfalso
      obtain ⟨D, M0, b, T, hs, hD, _, _, _, _, _, hlen, _⟩ := h
      rw [hs] at hlen
      simp at hlen
      omega
    · exact ⟨h, by show st.cur = inp.length; omega⟩
  | succ k ih =>
    intro st h hk
    rcases h with h | h
    · obtain ⟨h1, h2⟩ := stepA p inp st h
      exact ih (cstep p st) h1 (by omega)
    · obtain ⟨h1, h2⟩ := stepB p inp st h (by omega)
      exact ih (cstep p st) (Or.inr h1) (by omega)

/-- (i) the consumer sees every record of the block, in order -/
theorem collapse_seen (block : List α) : (collapseBlock p block).1 = block := by
  obtain ⟨⟨_, _, _, _, h5⟩, hc⟩ := steps_inv p block block.length (cstart p block) (start_inv p block)
    (by simp [cstart])
  unfold collapseBlock
  simp only [h5, hc, List.take_length]

/-- (ii) the block that flows downstream is a permutation of the records to keep -/
theorem collapse_perm (block : List α) :
    (collapseBlock p block).2.Perm (block.filter fun x => !p x) := by
  obtain ⟨⟨_, h2, _, _, _⟩, _⟩ := steps_inv p block block.length (cstart p block) (start_inv p block)
    (by simp [cstart])
  exact h2

/-- (iii) for every partition of the stream into blocks: the consumer sees the whole stream in
order, and the output multiset is the filter of the input stream -/
theorem collapseStream_seen (blocks : List (List α)) : (collapseStream p blocks).1 = blocks.flatten := by
  show blocks.flatMap (fun b => (collapseBlock p b).1) = blocks.flatten
  have : (fun b => (collapseBlock p b).1) = id := funext (collapse_seen p)
  rw [this]
  exact List.flatMap_id

theorem collapseStream_perm (blocks : List (List α)) :
    (collapseStream p blocks).2.Perm (blocks.flatten.filter fun x => !p x) := by
  show (blocks.flatMap fun b => (collapseBlock p b).2).Perm (blocks.flatten.filter fun x => !p x)
  induction blocks with
  | nil => simp
  | cons b t ih =>
    rw [List.flatMap_cons, List.flatten_cons, List.filter_append]
    exact (collapse_perm p b).append ih

/-- two partitions of the same stream give the same output up to order -/
theorem collapseStream_partition (bs₁ bs₂ : List (List α)) (h : bs₁.flatten = bs₂.flatten) :
    (collapseStream p bs₁).2.Perm (collapseStream p bs₂).2 :=
  (collapseStream_perm p bs₁).trans (h ▸ (collapseStream_perm p bs₂).symm)

end Collapse

/-! ## 2. `PruneNGramStream` -/

section Prune
variable {β : Type}

theorem keptBy_eq (e : Emit) : keptBy e = (specialUnigram e || decide (e.cutoff > 0)) := rfl

/-- after the records `proc`: the slots below `current_`, `dest_`, and the compacted prefix -/
def PInv (f : Emit → β) (proc : List Emit) (st : PState β) : Prop :=
  st.slots.length = proc.length ∧ st.dest = (proc.filter keptBy).length ∧
    st.slots.take st.dest = (proc.filter keptBy).map f

theorem take_succ_copied (slots : List β) (v : β) (dest : Nat) (hd : dest ≤ slots.length) :
    (if dest < slots.length then (slots ++ [v]).set dest v else slots ++ [v]).take (dest + 1)
      = slots.take dest ++ [v] := by
  split
  · rename_i h
    rw [List.take_add_one, List.take_set_of_le (Nat.le_refl _), List.getElem?_set_self (by simp; omega),
      List.take_append_of_le_length hd]
    rfl
  · have : dest = slots.length := by omega
    subst this
    rw [List.take_of_length_le (by simp), List.take_of_length_le (Nat.le_refl _)]

theorem keep_step (f : Emit → β) (proc : List Emit) (st : PState β) (e : Emit) (h : PInv f proc st)
    (hk : keptBy e = true) :
    PInv f (proc ++ [e])
      ⟨if st.dest < st.slots.length then (st.slots ++ [f e]).set st.dest (f e) else st.slots ++ [f e],
        st.dest + 1⟩ := by
  obtain ⟨h1, h2, h3⟩ := h
  have hd : st.dest ≤ st.slots.length := by
    rw [h1, h2]; exact List.length_filter_le _ _
  have hf : (proc ++ [e]).filter keptBy = proc.filter keptBy ++ [e] := by
    simp [List.filter_append, hk]
  refine ⟨?_, ?_, ?_⟩
  · show (if st.dest < st.slots.length then _ else _ : List β).length = _
    split <;> simp [h1]
  · show st.dest + 1 = _
    rw [hf, h2]; simp
  · show (if st.dest < st.slots.length then _ else _ : List β).take (st.dest + 1) = _
    rw [take_succ_copied _ _ _ hd, h3, hf]; simp

theorem drop_step (f : Emit → β) (proc : List Emit) (st : PState β) (e : Emit) (h : PInv f proc st)
    (hk : keptBy e = false) : PInv f (proc ++ [e]) ⟨st.slots ++ [f e], st.dest⟩ := by
  obtain ⟨h1, h2, h3⟩ := h
  have hd : st.dest ≤ st.slots.length := by
    rw [h1, h2]; exact List.length_filter_le _ _
  have hf : (proc ++ [e]).filter keptBy = proc.filter keptBy := by
    simp [List.filter_append, hk]
  refine ⟨by simp [h1], by rw [hf]; exact h2, ?_⟩
  show (st.slots ++ [f e]).take st.dest = _
  rw [List.take_append_of_le_length hd, h3, hf]

theorem pstep_fixed (f : Emit → β) (proc : List Emit) (st : PState β) (e : Emit) (h : PInv f proc st) :
    PInv f (proc ++ [e]) (pstep true f st e) := by
  unfold pstep
  simp only [if_true]
  by_cases hk : keptBy e = true
  · rw [keptBy_eq] at hk
    simp only [hk, if_true]
    exact keep_step f proc st e h (by rw [keptBy_eq]; exact hk)
  · have hk' : keptBy e = false := by simpa using hk
    rw [keptBy_eq] at hk'
    simp only [hk', Bool.false_eq_true, if_false]
    exact drop_step f proc st e h (by rw [keptBy_eq]; exact hk')

theorem prun_fixed (f : Emit → β) : ∀ (rest proc : List Emit) (st : PState β), PInv f proc st →
    PInv f (proc ++ rest) (prun true f st rest) := by
  intro rest
  induction rest with
  | nil => intro proc st h; simpa [prun] using h
  | cons e t ih =>
    intro proc st h
    have := ih (proc ++ [e]) _ (pstep_fixed f proc st e h)
    simpa [prun] using this

/-- **the repaired iterator** leaves exactly the kept records' values, in order -/
theorem pruneBlock_fixed (f : Emit → β) (block : List Emit) :
    pruneBlock true f block = (block.filter keptBy).map f := by
  have := prun_fixed f block [] ⟨[], 0⟩ ⟨rfl, rfl, rfl⟩
  simpa [pruneBlock] using this.2.2

theorem pruneStream_fixed (f : Emit → β) (blocks : List (List Emit)) :
    pruneStream true f blocks = (blocks.flatten.filter keptBy).map f := by
  unfold pruneStream
  induction blocks with
  | nil => rfl
  | cons b t ih =>
    rw [List.flatMap_cons, List.flatten_cons, List.filter_append, List.map_append, pruneBlock_fixed, ih]

/-- no special unigram is preceded in the block by a dropped record -/
def SpecialsFirst (block : List Emit) : Prop :=
  ∀ pre e post, block = pre ++ e :: post → specialUnigram e = true → ∀ x ∈ pre, keptBy x = true

theorem pstep_unfixed (f : Emit → β) (proc : List Emit) (st : PState β) (e : Emit) (h : PInv f proc st)
    (hs : specialUnigram e = true → ∀ x ∈ proc, keptBy x = true) :
    PInv f (proc ++ [e]) (pstep false f st e) := by
  unfold pstep
  simp only [Bool.false_eq_true, if_false]
  by_cases hsp : specialUnigram e = true
  · -- `dest_ = current_`: the slot already holds the value
    simp only [hsp, if_true]
    have hk : keptBy e = true := by rw [keptBy_eq, hsp]; rfl
    have hall : proc.filter keptBy = proc := List.filter_eq_self.mpr (hs hsp)
    have hd : st.dest = st.slots.length := by rw [h.2.1, hall, h.1]
    have := keep_step f proc st e h hk
    rw [if_neg (by omega)] at this
    exact this
  · have hsp' : specialUnigram e = false := by simpa using hsp
    simp only [hsp', Bool.false_eq_true, if_false]
    by_cases hc : e.cutoff > 0
    · simp only [hc, if_true]
      exact keep_step f proc st e h (by rw [keptBy_eq, hsp']; simpa using hc)
    · simp only [hc, if_false]
      exact drop_step f proc st e h (by rw [keptBy_eq, hsp']; simpa using hc)

theorem prun_unfixed (f : Emit → β) (block : List Emit) (hb : SpecialsFirst block) :
    ∀ (rest proc : List Emit) (st : PState β), proc ++ rest = block → PInv f proc st →
      PInv f (proc ++ rest) (prun false f st rest) := by
  intro rest
  induction rest with
  | nil => intro proc st _ h; simpa [prun] using h
  | cons e t ih =>
    intro proc st hpr h
    have hstep := pstep_unfixed f proc st e h (fun hsp => hb proc e t hpr.symm hsp)
    have := ih (proc ++ [e]) _ (by simpa using hpr) hstep
    simpa [prun] using this

/-- **the iterator as it stands** gives the same result when no special unigram follows a dropped
record in its block (ids 0, 1, 2 come first unless the vocabulary is renumbered) -/
theorem pruneBlock_unfixed (f : Emit → β) (block : List Emit) (hb : SpecialsFirst block) :
    pruneBlock false f block = (block.filter keptBy).map f := by
  have := prun_unfixed f block hb block [] ⟨[], 0⟩ rfl ⟨rfl, rfl, rfl⟩
  simpa [pruneBlock] using this.2.2

/-- … and not otherwise: a marked record followed by `</s>`: the output holds the dropped record's
stale slot instead of `</s>` -/
theorem prune_stream_unfixed_false :
    pruneBlock false id [⟨[5], 1, true⟩, ⟨[2], 3, false⟩] = [⟨[5], 1, true⟩] ∧
    pruneBlock true id [⟨[5], 1, true⟩, ⟨[2], 3, false⟩] = [⟨[2], 3, false⟩] ∧
    ([⟨[5], 1, true⟩, ⟨[2], 3, false⟩] : List Emit).filter keptBy = [⟨[2], 3, false⟩] := by
  decide

end Prune

/-! ## 3. Examples (`decide`) -/

/-- copying happens: the two `<s> <s> x` records are overwritten from the end -/
example : collapseBlock bosAt1 [([5, 1, 1], 1), ([6, 1, 1], 1), ([7, 4, 1], 1), ([8, 4, 3], 2)] =
    ([([5, 1, 1], 1), ([6, 1, 1], 1), ([7, 4, 1], 1), ([8, 4, 3], 2)],
     [([8, 4, 3], 2), ([7, 4, 1], 1)]) := by decide

/-- `copy_from_` ends below `current_` -/
example : collapseBlock bosAt1 [([7, 4, 1], 1), ([5, 1, 1], 1), ([6, 1, 1], 1)] =
    ([([7, 4, 1], 1), ([5, 1, 1], 1), ([6, 1, 1], 1)], [([7, 4, 1], 1)]) := by decide

/-- a block of `<s> <s> x` records only: nothing flows downstream -/
example : collapseBlock bosAt1 [([5, 1, 1], 1), ([6, 1, 1], 1)] =
    ([([5, 1, 1], 1), ([6, 1, 1], 1)], []) := by decide

/-- `bosAt1` is the predicate `KV.KN.collapse` filters with -/
theorem collapse_filter (cfg : Cfg) (full : List (Gram × Nat)) :
    collapse cfg full = (full.filter fun e => !bosAt1 e).map fun e => ⟨e.1, e.2, markOf cfg e.2 e.1⟩ :=
  rfl

/-- for every partition into blocks, the (marked) output of `CollapseStream` is a permutation of
`KV.KN.collapse` of the whole stream — so after the sort that follows it is the same stream -/
theorem collapseStream_collapse (cfg : Cfg) (blocks : List (List (Gram × Nat))) :
    ((collapseStream bosAt1 blocks).2.map fun e => (⟨e.1, e.2, markOf cfg e.2 e.1⟩ : Emit)).Perm
      (collapse cfg blocks.flatten) := by
  rw [collapse_filter]
  exact (collapseStream_perm bosAt1 blocks).map _

end KV.KN.Blocks
