import Proofs.ProbingRestChainSem
/-! Towards the `rest` field on chains: the mark loop in property form (step (2) of the plan in design_notes/C03.md). -/
namespace KV.ProbingBuild
open KV.Arpa KV.Table KV.Score KV.ProbingLM

/-- the `rest` the chained `MarkExtends` loop assigns to the `i`-th key: at least its own rest, the initial `longerRest` and
the rests of the earlier keys — and no more than any common bound of those (i.e. their maximum) -/
theorem markUsT_rest_partial (want0 : Key → W) : ∀ (keys : List Key) (lr : Rat), keys.Nodup →
    ∀ (i : Nat) (hi : i < keys.length),
      (want0 keys[i]).rest ≤ (applyUpd want0 (markUsT want0 keys lr) keys[i]).rest ∧
      lr ≤ (applyUpd want0 (markUsT want0 keys lr) keys[i]).rest ∧
      (∀ i' (hi' : i' < i), (want0 (keys[i']'(by omega))).rest ≤ (applyUpd want0 (markUsT want0 keys lr) keys[i]).rest) ∧
      (∀ B, (want0 keys[i]).rest ≤ B → lr ≤ B → (∀ i' (hi' : i' < i), (want0 (keys[i']'(by omega))).rest ≤ B) →
        (applyUpd want0 (markUsT want0 keys lr) keys[i]).rest ≤ B) := by
  intro keys
  induction keys generalizing want0 with
  | nil => intro lr _ i hi; simp at hi
  | cons k0 ks ih =>
    intro lr hnd i hi
    have hnd' := List.nodup_cons.mp hnd
    have hcg : markUsT want0 ks (markExtends true (want0 k0) lr).1.rest =
        markUsT (updW want0 k0 ((fun w => (markExtends true w lr).1) (want0 k0))) ks (markExtends true (want0 k0) lr).1.rest := by
      symm
      apply markUsT_congr
      intro k' hk'
      have hne : k' ≠ k0 := fun he => hnd'.1 (he ▸ hk')
      simp [updW, hne]
    have hm : (markExtends true (want0 k0) lr).1.rest = max (want0 k0).rest lr := by rw [markExtends_true]
    cases i with
    | zero =>
      simp only [List.getElem_cons_zero, markUsT, applyUpd]
      rw [mark_otherT _ _ _ _ _ hnd'.1]
      simp only [updW, if_true, hm]
      refine ⟨by grind, by grind, fun i' hi' => by omega, fun B h1 h2 _ => by grind⟩
    | succ i =>
      simp only [List.getElem_cons_succ, markUsT, applyUpd]
      rw [hcg]
      have hi2 : i < ks.length := by simpa using hi
      obtain ⟨a1, a2, a3, a4⟩ := ih (updW want0 k0 ((fun w => (markExtends true w lr).1) (want0 k0)))
        (markExtends true (want0 k0) lr).1.rest hnd'.2 i hi2
      have hks : ∀ j (hj : j < ks.length), updW want0 k0 ((fun w => (markExtends true w lr).1) (want0 k0)) ks[j] = want0 ks[j] := by
        intro j hj
        have hne : ks[j] ≠ k0 := fun he => hnd'.1 (he ▸ List.getElem_mem hj)
        simp [updW, hne]
      rw [hks i hi2] at a1 a4
      rw [hm] at a1 a2 a3 a4 ⊢
      dsimp only at a1 a2 a3 a4 hks ⊢
      refine ⟨a1, by grind, ?_, ?_⟩
      · intro i' hi'
        cases i' with
        | zero => simp only [List.getElem_cons_zero]; grind
        | succ i'' =>
          simp only [List.getElem_cons_succ]
          have := a3 i'' (by omega)
          rw [hks i'' (by omega)] at this
          exact this
      · intro B h1 h2 h3
        apply a4 B h1
        · have := h3 0 (by omega)
          simp only [List.getElem_cons_zero] at this
          grind
        · intro i'' hi''
          rw [hks i'' (by omega)]
          have := h3 (i'' + 1) (by omega)
          simpa using this

end KV.ProbingBuild
