import Proofs.ChainPoolSys
import Proofs.PCQueueSysLive
/-! Liveness of the ThreadPool running on the step-level queue. Core Lean only. -/
namespace KV.Sys
open KV.Chain (Item WPC Pool fifoPush fifoPop upd)

theorem awaitQuiet_pool (cap w : Nat) : AwaitQuiet (poolProg cap w) := by
  intro t l p pred k lp hact hpred
  have hfin : pred = isFinished := by
    cases t with
    | zero =>
      cases l with
      | main todo j =>
        cases todo with
        | nil =>
          simp only [poolProg] at hact
          by_cases hj : j < w
          · simp [hj] at hact; exact hact.2.1.symm
          · simp [hj] at hact
        | cons x r => simp [poolProg] at hact
      | worker pc h => simp [poolProg] at hact
    | succ i =>
      cases l with
      | main todo j => simp [poolProg] at hact
      | worker pc h => cases pc <;> simp [poolProg] at hact
  subst hfin
  cases lp with
  | main todo j => simp [isFinished] at hpred
  | worker pc h =>
    cases pc <;> simp [isFinished] at hpred
    cases p <;> simp [poolProg]

/-- conversely to `pool_astep`: whatever the `Pool` model can do, the atomic client system can do -/
theorem pool_astep_enabled {cap w : Nat} {a : AState PLoc} {t : Nat} (hwf : PWF w a)
    (hs : (toPool cap w a).step t ≠ none) : astep (poolProg cap w) a t ≠ none := by
  unfold astep
  cases t with
  | zero =>
    have ht : 0 < (poolProg cap w).nthreads := by simp [poolProg]
    rw [if_pos ht]
    obtain ⟨todo, j, hl⟩ := hwf.1
    have htodo : (toPool cap w a).todo = todo := by simp [toPool, hl, todoOf]
    have hjoined : (toPool cap w a).joined = j := by simp [toPool, hl, joinedOf]
    unfold Pool.step at hs
    simp only [htodo] at hs
    cases todo with
    | cons x rest =>
      simp only at hs
      by_cases hq : (toPool cap w a).q.length < (toPool cap w a).cap
      · have hlt : (a.q 0).length < cap := by simpa [toPool] using hq
        simp [hl, poolProg, fifoPush, hlt]
      · simp [hq] at hs
    | nil =>
      simp only [hjoined] at hs
      have hwlen : (toPool cap w a).wpc.length = w := by simp [toPool]
      rw [hwlen] at hs
      by_cases hj : j < w
      · rw [if_pos hj] at hs
        have hget : (toPool cap w a).wpc[j]? = some (wpcOf (a.loc (j + 1))) := wpc_get w a hj
        rw [hget] at hs
        obtain ⟨pc, hh, e⟩ := hwf.2 j hj
        have hf : isFinished (a.loc (j + 1)) = true := by
          rw [e] at hs ⊢
          cases pc <;> simp [wpcOf, isFinished] at hs ⊢
        simp [hl, poolProg, hj, hf]
      · rw [if_neg hj] at hs; exact absurd rfl hs
  | succ i =>
    unfold Pool.step at hs
    simp only at hs
    have hi : i < w := by
      apply Classical.byContradiction
      intro e
      have : (toPool cap w a).wpc[i]? = none := by
        apply List.getElem?_eq_none; simp [toPool]; omega
      simp [this] at hs
    have ht : i + 1 < (poolProg cap w).nthreads := by simp [poolProg]; omega
    rw [if_pos ht]
    obtain ⟨pc, hh, hl⟩ := hwf.2 i hi
    have hget : (toPool cap w a).wpc[i]? = some pc := by
      rw [show (toPool cap w a).wpc = (List.range w).map fun i => wpcOf (a.loc (i + 1)) from rfl,
          wpc_get w a hi, hl]; rfl
    rw [hget] at hs
    cases pc with
    | notStarted => simp [hl, poolProg]
    | running =>
      simp only at hs
      have hq : (toPool cap w a).q = (a.q 0).map dec := rfl
      cases hq0 : a.q 0 with
      | nil => rw [hq, hq0] at hs; simp at hs
      | cons n rest => simp [hl, poolProg, fifoPop, hq0]
    | finished => simp at hs

/-- the invariant of the atomic pool system used for the liveness transport -/
def PoolOK (cap w : Nat) (reqs : List Nat) (a : AState PLoc) : Prop :=
  PWF w a ∧ Pool.Reach (Pool.init cap w reqs) (toPool cap w a)

theorem poolOK_step {cap w : Nat} {reqs : List Nat} {a a' : AState PLoc} {t : Nat}
    (h : PoolOK cap w reqs a) (hs : astep (poolProg cap w) a t = some a') : PoolOK cap w reqs a' := by
  obtain ⟨h1, h2⟩ := pool_astep h.1 hs
  exact ⟨h2, .step h.2 h1⟩

theorem poolOK_dec {cap w : Nat} {reqs : List Nat} {a a' : AState PLoc} {t : Nat}
    (h : PoolOK cap w reqs a) (hs : astep (poolProg cap w) a t = some a') :
    (toPool cap w a').measure < (toPool cap w a).measure :=
  KV.Chain.pool_measure_step (KV.Chain.pinv_reach h.2) (pool_astep h.1 hs).1

theorem modeLt_reach {σ : Type} {P : Prog σ} {loc0 : Nat → σ} {c : CState σ}
    (hr : CReach P (cinit P loc0) c) : ModeLt P c := by
  induction hr with
  | init => intro t _; rfl
  | step _ hs ih => exact modeLt_step ih hs
  | intr _ hs ih => rw [sim_intr hs]; exact ih

theorem modeLt_crun {σ : Type} {P : Prog σ} : ∀ (ls : List Label) (c c' : CState σ), ModeLt P c →
    crun P c ls = some c' → ModeLt P c' := by
  intro ls
  induction ls with
  | nil => intro c c' h hr; simp [crun] at hr; subst hr; exact h
  | cons l ls ih =>
    intro c c' h hr
    cases l with
    | step t =>
      simp only [crun] at hr
      cases hs : cstep P c t with
      | none => simp [hs] at hr
      | some c1 => simp only [hs] at hr; exact ih c1 c' (modeLt_step h hs) hr
    | intr t =>
      simp only [crun] at hr
      cases hs : cintr c t with
      | none => simp [hs] at hr
      | some c1 => simp only [hs] at hr; rw [sim_intr hs] at hr; exact ih c c' h hr

/-- deadlock freedom of the pool on the step-level queue, from any state satisfying the invariants -/
theorem pool_no_deadlock_of {cap w : Nat} {reqs : List Nat} (hw : 0 < w) (hcap : 0 < cap)
    {c : CState PLoc} (h : CInv (poolProg cap w) c) (hml : ModeLt (poolProg cap w) c)
    (hok : PoolOK cap w reqs (abs c)) (hnd : (toPool cap w (abs c)).allDone = false) :
    ∃ t, cstep (poolProg cap w) c t ≠ none := by
  obtain ⟨tid, htid⟩ := KV.Chain.pool_no_deadlock_inv hw (p := toPool cap w (abs c)) hcap
    (KV.Chain.pinv_reach hok.2) hnd
  exact steplevel_no_deadlock h hml (awaitQuiet_pool cap w) ⟨tid, pool_astep_enabled hok.1 htid⟩

end KV.Sys
