import Proofs.ChainPoolSys
import Proofs.ChainLive
/-!
The Chain as a client program of the composed system: the atomic client system instantiated with `chainProg` is
the `Chain` model (`toChain`), so by `creach_refines` every reachable state of the chain running on STEP-LEVEL
queues abstracts to a reachable state of the `Chain` model.  Core Lean only.
-/
namespace KV.Sys
open KV.Chain (Item Stage LPC MPC Chain fifoPush fifoPop upd exitLoop)

inductive CLoc
  | main (pc : MPC) (drained : List Item)
  | stage (s : Stage)

def stageFinished : CLoc → Bool
  | .stage s => s.pc == .finished
  | _ => false

/-- the stage threads are created by the user thread after `Chain::Start`; from then on it only joins them -/
def mainNotFill : CLoc → Bool
  | .main (.join _) _ => true
  | _ => false

/-- user thread = `Chain::Start` (fill), `Chain::Wait` (join all, drain); thread `i+1` = stage `i`, a
`for (Link l(position); l; ++l) body` loop, operation by operation as in `Chain.stageStep`; `c0` carries the
parameters `b`, `m`, `data`, `tr` -/
def chainProg (c0 : Chain) : Prog CLoc where
  nthreads := c0.m + 2
  cap := fun _ => c0.b
  act := fun t l =>
    match t, l with
    | 0, .main (.fill (k + 1)) d => .produce 0 (enc (.val 0)) (.main (if k = 0 then .join 1 else .fill k) d)
    | 0, .main (.fill 0) d => .tau (.main (.join 1) d)
    | 0, .main (.join i) d =>
      .await i stageFinished (.main (if i = c0.m + 1 then .drain 0 else .join (i + 1)) d)
    | 0, .main (.drain k) d =>
      .consume 0 (fun n => match dec n with
        | .poison => .main .finished (d ++ [.poison])
        | .val v => .main (if k = c0.b then .aborted else .drain (k + 1)) (d ++ [.val v]))
    | i + 1, .stage s =>
      if i ≤ c0.m then
        match s.pc with
        | .start => .await 0 mainNotFill (.stage { s with pc := .init })
        | .init =>
          .consume i (fun n => .stage (c0.loopTest i s.inp
            { s with poisoned := false, cur := dec n, inp := s.inp ++ [dec n] }))
        | .incProduce =>
          .produce (c0.outQ i) (enc s.cur) (.stage { s with pc := .incConsume, out := s.out ++ [s.cur] })
        | .incConsume =>
          .consume i (fun n => .stage (match dec n with
            | .poison => { s with cur := .poison, inp := s.inp ++ [.poison], poisoned := true, pc := .incPoison }
            | .val v => c0.loopTest i s.inp { s with cur := .val v, inp := s.inp ++ [.val v] }))
        | .incPoison =>
          .produce (c0.outQ i) (enc s.cur) (.stage (exitLoop { s with out := s.out ++ [s.cur] }))
        | .poisonCall =>
          .produce (c0.outQ i) (enc .poison)
            (.stage (exitLoop { s with cur := .poison, poisoned := true, out := s.out ++ [.poison] }))
        | .dtor => .produce (c0.outQ i) (enc s.cur) (.stage { s with pc := .finished, out := s.out ++ [s.cur] })
        | .finished => .stop
      else .stop
    | _, _ => .stop

def chainLoc0 (b : Nat) : Nat → CLoc
  | 0 => .main (.fill b) []
  | _ + 1 => .stage {}

def mainOf : CLoc → MPC
  | .main pc _ => pc
  | _ => .finished

def drainedOf : CLoc → List Item
  | .main _ d => d
  | _ => []

def stageOf : CLoc → Stage
  | .stage s => s
  | _ => {}

def toChain (c0 : Chain) (a : AState CLoc) : Chain :=
  { b := c0.b, m := c0.m, data := c0.data, tr := c0.tr,
    q := fun j => (a.q j).map dec, main := mainOf (a.loc 0), st := fun i => stageOf (a.loc (i + 1)),
    drained := drainedOf (a.loc 0) }

def CWF (a : AState CLoc) : Prop :=
  (∃ pc d, a.loc 0 = .main pc d) ∧ ∀ i, ∃ s, a.loc (i + 1) = .stage s

theorem Chain.ext' {x y : Chain} (h1 : x.b = y.b) (h2 : x.m = y.m) (h3 : x.data = y.data) (h4 : x.q = y.q)
    (h5 : x.main = y.main) (h6 : x.st = y.st) (h7 : x.drained = y.drained) (h8 : x.tr = y.tr) : x = y := by
  cases x; cases y; simp at *; simp [*]

theorem q_upd (a : AState CLoc) (j : Nat) (buf : List Nat) :
    (fun j' => (upd a.q j buf j').map dec) = upd (fun j' => (a.q j').map dec) j (buf.map dec) := by
  funext j'; by_cases e : j' = j <;> simp [Chain.upd, e]

theorem toChain_stage (c0 : Chain) (a : AState CLoc) (i : Nat) (s' : Stage) (q' : Nat → List Nat) (p') :
    toChain c0 { q := q', loc := upd a.loc (i + 1) (.stage s'), popped := p' }
      = { toChain c0 a with q := fun j => (q' j).map dec, st := upd (toChain c0 a).st i s' } := by
  refine Chain.ext' rfl rfl rfl rfl ?_ ?_ ?_ rfl
  · simp [toChain, Chain.upd]
  · funext i'
    by_cases e : i' = i <;> simp [toChain, Chain.upd, e, stageOf]
  · simp [toChain, Chain.upd]

theorem toChain_main (c0 : Chain) (a : AState CLoc) (pc : MPC) (d : List Item) (q' : Nat → List Nat) (p') :
    toChain c0 { q := q', loc := upd a.loc 0 (.main pc d), popped := p' }
      = { toChain c0 a with q := fun j => (q' j).map dec, main := pc, drained := d } := by
  refine Chain.ext' rfl rfl rfl rfl ?_ ?_ ?_ rfl
  · simp [toChain, Chain.upd, mainOf]
  · funext i'; simp [toChain, Chain.upd]
  · simp [toChain, Chain.upd, drainedOf]

theorem push_map {b : Nat} {l buf : List Nat} {x : Item} (h : fifoPush b l (enc x) = some buf) :
    fifoPush b (l.map dec) x = some (buf.map dec) := by
  obtain ⟨hlt, rfl⟩ := Chain.fifoPush_some h
  have : (l.map dec).length < b := by simpa using hlt
  simp [fifoPush, hlt, dec_enc]

theorem pop_map {l rest : List Nat} {n : Nat} (h : fifoPop l = some (n, rest)) :
    fifoPop (l.map dec) = some (dec n, rest.map dec) := by
  rw [Chain.fifoPop_some h]; rfl

theorem CWF.upd_main {a : AState CLoc} (h : CWF a) (pc : MPC) (d : List Item) (q p) :
    CWF { q := q, loc := upd a.loc 0 (.main pc d), popped := p } := by
  refine ⟨⟨pc, d, by simp [Chain.upd]⟩, fun i => ?_⟩
  obtain ⟨s, e⟩ := h.2 i
  exact ⟨s, by simp [Chain.upd, e]⟩

theorem CWF.upd_stage {a : AState CLoc} (h : CWF a) (i : Nat) (s' : Stage) (q p) :
    CWF { q := q, loc := upd a.loc (i + 1) (.stage s'), popped := p } := by
  refine ⟨?_, fun j => ?_⟩
  · obtain ⟨pc, d, e⟩ := h.1
    exact ⟨pc, d, by simp [Chain.upd, e]⟩
  · by_cases e : j = i
    · subst e; exact ⟨s', by simp [Chain.upd]⟩
    · obtain ⟨s, e'⟩ := h.2 j
      exact ⟨s, by simp [Chain.upd, e, e']⟩

/-- the atomic client system with `chainProg` IS the `Chain` model -/
theorem chain_astep {c0 : Chain} {a a' : AState CLoc} {t : Nat} (hwf : CWF a)
    (hs : astep (chainProg c0) a t = some a') :
    (toChain c0 a).step t = some (toChain c0 a') ∧ CWF a' := by
  unfold astep at hs
  by_cases ht : t < c0.m + 2
  · have ht' : t < (chainProg c0).nthreads := ht
    rw [if_pos ht'] at hs
    cases t with
    | zero =>
      obtain ⟨pc, d, hl⟩ := hwf.1
      have hmainv : (toChain c0 a).main = pc := by simp [toChain, hl, mainOf]
      have hdr : (toChain c0 a).drained = d := by simp [toChain, hl, drainedOf]
      cases pc with
      | fill k =>
        cases k with
        | zero =>
          simp only [hl, chainProg] at hs; cases hs
          refine ⟨?_, hwf.upd_main _ _ _ _⟩
          rw [toChain_main]
          simp only [Chain.step, Chain.mainStep, hmainv]
          congr 1
          exact Chain.ext' rfl rfl rfl rfl rfl rfl hdr rfl
        | succ k =>
          simp only [hl, chainProg] at hs
          cases hq : fifoPush c0.b (a.q 0) (enc (.val 0)) with
          | none => simp [hq] at hs
          | some buf =>
            simp only [hq] at hs; cases hs
            refine ⟨?_, hwf.upd_main _ _ _ _⟩
            have hp : fifoPush (toChain c0 a).b ((toChain c0 a).q 0) (Item.val 0) = some (buf.map dec) := push_map hq
            rw [toChain_main]
            simp only [Chain.step, Chain.mainStep, hmainv, hp]
            congr 1
            exact Chain.ext' rfl rfl rfl (q_upd a 0 buf).symm rfl rfl hdr rfl
      | join i =>
        simp only [hl, chainProg] at hs
        by_cases hf : stageFinished (a.loc i) = true
        · simp only [hf, if_true] at hs; cases hs
          refine ⟨?_, hwf.upd_main _ _ _ _⟩
          have hpc : ((toChain c0 a).st (i - 1)).pc = .finished := by
            cases i with
            | zero => rw [hl] at hf; simp [stageFinished] at hf
            | succ j =>
              obtain ⟨s, e⟩ := hwf.2 j
              rw [e] at hf
              simp only [stageFinished, beq_iff_eq] at hf
              simp [toChain, e, stageOf, hf]
          rw [toChain_main]
          simp only [Chain.step, Chain.mainStep, hmainv, hpc]
          congr 1
          exact Chain.ext' rfl rfl rfl rfl rfl rfl hdr rfl
        · simp [hf] at hs
      | drain k =>
        simp only [hl, chainProg] at hs
        cases hq : fifoPop (a.q 0) with
        | none => simp [hq] at hs
        | some pr =>
          obtain ⟨n, rest⟩ := pr
          simp only [hq] at hs; cases hs
          have hp : fifoPop ((toChain c0 a).q 0) = some (dec n, rest.map dec) := pop_map hq
          cases hd : dec n with
          | poison =>
            refine ⟨?_, by simpa [hd] using hwf.upd_main .finished (d ++ [.poison]) _ _⟩
            simp only [hd]
            rw [toChain_main]
            simp only [Chain.step, Chain.mainStep, hmainv, hp, hd]
            congr 1
            exact Chain.ext' rfl rfl rfl (q_upd a 0 rest).symm rfl rfl (by simp [hdr]) rfl
          | val v =>
            refine ⟨?_, by simpa [hd] using hwf.upd_main _ (d ++ [.val v]) _ _⟩
            simp only [hd]
            rw [toChain_main]
            simp only [Chain.step, Chain.mainStep, hmainv, hp, hd]
            congr 1
            exact Chain.ext' rfl rfl rfl (q_upd a 0 rest).symm rfl rfl (by simp [hdr]) rfl
      | aborted => simp [hl, chainProg] at hs
      | finished => simp [hl, chainProg] at hs
    | succ i =>
      have hi : i ≤ c0.m := by omega
      obtain ⟨s, hl⟩ := hwf.2 i
      have hst : (toChain c0 a).st i = s := by simp [toChain, hl, stageOf]
      have him : i ≤ (toChain c0 a).m := hi
      simp only [hl, chainProg, hi, if_true] at hs
      cases hpc : s.pc with
      | start =>
        simp only [hpc] at hs
        by_cases hf : mainNotFill (a.loc 0) = true
        · simp only [hf, if_true] at hs; cases hs
          refine ⟨?_, hwf.upd_stage _ _ _ _⟩
          obtain ⟨pc, d, hl0⟩ := hwf.1
          have hmainv : (toChain c0 a).main = pc := by simp [toChain, hl0, mainOf]
          rw [toChain_stage]
          simp only [Chain.step, him, if_true, Chain.stageStep, hst, hpc, hmainv]
          rw [hl0] at hf
          cases pc <;> simp [mainNotFill] at hf ⊢ <;> rfl
        · simp [hf] at hs
      | init =>
        simp only [hpc] at hs
        cases hq : fifoPop (a.q i) with
        | none => simp [hq] at hs
        | some pr =>
          obtain ⟨n, rest⟩ := pr
          simp only [hq] at hs; cases hs
          refine ⟨?_, hwf.upd_stage _ _ _ _⟩
          have hp : fifoPop ((toChain c0 a).q i) = some (dec n, rest.map dec) := pop_map hq
          rw [toChain_stage]
          simp only [Chain.step, him, if_true, Chain.stageStep, hst, hpc, hp]
          congr 1
          exact Chain.ext' rfl rfl rfl (q_upd a i rest).symm rfl rfl rfl rfl
      | incProduce =>
        simp only [hpc] at hs
        cases hq : fifoPush c0.b (a.q (c0.outQ i)) (enc s.cur) with
        | none => simp [hq] at hs
        | some buf =>
          simp only [hq] at hs; cases hs
          refine ⟨?_, hwf.upd_stage _ _ _ _⟩
          have hp : fifoPush (toChain c0 a).b ((toChain c0 a).q ((toChain c0 a).outQ i)) s.cur = some (buf.map dec) :=
            push_map hq
          rw [toChain_stage]
          simp only [Chain.step, him, if_true, Chain.stageStep, hst, hpc, hp]
          congr 1
          exact Chain.ext' rfl rfl rfl (q_upd a (c0.outQ i) buf).symm rfl rfl rfl rfl
      | incConsume =>
        simp only [hpc] at hs
        cases hq : fifoPop (a.q i) with
        | none => simp [hq] at hs
        | some pr =>
          obtain ⟨n, rest⟩ := pr
          simp only [hq] at hs; cases hs
          refine ⟨?_, hwf.upd_stage _ _ _ _⟩
          have hp : fifoPop ((toChain c0 a).q i) = some (dec n, rest.map dec) := pop_map hq
          rw [toChain_stage]
          simp only [Chain.step, him, if_true, Chain.stageStep, hst, hpc, hp]
          congr 1
          refine Chain.ext' rfl rfl rfl (q_upd a i rest).symm rfl ?_ rfl rfl
          cases dec n <;> rfl
      | incPoison =>
        simp only [hpc] at hs
        cases hq : fifoPush c0.b (a.q (c0.outQ i)) (enc s.cur) with
        | none => simp [hq] at hs
        | some buf =>
          simp only [hq] at hs; cases hs
          refine ⟨?_, hwf.upd_stage _ _ _ _⟩
          have hp : fifoPush (toChain c0 a).b ((toChain c0 a).q ((toChain c0 a).outQ i)) s.cur = some (buf.map dec) :=
            push_map hq
          rw [toChain_stage]
          simp only [Chain.step, him, if_true, Chain.stageStep, hst, hpc, hp]
          congr 1
          exact Chain.ext' rfl rfl rfl (q_upd a (c0.outQ i) buf).symm rfl rfl rfl rfl
      | poisonCall =>
        simp only [hpc] at hs
        cases hq : fifoPush c0.b (a.q (c0.outQ i)) (enc .poison) with
        | none => simp [hq] at hs
        | some buf =>
          simp only [hq] at hs; cases hs
          refine ⟨?_, hwf.upd_stage _ _ _ _⟩
          have hp : fifoPush (toChain c0 a).b ((toChain c0 a).q ((toChain c0 a).outQ i)) Item.poison
              = some (buf.map dec) := push_map hq
          rw [toChain_stage]
          simp only [Chain.step, him, if_true, Chain.stageStep, hst, hpc, hp]
          congr 1
          exact Chain.ext' rfl rfl rfl (q_upd a (c0.outQ i) buf).symm rfl rfl rfl rfl
      | dtor =>
        simp only [hpc] at hs
        cases hq : fifoPush c0.b (a.q (c0.outQ i)) (enc s.cur) with
        | none => simp [hq] at hs
        | some buf =>
          simp only [hq] at hs; cases hs
          refine ⟨?_, hwf.upd_stage _ _ _ _⟩
          have hp : fifoPush (toChain c0 a).b ((toChain c0 a).q ((toChain c0 a).outQ i)) s.cur = some (buf.map dec) :=
            push_map hq
          rw [toChain_stage]
          simp only [Chain.step, him, if_true, Chain.stageStep, hst, hpc, hp]
          congr 1
          exact Chain.ext' rfl rfl rfl (q_upd a (c0.outQ i) buf).symm rfl rfl rfl rfl
      | finished => simp [hpc] at hs
  · have ht' : ¬ t < (chainProg c0).nthreads := ht
    rw [if_neg ht'] at hs; cases hs

theorem toChain_init (b m : Nat) (data : List Nat) (tr : Nat → List Item → Nat → Nat) :
    toChain (Chain.initT b m data tr) (ainit (chainLoc0 b)) = Chain.initT b m data tr := by
  refine Chain.ext' rfl rfl rfl ?_ rfl ?_ rfl rfl
  · funext j; simp [toChain, ainit, Chain.initT, Chain.init]
  · funext i; simp [toChain, ainit, chainLoc0, stageOf, Chain.initT, Chain.init]

theorem cwf_init (b : Nat) : CWF (ainit (chainLoc0 b)) := ⟨⟨_, _, rfl⟩, fun _ => ⟨_, rfl⟩⟩

theorem chain_areach {b m : Nat} {data : List Nat} {tr : Nat → List Item → Nat → Nat} {a : AState CLoc}
    (h : AReach (chainProg (Chain.initT b m data tr)) (ainit (chainLoc0 b)) a) :
    CWF a ∧ Chain.Reach (Chain.initT b m data tr) (toChain (Chain.initT b m data tr) a) := by
  induction h with
  | init => exact ⟨cwf_init b, by rw [toChain_init]; exact .init⟩
  | step _ hs ih =>
    obtain ⟨h1, h2⟩ := chain_astep ih.1 hs
    exact ⟨h2, .step ih.2 h1⟩

end KV.Sys
