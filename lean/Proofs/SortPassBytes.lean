import Proofs.SortFile
import Proofs.SortArity
/-! C16: the byte level threaded through every merge pass. -/
namespace KV.Sort
open List

theorem recordsOf_cons {E : Nat} (hE : 0 < E) (l : Buf) (h : E ≤ l.length) :
    recordsOf E l = l.take E :: recordsOf E (l.drop E) := by
  unfold recordsOf
  rw [Nat.div_eq_sub_div hE h, length_drop]
  rfl

theorem recordsOf_short {E : Nat} (hE : 0 < E) (l : Buf) (h : l.length < E) : recordsOf E l = [] := by
  unfold recordsOf
  rw [Nat.div_eq_of_lt h]; rfl

/-- a well-formed entry delivers exactly the records of what it still owns (buffer ++ rest on disk) -/
theorem drainEntry_eq {E cap : Nat} (hE : 0 < E) (hc : 0 < cap) (hcap : E ∣ cap) :
    ∀ (f : Nat) (e : ByteEntry), e.wf E → (e.buf ++ e.file).length / E ≤ f →
      drainEntry E cap f (some e) = some (recordsOf E (e.buf ++ e.file)) := by
  intro f
  induction f with
  | zero =>
    intro e hw hf
    obtain ⟨⟨a, ha⟩, _, hne⟩ := hw
    have ha0 : 0 < a := by
      rcases Nat.eq_zero_or_pos a with h | h
      · subst h; exact absurd (List.eq_nil_of_length_eq_zero (by omega)) hne
      · exact h
    have : E ≤ (e.buf ++ e.file).length := by
      rw [length_append, ha]; exact Nat.le_trans (Nat.le_mul_of_pos_right E ha0) (Nat.le_add_right _ _)
    have := (Nat.le_div_iff_mul_le hE).mpr (by rw [Nat.one_mul]; exact this)
    omega
  | succ f ih =>
    intro e hw hf
    obtain ⟨r, hr, _, hwf'⟩ := byteEntry_increment hE hc hcap e hw
    obtain ⟨⟨a, ha⟩, hfile, hne⟩ := hw
    have ha0 : 0 < a := by
      rcases Nat.eq_zero_or_pos a with h | h
      · subst h; exact absurd (List.eq_nil_of_length_eq_zero (by omega)) hne
      · exact h
    have hge : E ≤ e.buf.length := by rw [ha]; exact Nat.le_mul_of_pos_right E ha0
    have hge' : E ≤ (e.buf ++ e.file).length := by rw [length_append]; omega
    have hcons := recordsOf_cons hE (e.buf ++ e.file) hge'
    have htake : (e.buf ++ e.file).take E = e.buf.take E := take_append_of_le_length hge
    have hdrop : (e.buf ++ e.file).drop E = e.buf.drop E ++ e.file := drop_append_of_le_length hge
    have hcount : ((e.buf ++ e.file).drop E).length / E ≤ f := by
      have := Nat.div_eq_sub_div hE hge'
      rw [length_drop]; omega
    simp only [drainEntry]
    rw [hr]
    simp only
    rw [hcons, htake, hdrop]
    -- what the entry owns after the step is `drop E` of what it owned
    have key : drainEntry E cap f r = some (recordsOf E (e.buf.drop E ++ e.file)) := by
      unfold ByteEntry.increment at hr
      rw [if_neg (by omega)] at hr
      by_cases h1 : e.buf.length = E
      · rw [if_pos h1] at hr
        have hd : e.buf.drop E = [] := drop_eq_nil_of_le (by omega)
        rw [hd, nil_append]
        cases hfl : e.file with
        | nil =>
          rw [hfl] at hr
          simp only [ByteEntry.read, Except.ok.injEq] at hr
          subst hr
          simp [drainEntry, recordsOf, chunk]
        | cons x xs =>
          rw [hfl] at hr
          simp only [ByteEntry.read, Except.ok.injEq] at hr
          subst hr
          have hw' := hwf' _ rfl
          have := ih ⟨(x :: xs).take cap, (x :: xs).drop cap⟩ hw' (by
            simp only [take_append_drop]
            rw [hdrop, hd, nil_append, hfl] at hcount
            exact hcount)
          simpa only [take_append_drop] using this
      · rw [if_neg h1] at hr
        simp only [Except.ok.injEq] at hr
        subst hr
        have hw' := hwf' _ rfl
        exact ih ⟨e.buf.drop E, e.file⟩ hw' (by rw [hdrop] at hcount; exact hcount)
    rw [key]
    rfl

/-- **decodeRun_eq**: a queue entry whose buffer is any positive multiple of the entry size
delivers exactly the records of its byte slice. -/
theorem decodeRun_eq {E cap : Nat} (hE : 0 < E) (hc : 0 < cap) (hcap : E ∣ cap) (bytes : Buf)
    (hb : E ∣ bytes.length) : decodeRun E cap bytes = some (recordsOf E bytes) := by
  unfold decodeRun
  obtain ⟨_, hwf⟩ := byteEntry_read hE hc hcap bytes hb
  cases hrd : ByteEntry.read cap bytes with
  | none =>
    cases bytes with
    | nil => simp [drainEntry, recordsOf, chunk]
    | cons x xs => simp [ByteEntry.read] at hrd
  | some e =>
    have hw := hwf e hrd
    have hview : e.buf ++ e.file = bytes := by
      cases bytes with
      | nil => simp [ByteEntry.read] at hrd
      | cons x xs =>
        simp only [ByteEntry.read, Option.some.injEq] at hrd
        subst hrd
        exact take_append_drop _ _
    have := drainEntry_eq hE hc hcap (bytes.length / E + 1) e hw (by rw [hview]; omega)
    rw [this, hview]

theorem optAll_map_some {β γ : Type} (f : β → γ) : ∀ (l : List β), optAll (l.map (fun x => some (f x))) = some (l.map f)
  | [] => rfl
  | x :: xs => by simp [optAll, optAll_map_some f xs]

/-- every `per_buffer` the code computes is a positive multiple of the entry size -/
theorem perBuffer_valid {E B : Nat} (hE : 0 < E) (hB : 0 < B) (hdiv : E ∣ B) (M R : Nat) :
    0 < perBuffer E B M R ∧ E ∣ perBuffer E B M R := by
  have := (perBuffer_bounds hE hdiv M R).1
  refine ⟨by omega, ?_⟩
  unfold perBuffer
  simp only
  exact ⟨max B (M / R) / E, by have := Nat.div_add_mod (max B (M / R)) E; omega⟩

/-- **storeRunsBytes_eq**: the byte-level output file of a pass (stream blocks, WriteAndRecycle,
byte log, reads at byte offsets, decoding through queue entries) stores what the record-level model
stores, for runs of `E`-byte records logged with their true lengths. -/
theorem storeRunsBytes_eq {E cap B : Nat} (hE : 0 < E) (hc : 0 < cap) (hcap : E ∣ cap) (pad : Buf)
    (runs : List (List (List Nat))) (hu : ∀ r ∈ runs, Uniform E r) :
    storeRunsBytes E cap B pad (runs.map List.length) runs = storeRunsLogged (runs.map List.length) runs := by
  unfold storeRunsBytes
  simp only
  rw [stream_write_roundtrip_aux']
  have hlen : (runs.map List.length).map (· * E) = (runs.map bytesOf).map List.length := by
    rw [map_map, map_map]
    apply map_congr_left
    intro r hr
    simp only [Function.comp]
    exact (length_bytesOf (hu r hr)).symm
  rw [hlen, readRunsBytes_eq_storeRunsLogged]
  show (match storeRuns (runs.map bytesOf) with | none => none | some rs => optAll (rs.map (decodeRun E cap))) = storeRuns runs
  rw [storeRuns_eq, storeRuns_eq]
  simp only
  have hdec : (nonempties (runs.map bytesOf)).map (decodeRun E cap) =
      (nonempties (runs.map bytesOf)).map (fun b => some (recordsOf E b)) := by
    apply map_congr_left
    intro b hb
    obtain ⟨r, hr, rfl⟩ := mem_map.mp (mem_nonempties.mp hb).1
    exact decodeRun_eq hE hc hcap _ ⟨r.length, by rw [length_bytesOf (hu r hr), Nat.mul_comm]⟩
  rw [hdec, optAll_map_some]
  congr 1
  unfold nonempties
  rw [filter_map, map_map]
  have hf : filter ((fun r => !r.isEmpty) ∘ bytesOf) runs = filter (fun r => !r.isEmpty) runs := by
    apply filter_congr
    intro r hr
    cases r with
    | nil => rfl
    | cons x xs =>
      have hx := hu _ hr x (by simp)
      cases x with
      | nil => simp at hx; omega
      | cons y ys => simp [bytesOf]
  rw [hf]
  have : ∀ r ∈ filter (fun r => !r.isEmpty) runs, (recordsOf E ∘ bytesOf) r = r := by
    intro r hr
    exact recordsOf_bytesOf hE r (hu r (mem_filter.mp hr).1)
  rw [map_congr_left this, map_id']

end KV.Sort

namespace KV.Sort
open List

def UniformRuns (E : Nat) (runs : List (List (List Nat))) : Prop := ∀ r ∈ runs, Uniform E r

theorem UniformRuns.of_flatten_subset {E : Nat} {runs runs' : List (List (List Nat))}
    (h : UniformRuns E runs) (hs : ∀ x ∈ runs'.flatten, x ∈ runs.flatten) : UniformRuns E runs' := by
  intro r' hr' x hx
  obtain ⟨r, hr, hxr⟩ := mem_flatten.mp (hs x (mem_flatten.mpr ⟨r', hr', hx⟩))
  exact h r hr x hxr

theorem codePass_uniform {lt : List Nat → List Nat → Bool} (h : StrictWeak lt) (pick) (cfg : Cfg) (reading : Nat)
    {runs runs' : List (List (List Nat))} (hu : UniformRuns cfg.entrySize runs)
    (hp : codePass lt neverCombine pick cfg reading runs = .ok runs') : UniformRuns cfg.entrySize runs' := by
  by_cases h2 : 2 ≤ runs.length
  · obtain ⟨sizes, hs⟩ := codePass_refines lt neverCombine pick cfg reading runs runs' hp h2
    exact hu.of_flatten_subset (fun x hx => (pass_perm h pick sizes hs).subset hx)
  · match runs, h2 with
    | [], _ => simp only [codePass, Except.ok.injEq] at hp; subst hp; exact hu
    | [r], _ => simp only [codePass, Except.ok.injEq] at hp; subst hp; exact hu
    | _ :: _ :: _, h2 => simp at h2

theorem codePassBytes_eq {lt : List Nat → List Nat → Bool} (h : StrictWeak lt) (pick) {cfg : Cfg} (L : LegalCfg cfg)
    (pad : Buf) (reading : Nat) (runs : List (List (List Nat))) (hu : UniformRuns cfg.entrySize runs) :
    codePassBytes lt neverCombine pick cfg pad reading runs = codePass lt neverCombine pick cfg reading runs := by
  match runs with
  | [] => rfl
  | [r] => rfl
  | r1 :: r2 :: rs =>
    simp only [codePassBytes, codePass]
    cases hg : codeGroups cfg.entrySize cfg.bufferSize reading false (r1 :: r2 :: rs).length (r1 :: r2 :: rs) with
    | error e => rfl
    | ok gs =>
      simp only
      have hsplit := codeGroups_split _ _ _ _ _ _ _ hg
      have hw : gs.map (mergeWritten lt neverCombine pick) = (gs.map (mergeGroup lt neverCombine pick)).map List.length := by
        rw [map_map]
        exact map_congr_left (fun g _ => mergeWritten_eq lt neverCombine pick g)
      have hun : ∀ r ∈ gs.map (mergeGroup lt neverCombine pick), Uniform cfg.entrySize r := by
        intro r hr
        obtain ⟨g, hgm, rfl⟩ := mem_map.mp hr
        intro x hx
        have hx' := (mergeGroup_perm h pick g).subset hx
        obtain ⟨run, hrun, hxr⟩ := mem_flatten.mp hx'
        have : run ∈ (r1 :: r2 :: rs) := by
          rw [← hsplit] at hgm
          exact mem_of_mem_splitGroups hgm hrun
        exact hu run this x hxr
      rw [hw, storeRunsBytes_eq L.entryPos L.bufPos L.bufMult pad _ hun]
      cases storeRunsLogged (map length (map (mergeGroup lt neverCombine pick) gs))
        (map (mergeGroup lt neverCombine pick) gs) <;> rfl

theorem codeMergeLoopBytes_eq {lt : List Nat → List Nat → Bool} (h : StrictWeak lt) (pick) {cfg : Cfg} (L : LegalCfg cfg)
    (pad : Buf) (lazyMem : Nat) : ∀ (fuel : Nat) (runs : List (List (List Nat))) (n : Nat),
      UniformRuns cfg.entrySize runs →
      codeMergeLoopBytes lt neverCombine pick cfg pad lazyMem fuel runs n =
        codeMergeLoop lt neverCombine pick cfg lazyMem fuel runs n := by
  intro fuel
  induction fuel with
  | zero =>
    intro runs n _
    unfold codeMergeLoopBytes codeMergeLoop
    rfl
  | succ fuel ih =>
    intro runs n hu
    unfold codeMergeLoopBytes codeMergeLoop
    simp only
    split
    · rfl
    · rw [codePassBytes_eq h pick L pad _ runs hu]
      cases hp : codePass lt neverCombine pick cfg
          (if dataSize cfg runs < cfg.totalMemory - 2 * cfg.bufferSize then dataSize cfg runs
            else cfg.totalMemory - 2 * cfg.bufferSize) runs with
      | error e => rfl
      | ok runs' => exact ih runs' (n + 1) (codePass_uniform h pick cfg _ hu hp)

theorem codeMergeBytes_eq {lt : List Nat → List Nat → Bool} (h : StrictWeak lt) (pick) {cfg : Cfg} (L : LegalCfg cfg)
    (pad : Buf) (lazyMem : Nat) (runs : List (List (List Nat))) (hu : UniformRuns cfg.entrySize runs) :
    codeMergeBytes lt neverCombine pick cfg pad lazyMem runs = codeMerge lt neverCombine pick cfg lazyMem runs := by
  unfold codeMergeBytes codeMerge
  rw [codeMergeLoopBytes_eq h pick L pad lazyMem _ runs 0 hu]
  split
  · rfl
  · cases codeMergeLoop lt neverCombine pick cfg lazyMem runs.length runs 0 with
    | error e => rfl
    | ok p => obtain ⟨a, b⟩ := p; rfl

/-- the initial runs (block sorter + spill) consist of `E`-byte records -/
theorem afterBlockSorter_uniform {E : Nat} (lt : List Nat → List Nat → Bool) (blocks : List Block)
    {runs : List (List (List Nat))} (hr : afterBlockSorter lt (blocks.map (Block.records E)) = some runs) :
    UniformRuns E runs := by
  rw [afterBlockSorter_eq] at hr
  cases hr
  intro r hrm x hx
  obtain ⟨b, hb, rfl⟩ := mem_map.mp (mem_nonempties.mp hrm).1
  obtain ⟨blk, _, rfl⟩ := mem_map.mp hb
  exact recordsOf_uniform _ x ((blockSort_perm lt _).subset hx)

/-- the multi-pass byte-level pipeline is the pipeline whose passes work on records -/
theorem codeSortBytesPasses_eq {lt : List Nat → List Nat → Bool} (h : StrictWeak lt) (pick) {cfg : Cfg} (L : LegalCfg cfg)
    (pad : Buf) (lazyMem : Nat) (blocks : List Block) (hw : ∀ b ∈ blocks, b.wf cfg.entrySize) :
    codeSortBytesPasses lt neverCombine pick cfg pad lazyMem blocks =
      codeSortBytes cfg.entrySize lt neverCombine pick cfg lazyMem blocks := by
  unfold codeSortBytesPasses codeSortBytes
  cases hab : afterBlockSorterBytes cfg.entrySize lt blocks with
  | none => rfl
  | some runs =>
    simp only
    have hu : UniformRuns cfg.entrySize runs := by
      rw [afterBlockSorterBytes_eq L.entryPos lt blocks hw] at hab
      exact afterBlockSorter_uniform lt blocks hab
    rw [codeMergeBytes_eq h pick L pad lazyMem runs hu]

/-! ### HolePunch -/

theorem holePunch_length (file : Buf) (off len : Nat) : (holePunch file off len).length = file.length := by
  simp only [holePunch, length_append, length_take, length_replicate, length_drop]
  omega

/-- punching a hole changes no byte outside `[off, off + len)` -/
theorem holePunch_outside (file : Buf) (off len p : Nat) (hp : p < off ∨ off + len ≤ p) :
    (holePunch file off len)[p]? = file[p]? := by
  unfold holePunch
  rcases hp with hp | hp
  · rcases Nat.lt_or_ge p file.length with hl | hl
    · rw [append_assoc, getElem?_append_left (by simp only [length_take]; omega), getElem?_take_of_lt hp]
    · rw [getElem?_eq_none hl, getElem?_eq_none]
      simp only [length_append, length_take, length_replicate, length_drop]; omega
  · rcases Nat.lt_or_ge p file.length with hl | hl
    · rw [getElem?_append_right (by simp only [length_append, length_take, length_replicate]; omega)]
      simp only [length_append, length_take, length_replicate, getElem?_drop]
      congr 1; omega
    · rw [getElem?_eq_none hl, getElem?_eq_none]
      simp only [length_append, length_take, length_replicate, length_drop]; omega

end KV.Sort
