import Proofs.ScoreMain
import Proofs.ScoreForgot
import Proofs.TableBuild
/-! Structural theorems on suffix-closed models: matched length, left-independence flag, canonical state. -/
namespace KV.Score
open KV.Arpa KV.Table KV.State

/-- the model contains the suffix (drop the oldest word = last of the reversed list) of each of its n-grams -/
def SuffixClosed (a : Arpa) : Prop := ∀ g, a.gram g ≠ none → 2 ≤ g.length → a.gram g.dropLast ≠ none

theorem closed_prefix_real {a : Arpa} (sc : SuffixClosed a) :
    ∀ (ys g : List Word), g ≠ [] → a.gram (g ++ ys) ≠ none → a.gram g ≠ none := by
  intro ys
  induction ys with
  | nil => intro g _ h; simpa using h
  | cons y ys ih =>
    intro g hg h
    have h1 : a.gram ((g ++ [y]) ++ ys) ≠ none := by simpa using h
    have h2 := ih (g ++ [y]) (by simp) h1
    have := sc (g ++ [y]) h2 (by cases g with
      | nil => exact absurd rfl hg
      | cons x xs => simp)
    rw [List.dropLast_concat] at this
    exact this

/-- on a suffix-closed model the table has no blanks: found ⇔ n-gram of the model -/
theorem closed_lookup_real {a : Arpa} (sc : SuffixClosed a) (um : List Word → Bool) (g : List Word)
    (h : (build a um).lookup g ≠ none) : a.gram g ≠ none := by
  rw [build_lookup_ne_none] at h
  rcases h.2 with hr | hx
  · exact hr
  · obtain ⟨p, hp, _, ⟨ys, hys⟩⟩ := (extendsLeft_iff _ _).mp hx
    rw [← hys] at hp
    exact closed_prefix_real sc ys g h.1 hp

/-- what `FullScore` computes, exposed: the loop post-condition plus "no n-gram of the model matches more
context words of the true history than were matched" -/
theorem fullScore_char {a : Arpa} {T : Table} (wf : WellFormed a) (tf : TableFor a T) {h : List Word} {s : State}
    (sf : StateFor a h s) {w : Word} (hw : a.gram [w] ≠ none) :
    ∃ c0 acc, AccPost T (s.words.take s.length) w acc c0 ∧
      fullScore (tableSearch T) s w =
        ({ acc.ret with prob := acc.ret.prob + ((s.backoff.take s.length).drop (acc.ret.ngramLength - 1)).sum },
         { length := acc.nextUse, words := w :: (s.words.take s.length).take (acc.nextUse - 1), backoff := acc.backoffOut }) ∧
      c0 ≤ s.length ∧ (∀ c, c ≤ s.length → (s.words.take s.length).take c = h.take c) ∧
      (∀ c, c0 < c → c ≤ h.length → a.gram (w :: h.take c) = none) := by
  obtain ⟨e, he⟩ := Option.ne_none_iff_exists'.mp hw
  obtain ⟨u, hu, _, _⟩ := tf.real [w] e he
  have ok : TableOK T := tf.toTableOK
  have hlen : (s.words.take s.length).length = s.length := by
    rw [sf.words, List.length_take]; have := sf.len_le_h; omega
  obtain ⟨c0, post⟩ := sxb_post ok (s.words.take s.length) w u hu
  have hsxb := scoreExceptBackoff_table (s.words.take s.length) w u hu
  generalize hacc : resumeScore (tableSearch T) (s.words.take s.length) 0 [w] _ = acc at post hsxb
  have hc0s : c0 ≤ s.length := by have := post.c0_le; omega
  have F1 : ∀ c, c ≤ s.length → (s.words.take s.length).take c = h.take c := by
    intro c hc; rw [sf.words, List.take_take, Nat.min_eq_left hc]
  refine ⟨c0, acc, post, by simp [fullScore, hsxb], hc0s, F1, ?_⟩
  intro c hc1 hc2
  apply Classical.byContradiction; intro hreal
  obtain ⟨e', he'⟩ := Option.ne_none_iff_exists'.mp hreal
  by_cases hcs : c ≤ s.length
  · by_cases hcN : c0 = T.order - 1
    · have := wf.len_le _ hreal
      simp [List.length_take] at this
      rw [tf.order_eq] at hcN; omega
    · have hstop := post.stop (by rw [hlen]; omega) (by have := post.c0_lt; omega)
      have := lookup_none_take ok w _ (c0+1) c (by omega) hstop
      rw [F1 c hcs] at this
      obtain ⟨t', ht', _⟩ := tf.real _ e' he'
      rw [this] at ht'; cases ht'
  · have hne : h.take c ≠ [] := by
      intro hnil; have := congrArg List.length hnil; simp only [List.length_take, List.length_nil] at this; omega
    have hctx := wf.ctx_present w (h.take c) hne hreal
    obtain ⟨ec, hec⟩ := Option.ne_none_iff_exists'.mp hctx
    exact sf.dead c (by omega) hc2 ⟨ec, hec, Or.inr ⟨w, hreal⟩⟩

/-- `longestMatchAt` from the maximal matching context length -/
theorem longestMatchAt_of_max (a : Arpa) (h : List Word) (w : Word) (c0 : Nat)
    (hreal : c0 = 0 ∨ a.gram (w :: h.take c0) ≠ none) :
    ∀ d, (∀ c, c0 < c → c ≤ c0 + d → a.gram (w :: h.take c) = none) → longestMatchAt a h w (c0 + d) = c0 + 1 := by
  intro d
  induction d with
  | zero =>
    intro _
    cases c0 with
    | zero => rfl
    | succ c =>
      rcases hreal with h0 | hr
      · omega
      · simp only [Nat.add_zero, longestMatchAt, Arpa.isReal]
        have hs : (a.gram (w :: h.take (c + 1))).isSome = true := Option.isSome_iff_ne_none.mpr hr
        simp [hs]
  | succ d ih =>
    intro hn
    have h1 := hn (c0 + d + 1) (by omega) (by omega)
    have : c0 + (d + 1) = (c0 + d) + 1 := by omega
    rw [this]; simp only [longestMatchAt, Arpa.isReal, h1, Option.isSome_none, Bool.false_eq_true, if_false]
    exact ih (fun c hc1 hc2 => hn c hc1 (by omega))

/-- **length_longest**: on a suffix-closed model the reported `ngram_length` is the length of the longest n-gram
of the model that is a suffix of history + word. -/
theorem length_longest_aux {a : Arpa} (wf : WellFormed a) (sc : SuffixClosed a) (um : List Word → Bool)
    {h : List Word} {s : State} (sf : StateFor a h s) {w : Word} (hw : a.gram [w] ≠ none) :
    (fullScore (tableSearch (build a um)) s w).1.ngramLength = longestMatch a h w := by
  have tf := build_tableFor a wf um
  obtain ⟨c0, acc, post, hfs, hc0s, F1, F3⟩ := fullScore_char wf tf sf hw
  rw [hfs]
  show acc.ret.ngramLength = longestMatch a h w
  rw [post.len]
  obtain ⟨t, ht, _⟩ := post.found
  rw [F1 c0 hc0s] at ht
  have hreal : a.gram (w :: h.take c0) ≠ none := closed_lookup_real sc um _ (by rw [ht]; simp)
  unfold longestMatch
  have hc0N : c0 ≤ a.order - 1 := post.c0_lt
  have hsh := sf.len_le_h
  have hn : min h.length (a.order - 1) = c0 + (min h.length (a.order - 1) - c0) := by omega
  rw [hn]
  exact (longestMatchAt_of_max a h w c0 (Or.inr hreal) _ (fun c h1 h2 => F3 c h1 (by omega))).symm

end KV.Score

namespace KV.Score
open KV.Arpa KV.Table KV.State

theorem hasLeftExtension_iff (a : Arpa) (g : List Word) :
    a.hasLeftExtension g = true ↔ ∃ p, a.gram p ≠ none ∧ p.length = g.length + 1 ∧ g <+: p := by
  unfold Arpa.hasLeftExtension
  rw [List.any_eq_true]
  constructor
  · rintro ⟨⟨k, e⟩, hmem, h⟩
    simp only [Bool.and_eq_true, beq_iff_eq, List.isPrefixOf_iff_prefix] at h
    exact ⟨k, mem_lookup_ne_none _ _ _ hmem, h.1, h.2⟩
  · rintro ⟨p, hp, hl, hpre⟩
    obtain ⟨e, he⟩ := Option.ne_none_iff_exists'.mp hp
    exact ⟨(p, e), lookup_some_mem _ _ _ he, by simp [hl, List.isPrefixOf_iff_prefix, hpre]⟩

theorem closed_extendsLeft_eq {a : Arpa} (sc : SuffixClosed a) (g : List Word) (hg : g ≠ []) :
    extendsLeft a g = a.hasLeftExtension g := by
  apply Bool.eq_iff_iff.mpr
  rw [extendsLeft_iff, hasLeftExtension_iff]
  constructor
  · rintro ⟨p, hp, hl, ⟨ys, hys⟩⟩
    cases ys with
    | nil => simp at hys; subst hys; omega
    | cons y ys =>
      have h1 : a.gram ((g ++ [y]) ++ ys) ≠ none := by rw [← hys] at hp; simpa using hp
      exact ⟨g ++ [y], closed_prefix_real sc ys (g ++ [y]) (by simp) h1, by simp, List.prefix_append _ _⟩
  · rintro ⟨p, hp, hl, hpre⟩
    exact ⟨p, hp, by omega, hpre⟩

/-- **indep_left**: on a suffix-closed model the left-independence flag returned for a supplied context equals its
L0 specification: it is clear exactly when the whole supplied context was matched, the match is shorter than the
order, and some n-gram of the model extends the match by one more word to the left. -/
theorem indep_left_aux {a : Arpa} (wf : WellFormed a) (sc : SuffixClosed a) (um : List Word → Bool)
    (s : State) (hs : s.length ≤ a.order - 1) {w : Word} (hw : a.gram [w] ≠ none) :
    (fullScore (tableSearch (build a um)) s w).1.independentLeft = independentLeftSpec a (s.words.take s.length) w := by
  have tf := build_tableFor a wf um
  obtain ⟨e, he⟩ := Option.ne_none_iff_exists'.mp hw
  obtain ⟨u, hu, _, _⟩ := tf.real [w] e he
  have ok : TableOK (build a um) := tf.toTableOK
  have hN := wf.order_ge
  obtain ⟨c0, post⟩ := sxb_post ok (s.words.take s.length) w u hu
  have hsxb := scoreExceptBackoff_table (T := build a um) (s.words.take s.length) w u hu
  generalize hacc : resumeScore (tableSearch (build a um)) (s.words.take s.length) 0 [w] _ = acc at post hsxb
  have hfs : (fullScore (tableSearch (build a um)) s w).1.independentLeft = acc.ret.independentLeft := by
    simp [fullScore, hsxb]
  rw [hfs, post.indep]
  generalize hctx : s.words.take s.length = ctx at *
  have hcl : ctx.length ≤ a.order - 1 := by rw [← hctx, List.length_take]; omega
  have hc0 := post.c0_le
  have hc0N : c0 ≤ a.order - 1 := post.c0_lt
  obtain ⟨t, ht, _⟩ := post.found
  have hreal : a.gram (w :: ctx.take c0) ≠ none := closed_lookup_real sc um _ (by rw [ht]; simp)
  have F3 : ∀ c, c0 < c → c ≤ ctx.length → a.gram (w :: ctx.take c) = none := by
    intro c h1 h2
    have hstop := post.stop (by omega) (by show c0 < a.order - 1; omega)
    have := lookup_none_take ok w ctx (c0+1) c (by omega) hstop
    cases hg : a.gram (w :: ctx.take c) with
    | none => rfl
    | some e' => obtain ⟨t', ht', _⟩ := tf.real _ e' hg; rw [this] at ht'; cases ht'
  have htake : ctx.take (a.order - 1) = ctx := List.take_of_length_le hcl
  have hlm : longestMatch a ctx w = c0 + 1 := by
    unfold longestMatch
    rw [Nat.min_eq_left hcl]
    have : ctx.length = c0 + (ctx.length - c0) := by omega
    rw [this]
    exact longestMatchAt_of_max a ctx w c0 (Or.inr hreal) _ (fun c h1 h2 => F3 c h1 (by omega))
  unfold independentLeftSpec
  simp only [htake, hlm]
  have hord : (build a um).order = a.order := rfl
  rw [hord]
  by_cases hlt : c0 < ctx.length
  · have e1 : (c0 + 1 == ctx.length + 1) = false := by
      have : ¬ (c0 + 1 = ctx.length + 1) := by omega
      simpa using this
    have e2 : decide (c0 < ctx.length) = true := by simpa using hlt
    rw [e1, e2]; simp
  · have heq : c0 = ctx.length := by omega
    have htk : ctx.take c0 = ctx := by rw [heq]; exact List.take_length
    have e1 : (c0 + 1 == ctx.length + 1) = true := by simp [heq]
    have e2 : decide (c0 < ctx.length) = false := by simpa using hlt
    rw [e1, e2, htk]
    by_cases hN1 : c0 = a.order - 1
    · have e3 : decide (c0 + 1 < a.order) = false := by
        have : ¬ (c0 + 1 < a.order) := by omega
        simpa using this
      have e4 : decide (c0 = a.order - 1) = true := by simpa using hN1
      rw [e3, e4]; simp
    · have e3 : decide (c0 + 1 < a.order) = true := by
        have : c0 + 1 < a.order := by omega
        simpa using this
      have e4 : decide (c0 = a.order - 1) = false := by simpa using hN1
      have hxl : (build a um).xl (w :: ctx) = a.hasLeftExtension (w :: ctx) := by
        rw [htk] at ht hreal
        obtain ⟨e', he'⟩ := Option.ne_none_iff_exists'.mp hreal
        unfold Table.xl
        rw [ht]
        simp only [build, he'] at ht
        injection ht with ht
        subst ht
        exact closed_extendsLeft_eq sc (w :: ctx) (by simp)
      rw [e3, e4, hxl]; simp

end KV.Score
