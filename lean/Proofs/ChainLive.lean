import Proofs.ChainRing
/-! Deadlock freedom, termination measure and final content of the Chain ring. Core Lean only. -/
namespace KV.Chain

variable [StageFn] {b m : Nat} {data : List Nat} {c : Chain}

theorem sumTo_zero (k : Nat) : sumTo (fun _ => 0) k = 0 := by
  induction k with
  | zero => rfl
  | succ k ih => simp [sumTo, ih]

theorem pend_nil_of_not_producing {s : Stage} (h : ¬ producing s) : pend s = [] := by
  unfold producing at h
  unfold pend
  cases hpc : s.pc <;> simp [hpc] at h ⊢

theorem pc_cases (s : Stage) : s.pc = .start ∨ consuming s ∨ producing s ∨ s.pc = .finished := by
  unfold consuming producing
  cases s.pc <;> simp

/-- no `Produce` of a stage ever blocks: there are only `b` blocks (conservation) -/
theorem RInv.produce_room (h : RInv b m data c) {i : Nat} (hi : i ≤ m) (hp : producing (c.st i)) :
    (c.q (c.outQ i)).length < c.b := by
  have hcons := h.conservation
  have hpl : (pend (c.st i)).length = 1 := (afterProduce_ok (h.sok i hi) hp).2.2.2.2.1
  have h1 := le_sumTo (fun i => (pend (c.st i)).length) (i := i) (k := m + 1) (by omega)
  have hoq : c.outQ i ≤ m := by unfold Chain.outQ; rw [h.hm]; by_cases e : i = m <;> simp [e]; omega
  have h2 := le_sumTo (fun j => (c.q j).length) (i := c.outQ i) (k := m + 1) (by omega)
  rw [h.hb]; omega

theorem stageStep_start_enabled {i : Nat} (hs : (c.st i).pc = .start) (hns : ∀ k, c.main ≠ .fill k) :
    c.stageStep i ≠ none := by
  unfold Chain.stageStep
  simp only [hs]
  cases hmn : c.main with
  | fill k => exact absurd hmn (hns k)
  | _ => simp

theorem stageStep_consume_enabled {i : Nat} (hc : consuming (c.st i)) (hq : c.q i ≠ []) :
    c.stageStep i ≠ none := by
  unfold Chain.stageStep
  cases hqq : c.q i with
  | nil => exact absurd hqq hq
  | cons x rest =>
    rcases hc with e | e <;> simp [e, fifoPop, hqq]

theorem stageStep_produce_enabled {i : Nat} (hp : producing (c.st i)) (hroom : (c.q (c.outQ i)).length < c.b) :
    c.stageStep i ≠ none := by
  unfold Chain.stageStep
  rcases hp with e | e | e | e <;> simp [e, fifoPush, hroom]

theorem least_unfinished {P : Nat → Prop} {n : Nat} (h : ∃ i, i ≤ n ∧ P i) :
    ∃ i, i ≤ n ∧ P i ∧ ∀ j, j < i → ¬ P j := by
  obtain ⟨i, hi, hp⟩ := h
  induction i using Nat.strongRecOn with
  | _ i ih =>
    by_cases hex : ∃ j, j < i ∧ P j
    · obtain ⟨j, hj, hpj⟩ := hex
      exact ih j hj (by omega) hpj
    · exact ⟨i, hi, hp, fun j hj hpj => hex ⟨j, hj, hpj⟩⟩

/-- **ring deadlock freedom**: unless the user thread and all stages have finished, some thread can step -/
theorem chain_no_deadlock_inv (h : RInv b m data c)
    (hnd : c.main ≠ .finished ∨ ∃ i, i ≤ m ∧ (c.st i).pc ≠ .finished) : ∃ tid, c.step tid ≠ none := by
  have stage_tid : ∀ i, i ≤ m → c.stageStep i ≠ none → ∃ tid, c.step tid ≠ none := by
    intro i hi hne
    refine ⟨i + 1, ?_⟩
    unfold Chain.step
    simp only
    rw [if_pos (h.hm ▸ hi)]; exact hne
  have hmain := h.mainok
  -- A. a stage not yet started
  by_cases hA : ∃ i, i ≤ m ∧ (c.st i).pc = .start
  · obtain ⟨i, hi, hs⟩ := hA
    by_cases hf : ∃ k, c.main = .fill k
    · obtain ⟨k, hk⟩ := hf
      refine ⟨0, ?_⟩
      unfold Chain.step Chain.mainStep
      cases k with
      | zero => simp [hk]
      | succ k =>
        have hcons := h.conservation
        have hfr : fillRem c = k + 1 := by unfold fillRem; rw [hk]
        have h2 := le_sumTo (fun j => (c.q j).length) (i := 0) (k := m + 1) (by omega)
        have : (c.q 0).length < c.b := by rw [h.hb]; omega
        simp [hk, fifoPush, this]
    · exact stage_tid i hi (stageStep_start_enabled hs (fun k e => hf ⟨k, e⟩))
  have hns : ∀ k, c.main ≠ .fill k := by
    intro k e
    unfold MainOK at hmain; rw [e] at hmain
    exact hA ⟨0, by omega, hmain.2.1 0 (by omega)⟩
  -- B. a stage about to produce
  by_cases hB : ∃ i, i ≤ m ∧ producing (c.st i)
  · obtain ⟨i, hi, hp⟩ := hB
    exact stage_tid i hi (stageStep_produce_enabled hp (h.produce_room hi hp))
  -- C. a stage about to consume from a non-empty queue
  by_cases hC : ∃ i, i ≤ m ∧ consuming (c.st i) ∧ c.q i ≠ []
  · obtain ⟨i, hi, hc, hq⟩ := hC
    exact stage_tid i hi (stageStep_consume_enabled hc hq)
  have hrest : ∀ i, i ≤ m → (c.st i).pc = .finished ∨ (consuming (c.st i) ∧ c.q i = []) := by
    intro i hi
    rcases pc_cases (c.st i) with e | e | e | e
    · exact absurd ⟨i, hi, e⟩ hA
    · exact Or.inr ⟨e, Classical.byContradiction fun hq => hC ⟨i, hi, e, hq⟩⟩
    · exact absurd ⟨i, hi, e⟩ hB
    · exact Or.inl e
  by_cases hD : ∃ i, i ≤ m ∧ (c.st i).pc ≠ .finished
  · -- the least unfinished stage waits on an empty queue: impossible
    exfalso
    obtain ⟨i, hi, hnf, hleast⟩ := least_unfinished hD
    have hci : consuming (c.st i) ∧ c.q i = [] := (hrest i hi).resolve_left hnf
    have ok := h.sok i hi
    have hnop : Item.poison ∉ (c.st i).inp := by
      apply ok.nop <;> rcases hci.1 with e | e <;> simp [e]
    by_cases hi0 : i = 0
    · subst hi0
      -- all blocks are in the queues, none at the source: some later stage holds one
      obtain ⟨hdr, _, _, _, _⟩ := h.unfinished hi hnf
      have hcons := h.conservation
      have hfr : fillRem c = 0 := by
        unfold fillRem; cases hmn : c.main <;> simp
        exact absurd hmn (hns _)
      have hpz : sumTo (fun i => (pend (c.st i)).length) (m + 1) = 0 := by
        have : sumTo (fun i => (pend (c.st i)).length) (m + 1) = sumTo (fun _ => 0) (m + 1) := by
          apply sumTo_congr
          intro j hj
          have : pend (c.st j) = [] :=
            pend_nil_of_not_producing (fun hp => hB ⟨j, by omega, hp⟩)
          simp [this]
        rw [this]; exact sumTo_zero _
      have hb := h.bpos
      rw [hdr] at hcons
      simp only [List.length_nil] at hcons
      obtain ⟨j, hj, hpos⟩ := exists_pos_of_sumTo_pos (f := fun j => (c.q j).length) (k := m + 1) (by omega)
      have hqj : c.q j ≠ [] := by intro e; simp [e] at hpos
      rcases hrest j (by omega) with hf | ⟨_, hqe⟩
      · exact hnf (h.fin_le (by omega) hf 0 (by omega))
      · exact hqj hqe
    · obtain ⟨j, rfl⟩ : ∃ j, i = j + 1 := ⟨i - 1, by omega⟩
      have hfj : (c.st j).pc = .finished := Classical.byContradiction fun e => hleast j (by omega) e
      have hp := (h.sok j (by omega)).fin.mp hfj
      rw [h.q j (by omega), hci.2, List.append_nil] at hp
      exact hnop hp
  · -- all stages finished: the user thread joins them and drains queue 0 up to the poison
    have hall : ∀ i, i ≤ m → (c.st i).pc = .finished := fun i hi =>
      Classical.byContradiction fun e => hD ⟨i, hi, e⟩
    refine ⟨0, ?_⟩
    unfold Chain.step Chain.mainStep
    unfold MainOK at hmain
    cases hmn : c.main with
    | fill k => exact absurd hmn (hns k)
    | join i =>
      rw [hmn] at hmain
      have := hall (i - 1) (by omega)
      simp [this]
    | drain k =>
      rw [hmn] at hmain
      have hq0 := h.q0
      have hp : Item.poison ∈ (c.st m).out := (h.sok m (Nat.le_refl _)).fin.mp (hall m (Nat.le_refl _))
      have hmem : Item.poison ∈ (c.st 0).inp ++ c.drained ++ c.q 0 := by
        rw [← hq0]; exact List.mem_append_right _ hp
      have hsrc := (h.sok 0 (by omega)).src rfl
      have hq : c.q 0 ≠ [] := by
        intro e
        rw [e, List.append_nil] at hmem
        rcases List.mem_append.mp hmem with h1 | h1
        · exact hsrc h1
        · exact hmain.2.2 h1
      cases hqq : c.q 0 with
      | nil => exact absurd hqq hq
      | cons x rest => cases x <;> simp [fifoPop]
    | aborted => rw [hmn] at hmain; exact hmain.elim
    | finished =>
      rcases hnd with h1 | ⟨i, hi, h2⟩
      · exact absurd hmn h1
      · exact absurd (hall i hi) h2

/-! ### termination -/

theorem RInv.consume_len (h : RInv b m data c) {i : Nat} (hi : i ≤ m) (hc : consuming (c.st i))
    {x : Item} {rest : List Item} (hq : c.q i = x :: rest) : (c.st i).inp.length < data.length + 1 := by
  have ok := h.sok i hi
  have hnf : (c.st i).pc ≠ .finished := by rcases hc with e | e <;> simp [e]
  have hpend : pend (c.st i) = [] := by rcases hc with e | e <;> simp [pend, e]
  have hnfout : Item.poison ∉ (c.st i).out := fun hp => hnf (ok.fin.mpr hp)
  by_cases hi0 : i = 0
  · subst hi0
    apply Classical.byContradiction
    intro hge
    have hr := ok.r
    rw [hpend, List.append_nil] at hr
    have := outFrom_src_poison (m := m) (data := data) (l := (c.st 0).inp) (by omega)
    rw [← hr] at this
    exact hnfout this
  · obtain ⟨j, rfl⟩ : ∃ j, i = j + 1 := ⟨i - 1, by omega⟩
    have hqj := congrArg List.length (h.q j (by omega))
    rw [hq, List.length_append, List.length_cons] at hqj
    have okj := h.sok j (by omega)
    have hrj := congrArg List.length okj.r
    rw [List.length_append, outFrom_length] at hrj
    have := okj.len
    omega

theorem RInv.consume_src (h : RInv b m data c) {i : Nat} (hi : i ≤ m) (hc : consuming (c.st i))
    {x : Item} {rest : List Item} (hq : c.q i = x :: rest) : i = 0 → x ≠ .poison := by
  have hnf : (c.st i).pc ≠ .finished := by rcases hc with e | e <;> simp [e]
  intro hi0 hx
  subst hi0; subst hx
  have hq0 := h.q0
  have : Item.poison ∈ (c.st 0).inp ++ c.drained ++ c.q 0 := by
    rw [hq]; simp
  rw [← hq0] at this
  rcases List.mem_append.mp this with hp | hp
  · simp at hp
  · have hfm := (h.sok m (Nat.le_refl _)).fin.mpr hp
    exact hnf (h.fin_le (Nat.le_refl _) hfm 0 (by omega))

def rank (n : Nat) (s : Stage) : Nat :=
  2 * (n + 1 - s.inp.length) + (pend s).length + (if s.pc = .start then 1 else 0)

def mainRank (b m : Nat) : MPC → Nat
  | .fill k => k + (m + 2) + (b + 1)
  | .join i => (m + 2 - i) + (b + 1)
  | .drain k => b + 1 - k
  | _ => 0

/-- the number of steps still to come is bounded by this measure -/
def chainMeasure (b m : Nat) (data : List Nat) (c : Chain) : Nat :=
  mainRank b m c.main + sumTo (fun i => rank data.length (c.st i)) (m + 1)

theorem stageStep_char (hm : c.m = m) (hd : c.data = data) (htr : c.tr = StageFn.tr) {i : Nat} {c' : Chain}
    (hs : c.stageStep i = some c') :
    ∃ q' s', c' = { c with q := q', st := upd c.st i s' } ∧
      (((c.st i).pc = .start ∧ s' = { c.st i with pc := .init })
       ∨ (consuming (c.st i) ∧ ∃ x rest, c.q i = x :: rest ∧ s' = afterConsume m data i (c.st i) x)
       ∨ (producing (c.st i) ∧ s' = afterProduce (c.st i))) := by
  unfold Chain.stageStep at hs
  simp only at hs
  cases hpc : (c.st i).pc with
  | start =>
    simp only [hpc] at hs
    cases hmn : c.main <;> simp only [hmn] at hs <;> first
      | (cases hs; exact ⟨c.q, _, rfl, Or.inl ⟨rfl, rfl⟩⟩)
      | cases hs
  | init =>
    simp only [hpc] at hs
    cases hq : fifoPop (c.q i) with
    | none => simp [hq] at hs
    | some pr =>
      obtain ⟨x, rest⟩ := pr
      simp only [hq] at hs; cases hs
      have e := loopTest_eq_init (c := c) (i := i) hm hd htr hpc x
      simp only [hpc] at e
      rw [e]
      exact ⟨_, _, rfl, Or.inr (Or.inl ⟨Or.inl hpc, x, rest, fifoPop_some hq, rfl⟩)⟩
  | incConsume =>
    simp only [hpc] at hs
    cases hq : fifoPop (c.q i) with
    | none => simp [hq] at hs
    | some pr =>
      obtain ⟨x, rest⟩ := pr
      simp only [hq] at hs; cases hs
      refine ⟨_, _, rfl, Or.inr (Or.inl ⟨Or.inr hpc, x, rest, fifoPop_some hq, ?_⟩)⟩
      cases x with
      | poison => simp [afterConsume, hpc]
      | val v =>
        have e := loopTest_eq_inc (c := c) (i := i) hm hd htr hpc v
        simp only [hpc] at e
        simp only []
        rw [e]
  | incProduce =>
    simp only [hpc] at hs
    cases hq : fifoPush c.b (c.q (c.outQ i)) (c.st i).cur with
    | none => simp [hq] at hs
    | some buf =>
      simp only [hq] at hs; cases hs
      exact ⟨_, _, rfl, Or.inr (Or.inr ⟨Or.inl hpc, by simp [afterProduce, hpc]⟩)⟩
  | incPoison =>
    simp only [hpc] at hs
    cases hq : fifoPush c.b (c.q (c.outQ i)) (c.st i).cur with
    | none => simp [hq] at hs
    | some buf =>
      simp only [hq] at hs; cases hs
      exact ⟨_, _, rfl, Or.inr (Or.inr ⟨Or.inr (Or.inl hpc), by simp [afterProduce, hpc]⟩)⟩
  | poisonCall =>
    simp only [hpc] at hs
    cases hq : fifoPush c.b (c.q (c.outQ i)) Item.poison with
    | none => simp [hq] at hs
    | some buf =>
      simp only [hq] at hs; cases hs
      exact ⟨_, _, rfl, Or.inr (Or.inr ⟨Or.inr (Or.inr (Or.inl hpc)), by simp [afterProduce, hpc]⟩)⟩
  | dtor =>
    simp only [hpc] at hs
    cases hq : fifoPush c.b (c.q (c.outQ i)) (c.st i).cur with
    | none => simp [hq] at hs
    | some buf =>
      simp only [hq] at hs; cases hs
      exact ⟨_, _, rfl, Or.inr (Or.inr ⟨Or.inr (Or.inr (Or.inr hpc)), by simp [afterProduce, hpc]⟩)⟩
  | finished => simp [hpc] at hs

/-- **termination**: every step of every thread strictly decreases `chainMeasure` -/
theorem chain_measure_step (h : RInv b m data c) {tid : Nat} {c' : Chain} (hs : c.step tid = some c') :
    chainMeasure b m data c' < chainMeasure b m data c := by
  unfold Chain.step at hs
  cases tid with
  | succ i =>
    simp only at hs
    by_cases hi' : i ≤ c.m
    · rw [if_pos hi'] at hs
      have hi : i ≤ m := h.hm ▸ hi'
      obtain ⟨q', s', rfl, hcase⟩ := stageStep_char h.hm h.hd h.htr hs
      have hsum := sumTo_upd (fun j => rank data.length (c.st j)) (i := i) (k := m + 1)
        (rank data.length s') (by omega)
      have hfun : (fun j => rank data.length (upd c.st i s' j))
          = upd (fun j => rank data.length (c.st j)) i (rank data.length s') := by
        funext j; by_cases e : j = i <;> simp [upd, e]
      have hlt : rank data.length s' < rank data.length (c.st i) := by
        have ok := h.sok i hi
        rcases hcase with ⟨hst, rfl⟩ | ⟨hc, x, rest, hq, rfl⟩ | ⟨hp, rfl⟩
        · simp [rank, pend, hst]
        · obtain ⟨_, hinp, _, hpl, hns, _⟩ :=
            afterConsume_ok ok hc x (h.consume_len hi hc hq) (h.consume_src hi hc hq)
          have hl := h.consume_len hi hc hq
          have hpe : pend (c.st i) = [] := by rcases hc with e | e <;> simp [pend, e]
          have hnst : (c.st i).pc ≠ .start := by rcases hc with e | e <;> simp [e]
          simp only [rank, hinp, hpl, hpe, hns, hnst, if_false, List.length_append, List.length_singleton,
            List.length_nil]
          omega
        · obtain ⟨_, hinp, _, hpn, hpl, hns⟩ := afterProduce_ok ok hp
          have hnst : (c.st i).pc ≠ .start := by rcases hp with e | e | e | e <;> simp [e]
          simp only [rank, hinp, hpn, hpl, hns, hnst, if_false, List.length_nil]
          omega
      unfold chainMeasure
      show mainRank b m c.main + sumTo (fun j => rank data.length (upd c.st i s' j)) (m + 1) < _
      rw [hfun]; omega
    · rw [if_neg hi'] at hs; cases hs
  | zero =>
    unfold Chain.mainStep at hs
    unfold chainMeasure
    have hmain := h.mainok
    unfold MainOK at hmain
    cases hmn : c.main with
    | fill k =>
      cases k with
      | zero => simp only [hmn] at hs; cases hs; simp [mainRank]
      | succ k =>
        simp only [hmn] at hs
        cases hq : fifoPush c.b (c.q 0) (Item.val 0) with
        | none => simp [hq] at hs
        | some buf =>
          simp only [hq] at hs; cases hs
          by_cases e : k = 0 <;> simp [mainRank, e] <;> omega
    | join i =>
      rw [hmn] at hmain
      simp only [hmn] at hs
      cases hpc : (c.st (i - 1)).pc <;> simp only [hpc] at hs <;> try cases hs
      have hcm := h.hm
      simp only at hmain
      by_cases e : i = c.m + 1
      · simp [mainRank, e]; omega
      · simp [mainRank, e]; omega
    | drain k =>
      simp only [hmn] at hs
      cases hq : fifoPop (c.q 0) with
      | none => simp [hq] at hs
      | some pr =>
        obtain ⟨x, rest⟩ := pr
        obtain ⟨hkb, _⟩ := h.main_drain hmn (fifoPop_some hq)
        cases x with
        | poison => simp only [hq] at hs; cases hs; simp [mainRank]; omega
        | val v =>
          simp only [hq] at hs; cases hs
          have : k ≠ c.b := by rw [h.hb]; omega
          simp [mainRank, this]; omega
    | aborted => simp [hmn] at hs
    | finished => simp [hmn] at hs

/-! ### content -/

/-- what a pass-through stage (or the recycler) does to an item, independent of its position -/
def passOf (m i : Nat) : Item → Item
  | .val v => .val (if i = m then v else xform (i + 1) v)
  | .poison => .poison

/-- with the default stage functions (`xform`) a pass-through stage is a `map` -/
theorem outFrom_eq_map {i : Nat} (hi : i ≠ 0) (hdef : ∀ i hist v, StageFn.tr i hist v = xform (i + 1) v)
    (pre l : List Item) : outFrom m data i pre l = l.map (passOf m i) := by
  induction l generalizing pre with
  | nil => rfl
  | cons a l ih =>
    simp only [outFrom, List.map_cons, ih]
    congr 1
    cases a with
    | poison => rfl
    | val v =>
      simp only [outOf, bodyP, hi, if_false, passOf, hdef]
      by_cases e : i = m <;> simp [e]

theorem src_out_vals (l pre : List Item) (hl : Item.poison ∉ l) (hk : pre.length + l.length ≤ data.length) :
    outFrom m data 0 pre l = ((data.drop pre.length).take l.length).map Item.val := by
  induction l generalizing pre with
  | nil => simp [outFrom]
  | cons a l ih =>
    have hk' : pre.length < data.length := by simp at hk; omega
    cases a with
    | poison => simp at hl
    | val v =>
      have hl' : Item.poison ∉ l := fun e => hl (List.mem_cons_of_mem _ e)
      have := ih (pre ++ [Item.val v]) hl' (by simp at hk ⊢; omega)
      simp only [outFrom, this, List.length_cons, List.length_append, List.length_nil, Nat.zero_add]
      rw [List.drop_eq_getElem_cons hk', List.take_succ_cons, List.map_cons]
      congr 1
      simp [outOf, bodyP, List.getElem?_eq_getElem hk']

/-- when the source has finished it has produced exactly the data followed by one poison -/
theorem RInv.source_out (h : RInv b m data c) (hf : (c.st 0).pc = .finished) :
    (c.st 0).out = data.map Item.val ++ [Item.poison] := by
  have ok := h.sok 0 (by omega)
  have hr := ok.r
  have hpe : pend (c.st 0) = [] := by simp [pend, hf]
  rw [hpe, List.append_nil] at hr
  have hsrc := ok.src rfl
  have hp : Item.poison ∈ (c.st 0).out := ok.fin.mp hf
  have hlen := ok.len
  have hL : (c.st 0).inp.length = data.length + 1 := by
    apply Classical.byContradiction
    intro hne
    have := src_out_vals (m := m) (data := data) (c.st 0).inp [] hsrc (by simp; omega)
    rw [hr, this] at hp
    obtain ⟨a, _, ha⟩ := List.mem_map.mp hp
    cases ha
  -- split off the last input
  have hne : (c.st 0).inp ≠ [] := by intro e; rw [e] at hL; simp at hL
  obtain ⟨l1, x, hl⟩ : ∃ l1 x, (c.st 0).inp = l1 ++ [x] :=
    ⟨(c.st 0).inp.dropLast, (c.st 0).inp.getLast hne, (List.dropLast_concat_getLast hne).symm⟩
  have hl1 : l1.length = data.length := by rw [hl] at hL; simp at hL; exact hL
  have hsrc1 : Item.poison ∉ l1 := fun e => hsrc (by rw [hl]; exact List.mem_append_left _ e)
  rw [hr, hl, outFrom_append, src_out_vals l1 [] hsrc1 (by simp; omega), hl1]
  simp only [List.length_nil, List.drop_zero, List.take_length, List.nil_append]
  congr 1
  cases x with
  | poison => rfl
  | val v => simp [outOf, bodyP, hl1]

/-- when a stage and its successor have finished, the queue between them is empty: the successor has
received everything the stage produced -/
theorem RInv.handed_over (h : RInv b m data c) {i : Nat} (hi : i < m)
    (hf : (c.st (i + 1)).pc = .finished) : c.q (i + 1) = [] ∧ (c.st (i + 1)).inp = (c.st i).out := by
  have ok := h.sok (i + 1) (by omega)
  have hp : Item.poison ∈ (c.st (i + 1)).out := ok.fin.mp hf
  have : Item.poison ∈ outFrom m data (i + 1) [] (c.st (i + 1)).inp := by
    rw [← ok.r]; exact List.mem_append_left _ hp
  have hin := outFrom_poison_mem (by omega) this
  have hq := h.q i hi
  have hlast := (h.sok i (by omega)).last
  have hqe : c.q (i + 1) = [] := by
    apply Classical.byContradiction
    intro hne
    apply hlast
    rw [hq]
    rw [List.dropLast_append_of_ne_nil hne]
    exact List.mem_append_left _ hin
  rw [hqe, List.append_nil] at hq
  exact ⟨hqe, hq.symm⟩

/-! ### stateful stream transducers as stages -/

/-- one deterministic, possibly stateful, stream transducer per stage: `step i : state × block → state × block` -/
structure Transducers (τ : Type) where
  init : Nat → τ
  step : Nat → τ → Nat → τ × Nat

namespace Transducers
variable {τ : Type} (T : Transducers τ)

/-- the output stream of transducer `i` started in state `s` -/
def run (i : Nat) : τ → List Nat → List Nat
  | _, [] => []
  | s, v :: vs => (T.step i s v).2 :: run i (T.step i s v).1 vs

def stateAfter (i : Nat) (s : τ) (vs : List Nat) : τ := vs.foldl (fun s v => (T.step i s v).1) s

end Transducers

/-- the contents of the (non-poison) blocks of a sequence of items -/
def valsOf : List Item → List Nat
  | [] => []
  | .val v :: l => v :: valsOf l
  | .poison :: l => valsOf l

theorem valsOf_append (a b : List Item) : valsOf (a ++ b) = valsOf a ++ valsOf b := by
  induction a with
  | nil => rfl
  | cons x l ih => cases x <;> simp [valsOf, ih]

/-- the stage functions realised by the transducers: the loop body of stage `i` keeps the transducer state, i.e.
computes its output from the current block and the state reached on the blocks received before -/
@[reducible] def Transducers.toStageFn {τ : Type} (T : Transducers τ) : StageFn :=
  ⟨fun i hist v => (T.step i (T.stateAfter i (T.init i) (valsOf hist)) v).2⟩

/-- source data pushed through the transducers of stages `1..i` -/
def Transducers.pipeline {τ : Type} (T : Transducers τ) (data : List Nat) : Nat → List Nat
  | 0 => data
  | i + 1 => T.run (i + 1) (T.init (i + 1)) (Transducers.pipeline T data i)

section transducer
variable {τ : Type} (T : Transducers τ)

theorem stateAfter_snoc (i : Nat) (s : τ) (vs : List Nat) (v : Nat) :
    T.stateAfter i s (vs ++ [v]) = (T.step i (T.stateAfter i s vs) v).1 := by
  simp [Transducers.stateAfter, List.foldl_append]

/-- the blocks a stage has produced carry exactly the output of its transducer on the blocks it has received -/
theorem valsOf_outFrom {m : Nat} {data : List Nat} {i : Nat} (hi0 : i ≠ 0) (him : i ≠ m) (pre l : List Item) :
    valsOf (@outFrom T.toStageFn m data i pre l)
      = T.run i (T.stateAfter i (T.init i) (valsOf pre)) (valsOf l) := by
  induction l generalizing pre with
  | nil => rfl
  | cons x l ih =>
    cases x with
    | poison =>
      have := ih (pre ++ [Item.poison])
      simp only [valsOf_append, valsOf, List.append_nil] at this
      simp only [outFrom, outOf, valsOf, this]
    | val v =>
      have := ih (pre ++ [Item.val v])
      simp only [valsOf_append, valsOf, stateAfter_snoc] at this
      simp only [outFrom, outOf, bodyP, hi0, him, if_false, valsOf, Transducers.run, this]
      rfl

/-- on a complete input (blocks then poison) a stage produces its transducer's output then poison -/
theorem outFrom_complete {m : Nat} {data : List Nat} {i : Nat} (hi0 : i ≠ 0) (him : i ≠ m) (pre : List Item)
    (vs : List Nat) :
    @outFrom T.toStageFn m data i pre (vs.map Item.val ++ [Item.poison])
      = (T.run i (T.stateAfter i (T.init i) (valsOf pre)) vs).map Item.val ++ [Item.poison] := by
  induction vs generalizing pre with
  | nil => simp [outFrom, outOf, Transducers.run]
  | cons v vs ih =>
    have := ih (pre ++ [Item.val v])
    simp only [valsOf_append, valsOf, stateAfter_snoc] at this
    simp only [List.map_cons, List.cons_append, outFrom, outOf, bodyP, hi0, him, if_false, this,
      Transducers.run]
    rfl

end transducer

end KV.Chain
