import Model.IO
/-! Lemmas about the retry loops of `Model/IO.lean` (core only). -/
namespace KV.IO

/-- an answer that lets the loop go on: EINTR or a positive transfer -/
def Ans.benign : Ans → Prop
  | .ok n => 0 < n
  | .eintr => True
  | _ => False

instance : DecidablePred Ans.benign := fun a => by
  cases a <;> simp only [Ans.benign] <;> infer_instance

theorem eintrCount_succ_le (orc : Oracle) (i n : Nat) :
    eintrCount orc (i+1) n ≤ eintrCount orc i (n+1) := by
  simp only [eintrCount]; omega

theorem eintrCount_eintr (orc : Oracle) (i n : Nat) (h : orc i = .eintr) :
    eintrCount orc i (n+1) = 1 + eintrCount orc (i+1) n := by
  simp [eintrCount, h]

@[simp] theorem cons_res (c : Call) (p : Bytes) (o : Out) : (o.cons c p).res = o.res := rfl
@[simp] theorem cons_next (c : Call) (p : Bytes) (o : Out) : (o.cons c p).next = o.next := rfl
@[simp] theorem cons_moved (c : Call) (p : Bytes) (o : Out) : (o.cons c p).moved = p ++ o.moved := rfl
@[simp] theorem cons_rest (c : Call) (p : Bytes) (o : Out) : (o.cons c p).rest = o.rest := rfl
@[simp] theorem cons_log (c : Call) (p : Bytes) (o : Out) : (o.cons c p).log = c :: o.log := rfl

theorem ret_count_le {a : Ans} {req avail r : Nat} (h : a.ret req avail = .count r) :
    r ≤ req ∧ r ≤ avail := by
  cases a <;> simp [Ans.ret] at h <;> omega

theorem ret_count_pos {a : Ans} {req avail r : Nat} (h : a.ret req avail = .count (r+1)) :
    a.benign := by
  cases a <;> simp [Ans.ret, Ans.benign] at h ⊢; omega

theorem ret_eintr {a : Ans} {req avail : Nat} (h : a.ret req avail = .eintr) : a = .eintr := by
  cases a <;> simp [Ans.ret] at h ⊢

theorem ret_err {a : Ans} {req avail e : Nat} (h : a.ret req avail = .err e) : a = .err e := by
  cases a <;> simp [Ans.ret] at h ⊢; exact h

theorem ret_zero_not_benign {a : Ans} {req avail : Nat} (hr : 0 < req) (ha : 0 < avail)
    (h : a.ret req avail = .count 0) : ¬ a.benign := by
  cases a <;> simp [Ans.ret, Ans.benign] at h ⊢; omega

theorem take_of_split {m r s : Bytes} {a : Nat} (h : m ++ r = s) (hl : m.length = a) : m = s.take a := by
  subst h; subst hl; simp

/-! ## The generic transfer loop
All five looping primitives are instances of one loop (`zero e0` = what a zero return means
when `errno` is `e0`, `posn` = whether the offset advances); they are proved equal to it
below, so the lemmas are proved once. -/
def xfer (zero : Nat → Res) (posn : Bool) (orc : Oracle) :
    (fuel i : Nat) → (src : Bytes) → (amount off e0 : Nat) → Out
  | _, i, src, 0, _, _ => ⟨.ok, i, [], src, []⟩
  | 0, i, src, _+1, _, _ => ⟨.fuel, i, [], src, []⟩
  | fuel+1, i, src, a+1, off, e0 =>
    let amount := a + 1
    let c : Call := { req := amount, off := off }
    match (orc i).ret amount src.length with
    | .eintr => (xfer zero posn orc fuel (i+1) src amount off kEINTR).cons c []
    | .err e => ⟨.errno e, i+1, [], src, [c]⟩
    | .count 0 => ⟨zero e0, i+1, [], src, [c]⟩
    | .count (r+1) =>
      (xfer zero posn orc fuel (i+1) (src.drop (r+1)) (amount - (r+1))
        (if posn then off + (r+1) else off) 0).cons c (src.take (r+1))

section
variable (zero : Nat → Res) (posn : Bool) (orc : Oracle)

theorem xfer_split : ∀ fuel i src amount off e0,
    (xfer zero posn orc fuel i src amount off e0).moved ++ (xfer zero posn orc fuel i src amount off e0).rest = src := by
  intro fuel
  induction fuel with
  | zero => intro i src amount off e0; cases amount <;> simp [xfer]
  | succ f ih =>
    intro i src amount off e0
    cases amount with
    | zero => simp [xfer]
    | succ a =>
      simp only [xfer]
      split
      · simp [ih]
      · simp
      · simp
      · simp only [cons_moved, cons_rest, List.append_assoc, ih]
        exact List.take_append_drop _ _

theorem xfer_moved_len : ∀ fuel i src amount off e0,
    (xfer zero posn orc fuel i src amount off e0).moved.length ≤ amount := by
  intro fuel
  induction fuel with
  | zero => intro i src amount off e0; cases amount <;> simp [xfer]
  | succ f ih =>
    intro i src amount off e0
    cases amount with
    | zero => simp [xfer]
    | succ a =>
      simp only [xfer]
      split
      · simp only [cons_moved, List.nil_append]; exact ih _ _ _ _ _
      · simp
      · simp
      · rename_i r h
        have hr := ret_count_le h
        have := ih (i+1) (src.drop (r+1)) (a + 1 - (r+1)) (if posn then off + (r+1) else off) 0
        simp only [cons_moved, List.length_append, List.length_take]
        omega

/-- success of a loop for which a zero return is an error ⇒ exactly `amount` bytes moved -/
theorem xfer_ok_len (hz : ∀ e, zero e ≠ .ok) : ∀ fuel i src amount off e0,
    (xfer zero posn orc fuel i src amount off e0).res = .ok →
    (xfer zero posn orc fuel i src amount off e0).moved.length = amount := by
  intro fuel
  induction fuel with
  | zero => intro i src amount off e0; cases amount <;> simp [xfer]
  | succ f ih =>
    intro i src amount off e0
    cases amount with
    | zero => simp [xfer]
    | succ a =>
      simp only [xfer]
      split
      · simp only [cons_res, cons_moved, List.nil_append]; exact ih _ _ _ _ _
      · simp
      · intro h; exact absurd h (hz e0)
      · rename_i r h
        have hr := ret_count_le h
        intro hok
        have := ih (i+1) (src.drop (r+1)) (a + 1 - (r+1)) (if posn then off + (r+1) else off) 0 hok
        simp only [cons_moved, List.length_append, List.length_take]
        omega

theorem xfer_next_ge : ∀ fuel i src amount off e0,
    i ≤ (xfer zero posn orc fuel i src amount off e0).next := by
  intro fuel
  induction fuel with
  | zero => intro i src amount off e0; cases amount <;> simp [xfer]
  | succ f ih =>
    intro i src amount off e0
    cases amount with
    | zero => simp [xfer]
    | succ a =>
      simp only [xfer]
      split
      · exact Nat.le_trans (Nat.le_succ i) (ih _ _ _ _ _)
      · exact Nat.le_succ i
      · exact Nat.le_succ i
      · exact Nat.le_trans (Nat.le_succ i) (ih _ _ _ _ _)

/-- success (zero return = error) ⇒ every consumed answer was benign -/
theorem xfer_ok_benign (hz : ∀ e, zero e ≠ .ok) : ∀ fuel i src amount off e0,
    (xfer zero posn orc fuel i src amount off e0).res = .ok →
    ∀ j, i ≤ j → j < (xfer zero posn orc fuel i src amount off e0).next → (orc j).benign := by
  intro fuel
  induction fuel with
  | zero => intro i src amount off e0; cases amount <;> simp [xfer] <;> omega
  | succ f ih =>
    intro i src amount off e0
    cases amount with
    | zero => simp [xfer]; omega
    | succ a =>
      simp only [xfer]
      split
      · rename_i h
        simp only [cons_res, cons_next]
        intro hok j hij hj
        by_cases hji : j = i
        · subst hji; rw [ret_eintr h]; trivial
        · exact ih _ _ _ _ _ hok j (by omega) hj
      · simp
      · intro h; exact absurd h (hz e0)
      · rename_i r h
        simp only [cons_res, cons_next]
        intro hok j hij hj
        by_cases hji : j = i
        · subst hji; exact ret_count_pos h
        · exact ih _ _ _ _ _ hok j (by omega) hj

/-- every consumed answer except the last is benign, whatever the result -/
theorem xfer_prefix_benign : ∀ fuel i src amount off e0,
    ∀ j, i ≤ j → j + 1 < (xfer zero posn orc fuel i src amount off e0).next → (orc j).benign := by
  intro fuel
  induction fuel with
  | zero => intro i src amount off e0; cases amount <;> simp [xfer] <;> omega
  | succ f ih =>
    intro i src amount off e0
    cases amount with
    | zero => simp [xfer]; omega
    | succ a =>
      simp only [xfer]
      split
      · rename_i h
        simp only [cons_next]
        intro j hij hj
        by_cases hji : j = i
        · subst hji; rw [ret_eintr h]; trivial
        · exact ih _ _ _ _ _ j (by omega) hj
      · intro j _ _; simp at *; omega
      · intro j _ _; simp at *; omega
      · rename_i r h
        simp only [cons_next]
        intro j hij hj
        by_cases hji : j = i
        · subst hji; exact ret_count_pos h
        · exact ih _ _ _ _ _ j (by omega) hj

/-- a failure (not `ok`, not out of fuel) is caused by the last consumed answer, which is not benign
(given that a zero return is only possible from a non-benign answer: `amount ≤ src.length`) -/
theorem xfer_fail_cause : ∀ fuel i src amount off e0, amount ≤ src.length →
    (xfer zero posn orc fuel i src amount off e0).res ≠ .ok →
    (xfer zero posn orc fuel i src amount off e0).res ≠ .fuel →
    i < (xfer zero posn orc fuel i src amount off e0).next ∧
      ¬ (orc ((xfer zero posn orc fuel i src amount off e0).next - 1)).benign := by
  intro fuel
  induction fuel with
  | zero => intro i src amount off e0; cases amount <;> simp [xfer]
  | succ f ih =>
    intro i src amount off e0 hl
    cases amount with
    | zero => simp [xfer]
    | succ a =>
      simp only [xfer]
      split
      · simp only [cons_res, cons_next]
        intro h1 h2
        have := ih (i+1) src (a+1) off kEINTR hl h1 h2
        exact ⟨by omega, this.2⟩
      · rename_i e h
        intro _ _
        simp only [Nat.add_sub_cancel]
        refine ⟨by omega, ?_⟩
        rw [ret_err h]; simp [Ans.benign]
      · rename_i h
        intro _ _
        simp only [Nat.add_sub_cancel]
        exact ⟨by omega, ret_zero_not_benign (by omega) (by omega) h⟩
      · rename_i r h
        have hr := ret_count_le h
        simp only [cons_res, cons_next]
        intro h1 h2
        have := ih (i+1) _ _ _ 0 (by simp only [List.length_drop]; omega) h1 h2
        exact ⟨by omega, this.2⟩

/-- an errno result is the errno of the last consumed answer, or comes from a zero return -/
theorem xfer_errno : ∀ fuel i src amount off e0 e,
    (xfer zero posn orc fuel i src amount off e0).res = .errno e →
    orc ((xfer zero posn orc fuel i src amount off e0).next - 1) = .err e ∨
      (∃ e1, (e1 = e0 ∨ e1 = kEINTR ∨ e1 = 0) ∧ zero e1 = .errno e) := by
  intro fuel
  induction fuel with
  | zero => intro i src amount off e0; cases amount <;> simp [xfer]
  | succ f ih =>
    intro i src amount off e0 e
    cases amount with
    | zero => simp [xfer]
    | succ a =>
      simp only [xfer]
      split
      · simp only [cons_res, cons_next]
        intro h
        rcases ih _ _ _ _ _ e h with h1 | ⟨e1, he1, hz1⟩
        · exact Or.inl h1
        · refine Or.inr ⟨e1, ?_, hz1⟩
          rcases he1 with rfl | rfl | rfl <;> simp
      · rename_i e' h
        intro he
        simp only [Res.errno.injEq] at he
        simp only [Nat.add_sub_cancel]
        left; rw [ret_err h, he]
      · intro he; exact Or.inr ⟨e0, Or.inl rfl, he⟩
      · simp only [cons_res, cons_next]
        intro h
        rcases ih _ _ _ _ _ e h with h1 | ⟨e1, he1, hz1⟩
        · exact Or.inl h1
        · refine Or.inr ⟨e1, ?_, hz1⟩
          rcases he1 with rfl | rfl | rfl <;> simp

/-- an EOF exception is raised only on a zero return -/
theorem xfer_eof (hz : ∀ e0 e, zero e0 ≠ .eofErr → zero e = zero e) : ∀ fuel i src amount off e0,
    (xfer zero posn orc fuel i src amount off e0).res = .eofErr →
    (∃ e1, zero e1 = .eofErr) ∧ ∃ req avail, 0 < req ∧
      (orc ((xfer zero posn orc fuel i src amount off e0).next - 1)).ret req avail = .count 0 := by
  intro fuel
  induction fuel with
  | zero => intro i src amount off e0; cases amount <;> simp [xfer]
  | succ f ih =>
    intro i src amount off e0
    cases amount with
    | zero => simp [xfer]
    | succ a =>
      simp only [xfer]
      split
      · simp only [cons_res, cons_next]; exact ih _ _ _ _ _
      · simp
      · rename_i h
        intro he
        simp only [Nat.add_sub_cancel]
        exact ⟨⟨e0, he⟩, a+1, src.length, by omega, h⟩
      · simp only [cons_res, cons_next]; exact ih _ _ _ _ _

theorem xfer_terminates (hz : ∀ e, zero e ≠ .fuel) : ∀ fuel i src amount off e0 B,
    (∀ n, eintrCount orc i n ≤ B) → amount + B ≤ fuel →
    (xfer zero posn orc fuel i src amount off e0).res ≠ .fuel := by
  intro fuel
  induction fuel with
  | zero =>
    intro i src amount off e0 B _ hf
    cases amount with
    | zero => simp [xfer]
    | succ a => omega
  | succ f ih =>
    intro i src amount off e0 B hB hf
    cases amount with
    | zero => simp [xfer]
    | succ a =>
      simp only [xfer]
      split
      · rename_i h
        simp only [cons_res]
        have hi := ret_eintr h
        have h1 := hB 1
        rw [eintrCount_eintr orc i 0 hi] at h1
        refine ih (i+1) src (a+1) off kEINTR (B - 1) ?_ ?_
        · intro n
          have := hB (n+1)
          rw [eintrCount_eintr orc i n hi] at this
          omega
        · omega
      · simp
      · exact hz e0
      · rename_i r h
        simp only [cons_res]
        refine ih (i+1) _ _ _ 0 B ?_ ?_
        · intro n
          exact Nat.le_trans (eintrCount_succ_le orc i n) (hB (n+1))
        · omega

theorem xfer_fuel_mono : ∀ fuel i src amount off e0,
    (xfer zero posn orc fuel i src amount off e0).res ≠ .fuel →
    xfer zero posn orc (fuel+1) i src amount off e0 = xfer zero posn orc fuel i src amount off e0 := by
  intro fuel
  induction fuel with
  | zero => intro i src amount off e0; cases amount <;> simp [xfer]
  | succ f ih =>
    intro i src amount off e0
    cases amount with
    | zero => simp [xfer]
    | succ a =>
      intro h
      rw [xfer]
      conv => rhs; rw [xfer]
      simp only [xfer] at h
      split
      · rename_i hh
        rw [hh] at h
        simp only [cons_res] at h
        rw [ih _ _ _ _ _ h]
      · rfl
      · rfl
      · rename_i r hh
        rw [hh] at h
        simp only [cons_res] at h
        rw [ih _ _ _ _ _ h]

/-- the requests are positive and never exceed what is left -/
theorem xfer_log_req : ∀ fuel i src amount off e0,
    ∀ c ∈ (xfer zero posn orc fuel i src amount off e0).log, 0 < c.req ∧ c.req ≤ amount := by
  intro fuel
  induction fuel with
  | zero => intro i src amount off e0; cases amount <;> simp [xfer]
  | succ f ih =>
    intro i src amount off e0
    cases amount with
    | zero => simp [xfer]
    | succ a =>
      simp only [xfer]
      split
      · simp only [cons_log, List.mem_cons]
        rintro c (rfl | hc)
        · simp
        · exact ih _ _ _ _ _ c hc
      · simp
      · simp
      · rename_i r h
        simp only [cons_log, List.mem_cons]
        rintro c (rfl | hc)
        · simp
        · have := ih _ _ _ _ _ c hc
          omega

/-- a consumed `err e` answer makes the loop throw with that errno -/
theorem xfer_err_throws : ∀ fuel i src amount off e0 j e,
    i ≤ j → j < (xfer zero posn orc fuel i src amount off e0).next → orc j = .err e →
    (xfer zero posn orc fuel i src amount off e0).res = .errno e := by
  intro fuel
  induction fuel with
  | zero => intro i src amount off e0 j e; cases amount <;> simp [xfer] <;> omega
  | succ f ih =>
    intro i src amount off e0 j e
    cases amount with
    | zero => simp [xfer]; omega
    | succ a =>
      simp only [xfer]
      split
      · rename_i h
        simp only [cons_res, cons_next]
        intro hij hj hje
        have : j ≠ i := by intro hh; subst hh; rw [ret_eintr h] at hje; cases hje
        exact ih _ _ _ _ _ j e (by omega) hj hje
      · rename_i e' h
        intro hij hj hje
        have : j = i := by simp at hj; omega
        subst this
        rw [ret_err h] at hje
        cases hje; rfl
      · rename_i h
        intro hij hj hje
        have : j = i := by simp at hj; omega
        subst this
        rw [hje] at h; simp [Ans.ret] at h
      · rename_i r h
        simp only [cons_res, cons_next]
        intro hij hj hje
        have : j ≠ i := by intro hh; subst hh; rw [hje] at h; simp [Ans.ret] at h
        exact ih _ _ _ _ _ j e (by omega) hj hje

/-- under an OS that only interrupts and splits (never fails, never lies about EOF) and
with enough source bytes, the loop can only succeed (or run out of fuel) -/
theorem xfer_benign : ∀ fuel i src amount off e0,
    (∀ j, i ≤ j → (orc j).benign) → amount ≤ src.length →
    (xfer zero posn orc fuel i src amount off e0).res = .ok ∨
    (xfer zero posn orc fuel i src amount off e0).res = .fuel := by
  intro fuel
  induction fuel with
  | zero => intro i src amount off e0; cases amount <;> simp [xfer]
  | succ f ih =>
    intro i src amount off e0 hb hl
    cases amount with
    | zero => simp [xfer]
    | succ a =>
      simp only [xfer]
      split
      · simp only [cons_res]
        exact ih _ _ _ _ _ (fun j hj => hb j (by omega)) hl
      · rename_i e h
        have := hb i (Nat.le_refl i)
        rw [ret_err h] at this; exact absurd this (by simp [Ans.benign])
      · rename_i h
        exact absurd (hb i (Nat.le_refl i)) (ret_zero_not_benign (by omega) (by omega) h)
      · rename_i r h
        have hr := ret_count_le h
        simp only [cons_res]
        exact ih _ _ _ _ _ (fun j hj => hb j (by omega)) (by simp only [List.length_drop]; omega)

/-- with benign answers and enough source, success moves exactly `amount` bytes (also when a
zero return would have been a success, as in ReadOrEOF) -/
theorem xfer_benign_len : ∀ fuel i src amount off e0,
    (∀ j, i ≤ j → (orc j).benign) → amount ≤ src.length →
    (xfer zero posn orc fuel i src amount off e0).res = .ok →
    (xfer zero posn orc fuel i src amount off e0).moved.length = amount := by
  intro fuel
  induction fuel with
  | zero => intro i src amount off e0; cases amount <;> simp [xfer]
  | succ f ih =>
    intro i src amount off e0 hb hl
    cases amount with
    | zero => simp [xfer]
    | succ a =>
      simp only [xfer]
      split
      · simp only [cons_res, cons_moved, List.nil_append]
        exact ih _ _ _ _ _ (fun j hj => hb j (by omega)) hl
      · simp
      · rename_i h
        exact absurd (hb i (Nat.le_refl _)) (ret_zero_not_benign (by omega) (by omega) h)
      · rename_i r h
        have hr := ret_count_le h
        intro hok
        have := ih (i+1) (src.drop (r+1)) (a+1-(r+1)) (if posn then off + (r+1) else off) 0
          (fun j hj => hb j (by omega)) (by simp only [List.length_drop]; omega) hok
        simp only [cons_moved, List.length_append, List.length_take]
        omega

end

/-- positional loops: every request covers exactly the tail not yet transferred, i.e.
offsets advance by the partial counts -/
theorem xfer_offsets (zero orc) : ∀ fuel i src amount off e0,
    ∀ c ∈ (xfer zero true orc fuel i src amount off e0).log, c.off + c.req = off + amount := by
  intro fuel
  induction fuel with
  | zero => intro i src amount off e0; cases amount <;> simp [xfer]
  | succ f ih =>
    intro i src amount off e0
    cases amount with
    | zero => simp [xfer]
    | succ a =>
      simp only [xfer]
      split
      · simp only [cons_log, List.mem_cons]
        rintro c (rfl | hc)
        · rfl
        · exact ih _ _ _ _ _ c hc
      · simp
      · simp
      · rename_i r h
        have hr := ret_count_le h
        simp only [cons_log, List.mem_cons, if_true]
        rintro c (rfl | hc)
        · rfl
        · have := ih _ _ _ _ _ c hc
          omega

/-- when the meaning of a zero return does not depend on errno, the errno state is irrelevant -/
theorem xfer_e0_irrel (zero : Nat → Res) (posn orc) (hz : ∀ e e', zero e = zero e') : ∀ fuel i src amount off e0 e0',
    xfer zero posn orc fuel i src amount off e0 = xfer zero posn orc fuel i src amount off e0' := by
  intro fuel
  induction fuel with
  | zero => intro i src amount off e0 e0'; cases amount <;> simp [xfer]
  | succ f ih =>
    intro i src amount off e0 e0'
    cases amount with
    | zero => simp [xfer]
    | succ a => simp only [xfer, hz e0 e0']

/-! ### the transcribed loops are instances of the generic loop -/
theorem ersatzPRead_eq (orc) : ∀ fuel i src size off,
    ersatzPRead orc fuel i src size off = xfer (fun _ => .eofErr) true orc fuel i src size off 0 := by
  intro fuel
  induction fuel with
  | zero => intro i src size off; cases size <;> simp [xfer, ersatzPRead]
  | succ f ih =>
    intro i src size off
    cases size with
    | zero => simp [xfer, ersatzPRead]
    | succ a =>
      simp only [xfer, ersatzPRead, if_true, ih]
      rw [xfer_e0_irrel _ _ _ (fun _ _ => rfl) f (i+1) src (a+1) off kEINTR 0]
      rfl

theorem readOrThrow_eq (orc) : ∀ fuel i src amount,
    readOrThrow orc fuel i src amount = xfer (fun _ => .eofErr) false orc fuel i src amount 0 0 := by
  intro fuel
  induction fuel with
  | zero => intro i src amount; cases amount <;> simp [xfer, readOrThrow]
  | succ f ih =>
    intro i src amount
    cases amount with
    | zero => simp [xfer, readOrThrow]
    | succ a =>
      simp only [xfer, readOrThrow, ih]
      rw [xfer_e0_irrel _ _ _ (fun _ _ => rfl) f (i+1) src (a+1) 0 kEINTR 0]
      rfl

theorem readOrEOF_eq (orc) : ∀ fuel i src amount,
    readOrEOF orc fuel i src amount = xfer (fun _ => .ok) false orc fuel i src amount 0 0 := by
  intro fuel
  induction fuel with
  | zero => intro i src amount; cases amount <;> simp [xfer, readOrEOF]
  | succ f ih =>
    intro i src amount
    cases amount with
    | zero => simp [xfer, readOrEOF]
    | succ a =>
      simp only [xfer, readOrEOF, ih]
      rw [xfer_e0_irrel _ _ _ (fun _ _ => rfl) f (i+1) src (a+1) 0 kEINTR 0]
      rfl

theorem ersatzPWrite_eq (orc) : ∀ fuel i data off,
    ersatzPWrite orc fuel i data off = xfer (fun _ => .eofErr) true orc fuel i data data.length off 0 := by
  intro fuel
  induction fuel with
  | zero => intro i data off; cases data <;> simp [xfer, ersatzPWrite]
  | succ f ih =>
    intro i data off
    cases data with
    | nil => simp [xfer, ersatzPWrite]
    | cons d ds =>
      simp only [xfer, ersatzPWrite, List.length_cons, if_true, ih, List.length_drop]
      rw [xfer_e0_irrel _ _ _ (fun _ _ => rfl) f (i+1) (d :: ds) (ds.length+1) off kEINTR 0]
      rfl

theorem writeOrThrow_eq (orc) : ∀ fuel i data e0,
    writeOrThrow orc fuel i data e0 = xfer (fun e => .errno e) false orc fuel i data data.length 0 e0 := by
  intro fuel
  induction fuel with
  | zero => intro i data e0; cases data <;> simp [xfer, writeOrThrow]
  | succ f ih =>
    intro i data e0
    cases data with
    | nil => simp [xfer, writeOrThrow]
    | cons d ds =>
      simp only [xfer, writeOrThrow, ih, List.length_cons, List.length_drop]
      rfl

/-! ### WriteOrThrow corollaries used by the FileStream proofs -/
theorem write_split (orc : Oracle) (fuel i : Nat) (data : Bytes) (e0 : Nat := 0) :
    (writeOrThrow orc fuel i data e0).moved ++ (writeOrThrow orc fuel i data e0).rest = data := by
  rw [writeOrThrow_eq]; exact xfer_split _ _ _ _ _ _ _ _ _

theorem write_ok_rest (orc : Oracle) (fuel i : Nat) (data : Bytes) (e0 : Nat := 0)
    (h : (writeOrThrow orc fuel i data e0).res = .ok) : (writeOrThrow orc fuel i data e0).rest = [] := by
  rw [writeOrThrow_eq] at h ⊢
  have hs := xfer_split (fun e => .errno e) false orc fuel i data data.length 0 e0
  have hl := xfer_ok_len (fun e => .errno e) false orc (by intro e; simp) fuel i data data.length 0 e0 h
  have h2 := congrArg List.length hs
  simp only [List.length_append] at h2
  exact List.eq_nil_of_length_eq_zero (by omega)

/-! ### Inserting an EINTR answer -/

/-- the oracle with answer `a` inserted before call `k` -/
def insertAt (orc : Oracle) (k : Nat) (a : Ans) : Oracle :=
  fun j => if j < k then orc j else if j = k then a else orc (j - 1)

/-- an oracle shifted by one call gives the same run, one call later -/
theorem xfer_shift (zero : Nat → Res) (posn : Bool) (orc orc' : Oracle) : ∀ fuel i src amount off e0,
    (∀ j, i ≤ j → orc' (j + 1) = orc j) →
    (xfer zero posn orc' fuel (i + 1) src amount off e0).res = (xfer zero posn orc fuel i src amount off e0).res ∧
    (xfer zero posn orc' fuel (i + 1) src amount off e0).moved = (xfer zero posn orc fuel i src amount off e0).moved ∧
    (xfer zero posn orc' fuel (i + 1) src amount off e0).rest = (xfer zero posn orc fuel i src amount off e0).rest ∧
    (xfer zero posn orc' fuel (i + 1) src amount off e0).log = (xfer zero posn orc fuel i src amount off e0).log := by
  intro fuel
  induction fuel with
  | zero => intro i src amount off e0 _; cases amount <;> simp [xfer]
  | succ f ih =>
    intro i src amount off e0 h
    cases amount with
    | zero => simp [xfer]
    | succ a =>
      simp only [xfer, h i (Nat.le_refl i)]
      split
      · have := ih (i + 1) src (a + 1) off kEINTR (fun j hj => h j (by omega))
        simp only [cons_res, cons_moved, cons_rest, cons_log, this, and_self]
      · simp
      · simp
      · rename_i r _
        have := ih (i + 1) (src.drop (r + 1)) (a + 1 - (r + 1)) (if posn then off + (r + 1) else off) 0
          (fun j hj => h j (by omega))
        simp only [cons_res, cons_moved, cons_rest, cons_log, this, and_self]

/-- the errno state `e0` matters only through a zero return of the very next call -/
theorem xfer_e0_first (zero : Nat → Res) (posn : Bool) (orc : Oracle) (fuel i : Nat) (src : Bytes)
    (amount off e0 e0' : Nat) :
    (xfer zero posn orc fuel i src amount off e0').moved = (xfer zero posn orc fuel i src amount off e0).moved ∧
    (xfer zero posn orc fuel i src amount off e0').rest = (xfer zero posn orc fuel i src amount off e0).rest ∧
    ((xfer zero posn orc fuel i src amount off e0').res = (xfer zero posn orc fuel i src amount off e0).res ∨
     ((xfer zero posn orc fuel i src amount off e0).res = zero e0 ∧
      (xfer zero posn orc fuel i src amount off e0').res = zero e0')) := by
  cases fuel with
  | zero => cases amount <;> simp [xfer]
  | succ f =>
    cases amount with
    | zero => simp [xfer]
    | succ a =>
      simp only [xfer]
      split <;> simp

theorem xfer_succ (zero : Nat → Res) (posn : Bool) (orc : Oracle) (f i : Nat) (src : Bytes) (a off e0 : Nat) :
    xfer zero posn orc (f + 1) i src (a + 1) off e0 =
      match (orc i).ret (a + 1) src.length with
      | .eintr => (xfer zero posn orc f (i+1) src (a + 1) off kEINTR).cons { req := a + 1, off := off } []
      | .err e => ⟨.errno e, i+1, [], src, [{ req := a + 1, off := off }]⟩
      | .count 0 => ⟨zero e0, i+1, [], src, [{ req := a + 1, off := off }]⟩
      | .count (r+1) =>
        (xfer zero posn orc f (i+1) (src.drop (r+1)) (a + 1 - (r+1))
          (if posn then off + (r+1) else off) 0).cons { req := a + 1, off := off } (src.take (r+1)) := by
  rw [xfer]

/-- **EINTR insertion**: inserting one EINTR answer before any call `k ≥ i` (and granting one more
unit of fuel) changes neither the bytes moved nor the bytes left, and changes the result only in
the one case the real code exhibits: when the call right after the inserted EINTR returns 0, the
exception carries `zero EINTR` instead of `zero e` (for `WriteOrThrow`: errno 4 instead of the
errno state `e`; for the other loops `zero` is constant and nothing changes). -/
theorem xfer_insert_eintr (zero : Nat → Res) (posn : Bool) (orc : Oracle) (k : Nat) :
    ∀ fuel i src amount off e0, i ≤ k →
    (xfer zero posn orc fuel i src amount off e0).res ≠ .fuel →
    (xfer zero posn (insertAt orc k .eintr) (fuel + 1) i src amount off e0).moved =
      (xfer zero posn orc fuel i src amount off e0).moved ∧
    (xfer zero posn (insertAt orc k .eintr) (fuel + 1) i src amount off e0).rest =
      (xfer zero posn orc fuel i src amount off e0).rest ∧
    ((xfer zero posn (insertAt orc k .eintr) (fuel + 1) i src amount off e0).res =
        (xfer zero posn orc fuel i src amount off e0).res ∨
     ∃ e, (xfer zero posn orc fuel i src amount off e0).res = zero e ∧
          (xfer zero posn (insertAt orc k .eintr) (fuel + 1) i src amount off e0).res = zero kEINTR) := by
  intro fuel
  induction fuel with
  | zero =>
    intro i src amount off e0 _ hf
    cases amount with
    | zero => simp [xfer]
    | succ a => simp [xfer] at hf
  | succ f ih =>
    intro i src amount off e0 hik hf
    cases amount with
    | zero => simp [xfer]
    | succ a =>
      by_cases hk : i = k
      · subst hk
        -- the inserted EINTR is consumed now; the rest is the original run shifted by one call
        have hins : insertAt orc i .eintr i = .eintr := by simp [insertAt]
        have hsh := xfer_shift zero posn orc (insertAt orc i .eintr) (f + 1) i src (a + 1) off kEINTR
          (fun j hj => by
            unfold insertAt
            have h1 : ¬ j + 1 < i := by omega
            have h2 : ¬ j + 1 = i := by omega
            simp [h1, h2])
        have he0 := xfer_e0_first zero posn orc (f + 1) i src (a + 1) off e0 kEINTR
        have hstep : xfer zero posn (insertAt orc i .eintr) (f + 1 + 1) i src (a + 1) off e0 =
            (xfer zero posn (insertAt orc i .eintr) (f + 1) (i + 1) src (a + 1) off kEINTR).cons
              { req := a + 1, off := off } [] := by
          rw [xfer_succ, hins]; rfl
        rw [hstep]
        simp only [cons_moved, cons_rest, cons_res, List.nil_append, hsh.1, hsh.2.1, hsh.2.2.1]
        refine ⟨he0.1, he0.2.1, ?_⟩
        rcases he0.2.2 with h | ⟨h1, h2⟩
        · exact Or.inl h
        · exact Or.inr ⟨e0, h1, h2⟩
      · have hlt : i < k := by omega
        have hins : insertAt orc k .eintr i = orc i := by simp [insertAt, hlt]
        rw [xfer_succ zero posn orc f i src a off e0] at hf
        rw [xfer_succ zero posn (insertAt orc k .eintr) (f + 1) i src a off e0,
          xfer_succ zero posn orc f i src a off e0]
        simp only [hins] at hf ⊢
        split
        · rename_i h
          rw [h] at hf
          simp only [cons_res] at hf
          have := ih (i + 1) src (a + 1) off kEINTR (by omega) hf
          simp only [cons_moved, cons_rest, cons_res, this.1, this.2.1, List.nil_append, true_and]
          exact this.2.2
        · simp
        · simp
        · rename_i r h
          rw [h] at hf
          simp only [cons_res] at hf
          have := ih (i + 1) (src.drop (r + 1)) (a + 1 - (r + 1)) (if posn then off + (r + 1) else off) 0 (by omega) hf
          simp only [cons_moved, cons_rest, cons_res, this.1, this.2.1, true_and]
          exact this.2.2

end KV.IO
