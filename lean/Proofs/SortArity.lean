import Proofs.SortCode
/-! C16: for every legal configuration the arity logic never reaches one of the `abort()`s /
an empty queue, and the pass loop terminates (fuel = number of runs suffices). -/
namespace KV.Sort
open List

variable {α : Type}

/-- what the `Sort` constructor guarantees (`mkCfg`) -/
structure LegalCfg (cfg : Cfg) : Prop where
  entryPos : 0 < cfg.entrySize
  bufPos : 0 < cfg.bufferSize
  bufMult : cfg.entrySize ∣ cfg.bufferSize
  fourBuffers : 4 * cfg.bufferSize ≤ cfg.totalMemory

theorem mkCfg_legal {e b t : Nat} {cfg : Cfg} (h : mkCfg e b t = .ok cfg) : LegalCfg cfg := by
  unfold mkCfg at h
  split at h
  · cases h
  · rename_i he
    simp only at h
    split at h
    · cases h
    · rename_i hb
      split at h
      · cases h
      · rename_i ht
        simp only [Except.ok.injEq] at h
        subst h
        refine ⟨by simp only; omega, by simp only; omega, ?_, by simp only; omega⟩
        simp only
        exact ⟨b / e, by have := Nat.div_add_mod b e; omega⟩

/-! ### groupCount -/

theorem sum_map_min_le (pb : Nat) : ∀ (ss : List Nat), (ss.map (min pb)).sum ≤ ss.sum
  | [] => by simp
  | s :: ss => by
    have := sum_map_min_le pb ss
    simp only [map_cons, sum_cons]
    have : min pb s ≤ s := Nat.min_le_right _ _
    omega

theorem sum_map_min_le_mul (pb : Nat) : ∀ (ss : List Nat), (ss.map (min pb)).sum ≤ ss.length * pb
  | [] => by simp
  | s :: ss => by
    have := sum_map_min_le_mul pb ss
    simp only [map_cons, sum_cons, length_cons, Nat.add_mul, Nat.one_mul]
    have : min pb s ≤ pb := Nat.min_le_left _ _
    omega

theorem groupCount_le (pb M : Nat) : ∀ (ss : List Nat) (used : Nat), groupCount pb M used ss ≤ ss.length
  | [], _ => by simp [groupCount]
  | s :: ss, used => by
    simp only [groupCount]
    split
    · have := groupCount_le pb M ss (used + min s pb); simp only [length_cons]; omega
    · omega

theorem groupCount_all (pb M : Nat) : ∀ (ss : List Nat) (used : Nat), used + (ss.map (min pb)).sum ≤ M →
    groupCount pb M used ss = ss.length
  | [], _, _ => by simp [groupCount]
  | s :: ss, used, h => by
    simp only [map_cons, sum_cons] at h
    simp only [groupCount]
    have h1 : used + min pb s ≤ M := by omega
    rw [if_pos h1, groupCount_all pb M ss (used + min s pb) (by rw [Nat.min_comm s pb]; omega)]
    simp only [length_cons]; omega

theorem groupCount_two (pb M : Nat) (s1 s2 : Nat) (ss : List Nat) (h : min pb s1 + min pb s2 ≤ M) :
    2 ≤ groupCount pb M 0 (s1 :: s2 :: ss) := by
  simp only [groupCount]
  have h1 : 0 + min pb s1 ≤ M := by omega
  rw [if_pos h1]
  have h2 : 0 + min s1 pb + min pb s2 ≤ M := by rw [Nat.min_comm s1 pb]; omega
  rw [if_pos h2]
  omega

/-! ### per_buffer -/

theorem perBuffer_bounds {E B : Nat} (hE : 0 < E) (hdiv : E ∣ B) (M R : Nat) :
    B ≤ perBuffer E B M R ∧ perBuffer E B M R ≤ max B (M / R) := by
  unfold perBuffer
  simp only
  generalize hpb : max B (M / R) = pb0
  have hB : B ≤ pb0 := by rw [← hpb]; exact Nat.le_max_left _ _
  refine ⟨?_, Nat.sub_le _ _⟩
  obtain ⟨k, rfl⟩ := hdiv
  have h1 : E * k / E ≤ pb0 / E := Nat.div_le_div_right hB
  rw [Nat.mul_div_cancel_left k hE] at h1
  have h2 : E * k ≤ E * (pb0 / E) := Nat.mul_le_mul_left E h1
  have := Nat.div_add_mod pb0 E
  omega

/-- bytes of the runs -/
abbrev szs (E : Nat) (runs : List (List α)) : List Nat := runs.map (fun r => r.length * E)

theorem szs_drop_sum_le (E : Nat) (c : Nat) (runs : List (List α)) : (szs E (runs.drop c)).sum ≤ (szs E runs).sum := by
  have : szs E runs = szs E (runs.take c) ++ szs E (runs.drop c) := by
    simp only [szs, ← map_append, take_append_drop]
  rw [this, sum_append]; omega

/-- the first group formed: at least two runs, or all of them -/
theorem firstGroup_ok {E B : Nat} (hE : 0 < E) (hB : 0 < B) (hdiv : E ∣ B) (M : Nat) (r : List α) (rs : List (List α))
    (hM : 2 * B ≤ M ∨ (szs E (r :: rs)).sum ≤ M) :
    ∀ c, c = groupCount (perBuffer E B M (r :: rs).length) M 0 (szs E (r :: rs)) →
    perBuffer E B M (r :: rs).length ≠ 0 ∧ c ≠ 0 ∧ ¬ (c < 2 ∧ c < (r :: rs).length) := by
  intro c hcdef
  obtain ⟨hpb1, hpb2⟩ := perBuffer_bounds hE hdiv M (r :: rs).length
  have hR : 0 < (r :: rs).length := by simp
  refine ⟨by omega, ?_⟩
  have hall : (szs E (r :: rs)).sum ≤ M ∨ (r :: rs).length * perBuffer E B M (r :: rs).length ≤ M →
      c = (r :: rs).length := by
    intro h
    have := groupCount_all (perBuffer E B M (r :: rs).length) M (szs E (r :: rs)) 0 (by
      rcases h with h | h
      · have := sum_map_min_le (perBuffer E B M (r :: rs).length) (szs E (r :: rs)); omega
      · have := sum_map_min_le_mul (perBuffer E B M (r :: rs).length) (szs E (r :: rs))
        simp only [szs, length_map] at this ⊢; omega)
    rw [hcdef, this]; simp [szs]
  rcases hM with hM | hM
  · -- reading memory holds two buffers
    by_cases hq : M / (r :: rs).length ≤ B
    · have hpb : perBuffer E B M (r :: rs).length = B := by
        have : max B (M / (r :: rs).length) = B := Nat.max_eq_left hq
        rw [this] at hpb2; omega
      cases rs with
      | nil =>
        have hfit : [r].length * perBuffer E B M [r].length ≤ M := by
          rw [hpb]; simp only [length_cons, length_nil]; omega
        have : c = 1 := by
          have := hall (Or.inr hfit)
          simpa using this
        omega
      | cons r2 rs =>
        have h2 : 2 ≤ c := by
          rw [hcdef]
          simp only [szs, map_cons]
          apply groupCount_two
          rw [hpb]
          have a := Nat.min_le_left B (r.length * E)
          have b := Nat.min_le_left B (r2.length * E)
          omega
        omega
    · have hgt : B < M / (r :: rs).length := by omega
      have : max B (M / (r :: rs).length) = M / (r :: rs).length := Nat.max_eq_right (by omega)
      rw [this] at hpb2
      have hmul : (r :: rs).length * perBuffer E B M (r :: rs).length ≤ M := by
        calc (r :: rs).length * perBuffer E B M (r :: rs).length
            ≤ (r :: rs).length * (M / (r :: rs).length) := Nat.mul_le_mul_left _ hpb2
          _ ≤ M := Nat.mul_div_le M _
      have := hall (Or.inr hmul)
      omega
  · have := hall (Or.inl hM)
    omega

theorem codeGroups_length_le (E B M : Nat) (a : Bool) : ∀ (fuel : Nat) (runs : List (List α)) (gs),
    codeGroups E B M a fuel runs = .ok gs → gs.length ≤ runs.length := by
  intro fuel
  induction fuel with
  | zero =>
    intro runs gs h
    cases runs with
    | nil => simp only [codeGroups, Except.ok.injEq] at h; subst h; simp
    | cons r rs => simp [codeGroups] at h
  | succ fuel ih =>
    intro runs gs h
    cases runs with
    | nil => simp only [codeGroups, Except.ok.injEq] at h; subst h; simp
    | cons r rs =>
      simp only [codeGroups] at h
      split at h
      · cases h
      · split at h
        · cases h
        · split at h
          · cases h
          · split at h
            · cases h
            · rename_i hc0 _ _
              split at h
              · cases h
              · rename_i gs' hrec
                simp only [Except.ok.injEq] at h
                subst h
                have := ih _ _ hrec
                simp only [length_cons, length_drop] at this hc0 ⊢
                omega

/-- a pass never aborts, and merges at least two runs into one -/
theorem codeGroups_ok {E B : Nat} (hE : 0 < E) (hB : 0 < B) (hdiv : E ∣ B) (M : Nat) :
    ∀ (fuel : Nat) (runs : List (List α)), runs.length ≤ fuel →
      (2 * B ≤ M ∨ (szs E runs).sum ≤ M) →
      ∃ gs, codeGroups E B M false fuel runs = .ok gs ∧ (2 ≤ runs.length → gs.length < runs.length) := by
  intro fuel
  induction fuel with
  | zero =>
    intro runs hf _
    have : runs = [] := List.eq_nil_of_length_eq_zero (by omega)
    subst this
    exact ⟨[], by simp [codeGroups], by simp⟩
  | succ fuel ih =>
    intro runs hf hM
    cases runs with
    | nil => exact ⟨[], by simp [codeGroups], by simp⟩
    | cons r rs =>
      obtain ⟨h1, h2, h3⟩ := firstGroup_ok hE hB hdiv M r rs hM _ rfl
      simp only [codeGroups, length_cons]
      simp only [szs, length_cons] at h1 h2 h3 hf
      rw [if_neg h1, if_neg h2, if_neg h3, if_neg (by simp)]
      generalize hc : groupCount (perBuffer E B M (rs.length + 1)) M 0 (map (fun r => r.length * E) (r :: rs)) = c at *
      have hM' : 2 * B ≤ M ∨ (szs E ((r :: rs).drop c)).sum ≤ M := by
        rcases hM with hM | hM
        · exact Or.inl hM
        · exact Or.inr (Nat.le_trans (szs_drop_sum_le E c (r :: rs)) hM)
      have hlen : ((r :: rs).drop c).length ≤ fuel := by
        simp only [length_drop, length_cons] at hf ⊢; omega
      obtain ⟨gs', hg, _⟩ := ih _ hlen hM'
      rw [hg]
      refine ⟨_, rfl, ?_⟩
      intro h2r
      have hl := codeGroups_length_le E B M false fuel _ gs' hg
      simp only [length_cons, length_drop] at hl h2r h3 ⊢
      omega

/-- the lazy merge never aborts: all remaining runs fit into one queue -/
theorem codeGroups_final_ok {E B : Nat} (hE : 0 < E) (hB : 0 < B) (hdiv : E ∣ B) (M : Nat)
    (r : List α) (rs : List (List α)) (fuel : Nat) (hf : 0 < fuel)
    (hM : (r :: rs).length * B ≤ M ∨ (szs E (r :: rs)).sum ≤ M) :
    codeGroups E B M true fuel (r :: rs) = .ok [r :: rs] := by
  obtain ⟨fuel, rfl⟩ : ∃ f, fuel = f + 1 := ⟨fuel - 1, by omega⟩
  obtain ⟨hpb1, hpb2⟩ := perBuffer_bounds hE hdiv M (r :: rs).length
  have hc : groupCount (perBuffer E B M (r :: rs).length) M 0 (szs E (r :: rs)) = (r :: rs).length := by
    have := groupCount_all (perBuffer E B M (r :: rs).length) M (szs E (r :: rs)) 0 (by
      rcases hM with h | h
      · have hq : B ≤ M / (r :: rs).length := (Nat.le_div_iff_mul_le (by simp)).mpr (by rw [Nat.mul_comm]; exact h)
        have : max B (M / (r :: rs).length) = M / (r :: rs).length := Nat.max_eq_right hq
        rw [this] at hpb2
        have hmul : (r :: rs).length * perBuffer E B M (r :: rs).length ≤ M :=
          Nat.le_trans (Nat.mul_le_mul_left _ hpb2) (Nat.mul_div_le M _)
        have := sum_map_min_le_mul (perBuffer E B M (r :: rs).length) (szs E (r :: rs))
        simp only [szs, length_map] at this ⊢; omega
      · have := sum_map_min_le (perBuffer E B M (r :: rs).length) (szs E (r :: rs)); omega)
    simpa [szs] using this
  simp only [codeGroups]
  simp only [szs] at hc
  rw [hc]
  have hR : (r :: rs).length ≠ 0 := by simp
  rw [if_neg (by omega), if_neg hR, if_neg (by omega), if_neg (by simp)]
  simp only [drop_length, take_length]
  cases fuel <;> simp [codeGroups]

end KV.Sort

namespace KV.Sort
open List

variable {α : Type}

theorem codePass_ok {cfg : Cfg} (L : LegalCfg cfg) (lt : α → α → Bool) (comb) (pick) (reading : Nat)
    (runs : List (List α)) (h2 : 2 ≤ runs.length)
    (hM : 2 * cfg.bufferSize ≤ reading ∨ dataSize cfg runs ≤ reading) :
    ∃ runs', codePass lt comb pick cfg reading runs = .ok runs' ∧ runs'.length < runs.length := by
  match runs, h2 with
  | r1 :: r2 :: rs, h2 =>
    obtain ⟨gs, hg, hlt⟩ := codeGroups_ok L.entryPos L.bufPos L.bufMult reading (r1 :: r2 :: rs).length
      (r1 :: r2 :: rs) (Nat.le_refl _) hM
    simp only [codePass, hg, storeRunsLogged_merge, storeRuns_eq]
    refine ⟨_, rfl, ?_⟩
    have h1 : (nonempties (gs.map (mergeGroup lt comb pick))).length ≤ (gs.map (mergeGroup lt comb pick)).length :=
      length_filter_le _ _
    have := hlt h2
    simp only [length_map] at h1
    omega

theorem codeMergeLoop_ok {cfg : Cfg} (L : LegalCfg cfg) (lt : α → α → Bool) (comb) (pick) (lazyMem : Nat) :
    ∀ (fuel : Nat) (runs : List (List α)) (n : Nat), runs.length ≤ fuel + 1 →
      ∃ runs' n', codeMergeLoop lt comb pick cfg lazyMem fuel runs n = .ok (runs', n') ∧
        (runs'.length ≤ max 1 (lazyMem / cfg.bufferSize) ∨ dataSize cfg runs' ≤ lazyMem) := by
  intro fuel
  induction fuel with
  | zero =>
    intro runs n hf
    unfold codeMergeLoop
    have : runs.length ≤ max 1 (lazyMem / cfg.bufferSize) := Nat.le_trans hf (Nat.le_max_left _ _)
    simp only [this, true_or, ↓reduceIte]
    exact ⟨_, _, rfl, Or.inl this⟩
  | succ fuel ih =>
    intro runs n hf
    unfold codeMergeLoop
    simp only
    by_cases hc : runs.length ≤ max 1 (lazyMem / cfg.bufferSize) ∨ dataSize cfg runs ≤ lazyMem
    · rw [if_pos hc]; exact ⟨_, _, rfl, hc⟩
    · rw [if_neg hc]
      have h2 : 2 ≤ runs.length := by
        have : ¬ runs.length ≤ max 1 (lazyMem / cfg.bufferSize) := fun hh => hc (Or.inl hh)
        have : 1 ≤ max 1 (lazyMem / cfg.bufferSize) := Nat.le_max_left _ _
        omega
      have hM : 2 * cfg.bufferSize ≤ (if dataSize cfg runs < cfg.totalMemory - 2 * cfg.bufferSize then dataSize cfg runs
            else cfg.totalMemory - 2 * cfg.bufferSize) ∨
          dataSize cfg runs ≤ (if dataSize cfg runs < cfg.totalMemory - 2 * cfg.bufferSize then dataSize cfg runs
            else cfg.totalMemory - 2 * cfg.bufferSize) := by
        have := L.fourBuffers
        split
        · right; omega
        · left; omega
      obtain ⟨r1, hp, hlt⟩ := codePass_ok L lt comb pick _ runs h2 hM
      rw [hp]
      exact ih r1 (n + 1) (by omega)

theorem codeFinal_ok {cfg : Cfg} (L : LegalCfg cfg) (lt : α → α → Bool) (comb) (pick) (lazyMem : Nat)
    (runs : List (List α))
    (h : runs.length ≤ max 1 (lazyMem / cfg.bufferSize) ∨ dataSize cfg runs ≤ lazyMem) :
    ∃ out, codeFinal lt comb pick cfg lazyMem runs = .ok out := by
  match runs, h with
  | [], _ => exact ⟨_, rfl⟩
  | [r], _ => exact ⟨_, rfl⟩
  | r1 :: r2 :: rs, h =>
    have hM : (r1 :: r2 :: rs).length * cfg.bufferSize ≤ lazyMem ∨ (szs cfg.entrySize (r1 :: r2 :: rs)).sum ≤ lazyMem := by
      rcases h with h | h
      · left
        have h2 : 2 ≤ (r1 :: r2 :: rs).length := by simp
        have : (r1 :: r2 :: rs).length ≤ lazyMem / cfg.bufferSize := by
          rcases Nat.le_total 1 (lazyMem / cfg.bufferSize) with h1 | h1
          · rwa [Nat.max_eq_right h1] at h
          · rw [Nat.max_eq_left h1] at h; omega
        exact (Nat.le_div_iff_mul_le L.bufPos).mp this
      · right; exact h
    have := codeGroups_final_ok L.entryPos L.bufPos L.bufMult lazyMem r1 (r2 :: rs) (r1 :: r2 :: rs).length
      (by simp) hM
    simp only [codeFinal, this]
    exact ⟨_, rfl⟩

/-- **No abort, no stall**: for every configuration the `Sort` constructor accepts, every
`lazy_memory`, every input and block structure, the arity logic completes: neither
"not merging at least two stripes" nor "should only be one merge group for lazy sort" nor an
empty queue is reachable, and the pass loop terminates within `#runs` passes. -/
theorem codeSort_ok_aux {cfg : Cfg} (L : LegalCfg cfg) (lt : α → α → Bool) (comb) (pick) (lazyMem : Nat)
    (blocks : List (List α)) : ∃ out p ret, codeSort lt comb pick cfg lazyMem blocks = .ok (out, p, ret) := by
  unfold codeSort
  rw [afterBlockSorter_eq]
  simp only
  generalize nonempties (blocks.map (blockSort lt)) = runs
  unfold codeMerge
  by_cases h1 : runs.length ≤ 1
  · rw [if_pos h1]
    simp only
    obtain ⟨out, ho⟩ := codeFinal_ok L lt comb pick lazyMem runs
      (Or.inl (Nat.le_trans h1 (Nat.le_max_left _ _)))
    rw [ho]; exact ⟨_, _, _, rfl⟩
  · rw [if_neg h1]
    obtain ⟨runs', n', hl, hpost⟩ := codeMergeLoop_ok L lt comb pick lazyMem runs.length runs 0 (by omega)
    rw [hl]
    simp only
    obtain ⟨out, ho⟩ := codeFinal_ok L lt comb pick lazyMem runs' hpost
    by_cases hr : runs'.length ≤ 1
    · rw [if_pos hr]; simp only; rw [ho]; exact ⟨_, _, _, rfl⟩
    · rw [if_neg hr]; simp only; rw [ho]; exact ⟨_, _, _, rfl⟩

end KV.Sort

namespace KV.Sort
open List

variable {α : Type}

/-- the loop only exits when the lazy merge is possible -/
theorem codeMergeLoop_post (lt : α → α → Bool) (comb) (pick) (cfg : Cfg) (lazyMem : Nat) :
    ∀ (fuel : Nat) (runs : List (List α)) (n : Nat) (runs' : List (List α)) (n' : Nat),
      codeMergeLoop lt comb pick cfg lazyMem fuel runs n = .ok (runs', n') →
      (runs'.length ≤ max 1 (lazyMem / cfg.bufferSize) ∨ dataSize cfg runs' ≤ lazyMem) := by
  intro fuel
  induction fuel with
  | zero =>
    intro runs n runs' n' h
    unfold codeMergeLoop at h
    simp only at h
    split at h
    · rename_i hc
      simp only [Except.ok.injEq, Prod.mk.injEq] at h
      rw [← h.1]; exact hc
    · cases h
  | succ fuel ih =>
    intro runs n runs' n' h
    unfold codeMergeLoop at h
    simp only at h
    split at h
    · rename_i hc
      simp only [Except.ok.injEq, Prod.mk.injEq] at h
      rw [← h.1]; exact hc
    · split at h
      · cases h
      · exact ih _ _ _ _ h

/-- the value `Sort::Merge` returns when the lazy-merge condition holds for `runs` -/
def mergeRet (cfg : Cfg) (runs : List (List α)) : Nat :=
  if runs.length ≤ 1 then 0 else min (dataSize cfg runs) (runs.length * cfg.bufferSize)

theorem codeMerge_shape (lt : α → α → Bool) (comb) (pick) (cfg : Cfg) (lazyMem : Nat) (runs : List (List α))
    (m : MergeResult α) (h : codeMerge lt comb pick cfg lazyMem runs = .ok m) :
    m.ret = mergeRet cfg m.runs ∧
      (m.runs.length ≤ max 1 (lazyMem / cfg.bufferSize) ∨ dataSize cfg m.runs ≤ lazyMem) := by
  unfold codeMerge at h
  split at h
  · rename_i h1
    simp only [Except.ok.injEq] at h; subst h
    exact ⟨by simp [mergeRet, h1], Or.inl (Nat.le_trans h1 (Nat.le_max_left _ _))⟩
  · split at h
    · cases h
    · rename_i runs' n hl
      have hpost := codeMergeLoop_post lt comb pick cfg lazyMem _ _ _ _ _ hl
      split at h
      · rename_i hr
        simp only [Except.ok.injEq] at h; subst h
        exact ⟨by simp [mergeRet, hr], hpost⟩
      · rename_i hr
        simp only [Except.ok.injEq] at h; subst h
        exact ⟨by simp [mergeRet, hr], hpost⟩

/-- with `lazy_memory = mergeRet` the lazy-merge condition holds -/
theorem mergeRet_cond {cfg : Cfg} (L : LegalCfg cfg) (runs : List (List α)) :
    runs.length ≤ max 1 (mergeRet cfg runs / cfg.bufferSize) ∨ dataSize cfg runs ≤ mergeRet cfg runs := by
  unfold mergeRet
  by_cases h1 : runs.length ≤ 1
  · left; exact Nat.le_trans h1 (Nat.le_max_left _ _)
  · rw [if_neg h1]
    by_cases hs : dataSize cfg runs ≤ runs.length * cfg.bufferSize
    · right; rw [Nat.min_eq_left hs]; exact Nat.le_refl _
    · left
      rw [Nat.min_eq_right (by omega), Nat.mul_div_cancel _ L.bufPos]
      exact Nat.le_max_right _ _

/-- `Merge(mergeRet)` on runs that already satisfy the condition is a no-op returning the same value -/
theorem codeMerge_idem {cfg : Cfg} (L : LegalCfg cfg) (lt : α → α → Bool) (comb) (pick) (runs : List (List α)) :
    codeMerge lt comb pick cfg (mergeRet cfg runs) runs = .ok ⟨runs, 0, mergeRet cfg runs⟩ := by
  unfold codeMerge
  by_cases h1 : runs.length ≤ 1
  · rw [if_pos h1]; simp [mergeRet, h1]
  · rw [if_neg h1]
    have hc := mergeRet_cond L runs
    have hloop : codeMergeLoop lt comb pick cfg (mergeRet cfg runs) runs.length runs 0 = .ok (runs, 0) := by
      unfold codeMergeLoop
      simp only
      rw [if_pos hc]
    rw [hloop]
    simp only
    rw [if_neg h1]
    simp [mergeRet, h1]

theorem mergeRet_le {cfg : Cfg} (L : LegalCfg cfg) (lazyMem : Nat) (runs : List (List α))
    (h : runs.length ≤ max 1 (lazyMem / cfg.bufferSize) ∨ dataSize cfg runs ≤ lazyMem) :
    mergeRet cfg runs ≤ lazyMem := by
  unfold mergeRet
  by_cases h1 : runs.length ≤ 1
  · rw [if_pos h1]; omega
  · rw [if_neg h1]
    rcases h with h | h
    · have : runs.length ≤ lazyMem / cfg.bufferSize := by
        rcases Nat.le_total 1 (lazyMem / cfg.bufferSize) with h2 | h2
        · rwa [Nat.max_eq_right h2] at h
        · rw [Nat.max_eq_left h2] at h; omega
      have := (Nat.le_div_iff_mul_le L.bufPos).mp this
      exact Nat.le_trans (Nat.min_le_right _ _) this
    · exact Nat.le_trans (Nat.min_le_left _ _) h

end KV.Sort
