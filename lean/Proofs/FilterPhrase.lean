import Model.Filter
/-!
Phrase mode: whatever `Tiles` obliges sentence `s` to keep is accepted by the search graph that
`BuildGraph` constructs from the `Substrings` tables (`graphAccept`): neither the `break`s on
absent keys nor the split into right-aligned / whole-phrase / left-aligned arcs lose an
n-gram that can be read off a concatenation of the sentence's phrases.
-/
namespace KV.Filter

theorem isSubstr_nil : ∀ p : List Bytes, isSubstr [] p = true
  | [] => rfl
  | _ :: _ => by simp [isSubstr]

theorem isPrefixOf_take {k q : List Bytes} (m : Nat) (h : k.isPrefixOf q = true) : (k.take m).isPrefixOf q = true := by
  rw [List.isPrefixOf_iff_prefix] at h ⊢
  exact (List.take_prefix m k).trans h

theorem isSubstr_take {k : List Bytes} (m : Nat) : ∀ {p : List Bytes}, isSubstr k p = true → isSubstr (k.take m) p = true
  | [], h => by simp only [isSubstr] at h ⊢; exact isPrefixOf_take m h
  | x :: p, h => by
    simp only [isSubstr, Bool.or_eq_true] at h ⊢
    rcases h with h | h
    · exact Or.inl (isPrefixOf_take m h)
    · exact Or.inr (isSubstr_take m h)

theorem isSubstr_of_prefix {k p : List Bytes} (h : k.isPrefixOf p = true) : isSubstr k p = true := by
  cases p with
  | nil => simpa [isSubstr] using h
  | cons x p => simp [isSubstr, h]

theorem isSubstr_self (k : List Bytes) : isSubstr k k = true :=
  isSubstr_of_prefix (List.isPrefixOf_iff_prefix.mpr (List.prefix_refl k))

theorem isSubstr_append_left (k : List Bytes) : ∀ pre : List Bytes, isSubstr k (pre ++ k) = true
  | [] => isSubstr_self k
  | y :: pre => by simp [isSubstr, isSubstr_append_left k pre]

theorem isSubstr_of_suffix {k p : List Bytes} (h : k.isSuffixOf p = true) : isSubstr k p = true := by
  rw [List.isSuffixOf_iff_suffix] at h
  obtain ⟨pre, rfl⟩ := h
  exact isSubstr_append_left k pre

/-- a part of a phrase of sentence `s` is a key of the table -/
theorem present_of_substr {sents : List (List (List Bytes))} {s : Nat} {p k : List Bytes}
    (hp : p ∈ sents.getD s []) (hk : isSubstr k p = true) : present sents k = true := by
  unfold present
  rw [List.any_eq_true]
  have hmem : sents.getD s [] ∈ sents := by
    by_cases hs : s < sents.length
    · simp only [List.getD_eq_getElem?_getD, List.getElem?_eq_getElem hs, Option.getD_some]
      exact List.getElem_mem hs
    · rw [List.getD_eq_getElem?_getD, List.getElem?_eq_none (by omega)] at hp
      simp at hp
  exact ⟨_, hmem, List.any_eq_true.mpr ⟨p, hp, hk⟩⟩

theorem prefixesPresent_of_substr {sents : List (List (List Bytes))} {s : Nat} {p k : List Bytes}
    (hp : p ∈ sents.getD s []) (hk : isSubstr k p = true) : prefixesPresent sents k = true := by
  unfold prefixesPresent
  rw [List.all_eq_true]
  intro i _
  exact present_of_substr hp (isSubstr_take (i+1) hk)

theorem prefixesPresent_dropLast {sents : List (List (List Bytes))} {s : Nat} {p k : List Bytes}
    (hp : p ∈ sents.getD s []) (hk : isSubstr k p = true) : prefixesPresent sents k.dropLast = true := by
  rw [List.dropLast_eq_take]
  exact prefixesPresent_of_substr hp (isSubstr_take _ hk)

theorem tilesRest_nil (phrases : List (List Bytes)) : ∀ fuel, tilesRest phrases fuel [] = false
  | 0 => rfl
  | fuel+1 => by
    simp only [tilesRest, ne_eq, not_true_eq_false, decide_false, Bool.false_and, Bool.false_or]
    rw [Bool.eq_false_iff]
    intro h
    obtain ⟨p, _, hp⟩ := List.any_eq_true.mp h
    simp only [Bool.and_eq_true, decide_eq_true_eq] at hp
    obtain ⟨⟨hne, hpre⟩, _⟩ := hp
    cases p with
    | nil => exact hne rfl
    | cons x p => simp [List.isPrefixOf] at hpre

/-- a cut into two non-empty parts is one of `cuts` -/
theorem mem_cuts {a b : List Bytes} (ha : a ≠ []) (hb : b ≠ []) : (a, b) ∈ cuts (a ++ b) := by
  unfold cuts
  rw [List.mem_map]
  have hal : 0 < a.length := List.length_pos_iff.mpr ha
  have hbl : 0 < b.length := List.length_pos_iff.mpr hb
  refine ⟨a.length - 1, by simp only [List.mem_range, List.length_append]; omega, ?_⟩
  have : a.length - 1 + 1 = a.length := by omega
  rw [this]
  simp

theorem tilesRest_graphRest {sents : List (List (List Bytes))} {s : Nat} :
    ∀ (fuel : Nat) (r : List Bytes), tilesRest (sents.getD s []) fuel r = true →
      graphRest sents (sents.getD s []) fuel r = true
  | 0, _, h => by simp [tilesRest] at h
  | fuel+1, r, h => by
    simp only [tilesRest, Bool.or_eq_true, Bool.and_eq_true] at h
    simp only [graphRest, Bool.or_eq_true, Bool.and_eq_true]
    rcases h with ⟨hne, hpre⟩ | h
    · left
      refine ⟨⟨hne, ?_⟩, hpre⟩
      obtain ⟨p, hp, hrp⟩ := List.any_eq_true.mp hpre
      exact prefixesPresent_dropLast hp (isSubstr_of_prefix hrp)
    · right
      obtain ⟨p, hp, hh⟩ := List.any_eq_true.mp h
      simp only [Bool.and_eq_true, decide_eq_true_eq] at hh
      obtain ⟨⟨hpne, hpr⟩, hrest⟩ := hh
      have hpre : p <+: r := List.isPrefixOf_iff_prefix.mp hpr
      obtain ⟨t, rfl⟩ := hpre
      have hdrop : (p ++ t).drop p.length = t := by simp
      rw [hdrop] at hrest
      have htne : t ≠ [] := by
        intro ht; subst ht; rw [tilesRest_nil] at hrest; cases hrest
      rw [List.any_eq_true]
      refine ⟨(p, t), mem_cuts hpne htne, ?_⟩
      simp only [Bool.and_eq_true]
      refine ⟨⟨prefixesPresent_of_substr hp (isSubstr_self p), ?_⟩, tilesRest_graphRest fuel t hrest⟩
      exact List.contains_iff_mem.mpr hp |> fun h => by simpa using h

/-- **phrase_sound** (for the search graph): an n-gram that `Tiles` obliges sentence `s` to keep
is accepted by the graph `BuildGraph` builds for it -/
theorem tilesB_graphAccept (sents : List (List (List Bytes))) (s : Nat) (g : List Bytes)
    (h : tilesB (sents.getD s []) g = true) : graphAccept sents s g = true := by
  simp only [tilesB, Bool.or_eq_true] at h
  simp only [graphAccept, Bool.or_eq_true, Bool.and_eq_true]
  rcases h with h | h
  · left
    obtain ⟨p, hp, hk⟩ := List.any_eq_true.mp h
    exact ⟨prefixesPresent_dropLast hp hk, h⟩
  · right
    obtain ⟨c, hc, hh⟩ := List.any_eq_true.mp h
    simp only [Bool.and_eq_true] at hh
    obtain ⟨hsuf, hrest⟩ := hh
    rw [List.any_eq_true]
    refine ⟨c, hc, ?_⟩
    simp only [Bool.and_eq_true]
    obtain ⟨p, hp, hcp⟩ := List.any_eq_true.mp hsuf
    exact ⟨⟨prefixesPresent_of_substr hp (isSubstr_of_suffix hcp), hsuf⟩, tilesRest_graphRest _ _ hrest⟩

end KV.Filter

namespace KV.Filter

/-- `g` can be read off a concatenation of phrases: it is a contiguous part of one phrase, or a
non-empty end of a phrase, then whole phrases, then a non-empty beginning of a phrase -/
def Tiles (phrases : List (List Bytes)) (g : List Bytes) : Prop :=
  (∃ p ∈ phrases, ∃ a b, p = a ++ g ++ b) ∨
  (∃ (suf : List Bytes) (mid : List (List Bytes)) (pre : List Bytes),
     g = suf ++ (mid.flatten ++ pre) ∧ suf ≠ [] ∧ pre ≠ [] ∧ (∀ m ∈ mid, m ∈ phrases ∧ m ≠ []) ∧
     (∃ p ∈ phrases, ∃ a, p = a ++ suf) ∧ (∃ p ∈ phrases, ∃ b, p = pre ++ b))

theorem isSubstr_mid (g b : List Bytes) : ∀ a : List Bytes, isSubstr g (a ++ g ++ b) = true
  | [] => isSubstr_of_prefix (List.isPrefixOf_iff_prefix.mpr ⟨b, by simp⟩)
  | y :: a => by
    have := isSubstr_mid g b a
    simp only [List.cons_append, isSubstr, Bool.or_eq_true]
    exact Or.inr (by simpa using this)

theorem tilesRest_of_mid (phrases : List (List Bytes)) (pre : List Bytes) (hpre : pre ≠ [])
    (hp : ∃ p ∈ phrases, ∃ b, p = pre ++ b) :
    ∀ (mid : List (List Bytes)), (∀ m ∈ mid, m ∈ phrases ∧ m ≠ []) →
      ∀ fuel, (mid.flatten ++ pre).length < fuel → tilesRest phrases fuel (mid.flatten ++ pre) = true
  | [], _, fuel, hf => by
    cases fuel with
    | zero => omega
    | succ fuel =>
      obtain ⟨p, hpm, b, rfl⟩ := hp
      simp only [List.flatten_nil, List.nil_append, tilesRest, Bool.or_eq_true, Bool.and_eq_true]
      left
      refine ⟨by simpa using hpre, ?_⟩
      exact List.any_eq_true.mpr ⟨_, hpm, List.isPrefixOf_iff_prefix.mpr ⟨b, rfl⟩⟩
  | m :: ms, hm, fuel, hf => by
    cases fuel with
    | zero => omega
    | succ fuel =>
      obtain ⟨hmp, hmne⟩ := hm m List.mem_cons_self
      have hml : 0 < m.length := List.length_pos_iff.mpr hmne
      have ih := tilesRest_of_mid phrases pre hpre hp ms (fun x hx => hm x (List.mem_cons_of_mem _ hx)) fuel (by
        simp only [List.flatten_cons, List.append_assoc, List.length_append] at hf ⊢; omega)
      simp only [List.flatten_cons, List.append_assoc, tilesRest, Bool.or_eq_true, Bool.and_eq_true]
      right
      refine List.any_eq_true.mpr ⟨m, hmp, ?_⟩
      simp only [Bool.and_eq_true, decide_eq_true_eq]
      refine ⟨⟨hmne, List.isPrefixOf_iff_prefix.mpr ⟨_, rfl⟩⟩, ?_⟩
      simpa using ih

/-- the executable specification decides (at least) `Tiles` -/
theorem tilesB_of_Tiles (phrases : List (List Bytes)) (g : List Bytes) (h : Tiles phrases g) : tilesB phrases g = true := by
  simp only [tilesB, Bool.or_eq_true]
  rcases h with ⟨p, hp, a, b, rfl⟩ | ⟨suf, mid, pre, rfl, hsuf, hpre, hmid, ⟨p, hp, a, rfl⟩, hq⟩
  · left
    exact List.any_eq_true.mpr ⟨_, hp, isSubstr_mid g b a⟩
  · right
    have hrne : mid.flatten ++ pre ≠ [] := by simp [hpre]
    refine List.any_eq_true.mpr ⟨(suf, mid.flatten ++ pre), mem_cuts hsuf hrne, ?_⟩
    simp only [Bool.and_eq_true]
    refine ⟨List.any_eq_true.mpr ⟨_, hp, List.isSuffixOf_iff_suffix.mpr ⟨a, rfl⟩⟩, ?_⟩
    exact tilesRest_of_mid phrases pre hpre hq mid hmid _ (by omega)

end KV.Filter
