import Model.ProbingBuild
import Properties.C20
/-! Table operations of the probing builder lifted from the C20 theorems: an order's table together with its payload
refines a finite map key ↦ payload index; capacity ⇒ `probingSize`, never `diverge`. -/
namespace KV.ProbingBuild
open KV.Arpa KV.Score KV.ProbingLM KV.Probing

/-- the order's table represents the map `M` (key ↦ payload index) -/
structure OrdInv (o : Ord) (M : Nat → Option Nat) : Prop where
  inv : Inv id o.t
  abs : Abs o.t M
  idx : ∀ k i, M k = some i → i < o.pay.length

theorem emptyOrd_inv (N : Nat) (hN : 0 < N) : OrdInv (emptyOrd N) (fun _ => none) :=
  ⟨Inv_empty id N hN, Abs_empty N, fun _ _ h => by cases h⟩

theorem ord_find {o : Ord} {M : Nat → Option Nat} (h : OrdInv o M) (k : Nat) : o.find k = .ok (M k) := by
  unfold Ord.find
  rw [KV.C20.find_correct id o.t M h.inv h.abs k]

/-- `Insert` of a fresh key below capacity -/
theorem ord_insert {o : Ord} {M : Nat → Option Nat} (h : OrdInv o M) (k : Nat) (w : W) (hM : M k = none)
    (hc : o.t.entries + 1 < o.t.N) :
    ∃ o', o.insert k w = .ok o' ∧ OrdInv o' (upd M k o.pay.length) ∧ o'.pay = o.pay ++ [w] ∧
      o'.t.N = o.t.N ∧ o'.t.entries = o.t.entries + 1 := by
  obtain ⟨q, t', hi, inv', abs', hN, he, _, _⟩ := KV.C20.insert_spec id o.t M k o.pay.length h.inv h.abs hM hc
  refine ⟨{ t := t', pay := o.pay ++ [w] }, ?_, ⟨inv', abs', ?_⟩, rfl, hN, he⟩
  · simp [Ord.insert, hi, tableOp, bind, Except.bind]
  · intro k' i hk
    unfold upd at hk
    simp only [List.length_append, List.length_cons, List.length_nil]
    split at hk
    · cases hk; omega
    · have := h.idx k' i hk; omega

/-- **capacity ⇒ ProbingSizeException** (`++entries_ >= buckets_`), for `Insert` … -/
theorem ord_insert_full {o : Ord} {M : Nat → Option Nat} (h : OrdInv o M) (k : Nat) (w : W)
    (hc : o.t.entries + 1 ≥ o.t.N) : o.insert k w = .error .probingSize := by
  have := (KV.C20.full_throws id o.t M k o.pay.length h.inv h.abs hc).1
  simp [Ord.insert, this, tableOp, bind, Except.bind]

/-- … and for `FindOrInsert` of an absent key -/
theorem ord_findOrInsert_full {o : Ord} {M : Nat → Option Nat} (h : OrdInv o M) (k : Nat) (w : W) (hM : M k = none)
    (hc : o.t.entries + 1 ≥ o.t.N) : o.findOrInsert k w = .error .probingSize := by
  have := (KV.C20.full_throws id o.t M k o.pay.length h.inv h.abs hc).2.1 hM
  simp [Ord.findOrInsert, this, tableOp, bind, Except.bind]

theorem ord_findOrInsert_found {o : Ord} {M : Nat → Option Nat} (h : OrdInv o M) (k : Nat) (w : W) (i : Nat)
    (hM : M k = some i) : o.findOrInsert k w = .ok (true, i, o) := by
  obtain ⟨p, hf, _, _⟩ := (KV.C20.findOrInsert_spec id o.t M k o.pay.length h.inv h.abs).1 i hM
  simp [Ord.findOrInsert, hf, tableOp, bind, Except.bind]

theorem ord_findOrInsert_new {o : Ord} {M : Nat → Option Nat} (h : OrdInv o M) (k : Nat) (w : W) (hM : M k = none)
    (hc : o.t.entries + 1 < o.t.N) :
    ∃ o', o.findOrInsert k w = .ok (false, o.pay.length, o') ∧ OrdInv o' (upd M k o.pay.length) ∧
      o'.pay = o.pay ++ [w] ∧ o'.t.N = o.t.N ∧ o'.t.entries = o.t.entries + 1 := by
  obtain ⟨p, t', hf, inv', abs', hN, he, _, _⟩ := (KV.C20.findOrInsert_spec id o.t M k o.pay.length h.inv h.abs).2 hM hc
  refine ⟨{ t := t', pay := o.pay ++ [w] }, ?_, ⟨inv', abs', ?_⟩, rfl, hN, he⟩
  · simp [Ord.findOrInsert, hf, tableOp, bind, Except.bind]
  · intro k' i hk
    unfold upd at hk
    simp only [List.length_append, List.length_cons, List.length_nil]
    split at hk
    · cases hk; omega
    · have := h.idx k' i hk; omega

/-- payload updates do not touch the table -/
theorem ordInv_setPay {o : Ord} {M : Nat → Option Nat} (h : OrdInv o M) (i : Nat) (w : W) :
    OrdInv { o with pay := o.pay.set i w } M :=
  ⟨h.inv, h.abs, fun k j hk => by simpa using h.idx k j hk⟩

/-- **missing context ⇒ FormatLoadException** in `ActivateLowerMiddle`, and only then -/
theorem activate_format_iff (combine : Nat → Word → Nat) (g : List Word) (n : Nat) (hn : n ≠ 2) (s : St) (M : Nat → Option Nat)
    (h : OrdInv (s.mid.getD (n - 3) default) M) :
    activate combine g n s = .error .format ↔ M (hashOf combine (g.drop 1)) = none := by
  unfold activate
  have hb : (n == 2) = false := by simpa using hn
  simp only [hb, Bool.false_eq_true, if_false]
  rw [ord_find h]
  cases hm : M (hashOf combine (g.drop 1)) with
  | none => simp [bind, Except.bind]
  | some i => simp [bind, Except.bind]

end KV.ProbingBuild
