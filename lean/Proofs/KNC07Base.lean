import Proofs.KNCount
/-!
The composition statement of C07 (`Opts`, `Impl`, `lmplzOut`, `lmplzSpec` and the theorems
`lmplz_eq_spec`, `lmplz_indep` of `Properties/C07.lean`), kept here so that the files which discharge
its hypotheses (`Proofs/KNC07Discharge.lean`, `Proofs/VocabC07Bridge.lean`) and `Properties/C07.lean`
can all import it without a cycle.  Core Lean only.

`lmplz_eq_spec_core` is the form the discharge needs: the sort hypothesis is asked only for the blocks
that actually leave CorpusCount (C16's external sort does *not* combine inside a single block — that
block is copied by `ReadSingle` — so "= combineSorted ∘ mergeSort" holds for duplicate-free blocks,
which CorpusCount's are, not for arbitrary ones).
-/
namespace KV.C07
open KV.KN KV.KN.Count

/-- the modelling options (everything on the command line that is *meant* to change the model) -/
structure Opts where
  /-- order, pruning thresholds, `--limit_vocab_file` exclusions, `--interpolate_unigrams` -/
  cfg : Cfg
  pruneVocab : Bool
  /-- `--discount_fallback` -/
  fallback : Option Disc

/-- The parts of `lmplz` outside `Model/KNCount.lean`, *as executed* under a memory configuration
`m : Mem` (`-S`, `--sort_block`, `--minimum_block`, `--block_count`, `--vocab_estimate`, `-T`) and a
thread schedule `s : Sched`.  Nothing is assumed about them here; the theorems below take the facts
they need as hypotheses. -/
structure Impl (Mem Sched Text Out : Type) where
  /-- slots per block of the CorpusCount chain (`pipeline.cc` + `chain.cc:43`) -/
  cap : Mem → Nat
  /-- tokeniser + `GrowableVocab` (initial size from `--vocab_estimate`, doubling): the id sequences
  of the lines, special words skipped -/
  encode : Mem → Text → List (List Word)
  /-- `Sort<SuffixOrder, CombineCounts>`: block sort, spill to `-T`, multi-pass / lazy merge -/
  sortCombine : Mem → Sched → List (List Rec) → List Rec
  /-- AdjustCounts … Interpolate … PrintARPA / `--intermediate` writer, run as threads over chains
  (with further external sorts between them) -/
  post : Mem → Sched → Opts → List Rec → Out

/-- the tool: `post ∘ sortCombine ∘ corpusCount ∘ encode` -/
def lmplzOut {Mem Sched Text Out : Type} (I : Impl Mem Sched Text Out) (m : Mem) (s : Sched) (opts : Opts)
    (text : Text) : Out :=
  I.post m s opts (I.sortCombine m s (corpusCount opts.cfg.order (I.cap m) (I.encode m text)))

/-- the configuration-free specification: C05's `estimate` on the ids by first occurrence, rendered -/
def lmplzSpec {Text Out : Type} (render : Except Err Model → Out) (ids : Text → List (List Word)) (opts : Opts)
    (text : Text) : Out :=
  render (estimate opts.cfg opts.pruneVocab opts.fallback (ids text))

/-- core form: `h_sort` only for the blocks CorpusCount produces from the first-occurrence ids -/
theorem lmplz_eq_spec_core {Mem Sched Text Out : Type} (I : Impl Mem Sched Text Out)
    (render : Except Err Model → Out) (ids : Text → List (List Word)) (opts : Opts) (hN : 1 ≤ opts.cfg.order)
    (text : Text)
    (h_vocab : ∀ m, I.encode m text = ids text)
    (h_ids : ∀ s ∈ ids text, ∀ w ∈ s, isSpecial w = false)
    (h_sort : ∀ m s, I.sortCombine m s (corpusCount opts.cfg.order (I.cap m) (ids text)) =
      combineSorted ((corpusCount opts.cfg.order (I.cap m) (ids text)).flatten.mergeSort gramLe))
    (h_chain : ∀ m s full, I.post m s opts full = render (estimateFrom opts.cfg opts.pruneVocab opts.fallback full))
    (m : Mem) (s : Sched) :
    lmplzOut I m s opts text = lmplzSpec render ids opts text := by
  unfold lmplzOut lmplzSpec estimate
  rw [h_chain, h_vocab, h_sort]
  by_cases h1 : opts.cfg.order ≤ 1
  · have e1 : opts.cfg.order = 1 := by omega
    rw [if_pos h1, e1, sortCombine_one]
    intro l hl w hw
    have := h_ids l hl w hw
    simp only [isSpecial, unk, bos, eos, Bool.or_eq_false_iff, beq_eq_false_iff_ne] at this
    have h0 : w ≠ 0 := this.1.1
    have h1 : w ≠ 1 := this.1.2
    exact Nat.lt_of_le_of_ne (Nat.pos_of_ne_zero h0) (Ne.symm h1)
  · rw [if_neg h1, sortCombine_ge2 (by omega)]

/-- the statement of `KV.C07.lmplz_eq_spec` -/
theorem lmplz_eq_spec_base {Mem Sched Text Out : Type} (I : Impl Mem Sched Text Out)
    (render : Except Err Model → Out) (ids : Text → List (List Word)) (opts : Opts) (hN : 1 ≤ opts.cfg.order)
    (text : Text)
    (h_vocab : ∀ m, I.encode m text = ids text)
    (h_ids : ∀ s ∈ ids text, ∀ w ∈ s, isSpecial w = false)
    (h_sort : ∀ m s blocks, I.sortCombine m s blocks = combineSorted (blocks.flatten.mergeSort gramLe))
    (h_chain : ∀ m s full, I.post m s opts full = render (estimateFrom opts.cfg opts.pruneVocab opts.fallback full))
    (m : Mem) (s : Sched) :
    lmplzOut I m s opts text = lmplzSpec render ids opts text :=
  lmplz_eq_spec_core I render ids opts hN text h_vocab h_ids (fun m s => h_sort m s _) h_chain m s

/-- the statement of `KV.C07.lmplz_indep` -/
theorem lmplz_indep_base {Mem Sched Text Out : Type} (I : Impl Mem Sched Text Out)
    (render : Except Err Model → Out) (ids : Text → List (List Word)) (opts : Opts) (hN : 1 ≤ opts.cfg.order)
    (text : Text)
    (h_vocab : ∀ m, I.encode m text = ids text)
    (h_ids : ∀ s ∈ ids text, ∀ w ∈ s, isSpecial w = false)
    (h_sort : ∀ m s blocks, I.sortCombine m s blocks = combineSorted (blocks.flatten.mergeSort gramLe))
    (h_chain : ∀ m s full, I.post m s opts full = render (estimateFrom opts.cfg opts.pruneVocab opts.fallback full))
    (m₁ m₂ : Mem) (s₁ s₂ : Sched) :
    lmplzOut I m₁ s₁ opts text = lmplzOut I m₂ s₂ opts text := by
  rw [lmplz_eq_spec_base I render ids opts hN text h_vocab h_ids h_sort h_chain,
    lmplz_eq_spec_base I render ids opts hN text h_vocab h_ids h_sort h_chain]

end KV.C07
