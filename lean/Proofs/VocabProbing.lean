import Model.Vocab
import Proofs.ProbingRun
/-!
`ProbingVocabulary`: ids in file order (`<unk>` / `<UNK>` are 0 and never enter the table),
`Index` returns the id of an inserted word and 0 for everything else.
-/
namespace KV.Vocab
open KV.Probing

def isUnk (sp : Specials) (k : Nat) : Bool := k = sp.unk || k = sp.unkCap

/-- the ids `Insert` returns, `n` = current `bound_` -/
def pSpecIds (sp : Specials) : Nat → List Nat → List Nat
  | _, [] => []
  | n, k :: ks => if isUnk sp k then 0 :: pSpecIds sp n ks else n :: pSpecIds sp (n + 1) ks

/-- the map a list of distinct keys in file order stands for: position + 1 -/
def mapOfP (seen : List Nat) : Nat → Option Nat := fun k => if k ∈ seen then some (seen.idxOf k + 1) else none

theorem mapOfP_append (seen : List Nat) (k : Nat) (hk : k ∉ seen) :
    ∀ x, upd (mapOfP seen) k (seen.length + 1) x = mapOfP (seen ++ [k]) x := by
  intro x
  unfold upd mapOfP
  by_cases hx : x = k
  · subst hx
    simp [List.idxOf_append, hk]
  · by_cases hm : x ∈ seen
    · simp [hx, hm, List.idxOf_append]
    · simp [hx, hm]

structure PRep (v : PVocab) (seen : List Nat) : Prop where
  inv : Inv id v.t
  abs : Abs v.t (mapOfP seen)
  cnt : v.t.entries = seen.length
  bound : v.bound = seen.length + 1

theorem pNew_rep (N : Nat) (hN : 0 < N) : PRep (pNew N) [] := by
  refine ⟨Inv_empty id N hN, ?_, rfl, rfl⟩
  have e : mapOfP [] = fun _ => none := by funext k; simp [mapOfP]
  rw [e]; exact Abs_empty N

theorem pInsert_unk (sp : Specials) (v : PVocab) (k : Nat) (hk : isUnk sp k = true) :
    pInsert sp v k = .ok (0, { v with sawUnk := true }) := by
  have : k = sp.unk ∨ k = sp.unkCap := by simpa [isUnk] using hk
  simp [pInsert, this]

theorem pInsert_new (sp : Specials) (v : PVocab) (seen : List Nat) (k : Nat) (r : PRep v seen)
    (hk : isUnk sp k = false) (hfresh : k ∉ seen) (hroom : seen.length + 1 < v.t.N) :
    ∃ v', pInsert sp v k = .ok (seen.length + 1, v') ∧ PRep v' (seen ++ [k]) ∧ v'.sawUnk = v.sawUnk ∧ v'.t.N = v.t.N := by
  obtain ⟨inv, abs, hcnt, hb⟩ := r
  have hnu : ¬ (k = sp.unk ∨ k = sp.unkCap) := by simpa [isUnk] using hk
  have hM : mapOfP seen k = none := by simp [mapOfP, hfresh]
  obtain ⟨q, t', hi, inv', abs', hN, hE, _, _⟩ := insert_spec' id v.t (mapOfP seen) k v.bound inv abs hM (by omega)
  refine ⟨{ v with t := t', bound := v.bound + 1 }, ?_, ⟨inv', ?_, ?_, ?_⟩, rfl, hN⟩
  · rw [hb] at hi
    simp [pInsert, hnu, hi, hb]
  · exact fun k' v' => by
      have := abs' k' v'
      rw [hb, mapOfP_append seen k hfresh k'] at this
      exact this
  · show t'.entries = (seen ++ [k]).length; simp; omega
  · show v.bound + 1 = (seen ++ [k]).length + 1; simp; omega

/-- **`ProbingVocabulary::Index`** -/
theorem pIndex_spec (v : PVocab) (seen : List Nat) (r : PRep v seen) (k : Nat) :
    pIndex v k = some (if k ∈ seen then seen.idxOf k + 1 else 0) := by
  unfold pIndex
  rw [find_correct' id v.t (mapOfP seen) r.inv r.abs k]
  unfold mapOfP
  by_cases hm : k ∈ seen <;> simp [hm]

/-- loading a whole unigram section -/
theorem pInsertAll_spec (sp : Specials) : ∀ (ws : List Nat) (v : PVocab) (seen : List Nat), PRep v seen →
    (seen ++ ws.filter (fun k => !isUnk sp k)).Nodup →
    (seen ++ ws.filter (fun k => !isUnk sp k)).length < v.t.N →
    ∃ v', pInsertAll sp v ws = .ok (pSpecIds sp (seen.length + 1) ws, v') ∧
      PRep v' (seen ++ ws.filter (fun k => !isUnk sp k)) ∧
      v'.sawUnk = (v.sawUnk || ws.any (isUnk sp)) := by
  intro ws
  induction ws with
  | nil =>
    intro v seen r _ _
    exact ⟨v, rfl, by simpa using r, by simp⟩
  | cons k ks ih =>
    intro v seen r hnd hlen
    cases hk : isUnk sp k with
    | true =>
      have hf : (k :: ks).filter (fun k => !isUnk sp k) = ks.filter (fun k => !isUnk sp k) := by simp [hk]
      rw [hf] at hnd hlen ⊢
      have r' : PRep { v with sawUnk := true } seen := ⟨r.inv, r.abs, r.cnt, r.bound⟩
      obtain ⟨v', h1, r1, hs⟩ := ih { v with sawUnk := true } seen r' hnd hlen
      refine ⟨v', ?_, r1, ?_⟩
      · simp [pInsertAll, pInsert_unk sp v k hk, h1, pSpecIds, hk]
      · rw [hs]; simp [hk]
    | false =>
      have hf : (k :: ks).filter (fun k => !isUnk sp k) = k :: ks.filter (fun k => !isUnk sp k) := by simp [hk]
      rw [hf] at hnd hlen ⊢
      have hfresh : k ∉ seen := by
        intro hm
        have := (List.nodup_append.1 hnd).2.2 k hm k (by simp)
        exact this rfl
      have hroom : seen.length + 1 < v.t.N := by simp at hlen; omega
      obtain ⟨v1, hi, r1, hs1, hN1⟩ := pInsert_new sp v seen k r hk hfresh hroom
      have e : seen ++ k :: ks.filter (fun k => !isUnk sp k) = (seen ++ [k]) ++ ks.filter (fun k => !isUnk sp k) := by simp
      rw [e] at hnd hlen ⊢
      obtain ⟨v', h1, r', hs⟩ := ih v1 (seen ++ [k]) r1 hnd (by rw [hN1]; exact hlen)
      refine ⟨v', ?_, r', ?_⟩
      · have hl : (seen ++ [k]).length + 1 = seen.length + 1 + 1 := by simp
        rw [hl] at h1
        simp [pInsertAll, hi, h1, pSpecIds, hk]
      · rw [hs, hs1]; simp [hk]

end KV.Vocab
