import Model.PyTokenize
/-! Helper lemmas for C14: both tokenisers refine `splitSpec`; fold lemmas. Core only. -/
namespace KV.PyTokenize

/-! ### `find` in terms of takeWhile / dropWhile, `pieces` in terms of `find` -/

theorem find_fst (p : Nat → Bool) (s : Bytes) : (find p s).1 = s.takeWhile (fun c => !p c) := by
  induction s with
  | nil => simp [find]
  | cons b bs ih =>
    unfold find
    by_cases h : p b <;> simp [h, ih]

theorem find_snd (p : Nat → Bool) (s : Bytes) :
    (find p s).2 = match s.dropWhile (fun c => !p c) with | [] => none | _ :: r => some r := by
  induction s with
  | nil => simp [find]
  | cons b bs ih =>
    unfold find
    by_cases h : p b <;> simp [h, ih]

theorem pieces_find (p : Nat → Bool) (s : Bytes) :
    pieces p s = (find p s).1 :: (match (find p s).2 with | none => [] | some r => pieces p r) := by
  induction s with
  | nil => simp [pieces, find]
  | cons b bs ih =>
    by_cases h : p b
    · simp [pieces, find, h]
    · have e1 : ∀ t ts, pieces p bs = t :: ts → pieces p (b :: bs) = (b :: t) :: ts := by
        intro t ts ht; simp [pieces, h, ht]
      have e2 : find p (b :: bs) = ((b :: (find p bs).1), (find p bs).2) := by
        simp [find, h]
      rw [e1 _ _ ih, e2]

theorem pieces_ne_nil (p : Nat → Bool) (s : Bytes) : pieces p s ≠ [] := by
  rw [pieces_find]; simp

/-- what the spec says after a `find` -/
theorem splitSpec_find (p : Nat → Bool) (s : Bytes) :
    splitSpec p s =
      (if (find p s).1.isEmpty then [] else [(find p s).1]) ++
        (match (find p s).2 with | none => [] | some r => splitSpec p r) := by
  unfold splitSpec
  rw [pieces_find p s]
  cases h2 : (find p s).2 <;> by_cases h1 : (find p s).1.isEmpty <;> simp [List.filter, h1]

/-! ### TokenIter refines the spec -/

def specOpt (p : Nat → Bool) : Option Bytes → List Bytes
  | none => []
  | some s => splitSpec p s

theorem collect_eq (p : Nat → Bool) (a : Option Bytes) :
    collect p a = match (advance p a).current with
      | none => []
      | some tok => tok :: collect p (advance p a).after := by
  rw [collect]
  split <;> simp_all

theorem advance_none (p : Nat → Bool) : advance p none = ⟨none, none⟩ := by
  rw [advance]

theorem advance_some (p : Nat → Bool) (a : Bytes) :
    advance p (some a) =
      if (find p a).1.isEmpty then advance p (find p a).2 else ⟨some (find p a).1, (find p a).2⟩ := by
  rw [advance]

theorem collect_congr (p : Nat → Bool) (a b : Option Bytes) (h : advance p a = advance p b) :
    collect p a = collect p b := by
  rw [collect_eq p a, collect_eq p b, h]

theorem collect_spec (p : Nat → Bool) : ∀ (n : Nat) (a : Option Bytes), meas a ≤ n → collect p a = specOpt p a := by
  intro n
  induction n with
  | zero =>
    intro a h
    cases a with
    | none => rw [collect_eq, advance_none]; rfl
    | some s => simp [meas] at h
  | succ n ih =>
    intro a h
    cases a with
    | none => rw [collect_eq, advance_none]; rfl
    | some s =>
      have hm := find_meas p s
      have hle : meas (find p s).2 ≤ n := by omega
      simp only [specOpt]
      rw [splitSpec_find]
      by_cases h1 : (find p s).1.isEmpty
      · rw [collect_congr p (some s) (find p s).2 (by rw [advance_some, if_pos h1])]
        rw [ih _ hle]
        simp only [h1, if_true, List.nil_append]
        cases (find p s).2 <;> rfl
      · rw [collect_eq, advance_some, if_neg h1]
        simp only [h1]
        rw [ih _ hle]
        cases (find p s).2 <;> simp [specOpt]

theorem collect_some_spec (p : Nat → Bool) (s : Bytes) : collect p (some s) = splitSpec p s :=
  collect_spec p _ (some s) (Nat.le_refl _)

/-! ### `bytes.split()` refines the spec -/

theorem splitSpec_nil (p : Nat → Bool) : splitSpec p [] = [] := by
  simp [splitSpec, pieces]

theorem splitSpec_cons_delim (p : Nat → Bool) (b : Nat) (bs : Bytes) (h : p b = true) :
    splitSpec p (b :: bs) = splitSpec p bs := by
  simp [splitSpec, pieces, h]

theorem splitSpec_dropWhile (p : Nat → Bool) (s : Bytes) : splitSpec p (s.dropWhile p) = splitSpec p s := by
  induction s with
  | nil => rfl
  | cons b bs ih =>
    by_cases h : p b
    · rw [List.dropWhile_cons_of_pos h, ih, splitSpec_cons_delim p b bs h]
    · rw [List.dropWhile_cons_of_neg h]

theorem head_dropWhile (q : Nat → Bool) (s : Bytes) (b : Nat) (bs : Bytes) (h : s.dropWhile q = b :: bs) : q b = false := by
  induction s with
  | nil => simp at h
  | cons c cs ih =>
    by_cases hc : q c
    · rw [List.dropWhile_cons_of_pos hc] at h; exact ih h
    · rw [List.dropWhile_cons_of_neg hc] at h
      injection h with h1 _
      subst h1; simpa using hc

theorem splitSpec_cons_word (p : Nat → Bool) (b : Nat) (bs : Bytes) (h : p b = false) :
    splitSpec p (b :: bs) =
      (b :: bs.takeWhile (fun c => !p c)) :: splitSpec p (bs.dropWhile (fun c => !p c)) := by
  rw [splitSpec_find]
  have h1 : (find p (b :: bs)).1 = b :: bs.takeWhile (fun c => !p c) := by
    rw [find_fst]; simp [List.takeWhile, h]
  have h2 : (find p (b :: bs)).2 = match bs.dropWhile (fun c => !p c) with | [] => none | _ :: r => some r := by
    rw [find_snd]; simp [List.dropWhile, h]
  rw [h1, h2]
  simp only [List.isEmpty_cons, Bool.false_eq_true, if_false, List.singleton_append, List.cons.injEq, true_and]
  cases hd : bs.dropWhile (fun c => !p c) with
  | nil => simp [splitSpec_nil]
  | cons d r =>
    have hpd : p d = true := by
      have := head_dropWhile (fun c => !p c) bs d r hd
      simpa using this
    simp [splitSpec_cons_delim p d r hpd]

theorem pySplit_eq (s : Bytes) :
    pySplit s = match s.dropWhile pySpace with
      | [] => []
      | b :: bs => (b :: bs.takeWhile (fun c => !pySpace c)) :: pySplit (bs.dropWhile (fun c => !pySpace c)) := by
  rw [pySplit]
  split <;> simp_all

theorem pySplit_spec : ∀ (n : Nat) (s : Bytes), s.length ≤ n → pySplit s = splitSpec pySpace s := by
  intro n
  induction n with
  | zero =>
    intro s h
    have : s = [] := List.eq_nil_of_length_eq_zero (by omega)
    subst this
    rw [pySplit_eq]; simp [splitSpec_nil]
  | succ n ih =>
    intro s h
    rw [pySplit_eq, ← splitSpec_dropWhile pySpace s]
    have hl := length_dropWhile_le pySpace s
    cases hd : s.dropWhile pySpace with
    | nil => simp [splitSpec_nil]
    | cons b bs =>
      have hb : pySpace b = false := head_dropWhile pySpace s b bs hd
      simp only
      rw [splitSpec_cons_word pySpace b bs hb]
      have h2 := length_dropWhile_le (fun c => !pySpace c) bs
      rw [hd] at hl
      simp at hl
      rw [ih _ (by omega)]

theorem pySplit_eq_spec (s : Bytes) : pySplit s = splitSpec pySpace s := pySplit_spec _ s (Nat.le_refl _)

/-! ### `query`'s reader refines the spec on a line -/

theorem queryWords_eq (p : Nat → Bool) (s : Bytes) :
    queryWords p s = match readWordSameLine p s with
      | none => []
      | some (w, r) => w :: queryWords p r := by
  rw [queryWords]
  split <;> simp_all

/-- on a line (no `'\n'` before its end) `query` sees exactly the maximal delimiter-free runs -/
theorem queryWords_spec (p : Nat → Bool) : ∀ (n : Nat) (s : Bytes), s.length ≤ n → 10 ∉ s →
    queryWords p s = splitSpec p s := by
  intro n
  induction n with
  | zero =>
    intro s h _
    have : s = [] := List.eq_nil_of_length_eq_zero (by omega)
    subst this
    rw [queryWords_eq]; simp [readWordSameLine, splitSpec_nil]
  | succ n ih =>
    intro s h h10
    cases s with
    | nil => rw [queryWords_eq]; simp [readWordSameLine, splitSpec_nil]
    | cons b bs =>
      have hb10 : (b == 10) = false := by
        have : b ≠ 10 := by intro e; subst e; simp at h10
        simpa using this
      have hbs10 : 10 ∉ bs := fun hm => h10 (List.mem_cons_of_mem _ hm)
      by_cases hb : p b
      · have e : queryWords p (b :: bs) = queryWords p bs := by
          rw [queryWords_eq p (b :: bs), queryWords_eq p bs]
          simp [readWordSameLine, hb, hb10]
        rw [e, splitSpec_cons_delim p b bs hb]
        exact ih bs (by simp at h; omega) hbs10
      · have hbf : p b = false := by simpa using hb
        rw [queryWords_eq, splitSpec_cons_word p b bs hbf]
        simp only [readWordSameLine, hbf, Bool.false_eq_true, if_false, List.takeWhile, List.dropWhile, Bool.not_false]
        have hl := length_dropWhile_le (fun c => !p c) bs
        have h10' : 10 ∉ bs.dropWhile (fun c => !p c) := by
          intro hm
          exact hbs10 ((List.dropWhile_suffix _).subset hm)
        rw [ih _ (by simp at h; omega) h10']


theorem queryWords_eq_spec (p : Nat → Bool) (s : Bytes) (h : 10 ∉ s) : queryWords p s = splitSpec p s :=
  queryWords_spec p _ s (Nat.le_refl _) h

/-! ### structure of the spec: tokens are non-empty, delimiter-free, and concatenate to the non-delimiters -/

theorem pieces_flatten (p : Nat → Bool) (s : Bytes) : (pieces p s).flatten = s.filter (fun c => !p c) := by
  induction s with
  | nil => simp [pieces]
  | cons b bs ih =>
    unfold pieces
    by_cases h : p b
    · simp [h, ih]
    · simp only [h, Bool.false_eq_true, if_false]
      cases hp : pieces p bs with
      | nil => exact absurd hp (pieces_ne_nil p bs)
      | cons t ts =>
        rw [hp] at ih
        simp [h] at ih ⊢
        exact ih

theorem flatten_filter_nonempty (l : List Bytes) : (l.filter (fun t => !t.isEmpty)).flatten = l.flatten := by
  induction l with
  | nil => rfl
  | cons t ts ih =>
    cases t with
    | nil => simp [List.filter, ih]
    | cons x xs => simp [List.filter, ih]

theorem splitSpec_flatten (p : Nat → Bool) (s : Bytes) : (splitSpec p s).flatten = s.filter (fun c => !p c) := by
  rw [splitSpec, flatten_filter_nonempty, pieces_flatten]

theorem pieces_no_delim (p : Nat → Bool) (s : Bytes) : ∀ t ∈ pieces p s, ∀ b ∈ t, p b = false := by
  induction s with
  | nil => simp [pieces]
  | cons c cs ih =>
    unfold pieces
    by_cases h : p c
    · simp only [h, if_true]
      intro t ht
      cases ht with
      | head => simp
      | tail _ ht => exact ih t ht
    · simp only [h, Bool.false_eq_true, if_false]
      cases hp : pieces p cs with
      | nil => exact absurd hp (pieces_ne_nil p cs)
      | cons t ts =>
        rw [hp] at ih
        intro u hu
        simp only [List.mem_cons] at hu
        cases hu with
        | inl hu =>
          subst hu
          intro b hb
          simp only [List.mem_cons] at hb
          cases hb with
          | inl hb => subst hb; simpa using h
          | inr hb => exact ih t (by simp) b hb
        | inr hu => exact ih u (by simp [hu])

theorem splitSpec_token (p : Nat → Bool) (s : Bytes) (t : Bytes) (ht : t ∈ splitSpec p s) :
    t ≠ [] ∧ (∀ b ∈ t, p b = false) ∧ (∀ b ∈ t, b ∈ s) := by
  have hmem : t ∈ pieces p s ∧ t.isEmpty = false := by
    simpa [splitSpec, List.mem_filter] using ht
  refine ⟨?_, pieces_no_delim p s t hmem.1, ?_⟩
  · intro h; subst h; simp at hmem
  · intro b hb
    have : b ∈ (splitSpec p s).flatten := List.mem_flatten.mpr ⟨t, ht, hb⟩
    rw [splitSpec_flatten] at this
    exact (List.mem_filter.mp this).1

/-- the spec depends on the delimiter predicate only through its values -/
theorem splitSpec_congr (p q : Nat → Bool) (h : ∀ b, p b = q b) (s : Bytes) : splitSpec p s = splitSpec q s := by
  have : p = q := funext h
  rw [this]

/-! ### rebuilding a sentence from its tokens -/

theorem LM.foldFull_flags {σ α : Type} (M : LM σ α) (st : σ) (ids : List Nat) :
    (M.foldFull st ids).1.map (·.2) = ids.map (· == 0) := by
  induction ids generalizing st with
  | nil => rfl
  | cons w ws ih => simp [LM.foldFull, ih]

/-- a non-empty delimiter-free run followed by a delimiter is one token -/
theorem splitSpec_token_append (p : Nat → Bool) (t : Bytes) (d : Nat) (r : Bytes)
    (hne : t ≠ []) (ht : ∀ b ∈ t, p b = false) (hd : p d = true) :
    splitSpec p (t ++ d :: r) = t :: splitSpec p r := by
  cases t with
  | nil => exact absurd rfl hne
  | cons b t' =>
    have hb : p b = false := ht b (by simp)
    have ht' : ∀ c ∈ t', p c = false := fun c hc => ht c (by simp [hc])
    rw [List.cons_append, splitSpec_cons_word p b _ hb]
    have e1 : (t' ++ d :: r).takeWhile (fun c => !p c) = t' := by
      clear hne ht hb
      induction t' with
      | nil => simp [hd]
      | cons c cs ih =>
        have hc : p c = false := ht' c (by simp)
        rw [List.cons_append, List.takeWhile_cons]
        simp only [hc, Bool.not_false, if_true]
        rw [ih (fun x hx => ht' x (by simp [hx]))]
    have e2 : (t' ++ d :: r).dropWhile (fun c => !p c) = d :: r := by
      clear hne ht hb e1
      induction t' with
      | nil => simp [hd]
      | cons c cs ih =>
        have hc : p c = false := ht' c (by simp)
        rw [List.cons_append, List.dropWhile_cons]
        simp only [hc, Bool.not_false, if_true]
        exact ih (fun x hx => ht' x (by simp [hx]))
    rw [e1, e2, splitSpec_cons_delim p d r hd]

theorem splitSpec_single (p : Nat → Bool) (t : Bytes) (hne : t ≠ []) (ht : ∀ b ∈ t, p b = false) :
    splitSpec p t = [t] := by
  cases t with
  | nil => exact absurd rfl hne
  | cons b t' =>
    have hb : p b = false := ht b (by simp)
    have ht' : ∀ c ∈ t', p c = false := fun c hc => ht c (by simp [hc])
    rw [splitSpec_cons_word p b _ hb]
    have e1 : t'.takeWhile (fun c => !p c) = t' := by
      clear hne ht hb
      induction t' with
      | nil => rfl
      | cons c cs ih =>
        have hc : p c = false := ht' c (by simp)
        rw [List.takeWhile_cons]
        simp only [hc, Bool.not_false, if_true]
        rw [ih (fun x hx => ht' x (by simp [hx]))]
    have e2 : t'.dropWhile (fun c => !p c) = [] := by
      clear hne ht hb e1
      induction t' with
      | nil => rfl
      | cons c cs ih =>
        have hc : p c = false := ht' c (by simp)
        rw [List.dropWhile_cons]
        simp only [hc, Bool.not_false, if_true]
        exact ih (fun x hx => ht' x (by simp [hx]))
    rw [e1, e2, splitSpec_nil]

theorem splitSpec_join (p : Nat → Bool) (d : Nat) (hd : p d = true) (ts : List Bytes)
    (h : ∀ t ∈ ts, t ≠ [] ∧ ∀ b ∈ t, p b = false) : splitSpec p (joinWith d ts) = ts := by
  induction ts with
  | nil => exact splitSpec_nil p
  | cons t rest ih =>
    cases rest with
    | nil => exact splitSpec_single p t (h t (by simp)).1 (h t (by simp)).2
    | cons u rest' =>
      simp only [joinWith]
      rw [splitSpec_token_append p t d _ (h t (by simp)).1 (h t (by simp)).2 hd]
      rw [ih (fun x hx => h x (by simp [hx]))]

/-! ### NUL truncation -/

theorem truncNul_of_not_mem (s : Bytes) (h : 0 ∉ s) : truncNul s = s := by
  unfold truncNul
  induction s with
  | nil => rfl
  | cons b bs ih =>
    have hb : b ≠ 0 := by intro hb; subst hb; simp at h
    have : 0 ∉ bs := by intro hm; exact h (List.mem_cons_of_mem _ hm)
    have ih' := ih this
    simp [hb, ih']

theorem zero_not_mem_truncNul (s : Bytes) : 0 ∉ truncNul s := by
  unfold truncNul
  induction s with
  | nil => simp
  | cons b bs ih =>
    by_cases hb : b = 0
    · subst hb; simp
    · have e : List.takeWhile (fun x => x != 0) (b :: bs) = b :: List.takeWhile (fun x => x != 0) bs := by
        simp [hb]
      rw [e]
      intro hm
      simp only [List.mem_cons] at hm
      cases hm with
      | inl h0 => exact hb h0.symm
      | inr hm => exact ih hm

theorem truncNul_idem (s : Bytes) : truncNul (truncNul s) = truncNul s :=
  truncNul_of_not_mem _ (zero_not_mem_truncNul s)

/-! ### folds -/

namespace LM
variable {σ α : Type} (M : LM σ α)

theorem foldScore_eq_foldFull (hc : M.Coherent) (st : σ) (acc : α) (ids : List Nat) :
    M.foldScore st acc ids =
      (((M.foldFull st ids).1.map (·.1.prob)).foldl M.add acc, (M.foldFull st ids).2) := by
  induction ids generalizing st acc with
  | nil => rfl
  | cons w ws ih =>
    simp only [foldScore, foldFull, List.map_cons, List.foldl_cons]
    rw [hc st w]
    exact ih _ _

theorem statefulFull_eq (st : σ) (ws : List Bytes) :
    M.statefulFull st ws = M.foldFull st (ws.map M.indexC) := by
  induction ws generalizing st with
  | nil => rfl
  | cons w ws ih =>
    simp only [statefulFull, pyBaseFullScore, foldFull, List.map_cons]
    rw [ih]

theorem statefulScores_eq (hc : M.Coherent) (st : σ) (ws : List Bytes) :
    M.statefulScores st ws =
      ((M.foldFull st (ws.map M.indexC)).1.map (·.1.prob), (M.foldFull st (ws.map M.indexC)).2) := by
  induction ws generalizing st with
  | nil => rfl
  | cons w ws ih =>
    simp only [statefulScores, pyBaseScore, foldFull, List.map_cons]
    rw [hc st (M.indexC w)]
    simp only
    rw [ih]

theorem foldFull_length (st : σ) (ids : List Nat) : (M.foldFull st ids).1.length = ids.length := by
  induction ids generalizing st with
  | nil => rfl
  | cons w ws ih => simp [foldFull, ih]

end LM
end KV.PyTokenize
