import Proofs.ProbingBuildKeys
/-! The fold of the builder over an arbitrary file (closed lines and blank-creating lines), generic in the per-line
step; the single-blank instance. -/
namespace KV.ProbingBuild
open KV.Arpa KV.Table KV.Score KV.ProbingLM

/-- what a loaded proper ARPA satisfies (no suffix-closure) -/
structure ArpaOK' (a : Arpa) (nWords : Nat) (um : Rat) : Prop where
  wf : WellFormed a
  nonpos : ∀ g e, a.gram g = some e → e.prob ≤ 0
  vocab : ∀ w, w < nWords ↔ a.gram [w] ≠ none
  unk : a.unkHallucinated = true → ∃ e, a.gram [0] = some e ∧ e.prob = um ∧ e.backoff = 0
  umle : um ≤ 0
  words : ∀ p, a.gram p ≠ none → ∀ x ∈ p, a.gram [x] ≠ none
  /-- "every backed-off product is ≤ 0": the hallucinated blanks have non-positive probability -/
  proper : ∀ k, IsKey a k → a.gram k = none → score a k.tail (k.headD 0) ≤ 0
  /-- no blank is based on a hallucinated `<unk>` (the code computes such a blank from the zeroed slot, see notes) -/
  unkBasis : a.unkHallucinated = true → ∀ k, IsKey a k → a.gram k = none → k.headD 0 ≠ 0

/-- side conditions of one line relative to the stored keys -/
structure LC (combine : Nat → Word → Nat) (a : Arpa) (u0 : List W) (N : Nat) (caps : Nat → Nat) (S : List Key) (p : Key) (e : Entry) : Prop where
  n2 : 2 ≤ p.length
  nN : p.length ≤ N
  real : a.gram p = some e
  asc : ∀ k ∈ S, k.length ≤ p.length
  fresh : ∀ k, (k ∈ missing S p (p.length - 1) ∨ k = p) → ∀ k' ∈ keysOf S k.length, hashOf combine k' ≠ hashOf combine k
  cap : ∀ m, (keysOf (addLineKeys S p) m).length < caps m
  words : ∀ x ∈ p, x < u0.length
  ctx : 3 ≤ p.length → p.drop 1 ∈ S
  rs : ∀ k, a.gram k ≠ none → 2 ≤ k.length → k.length < p.length → k ∈ S

theorem missing_nil_of_mem (S : List Key) (p : Key) (j : Nat) (h : j < 2 ∨ p.take j ∈ S) : missing S p j = [] := by
  match j, h with
  | 0, _ => rfl
  | 1, _ => rfl
  | j+2, h =>
    rcases h with h | h
    · omega
    · simp [missing, h]

theorem blank3_val {a : Arpa} {nWords : Nat} {um : Rat} (ok : ArpaOK' a nWords um) (x y z : Word)
    (hreal : a.gram [x, y, z] ≠ none) (hblank : a.gram [x, y] = none) :
    (-((initUni a nWords).getD x default).mag + ((initUni a nWords).getD y default).backoff).abs = (score a [y] x).abs := by
  have hkey : IsKey a [x, y] := ⟨by simp, Or.inr ((extendsLeft_iff _ _).mpr ⟨[x, y, z], hreal, by simp, ⟨[z], rfl⟩⟩)⟩
  have hgx := ok.words _ hreal x (by simp)
  have hgy := ok.words _ hreal y (by simp)
  obtain ⟨ex, hex⟩ := Option.ne_none_iff_exists'.mp hgx
  obtain ⟨ey, hey⟩ := Option.ne_none_iff_exists'.mp hgy
  have hxw := (ok.vocab x).mpr hgx
  have hyw := (ok.vocab y).mpr hgy
  have hx0 : (x == 0 && a.unkHallucinated) = false := by
    cases hu : a.unkHallucinated with
    | false => simp
    | true =>
      have := ok.unkBasis hu [x, y] hkey hblank
      simp at this; simp [this]
  rw [initUni_getD_lt a nWords x hxw ex hex, initUni_getD_lt a nWords y hyw ey hey]
  simp only [hx0, Bool.false_eq_true, if_false]
  have hsc : score a [y] x = ey.backoff + ex.prob := by
    have hN := ok.wf.order_ge
    unfold score
    have : min ([y] : List Word).length (a.order - 1) = 1 := by simp; omega
    rw [this]
    simp [scoreAt, hblank, Arpa.boW, hey, Arpa.uniProb, hex]
  have hneg : -ex.prob.abs = ex.prob := neg_abs_of_nonpos _ (ok.nonpos _ ex hex)
  rw [hsc]
  by_cases hy0 : (y == 0 && a.unkHallucinated) = true
  · simp only [hy0, if_true]
    have hu : a.unkHallucinated = true := by simp at hy0; exact hy0.2
    have hyz : y = 0 := by simp at hy0; exact hy0.1
    obtain ⟨e0, he0, _, hb0⟩ := ok.unk hu
    subst hyz; rw [hey] at he0; cases he0
    rw [hneg, hb0]; congr 1; grind
  · simp only [hy0, Bool.false_eq_true, if_false]
    rw [hneg]; congr 1; grind

/-- the single-blank class: every n-gram of order ≥ 4 has its immediate suffix in the model (trigrams are arbitrary) -/
def Cls1 (a : Arpa) (p : Key) : Prop := 4 ≤ p.length → a.gram (p.take (p.length - 1)) ≠ none

/-- the per-line step for the single-blank class -/
theorem step1' (combine : Nat → Word → Nat) (a : Arpa) (nWords : Nat) (um : Rat) (ok : ArpaOK' a nWords um) (N : Nat) (caps : Nat → Nat)
    (S : List Key) (s : St) (p : Key) (e : Entry) (inv : InvG combine a (initUni a nWords) N caps S s) (si : SInv a S)
    (lc : LC combine a (initUni a nWords) N caps S p e) (cls : 3 ≤ p.length → p.take (p.length - 1) ∉ S → p.length = 3) :
    ∃ s', addLine combine false N s p e = .ok s' ∧ InvG combine a (initUni a nWords) N caps (addLineKeys S p) s' := by
  have hu := initUni_ok a nWords
  by_cases hst : p.length < 3 ∨ p.take (p.length - 1) ∈ S
  · -- no blank
    have hmiss : missing S p (p.length - 1) = [] := missing_nil_of_mem S p _ (by
      rcases hst with h | h
      · left; omega
      · right; exact h)
    have hS : addLineKeys S p = S ++ [p] := by simp [addLineKeys, hmiss]
    rw [hS]
    have hc := lc.cap (p.length)
    rw [hS, keysOf_append_same S p _ rfl] at hc
    refine invG_step_closed combine a _ hu N caps S s inv p e lc.n2 lc.nN lc.real lc.asc
      (lc.fresh p (Or.inr rfl)) (by simpa using hc) ?_ ?_ lc.ctx
    · intro h2
      match p, h2 with
      | [x, y], _ => exact ⟨x, y, rfl, lc.words x (by simp), lc.words y (by simp)⟩
    · intro h3
      rcases hst with h | h
      · omega
      · exact h
  · have h3 : 3 ≤ p.length := by omega
    have hns : p.take (p.length - 1) ∉ S := fun h => hst (Or.inr h)
    have hl3 := cls h3 hns
    match p, hl3 with
    | [x, y, z], _ =>
      simp only [List.length_cons, List.length_nil, Nat.reduceAdd, Nat.add_one_sub_one] at hns
      have hns' : [x, y] ∉ S := by simpa using hns
      have hmiss : missing S [x, y, z] 2 = [[x, y]] := by simp [missing, hns']
      have hS : addLineKeys S [x, y, z] = S ++ [[x, y]] ++ [[x, y, z]] := by simp [addLineKeys, hmiss]
      rw [hS]
      have hblank : a.gram [x, y] = none := by
        cases hg : a.gram [x, y] with
        | none => rfl
        | some e' => exact absurd (lc.rs [x, y] (by rw [hg]; simp) (by simp) (by simp)) hns'
      have hc3 := lc.cap 3
      have hc2 := lc.cap 2
      rw [hS] at hc3 hc2
      have hk3 : keysOf (S ++ [[x, y]] ++ [[x, y, z]]) 3 = keysOf S 3 ++ [[x, y, z]] := by
        rw [keysOf_append_same _ _ 3 (by simp), keysOf_append_other _ _ 3 (by simp)]
      have hk2 : keysOf (S ++ [[x, y]] ++ [[x, y, z]]) 2 = keysOf S 2 ++ [[x, y]] := by
        rw [keysOf_append_other _ _ 2 (by simp), keysOf_append_same _ _ 2 (by simp)]
      rw [hk3] at hc3; rw [hk2] at hc2
      refine invG_step_blank3 combine a _ hu N caps S s inv x y z e (by simpa using lc.nN) lc.real hblank
        (by simpa using lc.asc) ?_ ?_ (by simpa using hc3) (by simpa using hc2) ?_ ?_ (by simpa using lc.ctx (by simp))
        (lc.words x (by simp)) (lc.words y (by simp)) (blank3_val ok x y z (by rw [lc.real]; simp) hblank)
      · simpa using lc.fresh [x, y, z] (Or.inr rfl)
      · have := lc.fresh [x, y] (Or.inl (by simp [hmiss]))
        simpa using this
      · unfold endsInK
        rw [List.any_eq_false]
        intro k hk
        by_cases hl : k.length = 3
        · have := si.pc k hk (by omega)
          rw [hl] at this
          have hne : ¬ (k.take 2 = [x, y]) := fun h => hns' (by rw [← h]; exact this)
          simp [hl, hne]
        · simp [hl]
      · unfold startsWithK
        rw [List.any_eq_false]
        intro k hk
        by_cases hl : k.length = 3
        · have := si.cs k hk (by omega)
          have hne : ¬ (k.drop 1 = [x, y]) := fun h => hns' (by rw [← h]; exact this)
          simp only [hl, List.length_cons, List.length_nil, Nat.reduceAdd, beq_self_eq_true, Bool.true_and,
            beq_eq_false_iff_ne, ne_eq, Bool.not_eq_true]
          simpa using hne
        · simp [hl]

end KV.ProbingBuild

namespace KV.ProbingBuild
open KV.Arpa KV.Table KV.Score KV.ProbingLM

theorem step1 (combine : Nat → Word → Nat) (a : Arpa) (nWords : Nat) (um : Rat) (ok : ArpaOK' a nWords um) (N : Nat) (caps : Nat → Nat)
    (S : List Key) (s : St) (p : Key) (e : Entry) (inv : InvG combine a (initUni a nWords) N caps S s) (si : SInv a S)
    (lc : LC combine a (initUni a nWords) N caps S p e) (cls' : Cls1 a p) :
    ∃ s', addLine combine false N s p e = .ok s' ∧ InvG combine a (initUni a nWords) N caps (addLineKeys S p) s' := by
  refine step1' combine a nWords um ok N caps S s p e inv si lc ?_
  intro h3 hns
  apply Classical.byContradiction; intro hne
  have h4 : 4 ≤ p.length := by omega
  exact hns (lc.rs _ (cls' h4) (by rw [List.length_take]; omega) (by rw [List.length_take]; omega))

def foldKeys (S : List Key) (ls : List Line) : List Key := ls.foldl (fun S p => addLineKeys S p.1) S

theorem foldKeys_append (ls : List Line) : ∀ S, ∃ X, foldKeys S ls = S ++ X := by
  induction ls with
  | nil => intro S; exact ⟨[], by simp [foldKeys]⟩
  | cons p ls ih =>
    intro S
    obtain ⟨X, hX⟩ := ih (addLineKeys S p.1)
    refine ⟨missing S p.1 (p.1.length - 1) ++ [p.1] ++ X, ?_⟩
    simp only [foldKeys, List.foldl_cons] at hX ⊢
    rw [hX]; simp [addLineKeys]

theorem keysOf_len_mono (S X : List Key) (m : Nat) : (keysOf S m).length ≤ (keysOf (S ++ X) m).length := by
  simp [keysOf, List.filter_append]

/-- bookkeeping between processed lines and stored keys -/
structure FI (a : Arpa) (proc : List Line) (S : List Key) : Prop where
  si : SInv a S
  lines : ∀ q ∈ proc, q.1 ∈ S
  pre : ∀ k ∈ S, ∃ q ∈ proc, ∃ i, k = q.1.take i

/-- the per-line step as a parameter of the fold -/
def StepOK (combine : Nat → Word → Nat) (a : Arpa) (u0 : List W) (N : Nat) (caps : Nat → Nat) (Cls : Key → Prop) : Prop :=
  ∀ (S : List Key) (s : St) (p : Key) (e : Entry), InvG combine a u0 N caps S s → SInv a S → LC combine a u0 N caps S p e → Cls p →
    ∃ s', addLine combine false N s p e = .ok s' ∧ InvG combine a u0 N caps (addLineKeys S p) s'

theorem invG_fold (combine : Nat → Word → Nat) (a : Arpa) (u0 : List W) (N : Nat) (caps : Nat → Nat) (Cls : Key → Prop)
    (step : StepOK combine a u0 N caps Cls) (hwf : WellFormed a)
    (hinj : ∀ k k', IsKey a k → IsKey a k' → k.length = k'.length → hashOf combine k = hashOf combine k' → k = k')
    (hwords : ∀ p, a.gram p ≠ none → ∀ x ∈ p, x < u0.length) :
    ∀ (rest proc : List Line) (S : List Key) (s : St), InvG combine a u0 N caps S s → FI a proc S →
      (proc ++ rest).Pairwise (fun p q => p.1.length ≤ q.1.length) →
      ((proc ++ rest).map (·.1)).Nodup →
      (∀ q ∈ proc ++ rest, 2 ≤ q.1.length ∧ q.1.length ≤ N ∧ a.gram q.1 = some q.2) →
      (∀ k, a.gram k ≠ none → 2 ≤ k.length → ∃ q ∈ proc ++ rest, q.1 = k) →
      (∀ m, (keysOf (foldKeys S rest) m).length < caps m) →
      (∀ q ∈ rest, Cls q.1) →
      ∃ s', rest.foldlM (fun s p => addLine combine false N s p.1 p.2) s = .ok s' ∧
        InvG combine a u0 N caps (foldKeys S rest) s' ∧ FI a (proc ++ rest) (foldKeys S rest) := by
  intro rest
  induction rest with
  | nil => intro proc S s inv fi _ _ _ _ _ _; exact ⟨s, rfl, by simpa [foldKeys] using inv, by simpa [foldKeys] using fi⟩
  | cons p rest ih =>
    intro proc S s inv fi hsorted hnd hlines hall hcaps hcls
    obtain ⟨hp2, hpN, hpr⟩ := hlines p (by simp)
    have hpw := List.pairwise_append.mp hsorted
    have hbefore : ∀ q ∈ proc, q.1.length ≤ p.1.length := fun q hq => hpw.2.2 q hq p List.mem_cons_self
    have hlater : ∀ q ∈ rest, p.1.length ≤ q.1.length := fun q hq => (List.pairwise_cons.mp hpw.2.1).1 q hq
    have inproc : ∀ q ∈ proc ++ p :: rest, q.1.length < p.1.length → q ∈ proc := by
      intro q hq hl
      rcases List.mem_append.mp hq with h | h
      · exact h
      · rcases List.mem_cons.mp h with h | h
        · subst h; omega
        · have := hlater q h; omega
    have realIn : ∀ k, a.gram k ≠ none → 2 ≤ k.length → k.length < p.1.length → k ∈ S := by
      intro k hk h2 hl
      obtain ⟨q, hq, hqe⟩ := hall k hk h2
      have := inproc q hq (by rw [hqe]; exact hl)
      rw [← hqe]; exact fi.lines q this
    have hpnS : p.1 ∉ S := by
      intro hin
      obtain ⟨q, hq, i, hqi⟩ := fi.pre _ hin
      have h1 := hbefore q hq
      have hlen : p.1.length = min i q.1.length := by rw [hqi, List.length_take]
      have hqe : q.1 = p.1 := by
        rw [hqi]; symm; apply List.take_of_length_le; omega
      rw [List.map_append, List.nodup_append] at hnd
      exact hnd.2.2 _ (List.mem_map_of_mem hq) _ (List.mem_map_of_mem (List.mem_cons_self (a := p) (l := rest))) hqe
    have hkp : IsKey a p.1 := ⟨by intro h; rw [h] at hp2; simp at hp2, Or.inl (by rw [hpr]; simp)⟩
    obtain ⟨X, hX⟩ := foldKeys_append rest (addLineKeys S p.1)
    have lc : LC combine a u0 N caps S p.1 p.2 := by
      refine ⟨hp2, hpN, hpr, ?_, ?_, ?_, hwords p.1 (by rw [hpr]; simp), ?_, realIn⟩
      · intro k hk
        obtain ⟨q, hq, i, hqi⟩ := fi.pre k hk
        have := hbefore q hq
        rw [hqi, List.length_take]; omega
      · intro k hk k' hk' heq
        have hk'S := keysOf_mem S _ k' hk'
        have hk'l := keysOf_len S _ k' hk'
        have hkkey : IsKey a k := by
          rcases hk with hk | hk
          · obtain ⟨i, h1, h3, h4, _⟩ := missing_mem S p.1 _ k hk
            rw [h4]; exact isKey_take a p.1 hkp i (by omega) (by omega)
          · subst hk; exact hkp
        have := hinj k' k (fi.si.keys k' hk'S) hkkey hk'l heq
        subst this
        rcases hk with hk | hk
        · obtain ⟨_, _, _, _, hns⟩ := missing_mem S p.1 _ k' hk
          exact hns hk'S
        · subst hk; exact hpnS hk'S
      · intro m
        have h1 := hcaps m
        simp only [foldKeys, List.foldl_cons] at h1
        have h2 : foldKeys (addLineKeys S p.1) rest = addLineKeys S p.1 ++ X := hX
        simp only [foldKeys] at h2
        rw [h2] at h1
        have := keysOf_len_mono (addLineKeys S p.1) X m
        omega
      · intro h3
        have hreal : a.gram (p.1.drop 1) ≠ none := by
          match hpk : p.1, h3 with
          | x :: t, h3 =>
            have hne : t ≠ [] := by intro h; subst h; simp at h3
            have := hwf.ctx_present x t hne (by rw [← hpk, hpr]; simp)
            simpa using this
        exact realIn _ hreal (by rw [List.length_drop]; omega) (by rw [List.length_drop]; omega)
    obtain ⟨s1, h1, inv1⟩ := step S s p.1 p.2 inv fi.si lc (hcls p List.mem_cons_self)
    have si1 := sInv_addLine fi.si p.1 (by rw [hpr]; simp) hp2 lc.ctx
    have fi1 : FI a (proc ++ [p]) (addLineKeys S p.1) := by
      refine ⟨si1, ?_, ?_⟩
      · intro q hq
        rcases List.mem_append.mp hq with h | h
        · exact (mem_addLineKeys S p.1 _).mpr (Or.inl (fi.lines q h))
        · simp at h; subst h; exact (mem_addLineKeys S q.1 _).mpr (Or.inr (Or.inr rfl))
      · intro k hk
        rcases (mem_addLineKeys S p.1 k).mp hk with h | h | h
        · obtain ⟨q, hq, i, hqi⟩ := fi.pre k h
          exact ⟨q, List.mem_append_left _ hq, i, hqi⟩
        · obtain ⟨i, _, _, h4, _⟩ := missing_mem S p.1 _ k h
          exact ⟨p, by simp, i, h4⟩
        · exact ⟨p, by simp, p.1.length, by rw [h, List.take_length]⟩
    have happ : proc ++ p :: rest = (proc ++ [p]) ++ rest := by simp
    obtain ⟨s', h2', inv', fi'⟩ := ih (proc ++ [p]) (addLineKeys S p.1) s1 inv1 fi1 (by rw [← happ]; exact hsorted)
      (by rw [← happ]; exact hnd) (by rw [← happ]; exact hlines) (by rw [← happ]; exact hall)
      (by intro m; have := hcaps m; simpa [foldKeys] using this)
      (fun q hq => hcls q (List.mem_cons_of_mem _ hq))
    refine ⟨s', ?_, by simpa [foldKeys] using inv', by rw [happ]; simpa [foldKeys] using fi'⟩
    rw [List.foldlM_cons, h1]
    exact h2'

end KV.ProbingBuild
