import Proofs.SortBytes
import Proofs.SortExt
/-! C16 byte level: the temp file (WriteAndRecycle, Offsets in bytes, reads at logged offsets). -/
namespace KV.Sort
open List

theorem writeAndRecycle_eq : ∀ (blocks : List Block) (file : Buf),
    writeAndRecycle file blocks = file ++ (blocks.map (fun b => b.mem.take b.valid)).flatten
  | [], file => by simp [writeAndRecycle]
  | b :: bs, file => by
    have := writeAndRecycle_eq bs (file ++ b.mem.take b.valid)
    simp only [writeAndRecycle, foldl_cons, map_cons, flatten_cons] at this ⊢
    rw [this, append_assoc]

theorem readRunsBytes_eq_storeRunsLogged (lens : List Nat) (runs : List Buf) :
    readRunsBytes runs.flatten lens = storeRunsLogged lens runs := rfl

/-- **spill round trip** (byte level): for any chain blocks — full, partial or empty — the bytes
read back for run `k` at `(TotalOffset() before, NextSize())` from the file written by
`WriteAndRecycle` are exactly the valid bytes of the `k`-th non-empty block. -/
theorem spill_roundtrip_aux (blocks : List Block) (hv : ∀ b ∈ blocks, b.valid ≤ b.mem.length) :
    readRunsBytes (writeAndRecycle [] blocks) (blockSorterLog blocks) =
      some ((blocks.filter (fun b => decide (b.valid ≠ 0))).map (fun b => b.mem.take b.valid)) := by
  rw [writeAndRecycle_eq, nil_append, readRunsBytes_eq_storeRunsLogged]
  have hlen : blockSorterLog blocks = (blocks.map (fun b => b.mem.take b.valid)).map List.length := by
    unfold blockSorterLog
    rw [map_map]
    apply map_congr_left
    intro b hb
    simp only [Function.comp, length_take]
    exact (Nat.min_eq_left (hv b hb)).symm
  rw [hlen]
  show storeRuns _ = _
  rw [storeRuns_eq]
  congr 1
  unfold nonempties
  rw [filter_map]
  congr 1
  apply filter_congr
  intro b hb
  have := hv b hb
  by_cases h0 : b.valid = 0
  · simp [h0]
  · have : (b.mem.take b.valid).length ≠ 0 := by simp only [length_take]; omega
    have hne : b.mem.take b.valid ≠ [] := fun h => this (by rw [h]; rfl)
    simp [h0, List.isEmpty_iff, hne]

/-! ### records ↔ bytes -/

def Uniform (s : Nat) (recs : List (List Nat)) : Prop := ∀ r ∈ recs, r.length = s

theorem length_bytesOf {s : Nat} : ∀ {recs : List (List Nat)}, Uniform s recs → (bytesOf recs).length = recs.length * s
  | [], _ => by simp [bytesOf]
  | r :: rs, h => by
    have ih := length_bytesOf (s := s) (recs := rs) (fun x hx => h x (by simp [hx]))
    simp only [bytesOf, flatten_cons, length_append, length_cons] at ih ⊢
    rw [ih, h r (by simp), Nat.succ_mul]; omega

theorem chunk_bytesOf {s : Nat} : ∀ (recs : List (List Nat)), Uniform s recs →
    chunk s recs.length (bytesOf recs) = recs
  | [], _ => rfl
  | r :: rs, h => by
    have hr := h r (by simp)
    have ih := chunk_bytesOf (s := s) rs (fun x hx => h x (by simp [hx]))
    simp only [bytesOf, flatten_cons, length_cons, chunk] at ih ⊢
    rw [take_left' hr, drop_left' hr, ih]

/-- cutting the bytes of fixed-size records back into records gives the records -/
theorem recordsOf_bytesOf {s : Nat} (hs : 0 < s) (recs : List (List Nat)) (h : Uniform s recs) :
    recordsOf s (bytesOf recs) = recs := by
  unfold recordsOf
  rw [length_bytesOf h, Nat.mul_div_cancel _ hs]
  exact chunk_bytesOf recs h

theorem chunk_uniform {s : Nat} : ∀ (n : Nat) (buf : Buf), n * s ≤ buf.length → Uniform s (chunk s n buf)
  | 0, _, _ => by simp [chunk, Uniform]
  | n + 1, buf, h => by
    rw [Nat.succ_mul] at h
    intro r hr
    simp only [chunk, mem_cons] at hr
    rcases hr with rfl | hr
    · simp only [length_take]; omega
    · exact chunk_uniform n (buf.drop s) (by simp only [length_drop]; omega) r hr

theorem bytesOf_chunk {s : Nat} : ∀ (n : Nat) (buf : Buf), buf.length = n * s → bytesOf (chunk s n buf) = buf
  | 0, buf, h => by
    have : buf = [] := List.eq_nil_of_length_eq_zero (by omega)
    simp [chunk, bytesOf, this]
  | n + 1, buf, h => by
    rw [Nat.succ_mul] at h
    have ih := bytesOf_chunk (s := s) n (buf.drop s) (by simp only [length_drop]; omega)
    simp only [chunk, bytesOf, flatten_cons] at ih ⊢
    rw [ih, take_append_drop]

theorem recordsOf_uniform {s : Nat} (buf : Buf) : Uniform s (recordsOf s buf) := by
  unfold recordsOf
  apply chunk_uniform
  exact Nat.div_mul_le_self _ _

theorem bytesOf_recordsOf {s : Nat} (hs : 0 < s) (buf : Buf) (hd : s ∣ buf.length) :
    bytesOf (recordsOf s buf) = buf := by
  unfold recordsOf
  apply bytesOf_chunk
  exact (Nat.div_mul_cancel hd).symm

theorem recordsOf_length {s : Nat} (buf : Buf) : (recordsOf s buf).length = buf.length / s := by
  unfold recordsOf
  generalize buf.length / s = n
  induction n generalizing buf with
  | zero => rfl
  | succ n ih => simp [chunk, ih]

/-- **records through a byte file**: runs of `s`-byte records written as bytes, logged in bytes and
read back at the logged offsets, then cut into records, are the runs that the record-level model
(`storeRunsLogged`, `storeRuns_roundtrip`) delivers. -/
theorem spill_records_aux {s : Nat} (hs : 0 < s) (runs : List (List (List Nat)))
    (hu : ∀ r ∈ runs, Uniform s r) :
    (readRunsBytes (runs.map bytesOf).flatten (runs.map (fun r => r.length * s))).map (·.map (recordsOf s)) =
      storeRunsLogged (runs.map List.length) runs := by
  rw [readRunsBytes_eq_storeRunsLogged]
  have hlen : runs.map (fun r => r.length * s) = (runs.map bytesOf).map List.length := by
    rw [map_map]
    apply map_congr_left
    intro r hr
    exact (length_bytesOf (hu r hr)).symm
  rw [hlen]
  show (storeRuns _).map _ = storeRuns _
  rw [storeRuns_eq, storeRuns_eq]
  simp only [Option.map_some, Option.some.injEq]
  unfold nonempties
  rw [filter_map, map_map]
  have hf : filter ((fun r => !r.isEmpty) ∘ bytesOf) runs = filter (fun r => !r.isEmpty) runs := by
    apply filter_congr
    intro r hr
    cases r with
    | nil => rfl
    | cons x xs =>
      have hx := hu _ hr x (by simp)
      cases x with
      | nil => simp at hx; omega
      | cons y ys => simp [bytesOf]
  rw [hf]
  have : ∀ r ∈ filter (fun r => !r.isEmpty) runs, (recordsOf s ∘ bytesOf) r = r := by
    intro r hr
    exact recordsOf_bytesOf hs r (hu r (mem_filter.mp hr).1)
  rw [map_congr_left this, map_id']

/-- the byte-level block sort + spill delivers the same runs as the record-level block sorter -/
theorem afterBlockSorterBytes_eq {s : Nat} (hs : 0 < s) (lt : List Nat → List Nat → Bool) (blocks : List Block)
    (hw : ∀ b ∈ blocks, b.wf s) :
    afterBlockSorterBytes s lt blocks = afterBlockSorter lt (blocks.map (Block.records s)) := by
  unfold afterBlockSorterBytes afterBlockSorter
  rw [writeAndRecycle_eq, nil_append, readRunsBytes_eq_storeRunsLogged]
  -- the valid bytes of every sorted block are the bytes of the sorted records
  have hrec : ∀ b ∈ blocks, (sortBlock s lt b).mem.take (sortBlock s lt b).valid =
      bytesOf (blockSort lt (b.records s)) ∧ Uniform s (blockSort lt (b.records s)) ∧
      b.valid = (b.records s).length * s := by
    intro b hb
    obtain ⟨h1, h2⟩ := hw b hb
    have hlt : (b.mem.take b.valid).length = b.valid := by simp only [length_take]; omega
    have hun : Uniform s (blockSort lt (b.records s)) := by
      intro r hr
      exact recordsOf_uniform _ r ((blockSort_perm lt _).subset hr)
    have hl : (b.records s).length * s = b.valid := by
      unfold Block.records
      rw [recordsOf_length, hlt]
      exact Nat.div_mul_cancel h2
    refine ⟨?_, hun, hl.symm⟩
    simp only [sortBlock, sizedSortBytes]
    have : (bytesOf (blockSort lt (recordsOf s (take b.valid b.mem)))).length = b.valid := by
      show (bytesOf (blockSort lt (b.records s))).length = b.valid
      rw [length_bytesOf hun, (blockSort_perm lt _).length_eq]; exact hl
    exact take_left' this
  have hruns : (blocks.map (sortBlock s lt)).map (fun b => b.mem.take b.valid) =
      (blocks.map (fun b => blockSort lt (b.records s))).map bytesOf := by
    rw [map_map, map_map]
    apply map_congr_left
    intro b hb
    exact (hrec b hb).1
  have hlog : blockSorterLog blocks = (blocks.map (fun b => blockSort lt (b.records s))).map (fun r => r.length * s) := by
    unfold blockSorterLog
    rw [map_map]
    apply map_congr_left
    intro b hb
    simp only [Function.comp]
    rw [(blockSort_perm lt _).length_eq]
    exact (hrec b hb).2.2
  rw [hruns, hlog, ← readRunsBytes_eq_storeRunsLogged,
    spill_records_aux hs _ (by
      intro r hr
      obtain ⟨b, hb, rfl⟩ := mem_map.mp hr
      exact (hrec b hb).2.1)]
  congr 1
  · rw [map_map, map_map]
    apply map_congr_left
    intro b _
    simp only [Function.comp]
    exact (blockSort_perm lt _).length_eq
  · rw [map_map]; rfl

end KV.Sort

namespace KV.Sort
open List

/-- what a sequence of output blocks must satisfy: it carries `n` records, no block exceeds the
capacity, and every block except the last is full -/
def BlocksOK (cap n : Nat) (bs : List Nat) : Prop :=
  bs.sum = n ∧ (∀ b ∈ bs, b ≤ cap) ∧ (∀ b ∈ bs.dropLast, b = cap)

theorem readSingleBlocks_ok {cap : Nat} (hc : 0 < cap) : ∀ (fuel n : Nat), n ≤ fuel →
    BlocksOK cap n (readSingleBlocks cap fuel n) ∧ readSingleBlocks cap fuel n ≠ []
  | 0, n, h => by
    have : n = 0 := by omega
    subst this
    simp [readSingleBlocks, BlocksOK]
  | fuel + 1, n, h => by
    simp only [readSingleBlocks]
    by_cases hn : cap < n
    · rw [if_pos hn]
      obtain ⟨⟨h1, h2, h3⟩, hne⟩ := readSingleBlocks_ok hc fuel (n - cap) (by omega)
      refine ⟨⟨by simp only [sum_cons, h1]; omega, ?_, ?_⟩, by simp⟩
      · intro b hb
        simp only [mem_cons] at hb
        rcases hb with rfl | hb
        · exact Nat.le_refl _
        · exact h2 b hb
      · intro b hb
        rw [dropLast_cons_of_ne_nil hne] at hb
        simp only [mem_cons] at hb
        rcases hb with rfl | hb
        · rfl
        · exact h3 b hb
    · rw [if_neg hn]
      exact ⟨⟨by simp, by intro b hb; simp at hb; omega, by simp⟩, by simp⟩

theorem streamBlocks_ok {cap : Nat} (hc : 0 < cap) (n : Nat) : BlocksOK cap n (streamBlocks cap n) := by
  unfold streamBlocks BlocksOK
  refine ⟨?_, ?_, ?_⟩
  · simp only [sum_append, sum_replicate_nat, sum_cons, sum_nil]
    have := Nat.div_add_mod n cap
    rw [Nat.mul_comm] at this
    omega
  · intro b hb
    simp only [mem_append, mem_replicate, mem_singleton] at hb
    rcases hb with ⟨_, rfl⟩ | rfl
    · exact Nat.le_refl _
    · exact Nat.le_of_lt (Nat.mod_lt _ hc)
  · intro b hb
    rw [dropLast_concat] at hb
    exact (mem_replicate.mp hb).2

theorem outputBlocks_ok {cap : Nat} (hc : 0 < cap) (nruns nout : Nat) (h0 : nruns = 0 → nout = 0) :
    BlocksOK cap nout (outputBlocks cap nruns nout) := by
  unfold outputBlocks
  by_cases h : nruns = 0
  · rw [if_pos h, h0 h]; simp [BlocksOK]
  · rw [if_neg h]
    by_cases h1 : nruns = 1
    · rw [if_pos h1]; exact (readSingleBlocks_ok hc nout nout (Nat.le_refl _)).1
    · rw [if_neg h1]; exact streamBlocks_ok hc nout

end KV.Sort

namespace KV.Sort
open List

theorem take_bytesOf {s : Nat} : ∀ (recs : List (List Nat)) (k : Nat), Uniform s recs →
    (bytesOf recs).take (k * s) = bytesOf (recs.take k)
  | [], k, _ => by simp [bytesOf]
  | r :: rs, 0, _ => by simp [bytesOf]
  | r :: rs, k + 1, h => by
    have hr := h r (by simp)
    have ih := take_bytesOf (s := s) rs k (fun x hx => h x (by simp [hx]))
    simp only [bytesOf, flatten_cons, take_succ_cons] at ih ⊢
    have : (k + 1) * s = r.length + k * s := by rw [Nat.succ_mul, hr]; omega
    rw [this, take_length_add_append, ih]

theorem drop_bytesOf {s : Nat} : ∀ (recs : List (List Nat)) (k : Nat), Uniform s recs →
    (bytesOf recs).drop (k * s) = bytesOf (recs.drop k)
  | [], k, _ => by simp [bytesOf]
  | r :: rs, 0, _ => by simp [bytesOf]
  | r :: rs, k + 1, h => by
    have hr := h r (by simp)
    have ih := drop_bytesOf (s := s) rs k (fun x hx => h x (by simp [hx]))
    simp only [bytesOf, flatten_cons, drop_succ_cons] at ih ⊢
    have : (k + 1) * s = r.length + k * s := by rw [Nat.succ_mul, hr]; omega
    rw [this, drop_length_add_append, ih]

theorem Uniform.take {s : Nat} {recs : List (List Nat)} (h : Uniform s recs) (k : Nat) : Uniform s (recs.take k) :=
  fun r hr => h r (mem_of_mem_take hr)
theorem Uniform.drop {s : Nat} {recs : List (List Nat)} (h : Uniform s recs) (k : Nat) : Uniform s (recs.drop k) :=
  fun r hr => h r (mem_of_mem_drop hr)

/-- cutting a prefix / suffix of whole records commutes with cutting into records -/
theorem recordsOf_take {s : Nat} (hs : 0 < s) (buf : Buf) (hd : s ∣ buf.length) (k : Nat) :
    recordsOf s (buf.take (k * s)) = (recordsOf s buf).take k := by
  have hu := recordsOf_uniform (s := s) buf
  have hb := bytesOf_recordsOf hs buf hd
  conv => lhs; rw [← hb]
  rw [take_bytesOf _ k hu, recordsOf_bytesOf hs _ (hu.take k)]

theorem recordsOf_drop {s : Nat} (hs : 0 < s) (buf : Buf) (hd : s ∣ buf.length) (k : Nat) :
    recordsOf s (buf.drop (k * s)) = (recordsOf s buf).drop k := by
  have hu := recordsOf_uniform (s := s) buf
  have hb := bytesOf_recordsOf hs buf hd
  conv => lhs; rw [← hb]
  rw [drop_bytesOf _ k hu, recordsOf_bytesOf hs _ (hu.drop k)]

theorem recordsOf_eq_nil {s : Nat} (hs : 0 < s) (buf : Buf) (hd : s ∣ buf.length) :
    recordsOf s buf = [] ↔ buf = [] := by
  constructor
  · intro h
    have := bytesOf_recordsOf hs buf hd
    rw [h] at this
    exact this.symm
  · intro h; subst h; simp [recordsOf, chunk]

/-- byte-level invariant of an entry: whole records in the buffer and on disk, buffer not empty -/
def ByteEntry.wf (E : Nat) (e : ByteEntry) : Prop := E ∣ e.buf.length ∧ E ∣ e.file.length ∧ e.buf ≠ []

theorem byteEntry_read {E cap : Nat} (hE : 0 < E) (hc : 0 < cap) (hcap : E ∣ cap) (file : Buf) (hf : E ∣ file.length) :
    (ByteEntry.read cap file).map (ByteEntry.abs E) = BufEntry.read (cap / E) (recordsOf E file) ∧
    ∀ e, ByteEntry.read cap file = some e → e.wf E := by
  obtain ⟨c, rfl⟩ := hcap
  rw [Nat.mul_div_cancel_left c hE]
  have hcm : E * c = c * E := Nat.mul_comm E c
  cases file with
  | nil => simp [ByteEntry.read, BufEntry.read, recordsOf, chunk]
  | cons x xs =>
    have hne : recordsOf E (x :: xs) ≠ [] := fun h => by
      have := (recordsOf_eq_nil hE (x :: xs) hf).mp h; cases this
    refine ⟨?_, ?_⟩
    · simp only [ByteEntry.read, Option.map_some, ByteEntry.abs]
      cases hr : recordsOf E (x :: xs) with
      | nil => exact absurd hr hne
      | cons r rs =>
        simp only [BufEntry.read, Option.some.injEq, BufEntry.mk.injEq]
        rw [← hr, hcm]
        exact ⟨recordsOf_take hE _ hf c, recordsOf_drop hE _ hf c⟩
    · intro e he
      simp only [ByteEntry.read, Option.some.injEq] at he
      subst he
      obtain ⟨a, ha⟩ := hf
      refine ⟨?_, ?_, ?_⟩
      · simp only [length_take]
        rw [ha]
        rcases Nat.le_total c a with h | h
        · rw [Nat.min_eq_left (Nat.mul_le_mul_left E h)]; exact ⟨c, rfl⟩
        · rw [Nat.min_eq_right (Nat.mul_le_mul_left E h)]; exact ⟨a, rfl⟩
      · simp only [length_drop]
        rw [ha, ← Nat.mul_sub]; exact ⟨a - c, rfl⟩
      · intro h
        have h' : (x :: xs).take (E * c) = [] := h
        have : ((x :: xs).take (E * c)).length = 0 := by rw [h']; rfl
        simp only [length_take, length_cons] at this
        omega

/-- **byte-level entries refine record-level buffered entries** when the buffer capacity is a
multiple of the entry size: `Increment` never jumps past `buffer_end_`, commutes with cutting
into records, and keeps the invariant. -/
theorem byteEntry_increment {E cap : Nat} (hE : 0 < E) (hc : 0 < cap) (hcap : E ∣ cap) (e : ByteEntry) (hw : e.wf E) :
    ∃ r, e.increment E cap = .ok r ∧ r.map (ByteEntry.abs E) = (ByteEntry.abs E e).increment (cap / E) ∧
      ∀ e', r = some e' → e'.wf E := by
  obtain ⟨⟨a, ha⟩, hfile, hne⟩ := hw
  have ha0 : 0 < a := by
    rcases Nat.eq_zero_or_pos a with h | h
    · subst h
      exact absurd (List.eq_nil_of_length_eq_zero (by omega)) hne
    · exact h
  have hge : E ≤ e.buf.length := by rw [ha]; exact Nat.le_mul_of_pos_right E ha0
  unfold ByteEntry.increment
  rw [if_neg (by omega)]
  have hbd : E ∣ e.buf.length := ⟨a, ha⟩
  have hd1 := recordsOf_drop hE e.buf hbd 1
  rw [Nat.one_mul] at hd1
  have hlen : (recordsOf E e.buf).length = a := by
    rw [recordsOf_length, ha, Nat.mul_div_cancel_left a hE]
  by_cases h1 : e.buf.length = E
  · rw [if_pos h1]
    obtain ⟨hr1, hr2⟩ := byteEntry_read hE hc hcap e.file hfile
    refine ⟨_, rfl, ?_, hr2⟩
    rw [hr1]
    simp only [BufEntry.increment, ByteEntry.abs]
    have ha1 : a = 1 := by
      have : E * a = E * 1 := by rw [← ha, h1, Nat.mul_one]
      exact Nat.eq_of_mul_eq_mul_left hE this
    have : (recordsOf E e.buf).drop 1 = [] := drop_eq_nil_of_le (by omega)
    rw [this]
  · rw [if_neg h1]
    have ha2 : 2 ≤ a := by
      rcases Nat.lt_or_ge a 2 with h | h
      · have : a = 1 := by omega
        subst this; omega
      · exact h
    refine ⟨_, rfl, ?_, ?_⟩
    · simp only [Option.map_some, ByteEntry.abs, BufEntry.increment]
      rw [hd1]
      cases hdr : (recordsOf E e.buf).drop 1 with
      | nil =>
        have := congrArg List.length hdr
        simp only [length_drop, length_nil] at this
        omega
      | cons b bs => rfl
    · intro e' he'
      simp only [Option.some.injEq] at he'
      subst he'
      refine ⟨?_, hfile, ?_⟩
      · simp only [length_drop]; rw [ha]
        exact ⟨a - 1, by rw [Nat.mul_sub, Nat.mul_one]⟩
      · intro h
        have h' : e.buf.drop E = [] := h
        have : (e.buf.drop E).length = 0 := by rw [h']; rfl
        simp only [length_drop] at this
        have : E * 2 ≤ E * a := Nat.mul_le_mul_left E ha2
        omega

end KV.Sort

namespace KV.Sort
open List

/-- what a `Stream` puts into chain blocks and `WriteAndRecycle` appends to the file is the byte
sequence written, whatever the block size and the stale content of the last block -/
theorem stream_write_aux (cap : Nat) (pad : Buf) : ∀ (f : Nat) (bytes file : Buf),
    writeAndRecycle file (streamToBlocks cap pad f bytes) = file ++ bytes
  | 0, bytes, file => by
    simp [streamToBlocks, writeAndRecycle]
  | f + 1, bytes, file => by
    simp only [streamToBlocks]
    split
    · rename_i h
      simp only [writeAndRecycle, foldl_cons]
      have ih := stream_write_aux cap pad f (bytes.drop cap) (file ++ (bytes.take cap).take cap)
      simp only [writeAndRecycle] at ih
      rw [ih, take_take, Nat.min_self, append_assoc, take_append_drop]
    · simp [writeAndRecycle]

end KV.Sort

namespace KV.Sort

theorem preadBlocks_ok {cap : Nat} (hc : 0 < cap) (n : Nat) : BlocksOK cap n (preadBlocks cap n) := by
  unfold preadBlocks
  by_cases h : n = 0
  · rw [if_pos h, h]; simp [BlocksOK]
  · rw [if_neg h]; exact (readSingleBlocks_ok hc n n (Nat.le_refl _)).1

end KV.Sort

namespace KV.Sort
open List

theorem pwrite_fold (blocks : List Block) : ∀ (f : Buf) (off : Nat) (written : Buf),
    f.take off = written → written.length = off →
    let r := blocks.foldl (fun (st : Buf × Nat) b =>
      (pwriteAt st.1 st.2 (b.mem.take b.valid), st.2 + (b.mem.take b.valid).length)) (f, off)
    r.1.take r.2 = written ++ (blocks.map (fun b => b.mem.take b.valid)).flatten := by
  induction blocks with
  | nil => intro f off written h1 _; simpa using h1
  | cons b bs ih =>
    intro f off written h1 h2
    simp only [foldl_cons, map_cons, flatten_cons]
    have := ih (pwriteAt f off (b.mem.take b.valid)) (off + (b.mem.take b.valid).length)
      (written ++ b.mem.take b.valid) (by
        unfold pwriteAt
        rw [h1]
        have : (written ++ take b.valid b.mem).length = off + (take b.valid b.mem).length := by
          rw [length_append, h2]
        rw [take_left' this]) (by rw [length_append, h2])
    simp only at this ⊢
    rw [this, append_assoc]

end KV.Sort

namespace KV.Sort
theorem stream_write_roundtrip_aux' (cap : Nat) (pad : Buf) (f : Nat) (bytes : Buf) :
    writeAndRecycle [] (streamToBlocks cap pad f bytes) = bytes := by
  simpa using stream_write_aux cap pad f bytes []
end KV.Sort
