import Model.Arpa
import Model.Table
import Model.State
import Model.Score
import Proofs.ScoreLoop
/-! L0 ↔ L1: the interface `TableFor`, the state invariant `StateFor`, lemmas about the textbook
recursion, and the main step lemma (probability + invariant preservation). -/
namespace KV.Score
open KV.Arpa KV.Table KV.State

/-- Σ_{i<d} f (lo+i) -/
def rsum (f : Nat → Rat) (lo : Nat) : Nat → Rat
  | 0 => 0
  | d+1 => rsum f lo d + f (lo + d)

theorem rsum_congr {f g : Nat → Rat} {lo d : Nat} (h : ∀ i, lo ≤ i → i < lo + d → f i = g i) :
    rsum f lo d = rsum g lo d := by
  induction d with
  | zero => rfl
  | succ d ih =>
    simp only [rsum]
    rw [ih (fun i h1 h2 => h i h1 (by omega)), h (lo + d) (by omega) (by omega)]

theorem rsum_zero_tail {f : Nat → Rat} {lo d e : Nat} (h : ∀ i, lo + d ≤ i → i < lo + d + e → f i = 0) :
    rsum f lo (d + e) = rsum f lo d := by
  induction e with
  | zero => rfl
  | succ e ih =>
    have : d + (e + 1) = (d + e) + 1 := by omega
    rw [this]; simp only [rsum]
    rw [ih (fun i h1 h2 => h i h1 (by omega)), h (lo + (d + e)) (by omega) (by omega)]
    grind

theorem rsum_split {f : Nat → Rat} {lo d : Nat} : rsum f lo (d + 1) = f lo + rsum f (lo + 1) d := by
  induction d with
  | zero => simp only [rsum]; grind
  | succ d ih =>
    have : rsum f lo (d + 1 + 1) = rsum f lo (d + 1) + f (lo + (d + 1)) := rfl
    rw [this, ih]; simp only [rsum]
    have : lo + 1 + d = lo + (d + 1) := by omega
    rw [this]; grind

theorem sum_drop_range_map (f : Nat → Rat) (len c0 : Nat) (h : c0 ≤ len) :
    (((List.range len).map f).drop c0).sum = rsum f c0 (len - c0) := by
  induction len with
  | zero => have : c0 = 0 := by omega
            subst this; simp [rsum]
  | succ len ih =>
    by_cases hc : c0 = len + 1
    · subst hc
      rw [List.drop_eq_nil_of_le (by simp)]; simp [rsum]
    · have hle : c0 ≤ len := by omega
      rw [List.range_succ, List.map_append, List.drop_append_of_le_length (by simp; exact hle), List.sum_append, ih hle]
      have : len + 1 - c0 = (len - c0) + 1 := by omega
      rw [this]; simp only [rsum, List.map_cons, List.map_nil, List.sum_cons, List.sum_nil]
      have : c0 + (len - c0) = len := by omega
      rw [this]; grind

/-! ### the textbook recursion -/

theorem scoreAt_take (a : Arpa) (h : List Word) (w : Word) (k : Nat) :
    ∀ j, j ≤ k → scoreAt a (h.take k) w j = scoreAt a h w j := by
  intro j
  induction j with
  | zero => intro _; rfl
  | succ j ih =>
    intro hj
    have : (h.take k).take (j+1) = h.take (j+1) := by rw [List.take_take]; congr 1; omega
    simp only [scoreAt, this, ih (by omega)]

/-- skipping context lengths at which no n-gram matches charges exactly their back-offs -/
theorem scoreAt_skip (a : Arpa) (h : List Word) (w : Word) (c0 : Nat) :
    ∀ d, (∀ c, c0 < c → c ≤ c0 + d → a.gram (w :: h.take c) = none) →
      scoreAt a h w (c0 + d) = scoreAt a h w c0 + rsum (fun c => a.boW (h.take (c+1))) c0 d := by
  intro d
  induction d with
  | zero => intro _; simp only [rsum, Nat.add_zero]; grind
  | succ d ih =>
    intro hnone
    have h1 := hnone (c0 + d + 1) (by omega) (by omega)
    have : c0 + (d + 1) = (c0 + d) + 1 := by omega
    rw [this]; simp only [scoreAt, h1, rsum]
    rw [ih (fun c hc1 hc2 => hnone c hc1 (by omega))]
    grind

theorem score_take (a : Arpa) (h : List Word) (w : Word) :
    score a (h.take (a.order - 1)) w = score a h w := by
  unfold score
  have : min (h.take (a.order - 1)).length (a.order - 1) = min h.length (a.order - 1) := by
    rw [List.length_take]; omega
  rw [this, scoreAt_take a h w (a.order - 1) _ (by omega)]

/-! ### the interface between an ARPA model and a table -/

/-- `g` (reversed) is an n-gram of the model whose words must be kept in the state: non-zero
back-off, or context of some n-gram of the model -/
def live (a : Arpa) (g : List Word) : Prop :=
  ∃ e, a.gram g = some e ∧ (e.backoff ≠ 0 ∨ ∃ x, a.gram (x :: g) ≠ none)

/-- accepted, sane model: order ≥ 2, key lengths in 1..order, every context present, highest order
has no back-off -/
structure WellFormed (a : Arpa) : Prop where
  order_ge : 2 ≤ a.order
  len_pos : ∀ g, a.gram g ≠ none → g ≠ []
  len_le : ∀ g, a.gram g ≠ none → g.length ≤ a.order
  ctx_present : ∀ x g, g ≠ [] → a.gram (x :: g) ≠ none → a.gram g ≠ none
  top_bo : ∀ g e, a.gram g = some e → g.length = a.order → e.backoff = 0

/-- `T` represents the model `a` (real entries with their values, blanks with backed-off probability,
sound marks).  Satisfied by `Table.build a unmarked` for every `unmarked` (theorem `build_tableFor`). -/
structure TableFor (a : Arpa) (T : Table) : Prop extends TableOK T where
  order_eq : T.order = a.order
  real : ∀ g e, a.gram g = some e → ∃ t, T.lookup g = some t ∧ t.prob = e.prob ∧ t.backoff = e.backoff
  blank : ∀ w ctx t, T.lookup (w :: ctx) = some t → a.gram (w :: ctx) = none → t.prob = score a ctx w ∧ t.backoff = 0
  xr_live : ∀ g t, T.lookup g = some t → live a g → t.extendsRight = true
  nil_none : T.lookup [] = none

theorem TableFor.bo_eq {a : Arpa} {T : Table} (tf : TableFor a T) (wf : WellFormed a) (g : List Word) :
    T.bo g = a.boW g := by
  unfold Table.bo Arpa.boW
  cases hg : a.gram g with
  | some e =>
    obtain ⟨t, ht, _, hb⟩ := tf.real g e hg
    simp [ht, hb]
  | none =>
    cases ht : T.lookup g with
    | none => rfl
    | some t =>
      cases g with
      | nil => rw [tf.nil_none] at ht; cases ht
      | cons w ctx => simp [(tf.blank w ctx t ht hg).2]

end KV.Score
