import Proofs.ProbingRestChainEval
/-! `MaxRestBuild` on chains, key level: all fields except `rest` agree with the `NoRestBuild` run (`chainWant`). -/
namespace KV.ProbingBuild
open KV.Arpa KV.Table KV.Score KV.ProbingLM

/-- forget the `rest` field -/
def er (w : W) : W := { w with rest := 0 }

theorem er_fields (w w' : W) (h : er w = er w') : w.mag = w'.mag ∧ w.neg = w'.neg ∧ w.backoff = w'.backoff ∧ w.xr = w'.xr := by
  cases w; cases w'; simp [er] at h; exact h

theorem er_of_fields (w w' : W) (h1 : w.mag = w'.mag) (h2 : w.neg = w'.neg) (h3 : w.backoff = w'.backoff) (h4 : w.xr = w'.xr) :
    er w = er w' := by
  cases w; cases w'; simp_all [er]

theorem er_setExtension (w w' : W) (h : er w = er w') : er (setExtension w) = er (setExtension w') := by
  obtain ⟨h1, h2, h3, h4⟩ := er_fields w w' h
  apply er_of_fields
  · rw [se_mag, se_mag, h1]
  · rw [se_neg, se_neg, h2]
  · rw [setExtension_backoff, setExtension_backoff, h3]
  · unfold setExtension; rw [h3]; split <;> simp [h4]

def RelU (u v : Key × (W → W)) : Prop := u.1 = v.1 ∧ ∀ w w', er w = er w' → er (u.2 w) = er (v.2 w')

inductive RelL : List (Key × (W → W)) → List (Key × (W → W)) → Prop
  | nil : RelL [] []
  | cons {u v us vs} : RelU u v → RelL us vs → RelL (u :: us) (v :: vs)

theorem applyUpd_er : ∀ (usT usF : List (Key × (W → W))), RelL usT usF → ∀ (wT wF : Key → W),
    (∀ k, er (wT k) = er (wF k)) → ∀ k, er (applyUpd wT usT k) = er (applyUpd wF usF k) := by
  intro usT usF hrel
  induction hrel with
  | nil => intro wT wF h k; exact h k
  | @cons u v us vs huv _ ih =>
    intro wT wF h k
    simp only [applyUpd]
    apply ih
    intro k'
    unfold updW
    rw [huv.1]
    by_cases hk : k' = v.1
    · rw [if_pos hk, if_pos hk]
      exact huv.2 _ _ (h _)
    · rw [if_neg hk, if_neg hk]; exact h k'

theorem fill_rel (wT wF : Key → W) (p : Key) (h : ∀ k, er (wT k) = er (wF k)) : ∀ (c β : Nat) (prob : Rat),
    RelL (fillUsT wT p c β prob) (fillUs wF p c β prob) := by
  intro c
  induction c with
  | zero => intro β prob; exact RelL.nil
  | succ c ih =>
    intro β prob
    have hb : (setExtension (wT ((p.drop 1).take β))).backoff = (setExtension (wF ((p.drop 1).take β))).backoff := by
      rw [setExtension_backoff, setExtension_backoff]; exact (er_fields _ _ (h _)).2.2.1
    simp only [fillUsT, fillUs]
    refine RelL.cons ⟨rfl, fun w w' hw => er_setExtension w w' hw⟩ (RelL.cons ⟨rfl, fun w w' hw => ?_⟩ ?_)
    · rw [hb]
      obtain ⟨h1, h2, h3, h4⟩ := er_fields w w' hw
      apply er_of_fields <;> simp [setRest, setProb, h3, h4]
    · rw [hb]; exact ih _ _

theorem mark_rel (W2 : Key → W) : ∀ (keys : List Key) (lr : Rat),
    RelL (markUsT W2 keys lr) (keys.map fun k => (k, clr)) := by
  intro keys
  induction keys with
  | nil => intro lr; exact RelL.nil
  | cons k ks ih =>
    intro lr
    simp only [markUsT, List.map_cons]
    refine RelL.cons ⟨rfl, fun w w' hw => ?_⟩ (ih _)
    obtain ⟨h1, h2, h3, h4⟩ := er_fields w w' hw
    show er (markExtends true w lr).1 = er (clr w')
    rw [markExtends_true]
    apply er_of_fields <;> simp [clr, h1, h3, h4]

section
variable {combine : Nat → Word → Nat} {a : Arpa} {nWords : Nat} {um : Rat} {caps : Nat → Nat} {S : List Key}
  {p : Key} {e : Entry} {b L : Nat}

theorem er_wantT (a : Arpa) (u0 : List W) (S : List Key) (k : Key) : er (wantT a u0 S k) = er (wantAll a u0 S k) := by
  simp [er, wantT]

theorem er_want1 (a : Arpa) (u0 : List W) (S : List Key) (p : Key) (e : Entry) (b L : Nat) (k : Key) :
    er (want1T a u0 S p e b L k) = er (want1F a u0 S p e b L k) := by
  unfold want1T want1F
  split
  · rfl
  · unfold updW; split
    · rfl
    · exact er_wantT a u0 S k

/-- all fields except `rest`: the `MaxRestBuild` run on a chain leaves what the `NoRestBuild` run leaves -/
theorem CH.w5_er (ch : CH combine a nWords um caps S p e b L) (k : Key) :
    er (w5T a (initUni a nWords) S p e b L k) = er (chainWant (want1F a (initUni a nWords) S p e b L) p b L k) := by
  have hb := ch.hb
  have hprob : -(want1T a (initUni a nWords) S p e b L (p.take b)).mag = -(want1F a (initUni a nWords) S p e b L (p.take b)).mag := by
    rw [(er_fields _ _ (er_want1 a _ S p e b L (p.take b))).1]
  have h3 : ∀ k, er (w3T a (initUni a nWords) S p e b L k) =
      er (applyUpd (applyUpd (want1F a (initUni a nWords) S p e b L)
        (fillUs (want1F a (initUni a nWords) S p e b L) p L b (-(want1F a (initUni a nWords) S p e b L (p.take b)).mag)))
        ((chainKeys p b L).map fun k => (k, clr)) k) := by
    intro k
    unfold w3T
    rw [hprob]
    exact applyUpd_er _ _ (mark_rel _ _ _) _ _
      (fun k' => applyUpd_er _ _ (fill_rel _ _ p (er_want1 a _ S p e b L) L b _) _ _ (er_want1 a _ S p e b L) k') k
  have h4 : ∀ k, er (w4T a (initUni a nWords) S p e b L k) = er (w3T a (initUni a nWords) S p e b L k) := by
    intro k
    unfold w4T
    split
    · rename_i hc
      have hneg : (w3T a (initUni a nWords) S p e b L k).neg = false := by
        rw [hc.2.2, ch.w3_low k.length hc.1 (by omega)]
        simp only [wantT]
        apply wantAll_neg_false
        rw [endsInK_true_iff]
        refine ⟨p.take (k.length + 1), ch.pre_mem (k.length + 1) (by omega) (by omega),
          by rw [ch.take_len _ (by omega), ch.take_len _ (by omega)], ?_⟩
        rw [ch.take_len _ (by omega), List.take_take, Nat.min_eq_left (by omega)]
      rw [markExtends_true]
      apply er_of_fields <;> simp [hneg]
    · rfl
  unfold w5T chainWant updW
  by_cases hk : k = p.drop 1
  · rw [if_pos hk, if_pos hk]
    exact er_setExtension _ _ (by rw [h4, h3])
  · rw [if_neg hk, if_neg hk, h4, h3]

/-- … hence they are the payloads prescribed for the enlarged key set -/
theorem CH.w5_nonrest (ch : CH combine a nWords um caps S p e b L) (k : Key) (hk : k ∈ addLineKeys S p ∨ k.length = 1) :
    er (w5T a (initUni a nWords) S p e b L k) = er (wantAll a (initUni a nWords) (addLineKeys S p) k) := by
  rw [ch.w5_er k, ch.chain_sem k hk]

end

end KV.ProbingBuild
